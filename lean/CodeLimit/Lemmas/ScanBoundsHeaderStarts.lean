import CodeLimit.Lemmas.ScanBoundsHeaders
/-!
# Distinct header starts, also across the two patterns of JavaScript / TypeScript

Headers of one `get_headers` call have distinct starts (C14).  For two different patterns of one
language a decidable check on the two compiled DFAs (`crossDisjoint`, evaluated by
`decide +kernel` on the generated patterns) shows that they cannot both match from the same
token: either the predicates on the first token exclude each other (`function` / `const`), or
both runs need a second token and the predicates on it exclude each other (`(` / `=`).
-/
namespace CL

/-! ## predicates that exclude each other -/

/-- the token kind a (stateless) predicate forces -/
def Pred.kind0 : Pred → Option Nat
  | .name => some 2
  | .keyword _ => some 1
  | .symbol _ => some 3
  | .operator _ => some 4
  | _ => none

/-- the token text a (stateless) predicate forces -/
def Pred.val0 : Pred → Option Str
  | .keyword v => some v
  | .symbol v => some v
  | .operator v => some v
  | .value v => some v
  | _ => none

/-- acceptance by a predicate copy that has not seen any token yet (nesting depth 0):
a `Balanced` accepts exactly its opening token -/
def Pred.evalZ : Pred → Tok → Bool
  | .balanced l _, t => l.eval t
  | q, t => q.eval t

def Pred.open0 : Pred → Pred
  | .balanced l _ => l
  | q => q

theorem Pred.evalZ_eq (p : Pred) (t : Tok) : p.evalZ t = p.open0.eval t := by
  cases p <;> rfl

theorem Pred.kind0_sound : ∀ (p : Pred) (k : Nat) (t : Tok), p.kind0 = some k → p.eval t = true →
    t.kind = k
  | .name, k, t, hk, he => by
    cases hk; simpa [Pred.eval, Tok.isName] using he
  | .keyword _, k, t, hk, he => by
    cases hk
    simp only [Pred.eval, Tok.isKeyword, Bool.and_eq_true, beq_iff_eq] at he; exact he.1
  | .symbol _, k, t, hk, he => by
    cases hk
    simp only [Pred.eval, Tok.isSymbol, Bool.and_eq_true, beq_iff_eq] at he; exact he.1
  | .operator _, k, t, hk, he => by
    cases hk
    simp only [Pred.eval, Tok.isOperator, Bool.and_eq_true, beq_iff_eq] at he; exact he.1
  | .value _, _, _, hk, _ => by cases hk
  | .ident _, _, _, hk, _ => by cases hk
  | .not _, _, _, hk, _ => by cases hk
  | .and _ _, _, _, hk, _ => by cases hk
  | .or _ _, _, _, hk, _ => by cases hk
  | .balanced _ _, _, _, hk, _ => by cases hk

theorem Pred.val0_sound : ∀ (p : Pred) (v : Str) (t : Tok), p.val0 = some v → p.eval t = true →
    t.val = v
  | .keyword _, v, t, hv, he => by
    cases hv
    simp only [Pred.eval, Bool.and_eq_true, beq_iff_eq] at he; exact he.2
  | .symbol _, v, t, hv, he => by
    cases hv
    simp only [Pred.eval, Tok.isSymbol, Bool.and_eq_true, beq_iff_eq] at he; exact he.2
  | .operator _, v, t, hv, he => by
    cases hv
    simp only [Pred.eval, Tok.isOperator, Bool.and_eq_true, beq_iff_eq] at he; exact he.2
  | .value _, v, t, hv, he => by
    cases hv
    simpa [Pred.eval] using he
  | .name, _, _, hv, _ => by cases hv
  | .ident _, _, _, hv, _ => by cases hv
  | .not _, _, _, hv, _ => by cases hv
  | .and _ _, _, _, hv, _ => by cases hv
  | .or _ _, _, _, hv, _ => by cases hv
  | .balanced _ _, _, _, hv, _ => by cases hv

/-- a sufficient syntactic test: the two predicates (taken at nesting depth 0) force different
kinds or different texts -/
def predDisj (p q : Pred) : Bool :=
  (match p.open0.kind0, q.open0.kind0 with
   | some a, some b => a != b
   | _, _ => false) ||
  (match p.open0.val0, q.open0.val0 with
   | some a, some b => a != b
   | _, _ => false)

theorem predDisj_sound {p q : Pred} (h : predDisj p q = true) (t : Tok)
    (hp : p.evalZ t = true) (hq : q.evalZ t = true) : False := by
  rw [Pred.evalZ_eq] at hp hq
  unfold predDisj at h
  rcases (Bool.or_eq_true_iff.1 h) with h | h
  · split at h
    · next a b ha hb =>
      have h1 := Pred.kind0_sound _ a t ha hp
      have h2 := Pred.kind0_sound _ b t hb hq
      simp only [bne_iff_ne, ne_eq] at h
      exact h (h1.symm.trans h2)
    · cases h
  · split at h
    · next a b ha hb =>
      have h1 := Pred.val0_sound _ a t ha hp
      have h2 := Pred.val0_sound _ b t hb hq
      simp only [bne_iff_ne, ne_eq] at h
      exact h (h1.symm.trans h2)
    · cases h

/-! ## `Pattern.consume` on simple rows -/

def Pred.plain : Pred → Bool
  | .balanced _ _ => false
  | _ => true

theorem acceptTok_plain (p : Pred) (ds : Depths) (t : Tok) (hp : p.plain = true) :
    acceptTok p ds t = (p.eval t, ds) := by
  cases p <;> first | rfl | cases hp

theorem acceptTok_nil (p : Pred) (t : Tok) : (acceptTok p [] t).1 = p.evalZ t := by
  cases p with
  | balanced l r =>
    simp only [acceptTok, getDepth, List.find?_nil, Pred.evalZ]
    cases l.eval t <;> cases r.eval t <;> simp
  | _ => rfl

/-- a row whose predicates are all stateless -/
def rowPlain (row : List (Pred × DState)) : Bool := row.all (fun e => e.1.plain)

/-- a row in which every predicate is evaluated on the incoming predicate state -/
def rowSimple (row : List (Pred × DState)) : Bool := rowPlain row || decide (row.length ≤ 1)

theorem consumeAux_plain (x : Tok) : ∀ (row : List (Pred × DState)) (f : Option DState)
    (ps : Depths) (t : DState) (ps' : Depths), rowPlain row = true →
    consumeAux tokAcceptor x row f ps = .ok (some t, ps') →
    ps' = ps ∧ (f = some t ∨ ∃ p, (p, t) ∈ row ∧ p.eval x = true)
  | [], f, ps, t, ps', _, h => by
    simp only [consumeAux, Except.ok.injEq, Prod.mk.injEq] at h
    exact ⟨h.2.symm, .inl h.1⟩
  | (p, u) :: rest, f, ps, t, ps', hrow, h => by
    simp only [rowPlain, List.all_cons, Bool.and_eq_true] at hrow
    have hacc : tokAcceptor.accept p ps x = (p.eval x, ps) := acceptTok_plain p ps x hrow.1
    unfold consumeAux at h
    simp only [hacc] at h
    split at h
    · next he =>
      split at h
      · cases h
      · obtain ⟨h1, h2⟩ := consumeAux_plain x rest (some u) ps t ps' hrow.2 h
        refine ⟨h1, .inr ?_⟩
        rcases h2 with h2 | ⟨q, hq, hq'⟩
        · cases h2; exact ⟨p, List.mem_cons_self, he⟩
        · exact ⟨q, List.mem_cons_of_mem _ hq, hq'⟩
    · obtain ⟨h1, h2⟩ := consumeAux_plain x rest f ps t ps' hrow.2 h
      refine ⟨h1, ?_⟩
      rcases h2 with h2 | ⟨q, hq, hq'⟩
      · exact .inl h2
      · exact .inr ⟨q, List.mem_cons_of_mem _ hq, hq'⟩

theorem consume_plain (x : Tok) (row : List (Pred × DState)) (ps : Depths) (t : DState)
    (ps' : Depths) (hrow : rowPlain row = true)
    (h : consume tokAcceptor row ps x = .ok (some (t, ps'))) :
    ps' = ps ∧ ∃ p, (p, t) ∈ row ∧ p.eval x = true := by
  unfold consume at h
  split at h
  · cases h
  · cases h
  · next t' ps'' haux =>
    simp only [Except.ok.injEq, Option.some.injEq, Prod.mk.injEq] at h
    obtain ⟨rfl, rfl⟩ := h
    obtain ⟨h1, h2⟩ := consumeAux_plain x row none ps _ _ hrow haux
    refine ⟨h1, ?_⟩
    rcases h2 with h2 | h2
    · cases h2
    · exact h2

/-- on a simple row and a fresh predicate state the chosen transition accepts at depth 0 -/
theorem consume_simple_nil (x : Tok) (row : List (Pred × DState)) (t : DState) (ps' : Depths)
    (hrow : rowSimple row = true) (h : consume tokAcceptor row [] x = .ok (some (t, ps'))) :
    ∃ p, (p, t) ∈ row ∧ p.evalZ x = true := by
  rcases (Bool.or_eq_true_iff.1 hrow) with hpl | hlen
  · obtain ⟨_, p, hp, he⟩ := consume_plain x row [] t ps' hpl h
    refine ⟨p, hp, ?_⟩
    have : p.plain = true := by
      simp only [rowPlain, List.all_eq_true] at hpl
      exact hpl (p, t) hp
    cases p <;> first | exact he | cases this
  · match row, hlen with
    | [], _ => simp [consume, consumeAux] at h
    | [(p, u)], _ =>
      unfold consume consumeAux at h
      simp only [Option.isSome_none, Bool.false_eq_true, if_false, consumeAux] at h
      have hz := acceptTok_nil p x
      change (tokAcceptor.accept p [] x).1 = p.evalZ x at hz
      cases he : (tokAcceptor.accept p [] x).1 with
      | true =>
        simp only [he, if_true, Except.ok.injEq, Option.some.injEq, Prod.mk.injEq] at h
        exact ⟨p, by rw [← h.1]; exact List.mem_cons_self, by rw [← hz, he]⟩
      | false => simp [he] at h
    | _ :: _ :: _, hl => simp at hl

/-! ## the check on two DFAs -/

/-- two header DFAs cannot both run from the same token into an accepting state -/
def crossDisjoint (D1 D2 : Dfa Pred) : Bool :=
  rowPlain (D1.row .start) && rowPlain (D2.row .start) &&
  (D1.row .start).all fun e1 => (D2.row .start).all fun e2 =>
    predDisj e1.1 e2.1 ||
    (!D1.isAcc e1.2 && !D2.isAcc e2.2 && rowSimple (D1.row e1.2) && rowSimple (D2.row e2.2) &&
      (D1.row e1.2).all fun f1 => (D2.row e2.2).all fun f2 => predDisj f1.1 f2.1)

def crossOK (hp1 hp2 : HeaderPat) : Bool :=
  match compileTok hp1.expr, compileTok hp2.expr with
  | .ok D1, .ok D2 => crossDisjoint D1 D2
  | _, _ => false

def patsCrossOK : List HeaderPat → Bool
  | [] => true
  | p :: ps => ps.all (crossOK p) && patsCrossOK ps

/-- checked on the generated patterns of all seven languages -/
theorem shipped_patsCrossOK : ∀ L ∈ Gen.all.map (·.2), patsCrossOK L.pats = true := by
  decide +kernel

theorem plain_evalZ (p : Pred) (x : Tok) (hp : p.plain = true) : p.evalZ x = p.eval x := by
  cases p <;> first | rfl | cases hp

/-- two accepting runs of cross-disjoint DFAs cannot start with the same two tokens -/
theorem crossDisjoint_runs {D1 D2 : Dfa Pred} (hc : crossDisjoint D1 D2 = true)
    {w1 w2 : List Tok} {q1 q2 : DState × Depths}
    (h1 : runM (dfaMachine D1 tokAcceptor) (dfaMachine D1 tokAcceptor).init w1 = some q1)
    (h2 : runM (dfaMachine D2 tokAcceptor) (dfaMachine D2 tokAcceptor).init w2 = some q2)
    (ha1 : D1.isAcc q1.1 = true) (ha2 : D2.isAcc q2.1 = true)
    (hne1 : w1 ≠ []) (hne2 : w2 ≠ []) (h0 : w1[0]? = w2[0]?)
    (h01 : 1 < w1.length → 1 < w2.length → w1[1]? = w2[1]?) : False := by
  simp only [crossDisjoint, Bool.and_eq_true, List.all_eq_true, Bool.or_eq_true,
    Bool.not_eq_true'] at hc
  obtain ⟨⟨hp1, hp2⟩, hall⟩ := hc
  match w1, w2, hne1, hne2 with
  | x :: r1, x' :: r2, _, _ =>
    simp only [List.getElem?_cons_zero, Option.some.injEq] at h0
    subst h0
    simp only [runM] at h1 h2
    split at h1
    · next s1 hs1 =>
      split at h2
      · next s2 hs2 =>
        obtain ⟨t1, d1⟩ := s1
        obtain ⟨t2, d2⟩ := s2
        obtain ⟨hd1, p1, hm1, he1⟩ := consume_plain x _ _ _ _ hp1 hs1
        obtain ⟨hd2, p2, hm2, he2⟩ := consume_plain x _ _ _ _ hp2 hs2
        have hpl1 : p1.plain = true := by
          simp only [rowPlain, List.all_eq_true] at hp1; exact hp1 _ hm1
        have hpl2 : p2.plain = true := by
          simp only [rowPlain, List.all_eq_true] at hp2; exact hp2 _ hm2
        rcases hall _ hm1 _ hm2 with hd | ⟨⟨⟨⟨hna1, hna2⟩, hrs1⟩, hrs2⟩, hsec⟩
        · exact predDisj_sound hd x (by rw [plain_evalZ _ _ hpl1]; exact he1)
            (by rw [plain_evalZ _ _ hpl2]; exact he2)
        · -- both runs need a second token
          simp only at hna1 hna2 hrs1 hrs2 hsec
          match r1, r2 with
          | [], _ =>
            simp only [runM, Option.some.injEq] at h1
            subst h1
            simp only at ha1
            rw [hna1] at ha1; cases ha1
          | _ :: _, [] =>
            simp only [runM, Option.some.injEq] at h2
            subst h2
            simp only at ha2
            rw [hna2] at ha2; cases ha2
          | y :: r1', y' :: r2' =>
            have := h01 (by simp) (by simp)
            simp only [List.getElem?_cons_succ, List.getElem?_cons_zero, Option.some.injEq] at this
            subst this
            simp only [runM] at h1 h2
            split at h1
            · next s1' hs1' =>
              split at h2
              · next s2' hs2' =>
                obtain ⟨u1, e1⟩ := s1'
                obtain ⟨u2, e2⟩ := s2'
                have hd1' : d1 = [] := hd1
                have hd2' : d2 = [] := hd2
                subst hd1' hd2'
                obtain ⟨f1, hf1, hz1⟩ := consume_simple_nil y _ _ _ hrs1 hs1'
                obtain ⟨f2, hf2, hz2⟩ := consume_simple_nil y _ _ _ hrs2 hs2'
                exact predDisj_sound (hsec _ hf1 _ hf2) y hz1 hz2
              · cases h2
            · cases h1
      · cases h2
    · cases h1

/-! ## headers of two different patterns start at different tokens -/

/-- the accepting run behind a header -/
theorem header_run {hp : HeaderPat} (hok : headerPatOK hp = true) {toks : List Tok}
    {hs : List Header} (h : getHeaders hp toks = .ok hs) :
    ∀ hd ∈ hs, ∃ D q, compileTok hp.expr = .ok D ∧ hd.rng.s < hd.rng.e ∧ hd.rng.e ≤ toks.length ∧
      runM (dfaMachine D tokAcceptor) (dfaMachine D tokAcceptor).init
        (slice toks hd.rng.s hd.rng.e) = some q ∧ D.isAcc q.1 = true := by
  obtain ⟨D, ms, ms', hD, hms, hsub, hnames⟩ := getHeaders_decomp h
  have hDok : headerDfaOK D = true := by simpa [headerPatOK, hD] using hok
  have hnn : (dfaMachine D tokAcceptor).acc (dfaMachine D tokAcceptor).init = false := by
    simp only [headerDfaOK, Bool.and_eq_true, Bool.not_eq_true'] at hDok
    exact hDok.1
  have hds := dfaMachine_deadStuck D (tokAcceptor)
  obtain ⟨_, hnm⟩ := namesOf_spec ms' hs hnames
  intro hd hhd
  obtain ⟨m, hm, hr, _⟩ := hnm hd hhd
  have hmm := hsub.subset hm
  obtain ⟨hlt, hle, q, hrun, hacc, _⟩ := C14.greedy hnn hds hms m hmm
  rw [hr]
  exact ⟨D, q, hD, hlt, hle, hrun, hacc⟩

theorem slice_length {β : Type} (xs : List β) {s e : Nat} (h : e ≤ xs.length) :
    (slice xs s e).length = e - s := by
  unfold slice
  rw [List.length_take, List.length_drop]
  omega

theorem cross_starts_ne {hp1 hp2 : HeaderPat} (hok1 : headerPatOK hp1 = true)
    (hok2 : headerPatOK hp2 = true) (hc : crossOK hp1 hp2 = true) {toks : List Tok}
    {hs1 hs2 : List Header} (h1 : getHeaders hp1 toks = .ok hs1) (h2 : getHeaders hp2 toks = .ok hs2) :
    ∀ a ∈ hs1, ∀ b ∈ hs2, a.rng.s ≠ b.rng.s := by
  intro a ha b hb heq
  obtain ⟨D1, q1, hD1, hlt1, hle1, hrun1, hacc1⟩ := header_run hok1 h1 a ha
  obtain ⟨D2, q2, hD2, hlt2, hle2, hrun2, hacc2⟩ := header_run hok2 h2 b hb
  have hcd : crossDisjoint D1 D2 = true := by simpa [crossOK, hD1, hD2] using hc
  have hl1 := slice_length toks (s := a.rng.s) hle1
  have hl2 := slice_length toks (s := b.rng.s) hle2
  refine crossDisjoint_runs hcd hrun1 hrun2 hacc1 hacc2 ?_ ?_ ?_ ?_
  · intro h0; rw [h0] at hl1; simp at hl1; omega
  · intro h0; rw [h0] at hl2; simp at hl2; omega
  · rw [slice_getElem? toks _ _ 0 (by omega), slice_getElem? toks _ _ 0 (by omega), heq]
  · intro h1' h2'
    rw [slice_getElem? toks _ _ 1 (by omega), slice_getElem? toks _ _ 1 (by omega), heq]

theorem concatHeaders_mem {toks : List Tok} : ∀ (pats : List HeaderPat) (hs : List Header),
    concatHeaders toks pats = .ok hs → ∀ hd ∈ hs, ∃ hp ∈ pats, ∃ hs', getHeaders hp toks = .ok hs' ∧ hd ∈ hs'
  | [], hs, h => by simp only [concatHeaders, Except.ok.injEq] at h; subst h; simp
  | hp :: pats, hs, h => by
    unfold concatHeaders at h
    split at h
    · next a b ha hb =>
      cases h
      intro hd hhd
      rcases List.mem_append.1 hhd with hhd | hhd
      · exact ⟨hp, List.mem_cons_self, a, ha, hhd⟩
      · obtain ⟨hp', hm, hs', h1, h2⟩ := concatHeaders_mem pats b hb hd hhd
        exact ⟨hp', List.mem_cons_of_mem _ hm, hs', h1, h2⟩
    · cases h
    · cases h

theorem concatHeaders_nodup {toks : List Tok} : ∀ (pats : List HeaderPat) (hs : List Header),
    (∀ hp ∈ pats, headerPatOK hp = true) → patsCrossOK pats = true →
    concatHeaders toks pats = .ok hs → (hs.map (·.rng.s)).Nodup
  | [], hs, _, _, h => by simp only [concatHeaders, Except.ok.injEq] at h; subst h; simp
  | hp :: pats, hs, hok, hcross, h => by
    simp only [patsCrossOK, Bool.and_eq_true, List.all_eq_true] at hcross
    unfold concatHeaders at h
    split at h
    · next a b ha hb =>
      cases h
      have hokp := hok hp List.mem_cons_self
      have hspec := getHeaders_spec hokp ha
      have hnda : (a.map (·.rng.s)).Nodup := by
        rw [List.Nodup, List.pairwise_map]
        refine (List.Pairwise.and_mem.1 hspec.1).imp ?_
        intro x y ⟨hx, _, hxy⟩
        have := (hspec.2 x hx).1
        omega
      have hndb := concatHeaders_nodup pats b (fun p hp' => hok p (List.mem_cons_of_mem _ hp'))
        hcross.2 hb
      rw [List.map_append, List.Nodup, List.pairwise_append]
      refine ⟨hnda, hndb, ?_⟩
      intro x hx y hy
      obtain ⟨x', hx', rfl⟩ := List.mem_map.1 hx
      obtain ⟨y', hy', rfl⟩ := List.mem_map.1 hy
      obtain ⟨hp', hm, hs', h1, h2⟩ := concatHeaders_mem pats b hb y' hy'
      exact cross_starts_ne hokp (hok hp' (List.mem_cons_of_mem _ hm)) (hcross.1 hp' hm) ha h1 x' hx' y' h2
    · cases h
    · cases h

/-- the headers of a shipped language start at pairwise distinct tokens -/
theorem extractHeaders_starts_nodup (L : Language) (hL : L ∈ Gen.all.map (·.2)) {toks : List Tok}
    {hs : List Header} (h : extractHeaders L toks = .ok hs) : (hs.map (·.rng.s)).Nodup := by
  obtain ⟨hs0, h0, hsub⟩ := extractHeaders_sub h
  exact List.Pairwise.sublist (hsub.map _)
    (concatHeaders_nodup L.pats hs0 (shipped_headerPatOK L hL) (shipped_patsCrossOK L hL) h0)

end CL
