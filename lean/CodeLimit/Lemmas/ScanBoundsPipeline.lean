import CodeLimit.Lemmas.ScanBoundsHeaders
/-!
# Index bounds, part 5: the pipeline `buildScopes` / `scanFile` never raises
-/
namespace CL

/-- a scope `measure` can handle: header start inside the tokens, block end positive and inside -/
def ScopeOK (n : Nat) (sc : Scope) : Prop := sc.hdr.rng.s < n ∧ 0 < sc.blk.e ∧ sc.blk.e ≤ n

/-- the scopes in report order with their children, from the scope list after `nocl` filtering -/
def reportScopes (L : Language) (fl : List Scope) : List (Scope × List Range) :=
  if L.nested then withChildren fl (foldParents fl 0 []) else (filterNested fl none).map (fun s => (s, []))

/-- `buildScopes` succeeds exactly when its three raising stages do -/
theorem buildScopes_decomp {L : Language} {all : List Tok} {scs : List (Scope × List Range)}
    (h : buildScopes L all = .ok scs) :
    ∃ hs bs sc, extractHeaders L (filterTokens false all) = .ok hs ∧
      extractBlocks L (filterTokens false all) hs = .ok bs ∧
      buildScopes0 (filterTokens false all) hs bs = .ok sc ∧
      scs = reportScopes L (filterNocl sc (noclTokens all)) := by
  unfold buildScopes at h
  simp only [bind, Except.bind] at h
  split at h
  · cases h
  · next hs hhs =>
    split at h
    · cases h
    · next bs hbs =>
      split at h
      · cases h
      · next sc hsc =>
        refine ⟨hs, bs, sc, hhs, hbs, hsc, ?_⟩
        unfold reportScopes
        split at h <;> · simp only [pure, Except.pure, Except.ok.injEq] at h; simp [*]

theorem buildScopes_of_stages {L : Language} {all : List Tok} {hs : List Header} {bs : List Range}
    {sc : List Scope} (h1 : extractHeaders L (filterTokens false all) = .ok hs)
    (h2 : extractBlocks L (filterTokens false all) hs = .ok bs)
    (h3 : buildScopes0 (filterTokens false all) hs bs = .ok sc) :
    buildScopes L all = .ok (reportScopes L (filterNocl sc (noclTokens all))) := by
  unfold buildScopes reportScopes
  simp only [bind, Except.bind, h1, h2, h3]
  split <;> rfl

theorem extractBlocks_ok (L : Language) {toks : List Tok} {hs : List Header}
    (hwf : ∀ h ∈ hs, HeaderWF toks h) :
    ∃ bs, extractBlocks L toks hs = .ok bs ∧ ∀ b ∈ bs, BlockOK toks.length b := by
  unfold extractBlocks
  split
  · exact pyBlocks_ok toks hs (fun h hh => (hwf h hh).1)
  · obtain ⟨bs, hbs⟩ := getBlocks_total toks
    exact ⟨bs, hbs, fun b hb => (getBlocks_blockWF hbs b hb).ok⟩

/-- the scope builder succeeds on well-formed headers and usable blocks, and its scopes are
usable -/
theorem buildScopes0_ok {toks : List Tok} {hs : List Header} {bs : List Range}
    (hwf : ∀ h ∈ hs, HeaderWF toks h) (hbs : ∀ b ∈ bs, BlockOK toks.length b) :
    ∃ sc, buildScopes0 toks hs bs = .ok sc ∧ ∀ s ∈ sc, s.hdr ∈ hs ∧ ScopeOK toks.length s := by
  have hlt : ∀ h ∈ hs, h.rng.s < toks.length := fun h hh => by
    have := hwf h hh; unfold HeaderWF at this; omega
  obtain ⟨rh, r, hrh, hr, hsub, hsel⟩ := buildScopes0_spec (blocks := bs) hlt
  refine ⟨r, hr, fun s hs' => ?_⟩
  have hmem : s.hdr ∈ hs := by
    have : s.hdr ∈ rh.reverse := hsub.subset (List.mem_map.2 ⟨s, hs', rfl⟩)
    exact (sortDesc_perm_sorted hrh).1.mem_iff.1 (List.mem_reverse.1 this)
  obtain ⟨bl, hbl, hss⟩ := hsel s hs'
  exact ⟨hmem, hlt _ hmem, hss.ok (fun b hb => hbs b (hbl.subset hb))⟩

theorem reportScopes_ok {n : Nat} (L : Language) {fl : List Scope} (hfl : ∀ s ∈ fl, ScopeOK n s) :
    ∀ p ∈ reportScopes L fl, p.1 ∈ fl ∧ ScopeOK n p.1 ∧
      ∀ c ∈ p.2, c.s < n ∧ ∃ child ∈ fl, c = ⟨child.hdr.rng.s, child.blk.e⟩ ∧
        p.1.contains child = true := by
  intro p hp
  unfold reportScopes at hp
  split at hp
  · obtain ⟨h1, h2⟩ := withChildren_spec fl p hp
    refine ⟨h1, hfl _ h1, fun c hc => ?_⟩
    obtain ⟨child, hch, rfl, hcont⟩ := h2 c hc
    exact ⟨(hfl child hch).1, child, hch, rfl, hcont⟩
  · obtain ⟨s, hs, rfl⟩ := List.mem_map.1 hp
    have := (filterNested_sub fl none).subset hs
    exact ⟨this, hfl _ this, by simp⟩

/-- once the headers are extracted nothing else can raise (no assumed lemma involved) -/
theorem buildScopes_ok_of_headers (L : Language) (hL : L ∈ Gen.all.map (·.2)) (all : List Tok)
    {hs : List Header} (hhs : extractHeaders L (filterTokens false all) = .ok hs) :
    ∃ scs, buildScopes L all = .ok scs ∧
      ∀ p ∈ scs, ScopeOK (filterTokens false all).length p.1 ∧
        ∀ c ∈ p.2, c.s < (filterTokens false all).length := by
  have hwf := extractHeaders_wf' L hL hhs
  obtain ⟨bs, hbs, hbok⟩ := extractBlocks_ok L hwf
  obtain ⟨sc, hsc, hscok⟩ := buildScopes0_ok hwf hbok
  refine ⟨_, buildScopes_of_stages hhs hbs hsc, fun p hp => ?_⟩
  have hfl : ∀ s ∈ filterNocl sc (noclTokens all), ScopeOK (filterTokens false all).length s :=
    fun s hs' => (hscok s ((filterNocl_sub _ _).subset hs')).2
  obtain ⟨_, h2, h3⟩ := reportScopes_ok L hfl p hp
  exact ⟨h2, fun c hc => (h3 c hc).1⟩

theorem scanFile_ok_of_headers (L : Language) (hL : L ∈ Gen.all.map (·.2)) (all : List Tok)
    {hs : List Header} (hhs : extractHeaders L (filterTokens false all) = .ok hs) :
    ∃ ms, scanFile L all = .ok ms := by
  obtain ⟨scs, hscs, hok⟩ := buildScopes_ok_of_headers L hL all hhs
  have : ∀ p ∈ scs, ∃ m, measure (filterTokens false all) p.1 p.2 = .ok m := by
    intro p hp
    obtain ⟨⟨h1, h2, h3⟩, h4⟩ := hok p hp
    obtain ⟨m, _, _, hm, _⟩ := measure_spec h1 h2 h3 h4
    exact ⟨m, hm⟩
  obtain ⟨ms, hms⟩ := measureAll_ok scs this
  exact ⟨ms, by simp [scanFile, hscs, hms]⟩

/-- an error of `scanFile` can only be an error of header extraction -/
theorem scanFile_error (L : Language) (hL : L ∈ Gen.all.map (·.2)) (all : List Tok) {e : Err}
    (h : scanFile L all = .error e) : extractHeaders L (filterTokens false all) = .error e := by
  cases hhs : extractHeaders L (filterTokens false all) with
  | ok hs =>
    obtain ⟨ms, hms⟩ := scanFile_ok_of_headers L hL all hhs
    rw [hms] at h; cases h
  | error e' =>
    have : scanFile L all = .error e' := by
      simp [scanFile, buildScopes, hhs, bind, Except.bind]
    rw [this] at h; cases h; rfl

theorem buildScopes_ok (L : Language) (hL : L ∈ Gen.all.map (·.2)) (all : List Tok) :
    ∃ scs, buildScopes L all = .ok scs ∧
      ∀ p ∈ scs, ScopeOK (filterTokens false all).length p.1 ∧
        ∀ c ∈ p.2, c.s < (filterTokens false all).length := by
  obtain ⟨hs, hhs⟩ := extractHeaders_total L hL (filterTokens false all)
  exact buildScopes_ok_of_headers L hL all hhs

theorem scanFile_ok (L : Language) (hL : L ∈ Gen.all.map (·.2)) (all : List Tok) :
    ∃ ms, scanFile L all = .ok ms := by
  obtain ⟨hs, hhs⟩ := extractHeaders_total L hL (filterTokens false all)
  exact scanFile_ok_of_headers L hL all hhs

end CL
