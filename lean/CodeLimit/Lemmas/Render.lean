import CodeLimit.Spec.Render
/-!
# Lemmas for C18: the stable descending sort, sums, delta formatting
-/
namespace CL.Render

/-! ## `sortDesc` -/

section SortSec
variable {α : Type} (key : α → Int)

theorem insertDesc_perm (x : α) (l : List α) : (insertDesc key x l).Perm (x :: l) := by
  induction l with
  | nil => simp [insertDesc]
  | cons y ys ih =>
    unfold insertDesc; split
    · exact (List.Perm.cons y ih).trans (List.Perm.swap x y ys)
    · exact List.Perm.refl _

theorem sortDesc_perm (l : List α) : (sortDesc key l).Perm l := by
  induction l with
  | nil => simp [sortDesc]
  | cons x xs ih => exact (insertDesc_perm key x _).trans (List.Perm.cons x ih)

theorem insertDesc_pairwise (x : α) (l : List α) (h : l.Pairwise (fun a b => key a ≥ key b)) :
    (insertDesc key x l).Pairwise (fun a b => key a ≥ key b) := by
  induction l with
  | nil => simp [insertDesc]
  | cons y ys ih =>
    rw [List.pairwise_cons] at h
    unfold insertDesc; split
    · rename_i hgt
      rw [List.pairwise_cons]
      refine ⟨?_, ih h.2⟩
      intro z hz
      have := (insertDesc_perm key x ys).mem_iff.1 hz
      rcases List.mem_cons.1 this with rfl | hz'
      · omega
      · exact h.1 z hz'
    · rename_i hle
      rw [List.pairwise_cons]
      refine ⟨?_, List.pairwise_cons.2 h⟩
      intro z hz
      rcases List.mem_cons.1 hz with rfl | hz'
      · omega
      · have := h.1 z hz'; omega

theorem sortDesc_pairwise (l : List α) : (sortDesc key l).Pairwise (fun a b => key a ≥ key b) := by
  induction l with
  | nil => simp [sortDesc]
  | cons x xs ih => exact insertDesc_pairwise key x _ ih

theorem insertDesc_filter (x : α) (l : List α) (k : Int) :
    (insertDesc key x l).filter (fun a => decide (key a = k)) = (x :: l).filter (fun a => decide (key a = k)) := by
  induction l with
  | nil => simp [insertDesc]
  | cons y ys ih =>
    unfold insertDesc; split
    · rename_i hgt
      by_cases hy : key y = k
      · have hx : ¬ key x = k := by omega
        simp only [List.filter_cons, hy, hx, decide_true, decide_false, if_true] at ih ⊢
        simp [ih]
      · simp only [List.filter_cons, hy, decide_false] at ih ⊢
        simpa using ih
    · rfl

theorem sortDesc_filter (l : List α) (k : Int) :
    (sortDesc key l).filter (fun a => decide (key a = k)) = l.filter (fun a => decide (key a = k)) := by
  induction l with
  | nil => simp [sortDesc]
  | cons x xs ih =>
    show (insertDesc key x (sortDesc key xs)).filter _ = _
    rw [insertDesc_filter, List.filter_cons, List.filter_cons, ih]

/-- `sortDesc` computes the stable descending sort -/
theorem sortDesc_stableSorted (l : List α) : StableSortedDesc key (sortDesc key l) l :=
  ⟨sortDesc_perm key l, sortDesc_pairwise key l, sortDesc_filter key l⟩

/-- there is only one stable descending sort of a list -/
theorem stableSortedDesc_unique' (s s' : List α)
    (hs : s.Pairwise (fun a b => key a ≥ key b)) (hs' : s'.Pairwise (fun a b => key a ≥ key b))
    (hf : ∀ k : Int, s.filter (fun a => decide (key a = k)) = s'.filter (fun a => decide (key a = k))) :
    s = s' := by
  induction s generalizing s' with
  | nil =>
    cases s' with
    | nil => rfl
    | cons b t' => have := hf (key b); simp at this
  | cons a t ih =>
    cases s' with
    | nil => have := hf (key a); simp at this
    | cons b t' =>
      rw [List.pairwise_cons] at hs hs'
      have hab : key a = key b := by
        have h1 : a ∈ (b :: t').filter (fun x => decide (key x = key a)) := by
          rw [← hf]; simp
        have h2 : b ∈ (a :: t).filter (fun x => decide (key x = key b)) := by
          rw [hf]; simp
        have h1' := (List.mem_filter.1 h1).1
        have h2' := (List.mem_filter.1 h2).1
        rcases List.mem_cons.1 h1' with e | m1
        · rw [e]
        · rcases List.mem_cons.1 h2' with e | m2
          · rw [e]
          · have := hs'.1 a m1; have := hs.1 b m2; omega
      have hhead := hf (key a)
      have hb : decide (key b = key a) = true := by simp [hab]
      simp only [List.filter_cons, hb, if_true] at hhead
      injection hhead with e1 e2
      subst e1
      congr 1
      apply ih t' hs.2 hs'.2
      intro k
      by_cases hk : key a = k
      · subst hk; exact e2
      · have := hf k
        simpa [List.filter_cons, hk] using this

theorem stableSortedDesc_unique {s s' l : List α}
    (h : StableSortedDesc key s l) (h' : StableSortedDesc key s' l) : s = s' :=
  stableSortedDesc_unique' key s s' h.sorted h'.sorted (fun k => (h.stable k).trans (h'.stable k).symm)

theorem insertDesc_append (a : α) (l₁ l₂ : List α) (h1 : ∀ b ∈ l₁, key b > key a)
    (h2 : ∀ b ∈ l₂, key b ≤ key a) : insertDesc key a (l₁ ++ l₂) = l₁ ++ a :: l₂ := by
  induction l₁ with
  | nil =>
    cases l₂ with
    | nil => rfl
    | cons y ys =>
      have := h2 y (by simp)
      simp only [List.nil_append, insertDesc]
      rw [if_neg (by omega)]
  | cons y ys ih =>
    have hy := h1 y (by simp)
    simp only [List.cons_append, insertDesc]
    rw [if_pos hy, ih (fun b hb => h1 b (by simp [hb]))]

/-- `sortDesc` is core's (stable) merge sort with the reversed comparison -/
theorem sortDesc_eq_mergeSort (l : List α) :
    sortDesc key l = l.mergeSort (fun a b => decide (key b ≤ key a)) := by
  have htrans : ∀ a b c : α, decide (key b ≤ key a) = true → decide (key c ≤ key b) = true →
      decide (key c ≤ key a) = true := by
    intro a b c h1 h2; simp only [decide_eq_true_eq] at *; omega
  have htotal : ∀ a b : α, (decide (key b ≤ key a) || decide (key a ≤ key b)) = true := by
    intro a b; simp only [Bool.or_eq_true, decide_eq_true_eq]; omega
  induction l with
  | nil => simp [sortDesc]
  | cons a l ih =>
    obtain ⟨l₁, l₂, h1, h2, h3⟩ := List.mergeSort_cons (le := fun a b => decide (key b ≤ key a)) htrans htotal a l
    have hsorted := List.pairwise_mergeSort (le := fun a b => decide (key b ≤ key a)) htrans htotal (a :: l)
    rw [h1] at hsorted
    rw [List.pairwise_append] at hsorted
    have hl2 : ∀ b ∈ l₂, key b ≤ key a := by
      intro b hb
      have := (List.pairwise_cons.1 hsorted.2.1).1 b hb
      simpa using this
    have hl1 : ∀ b ∈ l₁, key b > key a := by
      intro b hb
      have := h3 b hb
      simp only [Bool.not_eq_true', decide_eq_false_iff_not] at this
      omega
    show insertDesc key a (sortDesc key l) = _
    rw [ih, h2, h1, insertDesc_append key a l₁ l₂ hl1 hl2]

theorem sortDesc_of_pairwise (l : List α) (h : l.Pairwise (fun a b => key a ≥ key b)) : sortDesc key l = l :=
  stableSortedDesc_unique' key _ _ (sortDesc_pairwise key l) h (sortDesc_filter key l)

end SortSec

/-! ## sums -/

theorem foldl_add_eq (l : List Int) (a : Int) : l.foldl (· + ·) a = a + l.sum := by
  induction l generalizing a with
  | nil => simp
  | cons x xs ih => simp [List.foldl_cons, ih]; omega

theorem sumOf_eq (f : LangTotals → Int) (t : Totals) : sumOf f t = (t.map f).sum := by
  unfold sumOf; rw [foldl_add_eq]; omega

/-! ## delta formatting -/

theorem annotate_eq (L : Locale) (plain : Bool) (total prev : Int) (h : plain = true ↔ total = prev) :
    annotate L plain total (total - prev) = annot L total prev := by
  unfold annotate annot
  by_cases e : total = prev
  · rw [if_pos (h.2 e), if_pos e]
  · rw [if_neg (fun hp => e (h.1 hp)), if_neg e]

/-! ## the units above a threshold -/

open CL.Gen.Logic in
theorem flatMap_filter_eq (files : Files) (thr : Int) (h : ∀ v : Int, units_keeps v thr ↔ v > 30) :
    (files.flatMap fun (file, ms) =>
      (ms.filter fun m => decide (units_keeps m.value thr)).map fun m => (⟨file, m⟩ : RUnit)) =
    (allUnits files).filter fun u => decide (u.m.value > 30) := by
  unfold allUnits
  induction files with
  | nil => rfl
  | cons f fs ih =>
    simp only [List.flatMap_cons, List.filter_append, ih]
    congr 1
    simp only [List.filter_map, Function.comp_def]
    congr 1
    apply List.filter_congr
    intro m _
    exact decide_eq_decide.2 (h m.value)

end CL.Render
