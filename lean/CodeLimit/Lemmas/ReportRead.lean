import CodeLimit.Lemmas.JsonDoc
import CodeLimit.Spec.Report
/-!
# `ReportReader.from_json` on the value of a report document
-/
namespace CL.Json

theorem mapM_map_ok {α β γ : Type} (f : α → Except RErr β) (h : γ → α) (g : γ → β) :
    ∀ (l : List γ), (∀ x ∈ l, f (h x) = .ok (g x)) → (l.map h).mapM f = .ok (l.map g)
  | [], _ => rfl
  | x :: xs, hx => by
    rw [List.map_cons, List.mapM_cons, hx x (List.mem_cons_self ..),
      mapM_map_ok f h g xs (fun y hy => hx y (List.mem_cons_of_mem _ hy))]
    rfl

theorem asOptStr_optJson (o : Option Str) : asOptStr (optJson o) = .ok o := by
  cases o <;> rfl

theorem readMeasurement_measJson (m : Meas) : readMeasurement (measJson m) = .ok m := by
  simp [readMeasurement, measJson, getKey, lookup, asInt, asStr, bind, Except.bind]

/-- what the reader makes of a file: the profile is recomputed from the measurements -/
def rereadFile (profileOf : List Meas → List Int) (f : FileData) : FileData :=
  { f with profile := profileOf f.measurements }

theorem readFile_fileJson (profileOf : List Meas → List Int) (k : Str) (f : FileData) :
    readFile profileOf k (fileJson f) = .ok (k, rereadFile profileOf f) := by
  have hm := mapM_map_ok readMeasurement measJson id f.measurements
    (fun m _ => readMeasurement_measJson m)
  simp [readFile, fileJson, getKey, lookup, asInt, asStr, iterMeasurements, bind, Except.bind, hm, rereadFile]

/-- the repository as the reader builds it: the tag is not in the document -/
def rereadRepo (r : Repo) : Repo := { r with tag := none }

theorem readRepository_repoJson (r : Repo) : readRepository (repoJson r) = .ok (rereadRepo r) := by
  simp [readRepository, repoJson, lookup, asStr, asOptStr_optJson, bind, Except.bind, rereadRepo]

/-- the files as the reader rebuilds them, in document order -/
def rereadFiles (profileOf : List Meas → List Int) (files : List (Str × FileData)) : List (Str × FileData) :=
  files.map fun kv => (kv.1, rereadFile profileOf kv.2)

/-- the report `from_json` returns for the document of `d` -/
def reread (build : List (Str × FileData) → List (Str × Totals) × List (Str × Folder))
    (profileOf : List Meas → List Int) (now : Str) (d : ReportData) : ReportData :=
  { version := d.version, uuid := d.uuid, timestamp := now, root := d.root,
    repository := d.repository.map rereadRepo,
    totals := (build (rereadFiles profileOf d.files)).1,
    tree := (build (rereadFiles profileOf d.files)).2,
    files := rereadFiles profileOf d.files }

theorem fromJson_toJson (build : List (Str × FileData) → List (Str × Totals) × List (Str × Folder))
    (profileOf : List Meas → List Int) (now : Str) (d : ReportData) (hk : (d.files.map (·.1)).Nodup) :
    fromJson build profileOf now (toJson d) = .ok (reread build profileOf now d) := by
  have hf := mapM_map_ok (fun kv : Str × JVal => readFile profileOf kv.1 kv.2)
    (fun kv : Str × FileData => (kv.1, fileJson kv.2)) (fun kv => (kv.1, rereadFile profileOf kv.2)) d.files
    (fun kv _ => readFile_fileJson profileOf kv.1 kv.2)
  have hnd : dictOfPairs (rereadFiles profileOf d.files) = rereadFiles profileOf d.files :=
    dictOfPairs_nodup _ (by simpa [rereadFiles, List.map_map, Function.comp_def] using hk)
  simp only [rereadFiles] at hnd
  cases hrep : d.repository with
  | none =>
    simp [fromJson, toJson, toJsonWith, hrep, getKey, getOpt, lookup, asStr, asOptStr_optJson, items, bind, Except.bind,
      hf, reread, rereadFiles, hnd]
  | some r =>
    simp [fromJson, toJson, toJsonWith, hrep, getKey, getOpt, lookup, asStr, asOptStr_optJson, items, bind, Except.bind,
      hf, reread, rereadFiles, hnd, readRepository_repoJson, Except.map]

end CL.Json
