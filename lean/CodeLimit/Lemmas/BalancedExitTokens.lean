import CodeLimit.Lemmas.BalancedExit
/-!
# The nesting profile of a match, in terms of the matched tokens (C14, last clause)

`Lemmas/BalancedExit.lean` measures the nesting on `bConsumed D b (start, []) m.toks`, the tokens
consumed by `b`-labelled transitions (`b = Balanced l r`). This file removes `bConsumed` from the
statements: under one more decidable check, `prePureOk`,

* no label other than `b` of a row of the *pre-phase* (the states of `noBSet D b`, reachable
  without a `b` transition) accepts a token that `l` or `r` accepts,

the tokens of a match before the first `b` transition are neither openers nor closers, so

* `m.toks = pre ++ y :: suf` with `pre` free of openers and closers, `y` an opener (the first one
  of the match) and `bConsumed D b (start, []) m.toks = y :: suf` (`match_exit_tokens`);
* `nest l r m.toks = nest l r (bConsumed …)`, every prefix of `m.toks` has `nest ≥ 0`, and a token
  that follows a prefix with `nest = 0` is an opener unless no opener or closer has occurred yet
  (`NestFacts`).
-/
namespace CL

/-! ## token lists without openers and closers -/

theorem nest_neutral {l r : Pred} {w : List Tok}
    (h : ∀ x ∈ w, l.eval x = false ∧ r.eval x = false) : nest l r w = 0 := by
  induction w with
  | nil => rfl
  | cons a w ih =>
    have ha := h a (List.mem_cons_self ..)
    have := ih (fun x hx => h x (List.mem_cons_of_mem _ hx))
    simp [nest, nestDelta, ha.1, ha.2, this]

/-- what is known about a token list `w` that splits into a part `pre` without openers and
closers and a part `suf` with the profile facts of `PostFacts` -/
structure NestFacts (l r : Pred) (w : List Tok) (dEnd : Int) : Prop where
  /-- the final depth is the nesting profile of the whole list -/
  depth : dEnd = nest l r w
  /-- the nesting never becomes negative -/
  nonneg : ∀ p, p <+: w → 0 ≤ nest l r p
  /-- a token that follows a prefix with nesting zero is an opener, unless no opener and no
  closer has occurred so far (that token included) -/
  opener : ∀ p y rest, w = p ++ y :: rest → nest l r p = 0 →
    l.eval y = true ∨ ∀ x ∈ p ++ [y], l.eval x = false ∧ r.eval x = false

theorem NestFacts.of_post {l r : Pred} {suf : List Tok} {e : Int} (pf : PostFacts l r 0 suf e) :
    NestFacts l r suf e where
  depth := by rw [pf.depth]; omega
  nonneg := by intro p hp; have := pf.nonneg p hp; omega
  opener := by intro p y rest hw hz; exact .inl (pf.opener p y rest hw (by omega))

theorem NestFacts.cons {l r : Pred} {a : Tok} {w : List Tok} {e : Int}
    (h : NestFacts l r w e) (hl : l.eval a = false) (hr : r.eval a = false) :
    NestFacts l r (a :: w) e where
  depth := by rw [h.depth]; simp [nest, nestDelta, hl, hr]
  nonneg := by
    intro p hp
    rcases List.prefix_cons_iff.1 hp with rfl | ⟨t, rfl, ht⟩
    · simp [nest]
    · have := h.nonneg t ht
      simpa [nest, nestDelta, hl, hr] using this
  opener := by
    intro p y rest hw hz
    cases p with
    | nil =>
      simp only [List.nil_append, List.cons.injEq] at hw
      right
      intro x hx
      have : x = a := by simpa [hw.1] using hx
      subst this
      exact ⟨hl, hr⟩
    | cons a' p' =>
      simp only [List.cons_append, List.cons.injEq] at hw
      obtain ⟨rfl, hw⟩ := hw
      have hz' : nest l r p' = 0 := by simpa [nest, nestDelta, hl, hr] using hz
      rcases h.opener p' y rest hw hz' with h1 | h1
      · exact .inl h1
      · right
        intro x hx
        rcases List.mem_cons.1 (show x ∈ a :: (p' ++ [y]) from hx) with rfl | hx'
        · exact ⟨hl, hr⟩
        · exact h1 x hx'

theorem NestFacts.of_split {l r : Pred} {pre suf : List Tok} {e : Int}
    (hpre : ∀ x ∈ pre, l.eval x = false ∧ r.eval x = false) (pf : PostFacts l r 0 suf e) :
    NestFacts l r (pre ++ suf) e := by
  induction pre with
  | nil => exact NestFacts.of_post pf
  | cons a pre ih =>
    have ha := hpre a (List.mem_cons_self ..)
    exact (ih (fun x hx => hpre x (List.mem_cons_of_mem _ hx))).cons ha.1 ha.2

/-! ## the additional check -/

/-- no label other than `b = Balanced l r` of a pre-phase row accepts a token that `l` or `r`
accepts -/
def prePureOk (D : Dfa Pred) (l r : Pred) : Bool :=
  D.rows.all (fun rw => !(noBSet D (.balanced l r)).contains rw.1 ||
    rw.2.all (fun pt => pt.1 == .balanced l r ||
      (!overlapPure pt.1 l && !overlapPure pt.1 r)))

/-- what `prePureOk` establishes -/
structure PrePure (D : Dfa Pred) (l r : Pred) : Prop where
  pure : ∀ s ∈ noBSet D (.balanced l r), ∀ pt ∈ D.row s, pt.1 ≠ .balanced l r →
    ∀ x, pt.1.eval x = true → l.eval x = false ∧ r.eval x = false

theorem prePureOk_spec {D : Dfa Pred} {l r : Pred} (h : prePureOk D l r = true) :
    PrePure D l r := by
  refine ⟨fun s hs pt hm hne x hx => ?_⟩
  rcases D.row_cases s with h0 | h0
  · rw [h0] at hm; cases hm
  · have h1 := List.all_eq_true.1 h _ h0
    have hc : (noBSet D (.balanced l r)).contains s = true := by simpa using hs
    simp only [hc, Bool.not_true, Bool.false_or, List.all_eq_true] at h1
    have h2 := h1 pt hm
    simp only [Bool.or_eq_true, beq_iff_eq, hne, false_or, Bool.and_eq_true,
      Bool.not_eq_true'] at h2
    constructor
    · cases hl : l.eval x
      · rfl
      · exact absurd ⟨hx, hl⟩ (overlapPure_sound h2.1 x)
    · cases hr : r.eval x
      · rfl
      · exact absurd ⟨hx, hr⟩ (overlapPure_sound h2.2 x)

/-- the check is exact: when it fails, some pre-phase row has a label other than `b` that
accepts an opener or a closer -/
theorem prePureOk_complete {D : Dfa Pred} {l r : Pred} (h : prePureOk D l r = false) :
    ∃ rw ∈ D.rows, rw.1 ∈ noBSet D (.balanced l r) ∧ ∃ pt ∈ rw.2, pt.1 ≠ .balanced l r ∧
      ∃ x, pt.1.eval x = true ∧ (l.eval x = true ∨ r.eval x = true) := by
  unfold prePureOk at h
  obtain ⟨rw, hrw, h1⟩ := List.all_eq_false.1 h
  rw [Bool.not_eq_true, Bool.or_eq_false_iff] at h1
  obtain ⟨hc, h2⟩ := h1
  obtain ⟨pt, hpt, h3⟩ := List.all_eq_false.1 h2
  have hne : pt.1 ≠ .balanced l r := by
    intro he; simp [he] at h3
  have hov : ¬ (overlapPure pt.1 l = false ∧ overlapPure pt.1 r = false) := by
    rintro ⟨h4, h5⟩; simp [h4, h5] at h3
  refine ⟨rw, hrw, by simpa using hc, pt, hpt, hne, ?_⟩
  cases ho : overlapPure pt.1 l
  · cases ho2 : overlapPure pt.1 r
    · exact absurd ⟨ho, ho2⟩ hov
    · obtain ⟨x, h1, h2⟩ := overlapPure_complete ho2
      exact ⟨x, h1, .inr h2⟩
  · obtain ⟨x, h1, h2⟩ := overlapPure_complete ho
    exact ⟨x, h1, .inl h2⟩

section
variable {D : Dfa Pred} {l r : Pred}

/-! ## a pre-phase step that is not a `b` step consumes neither an opener nor a closer -/

theorem step_pre_neutral (ok : ExitOK D l r) (pp : PrePure D l r) {s : DState} {ds : Depths}
    {x : Tok} {cfg' : DState × Depths} (hs : s ∈ noBSet D (.balanced l r))
    (h : (dfaMachine D tokAcceptor).step (s, ds) x = .ok (some cfg'))
    (hnb : takesB D (.balanced l r) (s, ds) x = false) :
    l.eval x = false ∧ r.eval x = false := by
  have haux := step_eq h
  obtain ⟨hone, hpure⟩ := ok.rowPre (ok.disj s hs)
  obtain ⟨_, htgt⟩ := consumeAux_mix (b := .balanced l r)
    (fun pt hm hne => (hpure pt hm hne).1) hone haux
  rcases htgt with h0 | ⟨p, g, _, hm, hacc⟩
  · cases h0
  · by_cases hpb : p = .balanced l r
    · subst hpb
      have : takesB D (.balanced l r) (s, ds) x = true := by
        simp [takesB, hasB_of_mem hm, hacc]
      rw [hnb] at this; cases this
    · have hpp := (hpure (p, g) hm hpb).1
      have hpe : p.eval x = true := by rw [acceptTok_pure hpp] at hacc; exact hacc
      exact pp.pure s hs (p, g) hm hpb x hpe

/-- a run that starts in the pre-phase: the tokens before the `b`-consumed ones are neither
openers nor closers -/
theorem run_pre_neutral (ok : ExitOK D l r) (pp : PrePure D l r) (w : List Tok) {s : DState}
    {ds : Depths} {q : DState × Depths} (hs : s ∈ noBSet D (.balanced l r))
    (hd : getDepth ds (.balanced l r) = 0)
    (hr : runM (dfaMachine D tokAcceptor) (s, ds) w = some q) :
    ∃ pre, w = pre ++ bConsumed D (.balanced l r) (s, ds) w ∧
      ∀ x ∈ pre, l.eval x = false ∧ r.eval x = false := by
  induction w generalizing s ds with
  | nil => exact ⟨[], rfl, by simp⟩
  | cons x xs ih =>
    simp only [runM] at hr
    split at hr
    · rename_i cfg' hstep
      obtain ⟨cs, cds⟩ := cfg'
      rcases step_pre ok hs hd hstep with ⟨h1, h2, h3⟩ | ⟨h1, _, h3, _, h5⟩
      · obtain ⟨pre, e1, e2⟩ := ih h2 h3 hr
        have hx := step_pre_neutral ok pp hs hstep h1
        refine ⟨x :: pre, ?_, ?_⟩
        · simp only [bConsumed, hstep, h1, Bool.false_eq_true, if_false, List.cons_append]
          rw [← e1]
        · intro y hy
          rcases List.mem_cons.1 hy with rfl | hy
          · exact hx
          · exact e2 y hy
      · obtain ⟨_, i2, _⟩ := run_post ok xs h3 (by rw [h5]; decide) hr
        refine ⟨[], ?_, by simp⟩
        simp only [bConsumed, hstep, h1, if_true, i2, List.nil_append]
    · cases hr

/-! ## reported matches -/

/-- everything about the nesting profile of a reported match, in terms of its tokens: they
split as `pre ++ y :: suf` where `pre` contains neither an opener nor a closer, `y` is an
opener and `y :: suf` are exactly the tokens consumed by `b` transitions -/
theorem match_exit_tokens (ok : ExitOK D l r) (pp : PrePure D l r) {toks : List Tok}
    {ms : List (Match Tok)} (hms : findAll (dfaMachine D tokAcceptor) toks = .ok ms)
    {m : Match Tok} (hm : m ∈ ms) :
    ∃ q pre y suf, runM (dfaMachine D tokAcceptor) (.start, []) m.toks = some q ∧
      D.isAcc q.1 = true ∧
      m.toks = pre ++ y :: suf ∧
      (∀ x ∈ pre, l.eval x = false ∧ r.eval x = false) ∧
      l.eval y = true ∧
      bConsumed D (.balanced l r) (.start, []) m.toks = y :: suf ∧
      NestFacts l r m.toks (getDepth q.2 (.balanced l r)) ∧
      (m.e < toks.length → getDepth q.2 (.balanced l r) = 0) := by
  obtain ⟨q, _, h1, h2, _, _, h5, h6, h7⟩ := match_exit ok hms hm
  obtain ⟨pre, e1, e2⟩ := run_pre_neutral ok pp m.toks ok.start rfl h1
  have sf : NestFacts l r m.toks (getDepth q.2 (.balanced l r)) := by
    rw [e1]; exact NestFacts.of_split e2 h6
  match hbc : bConsumed D (.balanced l r) (.start, []) m.toks, h5 with
  | [], h5 => exact absurd rfl h5
  | y :: suf, _ =>
    rw [hbc] at e1 h6
    exact ⟨q, pre, y, suf, h1, h2, e1, e2, h6.opener [] y suf rfl (by simp [nest]), rfl, sf, h7⟩

end

/-! ## checker bundle for header patterns, executable witness -/

def patPreOk (hp : HeaderPat) : Bool :=
  match compileTok hp.expr with
  | .ok D =>
    (match balPair D with
      | some (l, r) => prePureOk D l r
      | none => false)
  | .error _ => false

theorem patPreOk_spec {hp : HeaderPat} (h : patPreOk hp = true) {D : Dfa Pred}
    (hD : compileTok hp.expr = .ok D) {l r : Pred} (hb : balPair D = some (l, r)) :
    PrePure D l r := by
  unfold patPreOk at h
  rw [hD] at h
  simp only [hb] at h
  exact prePureOk_spec h

/-- `find_all` with the compiled pattern `rx` reports on `toks` a match `(s, e)` whose tokens
have nesting profile `n` and whose `b`-consumed tokens have nesting profile `k` (`n = k` for the
patterns that pass both checks; they may differ otherwise) -/
def tokWitness (rx : Rx Pred) (toks : List Tok) (s e : Nat) (n k : Int) : Bool :=
  match compileTok rx with
  | .ok D =>
    (match balPair D, findAll (dfaMachine D tokAcceptor) toks with
      | some (l, r), .ok ms =>
        ms.any (fun m => m.s == s && m.e == e && nest l r m.toks == n &&
          nest l r (bConsumed D (.balanced l r) (.start, []) m.toks) == k)
      | _, _ => false)
  | .error _ => false

theorem tokWitness_spec {rx : Rx Pred} {toks : List Tok} {s e : Nat} {n k : Int}
    (h : tokWitness rx toks s e n k = true) :
    ∃ D l r ms, compileTok rx = .ok D ∧ balPair D = some (l, r) ∧
      findAll (dfaMachine D tokAcceptor) toks = .ok ms ∧
      ∃ m ∈ ms, m.s = s ∧ m.e = e ∧ nest l r m.toks = n ∧
        nest l r (bConsumed D (.balanced l r) (.start, []) m.toks) = k := by
  unfold tokWitness at h
  split at h
  · rename_i D hD
    split at h
    · rename_i l r ms hb hms
      obtain ⟨m, hm, hc⟩ := List.any_eq_true.1 h
      simp only [Bool.and_eq_true, beq_iff_eq] at hc
      exact ⟨D, l, r, ms, hD, hb, hms, m, hm, hc.1.1.1, hc.1.1.2, hc.1.2, hc.2⟩
    · cases h
  · cases h

end CL
