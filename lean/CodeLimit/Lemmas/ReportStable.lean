import CodeLimit.Lemmas.ReportParse
/-!
# The timestamp occupies one place of the document
-/
namespace CL.Json

theorem item_line (p : Bool) (lvl : Nat) (t : Str) (he : EndsNonSpace t) : Item p (line p lvl t) (ind p lvl ++ t) :=
  ⟨by rw [line_eq], he.append_left _⟩

/-- the writer does not look at the repository's tag -/
theorem write_ignores_tag (p : Bool) (d : ReportData) (f : Repo → Option Str) :
    write p { d with repository := d.repository.map fun r => { r with tag := f r } } = write p d := by
  cases h : d.repository <;> simp [write, h, codebaseToJson, repositoryToJson]

/-- the document is `pre ++ dumps(timestamp) ++ post` where `pre` and `post` do not depend on
the timestamp -/
theorem write_split (p : Bool) (d : ReportData) (hd : GoodReport d) :
    ∃ pre post, ∀ ts, write p { d with timestamp := ts } = pre ++ dumpsStr ts ++ post := by
  obtain ⟨bc, hic, _⟩ := codebase_mitem p 2 d hd
  have iv := item_line p 2 (cp! "\"version\": " ++ dumpsOpt d.version) ((ens_dumpsOpt _).append_left _)
  have iu := item_line p 2 (cp! "\"uuid\": " ++ dumpsStr d.uuid) ((ens_dumpsStr _).append_left _)
  have it := fun ts => item_line p 2 (cp! "\"timestamp\": " ++ dumpsStr ts) ((ens_dumpsStr _).append_left _)
  have ir := item_line p 2 (cp! "\"root\": " ++ dumpsStr d.root) ((ens_dumpsStr _).append_left _)
  cases hrep : d.repository with
  | none =>
    refine ⟨line p 0 (cp! "{") ++ ((ind p 2 ++ (cp! "\"version\": " ++ dumpsOpt d.version)) ++ (44 :: sepw p) ++
        ((ind p 2 ++ (cp! "\"uuid\": " ++ dumpsStr d.uuid)) ++ (44 :: sepw p) ++ (ind p 2 ++ cp! "\"timestamp\": "))),
      (44 :: sepw p) ++ (44 :: sepw p).intercalate [ind p 2 ++ (cp! "\"root\": " ++ dumpsStr d.root), bc] ++ nl p ++
        line p 0 (cp! "}"), fun ts => ?_⟩
    have hall : All2 (Item p) _ _ := .cons iv (.cons iu (.cons (it ts) (.cons ir (.cons hic .nil))))
    have hw : write p { d with timestamp := ts, repository := none } = line p 0 (cp! "{") ++ collection p
        [line p 2 (cp! "\"version\": " ++ dumpsOpt d.version), line p 2 (cp! "\"uuid\": " ++ dumpsStr d.uuid),
         line p 2 (cp! "\"timestamp\": " ++ dumpsStr ts), line p 2 (cp! "\"root\": " ++ dumpsStr d.root), codebaseToJson p 2 d] ++ line p 0 (cp! "}") := by
      simp only [write]; rfl
    rw [hw, collection_eq hall]
    simp [List.append_assoc]
  | some r =>
    obtain ⟨ho, hn, hb⟩ := hd.repository r hrep
    obtain ⟨br, hir, _⟩ := repository_mitem p 2 r ho hn hb
    refine ⟨line p 0 (cp! "{") ++ ((ind p 2 ++ (cp! "\"version\": " ++ dumpsOpt d.version)) ++ (44 :: sepw p) ++
        ((ind p 2 ++ (cp! "\"uuid\": " ++ dumpsStr d.uuid)) ++ (44 :: sepw p) ++ (ind p 2 ++ cp! "\"timestamp\": "))),
      (44 :: sepw p) ++ (44 :: sepw p).intercalate [ind p 2 ++ (cp! "\"root\": " ++ dumpsStr d.root), br, bc] ++ nl p ++
        line p 0 (cp! "}"), fun ts => ?_⟩
    have hall : All2 (Item p) _ _ := .cons iv (.cons iu (.cons (it ts) (.cons ir (.cons hir (.cons hic .nil)))))
    have hw : write p { d with timestamp := ts, repository := some r } = line p 0 (cp! "{") ++ collection p
        [line p 2 (cp! "\"version\": " ++ dumpsOpt d.version), line p 2 (cp! "\"uuid\": " ++ dumpsStr d.uuid),
         line p 2 (cp! "\"timestamp\": " ++ dumpsStr ts), line p 2 (cp! "\"root\": " ++ dumpsStr d.root), repositoryToJson p 2 r, codebaseToJson p 2 d] ++ line p 0 (cp! "}") := by
      simp only [write]; rfl
    rw [hw, collection_eq hall]
    simp [List.append_assoc]

end CL.Json
