import CodeLimit.Lemmas.Gitignore
import CodeLimit.Spec.GitignoreRegex
/-!
# The language of pathspec's regular expressions on `/`-joined paths (for `Props/C11patRegex.lean`)
-/
namespace CL.Gi

/-! ## repetitions of one-character classes -/

theorem singles_iff (P : Nat → Prop) : ∀ (w : Str),
    (∃ l : List Str, w = l.flatten ∧ ∀ u ∈ l, ∃ c, u = [c] ∧ P c) ↔ ∀ c ∈ w, P c := by
  intro w
  constructor
  · rintro ⟨l, rfl, hl⟩
    induction l with
    | nil => simp
    | cons u r ih =>
      obtain ⟨c, rfl, hc⟩ := hl u (by simp)
      intro x hx
      simp only [List.flatten_cons, List.singleton_append, List.mem_cons] at hx
      rcases hx with rfl | hx
      · exact hc
      · exact ih (fun v hv => hl v (List.mem_cons_of_mem _ hv)) x hx
  · intro h
    refine ⟨w.map (fun c => [c]), ?_, ?_⟩
    · clear h
      induction w with
      | nil => rfl
      | cons c r ih => simp only [List.map_cons, List.flatten_cons, List.singleton_append, ← ih]
    · intro u hu
      obtain ⟨c, hc, rfl⟩ := List.mem_map.1 hu
      exact ⟨c, rfl, h c hc⟩

theorem singles_ne_iff (P : Nat → Prop) (w : Str) :
    (∃ l : List Str, l ≠ [] ∧ w = l.flatten ∧ ∀ u ∈ l, ∃ c, u = [c] ∧ P c) ↔ w ≠ [] ∧ ∀ c ∈ w, P c := by
  constructor
  · rintro ⟨l, hne, rfl, hl⟩
    refine ⟨?_, (singles_iff P _).1 ⟨l, rfl, hl⟩⟩
    match l, hne, hl with
    | u :: r, _, hl =>
      obtain ⟨c, rfl, _⟩ := hl u (by simp)
      simp
  · rintro ⟨hne, h⟩
    obtain ⟨l, rfl, hl⟩ := (singles_iff P w).2 h
    refine ⟨l, ?_, rfl, hl⟩
    rintro rfl
    exact hne rfl

theorem lang_star_dot {w : Str} : (Re.star .dot).lang w ↔ 10 ∉ w := by
  simp only [Re.lang]
  rw [singles_iff (fun c => c ≠ 10)]
  exact ⟨fun h hm => h 10 hm rfl, fun h c hc e => h (e ▸ hc)⟩

theorem lang_plus_dot {w : Str} : (Re.plus .dot).lang w ↔ w ≠ [] ∧ 10 ∉ w := by
  simp only [Re.lang]
  rw [singles_ne_iff (fun c => c ≠ 10)]
  exact and_congr_right fun _ => ⟨fun h hm => h 10 hm rfl, fun h c hc e => h (e ▸ hc)⟩

theorem lang_star_notSlash {w : Str} : (Re.star .notSlash).lang w ↔ 47 ∉ w := by
  simp only [Re.lang]
  rw [singles_iff (fun c => c ≠ 47)]
  exact ⟨fun h hm => h 47 hm rfl, fun h c hc e => h (e ▸ hc)⟩

theorem lang_plus_notSlash {w : Str} : (Re.plus .notSlash).lang w ↔ w ≠ [] ∧ 47 ∉ w := by
  simp only [Re.lang]
  rw [singles_ne_iff (fun c => c ≠ 47)]
  exact and_congr_right fun _ => ⟨fun h hm => h 47 hm rfl, fun h c hc e => h (e ▸ hc)⟩

/-- `(?:.+/)?`: nothing, or a non-empty text without line feed followed by `/` -/
theorem lang_reFloat {u : Str} : reFloat.lang u ↔ u = [] ∨ ∃ u', u = u' ++ [47] ∧ u' ≠ [] ∧ 10 ∉ u' := by
  have h : (Re.seq (.plus .dot) (.chars [47])).lang u ↔ ∃ u', u = u' ++ [47] ∧ u' ≠ [] ∧ 10 ∉ u' := by
    simp only [Re.lang.eq_4, lang_plus_dot, Re.lang.eq_1]
    constructor
    · rintro ⟨a, b, rfl, ha, rfl⟩; exact ⟨a, rfl, ha⟩
    · rintro ⟨a, rfl, ha⟩; exact ⟨a, [47], rfl, ha, rfl⟩
  simp only [reFloat, Re.lang.eq_7, h]

/-- `(?P<ps_d>/).*`: `/` followed by a text without line feed -/
theorem lang_reDirTail {w : Str} : reDirTail.lang w ↔ ∃ w', w = 47 :: w' ∧ 10 ∉ w' := by
  simp only [reDirTail, Re.lang.eq_4, Re.lang.eq_8, Re.lang.eq_1, lang_star_dot]
  constructor
  · rintro ⟨a, b, rfl, rfl, hb⟩; exact ⟨b, rfl, hb⟩
  · rintro ⟨b, rfl, hb⟩; exact ⟨[47], b, rfl, rfl, hb⟩

/-- `(?:(?P<ps_d>/).*)?`: nothing, or `/` followed by a text without line feed -/
theorem lang_reTail {w : Str} : reTail.lang w ↔ w = [] ∨ ∃ w', w = 47 :: w' ∧ 10 ∉ w' := by
  have := @lang_reDirTail w
  simp only [reDirTail] at this
  simp only [reTail, Re.lang.eq_7, this]

/-! ## more on split and join -/

/-- splitting distributes over a `/` -/
theorem splitSlash_append : ∀ (a b : Str), splitSlash (a ++ 47 :: b) = splitSlash a ++ splitSlash b
  | [], b => by rw [List.nil_append, splitSlash_slash]; rfl
  | c :: r, b => by
    have ih := splitSlash_append r b
    by_cases hc : c = 47
    · subst hc
      rw [List.cons_append, splitSlash_slash, splitSlash_slash, ih]; rfl
    · rcases hs : splitSlash r with _ | ⟨s, ss⟩
      · exact absurd hs (splitSlash_ne_nil r)
      · rw [List.cons_append, splitSlash, splitSlash]
        simp only [hc, if_false, ih, hs, List.cons_append]

/-- a path as the walk produces it: every component non-empty, without `/`, without line feed -/
def goodPath (p : Path) : Prop := ∀ c ∈ p, c ≠ [] ∧ 47 ∉ c ∧ 10 ∉ c

theorem goodPath_append {a b : Path} : goodPath (a ++ b) ↔ goodPath a ∧ goodPath b := by
  simp only [goodPath, List.mem_append]
  exact ⟨fun h => ⟨fun c hc => h c (.inl hc), fun c hc => h c (.inr hc)⟩,
    fun h c hc => hc.elim (h.1 c) (h.2 c)⟩

theorem joinSlash_cons (c : Str) (r : Path) :
    joinSlash (c :: r) = c ++ (if r = [] then [] else 47 :: joinSlash r) := by
  cases r <;> simp [joinSlash]

theorem joinSlash_append (a b : Path) (hb : b ≠ []) :
    joinSlash (a ++ b) = (if a = [] then [] else joinSlash a ++ [47]) ++ joinSlash b := by
  induction a with
  | nil => simp
  | cons c r ih =>
    have hne : r ++ b ≠ [] := by simp [hb]
    rw [List.cons_append, joinSlash_cons, if_neg hne, ih, joinSlash_cons]
    by_cases hr : r = []
    · subst hr; simp
    · simp [hr]

theorem joinSlash_noLF : ∀ (p : Path), goodPath p → 10 ∉ joinSlash p
  | [], _ => by simp [joinSlash]
  | c :: r, h => by
    rw [joinSlash_cons]
    have hc := (h c (by simp)).2.2
    have hr := joinSlash_noLF r (fun x hx => h x (List.mem_cons_of_mem _ hx))
    by_cases hr0 : r = []
    · simp [hr0, hc]
    · simp only [hr0, if_false, List.mem_append, List.mem_cons, not_or]
      exact ⟨hc, by decide, hr⟩

theorem joinSlash_ne_nil {p : Path} (hp : goodPath p) (hne : p ≠ []) : joinSlash p ≠ [] := by
  match p, hne with
  | c :: r, _ =>
    rw [joinSlash_cons]
    have := (hp c (by simp)).1
    cases c with
    | nil => exact absurd rfl this
    | cons x xs => simp

theorem splitSlash_joinSlash_good {p : Path} (hp : goodPath p) (hne : p ≠ []) : splitSlash (joinSlash p) = p :=
  splitSlash_joinSlash p hne (fun x hx => (hp x hx).2.1)

/-! ## the floating forms `(?:.+/)?` M tail -/

/-- the words `u m w` with `u` in `(?:.+/)?`, `m` in a language of `/`-free non-empty words, `w` in
the tail: on a joined path, `m` is a whole component (and something follows, for the tail of a
line ending in `/`) -/
theorem float_iff (M : Str → Prop) (hM : ∀ m, M m → 47 ∉ m ∧ m ≠ []) (d : Bool) (p : Path) (hp : goodPath p) :
    (∃ u m w, joinSlash p = u ++ (m ++ w) ∧ reFloat.lang u ∧ M m ∧
        (if d = true then reDirTail.lang w else reTail.lang w)) ↔
      ∃ pre c post, p = pre ++ c :: post ∧ M c ∧ (d = true → post ≠ []) := by
  constructor
  · rintro ⟨u, m, w, hs, hu, hm, hw⟩
    have hpne : p ≠ [] := by
      rintro rfl
      simp only [joinSlash] at hs
      have : m = [] := by
        have := congrArg List.length hs
        simp only [List.length_nil, List.length_append] at this
        exact List.eq_nil_of_length_eq_zero (by omega)
      exact (hM m hm).2 this
    have hp' : p = splitSlash (u ++ (m ++ w)) := by rw [← hs, splitSlash_joinSlash_good hp hpne]
    have hmw : ∃ post, splitSlash (m ++ w) = m :: post ∧ (d = true → post ≠ []) := by
      have hw' : w = [] ∧ d = false ∨ ∃ w', w = 47 :: w' := by
        cases d with
        | true =>
          simp only [if_true, lang_reDirTail] at hw
          obtain ⟨w', rfl, _⟩ := hw; exact .inr ⟨w', rfl⟩
        | false =>
          simp only [Bool.false_eq_true, if_false, lang_reTail] at hw
          rcases hw with rfl | ⟨w', rfl, _⟩
          · exact .inl ⟨rfl, rfl⟩
          · exact .inr ⟨w', rfl⟩
      rcases hw' with ⟨rfl, rfl⟩ | ⟨w', rfl⟩
      · exact ⟨[], by simp [splitSlash_noSlash m (hM m hm).1], by simp⟩
      · refine ⟨splitSlash w', ?_, fun _ => splitSlash_ne_nil w'⟩
        rw [splitSlash_append, splitSlash_noSlash m (hM m hm).1]; rfl
    obtain ⟨post, hpost, hd⟩ := hmw
    rcases lang_reFloat.1 hu with rfl | ⟨u', rfl, _, _⟩
    · exact ⟨[], m, post, by rw [hp', List.nil_append, hpost]; rfl, hm, hd⟩
    · refine ⟨splitSlash u', m, post, ?_, hm, hd⟩
      rw [hp', List.append_assoc, List.singleton_append, splitSlash_append, hpost]
  · rintro ⟨pre, c, post, rfl, hc, hd⟩
    obtain ⟨hpre, hcp⟩ := goodPath_append.1 hp
    have hpost : goodPath post := fun x hx => hcp x (List.mem_cons_of_mem _ hx)
    refine ⟨if pre = [] then [] else joinSlash pre ++ [47], c, if post = [] then [] else 47 :: joinSlash post,
      ?_, ?_, hc, ?_⟩
    · rw [joinSlash_append pre (c :: post) (by simp), joinSlash_cons]
    · rw [lang_reFloat]
      by_cases h : pre = []
      · exact .inl (by simp [h])
      · exact .inr ⟨joinSlash pre, by simp [h], joinSlash_ne_nil hpre h, joinSlash_noLF pre hpre⟩
    · by_cases h : post = []
      · have hdf : d = false := by
          cases d with
          | true => exact absurd h (hd rfl)
          | false => rfl
        subst hdf
        simp [h, lang_reTail]
      · have hw : reDirTail.lang (47 :: joinSlash post) := lang_reDirTail.2 ⟨_, rfl, joinSlash_noLF post hpost⟩
        cases d with
        | true => simpa [h] using hw
        | false =>
          simp only [h, if_false, Bool.false_eq_true, lang_reTail]
          exact .inr ⟨_, rfl, joinSlash_noLF post hpost⟩

/-! ## the anchored forms -/

/-- names at the start of the text, then the tail: the names are a prefix of the components -/
theorem anchored_iff (ps : List Str) (hps : goodPath ps) (hne : ps ≠ []) (p : Path) (hp : goodPath p) :
    (∃ w, joinSlash p = joinSlash ps ++ w ∧ reTail.lang w) ↔ ps <+: p := by
  constructor
  · rintro ⟨w, hs, hw⟩
    have hpne : p ≠ [] := by
      rintro rfl
      have := joinSlash_ne_nil hps hne
      simp only [joinSlash] at hs
      have hl := congrArg List.length hs
      simp only [List.length_nil, List.length_append] at hl
      exact this (List.eq_nil_of_length_eq_zero (by omega))
    have hp' : p = splitSlash (joinSlash ps ++ w) := by rw [← hs, splitSlash_joinSlash_good hp hpne]
    rcases lang_reTail.1 hw with rfl | ⟨w', rfl, _⟩
    · rw [List.append_nil, splitSlash_joinSlash_good hps hne] at hp'
      exact hp' ▸ List.prefix_refl _
    · rw [splitSlash_append, splitSlash_joinSlash_good hps hne] at hp'
      exact hp' ▸ List.prefix_append _ _
  · rintro ⟨post, rfl⟩
    by_cases h : post = []
    · subst h
      exact ⟨[], by simp, lang_reTail.2 (.inl rfl)⟩
    · have hpost : goodPath post := (goodPath_append.1 hp).2
      refine ⟨47 :: joinSlash post, ?_, lang_reTail.2 (.inr ⟨_, rfl, joinSlash_noLF post hpost⟩)⟩
      rw [joinSlash_append ps post h]
      simp [hne]

/-- `a/`, a non-empty `/`-free text, then the tail: the components are `a`, that text, and maybe more -/
theorem under_iff (a : Str) (ha : 47 ∉ a) (p : Path) (hp : goodPath p) :
    (∃ b w, joinSlash p = (a ++ [47]) ++ (b ++ w) ∧ (b ≠ [] ∧ 47 ∉ b) ∧ reTail.lang w) ↔
      ∃ b rest, p = a :: b :: rest ∧ b ≠ [] := by
  constructor
  · rintro ⟨b, w, hs, ⟨hb, hbs⟩, hw⟩
    have hpne : p ≠ [] := by
      rintro rfl
      have hl := congrArg List.length hs
      simp [joinSlash] at hl
    have hp' : p = splitSlash ((a ++ [47]) ++ (b ++ w)) := by rw [← hs, splitSlash_joinSlash_good hp hpne]
    rw [List.append_assoc, List.singleton_append, splitSlash_append, splitSlash_noSlash a ha] at hp'
    rcases lang_reTail.1 hw with rfl | ⟨w', rfl, _⟩
    · rw [List.append_nil, splitSlash_noSlash b hbs] at hp'
      exact ⟨b, [], hp', hb⟩
    · rw [splitSlash_append, splitSlash_noSlash b hbs] at hp'
      exact ⟨b, splitSlash w', hp', hb⟩
  · rintro ⟨b, rest, rfl, hb⟩
    have hbg := hp b (by simp)
    have hrest : goodPath rest := fun x hx => hp x (by simp [hx])
    refine ⟨b, if rest = [] then [] else 47 :: joinSlash rest, ?_, ⟨hb, hbg.2.1⟩, ?_⟩
    · rw [joinSlash_cons, if_neg (by simp), joinSlash_cons]; simp
    · by_cases h : rest = []
      · simp [h, lang_reTail]
      · simp only [h, if_false, lang_reTail]
        exact .inr ⟨_, rfl, joinSlash_noLF rest hrest⟩

end CL.Gi
