import CodeLimit.Spec.SynHeaderPy
import CodeLimit.Lemmas.SynHeaderDisc
/-!
# The Python header pattern matches greedily exactly `def Name ( ... )`

`pyExpr` is `[Keyword("def"), Name(), OneOrMore(Balanced("(", ")"))]` (the header pattern of the
Python language definition, no follow-up); its compiled table `pyDfa` is
`start --def--> pK --Name--> pS1 --Balanced--> pS2 --Balanced--> pS2`.

* `greedyAt_iff_defHeader : GreedyAt (dfaMachine D tokAcceptor) toks p f ↔ DefHeader toks p f`;
* `sound_pyExpr` / `complete_pyExpr`: through `extract_headers`;
* `extractHeaders_python_sorted`: the extracted headers are listed by increasing start.
-/
namespace CL.Syn
open CL.Compose CL.C01disc

/-- `Keyword("def")` -/
def kwDef : Pred := .keyword defStr

/-- `[Keyword("def"), Name(), OneOrMore(Balanced("(", ")"))]` -/
def pyExpr : Rx Pred := .cat (.cat (.atom kwDef) (.atom .name)) (.plus (.atom bal))

def pK : DState := .set [2]
def pS1 : DState := .set [3, 4]
def pS2 : DState := .set [4, 5, 6]

/-- the compiled table of `pyExpr` -/
def pyDfa : Dfa Pred :=
  ⟨[(pS2, [(bal, pS2)]), (pS1, [(bal, pS2)]), (pK, [(.name, pS1)]), (.start, [(kwDef, pK)])], [pS2]⟩

theorem compile_pyExpr : compileTok pyExpr = .ok pyDfa := by rfl

theorem compile_pyExpr_eq {D : Dfa Pred} (h : compileTok pyExpr = .ok D) : D = pyDfa := by
  rw [compile_pyExpr] at h; cases h; rfl

/-- the Python language (as generated from `/repo/codelimit/languages/Python.py`) has exactly one
header pattern, `pyExpr`, without follow-up pattern, and no previous-keyword filter -/
theorem python_pattern : Gen.python.pats = [⟨pyExpr, none⟩] ∧ Gen.python.prevKw = none := ⟨rfl, rfl⟩

theorem python_shipped : Gen.python ∈ Gen.all.map (·.2) := by simp [Gen.all]

abbrev pyM : Machine Tok (DState × Depths) := dfaMachine pyDfa tokAcceptor

theorem prow_start : pyDfa.row .start = [(kwDef, pK)] := by decide
theorem prow_K : pyDfa.row pK = [(.name, pS1)] := by decide
theorem prow_S1 : pyDfa.row pS1 = [(bal, pS2)] := by decide
theorem prow_S2 : pyDfa.row pS2 = [(bal, pS2)] := by decide
theorem pacc_K : pyDfa.isAcc pK = false := by decide
theorem pacc_S1 : pyDfa.isAcc pS1 = false := by decide
theorem pacc_S2 : pyDfa.isAcc pS2 = true := by decide

theorem kwDef_eval (x : Tok) : kwDef.eval x = isDefTok x := rfl

theorem isDefTok_not_name {x : Tok} (h : isDefTok x = true) : x.isName = false := by
  simp only [isDefTok, Tok.isKeyword, Bool.and_eq_true, beq_iff_eq] at h
  simp [Tok.isName, h.1]

theorem isDefTok_not_open {x : Tok} (h : isDefTok x = true) : isOpen x = false := by
  simp only [isDefTok, Tok.isKeyword, Bool.and_eq_true, beq_iff_eq] at h
  simp [isOpen, Tok.isSymbol, h.1]

theorem isDefTok_not_close {x : Tok} (h : isDefTok x = true) : isClose x = false := by
  simp only [isDefTok, Tok.isKeyword, Bool.and_eq_true, beq_iff_eq] at h
  simp [isClose, Tok.isSymbol, h.1]

theorem pstep_start (ds : Depths) (x : Tok) :
    pyM.step (.start, ds) x = if isDefTok x then .ok (some (pK, ds)) else .ok none := by
  have hk : tokAcceptor.accept kwDef ds x = (isDefTok x, ds) := rfl
  simp only [dfaMachine, consume, prow_start, consumeAux, hk]
  by_cases h : isDefTok x = true <;> simp [h]

theorem pstep_K (ds : Depths) (x : Tok) :
    pyM.step (pK, ds) x = if x.isName then .ok (some (pS1, ds)) else .ok none := by
  have hn : tokAcceptor.accept .name ds x = (x.isName, ds) := rfl
  simp only [dfaMachine, consume, prow_K, consumeAux, hn]
  by_cases h' : x.isName = true <;> simp [h']

theorem keywordAt_def {toks : List Tok} {p : Nat} :
    KeywordAt toks p defStr ↔ ∃ t, toks[p]? = some t ∧ isDefTok t = true := Iff.rfl

/-! ## `DefHeader → GreedyAt` -/

theorem greedy_of_defHeader {toks : List Tok} {p f : Nat} (h : DefHeader toks p f) :
    GreedyAt pyM toks p f := by
  obtain ⟨⟨k, hk, hkw⟩, ⟨n, hn, hname⟩, hopenAt, hf⟩ := h
  rw [hf]
  refine greedy_of_prefix (ds0 := []) prow_S1 prow_S2 pacc_S2 (show p < p + 1 + 1 by omega) ?_ rfl
    hopenAt
  rw [slice_two hk hn]
  show runM pyM (.start, []) [k, n] = _
  have hkw' : isDefTok k = true := hkw
  simp [runM, pstep_start, pstep_K, hname, hkw']

/-! ## `GreedyAt → DefHeader` -/

theorem defHeader_of_greedy {toks : List Tok} {p f : Nat} (h : GreedyAt pyM toks p f) :
    DefHeader toks p f := by
  have hg := h
  obtain ⟨hpf, hfl, q, hr, hacc, _⟩ := h
  have huniq : ∀ f', DefHeader toks p f' → f = f' := fun f' h' =>
    Compose.greedy_finish_unique (dfaMachine_deadStuck pyDfa tokAcceptor) hg
      (greedy_of_defHeader h')
  obtain ⟨t0, ht0, hs0⟩ := slice_cons hpf hfl
  rw [hs0] at hr
  obtain ⟨c1, hstep1, hr1⟩ := runM_cons_some hr
  rw [show pyM.init = (.start, []) from rfl, pstep_start] at hstep1
  by_cases hk : isDefTok t0 = true
  · simp only [hk, if_true, Except.ok.injEq, Option.some.injEq] at hstep1
    subst hstep1
    rcases Nat.lt_or_ge (p + 1) f with hlt | hge
    · obtain ⟨t1, ht1, hs1⟩ := slice_cons hlt hfl
      rw [hs1] at hr1
      obtain ⟨c2, hstep2, hr2⟩ := runM_cons_some hr1
      rw [pstep_K] at hstep2
      by_cases hn : t1.isName = true
      · simp only [hn, if_true, Except.ok.injEq, Option.some.injEq] at hstep2
        subst hstep2
        have ho : OpenAt toks (p + 1 + 1) := by
          rcases Nat.lt_or_ge (p + 1 + 1) f with hlt2 | hge2
          · obtain ⟨t, ht, hs⟩ := slice_cons hlt2 hfl
            rw [hs] at hr2
            obtain ⟨s', hstep, _⟩ := runM_cons_some hr2
            exact ⟨t, ht, step_s1_open (D := pyDfa) prow_S1 rfl hstep⟩
          · have : p + 1 + 1 = f := by omega
            subst this
            rw [slice_self] at hr2
            simp only [runM, Option.some.injEq] at hr2
            subst hr2
            have : pyDfa.isAcc pS1 = true := hacc
            rw [pacc_S1] at this; cases this
        have hfh : DefHeader toks p (groupsEnd toks (p + 2)) :=
          ⟨⟨t0, ht0, hk⟩, ⟨t1, ht1, hn⟩, ho, rfl⟩
        rw [huniq _ hfh]; exact hfh
      · simp [hn] at hstep2
    · have : p + 1 = f := by omega
      subst this
      rw [slice_self] at hr1
      simp only [runM, Option.some.injEq] at hr1
      subst hr1
      have : pyDfa.isAcc pK = true := hacc
      rw [pacc_K] at this; cases this
  · simp [hk] at hstep1

/-- The greedy matches of the Python header pattern
`[Keyword("def"), Name(), OneOrMore(Balanced("(", ")"))]` are exactly the ranges
`def Name ( ... )`, on every token list. -/
theorem greedyAt_iff_defHeader {D : Dfa Pred} (hD : compileTok pyExpr = .ok D) (toks : List Tok)
    (p f : Nat) : GreedyAt (dfaMachine D tokAcceptor) toks p f ↔ DefHeader toks p f := by
  rw [compile_pyExpr_eq hD]
  exact ⟨defHeader_of_greedy, greedy_of_defHeader⟩

/-! ## list-level facts -/

theorem DefHeader.synHeader {toks : List Tok} {p f : Nat} (h : DefHeader toks p f) :
    SynHeader toks (p + 1) f := ⟨h.2.1, h.2.2.1, h.2.2.2⟩

/-- a `def` header has at least three tokens and lies inside the input -/
theorem DefHeader.len {toks : List Tok} {p f : Nat} (h : DefHeader toks p f) :
    p + 3 ≤ f ∧ f ≤ toks.length := by
  have := h.synHeader.len; omega

theorem DefHeader.finish_unique {toks : List Tok} {p f f' : Nat} (h : DefHeader toks p f)
    (h' : DefHeader toks p f') : f = f' := by
  rw [h.2.2.2, h'.2.2.2]

theorem keywordAt_def_not_nameAt {toks : List Tok} {i : Nat} (hk : KeywordAt toks i defStr) :
    ¬ NameAt toks i := by
  rintro ⟨t, ht, hn⟩
  obtain ⟨t', ht', hk'⟩ := hk
  rw [ht] at ht'; cases ht'
  rw [isDefTok_not_name hk'] at hn; cases hn

theorem keywordAt_def_not_openAt {toks : List Tok} {i : Nat} (hk : KeywordAt toks i defStr) :
    ¬ OpenAt toks i := by
  rintro ⟨t, ht, hn⟩
  obtain ⟨t', ht', hk'⟩ := hk
  rw [ht] at ht'; cases ht'
  rw [isDefTok_not_open hk'] at hn; cases hn

/-- Let `[p, f)` be a `def` header that is followed by a token.  A `def` header that starts EARLIER
and is still running at `p` cannot finish inside `(p, f]` (neither the keyword `def` nor the name
token is a punctuation token, so neither can close a group of the earlier header). -/
theorem DefHeader.no_earlier_finish_inside {toks : List Tok} {p f q f' : Nat}
    (h : DefHeader toks p f) (hf : f < toks.length) (hq : q < p)
    (h' : DefHeader toks q f') : ¬ (p < f' ∧ f' ≤ f) := by
  rintro ⟨h1, h2⟩
  have hlen := h.len
  -- `toks[p]` is the keyword `def`: neither the name nor the `(` of the earlier header
  have hq1 : q + 1 ≠ p := fun e => keywordAt_def_not_nameAt h.1 (e ▸ h'.2.1)
  have hq2 : q + 2 ≠ p := fun e => keywordAt_def_not_openAt h.1 (e ▸ h'.2.2.1)
  have hnc : ∀ t, toks[p]? = some t → isClose t = false := by
    intro t ht
    obtain ⟨t', ht', hk'⟩ := h.1
    rw [ht] at ht'; cases ht'
    exact isDefTok_not_close hk'
  obtain ⟨_, hnext⟩ := h'.synHeader.enclosing (i := p) (by omega) h1 hnc
  exact h.synHeader.no_earlier_finish_inside hf (show q + 1 < p + 1 by omega) h'.synHeader
    ⟨hnext (by omega), h2⟩

/-! ## through `extract_headers` -/

section pypat
variable {L : Language}

/-- every extracted header is a `def` header, and its name is the token after `def` -/
theorem sound_pyExpr (hL : L ∈ Gen.all.map (·.2)) (hpats : L.pats = [⟨pyExpr, none⟩])
    {toks : List Tok} {hs : List Header} (h : extractHeaders L toks = .ok hs) :
    ∀ hd ∈ hs, DefHeader toks hd.rng.s hd.rng.e ∧ toks[hd.rng.s + 1]? = some hd.name := by
  intro hd hhd
  obtain ⟨hp, hhp, D, hD, hg, _, _, hname⟩ := extracted_is_header L hL toks hs h hd hhd
  rw [hpats, List.mem_singleton] at hhp
  subst hhp
  have hdef := (greedyAt_iff_defHeader hD toks _ _).1 hg
  refine ⟨hdef, ?_⟩
  obtain ⟨k, hk, hkw⟩ := hdef.1
  obtain ⟨n, hn, hnm⟩ := hdef.2.1
  rw [firstName_slice_succ hk (isDefTok_not_name hkw) hn hnm (by have := hdef.len; omega)] at hname
  cases hname
  exact hn

/-- a `def` header `[p, f)` is extracted, exactly once, with the token after `def` as its name,
when no EARLIER `def` header finishes inside `(p, f]` and no LATER one finishes before `f` -/
theorem complete_pyExpr_isolated (hL : L ∈ Gen.all.map (·.2)) (hpats : L.pats = [⟨pyExpr, none⟩])
    (hprev : L.prevKw = none)
    {toks : List Tok} {hs : List Header} (h : extractHeaders L toks = .ok hs) {p f : Nat}
    (hdef : DefHeader toks p f)
    (hbefore : ∀ q f', q < p → DefHeader toks q f' → ¬ (p < f' ∧ f' ≤ f))
    (hafter : ∀ q f', p < q → DefHeader toks q f' → ¬ f' < f) :
    ∃ hd ∈ hs, hd.rng = ⟨p, f⟩ ∧ toks[p + 1]? = some hd.name ∧
      ∀ hd' ∈ hs, hd'.rng.s = p → hd' = hd := by
  have hhp : (⟨pyExpr, none⟩ : HeaderPat) ∈ L.pats := by rw [hpats]; exact List.mem_singleton.2 rfl
  have hiff := greedyAt_iff_defHeader compile_pyExpr toks
  obtain ⟨hd, hhd, hr, hnm, huniq⟩ := canonical_header_extracted L hL ⟨pyExpr, none⟩ hhp pyDfa
    compile_pyExpr toks hs h p f ((hiff p f).2 hdef)
    (fun q f' hq hg => hbefore q f' hq ((hiff q f').1 hg))
    (fun q f' hq hg => hafter q f' hq ((hiff q f').1 hg))
    trivial (prevOk_none hprev toks p)
  refine ⟨hd, hhd, hr, ?_, huniq⟩
  obtain ⟨k, hk, hkw⟩ := hdef.1
  obtain ⟨n, hn, hnn⟩ := hdef.2.1
  rw [firstName_slice_succ hk (isDefTok_not_name hkw) hn hnn (by have := hdef.len; omega)] at hnm
  cases hnm
  exact hn

/-- a `def` header that is followed by a token and has no `def Name (` strictly inside its
parameter list is extracted, exactly once -/
theorem complete_pyExpr (hL : L ∈ Gen.all.map (·.2)) (hpats : L.pats = [⟨pyExpr, none⟩])
    (hprev : L.prevKw = none)
    {toks : List Tok} {hs : List Header} (h : extractHeaders L toks = .ok hs) {p f : Nat}
    (hdef : DefHeader toks p f) (hlt : f < toks.length)
    (hnodef : ∀ q, p < q → q + 3 < f →
      ¬ (KeywordAt toks q defStr ∧ NameAt toks (q + 1) ∧ OpenAt toks (q + 2))) :
    ∃ hd ∈ hs, hd.rng = ⟨p, f⟩ ∧ toks[p + 1]? = some hd.name ∧
      ∀ hd' ∈ hs, hd'.rng.s = p → hd' = hd :=
  complete_pyExpr_isolated hL hpats hprev h hdef
    (fun _ _ hq h' => hdef.no_earlier_finish_inside hlt hq h')
    (fun q f' hq h' hlt' => by
      have := h'.len
      exact hnodef q hq (by omega) ⟨h'.1, h'.2.1, h'.2.2.1⟩)

end pypat

/-- the headers extracted for Python are listed by strictly increasing start -/
theorem extractHeaders_python_sorted {toks : List Tok} {hs : List Header}
    (h : extractHeaders Gen.python toks = .ok hs) :
    hs.Pairwise (fun a b => a.rng.s < b.rng.s) := by
  have ho := extractHeaders_ordered Gen.python python_shipped rfl h
  refine ho.imp_of_mem ?_
  intro a b ha _ hab
  have := ((sound_pyExpr python_shipped python_pattern.1 h) a ha).1.len
  omega

end CL.Syn
