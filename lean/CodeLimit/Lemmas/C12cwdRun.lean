import CodeLimit.Lemmas.C12cwd
/-!
# `check_command` with any arguments in any working directory = one sequential analysis

Every argument contributes a list of items `(Path handed to check_file, language, bytes)`
(`argItems`); `check_command` analyses the items of all arguments one after the other
(`runItems`) and stops at the first exception.
-/
namespace CL.C12cwd

open CL CL.Sel

/-! ## items -/

/-- one call of `check_file` that reaches the analysis: the `Path`, the language, the bytes -/
abbrev Item := CPath × Nat × Str

/-- `check_file` once the language is known -/
def checkItem1 (O : Oracles) (x : Item) (st : CheckSt) : CheckSt × Option Err :=
  match O.analyze x.2.1 (O.decode x.2.2) with
  | .error e => (⟨st.analysed ++ [x.1], st.fileList⟩, some e)
  | .ok ms => (⟨st.analysed ++ [x.1], st.fileList ++ [(x.1, risksOf ms)]⟩, none)

/-- the items of a file argument: none when a relative path is excluded or the name has no
supported language -/
def fileItems (O : Oracles) (arg : CheckArg) (content : Str) : List Item :=
  if (!arg.isAbs && O.excluded arg.comps) = true then []
  else
    match O.langOf (baseName arg.comps) with
    | none => []
    | some l => [(⟨arg.isAbs, arg.comps⟩, l, content)]

/-- the items of a directory argument with absolute components `a` and entries `ch` -/
def dirItems (O : Oracles) (cwd a : List Str) (ch : List Node) : List Item :=
  ((cands a ch).filterMap (passes (absView O cwd))).map (fun x => (⟨true, x.1⟩, x.2.1, x.2.2))

/-- **the calls of `check_file` one argument causes**, in order -/
def argItems (O : Oracles) (fs : Node) (cwd : List Str) (arg : CheckArg) : List Item :=
  match getNode fs (argAbs cwd arg) with
  | some (.file _ content) => fileItems O arg content
  | some (.dir _ ch) => dirItems O cwd (argAbs cwd arg) ch
  | none => []

theorem checkOne_eq (O : Oracles) (abs : Bool) (x : List Str × Nat × Str) (st : CheckSt) :
    checkOne O abs x st = checkItem1 O (⟨abs, x.1⟩, x.2.1, x.2.2) st := rfl

theorem checkOne_absView (O : Oracles) (cwd : List Str) (abs : Bool) (x : List Str × Nat × Str) (st : CheckSt) :
    checkOne (absView O cwd) abs x st = checkOne O abs x st := rfl

theorem checkFile_items (O : Oracles) (path : CPath) (content : Str) (st : CheckSt) :
    checkFile O path content st =
      forE (checkItem1 O) (match O.langOf (baseName path.comps) with
        | none => []
        | some l => [(path, l, content)]) st := by
  simp only [checkFile, baseName]
  rcases O.langOf (path.comps.getLastD []) with _ | l
  · rfl
  · simp only [forE, checkItem1]
    rcases O.analyze l (O.decode content) with e | ms <;> rfl

/-- **one argument = the analysis of its items** -/
theorem checkArgBody_items (O : Oracles) (fs : Node) (cwd : List Str) (arg : CheckArg) (st : CheckSt) :
    checkArgBody O fs cwd arg st = forE (checkItem1 O) (argItems O fs cwd arg) st := by
  simp only [checkArgBody, argItems, argAbs]
  rcases hg : getNode fs (if arg.isAbs = true then arg.comps else cwd ++ arg.comps) with _ | node
  · rfl
  · cases node with
    | file n content =>
      simp only [fileItems]
      by_cases habs : arg.isAbs = true
      · simp only [habs, if_true, checkFile_items, Bool.not_true, Bool.false_and, Bool.false_eq_true,
          if_false]
      · have habs' : arg.isAbs = false := by simpa using habs
        simp only [habs', Bool.false_eq_true, if_false, relTo_append_self, Bool.not_false, Bool.true_and]
        by_cases hx : O.excluded arg.comps = true
        · simp [hx, forE]
        · simp [hx, checkFile_items]
    | dir n ch =>
      simp only [dirItems]
      rw [check_loops_flat_cwd, forE_map]
      rfl

/-! ## the sequential analysis of a list of items -/

/-- analysing items one after the other: the paths handed to the analysis, and the file list or
the first exception -/
def runItems (O : Oracles) : List Item → List CPath × Except Err (List (CPath × List Measurement))
  | [] => ([], .ok [])
  | x :: r =>
    match O.analyze x.2.1 (O.decode x.2.2) with
    | .error e => ([x.1], .error e)
    | .ok ms =>
      (x.1 :: (runItems O r).1,
        match (runItems O r).2 with
        | .ok fl => .ok ((x.1, risksOf ms) :: fl)
        | .error e => .error e)

theorem items_run (O : Oracles) : ∀ (items : List Item) (st : CheckSt),
    (forE (checkItem1 O) items st).1.analysed = st.analysed ++ (runItems O items).1 ∧
    (match (runItems O items).2 with
     | .ok fl => (forE (checkItem1 O) items st).2 = none ∧
        (forE (checkItem1 O) items st).1.fileList = st.fileList ++ fl
     | .error e => (forE (checkItem1 O) items st).2 = some e)
  | [], st => by simp [forE, runItems]
  | x :: r, st => by
    rcases ha : O.analyze x.2.1 (O.decode x.2.2) with e | ms
    · simp [forE, runItems, checkItem1, ha]
    · have ih := items_run O r ⟨st.analysed ++ [x.1], st.fileList ++ [(x.1, risksOf ms)]⟩
      simp only [forE, checkItem1, runItems, ha]
      refine ⟨by simp [ih.1], ?_⟩
      have ih2 := ih.2
      rcases hr : (runItems O r).2 with e | fl
      · simp only [hr] at ih2 ⊢; exact ih2
      · simp only [hr] at ih2 ⊢
        exact ⟨ih2.1, by rw [ih2.2]; simp⟩

/-- **`check_command` = the sequential analysis of the items of its arguments** -/
theorem checkPaths_items (O : Oracles) (fs : Node) (cwd : List Str) (args : List CheckArg) :
    checkPaths O fs cwd args =
      ⟨(runItems O (args.flatMap (argItems O fs cwd))).1, (runItems O (args.flatMap (argItems O fs cwd))).2⟩ := by
  have hbody : forE (checkArgBody O fs cwd) args ⟨[], []⟩ =
      forE (checkItem1 O) (args.flatMap (argItems O fs cwd)) ⟨[], []⟩ := by
    rw [forE_flatMap]
    exact forE_congr _ _ (fun a _ s => checkArgBody_items O fs cwd a s)
  have hrun := items_run O (args.flatMap (argItems O fs cwd)) ⟨[], []⟩
  simp only [checkPaths, hbody]
  generalize forE (checkItem1 O) (args.flatMap (argItems O fs cwd)) ⟨[], []⟩ = out at hrun
  obtain ⟨st, err⟩ := out
  simp only [List.nil_append] at hrun
  rcases hr : (runItems O (args.flatMap (argItems O fs cwd))).2 with e | fl
  · simp only [hr] at hrun
    obtain ⟨h1, h2⟩ := hrun
    subst h2
    simp [h1]
  · simp only [hr] at hrun
    obtain ⟨h1, h2, h3⟩ := hrun
    subst h2
    simp [h1, h3]

theorem runItems_append (O : Oracles) : ∀ (a b : List Item),
    runItems O (a ++ b) =
      match (runItems O a).2 with
      | .error e => ((runItems O a).1, .error e)
      | .ok fl => ((runItems O a).1 ++ (runItems O b).1,
          match (runItems O b).2 with
          | .ok fl' => .ok (fl ++ fl')
          | .error e => .error e)
  | [], b => by
    simp only [List.nil_append, runItems]
    rcases hb : runItems O b with ⟨an, e | fl⟩ <;> rfl
  | x :: r, b => by
    have ih := runItems_append O r b
    simp only [List.cons_append, runItems]
    rcases ha : O.analyze x.2.1 (O.decode x.2.2) with e | ms
    · rfl
    · simp only [ih]
      rcases (runItems O r).2 with e | fl
      · rfl
      · simp only [List.cons_append]
        rcases (runItems O b).2 with e | fl' <;> rfl

theorem runItems_ok {O : Oracles} : ∀ {items : List Item} {fl : List (CPath × List Measurement)},
    (runItems O items).2 = .ok fl →
      (runItems O items).1 = items.map (·.1) ∧ fl.map (·.1) = items.map (·.1) ∧
      ∀ pr, pr ∈ fl ↔ ∃ x ∈ items, ∃ ms, O.analyze x.2.1 (O.decode x.2.2) = .ok ms ∧ pr = (x.1, risksOf ms)
  | [], fl, h => by simp [runItems] at h; subst h; simp [runItems]
  | x :: r, fl, h => by
    simp only [runItems] at h ⊢
    rcases ha : O.analyze x.2.1 (O.decode x.2.2) with e | ms
    · simp [ha] at h
    · simp only [ha] at h ⊢
      rcases hr : (runItems O r).2 with e | fl'
      · simp [hr] at h
      · simp only [hr, Except.ok.injEq] at h
        subst h
        obtain ⟨h1, h2, h3⟩ := runItems_ok hr
        refine ⟨by simp [h1], by simp [h2], fun pr => ?_⟩
        simp only [List.mem_cons, h3]
        constructor
        · rintro (rfl | ⟨y, hy, ms', h4, h5⟩)
          · exact ⟨x, .inl rfl, ms, ha, rfl⟩
          · exact ⟨y, .inr hy, ms', h4, h5⟩
        · rintro ⟨y, rfl | hy, ms', h4, h5⟩
          · rw [ha] at h4; cases h4; exact .inl h5
          · exact .inr ⟨y, hy, ms', h4, h5⟩

theorem runItems_error {O : Oracles} : ∀ {items : List Item} {e : Err},
    (runItems O items).2 = .error e → ∃ x ∈ items, O.analyze x.2.1 (O.decode x.2.2) = .error e
  | [], e, h => by simp [runItems] at h
  | x :: r, e, h => by
    simp only [runItems] at h
    rcases ha : O.analyze x.2.1 (O.decode x.2.2) with e' | ms
    · simp only [ha, Except.error.injEq] at h
      exact ⟨x, by simp, h ▸ ha⟩
    · simp only [ha] at h
      rcases hr : (runItems O r).2 with e' | fl'
      · simp only [hr, Except.error.injEq] at h
        obtain ⟨y, hy, hy2⟩ := runItems_error hr
        exact ⟨y, List.mem_cons_of_mem _ hy, h ▸ hy2⟩
      · simp [hr] at h

theorem runItems_analysed_subset (O : Oracles) : ∀ (items : List Item),
    ∀ cp ∈ (runItems O items).1, ∃ x ∈ items, cp = x.1
  | [], cp, h => by simp [runItems] at h
  | x :: r, cp, h => by
    simp only [runItems] at h
    rcases ha : O.analyze x.2.1 (O.decode x.2.2) with e' | ms
    · simp only [ha, List.mem_singleton] at h
      exact ⟨x, by simp, h⟩
    · simp only [ha, List.mem_cons] at h
      rcases h with h | h
      · exact ⟨x, by simp, h⟩
      · obtain ⟨y, hy, hy2⟩ := runItems_analysed_subset O r cp h
        exact ⟨y, List.mem_cons_of_mem _ hy, hy2⟩

theorem runItems_total {O : Oracles} {items : List Item}
    (h : ∀ x ∈ items, ∃ ms, O.analyze x.2.1 (O.decode x.2.2) = .ok ms) :
    ∃ fl, (runItems O items).2 = .ok fl := by
  rcases hr : (runItems O items).2 with e | fl
  · obtain ⟨x, hx, he⟩ := runItems_error hr
    obtain ⟨ms, hms⟩ := h x hx
    rw [hms] at he
    cases he
  · exact ⟨fl, rfl⟩

/-- `runItems` on uniformly tagged items is `runCheck` -/
theorem runItems_tag (O : Oracles) (abs : Bool) : ∀ (sel : List (List Str × Nat × Str)),
    runItems O (sel.map (fun x => (⟨abs, x.1⟩, x.2.1, x.2.2))) = runCheck O abs sel
  | [] => rfl
  | x :: r => by
    simp only [List.map_cons, runItems, runCheck, runItems_tag O abs r]
    rcases O.analyze x.2.1 (O.decode x.2.2) with e | ms <;> rfl

/-- the sequential analysis uses `analyze` and `decode` only -/
theorem runItems_congr {O O' : Oracles} (ha : O'.analyze = O.analyze) (hd : O'.decode = O.decode) :
    ∀ (items : List Item), runItems O' items = runItems O items
  | [] => rfl
  | x :: r => by simp only [runItems, ha, hd, runItems_congr ha hd r]

/-! ## what the items of an argument are -/

variable {O : Oracles} {bn : Str} {base : List Node} {cwd : List Str}

/-- the items of an argument that names a directory -/
theorem argItems_dir (hwf : wfDir base = true) {a : List Str} {sub : List Node} (hd : DirAt base a sub)
    {arg : CheckArg} (harg : NamesDir cwd a arg) :
    argItems O (.dir bn base) cwd arg = dirItems O cwd a sub := by
  obtain ⟨n, hn⟩ := getNode_dirAt hd bn hwf
  have habs : argAbs cwd arg = a := by
    rcases harg with rfl | ⟨q, rfl, rfl⟩ <;> simp [argAbs, CheckArg.isAbs, CheckArg.comps]
  simp only [argItems, habs, hn]

/-- the items of an argument that names a regular file -/
theorem argItems_file (hwf : wfDir base = true) {a : List Str} {c : Str} (hf : FileAt base a c)
    {arg : CheckArg} (harg : NamesFile cwd a arg) :
    argItems O (.dir bn base) cwd arg = fileItems O arg c := by
  have hn := getNode_fileAt hf bn hwf
  have habs : argAbs cwd arg = a := by
    rcases harg with rfl | ⟨q, rfl, rfl⟩ <;> simp [argAbs, CheckArg.isAbs, CheckArg.comps]
  simp only [argItems, habs, hn]

/-- an argument that names nothing contributes nothing (the CLI refuses such arguments before
`check_command` is called: `typer.Argument(exists=True)`) -/
theorem argItems_missing {fs : Node} {arg : CheckArg} (h : getNode fs (argAbs cwd arg) = none) :
    argItems O fs cwd arg = [] := by
  simp only [argItems, h]

/-- **every item is a regular file of the tree**, whatever the argument and the working
directory: the `Path` handed to `check_file` denotes (in `cwd`) a file with exactly the bytes
that are analysed, and the language is the one of its name -/
theorem argItems_sound {arg : CheckArg} {x : Item}
    (hx : x ∈ argItems O (.dir bn base) cwd arg) :
    FileAt base (absOf cwd x.1) x.2.2 ∧ O.langOf (baseName x.1.comps) = some x.2.1 := by
  simp only [argItems] at hx
  rcases hg : getNode (.dir bn base) (argAbs cwd arg) with _ | node
  · simp [hg] at hx
  · cases node with
    | file n content =>
      simp only [hg, fileItems] at hx
      split at hx
      · simp at hx
      · rcases hl : O.langOf (baseName arg.comps) with _ | l
        · simp [hl] at hx
        · simp only [hl, List.mem_singleton] at hx
          subst hx
          refine ⟨?_, hl⟩
          have := (fileAt_of_getNode hg).1
          simpa [absOf, argAbs] using this
    | dir n ch =>
      simp only [hg, dirItems, List.mem_map] at hx
      obtain ⟨⟨p, lang, c⟩, hy, rfl⟩ := hx
      obtain ⟨hc, _, hl⟩ := mem_passes.1 hy
      obtain ⟨r, rfl, hf, _⟩ := mem_cands.1 hc
      refine ⟨?_, hl⟩
      simp only [absOf, if_true]
      exact (dirAt_of_getNode hg).fileAt hf

end CL.C12cwd
