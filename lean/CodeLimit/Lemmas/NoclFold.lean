import CodeLimit.Lemmas.Nocl
/-!
# Removing an independent scope does not disturb the nesting structure (C17, T3)

`foldParents` yields parent *indices*; removing a scope shifts them.  We therefore first show
that, for duplicate-free scope lists, `withChildren sc (foldParents sc 0 [])` is the index-free
`withChildrenS sc (foldParS sc [])` (parents as scopes), and then reason index-free.
-/
set_option linter.unusedSimpArgs false

namespace CL

/-! ## index-free `fold_scopes` -/

/-- `foldParents` keeping the whole `(index, scope)` entry of the parent -/
def foldParP : List Scope → Nat → List (Nat × Scope) → List (Option (Nat × Scope))
  | [], _, _ => []
  | s :: ss, i, path =>
    let pre := descend s path
    pre.getLast? :: foldParP ss (i + 1) (pre ++ [(i, s)])

/-- `fold_scopes` with the parent given as a scope; `path` = right-most path, outermost first -/
def foldParS : List Scope → List Scope → List (Option Scope)
  | [], _ => []
  | s :: ss, path =>
    let pre := path.takeWhile (·.contains s)
    pre.getLast? :: foldParS ss (pre ++ [s])

/-- `withChildren` for parents given as scopes -/
def withChildrenS (scopes : List Scope) (parents : List (Option Scope)) :
    List (Scope × List Range) :=
  scopes.map (fun s =>
    (s, ((scopes.zip parents).filter (fun cp => cp.2 == some s)).map
      (fun cp => (⟨cp.1.hdr.rng.s, cp.1.blk.e⟩ : Range))))

theorem descend_eq_takeWhile (s : Scope) (path : List (Nat × Scope)) :
    descend s path = path.takeWhile (fun p => p.2.contains s) := by
  induction path with
  | nil => rfl
  | cons p rest ih =>
    unfold descend
    rw [List.takeWhile_cons, ih]

theorem foldParents_eq_P (ss : List Scope) (i : Nat) (path : List (Nat × Scope)) :
    foldParents ss i path = (foldParP ss i path).map (Option.map (·.1)) := by
  induction ss generalizing i path with
  | nil => rfl
  | cons s ss ih =>
    simp only [foldParents, foldParP, List.map_cons, ih]

theorem foldParS_eq_P (ss : List Scope) (i : Nat) (path : List (Nat × Scope)) :
    foldParS ss (path.map (·.2)) = (foldParP ss i path).map (Option.map (·.2)) := by
  induction ss generalizing i path with
  | nil => rfl
  | cons s ss ih =>
    have h1 : (path.map (·.2)).takeWhile (·.contains s) = (descend s path).map (·.2) := by
      rw [descend_eq_takeWhile, List.takeWhile_map]; rfl
    simp only [foldParS, foldParP, List.map_cons, h1, List.getLast?_map]
    congr 1
    rw [← ih (i + 1) (descend s path ++ [(i, s)])]
    simp

theorem descend_subset {s : Scope} {path : List (Nat × Scope)} {p : Nat × Scope}
    (h : p ∈ descend s path) : p ∈ path := by
  rw [descend_eq_takeWhile] at h
  exact (List.takeWhile_sublist _).subset h

/-- every parent entry `(j, t)` really is the `j`-th scope -/
theorem foldParP_inv (done ss : List Scope) (path : List (Nat × Scope))
    (hpath : ∀ p ∈ path, (done ++ ss)[p.1]? = some p.2) :
    ∀ pp ∈ foldParP ss done.length path, ∀ p, pp = some p → (done ++ ss)[p.1]? = some p.2 := by
  induction ss generalizing done path with
  | nil => intro pp h; cases h
  | cons s ss ih =>
    intro pp h p hp
    simp only [foldParP, List.mem_cons] at h
    rcases h with h | h
    · subst hp
      have : p ∈ descend s path := List.mem_of_getLast? h.symm
      exact hpath p (descend_subset this)
    · have e : done ++ s :: ss = (done ++ [s]) ++ ss := by simp
      have hl : done.length + 1 = (done ++ [s]).length := by simp
      rw [e]
      rw [hl] at h
      refine ih (done ++ [s]) (descend s path ++ [(done.length, s)]) ?_ pp h p hp
      intro q hq
      rw [← e]
      rcases List.mem_append.mp hq with hq | hq
      · exact hpath q (descend_subset hq)
      · simp only [List.mem_singleton] at hq
        subst hq
        simp

theorem withChildren_eq_S {sc : List Scope} (hnd : sc.Nodup) :
    withChildren sc (foldParents sc 0 []) = withChildrenS sc (foldParS sc []) := by
  have hinv := foldParP_inv [] sc [] (by intro p hp; cases hp)
  simp only [List.nil_append, List.length_nil] at hinv
  have hS := foldParS_eq_P sc 0 []
  simp only [List.map_nil] at hS
  unfold withChildren withChildrenS
  rw [foldParents_eq_P, hS]
  conv => rhs; rw [← List.zipIdx_map_fst 0 sc, List.map_map]
  simp only [List.zipIdx_map_fst]
  apply List.map_congr_left
  rintro ⟨s, i⟩ hsi
  have hsi' : sc[i]? = some s := List.mem_zipIdx_iff_getElem?.mp hsi
  simp only [Function.comp, Prod.mk.injEq, true_and]
  rw [List.zip_map_right, List.zip_map_right, List.filter_map, List.filter_map, List.map_map,
    List.map_map]
  have hf : ∀ cp ∈ sc.zip (foldParP sc 0 []),
      ((fun cp : Scope × Option Nat => cp.2 == some i) ∘ Prod.map id (Option.map (·.1))) cp
      = ((fun cp : Scope × Option Scope => cp.2 == some s) ∘ Prod.map id (Option.map (·.2))) cp := by
    rintro ⟨c, pp⟩ hcp
    have hpp := (List.of_mem_zip hcp).2
    cases pp with
    | none => rfl
    | some p =>
      have hp := hinv _ hpp p rfl
      simp only [Function.comp, Prod.map, id, Option.map_some]
      by_cases hj : p.1 = i
      · have : p.2 = s := by rw [hj, hsi'] at hp; exact (Option.some.inj hp).symm
        simp [hj, this]
      · have : p.2 ≠ s := by
          intro ht
          have hlt : p.1 < sc.length := (List.getElem?_eq_some_iff.mp hp).1
          exact hj ((List.getElem?_inj hlt hnd).mp (by rw [hp, hsi', ht]))
        rw [beq_false_of_ne (fun h => hj (Option.some.inj h)),
          beq_false_of_ne (fun h => this (Option.some.inj h))]
  rw [List.filter_congr hf]
  rfl

/-! ## structural lemmas for `foldParS` -/

/-- the right-most path after processing `ss` -/
def pathAfterS : List Scope → List Scope → List Scope
  | [], path => path
  | s :: ss, path => pathAfterS ss (path.takeWhile (·.contains s) ++ [s])

theorem foldParS_append (A R path : List Scope) :
    foldParS (A ++ R) path = foldParS A path ++ foldParS R (pathAfterS A path) := by
  induction A generalizing path with
  | nil => rfl
  | cons a A ih => simp only [List.cons_append, foldParS, pathAfterS, ih]

theorem pathAfterS_subset (A path : List Scope) :
    ∀ p ∈ pathAfterS A path, p ∈ path ∨ p ∈ A := by
  induction A generalizing path with
  | nil => intro p hp; exact .inl hp
  | cons a A ih =>
    intro p hp
    rcases ih _ p hp with h | h
    · rcases List.mem_append.mp h with h | h
      · exact .inl ((List.takeWhile_sublist _).subset h)
      · simp only [List.mem_singleton] at h; subst h; exact .inr (List.mem_cons_self)
    · exact .inr (List.mem_cons_of_mem _ h)

theorem foldParS_length (A path : List Scope) : (foldParS A path).length = A.length := by
  induction A generalizing path with
  | nil => rfl
  | cons a A ih => simp [foldParS, ih]

theorem takeWhile_eq_nil_of_forall {α : Type} {p : α → Bool} {l : List α}
    (h : ∀ a ∈ l, p a = false) : l.takeWhile p = [] := by
  cases l with
  | nil => rfl
  | cons a l => rw [List.takeWhile_cons, h a List.mem_cons_self]; rfl

/-- if nothing on the path contains the next scopes, the path might as well be empty -/
theorem foldParS_reset {B path : List Scope}
    (h : ∀ p ∈ path, ∀ b ∈ B, p.contains b = false) : foldParS B path = foldParS B [] := by
  cases B with
  | nil => rfl
  | cons b B =>
    have : path.takeWhile (·.contains b) = [] :=
      takeWhile_eq_nil_of_forall (fun p hp => h p hp b List.mem_cons_self)
    simp [foldParS, this]

/-! ## independence -/

/-! `Independent sc x` and `StartSorted sc` are defined in `CodeLimit/Spec/Nocl.lean`. -/

theorem StartSorted.nodup {sc : List Scope} (h : StartSorted sc) : sc.Nodup := by
  unfold StartSorted at h
  exact h.imp (fun hab heq => by subst heq; omega)

theorem StartSorted.sublist {sc sc' : List Scope} (h : StartSorted sc) (hs : sc'.Sublist sc) :
    StartSorted sc' := List.Pairwise.sublist hs h

structure SplitFacts (A : List Scope) (x : Scope) (B : List Scope) : Prop where
  xA : x ∉ A
  xB : x ∉ B
  Ax : ∀ a ∈ A, a.contains x = false
  xB' : ∀ b ∈ B, x.contains b = false
  AB : ∀ a ∈ A, ∀ b ∈ B, a.contains b = false

/-- the key fact: no scope before an independent `x` contains a scope after it -/
theorem splitFacts {A B : List Scope} {x : Scope} (hs : StartSorted (A ++ x :: B))
    (hi : Independent (A ++ x :: B) x) : SplitFacts A x B := by
  unfold StartSorted at hs
  rw [List.pairwise_append, List.pairwise_cons] at hs
  obtain ⟨_, ⟨hxB, _⟩, hAxB⟩ := hs
  have hAx : ∀ a ∈ A, a.hdr.rng.s < x.hdr.rng.s := fun a ha => hAxB a ha x List.mem_cons_self
  have neA : ∀ a ∈ A, a ≠ x := fun a ha h => by have := hAx a ha; subst h; omega
  have neB : ∀ b ∈ B, b ≠ x := fun b hb h => by have := hxB b hb; subst h; omega
  have iA : ∀ a ∈ A, a.contains x = false := fun a ha =>
    (hi a (List.mem_append_left _ ha) (neA a ha)).2
  have iB : ∀ b ∈ B, x.contains b = false := fun b hb =>
    (hi b (List.mem_append_right _ (List.mem_cons_of_mem _ hb)) (neB b hb)).1
  refine ⟨fun h => neA x h rfl, fun h => neB x h rfl, iA, iB, ?_⟩
  intro a ha b hb
  have h1 := iA a ha
  have h2 := iB b hb
  have h3 := hAx a ha
  have h4 := hxB b hb
  simp only [Scope.contains, Bool.and_eq_false_iff, decide_eq_false_iff_not, ge_iff_le] at h1 h2 ⊢
  omega

theorem filter_ne_split {A B : List Scope} {x : Scope} (hA : x ∉ A) (hB : x ∉ B) :
    (A ++ x :: B).filter (· ≠ x) = A ++ B := by
  have h1 : A.filter (· ≠ x) = A :=
    List.filter_eq_self.mpr (fun a ha => by simp; intro h; exact hA (h ▸ ha))
  have h2 : B.filter (· ≠ x) = B :=
    List.filter_eq_self.mpr (fun a ha => by simp; intro h; exact hB (h ▸ ha))
  rw [List.filter_append, List.filter_cons, h1, h2]
  simp

theorem foldParS_split {A B : List Scope} {x : Scope} (f : SplitFacts A x B) :
    foldParS (A ++ x :: B) [] = foldParS A [] ++ none :: foldParS B [] ∧
    foldParS (A ++ B) [] = foldParS A [] ++ foldParS B [] := by
  have hP : ∀ p ∈ pathAfterS A [], p ∈ A := fun p hp =>
    (pathAfterS_subset A [] p hp).resolve_left (by simp)
  constructor
  · rw [foldParS_append]
    have : (pathAfterS A []).takeWhile (·.contains x) = [] :=
      takeWhile_eq_nil_of_forall (fun p hp => f.Ax p (hP p hp))
    simp only [foldParS, this, List.getLast?_nil, List.nil_append]
    rw [foldParS_reset (path := [x])]
    intro p hp b hb
    simp only [List.mem_singleton] at hp
    subst hp
    exact f.xB' b hb
  · rw [foldParS_append, foldParS_reset (path := pathAfterS A [])]
    intro p hp b hb
    exact f.AB p (hP p hp) b hb

theorem withChildrenS_remove {A B : List Scope} {x : Scope} (hA : x ∉ A) (hB : x ∉ B)
    (PA PB : List (Option Scope)) (hl : A.length = PA.length) :
    withChildrenS (A ++ B) (PA ++ PB)
      = (withChildrenS (A ++ x :: B) (PA ++ none :: PB)).filter (fun p => p.1 ≠ x) := by
  unfold withChildrenS
  rw [List.filter_map]
  have : (A ++ x :: B).filter ((fun p : Scope × List Range => decide (p.1 ≠ x)) ∘ fun s =>
      (s, (((A ++ x :: B).zip (PA ++ none :: PB)).filter (fun cp => cp.2 == some s)).map
        (fun cp => (⟨cp.1.hdr.rng.s, cp.1.blk.e⟩ : Range)))) = A ++ B := by
    rw [← filter_ne_split hA hB]; rfl
  rw [this]
  apply List.map_congr_left
  intro s _
  rw [List.zip_append hl, List.zip_append hl]
  simp [List.filter_append, List.filter_cons]

/-- T3, nesting languages: removing an independent scope leaves every other scope with exactly
the same children -/
theorem withChildren_foldParents_remove {sc : List Scope} {x : Scope} (hs : StartSorted sc)
    (hx : x ∈ sc) (hi : Independent sc x) :
    withChildren (sc.filter (· ≠ x)) (foldParents (sc.filter (· ≠ x)) 0 [])
      = (withChildren sc (foldParents sc 0 [])).filter (fun p => p.1 ≠ x) := by
  obtain ⟨A, B, rfl⟩ := List.mem_iff_append.mp hx
  have f := splitFacts hs hi
  have hs' : StartSorted (A ++ B) := by
    apply hs.sublist
    exact List.Sublist.append_left (List.sublist_cons_self x B) A
  rw [filter_ne_split f.xA f.xB, withChildren_eq_S hs.nodup, withChildren_eq_S hs'.nodup,
    (foldParS_split f).1, (foldParS_split f).2]
  exact withChildrenS_remove f.xA f.xB _ _ (foldParS_length A []).symm

/-! ## `filter_scopes_nested_functions` -/

/-- the value of `last` after processing `ss` -/
def lastAfter : List Scope → Option Scope → Option Scope
  | [], st => st
  | s :: ss, none => lastAfter ss (some s)
  | s :: ss, some last =>
    if last.contains s then lastAfter ss (some last) else lastAfter ss (some s)

theorem filterNested_append (A R : List Scope) (st : Option Scope) :
    filterNested (A ++ R) st = filterNested A st ++ filterNested R (lastAfter A st) := by
  induction A generalizing st with
  | nil => rfl
  | cons a A ih =>
    cases st with
    | none => simp only [List.cons_append, filterNested, lastAfter, ih]
    | some last =>
      simp only [List.cons_append, filterNested, lastAfter]
      split <;> simp [ih]

theorem lastAfter_mem (A : List Scope) (st : Option Scope) :
    ∀ l, lastAfter A st = some l → st = some l ∨ l ∈ A := by
  induction A generalizing st with
  | nil => intro l h; exact .inl h
  | cons a A ih =>
    intro l h
    cases st with
    | none =>
      rcases ih _ l h with h | h
      · cases h; exact .inr List.mem_cons_self
      · exact .inr (List.mem_cons_of_mem _ h)
    | some last =>
      simp only [lastAfter] at h
      split at h
      · rcases ih _ l h with h | h
        · exact .inl h
        · exact .inr (List.mem_cons_of_mem _ h)
      · rcases ih _ l h with h | h
        · cases h; exact .inr List.mem_cons_self
        · exact .inr (List.mem_cons_of_mem _ h)

theorem filterNested_reset {B : List Scope} {st : Option Scope}
    (h : ∀ l, st = some l → ∀ b ∈ B, l.contains b = false) :
    filterNested B st = filterNested B none := by
  cases B with
  | nil => rfl
  | cons b B =>
    cases st with
    | none => rfl
    | some l => simp [filterNested, h l rfl b List.mem_cons_self]

/-- T3, languages without nested functions -/
theorem filterNested_remove {sc : List Scope} {x : Scope} (hs : StartSorted sc)
    (hx : x ∈ sc) (hi : Independent sc x) :
    filterNested (sc.filter (· ≠ x)) none = (filterNested sc none).filter (· ≠ x) := by
  obtain ⟨A, B, rfl⟩ := List.mem_iff_append.mp hx
  have f := splitFacts hs hi
  have hL : ∀ l, lastAfter A none = some l → l ∈ A := fun l hl =>
    (lastAfter_mem A none l hl).resolve_left (by simp)
  have hxkeep : filterNested (x :: B) (lastAfter A none) = x :: filterNested B none := by
    have hB : filterNested B (some x) = filterNested B none :=
      filterNested_reset (fun l hl b hb => by cases hl; exact f.xB' b hb)
    cases hla : lastAfter A none with
    | none => simp [filterNested, hB]
    | some l => simp [filterNested, f.Ax l (hL l hla), hB]
  rw [filter_ne_split f.xA f.xB, filterNested_append, filterNested_append, hxkeep,
    filterNested_reset (B := B) (fun l hl b hb => f.AB l (hL l hl) b hb)]
  exact (filter_ne_split
    (fun h => f.xA ((filterNested_sublist A none).subset h))
    (fun h => f.xB ((filterNested_sublist B none).subset h))).symm

/-- an independent unmarked scope is always reported by `filter_scopes_nested_functions` -/
theorem mem_filterNested_of_independent {sc : List Scope} {x : Scope} (hs : StartSorted sc)
    (hx : x ∈ sc) (hi : Independent sc x) : x ∈ filterNested sc none := by
  obtain ⟨A, B, rfl⟩ := List.mem_iff_append.mp hx
  have f := splitFacts hs hi
  have hL : ∀ l, lastAfter A none = some l → l ∈ A := fun l hl =>
    (lastAfter_mem A none l hl).resolve_left (by simp)
  rw [filterNested_append]
  apply List.mem_append_right
  cases hla : lastAfter A none with
  | none => simp [filterNested]
  | some l => simp [filterNested, f.Ax l (hL l hla)]

/-- a scope that nothing contains is never dropped by `filter_scopes_nested_functions` -/
theorem mem_filterNested_of_not_contained {l : List Scope} {s : Scope} {st : Option Scope}
    (hs : s ∈ l) (hc : ∀ y ∈ l, y.contains s = false)
    (hst : ∀ l0, st = some l0 → l0.contains s = false) : s ∈ filterNested l st := by
  induction l generalizing st with
  | nil => cases hs
  | cons a l ih =>
    have hstep : s ∈ a :: filterNested l (some a) := by
      rcases List.mem_cons.mp hs with h | h
      · subst h; exact List.mem_cons_self
      · refine List.mem_cons_of_mem _ (ih h (fun y hy => hc y (List.mem_cons_of_mem _ hy)) ?_)
        intro l0 hl0; cases hl0; exact hc a List.mem_cons_self
    cases st with
    | none => exact hstep
    | some last =>
      unfold filterNested
      split
      · rename_i hla
        rcases List.mem_cons.mp hs with h | h
        · subst h; rw [hst last rfl] at hla; cases hla
        · exact ih h (fun y hy => hc y (List.mem_cons_of_mem _ hy)) hst
      · exact hstep

/-! ## end to end -/

/-- T3 for the last step of `build_scopes`, whatever the language -/
theorem arrange_remove (L : Language) {fl : List Scope} {x : Scope} (hs : StartSorted fl)
    (hx : x ∈ fl) (hi : Independent fl x) :
    arrange L (fl.filter (· ≠ x)) = (arrange L fl).filter (fun p => p.1 ≠ x) := by
  unfold arrange
  split
  · exact withChildren_foldParents_remove hs hx hi
  · rw [filterNested_remove hs hx hi, List.filter_map]
    rfl

/-- marking the line of `x`'s name removes `x` and nothing else from the surviving scopes,
provided no other scope has its name on that line -/
theorem filterNocl_toggle {sc : List Scope} {x : Scope} {all all' : List Tok}
    (hmark : ∀ ℓ, Marked all' ℓ ↔ Marked all ℓ ∨ ℓ = x.hdr.name.line)
    (huniq : ∀ y ∈ sc, y.hdr.name.line = x.hdr.name.line → y = x) :
    filterNocl sc (noclTokens all') = (filterNocl sc (noclTokens all)).filter (· ≠ x) := by
  rw [filterNocl_eq_filter, filterNocl_eq_filter, List.filter_filter]
  apply List.filter_congr
  intro s hs
  by_cases h1 : Marked all s.hdr.name.line
  · simp [hmark, h1]
  · by_cases h2 : s = x
    · subst h2; simp [hmark]
    · have : ¬ s.hdr.name.line = x.hdr.name.line := fun h => h2 (huniq s hs h)
      simp [hmark, h1, h2, this]

theorem measureAll_length (code : List Tok) :
    ∀ (l : List (Scope × List Range)) (ms : List Measurement),
      measureAll code l = .ok ms → ms.length = l.length
  | [], ms, h => by cases h; rfl
  | (s, ch) :: rest, ms, h => by
    simp only [measureAll] at h
    split at h
    · rename_i m r _ h2
      cases h
      simp [measureAll_length code rest r h2]
    · cases h
    · cases h

/-- measurements are computed scope by scope -/
theorem measureAll_getElem (code : List Tok) :
    ∀ (l : List (Scope × List Range)) (ms : List Measurement), measureAll code l = .ok ms →
      ∀ i (h1 : i < l.length) (h2 : i < ms.length), measure code l[i].1 l[i].2 = .ok ms[i]
  | [], _, _, i, h1, _ => by cases h1
  | (s, ch) :: rest, ms, h, i, h1, h2 => by
    simp only [measureAll] at h
    split at h
    · rename_i m r hm hr
      cases h
      cases i with
      | zero => exact hm
      | succ i => exact measureAll_getElem code rest r hr i (by simpa using h1) (by simpa using h2)
    · cases h
    · cases h

theorem measureAll_eraseIdx (code : List Tok) :
    ∀ (l : List (Scope × List Range)) (ms : List Measurement) (k : Nat),
      measureAll code l = .ok ms → measureAll code (l.eraseIdx k) = .ok (ms.eraseIdx k)
  | [], ms, k, h => by cases h; rfl
  | (s, ch) :: rest, ms, k, h => by
    simp only [measureAll] at h
    split at h
    · rename_i m r hm hr
      cases h
      cases k with
      | zero => exact hr
      | succ k =>
        simp only [List.eraseIdx_cons_succ, measureAll, hm,
          measureAll_eraseIdx code rest r k hr]
    · cases h
    · cases h

/-- conversely, putting a measurable scope back re-inserts its measurement -/
theorem measureAll_insertIdx (code : List Tok) :
    ∀ (l : List (Scope × List Range)) (ms' : List Measurement) (k : Nat) (hk : k < l.length)
      (m : Measurement), measureAll code (l.eraseIdx k) = .ok ms' →
      measure code l[k].1 l[k].2 = .ok m → measureAll code l = .ok (ms'.insertIdx k m)
  | [], _, k, hk, _, _, _ => by cases hk
  | (s, ch) :: rest, ms', k, hk, m, h, hm => by
    cases k with
    | zero =>
      simp only [List.eraseIdx_cons_zero] at h
      simp only [List.getElem_cons_zero] at hm
      simp [measureAll, hm, h]
    | succ k =>
      simp only [List.eraseIdx_cons_succ, measureAll] at h
      simp only [List.getElem_cons_succ] at hm
      split at h
      · rename_i m0 r hm0 hr
        cases h
        have := measureAll_insertIdx code rest r k (by simpa using hk) m hr hm
        simp [measureAll, hm0, this]
      · cases h
      · cases h

theorem filter_fst_ne_eq_eraseIdx {β : Type} (x : Scope) :
    ∀ (l : List (Scope × β)), (l.map (·.1)).Nodup →
      l.filter (fun p => p.1 ≠ x) = l.eraseIdx ((l.map (·.1)).idxOf x)
  | [], _ => rfl
  | p :: l, h => by
    rw [List.map_cons, List.nodup_cons] at h
    by_cases hp : p.1 = x
    · have hx : ∀ q ∈ l, decide (q.1 ≠ x) = true := by
        intro q hq
        have : q.1 ≠ x := fun hq' => h.1 (hp ▸ hq' ▸ List.mem_map_of_mem hq)
        simpa using this
      simp [List.filter_cons, hp, List.idxOf_cons]
      intro a b hab
      simpa using hx (a, b) hab
    · have hp' : (p.1 == x) = false := beq_false_of_ne hp
      have ih := filter_fst_ne_eq_eraseIdx x l h.2
      simp only [ne_eq, decide_not] at ih
      simp [List.filter_cons, hp, List.idxOf_cons, hp', ih]

end CL
