import CodeLimit.Lemmas.IndependenceTok
/-!
# The per-file analysis with the engine's hidden inputs made explicit

`Language.extract_headers` builds its expressions anew on every call and every `get_headers`
compiles them (`Pattern(...)`): each compilation draws its state ids from the process-wide counter
`State._id` - whose value depends on EVERYTHING compiled before in the process - and iterates
Python sets in an order that depends on the hash seed and on the history of the set.  `Schedule`
makes those hidden inputs a parameter, separately for every compilation of a call:
`sched i = (base, baseF, ord)` for the `i`-th header pattern of the language (its header
expression, its follow-up expression, the iteration order).  `extractHeadersWith`,
`buildScopesWith`, `scanFileWith`, `analyzeWith` are the model functions of `Model/Scopes.lean`
with `getHeaders` replaced by `getHeadersWith` under such a schedule; the model's own functions are
the instance `fun _ => (1, 1, id)`.
-/
namespace CL

/-- counter values and set-iteration order of every pattern compilation of one call -/
abbrev Schedule := Nat → Nat × Nat × (List Pred → List Pred)

/-- every set-iteration order of the schedule enumerates every element exactly once -/
def Schedule.Ok (sched : Schedule) : Prop := ∀ i, IsOrder (sched i).2.2

/-- the schedule of the executable model: counter 1, identity order -/
def Schedule.model : Schedule := fun _ => (1, 1, id)

theorem Schedule.model_ok : Schedule.model.Ok := fun _ => isOrder_id

def concatHeadersWith (sched : Schedule) (toks : List Tok) : Nat → List HeaderPat → Except Err (List Header)
  | _, [] => .ok []
  | i, hp :: hps =>
    match getHeadersWith (sched i).1 (sched i).2.1 (sched i).2.2 hp toks, concatHeadersWith sched toks (i + 1) hps with
    | .ok a, .ok b => .ok (a ++ b)
    | .error e, _ => .error e
    | _, .error e => .error e

/-- `Language.extract_headers` under a schedule -/
def extractHeadersWith (sched : Schedule) (L : Language) (toks : List Tok) : Except Err (List Header) :=
  match concatHeadersWith sched toks 0 L.pats with
  | .error e => .error e
  | .ok hs =>
    match L.prevKw with
    | none => .ok hs
    | some kw => .ok (hs.filter (fun h =>
        !(h.rng.s > 0 && (match toks[h.rng.s - 1]? with | some t => kw.eval t | none => false))))

/-- `build_scopes` + `unfold_scopes` under a schedule -/
def buildScopesWith (sched : Schedule) (L : Language) (all : List Tok) : Except Err (List (Scope × List Range)) := do
  let code := filterTokens false all
  let nocl := noclTokens all
  let hs ← extractHeadersWith sched L code
  let bs ← extractBlocks L code hs
  let sc ← buildScopes0 code hs bs
  let fl := filterNocl sc nocl
  if L.nested then pure (withChildren fl (foldParents fl 0 []))
  else pure ((filterNested fl none).map (fun s => (s, [])))

/-- `Scanner.scan_file` under a schedule -/
def scanFileWith (sched : Schedule) (L : Language) (all : List Tok) : Except Err (List Measurement) :=
  match buildScopesWith sched L all with
  | .error e => .error e
  | .ok scs => measureAll (filterTokens false all) scs

/-- `_analyze_file` under a schedule -/
def analyzeWith (sched : Schedule) (L : Language) (code : Str) (raw : List RawTok) :
    Except Err (List Measurement × Nat) :=
  match scanFileWith sched L (lex code raw false) with
  | .error e => .error e
  | .ok ms => .ok (ms, (ms.map (·.len)).foldl (· + ·) 0)

theorem concatHeadersWith_eq {sched : Schedule} (hs : sched.Ok) (toks : List Tok) (i : Nat) (pats : List HeaderPat) :
    concatHeadersWith sched toks i pats = concatHeaders toks pats := by
  induction pats generalizing i with
  | nil => rfl
  | cons hp hps ih =>
    simp only [concatHeadersWith, concatHeaders, ih (i + 1)]
    rw [getHeadersWith_indep (hs i) isOrder_id (base' := 1) (baseF' := 1) hp toks, getHeadersWith_default]
    cases getHeaders hp toks <;> cases concatHeaders toks hps <;> rfl

theorem extractHeadersWith_eq {sched : Schedule} (hs : sched.Ok) (L : Language) (toks : List Tok) :
    extractHeadersWith sched L toks = extractHeaders L toks := by
  simp only [extractHeadersWith, extractHeaders, concatHeadersWith_eq hs]
  cases concatHeaders toks L.pats with
  | error e => rfl
  | ok hs => cases L.prevKw <;> rfl

theorem buildScopesWith_eq {sched : Schedule} (hs : sched.Ok) (L : Language) (all : List Tok) :
    buildScopesWith sched L all = buildScopes L all := by
  simp only [buildScopesWith, buildScopes, extractHeadersWith_eq hs]

theorem scanFileWith_eq {sched : Schedule} (hs : sched.Ok) (L : Language) (all : List Tok) :
    scanFileWith sched L all = scanFile L all := by
  simp only [scanFileWith, scanFile, buildScopesWith_eq hs]
  cases buildScopes L all <;> rfl

theorem analyzeWith_eq {sched : Schedule} (hs : sched.Ok) (L : Language) (code : Str) (raw : List RawTok) :
    analyzeWith sched L code raw = analyze L code raw := by
  simp only [analyzeWith, analyze, scanFileWith_eq hs]
  cases scanFile L (lex code raw false) <;> rfl

/-! ## a process that analyses several files, one after the other

The only state the engine keeps between two calls is the id counter (and whatever determines the
set orders); `next` says how a call changes it - ANY function of the old state, the language and
the outcome, so also "an analysis that aborts midway leaves the counter wherever it got to". -/

/-- the process state between two analyses: the hidden inputs of the next call's compilations -/
structure Proc (γ : Type) where
  /-- the schedule the next call will see, as a function of the state -/
  sched : γ → Schedule
  /-- the state after a call -/
  next : γ → Language → Except Err (List Measurement × Nat) → γ

/-- analyse the files in order, threading the process state; all results, in order -/
def analyseMany {γ : Type} (Pr : Proc γ) : γ → List (Language × Str × List RawTok) →
    List (Except Err (List Measurement × Nat))
  | _, [] => []
  | g, (L, code, raw) :: rest =>
    let r := analyzeWith (Pr.sched g) L code raw
    r :: analyseMany Pr (Pr.next g L r) rest

theorem analyseMany_eq {γ : Type} (Pr : Proc γ) (hok : ∀ g, (Pr.sched g).Ok) (g : γ)
    (files : List (Language × Str × List RawTok)) :
    analyseMany Pr g files = files.map (fun x => analyze x.1 x.2.1 x.2.2) := by
  induction files generalizing g with
  | nil => rfl
  | cons x rest ih =>
    obtain ⟨L, code, raw⟩ := x
    simp only [analyseMany, List.map_cons, analyzeWith_eq (hok g), ih]

end CL
