import CodeLimit.Spec.Tree
/-!
# Loops with exceptions (`forE`): fusion laws, and the flat list of files a walk visits
-/
namespace CL.Sel

variable {α β σ : Type}

theorem forE_append (body : α → σ → σ × Option Err) (xs ys : List α) (s : σ) :
    forE body (xs ++ ys) s =
      match forE body xs s with
      | (s', none) => forE body ys s'
      | (s', some e) => (s', some e) := by
  induction xs generalizing s with
  | nil => simp [forE]
  | cons x xs ih =>
    simp only [List.cons_append, forE]
    rcases h : body x s with ⟨s', _ | e⟩
    · simp [ih]
    · simp

theorem forE_congr {b1 b2 : α → σ → σ × Option Err} (xs : List α) (s : σ)
    (h : ∀ x ∈ xs, ∀ s, b1 x s = b2 x s) : forE b1 xs s = forE b2 xs s := by
  induction xs generalizing s with
  | nil => rfl
  | cons x xs ih =>
    simp only [forE, h x (List.mem_cons_self ..)]
    rcases body : b2 x s with ⟨s', _ | e⟩
    · exact ih _ (fun y hy => h y (List.mem_cons_of_mem _ hy))
    · rfl

theorem forE_filter (body : α → σ → σ × Option Err) (p : α → Bool) (xs : List α) (s : σ) :
    forE body (xs.filter p) s = forE (fun x s => if p x then body x s else (s, none)) xs s := by
  induction xs generalizing s with
  | nil => rfl
  | cons x xs ih =>
    by_cases hp : p x = true
    · simp only [List.filter_cons_of_pos hp, forE, hp, if_true]
      rcases body x s with ⟨s', _ | e⟩
      · exact ih _
      · rfl
    · simp only [List.filter_cons_of_neg hp, forE, hp]
      exact ih _

theorem forE_map (body : β → σ → σ × Option Err) (f : α → β) (xs : List α) (s : σ) :
    forE body (xs.map f) s = forE (fun x s => body (f x) s) xs s := by
  induction xs generalizing s with
  | nil => rfl
  | cons x xs ih =>
    simp only [List.map_cons, forE]
    rcases body (f x) s with ⟨s', _ | e⟩
    · exact ih _
    · rfl

theorem forE_flatMap (body : β → σ → σ × Option Err) (f : α → List β) (xs : List α) (s : σ) :
    forE body (xs.flatMap f) s = forE (fun x s => forE body (f x) s) xs s := by
  induction xs generalizing s with
  | nil => rfl
  | cons x xs ih =>
    simp only [List.flatMap_cons, forE_append, forE]
    rcases forE body (f x) s with ⟨s', _ | e⟩
    · exact ih _
    · rfl

theorem forE_filterMap (body : β → σ → σ × Option Err) (f : α → Option β) (xs : List α) (s : σ) :
    forE body (xs.filterMap f) s =
      forE (fun x s => match f x with | some y => body y s | none => (s, none)) xs s := by
  induction xs generalizing s with
  | nil => rfl
  | cons x xs ih =>
    rcases hf : f x with _ | y
    · simp only [List.filterMap_cons_none hf, forE, hf]
      exact ih _
    · simp only [List.filterMap_cons_some hf, forE, hf]
      rcases body y s with ⟨s', _ | e⟩
      · exact ih _
      · rfl

/-- both `scan_path` and `check_command` prune with this filter -/
abbrev keepV : Str → Bool := fun d => !isHidden d

/-- the files one `os.walk` step offers after the dot filter, with their full components -/
def stepFiles (step : List Str × List (Str × Str)) : List (List Str × Str) :=
  (step.2.filter (fun f => !isHidden f.1)).map (fun f => (step.1 ++ [f.1], f.2))

/-- all files a pruned walk from the directory `pre` (entries `ch`) offers, in loop order -/
def cands (pre : List Str) (ch : List Node) : List (List Str × Str) :=
  (walkTop keepV pre ch).flatMap stepFiles

/-- the two tests of `scan_path`'s loop body (and, with the working directory at the root, of
`check_command`'s): not excluded, supported language -/
def passes (O : Oracles) (x : List Str × Str) : Option (List Str × Nat × Str) :=
  if O.excluded x.1 then none else (O.langOf (baseName x.1)).map (fun l => (x.1, l, x.2))

theorem baseName_append_singleton (pre : List Str) (n : Str) : baseName (pre ++ [n]) = n := by
  simp [baseName]

/-- `scan_path`'s two nested loops are one loop over the selected candidates -/
theorem scan_loops_flat (O : Oracles) (pre : List Str) (ch : List Node) (st : ScanSt) :
    forE (scanDirBody O) (walkTop keepV pre ch) st =
      forE (fun (x : List Str × Nat × Str) s => scanFile O x.1 x.2.1 x.2.2 s)
        ((cands pre ch).filterMap (passes O)) st := by
  rw [forE_filterMap, cands, forE_flatMap]
  apply forE_congr
  intro step _ s
  simp only [scanDirBody, stepFiles, forE_map]
  apply forE_congr
  intro f _ s
  simp only [scanBody, passes, baseName_append_singleton]
  by_cases hx : O.excluded (step.1 ++ [f.1]) = true
  · simp [hx]
  · simp only [hx]
    rcases O.langOf f.1 with _ | l <;> simp

end CL.Sel
