import CodeLimit.Lemmas.SelectCacheRows
import CodeLimit.Props.C11
/-!
# The cache file a scan writes, read by the next scan, is the `Codebase.files` of the first scan
-/
namespace CL.Pipeline

open CL CL.Sel

theorem foldl_dictSet_fresh : ∀ (es : List CacheRow) (d : CachedFiles),
    (es.map (·.1)).Nodup → (∀ r ∈ es, r.1 ∉ d.map (·.1)) →
      es.foldl (fun d r => dictSet d r.1 (entryOfRow r)) d = d ++ es.map (fun r => (r.1, entryOfRow r))
  | [], d, _, _ => by simp
  | r :: es, d, hnd, hdis => by
    simp only [List.map_cons, List.nodup_cons] at hnd
    rw [List.foldl_cons, dictSet_fresh _ (hdis r (by simp))]
    rw [foldl_dictSet_fresh es _ hnd.2]
    · simp
    · intro y hy
      simp only [List.map_append, List.map_cons, List.map_nil, List.mem_append, List.mem_singleton, not_or]
      refine ⟨hdis y (List.mem_cons_of_mem _ hy), fun e => hnd.1 ?_⟩
      exact List.mem_map.2 ⟨y, hy, e⟩

/-- a document without repeated keys is read into a `dict` with the same order -/
theorem dictOfRows_nodup {es : List CacheRow} (h : (es.map (·.1)).Nodup) :
    dictOfRows es = es.map (fun r => (r.1, entryOfRow r)) := by
  unfold dictOfRows
  rw [foldl_dictSet_fresh es [] h (by simp)]
  simp

/-- **writing `Codebase.files` as rows and reading the rows back gives `Codebase.files`** (keys
distinct, each entry filed under its own path, supported languages) -/
theorem dictOfRows_rowsOfFiles {files : List (Str × FileEntry)} (hnd : (files.map (·.1)).Nodup)
    (hkey : ∀ kv ∈ files, kv.1 = kv.2.path) (hlang : ∀ kv ∈ files, kv.2.lang < numLangs) :
    dictOfRows (rowsOfFiles (files.map (fun kv => fileOfSel kv.2))) = files := by
  have hrows : rowsOfFiles (files.map (fun kv => fileOfSel kv.2)) =
      files.map (fun kv => (kv.2.path, kv.2.checksum, Except.ok (rowOfSel kv.2))) := by
    simp only [rowsOfFiles, List.map_map]
    apply List.map_congr_left
    intro kv _
    rfl
  have hkeys : (files.map (fun kv => (kv.2.path, kv.2.checksum, (Except.ok (rowOfSel kv.2) : Except Err Row)))).map (·.1) =
      files.map (·.1) := by
    rw [List.map_map]
    apply List.map_congr_left
    intro kv hkv
    exact (hkey kv hkv).symm
  rw [hrows, dictOfRows_nodup (by rw [hkeys]; exact hnd), List.map_map]
  conv => rhs; rw [← List.map_id files]
  apply List.map_congr_left
  intro kv hkv
  obtain ⟨k, e⟩ := kv
  have h1 : k = e.path := hkey _ hkv
  have h2 : e.lang < numLangs := hlang _ hkv
  subst h1
  simp only [Function.comp, id, entryOfRow, selOfRow_rowOfSel h2]

/-- the entries of a completed `scan_path` have distinct keys, are filed under their own path, and
carry a supported language -/
theorem scanPath_result_shape (E : Env) (pats : List Gi.Pat) (rn : Str) {ch : List Node} (hwf : wfDir ch = true)
    {files : List (Str × FileEntry)} (h : (scanPath (oracles E pats) (.dir rn ch)).result = .ok files) :
    (files.map (·.1)).Nodup ∧ (∀ kv ∈ files, kv.1 = kv.2.path) ∧ (∀ kv ∈ files, kv.2.lang < numLangs) := by
  obtain ⟨hnd, hex⟩ := C11.scanned_entries_exact (oracles E pats) rn ch hwf h
  refine ⟨hnd, ?_, ?_⟩
  · rintro ⟨k, e⟩ hkv
    obtain ⟨p, c, lang, ms, _, _, rfl, rfl⟩ := (hex k e).1 hkv
    rfl
  · rintro ⟨k, e⟩ hkv
    obtain ⟨p, c, lang, ms, hs, _, rfl, rfl⟩ := (hex k e).1 hkv
    exact langOf_lt (E := E) hs.2.2.2

/-- **the next scan's `cached_report.codebase.files` IS the `Codebase.files` of this scan**: the
bytes a scan writes, read by `_read_cached_report`, give back the entries of `scan_path` (language
numbers, natural numbers and all) -/
theorem cacheOf_written {E : Env} (hE : EnvOk E) {R : Run} (hR : RunOk R) {rn : Str} {ch : List Node}
    (hT : TreeOk ch) {prev : Option Str} (hprev : CacheOk E prev) {d : Json.ReportData} {bytes : Str}
    (h : scan E R (.dir rn ch) prev = .ok (d, bytes)) :
    ∃ sfiles, (scanPath (oracles E R.pats) (.dir rn ch)).result = .ok sfiles ∧
      cacheOf E (some bytes) = some sfiles := by
  obtain ⟨sfiles, cb, hs, _, _, hd, _⟩ := scan_spec hE hT.wf hprev h
  refine ⟨sfiles, hs, ?_⟩
  have hread := (scan_report_facts hE hR hT hprev h).2.2.2.2
  obtain ⟨hnd, hkey, hlang⟩ := scanPath_result_shape E R.pats rn hT.wf hs
  have hfiles : d.files = sfiles.map (fun kv => fileOfSel kv.2) := by rw [hd]; rfl
  unfold cacheOf cacheOfFile
  rw [hread, hfiles]
  have : Cache.readCachedReport (cacheParams E)
      (.doc (some E.version) (rowsOfFiles (sfiles.map (fun kv => fileOfSel kv.2))) : CacheFileT) =
      some (rowsOfFiles (sfiles.map (fun kv => fileOfSel kv.2))) :=
    (Cache.readCachedReport_eq_some (cacheParams E)).2 rfl
  rw [this, Option.map_some, dictOfRows_rowsOfFiles hnd hkey hlang]

end CL.Pipeline
