import CodeLimit.Spec.PyTree
import CodeLimit.Lemmas.ProgTreeLocate
import CodeLimit.Lemmas.ProgTreeBasic
/-!
# Python indentation trees: sizes, the renderer, index bounds and the invariant `PInv`

* `PyProg.size_eq`, `PyProg.flat_locate`, `PyProg.size_locate`, `PyProg.shapeOK_locate`;
* `pyRanges_fns`, `pyRanges_locate`: the token ranges of the functions do not depend on the
  locations;
* `PInv lo hi F`: what is needed of the functions `F` of a sub-forest that occupies the token
  indices `[lo, hi)`: bounds, source order, proper nesting (`pinv_of_shape`);
* `pyFnsOf_name`: the name of a function is the token after its `def`.
-/
namespace CL.PyT

theorem PyProg.size_eq {α : Type} : ∀ (p : PyProg α), p.flat.length = p.size
  | .nil => rfl
  | .line toks rest => by
    simp only [PyProg.flat, PyProg.size, List.length_append, PyProg.size_eq rest]
  | .block head suite rest => by
    simp only [PyProg.flat, PyProg.size, List.length_append, PyProg.size_eq suite,
      PyProg.size_eq rest]; omega
  | .defn pre _ _ params post suite rest => by
    simp only [PyProg.flat, PyProg.size, List.length_append, List.length_cons,
      PyProg.size_eq suite, PyProg.size_eq rest]
    omega

/-- the renderer lays the forest out in the order of its token sequence -/
theorem PyProg.flat_locate : ∀ (p : PyProg PTok) (s : Nat × Nat),
    (p.locate s).flat = place s p.flat
  | .nil, _ => rfl
  | .line toks rest, s => by
    simp only [PyProg.locate, PyProg.flat, PyProg.flat_locate rest, place_append]
  | .block head suite rest, s => by
    simp only [PyProg.locate, PyProg.flat, PyProg.flat_locate suite, PyProg.flat_locate rest,
      place_append]
  | .defn pre kw name params post suite rest, s => by
    simp only [PyProg.locate, PyProg.flat, PyProg.flat_locate suite, PyProg.flat_locate rest,
      place_append, place]

theorem PyProg.size_locate : ∀ (p : PyProg PTok) (s : Nat × Nat), (p.locate s).size = p.size
  | .nil, _ => rfl
  | .line toks rest, s => by
    simp only [PyProg.locate, PyProg.size, PyProg.size_locate rest, length_place]
  | .block head suite rest, s => by
    simp only [PyProg.locate, PyProg.size, PyProg.size_locate suite, PyProg.size_locate rest,
      length_place]
  | .defn pre kw name params post suite rest, s => by
    simp only [PyProg.locate, PyProg.size, PyProg.size_locate suite, PyProg.size_locate rest,
      length_place]

theorem PyProg.isNil_locate (p : PyProg PTok) (s : Nat × Nat) :
    (p.locate s).isNil = p.isNil := by
  cases p <;> rfl

theorem isEmpty_place (l : List PTok) (s : Nat × Nat) : (place s l).isEmpty = l.isEmpty := by
  cases l <;> rfl

theorem PyProg.shapeOK_locate : ∀ (p : PyProg PTok) (s : Nat × Nat),
    (p.locate s).shapeOK = p.shapeOK
  | .nil, _ => rfl
  | .line toks rest, s => by
    simp only [PyProg.locate, PyProg.shapeOK, PyProg.shapeOK_locate rest]
  | .block head suite rest, s => by
    simp only [PyProg.locate, PyProg.shapeOK, PyProg.shapeOK_locate suite,
      PyProg.shapeOK_locate rest]
  | .defn pre kw name params post suite rest, s => by
    simp only [PyProg.locate, PyProg.shapeOK, PyProg.shapeOK_locate suite,
      PyProg.shapeOK_locate rest, PyProg.isNil_locate, PyProg.size_locate, isEmpty_place]

/-- the rendering is the layout of the forest's token sequence -/
theorem pyRender_eq (p : PyProg PTok) : pyRender p = place (0, 0) p.flat :=
  PyProg.flat_locate p (0, 0)

theorem pyRanges_fns : ∀ (p : PyProg Tok) (i : Nat),
    (pyFnsOf p i).map (fun f => (f.hdr.rng, f.body)) = pyRanges p i
  | .nil, _ => rfl
  | .line toks rest, i => by simp only [pyFnsOf, pyRanges, pyRanges_fns rest]
  | .block head suite rest, i => by
    simp only [pyFnsOf, pyRanges, List.map_append, pyRanges_fns suite, pyRanges_fns rest]
  | .defn pre kw name params post suite rest, i => by
    simp only [pyFnsOf, pyRanges, List.map_cons, List.map_append, pyRanges_fns suite,
      pyRanges_fns rest]

theorem pyRanges_locate : ∀ (p : PyProg PTok) (s : Nat × Nat) (i : Nat),
    pyRanges (p.locate s) i = pyRanges p i
  | .nil, _, _ => rfl
  | .line toks rest, s, i => by
    simp only [PyProg.locate, pyRanges, pyRanges_locate rest, length_place]
  | .block head suite rest, s, i => by
    simp only [PyProg.locate, pyRanges, pyRanges_locate suite, pyRanges_locate rest, length_place,
      PyProg.size_locate]
  | .defn pre kw name params post suite rest, s, i => by
    simp only [PyProg.locate, pyRanges, pyRanges_locate suite, pyRanges_locate rest, length_place,
      PyProg.size_locate]

theorem mem_pyRanges {p : PyProg Tok} {i : Nat} {f : Fn} (h : f ∈ pyFnsOf p i) :
    (f.hdr.rng, f.body) ∈ pyRanges p i := by
  rw [← pyRanges_fns]; exact List.mem_map_of_mem h

theorem exists_fn_of_range {p : PyProg Tok} {i : Nat} {r : Range × Range}
    (h : r ∈ pyRanges p i) : ∃ f ∈ pyFnsOf p i, f.hdr.rng = r.1 ∧ f.body = r.2 := by
  rw [← pyRanges_fns, List.mem_map] at h
  obtain ⟨f, hf, rfl⟩ := h
  exact ⟨f, hf, rfl, rfl⟩

/-! ## the structural invariant -/

/-- the functions `F` of a sub-forest occupying the token indices `[lo, hi)`: bounds, source
order (a later function starts inside or after the suite of an earlier one) and proper nesting
of the suites -/
structure PInv (lo hi : Nat) (F : List Fn) : Prop where
  fb : ∀ f ∈ F, lo ≤ f.hdr.rng.s ∧ f.hdr.rng.s + 3 ≤ f.hdr.rng.e ∧ f.hdr.rng.e < f.body.s ∧
    f.body.s < f.body.e ∧ f.body.e ≤ hi
  fs : F.Pairwise (fun f g => f.body.s ≤ g.hdr.rng.s)
  lam : F.Pairwise (fun f g => f.body.e ≤ g.hdr.rng.s ∨ g.body.e ≤ f.body.e)

theorem PInv.nil (lo hi : Nat) : PInv lo hi [] :=
  ⟨fun _ h => (by cases h), .nil, .nil⟩

theorem PInv.mono {lo hi lo' hi' : Nat} {F : List Fn} (h : PInv lo hi F) (h1 : lo' ≤ lo)
    (h2 : hi ≤ hi') : PInv lo' hi' F :=
  ⟨fun f hf => (by have := h.fb f hf; omega), h.fs, h.lam⟩

theorem PInv.append {lo mid hi : Nat} {F1 F2 : List Fn} (h1 : PInv lo mid F1)
    (h2 : PInv mid hi F2) (hlm : lo ≤ mid) (hmh : mid ≤ hi) : PInv lo hi (F1 ++ F2) := by
  refine ⟨?_, ?_, ?_⟩
  · intro f hf
    rcases List.mem_append.mp hf with hf | hf
    · have := h1.fb f hf; omega
    · have := h2.fb f hf; omega
  · refine List.pairwise_append.mpr ⟨h1.fs, h2.fs, fun f hf g hg => ?_⟩
    have := h1.fb f hf; have := h2.fb g hg; omega
  · refine List.pairwise_append.mpr ⟨h1.lam, h2.lam, fun f hf g hg => ?_⟩
    have := h1.fb f hf; have := h2.fb g hg; omega

/-- a function with header `[hs, he)`, suite `[bs, be)` and inner functions `FB` -/
theorem PInv.defn {lo hs he bs be : Nat} {nm : Tok} {FB : List Fn} (hB : PInv bs be FB)
    (h0 : lo ≤ hs) (h1 : hs + 3 ≤ he) (h2 : he < bs) (h3 : bs < be) :
    PInv lo be (⟨⟨nm, ⟨hs, he⟩⟩, ⟨bs, be⟩⟩ :: FB) := by
  refine ⟨?_, ?_, ?_⟩
  · intro f hf
    rcases List.mem_cons.mp hf with rfl | hf
    · simp only; omega
    · have := hB.fb f hf; omega
  · refine List.pairwise_cons.mpr ⟨fun g hg => ?_, hB.fs⟩
    have := hB.fb g hg; simp only; omega
  · refine List.pairwise_cons.mpr ⟨fun g hg => ?_, hB.lam⟩
    have := hB.fb g hg; simp only; omega

theorem pinv_of_shape : ∀ (p : PyProg Tok) (i : Nat), p.shapeOK = true →
    PInv i (i + p.size) (pyFnsOf p i)
  | .nil, i, _ => PInv.nil _ _
  | .line toks rest, i, h => by
    simp only [PyProg.shapeOK] at h
    have := pinv_of_shape rest (i + toks.length) h
    simp only [PyProg.size, pyFnsOf]
    exact this.mono (by omega) (by omega)
  | .block head suite rest, i, h => by
    simp only [PyProg.shapeOK, Bool.and_eq_true] at h
    have h1 := pinv_of_shape suite (i + head.length) h.1
    have h2 := pinv_of_shape rest (i + head.length + suite.size) h.2
    have := (h1.append h2 (by omega) (by omega)).mono (lo' := i) (hi' := i + head.length +
      suite.size + rest.size) (by omega) (by omega)
    simp only [PyProg.size, pyFnsOf]
    rw [show i + (head.length + suite.size + rest.size) = i + head.length + suite.size + rest.size
      by omega]
    exact this
  | .defn pre kw name params post suite rest, i, h => by
    simp only [PyProg.shapeOK, Bool.and_eq_true, Bool.not_eq_true', decide_eq_true_eq] at h
    obtain ⟨⟨⟨⟨⟨hpa, hpo⟩, _⟩, hsz⟩, hws⟩, hwr⟩ := h
    have hpa' : 0 < params.length := by
      cases params with
      | nil => cases hpa
      | cons => simp
    have hpo' : 0 < post.length := by
      cases post with
      | nil => cases hpo
      | cons => simp
    have hB := pinv_of_shape suite (i + pre.length + 2 + params.length + post.length) hws
    have hR := pinv_of_shape rest (i + pre.length + 2 + params.length + post.length + suite.size) hwr
    have hF := PInv.defn (nm := name) (lo := i) (hs := i + pre.length)
      (he := i + pre.length + 2 + params.length) hB (by omega) (by omega) (by omega) (by omega)
    have := hF.append hR (by omega) (by omega)
    simp only [PyProg.size, pyFnsOf]
    rw [show i + (pre.length + 2 + params.length + post.length + suite.size + rest.size)
      = i + pre.length + 2 + params.length + post.length + suite.size + rest.size by omega]
    simpa only [List.cons_append] using this

/-- the clauses of `PyLayout` that only speak about token indices -/
theorem PInv.hdr_whole {lo hi : Nat} {F : List Fn} (h : PInv lo hi F) :
    ∀ f ∈ F, ∀ g ∈ F, ¬ (f.hdr.rng.s < g.body.e ∧ g.body.e < f.body.s) := by
  intro f hf g hg ⟨h1, h2⟩
  have hfb := h.fb f hf
  have hgb := h.fb g hg
  by_cases hfg : f = g
  · subst hfg; omega
  · rcases pairwise_mem_or h.fs hf hg hfg with h' | h'
    · omega
    · -- `g` comes first: `f` starts in or after the suite of `g`
      have hl : g.body.e ≤ f.hdr.rng.s ∨ f.body.e ≤ g.body.e := by
        have key : ∀ (l : List Fn), l.Pairwise (fun f g => f.body.s ≤ g.hdr.rng.s) →
            l.Pairwise (fun f g => f.body.e ≤ g.hdr.rng.s ∨ g.body.e ≤ f.body.e) →
            (∀ x ∈ l, x.hdr.rng.s < x.body.s) →
            ∀ a ∈ l, ∀ b ∈ l, a.body.s ≤ b.hdr.rng.s → a ≠ b →
              a.body.e ≤ b.hdr.rng.s ∨ b.body.e ≤ a.body.e := by
          intro l hs hl hx
          induction l with
          | nil => intro a ha; cases ha
          | cons x xs ih =>
            rw [List.pairwise_cons] at hs hl
            intro a ha b hb hab hne
            rcases List.mem_cons.mp ha with rfl | ha' <;> rcases List.mem_cons.mp hb with rfl | hb'
            · exact absurd rfl hne
            · exact hl.1 b hb'
            · have := hs.1 a ha'
              have := hx a (List.mem_cons_of_mem _ ha')
              have := hx b List.mem_cons_self
              omega
            · exact ih hs.2 hl.2 (fun y hy => hx y (List.mem_cons_of_mem _ hy)) a ha' b hb' hab hne
        exact key F h.fs h.lam (fun x hx => by have := h.fb x hx; omega) g hg f hf h'
          (fun e => hfg e.symm)
      omega

/-! ## the segments of the constructors -/

theorem seg_line {α : Type} {ps : List α} {i : Nat} {toks : List α} {rest : PyProg α}
    (h : Seg ps i (PyProg.line toks rest).flat) :
    Seg ps i toks ∧ Seg ps (i + toks.length) rest.flat := by
  rw [PyProg.flat, Seg.append_iff] at h; exact h

theorem seg_block {α : Type} {ps : List α} {i : Nat} {head : List α} {suite rest : PyProg α}
    (h : Seg ps i (PyProg.block head suite rest).flat) :
    Seg ps i head ∧ Seg ps (i + head.length) suite.flat ∧
      Seg ps (i + head.length + suite.size) rest.flat := by
  rw [PyProg.flat, Seg.append_iff, Seg.append_iff, PyProg.size_eq] at h; exact h

theorem seg_defn {α : Type} {ps : List α} {i : Nat} {pre : List α} {kw name : α}
    {params post : List α} {suite rest : PyProg α}
    (h : Seg ps i (PyProg.defn pre kw name params post suite rest).flat) :
    Seg ps i pre ∧ ps[i + pre.length]? = some kw ∧ ps[i + pre.length + 1]? = some name ∧
      Seg ps (i + pre.length + 2) params ∧ Seg ps (i + pre.length + 2 + params.length) post ∧
      Seg ps (i + pre.length + 2 + params.length + post.length) suite.flat ∧
      Seg ps (i + pre.length + 2 + params.length + post.length + suite.size) rest.flat := by
  rw [PyProg.flat, Seg.append_iff, Seg.cons_iff, Seg.cons_iff, Seg.append_iff, Seg.append_iff,
    Seg.append_iff, PyProg.size_eq] at h
  exact h

/-- the token at an index inside a segment -/
theorem seg_at {α : Type} {ps : List α} {k : Nat} {l : List α} (h : Seg ps k l) {j : Nat}
    (h1 : k ≤ j) (h2 : j < k + l.length) : ∃ t, t ∈ l ∧ ps[j]? = some t ∧ l[j - k]? = some t := by
  have hk : j - k < l.length := by omega
  have := h.getElem? hk
  rw [show k + (j - k) = j by omega, List.getElem?_eq_getElem hk] at this
  exact ⟨l[j - k], List.getElem_mem hk, this, List.getElem?_eq_getElem hk⟩

theorem seg_all {α : Type} {ps : List α} {k : Nat} {l : List α} {P : α → Bool} (h : Seg ps k l)
    (hl : l.all P = true) {j : Nat} (h1 : k ≤ j) (h2 : j < k + l.length) :
    ∃ t, ps[j]? = some t ∧ P t = true := by
  obtain ⟨t, ht, hj, _⟩ := seg_at h h1 h2
  exact ⟨t, hj, List.all_eq_true.mp hl t ht⟩

theorem Seg.map {α β : Type} (f : α → β) {ps : List α} {k : Nat} {l : List α} (h : Seg ps k l) :
    Seg (ps.map f) k (l.map f) := by
  obtain ⟨t, ht⟩ := h
  exact ⟨t.map f, by rw [← List.map_append, ht, List.map_drop]⟩

theorem seg_snoc {α : Type} {ps : List α} {k : Nat} {l : List α} {a : α} (h : Seg ps k l)
    (ha : ps[k + l.length]? = some a) : Seg ps k (l ++ [a]) :=
  Seg.append_iff.mpr ⟨h, Seg.cons_iff.mpr ⟨ha, Seg.nil _ _⟩⟩

/-! ## names -/

/-- the name of a function is the token after its `def` -/
theorem pyFnsOf_name {code : List Tok} : ∀ (p : PyProg Tok) (i : Nat), Seg code i p.flat →
    ∀ f ∈ pyFnsOf p i, code[f.hdr.rng.s + 1]? = some f.hdr.name
  | .nil, _, _, f, hf => by cases hf
  | .line toks rest, i, hseg, f, hf => pyFnsOf_name rest _ (seg_line hseg).2 f hf
  | .block head suite rest, i, hseg, f, hf => by
    obtain ⟨_, hs, hr⟩ := seg_block hseg
    simp only [pyFnsOf, List.mem_append] at hf
    rcases hf with hf | hf
    · exact pyFnsOf_name suite _ hs f hf
    · exact pyFnsOf_name rest _ hr f hf
  | .defn pre kw name params post suite rest, i, hseg, f, hf => by
    obtain ⟨_, _, hn, _, _, hs, hr⟩ := seg_defn hseg
    simp only [pyFnsOf, List.mem_cons, List.mem_append] at hf
    rcases hf with rfl | hf | hf
    · exact hn
    · exact pyFnsOf_name suite _ hs f hf
    · exact pyFnsOf_name rest _ hr f hf

end CL.PyT
