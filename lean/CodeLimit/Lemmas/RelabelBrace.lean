import CodeLimit.Lemmas.Relabel
/-!
# Brace-block languages: every scope ends in a `}` token

Hence the last token of a scope never spans lines and the shift hypothesis of the
relabelling theorem is not needed when `L.python = false`.
-/
namespace CL

/-- position `e` is just behind a `}` token -/
def BraceEnd (toks : List Tok) (e : Nat) : Prop :=
  ∃ t, toks[e - 1]? = some t ∧ 1 ≤ e ∧ t.isSymbol [125] = true

theorem balancedPairs_snd (op cl : Str) (ts : List Tok) (i : Nat) (st : List Nat) :
    ∀ p ∈ balancedPairs op cl ts i st, ∃ t, i ≤ p.2 ∧ ts[p.2 - i]? = some t ∧ t.isSymbol cl = true := by
  induction ts generalizing i st with
  | nil => simp [balancedPairs]
  | cons t ts ih =>
    have lift : ∀ st' (p : Nat × Nat), p ∈ balancedPairs op cl ts (i + 1) st' →
        ∃ t', i ≤ p.2 ∧ (t :: ts)[p.2 - i]? = some t' ∧ t'.isSymbol cl = true := by
      intro st' p hp
      obtain ⟨t', h1, h2, h3⟩ := ih (i + 1) st' p hp
      refine ⟨t', by omega, ?_, h3⟩
      have : p.2 - i = (p.2 - (i + 1)) + 1 := by omega
      rw [this, List.getElem?_cons_succ]; exact h2
    intro p hp
    unfold balancedPairs at hp
    by_cases ho : t.isSymbol op = true
    · simp only [ho, ↓reduceIte] at hp; exact lift _ p hp
    · simp only [ho, Bool.false_eq_true, ↓reduceIte] at hp
      by_cases hc : t.isSymbol cl = true
      · simp only [hc, ↓reduceIte] at hp
        cases st with
        | nil => exact lift _ p hp
        | cons s st' =>
          simp only [List.mem_cons] at hp
          rcases hp with rfl | hp
          · exact ⟨t, Nat.le_refl _, by simp, hc⟩
          · exact lift _ p hp
      · simp only [hc, Bool.false_eq_true, ↓reduceIte] at hp; exact lift _ p hp

theorem withKeys_snd {γ : Type} (toks : List Tok) (start : γ → Nat) (xs : List γ)
    (ks : List ((Nat × Nat) × γ)) (h : withKeys toks start xs = .ok ks) : ks.map (·.2) = xs := by
  induction xs generalizing ks with
  | nil => simp only [withKeys, Except.ok.injEq] at h; subst h; rfl
  | cons x xs ih =>
    simp only [withKeys] at h
    rcases hk : posKey toks (start x) with e | k
    · simp [hk] at h
    · rcases hr : withKeys toks start xs with e | r
      · simp [hk, hr] at h
      · simp only [hk, hr, Except.ok.injEq] at h
        subst h
        simp [ih r hr]

theorem sortAsc_mem {γ : Type} (toks : List Tok) (start : γ → Nat) (xs r : List γ)
    (h : sortAsc toks start xs = .ok r) : ∀ x ∈ r, x ∈ xs := by
  unfold sortAsc at h
  rcases hk : withKeys toks start xs with e | ks
  · simp [hk] at h
  · simp only [hk, Except.ok.injEq] at h
    subst h
    intro x hx
    rw [← withKeys_snd toks start xs ks hk]
    simp only [List.mem_map, List.mem_mergeSort] at hx ⊢
    exact hx

theorem sortDesc_mem {γ : Type} (toks : List Tok) (start : γ → Nat) (xs r : List γ)
    (h : sortDesc toks start xs = .ok r) : ∀ x ∈ r, x ∈ xs := by
  unfold sortDesc at h
  rcases hk : withKeys toks start xs with e | ks
  · simp [hk] at h
  · simp only [hk, Except.ok.injEq] at h
    subst h
    intro x hx
    rw [← withKeys_snd toks start xs ks hk]
    simp only [List.mem_map, List.mem_mergeSort] at hx ⊢
    exact hx

theorem getBlocks_braceEnd (toks : List Tok) (bs : List Range) (h : getBlocks toks = .ok bs) :
    ∀ b ∈ bs, BraceEnd toks b.e := by
  unfold getBlocks at h
  intro b hb
  have hm := sortAsc_mem _ _ _ _ h b hb
  obtain ⟨p, hp, rfl⟩ := List.mem_map.mp hm
  obtain ⟨t, _, h2, h3⟩ := balancedPairs_snd _ _ _ _ _ p hp
  exact ⟨t, by simpa using h2, by simp, h3⟩

theorem foldl_max_mem (xs : List Nat) (x : Nat) : xs.foldl max x ∈ x :: xs := by
  induction xs generalizing x with
  | nil => simp
  | cons y ys ih =>
    simp only [List.foldl_cons]
    have := ih (max x y)
    simp only [List.mem_cons] at this ⊢
    rcases this with h | h
    · rw [h]; rcases Nat.le_total x y with h' | h'
      · right; left; exact Nat.max_eq_right h'
      · left; exact Nat.max_eq_left h'
    · right; right; exact h

theorem maxList_mem {xs : List Nat} {m : Nat} (h : maxList xs = .ok m) : m ∈ xs := by
  cases xs with
  | nil => simp [maxList] at h
  | cons x xs =>
    simp only [maxList, Except.ok.injEq] at h
    subst h
    exact foldl_max_mem xs x

theorem mem_deleteIndices {α : Type} {l : List α} {idxs : List Nat} {x : α}
    (h : x ∈ deleteIndices l idxs) : x ∈ l := by
  unfold deleteIndices at h
  obtain ⟨⟨y, i⟩, hy, hf⟩ := List.mem_filterMap.mp h
  have := List.fst_mem_of_mem_zipIdx hy
  by_cases hc : idxs.contains i = true
  · simp only [hc, ↓reduceIte] at hf; cases hf
  · simp only [hc, Bool.false_eq_true, ↓reduceIte, Option.some.injEq] at hf
    subst hf; exact this

theorem buildScopesLoop_braceEnd (toks : List Tok) (hs : List Header) (blocks : List Range)
    (r : List Scope) (hb : ∀ b ∈ blocks, BraceEnd toks b.e)
    (h : buildScopesLoop hs blocks = .ok r) : ∀ s ∈ r, BraceEnd toks s.blk.e := by
  induction hs generalizing blocks r with
  | nil => simp only [buildScopesLoop, Except.ok.injEq] at h; subst h; simp
  | cons hd hs ih =>
    unfold buildScopesLoop at h
    by_cases hI : (scopeBlockIndices hd.rng blocks).isEmpty = true
    · simp only [hI, ↓reduceIte] at h; exact ih blocks r hb h
    · simp only [hI, Bool.false_eq_true, ↓reduceIte] at h
      generalize hsel : (scopeBlockIndices hd.rng blocks).filterMap (fun i => blocks[i]?) = sel at h
      rcases hmin : minList (sel.map (·.s)) with e | mn
      · simp [hmin] at h
      · rcases hmax : maxList (sel.map (·.e)) with e | mx
        · simp [hmin, hmax] at h
        · rcases hrest : buildScopesLoop hs (deleteIndices blocks (scopeBlockIndices hd.rng blocks)) with e | rest
          · simp [hmin, hmax, hrest] at h
          · simp only [hmin, hmax, hrest, Except.ok.injEq] at h
            subst h
            intro s hs'
            rcases List.mem_cons.mp hs' with rfl | hs'
            · obtain ⟨b, hbs, hbe⟩ := List.mem_map.mp (maxList_mem hmax)
              rw [← hsel] at hbs
              obtain ⟨i, _, hi⟩ := List.mem_filterMap.mp hbs
              have := hb b (List.mem_of_getElem? hi)
              simpa [← hbe] using this
            · exact ih _ rest (fun b hb' => hb b (mem_deleteIndices hb')) hrest s hs'

theorem buildScopes0_braceEnd (toks : List Tok) (hs : List Header) (blocks : List Range)
    (r : List Scope) (hb : ∀ b ∈ blocks, BraceEnd toks b.e)
    (h : buildScopes0 toks hs blocks = .ok r) : ∀ s ∈ r, BraceEnd toks s.blk.e := by
  unfold buildScopes0 at h
  rcases hsd : sortDesc toks (fun h : Header => h.rng.s) hs with e | rh
  · simp [hsd] at h
  · rcases hl : buildScopesLoop rh blocks with e | r'
    · simp [hsd, hl] at h
    · simp only [hsd, hl, Except.ok.injEq] at h
      subst h
      intro s hs'
      exact buildScopesLoop_braceEnd toks rh blocks r' hb hl s (List.mem_reverse.mp hs')

theorem filterNested_mem (ss : List Scope) (o : Option Scope) : ∀ s ∈ filterNested ss o, s ∈ ss := by
  induction ss generalizing o with
  | nil => simp [filterNested]
  | cons a ss ih =>
    intro s hs
    cases o with
    | none =>
      simp only [filterNested, List.mem_cons] at hs ⊢
      rcases hs with h | h
      · exact .inl h
      · exact .inr (ih _ s h)
    | some last =>
      simp only [filterNested] at hs
      by_cases hc : last.contains a = true
      · simp only [hc, ↓reduceIte] at hs; exact List.mem_cons_of_mem _ (ih _ s hs)
      · simp only [hc, Bool.false_eq_true, ↓reduceIte, List.mem_cons] at hs
        rcases hs with h | h
        · exact List.mem_cons.mpr (.inl h)
        · exact List.mem_cons_of_mem _ (ih _ s h)

/-- in a brace-block language every reported scope ends just behind a `}` -/
theorem buildScopes_braceEnd (L : Language) (hL : L.python = false) (all : List Tok)
    (scs : List (Scope × List Range)) (h : buildScopes L all = .ok scs) :
    ∀ p ∈ scs, BraceEnd (filterTokens false all) p.1.blk.e := by
  unfold buildScopes at h
  simp only [bind, Except.bind, pure, Except.pure, extractBlocks, hL, Bool.false_eq_true,
    ↓reduceIte] at h
  rcases hh : extractHeaders L (filterTokens false all) with e | hs
  · simp [hh] at h
  · simp only [hh] at h
    rcases hg : getBlocks (filterTokens false all) with e | bs
    · simp [hg] at h
    · simp only [hg] at h
      rcases hb0 : buildScopes0 (filterTokens false all) hs bs with e | sc
      · simp [hb0] at h
      · simp only [hb0] at h
        have hsc := buildScopes0_braceEnd _ hs bs sc (getBlocks_braceEnd _ bs hg) hb0
        have hfl : ∀ s ∈ filterNocl sc (noclTokens all), BraceEnd (filterTokens false all) s.blk.e :=
          fun s hs' => hsc s (List.mem_filter.mp hs').1
        cases hn : L.nested with
        | true =>
          simp only [hn, ↓reduceIte, Except.ok.injEq] at h
          subst h
          intro p hp
          unfold withChildren at hp
          obtain ⟨⟨s, i⟩, hsi, rfl⟩ := List.mem_map.mp hp
          exact hfl s (List.fst_mem_of_mem_zipIdx hsi)
        | false =>
          simp only [hn, Bool.false_eq_true, ↓reduceIte, Except.ok.injEq] at h
          subst h
          intro p hp
          obtain ⟨s, hs', rfl⟩ := List.mem_map.mp hp
          exact hfl s (filterNested_mem _ _ s hs')

theorem BraceEnd.shiftLast {f : Nat → Nat} {toks : List Tok} {s : Scope} (h : BraceEnd toks s.blk.e) :
    ShiftLast f toks s := by
  intro last hl i hi
  obtain ⟨t, ht, _, hsym⟩ := h
  rw [hl] at ht
  cases ht
  have hv : last.val = [125] := by
    simp only [Tok.isSymbol, Bool.and_eq_true, beq_iff_eq] at hsym
    exact hsym.2
  rw [hv] at hi
  have : i = 0 := by
    have : (lastLineInfo [125]).1 = 0 := by decide
    omega
  subst this; rfl

/-- relabelling for brace-block languages: strict monotonicity suffices -/
theorem scanFile_relabel_brace' {f : Nat → Nat} (hf : StrictMonoN f) (L : Language)
    (hL : L.python = false) (all : List Tok) :
    scanFile L (relabel f all) = (scanFile L all).map (List.map (Measurement.rl f)) := by
  unfold scanFile
  rw [buildScopes_relabel hf, filterTokens_relabel]
  rcases hb : buildScopes L all with e | scs
  · rfl
  · simp only [Except.map_ok']
    exact measureAll_relabel_gen hf _ scs
      (fun p hp => (buildScopes_braceEnd L hL all scs hb p hp).shiftLast)

end CL
