import CodeLimit.Lemmas.ProgTreeCanonArrow2Tok
/-!
# Canonical forests with arrow nodes: the syntactic arrow headers are the arrow nodes

* `synArrG toks i` - ALL Name tokens of `toks` that are followed by `= [async] ( … )+ => {`, in
  source order, each with its index (shifted by `i`);
* `falseArrow_sound` - the tree-level test `Prog.falseArrowAfter` is sound for the token-level test
  `arrowStart`;
* `synArrG_prog` - in the token sequence of a forest of the fragment these are exactly the Name
  tokens of the arrow nodes;
* `arrow_located` - the header of every arrow node is a canonical arrow header followed by `=>` `{`
  in the context of the token sequence.
-/
namespace CL
open CL.Syn

/-- ALL Name tokens of `toks` that are followed by `= [async] ( … )+ => {`, with their indices
(`i` = the index of the first token of `toks`) -/
def synArrG : List Tok → Nat → List (Tok × Nat)
  | [], _ => []
  | t :: ts, i =>
    if t.isName && arrowStart ts then (t, i) :: synArrG ts (i + 1) else synArrG ts (i + 1)

theorem synArrG_cons_false {t : Tok} {ts : List Tok} (i : Nat)
    (h : (t.isName && arrowStart ts) = false) : synArrG (t :: ts) i = synArrG ts (i + 1) := by
  simp [synArrG, h]

theorem synArrG_cons_true {t : Tok} {ts : List Tok} (i : Nat)
    (h : (t.isName && arrowStart ts) = true) :
    synArrG (t :: ts) i = (t, i) :: synArrG ts (i + 1) := by
  simp only [synArrG, h, if_true]

theorem synArrG_not_name {t : Tok} (ts : List Tok) (i : Nat) (h : t.isName = false) :
    synArrG (t :: ts) i = synArrG ts (i + 1) :=
  synArrG_cons_false i (by rw [h]; rfl)

theorem arrowBodyAfterRun_head {l : List Tok} (h : arrowBodyAfterRun l = true) :
    l.head?.any isOpen = true := by
  simp only [arrowBodyAfterRun, Bool.and_eq_true] at h; exact h.1

theorem arrowStart_assignOpen {ts : List Tok} (h : arrowStart ts = true) :
    assignOpen ts = true := by
  cases ts with
  | nil => cases h
  | cons e r =>
    simp only [arrowStart, Bool.and_eq_true] at h
    simp only [assignOpen, h.1, Bool.true_and]
    have h2 := h.2
    simp only [arrowAfterAssign, Bool.or_eq_true] at h2
    cases r with
    | nil =>
      rcases h2 with h2 | h2
      · have := arrowBodyAfterRun_head h2; simp at this
      · cases h2
    | cons o r' =>
      rcases h2 with h2 | h2
      · have := arrowBodyAfterRun_head h2
        simp only [List.head?_cons, Option.any_some] at this
        simp [opensParams, this]
      · simp only [Bool.and_eq_true] at h2
        simp [opensParams, h2.1, arrowBodyAfterRun_head h2.2]

/-- a piece without `Name = [async] (`, followed by an inert token, contains no arrow start -/
theorem synArrG_noAssignOpen {Z : List Tok} (hZ : InertHead Z) : ∀ (l : List Tok) (i : Nat),
    noAssignOpen l = true → synArrG (l ++ Z) i = synArrG Z (i + l.length)
  | [], i, _ => rfl
  | t :: ts, i, h => by
    simp only [noAssignOpen, Bool.and_eq_true, Bool.not_eq_true'] at h
    have h1 : (t.isName && arrowStart (ts ++ Z)) = false := by
      cases hn : t.isName
      · rfl
      · cases hs : arrowStart (ts ++ Z)
        · rfl
        · have := assignOpen_ctx hZ (arrowStart_assignOpen hs)
          simp [hn, this] at h
    rw [List.cons_append, synArrG_cons_false i h1, synArrG_noAssignOpen hZ ts (i + 1) h.2]
    simp only [List.length_cons]
    congr 1; omega

theorem synArrG_skipNames (X : List Tok) : ∀ (l : List Tok) (i : Nat),
    (∀ t ∈ l, t.isName = false) → synArrG (l ++ X) i = synArrG X (i + l.length)
  | [], i, _ => rfl
  | t :: ts, i, h => by
    rw [List.cons_append, synArrG_not_name _ _ (h t (by simp)),
      synArrG_skipNames X ts _ (fun x hx => h x (List.mem_cons_of_mem _ hx))]
    simp only [List.length_cons]
    congr 1; omega

theorem noAssignOpen_of_noOpen : ∀ (l : List Tok), (∀ t ∈ l, isOpen t = false) →
    noAssignOpen l = true
  | [], _ => rfl
  | t :: ts, h => by
    have hts : ∀ x ∈ ts, isOpen x = false := fun x hx => h x (List.mem_cons_of_mem _ hx)
    simp only [noAssignOpen, Bool.and_eq_true, Bool.not_eq_true']
    refine ⟨?_, noAssignOpen_of_noOpen ts hts⟩
    have : assignOpen ts = false := by
      match ts, hts with
      | [], _ => rfl
      | [e], _ => simp [assignOpen, opensParams]
      | [e, o], hts => simp [assignOpen, opensParams, hts o (by simp)]
      | e :: o :: o' :: r, hts =>
        simp [assignOpen, opensParams, hts o (by simp), hts o' (by simp)]
    rw [this]; simp

/-- every Name token followed by `= [async] ( … )+ => {` is listed -/
theorem mem_synArrG {t : Tok} {ts : List Tok} (ht : t.isName = true) (hf : arrowStart ts = true) :
    ∀ (pre : List Tok) (i : Nat), (t, i + pre.length) ∈ synArrG (pre ++ t :: ts) i
  | [], i => by
    rw [List.nil_append, synArrG_cons_true i (by rw [ht, hf]; rfl)]
    exact List.mem_cons_self
  | a :: pre, i => by
    have := mem_synArrG ht hf pre (i + 1)
    rw [List.cons_append]
    simp only [List.length_cons]
    rw [show i + (pre.length + 1) = i + 1 + pre.length by omega]
    simp only [synArrG]
    split
    · exact List.mem_cons_of_mem _ this
    · exact this

theorem isKw_noParen {t : Tok} {v : Str} (h : t.isKw v = true) :
    t.noParen = true ∧ t.isName = false := by
  have := (isKw_facts h).1
  simp [Tok.noParen, isOpen, isClose, Tok.isSymbol, Tok.isName, this]

theorem operator_noParen {t : Tok} {v : Str} (h : t.isOperator v = true) :
    t.noParen = true ∧ t.isName = false := by
  have : t.kind = 4 := by
    simp only [Tok.isOperator, Bool.and_eq_true, beq_iff_eq] at h; exact h.1
  simp [Tok.noParen, isOpen, isClose, Tok.isSymbol, Tok.isName, this]

/-! ## inside parentheses, the test `arrowStart` does not look past the closing parenthesis -/

/-- the pass from depth `r` over a piece `x` that lies inside `D + 1` further open parentheses which
`x` closes stops inside `x`, whatever follows; what remains of `x` still closes `D + 1`
parentheses -/
theorem pass_inside (Z : List Tok) : ∀ (x : List Tok) (r D : Nat),
    parenBal x (D + 1 + r) = true →
    groupsLen (x ++ Z) r = groupsLen x r ∧ groupsLen x r ≤ x.length ∧
      parenBal (x.drop (groupsLen x r)) (D + 1) = true
  | [], r, D, h => by simp [parenBal] at h
  | t :: ts, r, D, h => by
    rw [List.cons_append]
    rcases groupsLen_cases t (ts ++ Z) r with ⟨ho, e⟩ | ⟨ho, hr0, e⟩ | ⟨ho, hcl, r', hr', e⟩ |
        ⟨ho, hcl, r', hr', e⟩
    · rw [parenBal_open _ _ ho] at h
      obtain ⟨h1, h2, h3⟩ := pass_inside Z ts (r + 1) D h
      rw [e, groupsLen_open _ _ ho, h1]
      exact ⟨rfl, by simp only [List.length_cons]; omega, by simpa using h3⟩
    · subst hr0
      rw [e, groupsLen_zero _ ho]
      exact ⟨rfl, Nat.zero_le _, by simpa using h⟩
    · subst hr'
      rw [show D + 1 + (r' + 1) = D + 1 + r' + 1 by omega, parenBal_close _ _ ho hcl] at h
      obtain ⟨h1, h2, h3⟩ := pass_inside Z ts r' D h
      rw [e, groupsLen_close _ _ ho hcl, h1]
      exact ⟨rfl, by simp only [List.length_cons]; omega, by simpa using h3⟩
    · subst hr'
      rw [parenBal_other _ _ ho hcl] at h
      obtain ⟨h1, h2, h3⟩ := pass_inside Z ts (r' + 1) D h
      rw [e, groupsLen_other _ _ ho hcl, h1]
      exact ⟨rfl, by simp only [List.length_cons]; omega, by simpa using h3⟩

theorem symbol_noParen {t : Tok} {s : Str} (h : t.isSymbol s = true) (h1 : s ≠ [40])
    (h2 : s ≠ [41]) : isOpen t = false ∧ isClose t = false := by
  obtain ⟨_, hv⟩ := isSymbol_iff.1 h
  simp [isOpen, isClose, Tok.isSymbol, hv, h1, h2]

theorem startsArrowBody_ctx (Z : List Tok) {y : List Tok} {D : Nat}
    (h : parenBal y (D + 1) = true) : startsArrowBody (y ++ Z) = startsArrowBody y := by
  cases y with
  | nil => simp [parenBal] at h
  | cons a y' =>
    cases ha : a.isSymbol [61, 62]
    · cases y' with
      | nil => cases Z <;> simp [startsArrowBody, ha]
      | cons b y'' => simp [startsArrowBody, ha]
    · obtain ⟨h1, h2⟩ := symbol_noParen ha (by decide) (by decide)
      rw [parenBal_other _ _ h1 h2] at h
      cases y' with
      | nil => simp [parenBal] at h
      | cons b y'' => simp [startsArrowBody]

theorem arrowBodyAfterRun_ctx (Z : List Tok) {l : List Tok} {D : Nat}
    (h : parenBal l (D + 1) = true) : arrowBodyAfterRun (l ++ Z) = arrowBodyAfterRun l := by
  cases l with
  | nil => simp [parenBal] at h
  | cons o l' =>
    cases ho : isOpen o
    · simp [arrowBodyAfterRun, ho]
    · rw [parenBal_open _ _ ho] at h
      obtain ⟨h1, h2, h3⟩ := pass_inside Z l' 1 D h
      simp only [arrowBodyAfterRun, List.cons_append, List.head?_cons, Option.any_some, ho,
        Bool.true_and, groupsLen_open _ _ ho, List.drop_succ_cons, h1]
      rw [List.drop_append_of_le_length h2, startsArrowBody_ctx Z h3]

theorem arrowAfterAssign_ctx (Z : List Tok) {l : List Tok} {D : Nat}
    (h : parenBal l (D + 1) = true) : arrowAfterAssign (l ++ Z) = arrowAfterAssign l := by
  unfold arrowAfterAssign
  rw [arrowBodyAfterRun_ctx Z h]
  congr 1
  cases l with
  | nil => simp [parenBal] at h
  | cons u r =>
    simp only [List.cons_append]
    cases hu : u.isKw kwAsyncS
    · simp
    · obtain ⟨h1, h2⟩ := noParen_iff.1 ((isKw_noParen hu).1)
      rw [parenBal_other _ _ h1 h2] at h
      rw [arrowBodyAfterRun_ctx Z h]

theorem arrowStart_ctx (Z : List Tok) {ts : List Tok} {D : Nat}
    (h : parenBal ts (D + 1) = true) : arrowStart (ts ++ Z) = arrowStart ts := by
  cases ts with
  | nil => simp [parenBal] at h
  | cons e r =>
    simp only [List.cons_append, arrowStart]
    cases he : e.isOperator [61]
    · simp
    · obtain ⟨h1, h2⟩ := noParen_iff.1 ((operator_noParen he).1)
      rw [parenBal_other _ _ h1 h2] at h
      rw [arrowAfterAssign_ctx Z h]

/-- parenthesis groups without a Name token followed by `= [async] ( … )+ => {` contain no arrow
start, whatever follows them -/
theorem synArrG_groups (Z : List Tok) : ∀ (l : List Tok) (d i : Nat), groupsOnly l d = true →
    noArrowStart l = true → synArrG (l ++ Z) i = synArrG Z (i + l.length)
  | [], d, i, _, _ => rfl
  | t :: ts, d, i, hg, hn => by
    simp only [noArrowStart, Bool.and_eq_true, Bool.not_eq_true'] at hn
    have hstep : ∃ d', groupsOnly ts d' = true ∧ (t.isName = true → ∃ D, d' = D + 1) := by
      cases ho : isOpen t
      · cases d with
        | zero => rw [groupsOnly_zero _ ho] at hg; cases hg
        | succ d0 =>
          cases hc : isClose t
          · rw [groupsOnly_other _ _ ho hc] at hg; exact ⟨d0 + 1, hg, fun _ => ⟨d0, rfl⟩⟩
          · rw [groupsOnly_close _ _ ho hc] at hg
            exact ⟨d0, hg, fun hnm => by rw [isName_not_isClose hnm] at hc; cases hc⟩
      · rw [groupsOnly_open _ _ ho] at hg; exact ⟨d + 1, hg, fun _ => ⟨d, rfl⟩⟩
    obtain ⟨d', hg', hd'⟩ := hstep
    have h1 : (t.isName && arrowStart (ts ++ Z)) = false := by
      cases hnm : t.isName
      · rfl
      · obtain ⟨D, rfl⟩ := hd' hnm
        rw [arrowStart_ctx Z (parenBal_of_groupsOnly hg')]
        simpa [hnm] using hn.1
    rw [List.cons_append, synArrG_cons_false i h1, synArrG_groups Z ts d' (i + 1) hg' hn.2]
    simp only [List.length_cons]
    congr 1; omega

/-! ## the tree-level tests are sound -/

section sound
variable {C : CanonCfg} {fol : List Tok → Bool}

/-- the first token of a function node of a forest whose headers are function / method headers -/
theorem fn_head (hC : C.hdrOK = funHeaderOK) {ex : Bool} {hdr : Prog Tok} {j : Nat}
    {gap : List Tok} {op cl : Tok} {body rest : Prog Tok}
    (hc : (Prog.fn hdr j gap op cl body rest).canonWith C ex = true) :
    ∃ t r, hdr.flat = t :: r ∧ (t.kind = 2 ∨ (t.kind = 1 ∧ t.val = kwFunctionS)) := by
  obtain ⟨_, hH, _⟩ := canonWith_fn hc
  rw [hC] at hH
  rcases funHeaderOK_cases hH with ⟨_, h0⟩ | ⟨_, f, h', hflat, hf, _⟩
  · obtain ⟨n, o, g, hflat, hn, _⟩ := headerShape_cases (headerOK_shape h0)
    exact ⟨n, o :: g, hflat, .inl (by simpa [Tok.isName] using hn)⟩
  · exact ⟨f, h', hflat, .inr (isKw_facts hf)⟩

/-- facts about the first token of a function node -/
theorem fn_head_facts (hC : C.hdrOK = funHeaderOK) {ex : Bool} {hdr : Prog Tok} {j : Nat}
    {gap : List Tok} {op cl : Tok} {body rest : Prog Tok}
    (hc : (Prog.fn hdr j gap op cl body rest).canonWith C ex = true) :
    ∃ t r, hdr.flat = t :: r ∧ (∀ s, t.isSymbol s = false) ∧ (∀ s, t.isOperator s = false) ∧
      t.isKw kwAsyncS = false ∧ isOpen t = false := by
  obtain ⟨t, r, hflat, hk⟩ := fn_head hC hc
  refine ⟨t, r, hflat, ?_, ?_, ?_, ?_⟩
  · intro s; rcases hk with hk | ⟨hk, _⟩ <;> simp [Tok.isSymbol, hk]
  · intro s; rcases hk with hk | ⟨hk, _⟩ <;> simp [Tok.isOperator, hk]
  · rcases hk with hk | ⟨hk, hv⟩
    · simp [Tok.isKw, Tok.isKeyword, hk]
    · simp only [Tok.isKw, hv, Bool.and_eq_false_iff]
      right; decide
  · rcases hk with hk | ⟨hk, _⟩ <;> simp [isOpen, Tok.isSymbol, hk]

theorem kok_head {k : List Tok} (hk : KOK k) :
    k = [] ∨ ∃ x k', k = x :: k' ∧ x.kind = 3 ∧ x.val = [125] := by
  cases k with
  | nil => exact .inl rfl
  | cons x k' =>
    obtain ⟨h1, h2⟩ := isSymbol_iff.1 (hk x (by simp))
    exact .inr ⟨x, k', rfl, h1, h2⟩

/-- if the token sequence of canonical siblings `q` (followed by `k`) starts with `=>` `{`, then `q`
starts with the token `=>` followed by a brace group -/
theorem startsArrowBody_sound (hC : C.hdrOK = funHeaderOK) (q : Prog Tok) (ex : Bool)
    (k : List Tok) (hw : q.wfCore = true) (hc : q.canonWith C ex = true) (hk : KOK k)
    (h : startsArrowBody (q.flat ++ k) = true) : q.startsArrowBodyT = true := by
  cases q with
  | nil =>
    rcases kok_head hk with rfl | ⟨x, k', rfl, hx1, hx2⟩
    · simp [Prog.flat, startsArrowBody] at h
    · cases k' <;> simp [Prog.flat, startsArrowBody, Tok.isSymbol, hx2] at h
  | leaf a q1 =>
    simp only [Prog.wfCore, Bool.and_eq_true] at hw
    obtain ⟨_, _, hc1⟩ := canonWith_leaf hc
    cases q1 with
    | nil =>
      rcases kok_head hk with rfl | ⟨x, k', rfl, hx1, hx2⟩
      · simp [Prog.flat, startsArrowBody] at h
      · simp [Prog.flat, startsArrowBody, Tok.isSymbol, hx2] at h
    | leaf b q2 =>
      have := leaf_not_lbrace hw.2
      simp [Prog.flat, startsArrowBody, this] at h
    | group op cl items r =>
      simp only [Prog.flat, List.cons_append, startsArrowBody, Bool.and_eq_true] at h
      simp [Prog.startsArrowBodyT, h.1]
    | fn hdr j gap op cl body r =>
      obtain ⟨t, r', hflat, hs, _⟩ := fn_head_facts hC hc1
      rw [Prog.flat, List.cons_append, flat_fn_append, hflat] at h
      simp [startsArrowBody, hs] at h
  | group op cl items r =>
    simp only [Prog.wfCore, Bool.and_eq_true] at hw
    have := (isSymbol_iff.1 hw.1.1.1).2
    rw [Prog.flat, List.cons_append] at h
    cases hr : (items.flat ++ cl :: r.flat) ++ k with
    | nil => simp [startsArrowBody, hr] at h
    | cons y ys => simp [startsArrowBody, hr, Tok.isSymbol, this] at h
  | fn hdr j gap op cl body r =>
    obtain ⟨t, r', hflat, hs, _⟩ := fn_head_facts hC hc
    rw [flat_fn_append, hflat] at h
    cases hr : r' ++ (gap ++ op :: (body.flat ++ cl :: (r.flat ++ k))) with
    | nil => simp [startsArrowBody, hr] at h
    | cons y ys => simp [startsArrowBody, hr, hs] at h

/-- the same for `( … )+ => {` -/
theorem arrowBody_sound (hS : CfgSound C fol) (hC : C.hdrOK = funHeaderOK) (q : Prog Tok)
    (ex : Bool) (k : List Tok) (D : Nat) (hw : q.wfCore = true) (hc : q.canonWith C ex = true)
    (hb : parenBal q.flat D = true) (hk : KOK k)
    (h : arrowBodyAfterRun (q.flat ++ k) = true) : q.arrowBodyAfterRunT = true := by
  have hhead := arrowBodyAfterRun_head h
  cases q with
  | nil =>
    rcases kok_head hk with rfl | ⟨x, k', rfl, hx1, hx2⟩
    · simp [Prog.flat] at hhead
    · simp [Prog.flat, isOpen, Tok.isSymbol, hx2] at hhead
  | leaf o q2 =>
    simp only [Prog.wfCore, Bool.and_eq_true] at hw
    obtain ⟨_, _, hc2⟩ := canonWith_leaf hc
    have ho : isOpen o = true := by simpa [Prog.flat] using hhead
    rw [Prog.flat, parenBal_open _ _ ho] at hb
    have hstop : startsArrowBody (RestAt (o :: (q2.flat ++ k)) 0) = true := by
      simp only [arrowBodyAfterRun, Bool.and_eq_true] at h
      exact h.2
    rw [restAt_step (groupsLen_open _ 0 ho),
      drop_groupsLen_prog q2 k 1 (D + 1) hw.2 (parensOK_of_canon hS _ _ hc2) hb (by omega)
        hk.noOpenHead] at hstop
    obtain ⟨ex', hc'⟩ := canonWith_afterRun q2 _ 1 hc2
    have := startsArrowBody_sound hC _ ex' k (wfCore_afterRun q2 1 hw.2) hc' hk hstop
    simp [Prog.arrowBodyAfterRunT, ho, this]
  | group op cl items r =>
    simp only [Prog.wfCore, Bool.and_eq_true] at hw
    simp [Prog.flat, (lbrace_facts hw.1.1.1).1] at hhead
  | fn hdr j gap op cl body r =>
    obtain ⟨t, r', hflat, _, _, _, ho⟩ := fn_head_facts hC hc
    rw [flat_fn_append, hflat] at hhead
    simp [ho] at hhead

/-- the same for `[async] ( … )+ => {` -/
theorem arrowAfterAssign_sound (hS : CfgSound C fol) (hC : C.hdrOK = funHeaderOK) (q : Prog Tok)
    (ex : Bool) (k : List Tok) (D : Nat) (hw : q.wfCore = true) (hc : q.canonWith C ex = true)
    (hb : parenBal q.flat D = true) (hk : KOK k)
    (h : arrowAfterAssign (q.flat ++ k) = true) : q.arrowAfterAssignT = true := by
  simp only [arrowAfterAssign, Bool.or_eq_true] at h
  rcases h with h | h
  · simp [Prog.arrowAfterAssignT, arrowBody_sound hS hC q ex k D hw hc hb hk h]
  · cases q with
    | nil =>
      rcases kok_head hk with rfl | ⟨x, k', rfl, hx1, hx2⟩
      · simp [Prog.flat] at h
      · simp [Prog.flat, Tok.isKw, Tok.isKeyword, hx1] at h
    | leaf a q1 =>
      simp only [Prog.wfCore, Bool.and_eq_true] at hw
      obtain ⟨_, _, hc1⟩ := canonWith_leaf hc
      obtain ⟨D1, hb1⟩ := parenBal_tail (by simpa only [Prog.flat] using hb)
      simp only [Prog.flat, List.cons_append, Bool.and_eq_true] at h
      have := arrowBody_sound hS hC q1 _ k D1 hw.2 hc1 hb1 hk h.2
      simp [Prog.arrowAfterAssignT, h.1, this]
    | group op cl items r =>
      simp only [Prog.wfCore, Bool.and_eq_true] at hw
      have := (isSymbol_iff.1 hw.1.1.1).1
      simp [Prog.flat, Tok.isKw, Tok.isKeyword, this] at h
    | fn hdr j gap op cl body r =>
      obtain ⟨t, r', hflat, _, _, hka, _⟩ := fn_head_facts hC hc
      rw [flat_fn_append, hflat] at h
      simp [hka] at h

/-- **the tree-level test for false arrow headers is sound**: if the token sequence of canonical
siblings `q` (followed by `k`) is `= [async] ( … )+ => {`, the tree-level test says so -/
theorem falseArrow_sound (hS : CfgSound C fol) (hC : C.hdrOK = funHeaderOK) (q : Prog Tok)
    (ex : Bool) (k : List Tok) (D : Nat) (hw : q.wfCore = true) (hc : q.canonWith C ex = true)
    (hb : parenBal q.flat D = true) (hk : KOK k)
    (h : arrowStart (q.flat ++ k) = true) : q.falseArrowAfter = true := by
  cases q with
  | nil =>
    rcases kok_head hk with rfl | ⟨x, k', rfl, hx1, hx2⟩
    · simp [Prog.flat, arrowStart] at h
    · simp [Prog.flat, arrowStart, Tok.isOperator, hx1] at h
  | leaf e q1 =>
    simp only [Prog.wfCore, Bool.and_eq_true] at hw
    obtain ⟨_, _, hc1⟩ := canonWith_leaf hc
    obtain ⟨D1, hb1⟩ := parenBal_tail (by simpa only [Prog.flat] using hb)
    simp only [Prog.flat, List.cons_append, arrowStart, Bool.and_eq_true] at h
    have := arrowAfterAssign_sound hS hC q1 _ k D1 hw.2 hc1 hb1 hk h.2
    simp [Prog.falseArrowAfter, h.1, this]
  | group op cl items r =>
    simp only [Prog.wfCore, Bool.and_eq_true] at hw
    have := (isSymbol_iff.1 hw.1.1.1).1
    simp [Prog.flat, arrowStart, Tok.isOperator, this] at h
  | fn hdr j gap op cl body r =>
    obtain ⟨t, r', hflat, _, hop, _, _⟩ := fn_head_facts hC hc
    rw [flat_fn_append, hflat] at h
    simp [arrowStart, hop] at h

end sound

/-! ## facts about canonical arrow headers -/

/-- a canonical arrow header has balanced parentheses -/
theorem arrowHeader_parenBal {h : List Tok} {k : Nat} (hh : arrowHeaderOK h k = true) :
    parenBal h 0 = true := by
  obtain ⟨hp, n, e, as, o, gs, rfl, _, hhp, hn, he, has, ho, hg, _⟩ := arrowHeaderOK_cases hh
  have hP : ∀ t ∈ hp ++ n :: e :: as, t.noParen = true := by
    intro t ht
    simp only [List.mem_append, List.mem_cons] at ht
    rcases ht with ht | rfl | rfl | ht
    · rcases hhp with rfl | ⟨c, rfl, hc⟩
      · cases ht
      · rw [List.mem_singleton] at ht; subst ht; exact (isKw_noParen hc).1
    · exact noParen_iff.2 (name_noParen hn)
    · exact (operator_noParen he).1
    · rcases has with rfl | ⟨a', rfl, ha'⟩
      · cases ht
      · rw [List.mem_singleton] at ht; subst ht; exact (isKw_noParen ha').1
  have e1 : hp ++ n :: e :: (as ++ o :: gs) = (hp ++ n :: e :: as) ++ (o :: gs) := by simp
  rw [e1, ← Nat.add_zero 0, parenBal_append _ 0 (parenBal_noParen _ hP), parenBal_open _ _ ho]
  exact parenBal_of_groupsOnly hg

/-- a canonical arrow header in front of `=>` `{`: the tokens after the name are an arrow start -/
theorem arrowStart_header {e o a b : Tok} {as gs post : List Tok} (he : e.isOperator [61] = true)
    (has : as = [] ∨ ∃ a', as = [a'] ∧ a'.isKw kwAsyncS = true) (ho : isOpen o = true)
    (hg : groupsOnly gs 1 = true) (ha : a.isSymbol [61, 62] = true)
    (hb : b.isSymbol [123] = true) :
    arrowStart (e :: (as ++ o :: gs) ++ a :: b :: post) = true := by
  have hZ : NoOpenHead (a :: b :: post) :=
    NoOpenHead.cons (by simp [isOpen, Tok.isSymbol, (isSymbol_iff.1 ha).2])
  have hbody : arrowBodyAfterRun (o :: gs ++ a :: b :: post) = true := by
    unfold arrowBodyAfterRun
    have hlen : groupsLen (o :: gs ++ a :: b :: post) 0 = gs.length + 1 := by
      rw [List.cons_append, groupsLen_open _ _ ho, groupsLen_groupsOnly _ hg,
        groupsLen_noOpenHead hZ]
    rw [hlen]
    simp only [List.cons_append, List.head?_cons, Option.any_some, ho, Bool.true_and,
      List.drop_succ_cons]
    rw [List.drop_left' rfl]
    simp [startsArrowBody, ha, hb]
  rcases has with rfl | ⟨a', rfl, ha'⟩
  · simp only [List.nil_append, List.cons_append, arrowStart, he, Bool.true_and, arrowAfterAssign]
    rw [← List.cons_append, hbody]; rfl
  · simp only [List.cons_append, List.nil_append, arrowStart, he, Bool.true_and, arrowAfterAssign,
      ha']
    rw [← List.cons_append, hbody]; simp

/-! ## the siblings behind spliced header items are canonical -/

theorem canonWith_app_noFn {C : CanonCfg} : ∀ (a b : Prog Tok) (ex : Bool), a.noFn = true →
    (a.app b).canonWith C ex = true → ∃ ex', b.canonWith C ex' = true
  | .nil, b, ex, _, h => ⟨ex, h⟩
  | .leaf t r, b, ex, hn, h => canonWith_app_noFn r b _ hn (canonWith_leaf h).2.2
  | .group op cl items r, b, ex, hn, h => by
    simp only [Prog.noFn, Bool.and_eq_true] at hn
    simp only [Prog.app, Prog.canonWith, Bool.and_eq_true] at h
    exact canonWith_app_noFn r b _ hn.2 h.2
  | .fn .., _, _, hn, _ => by cases hn

/-- the Name token of a function node, with its index -/
def nameAt (x : Fn × Nat) : Tok × Nat := (x.1.hdr.name, x.1.hdr.rng.s + x.2)

section prog
variable {C : CanonCfg} {fol : List Tok → Bool}

/-- **The Name tokens of the token sequence of a forest of the fragment that are followed by
`= [async] ( … )+ => {` are exactly the Name tokens of its arrow nodes**, in source order.  `k` = the
tokens that follow the sibling list (nothing, or a closing brace first). -/
theorem synArrG_prog (hS : CfgSound C fol) (hC : C.hdrOK = funHeaderOK) :
    ∀ (p : Prog Tok) (k : List Tok) (ex pc : Bool) (i D : Nat), p.wfCore = true →
      p.plain.canonWith C ex = true → p.arrowsOK pc = true → parenBal p.flat D = true → KOK k →
      synArrG (p.flat ++ k) i = (fnsA p i).map nameAt ++ synArrG k (i + p.size) := by
  intro p
  induction p with
  | nil =>
    intro k ex pc i D _ _ _ _ _
    simp [Prog.flat, fnsA, Prog.size]
  | leaf t rest ih =>
    intro k ex pc i D hw hc ha hb hk
    simp only [Prog.wfCore, Bool.and_eq_true] at hw
    simp only [Prog.plain] at hc
    obtain ⟨_, _, hc3⟩ := canonWith_leaf hc
    simp only [Prog.arrowsOK, Bool.and_eq_true, Bool.not_eq_true'] at ha
    obtain ⟨D1, hb1⟩ := parenBal_tail (by simpa only [Prog.flat] using hb)
    have hno : (t.isName && arrowStart (rest.flat ++ k)) = false := by
      cases hn : t.isName
      · rfl
      · cases hs : arrowStart (rest.flat ++ k)
        · rfl
        · have := falseArrow_sound hS hC rest.plain _ k D1 (wfCore_plain _ hw.2) hc3
            (by rw [flat_plain]; exact hb1) hk (by rw [flat_plain]; exact hs)
          simp [hn, this] at ha
    rw [Prog.flat, List.cons_append, synArrG_cons_false i hno, ih k _ _ (i + 1) D1 hw.2 hc3 ha.2 hb1 hk]
    simp only [fnsA, Prog.size]
    rw [show i + 1 + rest.size = i + (rest.size + 1) by omega]
  | group op cl items rest ih1 ih2 =>
    intro k ex pc i D hw hc ha hb hk
    simp only [Prog.wfCore, Bool.and_eq_true] at hw
    simp only [Prog.plain, Prog.canonWith, Bool.and_eq_true] at hc
    simp only [Prog.arrowsOK, Bool.and_eq_true] at ha
    obtain ⟨⟨⟨hop, hcl⟩, hwi⟩, hwr⟩ := hw
    obtain ⟨⟨hbi, hci⟩, hcr⟩ := hc
    rw [flat_plain] at hbi
    obtain ⟨_, _, ho3⟩ := lbrace_facts hop
    obtain ⟨_, _, hc3, _⟩ := rbrace_facts hcl
    have hbr := parenBal_group_rest hop hcl hbi hb
    rw [flat_group_append, synArrG_not_name _ _ ho3,
      ih1 (cl :: (rest.flat ++ k)) false false (i + 1) 0 hwi hci ha.1 hbi (KOK.cons hcl),
      synArrG_not_name _ _ hc3, ih2 k false false (i + 1 + items.size + 1) D hwr hcr ha.2 hbr hk]
    simp only [fnsA, Prog.size, List.map_append, List.append_assoc]
    rw [show i + 1 + items.size + 1 = i + items.size + 2 by omega,
      show i + items.size + 2 + rest.size = i + (items.size + rest.size + 2) by omega]
  | fn hdr j gap op cl body rest _ ih2 ih3 =>
    intro k ex pc i D hw hc ha hb hk
    obtain ⟨_, hnofn, _, _, _, _, hop, hcl, hwb, hwr⟩ := wfCore_fn' hw
    obtain ⟨ho1, ho2, ho3⟩ := lbrace_facts hop
    obtain ⟨hc1, hc2, hc3, _⟩ := rbrace_facts hcl
    by_cases hag : arrowGap gap = true
    · -- an arrow node
      obtain ⟨a, rfl, hasym⟩ := arrowGap_iff.1 hag
      simp only [Prog.plain, hag, if_true] at hc
      obtain ⟨ex', hc'⟩ := canonWith_app_noFn _ _ _ hnofn hc
      have hc'' : (Prog.leaf a (.group op cl body.plain rest.plain)).canonWith C ex' = true := hc'
      have hcg := (canonWith_leaf hc'').2.2
      simp only [Prog.canonWith, Bool.and_eq_true] at hcg
      obtain ⟨⟨hbb, hcb⟩, hcr⟩ := hcg
      rw [flat_plain] at hbb
      simp only [Prog.arrowsOK, hag, if_true, Bool.and_eq_true] at ha
      obtain ⟨⟨⟨hH, _⟩, hab⟩, har⟩ := ha
      have hbh := arrowHeader_parenBal hH
      obtain ⟨hp, n, e, as, o, gs, hflat, hlen, hhp, hn, he, has, ho, hg, hno⟩ :=
        arrowHeaderOK_cases hH
      have hanp : isOpen a = false ∧ isClose a = false ∧ a.isName = false := by
        obtain ⟨h1, h2⟩ := isSymbol_iff.1 hasym
        simp [isOpen, isClose, Tok.isName, Tok.isSymbol, h1, h2]
      have hbr : parenBal rest.flat D = true := by
        rw [Prog.flat, ← Nat.add_zero D, parenBal_append _ D hbh, List.singleton_append,
          parenBal_other _ _ hanp.1 hanp.2.1, parenBal_other _ _ ho1 ho2, ← Nat.add_zero D,
          parenBal_append _ D hbb, parenBal_other _ _ hc1 hc2] at hb
        exact hb
      have hpn : ∀ t ∈ hp, t.isName = false := by
        intro t ht
        rcases hhp with rfl | ⟨c, rfl, hc⟩
        · cases ht
        · rw [List.mem_singleton] at ht; subst ht; exact (isKw_noParen hc).2
      have hZi : InertHead (a :: op :: (body.flat ++ cl :: (rest.flat ++ k))) :=
        InertHead.symbol hasym (by decide)
      have hgetD : hdr.flat.getD j default = n := by
        rw [hflat, ← hlen, List.getD_eq_getElem?_getD, List.getElem?_append_right (Nat.le_refl _)]
        simp
      have hsz : hdr.size = j + 1 + (e :: (as ++ o :: gs)).length := by
        rw [← Prog.size_eq, hflat, ← hlen]
        simp only [List.length_append, List.length_cons]; omega
      rw [flat_fn_append, hflat, List.singleton_append, List.append_assoc,
        synArrG_skipNames _ _ _ hpn, List.cons_append,
        synArrG_cons_true _ (by
          rw [hn, Bool.true_and]
          exact arrowStart_header he has ho hg hasym hop),
        synArrG_noAssignOpen hZi _ _ hno, synArrG_not_name _ _ hanp.2.2,
        synArrG_not_name _ _ ho3,
        ih2 (cl :: (rest.flat ++ k)) false false _ 0 hwb hcb hab hbb (KOK.cons hcl),
        synArrG_not_name _ _ hc3, ih3 k false false _ D hwr hcr har hbr hk]
      simp only [fnsA, hag, if_true, Prog.size, List.map_cons, List.map_append,
        List.cons_append, List.nil_append, nameAt, hgetD, hlen, List.length_singleton]
      simp only [List.append_assoc]
      rw [show i + j + 1 + (e :: (as ++ o :: gs)).length + 1 + 1 = i + hdr.size + 1 + 1 by omega,
        show i + hdr.size + 1 + 1 + body.size + 1 = i + hdr.size + 1 + body.size + 2 by omega,
        show i + hdr.size + 1 + body.size + 2 + rest.size
          = i + (hdr.size + 1 + body.size + rest.size + 2) by omega]
    · -- a function / method node
      have hag' : arrowGap gap = false := by simpa using hag
      simp only [Prog.plain, hag', Bool.false_eq_true, if_false] at hc
      obtain ⟨_, hH, hGp, hbb, hcb, hcr⟩ := canonWith_fn hc
      rw [flat_plain] at hbb
      simp only [Prog.arrowsOK, hag', Bool.false_eq_true, if_false, Bool.and_eq_true] at ha
      obtain ⟨⟨hno, hab⟩, har⟩ := ha
      obtain ⟨hOK, hpre⟩ := hS.hdr _ _ hH
      have htr := hdrTrans_of_sound hS hH
      have hgp := hS.gap_noParen _ hGp
      have hbr := parenBal_fn_rest htr hgp hop hcl hbb hb
      obtain ⟨n, o, g, hd, hn, _, _, ho, hgg⟩ := headerShape_cases (headerOK_shape hOK)
      have hd1 : hdr.flat.drop (j + 1) = o :: g := by
        have := congrArg (List.drop 1) hd
        simpa [List.drop_drop, Nat.add_comm] using this
      rw [hd1] at hno
      have hsplit : hdr.flat = hdr.flat.take j ++ (n :: (o :: g)) := by
        rw [← hd]; exact (List.take_append_drop j _).symm
      have hjl : (hdr.flat.take j).length = j := by
        have : 2 ≤ (hdr.flat.drop j).length := by rw [hd]; simp
        rw [List.length_take]
        rw [List.length_drop] at this
        omega
      have hsz : hdr.size = j + 1 + (o :: g).length := by
        rw [← Prog.size_eq]
        conv => lhs; rw [hsplit]
        simp only [List.length_append, List.length_cons, hjl]; omega
      have hgo : ∀ t ∈ gap, isOpen t = false := fun t ht => (noParen_iff.1 (hgp t ht)).1
      have hopI : InertHead (op :: (body.flat ++ cl :: (rest.flat ++ k))) :=
        InertHead.symbol hop (by decide)
      have hnostart : (n.isName && arrowStart ((o :: g) ++
          (gap ++ op :: (body.flat ++ cl :: (rest.flat ++ k))))) = false := by
        have : o.isOperator [61] = false := by
          have := (isSymbol_iff.1 (show o.isSymbol [40] = true from ho)).1
          simp [Tok.isOperator, this]
        simp [arrowStart, this]
      rw [flat_fn_append]
      conv => lhs; rw [hsplit, List.append_assoc]
      rw [synArrG_skipNames _ _ _ (fun t ht => (hpre t ht).1), hjl, List.cons_append,
        synArrG_cons_false _ hnostart,
        synArrG_groups _ _ 0 _ (by rw [groupsOnly_open _ _ ho]; exact hgg) hno,
        synArrG_noAssignOpen hopI _ _ (noAssignOpen_of_noOpen _ hgo),
        synArrG_not_name _ _ ho3,
        ih2 (cl :: (rest.flat ++ k)) false false _ 0 hwb hcb hab hbb (KOK.cons hcl),
        synArrG_not_name _ _ hc3, ih3 k false false _ D hwr hcr har hbr hk]
      simp only [fnsA, hag', Bool.false_eq_true, if_false, Prog.size, List.nil_append,
        List.map_append]
      simp only [List.append_assoc]
      rw [show i + j + 1 + (o :: g).length + gap.length + 1 = i + hdr.size + gap.length + 1 by omega,
        show i + hdr.size + gap.length + 1 + body.size + 1
          = i + hdr.size + gap.length + body.size + 2 by omega,
        show i + hdr.size + gap.length + body.size + 2 + rest.size
          = i + (hdr.size + gap.length + body.size + rest.size + 2) by omega]

end prog

/-! ## every arrow node's header, in context -/

/-- `const` -/
abbrev isConst (t : Tok) : Bool := t.isKw kwConstS

theorem isConst_symbol {t : Tok} {s : Str} (h : t.isSymbol s = true) : isConst t = false := by
  simp [isConst, Tok.isKw, Tok.isKeyword, (isSymbol_iff.1 h).1]

/-- the header of every arrow node of a forest that satisfies `arrowsOK` stands in the token
sequence as a canonical arrow header followed by the symbols `=>` and `{`; if the header starts with
its name, the token in front of it is not the keyword `const` -/
theorem arrow_located : ∀ (p : Prog Tok) (pc : Bool) (i : Nat), p.wfCore = true →
    p.arrowsOK pc = true → ∀ x ∈ fnsA p i, ∃ pre h a b post,
      p.flat = pre ++ (h ++ a :: b :: post) ∧ arrowHeaderOK h x.2 = true ∧
      a.isSymbol [61, 62] = true ∧ b.isSymbol [123] = true ∧
      (x.2 = 0 → flagAfter isConst pc pre = false) ∧
      x.1.hdr = ⟨h.getD x.2 default, ⟨i + pre.length, i + pre.length + h.length⟩⟩ := by
  intro p
  induction p with
  | nil => intro pc i _ _ x hx; cases hx
  | leaf t rest ih =>
    intro pc i hw ha x hx
    simp only [Prog.wfCore, Bool.and_eq_true] at hw
    simp only [Prog.arrowsOK, Bool.and_eq_true] at ha
    obtain ⟨pre, h, a, b, post, e, hh, hsa, hsb, hfl, hf'⟩ := ih _ (i + 1) hw.2 ha.2 x hx
    refine ⟨t :: pre, h, a, b, post, by rw [Prog.flat, e]; rfl, hh, hsa, hsb, hfl, ?_⟩
    rw [hf']; simp only [List.length_cons]
    rw [show i + 1 + pre.length = i + (pre.length + 1) by omega]
  | group op cl items rest ih1 ih2 =>
    intro pc i hw ha x hx
    simp only [Prog.wfCore, Bool.and_eq_true] at hw
    simp only [Prog.arrowsOK, Bool.and_eq_true] at ha
    have hjo := isConst_symbol hw.1.1.1
    have hjc := isConst_symbol hw.1.1.2
    simp only [fnsA, List.mem_append] at hx
    rcases hx with hx | hx
    · obtain ⟨pre, h, a, b, post, e, hh, hsa, hsb, hfl, hf'⟩ := ih1 _ (i + 1) hw.1.2 ha.1 x hx
      refine ⟨op :: pre, h, a, b, post ++ cl :: rest.flat, by rw [Prog.flat, e]; simp, hh, hsa,
        hsb, by rw [flagAfter_cons, hjo]; exact hfl, ?_⟩
      rw [hf']; simp only [List.length_cons]
      rw [show i + 1 + pre.length = i + (pre.length + 1) by omega]
    · obtain ⟨pre, h, a, b, post, e, hh, hsa, hsb, hfl, hf'⟩ := ih2 _ _ hw.2 ha.2 x hx
      refine ⟨op :: (items.flat ++ cl :: pre), h, a, b, post, by rw [Prog.flat, e]; simp, hh, hsa,
        hsb, by rw [flagAfter_cons, flagAfter_append, flagAfter_cons, hjc]; exact hfl, ?_⟩
      rw [hf']; simp only [List.length_cons, List.length_append, Prog.size_eq]
      rw [show i + items.size + 2 + pre.length = i + (items.size + (pre.length + 1) + 1) by omega]
  | fn hdr j gap op cl body rest _ ih2 ih3 =>
    intro pc i hw ha x hx
    obtain ⟨_, _, _, _, _, _, hop, hcl, hwb, hwr⟩ := wfCore_fn' hw
    have hjo := isConst_symbol hop
    have hjc := isConst_symbol hcl
    simp only [Prog.arrowsOK, Bool.and_eq_true] at ha
    obtain ⟨⟨hH, hab⟩, har⟩ := ha
    have hbody : ∀ x ∈ fnsA body (i + hdr.size + gap.length + 1), ∃ pre h a b post,
        (Prog.fn hdr j gap op cl body rest).flat = pre ++ (h ++ a :: b :: post) ∧
        arrowHeaderOK h x.2 = true ∧ a.isSymbol [61, 62] = true ∧ b.isSymbol [123] = true ∧
        (x.2 = 0 → flagAfter isConst pc pre = false) ∧
        x.1.hdr = ⟨h.getD x.2 default, ⟨i + pre.length, i + pre.length + h.length⟩⟩ := by
      intro x hx
      obtain ⟨pre, h, a, b, post, e, hh, hsa, hsb, hfl, hf'⟩ := ih2 _ _ hwb hab x hx
      refine ⟨hdr.flat ++ (gap ++ op :: pre), h, a, b, post ++ cl :: rest.flat,
        by rw [Prog.flat, e]; simp, hh, hsa, hsb,
        by rw [flagAfter_append, flagAfter_append, flagAfter_cons, hjo]; exact hfl, ?_⟩
      rw [hf']; simp only [List.length_cons, List.length_append, Prog.size_eq]
      rw [show i + hdr.size + gap.length + 1 + pre.length
        = i + (hdr.size + (gap.length + (pre.length + 1))) by omega]
    have hrest : ∀ x ∈ fnsA rest (i + hdr.size + gap.length + body.size + 2), ∃ pre h a b post,
        (Prog.fn hdr j gap op cl body rest).flat = pre ++ (h ++ a :: b :: post) ∧
        arrowHeaderOK h x.2 = true ∧ a.isSymbol [61, 62] = true ∧ b.isSymbol [123] = true ∧
        (x.2 = 0 → flagAfter isConst pc pre = false) ∧
        x.1.hdr = ⟨h.getD x.2 default, ⟨i + pre.length, i + pre.length + h.length⟩⟩ := by
      intro x hx
      obtain ⟨pre, h, a, b, post, e, hh, hsa, hsb, hfl, hf'⟩ := ih3 _ _ hwr har x hx
      refine ⟨hdr.flat ++ (gap ++ op :: (body.flat ++ cl :: pre)), h, a, b, post,
        by rw [Prog.flat, e]; simp, hh, hsa, hsb,
        by rw [flagAfter_append, flagAfter_append, flagAfter_cons, flagAfter_append,
             flagAfter_cons, hjc]; exact hfl, ?_⟩
      rw [hf']; simp only [List.length_cons, List.length_append, Prog.size_eq]
      rw [show i + hdr.size + gap.length + body.size + 2 + pre.length
        = i + (hdr.size + (gap.length + (body.size + (pre.length + 1) + 1))) by omega]
    simp only [fnsA, List.mem_append] at hx
    rcases hx with hx | hx | hx
    · by_cases hag : arrowGap gap = true
      · simp only [hag, if_true, List.mem_singleton] at hx hH
        subst hx
        obtain ⟨a, rfl, hasym⟩ := arrowGap_iff.1 hag
        simp only [Bool.and_eq_true, Bool.not_eq_true', Bool.and_eq_false_iff,
          beq_eq_false_iff_ne] at hH
        refine ⟨[], hdr.flat, a, op, body.flat ++ cl :: rest.flat, by simp [Prog.flat], hH.1,
          hasym, hop, ?_, ?_⟩
        · intro hj0
          rcases hH.2 with h | h
          · simpa [flagAfter] using h
          · exact absurd hj0 h
        · simp [Prog.size_eq]
      · have hag' : arrowGap gap = false := by simpa using hag
        simp [hag'] at hx
    · exact hbody x hx
    · exact hrest x hx

end CL
