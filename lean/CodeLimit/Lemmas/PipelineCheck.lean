import CodeLimit.Lemmas.PipelineCache
import CodeLimit.Props.C02
import CodeLimit.Props.C12
/-!
# `check` over the instantiated oracles: the adapters between `Sel.checkPaths` (measurement lists,
already filtered and sorted) and `CL.checkCommand` (lists of lengths, filtered and sorted by the
model itself), and between `risksOf` on `CL.Measurement` and `risksJ` on report measurements.
-/
namespace CL.Pipeline

open CL CL.Sel

/-- the length of a measurement as `Model/Check.lean` sees it -/
def lenI (m : Measurement) : Int := (m.len : Int)

theorem risks_lens (ms : List Measurement) : (risksOf ms).map lenI = fileRisks (ms.map lenI) := by
  unfold risksOf fileRisks
  rw [List.map_mergeSort (s := fun a b => decide (b ≤ a)) (f := lenI)]
  · congr 1
    rw [List.filter_map]
    rfl
  · intro a _ b _
    simp [lenI]

theorem fileRisks_idem (l : List Int) : fileRisks (fileRisks l) = fileRisks l := by
  have hs := C02.fileRisks_sorted l
  have hall : ∀ v ∈ fileRisks l, decide (Gen.Logic.check_lists v) = true := by
    intro v hv
    have := ((C02.mem_fileRisks l v).1 hv).2
    simpa [Gen.Logic.check_lists] using this
  have h1 : fileRisks (fileRisks l) =
      ((fileRisks l).filter (fun v => decide (Gen.Logic.check_lists v))).mergeSort (fun a b => decide (b ≤ a)) := rfl
  rw [h1, List.filter_eq_self.2 hall]
  apply List.mergeSort_of_pairwise
  exact hs.imp (by intro a b h; simpa using h)

/-- **adapter `Sel.checkPaths` → `CL.checkCommand`**: the model of `check_command` filters and
sorts the lengths it is given; given the risks `check_file` computed, that changes nothing -/
theorem listed_of_risks (quiet : Bool) (fl : List (CPath × List Measurement))
    (h : ∀ x ∈ fl, ∃ ms, x.2 = risksOf ms) :
    (CL.checkCommand quiet (fl.map (fun x => x.2.map lenI))).listed = fl.map (fun x => x.2.map lenI) := by
  rw [C02.listed_eq, List.map_map]
  apply List.map_congr_left
  intro x hx
  obtain ⟨ms, hms⟩ := h x hx
  simp only [Function.comp, hms, risks_lens, fileRisks_idem]

theorem risks_meas (ms : List Measurement) : (risksOf ms).map measOf = risksJ (ms.map measOf) := by
  unfold risksOf risksJ
  rw [List.map_mergeSort (s := fun a b => decide (b.value ≤ a.value)) (f := measOf)]
  · congr 1
    rw [List.filter_map]
    rfl
  · intro a _ b _
    simp [measOf]

end CL.Pipeline
