import CodeLimit.Spec.Regex
/-!
# Correctness of the worklist ε-closure: `closure` computes exactly ε-reachability
-/
namespace CL

variable {α : Type}

theorem Path.mono {E E' : List (Edge α)} (h : ∀ e, e ∈ E → e ∈ E') {p w q} :
    Path E p w q → Path E' p w q := by
  intro hp
  induction hp with
  | nil q => exact .nil q
  | eps he _ ih => exact .eps (h _ he) ih
  | sym he _ ih => exact .sym (h _ he) ih

theorem Path.trans {E : List (Edge α)} {p q r u v} :
    Path E p u q → Path E q v r → Path E p (u ++ v) r := by
  intro h1 h2
  induction h1 with
  | nil q => simpa using h2
  | eps he _ ih => exact Path.eps he (ih h2)
  | sym he _ ih => exact Path.sym he (ih h2)

theorem EpsReach.trans {E : List (Edge α)} {p q r} :
    EpsReach E p q → EpsReach E q r → EpsReach E p r := by
  intro h1 h2
  have := Path.trans h1 h2
  simpa using this

theorem EpsReach.step {E : List (Edge α)} {p q r} :
    EpsReach E p q → Edge.eps q r ∈ E → EpsReach E p r :=
  fun h1 h2 => EpsReach.trans h1 (Path.eps h2 (Path.nil r))

theorem mem_epsSucc (E : List (Edge α)) (q r : Nat) :
    r ∈ epsSucc E q ↔ Edge.eps q r ∈ E := by
  unfold epsSucc
  rw [List.mem_filterMap]
  constructor
  · rintro ⟨e, he, h⟩
    cases e with
    | eps p r' =>
      simp only at h
      split at h
      · rename_i hp; cases h; subst hp; exact he
      · cases h
    | sym _ _ _ => simp at h
  · intro h
    exact ⟨_, h, by simp⟩

theorem mem_symOut (E : List (Edge α)) (q : Nat) (a : α) (r : Nat) :
    (a, r) ∈ symOut E q ↔ Edge.sym q a r ∈ E := by
  unfold symOut
  rw [List.mem_filterMap]
  constructor
  · rintro ⟨e, he, h⟩
    cases e with
    | sym p b r' =>
      simp only at h
      split at h
      · rename_i hp; cases h; subst hp; exact he
      · cases h
    | eps _ _ => simp at h
  · intro h
    exact ⟨_, h, by simp⟩

/-- number of ε-edges whose source is not yet visited -/
def pendingEps (E : List (Edge α)) (vis : List Nat) : Nat :=
  match E with
  | [] => 0
  | .eps p _ :: E => (if p ∈ vis then 0 else 1) + pendingEps E vis
  | .sym _ _ _ :: E => pendingEps E vis

theorem pendingEps_le (E : List (Edge α)) (vis : List Nat) : pendingEps E vis ≤ E.length := by
  induction E with
  | nil => simp [pendingEps]
  | cons e E ih =>
    cases e with
    | eps p r => simp only [pendingEps, List.length_cons]; split <;> omega
    | sym p a r => simp only [pendingEps, List.length_cons]; omega

theorem pendingEps_visit (E : List (Edge α)) (vis : List Nat) (q : Nat) (hq : q ∉ vis) :
    (epsSucc E q).length + pendingEps E (q :: vis) = pendingEps E vis := by
  induction E with
  | nil => simp [pendingEps, epsSucc]
  | cons e E ih =>
    unfold epsSucc at ih ⊢
    cases e with
    | eps p r =>
      simp only [pendingEps, List.filterMap_cons, List.mem_cons]
      by_cases hp : p = q
      · subst hp; simp [hq]; omega
      · by_cases hv : p ∈ vis
        · simp [hp, hv]; omega
        · simp [hp, hv]; omega
    | sym p a r =>
      simp only [pendingEps, List.filterMap_cons]
      exact ih

/-- loop invariant of the worklist -/
structure ClInv (E : List (Edge α)) (qs st vis : List Nat) : Prop where
  vis_reach : ∀ v ∈ vis, ∃ p, p ∈ qs ∧ EpsReach E p v
  st_reach : ∀ v ∈ st, ∃ p, p ∈ qs ∧ EpsReach E p v
  closed : ∀ v ∈ vis, ∀ r, Edge.eps v r ∈ E → r ∈ vis ∨ r ∈ st
  init : ∀ p ∈ qs, p ∈ vis ∨ p ∈ st

theorem closureAux_inv (E : List (Edge α)) (qs : List Nat) :
    ∀ (fuel : Nat) (st vis : List Nat), st.length + pendingEps E vis < fuel →
      ClInv E qs st vis → ClInv E qs [] (closureAux E fuel st vis) := by
  intro fuel
  induction fuel with
  | zero => intro st vis h; omega
  | succ fuel ih =>
    intro st vis hm inv
    cases st with
    | nil => simpa [closureAux] using inv
    | cons q st =>
      simp only [closureAux]
      by_cases hq : q ∈ vis
      · have hc : vis.contains q = true := by simpa using hq
        rw [if_pos hc]
        apply ih
        · simp only [List.length_cons] at hm; omega
        · refine ⟨inv.vis_reach, fun v hv => inv.st_reach v (List.mem_cons_of_mem _ hv), ?_, ?_⟩
          · intro v hv r hr
            rcases inv.closed v hv r hr with h | h
            · exact .inl h
            · rcases List.mem_cons.1 h with h | h
              · subst h; exact .inl hq
              · exact .inr h
          · intro p hp
            rcases inv.init p hp with h | h
            · exact .inl h
            · rcases List.mem_cons.1 h with h | h
              · subst h; exact .inl hq
              · exact .inr h
      · have hc : ¬ (vis.contains q = true) := by simpa using hq
        rw [if_neg hc]
        apply ih
        · have := pendingEps_visit E vis q hq
          simp only [List.length_cons, List.length_append] at hm ⊢; omega
        · have hqr := inv.st_reach q (List.mem_cons_self ..)
          refine ⟨?_, ?_, ?_, ?_⟩
          · intro v hv
            rcases List.mem_cons.1 hv with h | h
            · subst h; exact hqr
            · exact inv.vis_reach v h
          · intro v hv
            rcases List.mem_append.1 hv with h | h
            · obtain ⟨p, hp, hpq⟩ := hqr
              exact ⟨p, hp, hpq.step ((mem_epsSucc E q v).1 h)⟩
            · exact inv.st_reach v (List.mem_cons_of_mem _ h)
          · intro v hv r hr
            rcases List.mem_cons.1 hv with h | h
            · subst h
              exact .inr (List.mem_append_left _ ((mem_epsSucc E v r).2 hr))
            · rcases inv.closed v h r hr with h' | h'
              · exact .inl (List.mem_cons_of_mem _ h')
              · rcases List.mem_cons.1 h' with h'' | h''
                · subst h''; exact .inl (List.mem_cons_self ..)
                · exact .inr (List.mem_append_right _ h'')
          · intro p hp
            rcases inv.init p hp with h' | h'
            · exact .inl (List.mem_cons_of_mem _ h')
            · rcases List.mem_cons.1 h' with h'' | h''
              · subst h''; exact .inl (List.mem_cons_self ..)
              · exact .inr (List.mem_append_right _ h'')

theorem closure_inv (E : List (Edge α)) (qs : List Nat) : ClInv E qs [] (closure E qs) := by
  unfold closure
  apply closureAux_inv
  · have := pendingEps_le E []; omega
  · exact ⟨by simp, fun v hv => ⟨v, hv, Path.nil v⟩, by simp, fun p hp => .inr hp⟩

/-- a set closed under ε-edges contains everything ε-reachable from its members -/
theorem epsReach_closed {E : List (Edge α)} {R : List Nat}
    (hcl : ∀ v ∈ R, ∀ r, Edge.eps v r ∈ E → r ∈ R) {p w q} (h : Path E p w q) :
    w = [] → p ∈ R → q ∈ R := by
  induction h with
  | nil q => intro _ h; exact h
  | eps he _ ih => intro hw hp; exact ih hw (hcl _ hp _ he)
  | sym he _ ih => intro hw; cases hw

/-- the fuel given in `closure` always suffices, and the worklist computes ε-reachability -/
theorem mem_closure_iff (E : List (Edge α)) (qs : List Nat) (q : Nat) :
    q ∈ closure E qs ↔ ∃ p, p ∈ qs ∧ EpsReach E p q := by
  have inv := closure_inv E qs
  constructor
  · exact inv.vis_reach q
  · rintro ⟨p, hp, hpq⟩
    have hcl : ∀ v ∈ closure E qs, ∀ r, Edge.eps v r ∈ E → r ∈ closure E qs := by
      intro v hv r hr
      rcases inv.closed v hv r hr with h | h
      · exact h
      · cases h
    have hp' : p ∈ closure E qs := by
      rcases inv.init p hp with h | h
      · exact h
      · cases h
    exact epsReach_closed hcl hpq rfl hp'

theorem mem_canon_iff (bound : Nat) (l : List Nat) (q : Nat) :
    q ∈ canon bound l ↔ q < bound ∧ q ∈ l := by
  simp [canon]

theorem canon_eq_iff {b : Nat} {l l' : List Nat} :
    canon b l = canon b l' ↔ ∀ q, q < b → (q ∈ l ↔ q ∈ l') := by
  constructor
  · intro h q hq
    have h1 := mem_canon_iff b l q
    have h2 := mem_canon_iff b l' q
    rw [h] at h1
    constructor
    · intro hl; exact (h2.1 (h1.2 ⟨hq, hl⟩)).2
    · intro hl; exact (h1.1 (h2.2 ⟨hq, hl⟩)).2
  · intro h
    unfold canon
    apply List.filter_congr
    intro q hq
    have := h q (List.mem_range.1 hq)
    rw [Bool.eq_iff_iff]
    simpa using this

end CL
