import CodeLimit.Lemmas.ProgTreeCanonArrow
/-!
# Discovery through `extract_headers` for the ARROW pattern of JavaScript / TypeScript, on every
token list

`Lemmas/SynHeaderDisc.lean` does this for the patterns `cExpr` / `fExpr`; here the same for
`aExpr = [const] Name = [async] ( … )+` with the follow-up `=>` `{`:

* `arrowHeader_iff_at` - `ArrowHeader toks p f` in terms of the index `n` of the NAME token
  (`ArrowHeaderAt toks n f`, `Spec/SynHeader.lean`);
* `sound_aExpr` - every header that `get_headers` returns for the arrow pattern is an arrow header
  followed by `=>` `{`, named by its Name token;
* `arrow_isolated` - the two isolation conditions of `C01disc.canonical_header_extracted` from
  conditions on the token list: an earlier attempt cannot finish inside the header (automatic), a
  later one needs `Name = [async] (` strictly inside the parameter list;
* `complete_aExpr` - an arrow header followed by `=>` `{` without `Name = [async] (` inside is
  extracted, exactly once, from the keyword `const` on when there is one.
-/
namespace CL
open CL.Syn CL.Compose CL.C01disc

/-! ## token kinds at an index exclude each other -/

theorem at_clash {toks : List Tok} {i : Nat} {P Q : Tok → Bool}
    (hPQ : ∀ t, P t = true → Q t = true → False)
    (h1 : ∃ t, toks[i]? = some t ∧ P t = true) (h2 : ∃ t, toks[i]? = some t ∧ Q t = true) :
    False := by
  obtain ⟨t, ht, hp⟩ := h1
  obtain ⟨t', ht', hq⟩ := h2
  rw [ht] at ht'; cases ht'
  exact hPQ t hp hq

theorem name_not_kw {toks : List Tok} {i : Nat} {s : Str} (h1 : NameAt toks i)
    (h2 : KeywordAt toks i s) : False :=
  at_clash (fun t a b => by
    simp only [Tok.isName, Tok.isKeyword, Bool.and_eq_true, beq_iff_eq] at a b; omega) h1 h2

theorem name_not_op {toks : List Tok} {i : Nat} {s : Str} (h1 : NameAt toks i)
    (h2 : OperatorAt toks i s) : False :=
  at_clash (fun t a b => by
    simp only [Tok.isName, Tok.isOperator, Bool.and_eq_true, beq_iff_eq] at a b; omega) h1 h2

theorem name_not_open {toks : List Tok} {i : Nat} (h1 : NameAt toks i) (h2 : OpenAt toks i) :
    False :=
  at_clash (fun t a b => by
    simp only [Tok.isName, isOpen, Tok.isSymbol, Bool.and_eq_true, beq_iff_eq] at a b; omega) h1 h2

theorem kw_not_op {toks : List Tok} {i : Nat} {s s' : Str} (h1 : KeywordAt toks i s)
    (h2 : OperatorAt toks i s') : False :=
  at_clash (fun t a b => by
    simp only [Tok.isKeyword, Tok.isOperator, Bool.and_eq_true, beq_iff_eq] at a b; omega) h1 h2

theorem kw_not_open {toks : List Tok} {i : Nat} {s : Str} (h1 : KeywordAt toks i s)
    (h2 : OpenAt toks i) : False :=
  at_clash (fun t a b => by
    simp only [Tok.isKeyword, isOpen, Tok.isSymbol, Bool.and_eq_true, beq_iff_eq] at a b; omega)
    h1 h2

theorem kw_val_unique {toks : List Tok} {i : Nat} {s s' : Str} (h1 : KeywordAt toks i s)
    (h2 : KeywordAt toks i s') : s = s' := by
  obtain ⟨t, ht, hp⟩ := h1
  obtain ⟨t', ht', hq⟩ := h2
  rw [ht] at ht'; cases ht'
  simp only [Bool.and_eq_true, beq_iff_eq] at hp hq
  rw [← hp.2, ← hq.2]

theorem kw_not_paren {toks : List Tok} {i : Nat} {s : Str} (h : KeywordAt toks i s) :
    ∃ t, toks[i]? = some t ∧ isOpen t = false ∧ isClose t = false := by
  obtain ⟨t, ht, hk⟩ := h
  simp only [Tok.isKeyword, Bool.and_eq_true, beq_iff_eq] at hk
  exact ⟨t, ht, by simp [isOpen, Tok.isSymbol, hk.1], by simp [isClose, Tok.isSymbol, hk.1]⟩

theorem name_not_paren {toks : List Tok} {i : Nat} (h : NameAt toks i) :
    ∃ t, toks[i]? = some t ∧ isOpen t = false ∧ isClose t = false := by
  obtain ⟨t, ht, hk⟩ := h
  simp only [Tok.isName, beq_iff_eq] at hk
  exact ⟨t, ht, by simp [isOpen, Tok.isSymbol, hk], by simp [isClose, Tok.isSymbol, hk]⟩

theorem op_not_paren {toks : List Tok} {i : Nat} {s : Str} (h : OperatorAt toks i s) :
    ∃ t, toks[i]? = some t ∧ isOpen t = false ∧ isClose t = false := by
  obtain ⟨t, ht, hk⟩ := h
  simp only [Tok.isOperator, Bool.and_eq_true, beq_iff_eq] at hk
  exact ⟨t, ht, by simp [isOpen, Tok.isSymbol, hk.1], by simp [isClose, Tok.isSymbol, hk.1]⟩

/-! ## `ArrowHeader` by the index of the name token -/

/-- the first parenthesis of the header is where `arrowOpen` says -/
theorem arrowOpen_of {toks : List Tok} {n g : Nat}
    (hg : g = n + 2 ∨ (g = n + 3 ∧ KeywordAt toks (n + 2) [97, 115, 121, 110, 99]))
    (ho : OpenAt toks g) : arrowOpen toks n = g := by
  unfold arrowOpen
  rcases hg with rfl | ⟨rfl, hk⟩
  · rw [if_neg (fun hk => kw_not_open hk ho)]
  · rw [if_pos hk]

theorem arrowOpen_cases (toks : List Tok) (n : Nat) :
    arrowOpen toks n = n + 2 ∨
      (arrowOpen toks n = n + 3 ∧ KeywordAt toks (n + 2) [97, 115, 121, 110, 99]) := by
  unfold arrowOpen
  split
  · rename_i h; exact .inr ⟨rfl, h⟩
  · exact .inl rfl

/-- `ArrowHeader` in terms of the index of the NAME token: the range starts at the name, or at the
keyword `const` directly in front of it -/
theorem arrowHeader_iff_at (toks : List Tok) (p f : Nat) :
    ArrowHeader toks p f ↔
      ∃ n, (n = p ∨ (n = p + 1 ∧ KeywordAt toks p [99, 111, 110, 115, 116])) ∧
        ArrowHeaderAt toks n f := by
  constructor
  · rintro ⟨n, g, hn, hname, hop, hg, ho, hf⟩
    have := arrowOpen_of hg ho
    exact ⟨n, hn, ⟨hname, hop, by rw [this]; exact ho⟩, by rw [this]; exact hf⟩
  · rintro ⟨n, hn, ⟨hname, hop, ho⟩, hf⟩
    refine ⟨n, arrowOpen toks n, hn, hname, hop, ?_, ho, hf⟩
    rcases arrowOpen_cases toks n with h | ⟨h, hk⟩
    · exact .inl h
    · exact .inr ⟨h, hk⟩

/-- the arrow header of a name token starts at `constStart` -/
theorem arrowHeader_constStart {toks : List Tok} {n f : Nat} (h : ArrowHeaderAt toks n f) :
    ArrowHeader toks (constStart toks n) f := by
  rw [arrowHeader_iff_at]
  refine ⟨n, ?_, h⟩
  unfold constStart
  split
  · rename_i hk
    exact .inr ⟨by omega, hk.2⟩
  · exact .inl rfl

theorem constStart_cases (toks : List Tok) (n : Nat) :
    (constStart toks n = n ∧ ¬ (0 < n ∧ KeywordAt toks (n - 1) [99, 111, 110, 115, 116])) ∨
      (constStart toks n + 1 = n ∧ KeywordAt toks (constStart toks n) [99, 111, 110, 115, 116]) := by
  unfold constStart
  split
  · rename_i hk
    exact .inr ⟨by omega, hk.2⟩
  · rename_i hk
    exact .inl ⟨rfl, hk⟩

/-- an arrow header has at least four tokens after the name index: `Name = (` and one more -/
theorem ArrowHeaderAt.len {toks : List Tok} {n f : Nat} (h : ArrowHeaderAt toks n f) :
    n + 3 ≤ f ∧ f ≤ toks.length := by
  obtain ⟨⟨_, _, ho⟩, hf⟩ := h
  have h1 := groupsEnd_open ho
  obtain ⟨t, ht, _⟩ := ho
  have h2 := (List.getElem?_eq_some_iff.1 ht).1
  have h3 := groupsEnd_le toks (arrowOpen toks n) (by omega)
  rcases arrowOpen_cases toks n with h | ⟨h, _⟩ <;> omega

/-! ## soundness -/

variable {L : Language}

/-- every header extracted through the arrow pattern is `[const] Name = [async] ( … )+`, is
followed by `=>` `{`, and its name is its Name token -/
theorem sound_aExpr (hL : L ∈ Gen.all.map (·.2))
    (hhp : (⟨aExpr, some aFollow⟩ : HeaderPat) ∈ L.pats)
    {toks : List Tok} {hs : List Header} (h : getHeaders ⟨aExpr, some aFollow⟩ toks = .ok hs) :
    ∀ hd ∈ hs, ArrowHeader toks hd.rng.s hd.rng.e ∧ ArrowFollow toks hd.rng.e ∧
      ∃ n, (n = hd.rng.s ∨ (n = hd.rng.s + 1 ∧ KeywordAt toks hd.rng.s [99, 111, 110, 115, 116])) ∧
        ArrowHeaderAt toks n hd.rng.e ∧ toks[n]? = some hd.name := by
  intro hd hhd
  obtain ⟨D, ms, hD, hms, h1, _⟩ := getHeaders_mem h
  obtain ⟨m, hm, hfo, hrng, hname⟩ := h1 hd hhd
  obtain ⟨hnn, hds⟩ := shipped_machine L hL _ hhp D hD
  have hDa : D = aDfa := by
    have h1 : compileTok aExpr = .ok D := hD
    rw [compile_aExpr] at h1; cases h1; rfl
  subst hDa
  have hg := C14.greedy hnn hds hms m hm
  have hrec := C14.records hnn hds hms m hm
  have hs' : hd.rng.s = m.s := by rw [hrng]
  have he' : hd.rng.e = m.e := by rw [hrng]
  rw [hs', he']
  have harr := arrowHeader_of_greedy hg
  obtain ⟨a, b, r, hdrop, ha, hb⟩ := followsAt_arrow hfo
  have hfa : toks[m.e]? = some a := getElem?_of_drop_cons hdrop
  have hfb : toks[m.e + 1]? = some b := by
    have : toks.drop (m.e + 1) = b :: r := by
      rw [drop_eq_cons hfa] at hdrop; exact (List.cons.inj hdrop).2
    exact getElem?_of_drop_cons this
  refine ⟨harr, ⟨⟨a, hfa, ha⟩, ⟨b, hfb, hb⟩⟩, ?_⟩
  obtain ⟨n, hn, hat⟩ := (arrowHeader_iff_at toks m.s m.e).1 harr
  refine ⟨n, hn, hat, ?_⟩
  rw [hrec] at hname
  obtain ⟨t, ht, htn⟩ := hat.1.1
  have hlen := ArrowHeaderAt.len hat
  rcases hn with rfl | ⟨rfl, hk⟩
  · rw [firstName_slice ht htn (by omega)] at hname
    cases hname; exact ht
  · obtain ⟨k, hkk, hkw⟩ := hk
    have hkn : k.isName = false := by
      cases hh : k.isName
      · rfl
      · exact absurd (⟨k, hkk, hkw⟩ : KeywordAt toks m.s _) (fun hk' => name_not_kw ⟨k, hkk, hh⟩ hk')
    rw [firstName_slice_succ hkk hkn ht htn (by omega)] at hname
    cases hname; exact ht

/-! ## isolation -/

/-- the tokens of an attempt of the arrow pattern from `q`, after its first token and up to its
first parenthesis `g`: the name after `const`, the operator `=`, the keyword `async`, or `(` -/
theorem arrow_prefix_kinds {toks : List Tok} {q n g : Nat}
    (hn : n = q ∨ (n = q + 1 ∧ KeywordAt toks q [99, 111, 110, 115, 116]))
    (hop : OperatorAt toks (n + 1) [61])
    (hg : g = n + 2 ∨ (g = n + 3 ∧ KeywordAt toks (n + 2) [97, 115, 121, 110, 99]))
    (ho : OpenAt toks g) :
    ∀ j, q < j → j ≤ g →
      (j = n ∧ n = q + 1 ∧ KeywordAt toks q [99, 111, 110, 115, 116]) ∨ OperatorAt toks j [61] ∨
      KeywordAt toks j [97, 115, 121, 110, 99] ∨ OpenAt toks j := by
  intro j hqj hjg
  rcases hn with rfl | ⟨rfl, hc⟩
  · rcases hg with rfl | ⟨rfl, hk⟩
    · have : j = n + 1 ∨ j = n + 2 := by omega
      rcases this with rfl | rfl
      · exact .inr (.inl hop)
      · exact .inr (.inr (.inr ho))
    · have : j = n + 1 ∨ j = n + 2 ∨ j = n + 3 := by omega
      rcases this with rfl | rfl | rfl
      · exact .inr (.inl hop)
      · exact .inr (.inr (.inl hk))
      · exact .inr (.inr (.inr ho))
  · rcases hg with rfl | ⟨rfl, hk⟩
    · have : j = q + 1 ∨ j = q + 1 + 1 ∨ j = q + 1 + 2 := by omega
      rcases this with rfl | rfl | rfl
      · exact .inl ⟨rfl, rfl, hc⟩
      · exact .inr (.inl hop)
      · exact .inr (.inr (.inr ho))
    · have : j = q + 1 ∨ j = q + 1 + 1 ∨ j = q + 1 + 2 ∨ j = q + 1 + 3 := by omega
      rcases this with rfl | rfl | rfl | rfl
      · exact .inl ⟨rfl, rfl, hc⟩
      · exact .inr (.inl hop)
      · exact .inr (.inr (.inl hk))
      · exact .inr (.inr (.inr ho))

/-- **the two isolation conditions for an arrow header whose name token is at `n`**, followed by a
token: no attempt of the arrow pattern from an EARLIER start finishes inside the header (it is
inside its own parentheses when it reaches the header, and the header's groups are balanced); an
attempt from a LATER start needs `Name = [async] (` strictly inside the parameter list -/
theorem arrow_isolated {toks : List Tok} {n f : Nat} (h : ArrowHeaderAt toks n f)
    (hlt : f < toks.length)
    (hno : ∀ j, n < j → j + 2 < f → ¬ ArrowStartAt toks j) :
    (∀ q f', q < constStart toks n → ArrowHeader toks q f' →
      ¬ (constStart toks n < f' ∧ f' ≤ f)) ∧
    (∀ q f', constStart toks n < q → ArrowHeader toks q f' → ¬ f' < f) := by
  obtain ⟨⟨hname, hop, ho⟩, hf⟩ := h
  have hgc := arrowOpen_cases toks n
  refine ⟨?_, ?_⟩
  · rintro q f' hq ⟨n', g', hn', hname', hop', hg', ho', hf'⟩ ⟨h1, h2⟩
    -- the first parenthesis of the earlier attempt lies before the header
    have hkinds := arrow_prefix_kinds hn' hop' hg' ho'
    have hg's : g' < constStart toks n := by
      rcases Nat.lt_or_ge g' (constStart toks n) with h | h
      · exact h
      · exfalso
        rcases hkinds (constStart toks n) hq h with ⟨e1, e2, hc⟩ | hk | hk | hk
        · -- the start is the name after `const` at `q`: then `constStart = q`
          rcases constStart_cases toks n with ⟨c1, c2⟩ | ⟨c1, c2⟩
          · apply c2
            rw [c1] at e1
            rw [e1, e2]
            exact ⟨by omega, by rw [show q + 1 - 1 = q by omega]; exact hc⟩
          · rw [e1] at c2; exact name_not_kw hname' c2
        · rcases constStart_cases toks n with ⟨c1, _⟩ | ⟨_, c2⟩
          · rw [c1] at hk; exact name_not_op hname hk
          · exact kw_not_op c2 hk
        · rcases constStart_cases toks n with ⟨c1, _⟩ | ⟨_, c2⟩
          · rw [c1] at hk; exact name_not_kw hname hk
          · have := kw_val_unique c2 hk; cases this
        · rcases constStart_cases toks n with ⟨c1, _⟩ | ⟨_, c2⟩
          · rw [c1] at hk; exact name_not_open hname hk
          · exact kw_not_open c2 hk
    have hsg : constStart toks n < arrowOpen toks n := by
      rcases constStart_cases toks n with ⟨c1, _⟩ | ⟨c1, _⟩ <;>
        rcases hgc with g1 | ⟨g1, _⟩ <;> omega
    have hnp : ∀ j, constStart toks n ≤ j → j < arrowOpen toks n →
        ∃ t, toks[j]? = some t ∧ isOpen t = false ∧ isClose t = false := by
      intro j hj1 hj2
      rcases constStart_cases toks n with ⟨c1, _⟩ | ⟨c1, c2⟩
      · rcases hgc with g1 | ⟨g1, gk⟩
        · have : j = n ∨ j = n + 1 := by omega
          rcases this with rfl | rfl
          · exact name_not_paren hname
          · exact op_not_paren hop
        · have : j = n ∨ j = n + 1 ∨ j = n + 2 := by omega
          rcases this with rfl | rfl | rfl
          · exact name_not_paren hname
          · exact op_not_paren hop
          · exact kw_not_paren gk
      · rcases hgc with g1 | ⟨g1, gk⟩
        · have : j = constStart toks n ∨ j = n ∨ j = n + 1 := by omega
          rcases this with rfl | rfl | rfl
          · exact kw_not_paren c2
          · exact name_not_paren hname
          · exact op_not_paren hop
        · have : j = constStart toks n ∨ j = n ∨ j = n + 1 ∨ j = n + 2 := by omega
          rcases this with rfl | rfl | rfl | rfl
          · exact kw_not_paren c2
          · exact name_not_paren hname
          · exact op_not_paren hop
          · exact kw_not_paren gk
    have := no_finish_inside hg's (by rw [← hf']; exact h1) hsg hnp (by rw [← hf]; exact hlt)
    rw [← hf, ← hf'] at this
    omega
  · rintro q f' hq ⟨n', g', hn', hname', hop', hg', ho', hf'⟩ hlt'
    have hopen' := arrowOpen_of hg' ho'
    have hge := groupsEnd_open ho'
    have hn'f : n' + 2 < f' := by rcases hg' with rfl | ⟨rfl, _⟩ <;> omega
    by_cases hnn : n' = n
    · subst hnn
      rw [hopen'] at hf
      omega
    · have hgt : n < n' := by
        rcases constStart_cases toks n with ⟨c1, _⟩ | ⟨c1, c2⟩
        · rcases hn' with rfl | ⟨rfl, _⟩ <;> omega
        · rcases hn' with rfl | ⟨rfl, hc'⟩
          · omega
          · -- `n' = q + 1`, `const` at `q`; `q = n` is impossible: `toks[n]` is a name
            rcases Nat.lt_or_ge n (q + 1) with h | h
            · exact h
            · exfalso
              have : q = n := by omega
              subst this
              exact name_not_kw hname hc'
      exact hno n' hgt (by omega) ⟨hname', hop', by rw [hopen']; exact ho'⟩

/-! ## completeness -/

/-- the follow-up `=>` `{` in the form `FollowsAt` -/
theorem followsAt_of_arrowFollow {toks : List Tok} {f : Nat} (h : ArrowFollow toks f) :
    FollowsAt (some aFollow) toks f := by
  obtain ⟨⟨a, ha, hak⟩, ⟨b, hb, hbk⟩⟩ := h
  exact followsAt_arrow_of (a := a) (b := b) (r := toks.drop (f + 1 + 1))
    (by rw [drop_eq_cons ha, drop_eq_cons hb]) hak hbk

/-- an arrow header `[const] Name = [async] ( … )+` that is followed by `=>` `{` and has no
`Name = [async] (` strictly inside its parameter list is extracted, exactly once; its range starts
at the keyword `const` when there is one -/
theorem complete_aExpr (hL : L ∈ Gen.all.map (·.2))
    (hhp : (⟨aExpr, some aFollow⟩ : HeaderPat) ∈ L.pats) (hprev : L.prevKw = none)
    {toks : List Tok} {hs : List Header} (h : extractHeaders L toks = .ok hs) {n f : Nat}
    (hat : ArrowHeaderAt toks n f) (hfo : ArrowFollow toks f)
    (hno : ∀ j, n < j → j + 2 < f → ¬ ArrowStartAt toks j) :
    ∃ hd ∈ hs, hd.rng = ⟨constStart toks n, f⟩ ∧ toks[n]? = some hd.name ∧
      ∀ hd' ∈ hs, hd'.rng.s = constStart toks n → hd' = hd := by
  have hiff := greedyAt_iff_arrowHeader compile_aExpr toks
  have hlt : f < toks.length := by
    obtain ⟨⟨a, ha, _⟩, _⟩ := hfo
    exact (List.getElem?_eq_some_iff.1 ha).1
  obtain ⟨hb, ha⟩ := arrow_isolated hat hlt hno
  obtain ⟨hd, hhd, hr, hnm, huniq⟩ := canonical_header_extracted L hL ⟨aExpr, some aFollow⟩ hhp aDfa
    compile_aExpr toks hs h (constStart toks n) f ((hiff _ f).2 (arrowHeader_constStart hat))
    (fun q f' hq hg => hb q f' hq ((hiff q f').1 hg))
    (fun q f' hq hg => ha q f' hq ((hiff q f').1 hg))
    (followsAt_of_arrowFollow hfo) (prevOk_none hprev toks _)
  refine ⟨hd, hhd, hr, ?_, huniq⟩
  obtain ⟨t, ht, htn⟩ := hat.1.1
  have hlen := ArrowHeaderAt.len hat
  rcases constStart_cases toks n with ⟨c1, _⟩ | ⟨c1, c2⟩
  · rw [c1, firstName_slice ht htn (by omega)] at hnm
    cases hnm; exact ht
  · obtain ⟨k, hkk, hkw⟩ := c2
    have hkn : k.isName = false := by
      cases hh : k.isName
      · rfl
      · exact absurd (⟨k, hkk, hkw⟩ : KeywordAt toks _ _) (fun hk' => name_not_kw ⟨k, hkk, hh⟩ hk')
    have ht' : toks[constStart toks n + 1]? = some t := by rw [c1]; exact ht
    rw [firstName_slice_succ hkk hkn ht' htn (by omega)] at hnm
    cases hnm; exact ht

end CL
