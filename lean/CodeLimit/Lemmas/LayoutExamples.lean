import CodeLimit.Lemmas.LayoutScan
import CodeLimit.Lemmas.NoclExamples
/-!
# Concrete data for the non-vacuity examples of C01 (stage A)

```
 1  int a [ ] = { 1 , 2 } ;              initialiser at top level
 2  class A {                            a class around two methods
 3    m1 ( ) { x ; }
 4    m2 ( int v = { 1 } ) { y ; }       brace group in the parameter list
 5  } ;
 6  f ( ) {
 7    g ( ) {                            nested, not the last statement
 8      h ( ) { z ; }                    depth 3
 9      q ;                              belongs to `g` again
10    }
11    if ( x ) { w ; }                   control block inside a body
12    k ( ) { u ; } r ;                  nested, last function; `r ;` belongs to `f`
13  }  // x
```

`scanFile` is evaluated stage by stage, independently of the stage-A theorems (only the facts
about `sorted(...)` are used, because `List.mergeSort` does not reduce in the kernel), and the
result is compared with the `expected` report computed from the layout.
-/
namespace CL

/-- `measure` with the length computation factored out -/
def measureWith (code : List Tok) (s : Scope) (len : Except Err Nat) : Except Err Measurement := do
  let len ← len
  let first ← getE code s.hdr.rng.s
  if s.blk.e = 0 then throw .index
  let last ← getE code (s.blk.e - 1)
  let info := lastLineInfo last.val
  let (el, ec) := if info.1 = 0 then (last.line, last.col + last.val.length)
    else (last.line + info.1, info.2 + 1)
  pure ⟨s.hdr.name.val, first.line, first.col, el, ec, len⟩

theorem measure_eq_measureWith (code : List Tok) (s : Scope) (ch : List Range) :
    measure code s ch = measureWith code s (countLines code s ch) := rfl

/-- `count_lines` without the sort -/
def countLinesSorted (toks : List Tok) (s : Scope) (ch : List Range) : Except Err Nat :=
  match scopeLinesLoop toks (s.blk.e - s.hdr.rng.s) s.hdr.rng.s ch with
  | .error e => .error e
  | .ok ls => .ok (countDistinct ls)

theorem countLines_sorted {toks : List Tok} (hpos : PosSorted toks) (s : Scope) {ch : List Range}
    (hs : ch.Pairwise (fun a b => a.s < b.s)) (hin : ∀ c ∈ ch, c.s < toks.length) :
    countLines toks s ch = countLinesSorted toks s ch := by
  unfold countLines
  rw [sortAsc_sorted hpos hs hin]
  rfl

/-- evaluate `measure` on concrete data whose children are sorted by index -/
theorem measure_of_sorted {toks : List Tok} (hpos : PosSorted toks) {s : Scope} {ch : List Range}
    {m : Measurement} (hs : ch.Pairwise (fun a b => a.s < b.s)) (hin : ∀ c ∈ ch, c.s < toks.length)
    (h : measureWith toks s (countLinesSorted toks s ch) = .ok m) : measure toks s ch = .ok m := by
  rw [measure_eq_measureWith, countLines_sorted hpos s hs hin]; exact h

namespace C01Ex
open CL.C17Ex (mk)

def code : List Tok :=
  [mk 1 [105, 110, 116] 1 1,
  mk 2 [97] 1 5,
  mk 3 [91] 1 7,
  mk 3 [93] 1 9,
  mk 4 [61] 1 11,
  mk 3 [123] 1 13,
  mk 0 [49] 1 15,
  mk 3 [44] 1 17,
  mk 0 [50] 1 19,
  mk 3 [125] 1 21,
  mk 3 [59] 1 23,
  mk 1 [99, 108, 97, 115, 115] 2 1,
  mk 2 [65] 2 7,
  mk 3 [123] 2 9,
  mk 2 [109, 49] 3 3,
  mk 3 [40] 3 6,
  mk 3 [41] 3 8,
  mk 3 [123] 3 10,
  mk 2 [120] 3 12,
  mk 3 [59] 3 14,
  mk 3 [125] 3 16,
  mk 2 [109, 50] 4 3,
  mk 3 [40] 4 6,
  mk 1 [105, 110, 116] 4 8,
  mk 2 [118] 4 12,
  mk 4 [61] 4 14,
  mk 3 [123] 4 16,
  mk 0 [49] 4 18,
  mk 3 [125] 4 20,
  mk 3 [41] 4 22,
  mk 3 [123] 4 24,
  mk 2 [121] 4 26,
  mk 3 [59] 4 28,
  mk 3 [125] 4 30,
  mk 3 [125] 5 1,
  mk 3 [59] 5 3,
  mk 2 [102] 6 1,
  mk 3 [40] 6 3,
  mk 3 [41] 6 5,
  mk 3 [123] 6 7,
  mk 2 [103] 7 3,
  mk 3 [40] 7 5,
  mk 3 [41] 7 7,
  mk 3 [123] 7 9,
  mk 2 [104] 8 5,
  mk 3 [40] 8 7,
  mk 3 [41] 8 9,
  mk 3 [123] 8 11,
  mk 2 [122] 8 13,
  mk 3 [59] 8 15,
  mk 3 [125] 8 17,
  mk 2 [113] 9 5,
  mk 3 [59] 9 7,
  mk 3 [125] 10 3,
  mk 1 [105, 102] 11 3,
  mk 3 [40] 11 6,
  mk 2 [120] 11 8,
  mk 3 [41] 11 10,
  mk 3 [123] 11 12,
  mk 2 [119] 11 14,
  mk 3 [59] 11 16,
  mk 3 [125] 11 18,
  mk 2 [107] 12 3,
  mk 3 [40] 12 5,
  mk 3 [41] 12 7,
  mk 3 [123] 12 9,
  mk 2 [117] 12 11,
  mk 3 [59] 12 13,
  mk 3 [125] 12 15,
  mk 2 [114] 12 17,
  mk 3 [59] 12 19,
  mk 3 [125] 13 1]

/-- the file with its comment -/
def all : List Tok := code ++ [mk 5 [47, 47, 32, 120] 13 4]

def fM1 : Fn := ⟨⟨mk 2 [109, 49] 3 3, ⟨14, 17⟩⟩, ⟨17, 21⟩⟩
def fM2 : Fn := ⟨⟨mk 2 [109, 50] 4 3, ⟨21, 30⟩⟩, ⟨30, 34⟩⟩
def fF : Fn := ⟨⟨mk 2 [102] 6 1, ⟨36, 39⟩⟩, ⟨39, 72⟩⟩
def fG : Fn := ⟨⟨mk 2 [103] 7 3, ⟨40, 43⟩⟩, ⟨43, 54⟩⟩
def fH : Fn := ⟨⟨mk 2 [104] 8 5, ⟨44, 47⟩⟩, ⟨47, 51⟩⟩
def fK : Fn := ⟨⟨mk 2 [107] 12 3, ⟨62, 65⟩⟩, ⟨65, 69⟩⟩

def fns : List Fn := [fM1, fM2, fF, fG, fH, fK]

/-- ALL brace blocks: the initialiser, the class body, the bodies of `m1`, the brace group in
the parameter list of `m2`, the bodies of `m2`, `f`, `g`, `h`, the `if` block, the body of `k` -/
def blocks : List Range :=
  [⟨5, 10⟩, ⟨13, 35⟩, ⟨17, 21⟩, ⟨26, 29⟩, ⟨30, 34⟩, ⟨39, 72⟩, ⟨43, 54⟩, ⟨47, 51⟩, ⟨58, 62⟩, ⟨65, 69⟩]

def mM1 : Measurement := ⟨[109, 49], 3, 3, 3, 17, 1⟩
def mM2 : Measurement := ⟨[109, 50], 4, 3, 4, 31, 1⟩
def mF_L : Measurement := ⟨[102], 6, 1, 13, 2, 4⟩
def mG_L : Measurement := ⟨[103], 7, 3, 10, 4, 3⟩
def mH_L : Measurement := ⟨[104], 8, 5, 8, 18, 1⟩
def mK : Measurement := ⟨[107], 12, 3, 12, 16, 1⟩
/-- `f` in a language without nested functions: nothing is subtracted -/
def mF' : Measurement := ⟨[102], 6, 1, 13, 2, 8⟩

/-! ## the layout and the expected report -/

theorem layout : Layout code fns blocks := by decide +kernel

theorem parents : fns.map (parent fns) = [none, none, none, some fF, some fG, some fF] := by
  decide +kernel

theorem childrenF : children fns fF = [fG, fK] := by decide +kernel
theorem childrenG : children fns fG = [fH] := by decide +kernel
theorem topLevelEx : topLevel fns = [fM1, fM2, fF] := by decide +kernel

theorem ownLinesF : ownLines code fns fF = [6, 6, 6, 6, 11, 11, 11, 11, 11, 11, 11, 11, 12, 12, 13] := by
  decide +kernel
theorem ownLinesG : ownLines code fns fG = [7, 7, 7, 7, 9, 9, 10] := by decide +kernel

theorem expectedEx : fns.map (expected code fns) = [mM1, mM2, mF_L, mG_L, mH_L, mK].map some := by
  decide +kernel

theorem expectedFlatEx : (topLevel fns).map (expectedFlat code) = [mM1, mM2, mF'].map some := by
  decide +kernel

/-! ## `scan_file`, stage by stage -/

theorem code_all : filterTokens false all = code := by decide +kernel

theorem unmarked : ∀ f ∈ fns, ¬ Marked all f.hdr.name.line := by decide +kernel

theorem headersCpp : extractHeaders Gen.cpp code = .ok (fns.map (·.hdr)) := by decide +kernel
theorem headersC : extractHeaders Gen.c code = .ok (fns.map (·.hdr)) := by decide +kernel

theorem posSorted : PosSorted code := layout.pos_sorted

theorem blocksEx : getBlocks code = .ok blocks := by
  unfold getBlocks
  have hraw : (balancedPairs [123] [125] code 0 []).map (fun p => (⟨p.1, p.2 + 1⟩ : Range))
      = [⟨5, 10⟩, ⟨17, 21⟩, ⟨26, 29⟩, ⟨30, 34⟩, ⟨13, 35⟩, ⟨47, 51⟩, ⟨43, 54⟩, ⟨58, 62⟩, ⟨65, 69⟩,
         ⟨39, 72⟩] := by decide +kernel
  rw [hraw]
  exact sortAsc_eq_of_perm posSorted (by decide +kernel) (by decide +kernel) (by decide +kernel)

theorem scopesEx : buildScopes0 code (fns.map (·.hdr)) blocks = .ok (fns.map Fn.toScope) := by
  have hs : sortDesc code (fun h : Header => h.rng.s) (fns.map (·.hdr))
      = .ok (fns.map (·.hdr)).reverse :=
    sortDesc_sorted posSorted (by decide +kernel) (by decide +kernel)
  have hl : buildScopesLoop (fns.map (·.hdr)).reverse blocks = .ok (fns.map Fn.toScope).reverse := by
    decide +kernel
  unfold buildScopes0
  rw [hs]
  simp only [hl, List.reverse_reverse]

def ext (f : Fn) : Range := ⟨f.hdr.rng.s, f.body.e⟩

theorem arrangeCpp : arrange Gen.cpp (fns.map Fn.toScope)
    = [(fM1.toScope, []), (fM2.toScope, []), (fF.toScope, [ext fG, ext fK]),
       (fG.toScope, [ext fH]), (fH.toScope, []), (fK.toScope, [])] := by decide +kernel

theorem arrangeC : arrange Gen.c (fns.map Fn.toScope)
    = [(fM1.toScope, []), (fM2.toScope, []), (fF.toScope, [])] := by decide +kernel

theorem measureEx (f : Fn) (ch : List Range) (m : Measurement)
    (hs : ch.Pairwise (fun a b => a.s < b.s)) (hin : ∀ c ∈ ch, c.s < code.length)
    (h : measureWith code f.toScope (countLinesSorted code f.toScope ch) = .ok m) :
    measure code f.toScope ch = .ok m := measure_of_sorted posSorted hs hin h

theorem measM1 : measure code fM1.toScope [] = .ok mM1 :=
  measureEx _ _ _ (by decide +kernel) (by decide +kernel) (by decide +kernel)
theorem measM2 : measure code fM2.toScope [] = .ok mM2 :=
  measureEx _ _ _ (by decide +kernel) (by decide +kernel) (by decide +kernel)
theorem measF : measure code fF.toScope [ext fG, ext fK] = .ok mF_L :=
  measureEx _ _ _ (by decide +kernel) (by decide +kernel) (by decide +kernel)
theorem measG : measure code fG.toScope [ext fH] = .ok mG_L :=
  measureEx _ _ _ (by decide +kernel) (by decide +kernel) (by decide +kernel)
theorem measH : measure code fH.toScope [] = .ok mH_L :=
  measureEx _ _ _ (by decide +kernel) (by decide +kernel) (by decide +kernel)
theorem measK : measure code fK.toScope [] = .ok mK :=
  measureEx _ _ _ (by decide +kernel) (by decide +kernel) (by decide +kernel)
theorem measF' : measure code fF.toScope [] = .ok mF' :=
  measureEx _ _ _ (by decide +kernel) (by decide +kernel) (by decide +kernel)

theorem filterNoclEx : filterNocl (fns.map Fn.toScope) (noclTokens all) = fns.map Fn.toScope := by
  decide +kernel

/-- **A5**: C++ (nested functions are reported), evaluated stage by stage -/
theorem scanCpp : scanFile Gen.cpp all = .ok [mM1, mM2, mF_L, mG_L, mH_L, mK] := by
  have hraw : rawScopes Gen.cpp code = .ok (fns.map Fn.toScope) := by
    unfold rawScopes
    rw [headersCpp]
    simp only [bind, Except.bind]
    have : extractBlocks Gen.cpp code (fns.map (·.hdr)) = getBlocks code := rfl
    rw [this, blocksEx]
    exact scopesEx
  unfold scanFile
  rw [buildScopes_eq, code_all, hraw]
  simp only [Except.map, filterNoclEx, arrangeCpp, measureAll, measM1, measM2, measF, measG,
    measH, measK]

/-- **A5**: C (only top-level functions are reported, nothing is subtracted) -/
theorem scanC : scanFile Gen.c all = .ok [mM1, mM2, mF'] := by
  have hraw : rawScopes Gen.c code = .ok (fns.map Fn.toScope) := by
    unfold rawScopes
    rw [headersC]
    simp only [bind, Except.bind]
    have : extractBlocks Gen.c code (fns.map (·.hdr)) = getBlocks code := rfl
    rw [this, blocksEx]
    exact scopesEx
  unfold scanFile
  rw [buildScopes_eq, code_all, hraw]
  simp only [Except.map, filterNoclEx, arrangeC, measureAll, measM1, measM2, measF']

end C01Ex

/-! ## JavaScript: an arrow function around a function; the headers arrive out of order

```
1  const a = ( x ) => {
2    function b ( ) { y ; }
3    z ;
4  }
5  function c ( ) { w ; }
```
JavaScript concatenates the matches of its two header patterns: `b`, `c` (first pattern), then
`a` (second pattern).  The body of `a` starts one token after its header (`=>`).
-/
namespace C01Js
open CL.C17Ex (mk)

def code : List Tok :=
  [mk 1 [99, 111, 110, 115, 116] 1 1,
   mk 2 [97] 1 7,
   mk 4 [61] 1 9,
   mk 3 [40] 1 11,
   mk 2 [120] 1 13,
   mk 3 [41] 1 15,
   mk 3 [61, 62] 1 17,
   mk 3 [123] 1 20,
   mk 1 [102, 117, 110, 99, 116, 105, 111, 110] 2 3,
   mk 2 [98] 2 12,
   mk 3 [40] 2 14,
   mk 3 [41] 2 16,
   mk 3 [123] 2 18,
   mk 2 [121] 2 20,
   mk 3 [59] 2 22,
   mk 3 [125] 2 24,
   mk 2 [122] 3 3,
   mk 3 [59] 3 5,
   mk 3 [125] 4 1,
   mk 1 [102, 117, 110, 99, 116, 105, 111, 110] 5 1,
   mk 2 [99] 5 10,
   mk 3 [40] 5 12,
   mk 3 [41] 5 14,
   mk 3 [123] 5 16,
   mk 2 [119] 5 18,
   mk 3 [59] 5 20,
   mk 3 [125] 5 22]

def fA : Fn := ⟨⟨mk 2 [97] 1 7, ⟨0, 6⟩⟩, ⟨7, 19⟩⟩
def fB : Fn := ⟨⟨mk 2 [98] 2 12, ⟨8, 12⟩⟩, ⟨12, 16⟩⟩
def fC : Fn := ⟨⟨mk 2 [99] 5 10, ⟨19, 23⟩⟩, ⟨23, 27⟩⟩
def fns : List Fn := [fA, fB, fC]
def blocks : List Range := [⟨7, 19⟩, ⟨12, 16⟩, ⟨23, 27⟩]

def mA : Measurement := ⟨[97], 1, 1, 4, 2, 3⟩
def mB : Measurement := ⟨[98], 2, 3, 2, 25, 1⟩
def mC : Measurement := ⟨[99], 5, 1, 5, 23, 1⟩

theorem layout : Layout code fns blocks := by decide +kernel
theorem posSorted : PosSorted code := layout.pos_sorted
theorem code_all : filterTokens false code = code := by decide +kernel
theorem unmarked : ∀ f ∈ fns, ¬ Marked code f.hdr.name.line := by decide +kernel

/-- the headers as extracted: `b`, `c`, `a` -/
theorem headers : extractHeaders Gen.javascript code = .ok [fB.hdr, fC.hdr, fA.hdr] := by
  decide +kernel

theorem headers_perm : [fB.hdr, fC.hdr, fA.hdr].Perm (fns.map (·.hdr)) := by decide +kernel

theorem expectedEx : fns.map (expected code fns) = [mA, mB, mC].map some := by decide +kernel

theorem blocksEx : getBlocks code = .ok blocks := by
  unfold getBlocks
  have hraw : (balancedPairs [123] [125] code 0 []).map (fun p => (⟨p.1, p.2 + 1⟩ : Range))
      = [⟨12, 16⟩, ⟨7, 19⟩, ⟨23, 27⟩] := by decide +kernel
  rw [hraw]
  exact sortAsc_eq_of_perm posSorted (by decide +kernel) (by decide +kernel) (by decide +kernel)

theorem scopesEx : buildScopes0 code [fB.hdr, fC.hdr, fA.hdr] blocks = .ok (fns.map Fn.toScope) := by
  have hs : sortDesc code (fun h : Header => h.rng.s) [fB.hdr, fC.hdr, fA.hdr]
      = .ok [fC.hdr, fB.hdr, fA.hdr] :=
    sortDesc_eq_of_perm posSorted (by decide +kernel) (by decide +kernel) (by decide +kernel)
  have hl : buildScopesLoop [fC.hdr, fB.hdr, fA.hdr] blocks = .ok (fns.map Fn.toScope).reverse := by
    decide +kernel
  unfold buildScopes0
  rw [hs]
  simp only [hl, List.reverse_reverse]

/-- **A5** for JavaScript, evaluated stage by stage -/
theorem scanJs : scanFile Gen.javascript code = .ok [mA, mB, mC] := by
  have hraw : rawScopes Gen.javascript code = .ok (fns.map Fn.toScope) := by
    unfold rawScopes
    rw [headers]
    simp only [bind, Except.bind]
    have : extractBlocks Gen.javascript code [fB.hdr, fC.hdr, fA.hdr] = getBlocks code := rfl
    rw [this, blocksEx]
    exact scopesEx
  have hf : filterNocl (fns.map Fn.toScope) (noclTokens code) = fns.map Fn.toScope := by
    decide +kernel
  have ha : arrange Gen.javascript (fns.map Fn.toScope)
      = [(fA.toScope, [⟨8, 16⟩]), (fB.toScope, []), (fC.toScope, [])] := by decide +kernel
  have hA : measure code fA.toScope [⟨8, 16⟩] = .ok mA :=
    measure_of_sorted posSorted (by decide +kernel) (by decide +kernel) (by decide +kernel)
  have hB : measure code fB.toScope [] = .ok mB :=
    measure_of_sorted posSorted (by decide +kernel) (by decide +kernel) (by decide +kernel)
  have hC : measure code fC.toScope [] = .ok mC :=
    measure_of_sorted posSorted (by decide +kernel) (by decide +kernel) (by decide +kernel)
  unfold scanFile
  rw [buildScopes_eq, code_all, hraw]
  simp only [Except.map, hf, ha, measureAll, hA, hB, hC]

end C01Js

/-! ## a block directly after a function body is merged into the function

```
1  f ( ) {
2    a ;
3  } {          a Java instance initialiser directly after the method
4    b ;
5  }
```
-/
namespace C01Adj
open CL.C17Ex (mk)

def code : List Tok :=
  [mk 2 [102] 1 1, mk 3 [40] 1 3, mk 3 [41] 1 5, mk 3 [123] 1 7,
   mk 2 [97] 2 3, mk 3 [59] 2 5,
   mk 3 [125] 3 1, mk 3 [123] 3 3,
   mk 2 [98] 4 3, mk 3 [59] 4 5,
   mk 3 [125] 5 1]

def fF : Fn := ⟨⟨mk 2 [102] 1 1, ⟨0, 3⟩⟩, ⟨3, 7⟩⟩
def fns : List Fn := [fF]
def blocks : List Range := [⟨3, 7⟩, ⟨7, 11⟩]

/-- what the analysis builds: the body runs to the end of the second block -/
def merged : Scope := ⟨fF.hdr, ⟨3, 11⟩⟩

theorem layoutCore : LayoutCore code fns blocks := by decide +kernel
theorem not_layout : ¬ Layout code fns blocks := by decide +kernel
theorem code_all : filterTokens false code = code := by decide +kernel
theorem headers : extractHeaders Gen.java code = .ok (fns.map (·.hdr)) := by decide +kernel
theorem posSorted : PosSorted code := layoutCore.pos_sorted

theorem blocksEx : getBlocks code = .ok blocks := by
  unfold getBlocks
  have hraw : (balancedPairs [123] [125] code 0 []).map (fun p => (⟨p.1, p.2 + 1⟩ : Range))
      = [⟨3, 7⟩, ⟨7, 11⟩] := by decide +kernel
  rw [hraw]
  exact sortAsc_eq_of_perm posSorted (by decide +kernel) (by decide +kernel) (by decide +kernel)

theorem scopesEx : buildScopes0 code (fns.map (·.hdr)) blocks = .ok [merged] := by
  have hs : sortDesc code (fun h : Header => h.rng.s) (fns.map (·.hdr))
      = .ok (fns.map (·.hdr)).reverse :=
    sortDesc_sorted posSorted (by decide +kernel) (by decide +kernel)
  have hl : buildScopesLoop (fns.map (·.hdr)).reverse blocks = .ok [merged] := by decide +kernel
  unfold buildScopes0
  rw [hs]
  simp only [hl, List.reverse_cons, List.reverse_nil, List.nil_append]

theorem scanJava : scanFile Gen.java code = .ok [⟨[102], 1, 1, 5, 2, 5⟩] := by
  have hraw : rawScopes Gen.java code = .ok [merged] := by
    unfold rawScopes
    rw [headers]
    simp only [bind, Except.bind]
    have : extractBlocks Gen.java code (fns.map (·.hdr)) = getBlocks code := rfl
    rw [this, blocksEx]
    exact scopesEx
  have hf : filterNocl [merged] (noclTokens code) = [merged] := by decide +kernel
  have ha : arrange Gen.java [merged] = [(merged, [])] := by decide +kernel
  have hm : measure code merged [] = .ok ⟨[102], 1, 1, 5, 2, 5⟩ :=
    measure_of_sorted posSorted (by decide +kernel) (by decide +kernel) (by decide +kernel)
  unfold scanFile
  rw [buildScopes_eq, code_all, hraw]
  simp only [Except.map, hf, ha, measureAll, hm]

theorem expectedEx : fns.map (expected code fns) = [some ⟨[102], 1, 1, 3, 2, 3⟩] := by
  decide +kernel

end C01Adj
end CL
