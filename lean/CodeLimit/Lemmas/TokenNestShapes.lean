import CodeLimit.Lemmas.TokenNestExit
/-!
# The tables of the header shapes `Name G+` and `[Keyword] Name G+`, for every predicate `G`

The table of an expression depends on its predicates only through `==`, so the table of
`[Name(), OneOrMore(G)]` is the table of the abstract expression `a b+` with `a ↦ Name()`,
`b ↦ G` (`nfaToDfa_map`, for `G ≠ Name()`); the abstract table is computed by the kernel.
Hence `shapeOk` (every accepting state has a `G` transition; a row with a `G` transition has
no other) holds for these shapes for EVERY `G`.
-/
namespace CL

/-- `[Name(), OneOrMore(G)]` -/
def hdrName (G : PredN) : Rx PredN := .cat (.atom .name) (.plus (.atom G))

/-- `[Optional(Keyword(kw)), Name(), OneOrMore(G)]` -/
def hdrOptKw (kw : Str) (G : PredN) : Rx PredN :=
  .cat (.cat (.opt (.atom (.keyword kw))) (.atom .name)) (.plus (.atom G))

/-- `[Keyword(kw), Name(), OneOrMore(G)]` -/
def hdrKw (kw : Str) (G : PredN) : Rx PredN :=
  .cat (.cat (.atom (.keyword kw)) (.atom .name)) (.plus (.atom G))

namespace Shapes

def f2 (G : PredN) : Bool → PredN
  | false => .name
  | true => G

theorem f2_inj {G : PredN} (h : G ≠ .name) : ∀ a b, f2 G a = f2 G b → a = b := by
  intro a b hab
  cases a <;> cases b <;> simp only [f2] at hab ⊢
  · exact absurd hab.symm h
  · exact absurd hab h

def f3 (kw : Str) (G : PredN) : Fin 3 → PredN
  | 0 => .keyword kw
  | 1 => .name
  | 2 => G

theorem f3_inj {kw : Str} {G : PredN} (h1 : G ≠ .name) (h2 : G ≠ .keyword kw) :
    ∀ a b, f3 kw G a = f3 kw G b → a = b := by
  intro a b hab
  match a, b, hab with
  | 0, 0, _ => rfl
  | 1, 1, _ => rfl
  | 2, 2, _ => rfl
  | 0, 1, h => simp [f3] at h
  | 1, 0, h => simp [f3] at h
  | 0, 2, h => exact absurd h.symm h2
  | 2, 0, h => exact absurd h h2
  | 1, 2, h => exact absurd h.symm h1
  | 2, 1, h => exact absurd h h1

def r2 : Rx Bool := .cat (.atom false) (.plus (.atom true))
def r3opt : Rx (Fin 3) := .cat (.cat (.opt (.atom 0)) (.atom 1)) (.plus (.atom 2))
def r3 : Rx (Fin 3) := .cat (.cat (.atom 0) (.atom 1)) (.plus (.atom 2))

def D2 : Dfa Bool := (nfaToDfa (compile r2 1) id).getD ⟨[], []⟩
def D3opt : Dfa (Fin 3) := (nfaToDfa (compile r3opt 1) id).getD ⟨[], []⟩
def D3 : Dfa (Fin 3) := (nfaToDfa (compile r3 1) id).getD ⟨[], []⟩

theorem eq_some_getD {α : Type} {o : Option α} {d : α} (h : o.isSome = true) :
    o = some (o.getD d) := by
  cases o with
  | none => cases h
  | some a => rfl

theorem D2_eq : nfaToDfa (compile r2 1) id = some D2 := eq_some_getD (by decide +kernel)
theorem D3opt_eq : nfaToDfa (compile r3opt 1) id = some D3opt := eq_some_getD (by decide +kernel)
theorem D3_eq : nfaToDfa (compile r3 1) id = some D3 := eq_some_getD (by decide +kernel)

/-- the abstract form of `shapeOk`: `g` is the letter that stands for `G` -/
def shapeOk0 {α : Type} [DecidableEq α] (D : Dfa α) (g : α) : Bool :=
  D.rows.all (fun rw => !(rw.2.map (·.1)).contains g || decide (rw.2.length = 1)) &&
    D.acc.all (fun s => ((D.row s).map (·.1)).contains g)

theorem shapeOk_map {α : Type} [DecidableEq α] {f : α → PredN} (hf : ∀ a b, f a = f b → a = b)
    (D : Dfa α) (g : α) (h : shapeOk0 D g = true) : shapeOk (D.map f) (f g) = true := by
  have hc : ∀ l : List (α × DState),
      (labelsOf (l.map (fun pt => (f pt.1, pt.2)))).contains (f g) = (l.map (·.1)).contains g := by
    intro l
    induction l with
    | nil => rfl
    | cons a l ih =>
      simp only [labelsOf, List.map_cons, List.contains_cons] at ih ⊢
      rw [ih]
      congr 1
      by_cases hag : g = a.1
      · subst hag; simp
      · have : f g ≠ f a.1 := fun h' => hag (hf _ _ h')
        simp [hag, this]
  simp only [shapeOk0, Bool.and_eq_true, List.all_eq_true] at h
  simp only [shapeOk, Bool.and_eq_true, List.all_eq_true]
  refine ⟨?_, ?_⟩
  · intro rw hrw
    simp only [Dfa.map, List.mem_map] at hrw
    obtain ⟨rw0, h0, rfl⟩ := hrw
    have := h.1 rw0 h0
    simp only [hc, List.length_map]
    exact this
  · intro s hs
    have := h.2 s hs
    rw [Dfa.map_row, hc]
    exact this

end Shapes

open Shapes

/-- `[Name(), OneOrMore(G)]`: the table, for every `G` other than `Name()` -/
theorem hdrName_compile {G : PredN} (h : G ≠ .name) :
    compileNest (hdrName G) = .ok (D2.map (f2 G)) := by
  have : hdrName G = r2.map (f2 G) := rfl
  unfold compileNest
  rw [this, nfaToDfa_map (f2_inj h) r2 1 (ord := id) (ord' := id) (fun _ => rfl), D2_eq]
  rfl

theorem hdrName_shape {G : PredN} (h : G ≠ .name) : shapeOk (D2.map (f2 G)) G = true :=
  shapeOk_map (f2_inj h) D2 true (by decide +kernel)

theorem hdrOptKw_compile {kw : Str} {G : PredN} (h1 : G ≠ .name) (h2 : G ≠ .keyword kw) :
    compileNest (hdrOptKw kw G) = .ok (D3opt.map (f3 kw G)) := by
  have : hdrOptKw kw G = r3opt.map (f3 kw G) := rfl
  unfold compileNest
  rw [this, nfaToDfa_map (f3_inj h1 h2) r3opt 1 (ord := id) (ord' := id) (fun _ => rfl), D3opt_eq]
  rfl

theorem hdrOptKw_shape {kw : Str} {G : PredN} (h1 : G ≠ .name) (h2 : G ≠ .keyword kw) :
    shapeOk (D3opt.map (f3 kw G)) G = true :=
  shapeOk_map (f3_inj h1 h2) D3opt 2 (by decide +kernel)

theorem hdrKw_compile {kw : Str} {G : PredN} (h1 : G ≠ .name) (h2 : G ≠ .keyword kw) :
    compileNest (hdrKw kw G) = .ok (D3.map (f3 kw G)) := by
  have : hdrKw kw G = r3.map (f3 kw G) := rfl
  unfold compileNest
  rw [this, nfaToDfa_map (f3_inj h1 h2) r3 1 (ord := id) (ord' := id) (fun _ => rfl), D3_eq]
  rfl

theorem hdrKw_shape {kw : Str} {G : PredN} (h1 : G ≠ .name) (h2 : G ≠ .keyword kw) :
    shapeOk (D3.map (f3 kw G)) G = true :=
  shapeOk_map (f3_inj h1 h2) D3 2 (by decide +kernel)

/-- none of the three shapes matches the empty sequence -/
theorem hdrName_not_nullable (G : PredN) : ¬ Lang (hdrName G) [] := by
  intro h
  generalize hw : ([] : List PredN) = w at h
  unfold hdrName at h
  cases h with
  | cat h1 h2 =>
    cases h1
    simp at hw

theorem plus_not_nil {α : Type} {a : α} : ∀ {w : List α}, Lang (.plus (.atom a)) w → w ≠ [] := by
  intro w h
  generalize hr : Rx.plus (Rx.atom a) = r at h
  induction h with
  | plusOne h1 =>
    cases hr
    cases h1
    simp
  | plusCons h1 _ _ _ =>
    cases hr
    cases h1
    simp
  | _ => cases hr

theorem hdrOptKw_not_nullable (kw : Str) (G : PredN) : ¬ Lang (hdrOptKw kw G) [] := by
  intro h
  generalize hw : ([] : List PredN) = w at h
  unfold hdrOptKw at h
  cases h with
  | cat h1 h2 =>
    have := plus_not_nil h2
    have hv : _ ++ _ = [] := hw.symm
    simp only [List.append_eq_nil_iff] at hv
    exact this hv.2

theorem hdrKw_not_nullable (kw : Str) (G : PredN) : ¬ Lang (hdrKw kw G) [] := by
  intro h
  generalize hw : ([] : List PredN) = w at h
  unfold hdrKw at h
  cases h with
  | cat h1 h2 =>
    have := plus_not_nil h2
    have hv : _ ++ _ = [] := hw.symm
    simp only [List.append_eq_nil_iff] at hv
    exact this hv.2

/-! ## the tokens shown to `G` in the shape `Name G+` -/

section generic
variable {α π β : Type}

/-- the target reported by `consumeAux` is the target of an entry of the row -/
theorem consumeAux_target_mem {C : Acceptor α π β} {x : β} {row : List (α × DState)}
    {f : Option DState} {ps ps' : π} {g : DState}
    (h : consumeAux C x row f ps = .ok (some g, ps')) : f = some g ∨ ∃ p, (p, g) ∈ row := by
  induction row generalizing f ps with
  | nil =>
    simp only [consumeAux, Except.ok.injEq, Prod.mk.injEq] at h
    exact .inl h.1
  | cons pt rest ih =>
    obtain ⟨p, t⟩ := pt
    simp only [consumeAux] at h
    split at h
    · split at h
      · cases h
      · rcases ih h with h' | ⟨q, hq⟩
        · simp only [Option.some.injEq] at h'
          subst h'
          exact .inr ⟨p, List.mem_cons_self ..⟩
        · exact .inr ⟨q, List.mem_cons_of_mem _ hq⟩
    · rcases ih h with h' | ⟨q, hq⟩
      · exact .inl h'
      · exact .inr ⟨q, List.mem_cons_of_mem _ hq⟩

end generic

/-- in a table where every state but the start state shows its tokens to `G`, and the start
state is never re-entered, a run from a non-start state shows every token to `G` -/
theorem gSeen_all {D : Dfa PredN} {G : PredN}
    (hG : ∀ s, s ≠ .start → D.row s ≠ [] → G ∈ labelsOf (D.row s))
    (htgt : ∀ s, ∀ pt ∈ D.row s, pt.2 ≠ .start) :
    ∀ (w : List Tok) (cfg q : DState × Copies), cfg.1 ≠ .start →
      runM (nestM D) cfg w = some q → gSeen D G cfg w = w := by
  intro w
  induction w with
  | nil => intro cfg q _ _; rfl
  | cons x xs ih =>
    intro cfg q hne hr
    simp only [runM] at hr
    split at hr
    · rename_i cfg' hstep
      have h' := stepN_some hstep
      have hrow : D.row cfg.1 ≠ [] := by
        intro h0
        rw [h0] at h'
        simp [consumeAux] at h'
      have hne' : cfg'.1 ≠ .start := by
        rcases consumeAux_target_mem h' with h1 | ⟨p, hp⟩
        · cases h1
        · exact htgt _ _ hp
      simp only [gSeen, hstep, hG _ hne hrow, if_true, ih cfg' q hne' hr]
    · cases hr

namespace Shapes

theorem D2_rows : D2.rows = [(.set [3, 4, 5], [(true, .set [3, 4, 5])]),
    (.set [2, 3], [(true, .set [3, 4, 5])]), (.start, [(false, .set [2, 3])])] := by
  decide +kernel

theorem D2map_row (G : PredN) (s : DState) :
    (D2.map (f2 G)).row s =
      if s = .set [3, 4, 5] then [(G, .set [3, 4, 5])]
      else if s = .set [2, 3] then [(G, .set [3, 4, 5])]
      else if s = .start then [(.name, .set [2, 3])] else [] := by
  rw [Dfa.map_row]
  unfold Dfa.row
  rw [D2_rows]
  by_cases h1 : s = .set [3, 4, 5]
  · subst h1; simp [f2]
  · by_cases h2 : s = .set [2, 3]
    · subst h2; simp [f2]
    · by_cases h3 : s = .start
      · subst h3; simp [f2]
      · have e1 : (DState.set [3, 4, 5] = s) = False := by simpa using fun h => h1 h.symm
        have e2 : (DState.set [2, 3] = s) = False := by simpa using fun h => h2 h.symm
        have e3 : (DState.start = s) = False := by simpa using fun h => h3 h.symm
        simp [List.find?, e1, e2, e3, h1, h2, h3]

end Shapes

/-- in `[Name(), OneOrMore(G)]` the tokens shown to `G` are exactly the tokens after the first
one -/
theorem hdrName_gSeen {G : PredN} (h : G ≠ .name) (x : Tok) (w : List Tok)
    {q : DState × Copies} (hr : runM (nestM (D2.map (f2 G))) (.start, []) (x :: w) = some q) :
    gSeen (D2.map (f2 G)) G (.start, []) (x :: w) = w := by
  simp only [runM] at hr
  split at hr
  · rename_i cfg' hstep
    have h' := stepN_some hstep
    have hrow : (D2.map (f2 G)).row DState.start = [(.name, .set [2, 3])] := by
      rw [D2map_row]; simp
    have hne' : cfg'.1 ≠ .start := by
      rcases consumeAux_target_mem h' with h1 | ⟨p, hp⟩
      · cases h1
      · rw [hrow] at hp
        simp only [List.mem_cons, Prod.mk.injEq, List.not_mem_nil, or_false] at hp
        rw [hp.2]; simp
    have hnot : G ∉ labelsOf ((D2.map (f2 G)).row DState.start) := by
      rw [hrow]; simp [labelsOf, h]
    simp only [gSeen, hstep, hnot, if_false]
    refine gSeen_all ?_ ?_ w cfg' q hne' hr
    · intro s hs hrow'
      rw [D2map_row] at hrow' ⊢
      split
      · simp [labelsOf]
      · split
        · simp [labelsOf]
        · rename_i h1 h2
          simp only [h1, h2, hs, if_false] at hrow'
          exact absurd rfl hrow'
    · intro s pt hpt
      rw [D2map_row] at hpt
      split at hpt
      · simp only [List.mem_cons, List.not_mem_nil, or_false] at hpt; rw [hpt]; simp
      · split at hpt
        · simp only [List.mem_cons, List.not_mem_nil, or_false] at hpt; rw [hpt]; simp
        · split at hpt
          · simp only [List.mem_cons, List.not_mem_nil, or_false] at hpt; rw [hpt]; simp
          · cases hpt
  · cases hr

end CL
