import CodeLimit.Lemmas.NoclFold
/-!
# `_build_scopes_from_headers_and_blocks` yields scopes strictly sorted by header start

(needed as a hypothesis of the C17 independence theorems).  Python sorts the headers by the
*location* (line, column) of their first token, so this needs the token locations to increase
strictly with the token index (`PosSorted`), and headers with pairwise distinct starts.
-/
namespace CL

/-! `PosSorted toks` (token locations strictly increase along the list) is defined in
`CodeLimit/Spec/Nocl.lean`. -/

theorem keyLe_trans (a b c : Nat × Nat) (h1 : keyLe a b = true) (h2 : keyLe b c = true) :
    keyLe a c = true := by
  simp only [keyLe, Bool.or_eq_true, decide_eq_true_eq, Bool.and_eq_true, beq_iff_eq] at *
  omega

theorem keyLe_total (a b : Nat × Nat) : (keyLe a b || keyLe b a) = true := by
  simp only [keyLe, Bool.or_eq_true, decide_eq_true_eq, Bool.and_eq_true, beq_iff_eq]
  omega

theorem withKeys_spec {γ : Type} (toks : List Tok) (start : γ → Nat) :
    ∀ (xs : List γ) (ks : List ((Nat × Nat) × γ)), withKeys toks start xs = .ok ks →
      ks.map (·.2) = xs ∧ ∀ p ∈ ks, posKey toks (start p.2) = .ok p.1
  | [], ks, h => by cases h; exact ⟨rfl, fun p hp => by cases hp⟩
  | x :: xs, ks, h => by
    simp only [withKeys] at h
    split at h
    · rename_i k r hk hr
      cases h
      obtain ⟨ih1, ih2⟩ := withKeys_spec toks start xs r hr
      refine ⟨by simp [ih1], ?_⟩
      intro p hp
      rcases List.mem_cons.mp hp with rfl | hp
      · exact hk
      · exact ih2 p hp
    · cases h
    · cases h

/-- `sorted(xs, key=..., reverse=True)`: a permutation, descending in the key -/
theorem sortDesc_spec {γ : Type} {toks : List Tok} {start : γ → Nat} {xs ys : List γ}
    (h : sortDesc toks start xs = .ok ys) :
    ys.Perm xs ∧ ys.Pairwise (fun a b => ∃ ka kb, posKey toks (start a) = .ok ka ∧
      posKey toks (start b) = .ok kb ∧ keyLe kb ka = true) := by
  unfold sortDesc at h
  split at h
  · cases h
  · rename_i ks hk
    cases h
    obtain ⟨h1, h2⟩ := withKeys_spec toks start xs ks hk
    have hperm := List.mergeSort_perm ks (fun a b => keyLe b.1 a.1)
    refine ⟨h1 ▸ hperm.map (·.2), ?_⟩
    rw [List.pairwise_map]
    have hpw := List.pairwise_mergeSort (le := fun a b : (Nat × Nat) × γ => keyLe b.1 a.1)
      (fun a b c h1 h2 => keyLe_trans _ _ _ h2 h1) (fun a b => keyLe_total _ _) ks
    refine List.Pairwise.imp_of_mem ?_ hpw
    intro a b ha hb hab
    exact ⟨a.1, b.1, h2 a (hperm.mem_iff.mp ha), h2 b (hperm.mem_iff.mp hb), hab⟩

theorem buildScopesLoop_sublist :
    ∀ (hs : List Header) (blocks : List Range) (r : List Scope),
      buildScopesLoop hs blocks = .ok r → (r.map (·.hdr)).Sublist hs
  | [], _, r, h => by cases h; exact List.Sublist.slnil
  | hd :: hs, blocks, r, h => by
    unfold buildScopesLoop at h
    simp only at h
    split at h
    · exact (buildScopesLoop_sublist hs blocks r h).cons _
    · split at h
      · rename_i s e r' _ _ hr
        cases h
        exact (buildScopesLoop_sublist hs _ r' hr).cons_cons _
      · cases h
      · cases h
      · cases h

theorem posKey_lt {toks : List Tok} (hpos : PosSorted toks) {i j : Nat} {ki kj : Nat × Nat}
    (hi : posKey toks i = .ok ki) (hj : posKey toks j = .ok kj) (hij : i < j) :
    keyLe kj ki = false := by
  unfold posKey at hi hj
  split at hi
  · rename_i ti hti
    split at hj
    · rename_i tj htj
      cases hi; cases hj
      obtain ⟨hil, hti⟩ := List.getElem?_eq_some_iff.mp hti
      obtain ⟨hjl, htj⟩ := List.getElem?_eq_some_iff.mp htj
      have := List.pairwise_iff_getElem.mp hpos i j hil hjl hij
      rw [hti, htj] at this
      cases hk : keyLe (tj.line, tj.col) (ti.line, ti.col) with
      | false => rfl
      | true =>
        simp only [keyLe, Bool.or_eq_true, decide_eq_true_eq, Bool.and_eq_true, beq_iff_eq] at hk
        omega
    · cases hj
  · cases hi

/-- the scopes come out strictly sorted by header start -/
theorem buildScopes0_startSorted {toks : List Tok} {hs : List Header} {bs : List Range}
    {sc : List Scope} (hpos : PosSorted toks) (hnd : (hs.map (·.rng.s)).Nodup)
    (h : buildScopes0 toks hs bs = .ok sc) : StartSorted sc := by
  unfold buildScopes0 at h
  split at h
  · cases h
  · rename_i rh hrh
    split at h
    · cases h
    · rename_i r hr
      cases h
      obtain ⟨hperm, hpw⟩ := sortDesc_spec hrh
      have hnd' : (rh.map (·.rng.s)).Nodup := ((hperm.map (·.rng.s)).nodup_iff).mpr hnd
      rw [List.nodup_iff_pairwise_ne, List.pairwise_map] at hnd'
      have hdesc : rh.Pairwise (fun a b => b.rng.s < a.rng.s) := by
        refine (hpw.and hnd').imp ?_
        rintro a b ⟨⟨ka, kb, hka, hkb, hle⟩, hne⟩
        by_cases hlt : a.rng.s < b.rng.s
        · rw [posKey_lt hpos hka hkb hlt] at hle; cases hle
        · omega
      have hsub := buildScopesLoop_sublist rh bs r hr
      have := List.Pairwise.sublist hsub hdesc
      rw [List.pairwise_map] at this
      unfold StartSorted
      rw [List.pairwise_reverse]
      exact this

theorem rawScopes_startSorted {L : Language} {code : List Tok} {sc : List Scope}
    (hpos : PosSorted code)
    (hnd : ∀ hs, extractHeaders L code = .ok hs → (hs.map (·.rng.s)).Nodup)
    (h : rawScopes L code = .ok sc) : StartSorted sc := by
  unfold rawScopes at h
  cases h1 : extractHeaders L code with
  | error e => rw [h1] at h; cases h
  | ok hs =>
    rw [h1] at h
    simp only [bind, Except.bind] at h
    cases h2 : extractBlocks L code hs with
    | error e => rw [h2] at h; cases h
    | ok bs =>
      rw [h2] at h
      exact buildScopes0_startSorted hpos (hnd hs h1) h

end CL
