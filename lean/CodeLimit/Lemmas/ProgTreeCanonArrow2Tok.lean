import CodeLimit.Lemmas.ProgTreeCanonArrow2Plain
import CodeLimit.Lemmas.ProgTreeCanonJs
/-!
# Canonical arrow headers on token lists

* `no_finish_inside` - a run of parenthesis groups that is inside its parentheses at the start of
  a piece `[s, g)` without parentheses that is followed by a complete run of groups, stops after
  that run;
* `arrowHeaderOK_cases` - the parts of a canonical arrow header;
* `arrow_in_context` - a canonical arrow header followed by `=>` `{`, in any context, is a match of
  the arrow pattern (`ArrowHeader`) that no other match of the pattern pre-empts;
* `arrow_reported` - it is returned by `get_headers` with the arrow pattern;
* `arrowStart_of_arrowHeader` - a match of the arrow pattern followed by `=>` `{` starts (after an
  optional `const`) at a Name token followed by `= [async] ( … )+ => {` (`arrowStart`).
-/
namespace CL
open CL.Syn CL.Compose CL.C01disc

/-! ## runs of groups -/

/-! ## `assignOpen` in context -/

/-- the list is empty, or its first token is not `(`, not the operator `=` and not the keyword
`async` -/
def InertHead (Z : List Tok) : Prop :=
  ∀ t ∈ Z.head?, isOpen t = false ∧ t.isOperator [61] = false ∧ t.isKw kwAsyncS = false

theorem InertHead.nil : InertHead [] := by intro t h; cases h

theorem InertHead.cons {t : Tok} {Z : List Tok} (h1 : isOpen t = false)
    (h2 : t.isOperator [61] = false) (h3 : t.isKw kwAsyncS = false) : InertHead (t :: Z) := by
  intro u hu
  simp only [List.head?_cons, Option.mem_def, Option.some.injEq] at hu
  subst hu; exact ⟨h1, h2, h3⟩

/-- a punctuation token that is not `(` is inert -/
theorem InertHead.symbol {t : Tok} {Z : List Tok} {s : Str} (h : t.isSymbol s = true)
    (hs : s ≠ [40]) : InertHead (t :: Z) := by
  obtain ⟨h1, h2⟩ := isSymbol_iff.1 h
  refine InertHead.cons ?_ ?_ ?_
  · simp [isOpen, Tok.isSymbol, h1, h2, hs]
  · simp [Tok.isOperator, h1]
  · simp [Tok.isKw, Tok.isKeyword, h1]

theorem opensParams_ctx {s Z : List Tok} (hZ : InertHead Z) (h : opensParams (s ++ Z) = true) :
    opensParams s = true := by
  match s with
  | [] =>
    cases Z with
    | nil => simp [opensParams] at h
    | cons z Z' =>
      obtain ⟨h1, _, h3⟩ := hZ z (by simp)
      simp [opensParams, h1, h3] at h
  | [o] =>
    have hz : (Z.head?.any isOpen) = false := by
      cases Z with
      | nil => rfl
      | cons z Z' => simpa using (hZ z (by simp)).1
    simpa [opensParams, hz] using h
  | o :: o' :: r => simpa [opensParams] using h

theorem assignOpen_ctx {s Z : List Tok} (hZ : InertHead Z) (h : assignOpen (s ++ Z) = true) :
    assignOpen s = true := by
  cases s with
  | nil =>
    cases Z with
    | nil => simp [assignOpen] at h
    | cons z Z' =>
      obtain ⟨_, h2, _⟩ := hZ z (by simp)
      simp [assignOpen, h2] at h
  | cons e r =>
    simp only [List.cons_append, assignOpen, Bool.and_eq_true] at h ⊢
    exact ⟨h.1, opensParams_ctx hZ h.2⟩

theorem noAssignOpen_ctx {Z : List Tok} (hZ : InertHead Z) : ∀ (l : List Tok),
    noAssignOpen l = true → ∀ (j : Nat) (t : Tok), l[j]? = some t → t.isName = true →
      assignOpen ((l ++ Z).drop (j + 1)) = false
  | [], _, j, t, h, _ => by simp at h
  | x :: xs, hl, 0, t, h, hn => by
    simp only [List.getElem?_cons_zero, Option.some.injEq] at h
    subst h
    simp only [noAssignOpen, hn, Bool.true_and, Bool.and_eq_true, Bool.not_eq_true'] at hl
    cases hh : assignOpen ((x :: xs ++ Z).drop (0 + 1))
    · rfl
    · have := assignOpen_ctx hZ (by simpa using hh)
      rw [hl.1] at this; cases this
  | x :: xs, hl, j + 1, t, h, hn => by
    simp only [noAssignOpen, Bool.and_eq_true] at hl
    have := noAssignOpen_ctx hZ xs hl.2 j t (by simpa using h) hn
    simpa using this

/-! ## the parts of a canonical arrow header -/

theorem paramGroups_cases {l : List Tok} (h : paramGroups l = true) :
    ∃ o gs, l = o :: gs ∧ isOpen o = true ∧ groupsOnly gs 1 = true := by
  cases l with
  | nil => simp [paramGroups] at h
  | cons o gs =>
    cases ho : isOpen o
    · simp [paramGroups, groupsOnly, ho] at h
    · refine ⟨o, gs, rfl, ho, ?_⟩
      simpa [paramGroups, groupsOnly, ho] using h

theorem arrowTail_cases {r : List Tok} (h : arrowTail r = true) :
    ∃ e as o gs, r = e :: (as ++ o :: gs) ∧ e.isOperator [61] = true ∧
      (as = [] ∨ ∃ a, as = [a] ∧ a.isKw kwAsyncS = true) ∧ isOpen o = true ∧
      groupsOnly gs 1 = true := by
  cases r with
  | nil => simp [arrowTail] at h
  | cons e r' =>
    simp only [arrowTail, Bool.and_eq_true, Bool.or_eq_true] at h
    obtain ⟨he, h1 | h2⟩ := h
    · obtain ⟨o, gs, rfl, ho, hg⟩ := paramGroups_cases h1
      exact ⟨e, [], o, gs, rfl, he, .inl rfl, ho, hg⟩
    · cases r' with
      | nil => cases h2
      | cons a r'' =>
        simp only [Bool.and_eq_true] at h2
        obtain ⟨o, gs, rfl, ho, hg⟩ := paramGroups_cases h2.2
        exact ⟨e, [a], o, gs, rfl, he, .inr ⟨a, rfl, h2.1⟩, ho, hg⟩

theorem arrowHeaderOK_cases {h : List Tok} {k : Nat} (hh : arrowHeaderOK h k = true) :
    ∃ hp n e as o gs, h = hp ++ n :: e :: (as ++ o :: gs) ∧ hp.length = k ∧
      (hp = [] ∨ ∃ c, hp = [c] ∧ c.isKw kwConstS = true) ∧ n.isName = true ∧
      e.isOperator [61] = true ∧ (as = [] ∨ ∃ a, as = [a] ∧ a.isKw kwAsyncS = true) ∧
      isOpen o = true ∧ groupsOnly gs 1 = true ∧
      noAssignOpen (e :: (as ++ o :: gs)) = true := by
  simp only [arrowHeaderOK, arrowShape, Bool.and_eq_true, Bool.or_eq_true, beq_iff_eq] at hh
  obtain ⟨⟨rfl, h1⟩ | ⟨rfl, h1⟩, hno⟩ := hh
  · cases h with
    | nil => cases h1
    | cons n r =>
      simp only [Bool.and_eq_true] at h1
      obtain ⟨e, as, o, gs, rfl, he, has, ho, hg⟩ := arrowTail_cases h1.2
      exact ⟨[], n, e, as, o, gs, rfl, rfl, .inl rfl, h1.1, he, has, ho, hg, by simpa using hno⟩
  · match h, h1 with
    | c :: n :: r, h1 =>
      simp only [Bool.and_eq_true] at h1
      obtain ⟨e, as, o, gs, rfl, he, has, ho, hg⟩ := arrowTail_cases h1.2
      exact ⟨[c], n, e, as, o, gs, rfl, rfl, .inr ⟨c, rfl, h1.1.1⟩, h1.1.2, he, has, ho, hg,
        by simpa using hno⟩

/-! ## matches of the arrow pattern -/

theorem isKw_iff {t : Tok} {s : Str} : t.isKw s = true ↔ (t.isKeyword && t.val == s) = true := by
  rfl

/-- a match of the arrow pattern starts (after an optional `const`) at a Name token followed by
`= (` / `= async (`, and it is longer than `Name = (` -/
theorem assignOpen_of_arrowHeader {toks : List Tok} {p f : Nat} (h : ArrowHeader toks p f) :
    ∃ n, (n = p ∨ n = p + 1) ∧ NameAt toks n ∧ assignOpen (toks.drop (n + 1)) = true ∧
      n + 2 < f := by
  obtain ⟨n, g, hn, hname, ⟨e, he, heq⟩, hg, ho, hf⟩ := h
  refine ⟨n, by rcases hn with h | h; exact .inl h; exact .inr h.1, hname, ?_, ?_⟩
  · rw [drop_eq_cons he]
    obtain ⟨o, ho1, ho2⟩ := ho
    rcases hg with rfl | ⟨rfl, ⟨a, ha, hak⟩⟩
    · rw [show n + 1 + 1 = n + 2 from rfl, drop_eq_cons ho1]
      simp [assignOpen, opensParams, heq, ho2]
    · rw [show n + 1 + 1 = n + 2 from rfl, drop_eq_cons ha,
        show n + 2 + 1 = n + 3 from rfl, drop_eq_cons ho1]
      have hak' : a.isKw kwAsyncS = true := hak
      simp [assignOpen, opensParams, heq, ho2, hak']
  · have := groupsEnd_open ho
    rcases hg with rfl | ⟨rfl, _⟩ <;> omega

/-- a match of the arrow pattern that passes the follow-up test starts (after an optional `const`)
at a Name token followed by `= [async] ( … )+ => {` -/
theorem arrowStart_of_arrowHeader {toks : List Tok} {p f : Nat} (h : ArrowHeader toks p f)
    {a b : Tok} {r : List Tok} (hd : toks.drop f = a :: b :: r) (ha : a.isSymbol [61, 62] = true)
    (hb : b.isSymbol [123] = true) :
    ∃ n t, (n = p ∨ n = p + 1) ∧ p ≤ n ∧ n < f ∧ toks[n]? = some t ∧ t.isName = true ∧
      arrowStart (toks.drop (n + 1)) = true := by
  obtain ⟨n, g, hn, ⟨t, ht, htn⟩, ⟨e, he, heq⟩, hg, ho, hf⟩ := h
  have hge := groupsEnd_open ho
  refine ⟨n, t, by rcases hn with h | h; exact .inl h; exact .inr h.1,
    by rcases hn with h | h <;> omega, by rcases hg with rfl | ⟨rfl, _⟩ <;> omega, ht, htn, ?_⟩
  subst hf
  have hbody := arrowBodyAfterRun_of ho hd ha hb
  rw [drop_eq_cons he]
  rcases hg with rfl | ⟨rfl, ⟨u, hu, huk⟩⟩
  · simp [arrowStart, arrowAfterAssign, heq, hbody]
  · have hdu : toks.drop (n + 1 + 1) = u :: toks.drop (n + 3) := drop_eq_cons hu
    have huk' : u.isKw kwAsyncS = true := huk
    simp [arrowStart, arrowAfterAssign, heq, hdu, hbody, huk']

/-! ## a canonical arrow header in its context -/

theorem getElem?_ctx {pre l : List Tok} (j : Nat) : (pre ++ l)[pre.length + j]? = l[j]? := by
  rw [List.getElem?_append_right (by omega)]
  congr 1; omega

theorem drop_ctx {pre l : List Tok} (j : Nat) : (pre ++ l).drop (pre.length + j) = l.drop j := by
  rw [← List.drop_drop, List.drop_left' rfl]

/-- **A canonical arrow header followed by `=>` `{`, in any context**: it is a match of the arrow
pattern; its name is the first Name token of the match; no match that starts earlier finishes
inside it (unless `const` stands directly in front of a header that starts with its name), and no
match that starts later finishes before it. -/
theorem arrow_in_context {pre h post : List Tok} {k : Nat} {a b : Tok}
    (hh : arrowHeaderOK h k = true) (ha : a.isSymbol [61, 62] = true)
    (hpc : k = 0 → flagAfter (fun t => t.isKw kwConstS) false pre = false) :
    let toks := pre ++ (h ++ a :: b :: post)
    ArrowHeader toks pre.length (pre.length + h.length) ∧
    toks.drop (pre.length + h.length) = a :: b :: post ∧
    toks[pre.length + k]? = some (h.getD k default) ∧
    firstName (slice toks pre.length (pre.length + h.length)) = .ok (h.getD k default) ∧
    (∀ q f', q < pre.length → ArrowHeader toks q f' →
      ¬ (pre.length < f' ∧ f' ≤ pre.length + h.length)) ∧
    (∀ q f', pre.length < q → ArrowHeader toks q f' → ¬ f' < pre.length + h.length) := by
  obtain ⟨hp, n, e, as, o, gs, rfl, rfl, hhp, hn, he, has, ho, hg, hno⟩ := arrowHeaderOK_cases hh
  intro toks
  have hZ : NoOpenHead (a :: b :: post) :=
    NoOpenHead.cons (by simp [isOpen, Tok.isSymbol, (isSymbol_iff.1 ha).2])
  have hZi : InertHead (a :: b :: post) := InertHead.symbol ha (by decide)
  -- kinds
  have hnk : n.kind = 2 := by simpa [Tok.isName] using hn
  have hek : e.kind = 4 := by
    simp only [Tok.isOperator, Bool.and_eq_true, beq_iff_eq] at he; exact he.1
  have hkw_np : ∀ {t : Tok} {v : Str}, t.isKw v = true → t.noParen = true ∧ t.isName = false := by
    intro t v h
    have := (isKw_facts h).1
    simp [Tok.noParen, isOpen, isClose, Tok.isSymbol, Tok.isName, this]
  -- the prefix `[const] Name = [async]` has no parentheses
  have hPnp : ∀ t ∈ hp ++ n :: e :: as, t.noParen = true := by
    intro t ht
    simp only [List.mem_append, List.mem_cons] at ht
    rcases ht with ht | rfl | rfl | ht
    · rcases hhp with rfl | ⟨c, rfl, hc⟩
      · cases ht
      · rw [List.mem_singleton] at ht; subst ht; exact (hkw_np hc).1
    · simp [Tok.noParen, isOpen, isClose, Tok.isSymbol, hnk]
    · simp [Tok.noParen, isOpen, isClose, Tok.isSymbol, hek]
    · rcases has with rfl | ⟨a', rfl, ha'⟩
      · cases ht
      · rw [List.mem_singleton] at ht; subst ht; exact (hkw_np ha').1
  have hk1 : hp.length ≤ 1 := by
    rcases hhp with rfl | ⟨c, rfl, _⟩ <;> simp
  -- the token list, reassociated
  have htoks : toks = pre ++ (hp ++ (n :: e :: (as ++ (o :: (gs ++ a :: b :: post))))) := by
    simp [toks, List.append_assoc]
  have hlen : (hp ++ n :: e :: (as ++ o :: gs)).length = hp.length + 2 + as.length + 1 + gs.length := by
    simp only [List.length_append, List.length_cons]; omega
  -- indices
  have hget : ∀ j, toks[pre.length + (hp.length + j)]?
      = (n :: e :: (as ++ (o :: (gs ++ a :: b :: post))))[j]? := by
    intro j; rw [htoks, getElem?_ctx, getElem?_ctx]
  have hgetn : toks[pre.length + hp.length]? = some n := by simpa using hget 0
  have hgete : toks[pre.length + hp.length + 1]? = some e := by
    have := hget 1
    rw [← Nat.add_assoc] at this; simpa using this
  have hgeta : ∀ j, toks[pre.length + hp.length + 2 + j]? = (as ++ (o :: (gs ++ a :: b :: post)))[j]? := by
    intro j
    have := hget (2 + j)
    rw [show pre.length + (hp.length + (2 + j)) = pre.length + hp.length + 2 + j by omega] at this
    rw [this, show 2 + j = j + 1 + 1 by omega]
    rfl
  have hgeto : toks[pre.length + hp.length + 2 + as.length]? = some o := by
    rw [hgeta, List.getElem?_append_right (Nat.le_refl _)]; simp
  have hdropg : toks.drop (pre.length + hp.length + 2 + as.length) = o :: (gs ++ a :: b :: post) := by
    rw [htoks, show pre.length + hp.length + 2 + as.length = pre.length + (hp.length + (2 + as.length))
      by omega, drop_ctx, drop_ctx]
    rw [show 2 + as.length = as.length + 1 + 1 by omega]
    simp only [List.drop_succ_cons]
    rw [List.drop_left' rfl]
  have hgend : groupsEnd toks (pre.length + hp.length + 2 + as.length)
      = pre.length + (hp ++ n :: e :: (as ++ o :: gs)).length := by
    unfold groupsEnd
    rw [hdropg, groupsLen_open _ _ ho, groupsLen_groupsOnly _ hg, groupsLen_noOpenHead hZ, hlen]
    omega
  have hopen : OpenAt toks (pre.length + hp.length + 2 + as.length) := ⟨o, hgeto, ho⟩
  have hname : NameAt toks (pre.length + hp.length) := ⟨n, hgetn, hn⟩
  have hop : OperatorAt toks (pre.length + hp.length + 1) [61] := ⟨e, hgete, he⟩
  have hgcase : pre.length + hp.length + 2 + as.length = pre.length + hp.length + 2 ∨
      (pre.length + hp.length + 2 + as.length = pre.length + hp.length + 3 ∧
        KeywordAt toks (pre.length + hp.length + 2) [97, 115, 121, 110, 99]) := by
    rcases has with rfl | ⟨a', rfl, ha'⟩
    · exact .inl rfl
    · refine .inr ⟨rfl, a', ?_, ha'⟩
      have := hgeta 0
      simp at this
      exact this
  -- the header that starts at the Name token
  have harrN : ArrowHeader toks (pre.length + hp.length)
      (pre.length + (hp ++ n :: e :: (as ++ o :: gs)).length) :=
    ⟨pre.length + hp.length, pre.length + hp.length + 2 + as.length, .inl rfl, hname, hop, hgcase,
      hopen, hgend.symm⟩
  -- the header from its first token
  have hget0 : hp = [] ∨ ∃ c, hp = [c] ∧ c.isKw kwConstS = true ∧ toks[pre.length]? = some c := by
    rcases hhp with rfl | ⟨c, rfl, hc⟩
    · exact .inl rfl
    · refine .inr ⟨c, rfl, hc, ?_⟩
      rw [htoks]
      simp
  have harr : ArrowHeader toks pre.length (pre.length + (hp ++ n :: e :: (as ++ o :: gs)).length) := by
    rcases hget0 with rfl | ⟨c, rfl, hc, hgc⟩
    · simpa using harrN
    · exact ⟨pre.length + 1, pre.length + 1 + 2 + as.length, .inr ⟨rfl, c, hgc, hc⟩, hname, hop,
        hgcase, hopen, hgend.symm⟩
  have hdropf : toks.drop (pre.length + (hp ++ n :: e :: (as ++ o :: gs)).length) = a :: b :: post := by
    show (pre ++ _).drop _ = _
    rw [drop_ctx, List.drop_left' rfl]
  have hflt : pre.length + (hp ++ n :: e :: (as ++ o :: gs)).length < toks.length := by
    simp only [toks, List.length_append, List.length_cons]; omega
  have hgetD : (hp ++ n :: e :: (as ++ o :: gs)).getD hp.length default = n := by
    rw [List.getD_eq_getElem?_getD, List.getElem?_append_right (Nat.le_refl _)]; simp
  refine ⟨harr, hdropf, by rw [hgetD]; exact hgetn, ?_, ?_, ?_⟩
  · -- the first Name token
    have hsl : slice toks pre.length (pre.length + (hp ++ n :: e :: (as ++ o :: gs)).length)
        = hp ++ n :: e :: (as ++ o :: gs) := by
      unfold slice
      show ((pre ++ _).drop _).take _ = _
      rw [List.drop_left' rfl, Nat.add_sub_cancel_left, List.take_left' rfl]
    rw [hsl, hgetD]
    rcases hhp with rfl | ⟨c, rfl, hc⟩
    · simp [firstName, hn]
    · simp [firstName, hn, (hkw_np hc).2]
  · -- no earlier match finishes inside
    intro q f' hq harr' ⟨h1, h2⟩
    obtain ⟨n', g', hn', hname', hop', hg', hopen', hf'⟩ := harr'
    by_cases hgs : g' < pre.length
    · have := no_finish_inside (toks := toks) (g := pre.length + hp.length + 2 + as.length) hgs
        (by rw [← hf']; exact h1) (by omega)
        (by
          intro j hj1 hj2
          obtain ⟨j', rfl⟩ : ∃ j', j = pre.length + j' := ⟨j - pre.length, by omega⟩
          have hjl : j' < (hp ++ n :: e :: as).length := by
            simp only [List.length_append, List.length_cons]; omega
          have hgj : toks[pre.length + j']? = some ((hp ++ n :: e :: as)[j']) := by
            have : toks = pre ++ ((hp ++ n :: e :: as) ++ (o :: (gs ++ a :: b :: post))) := by
              simp [toks, List.append_assoc]
            rw [this, getElem?_ctx, List.getElem?_append_left hjl]
            simp
          have hnp := hPnp _ (List.getElem_mem hjl)
          exact ⟨_, hgj, (noParen_iff.1 hnp).1, (noParen_iff.1 hnp).2⟩)
        (by rw [hgend]; exact hflt)
      rw [hgend, ← hf'] at this
      omega
    · -- `pre.length` is one of the positions of `[const] Name = [async] (` of the earlier match
      have hpos : pre.length = n' ∨ pre.length = n' + 1 ∨ pre.length = n' + 2 ∨
          pre.length = n' + 3 := by
        rcases hn' with rfl | ⟨rfl, _⟩ <;> rcases hg' with rfl | ⟨rfl, _⟩ <;> omega
      -- the first token of the header
      obtain ⟨t0, ht0, ht0k⟩ : ∃ t0, toks[pre.length]? = some t0 ∧
          ((t0.isName = true ∧ hp = []) ∨ t0.isKw kwConstS = true) := by
        rcases hget0 with rfl | ⟨c, rfl, hc, hgc⟩
        · exact ⟨n, by simpa using hgetn, .inl ⟨hn, rfl⟩⟩
        · exact ⟨c, hgc, .inr hc⟩
      have ht0np : isOpen t0 = false := by
        rcases ht0k with ⟨h, _⟩ | h
        · exact isName_not_isOpen h
        · exact (noParen_iff.1 (hkw_np h).1).1
      rcases hpos with hs | hs | hs | hs
      · -- the Name of the earlier match: `const` stands in front of a header that starts with its name
        have hq1 : n' = q + 1 ∧ KeywordAt toks q [99, 111, 110, 115, 116] := by
          rcases hn' with rfl | ⟨rfl, hk⟩
          · omega
          · exact ⟨rfl, hk⟩
        obtain ⟨tn, htn, htnn⟩ := hname'
        rw [← hs, ht0] at htn; cases htn
        rcases ht0k with ⟨_, rfl⟩ | h
        · have hfl := hpc rfl
          have hne : pre ≠ [] := by intro h0; rw [h0] at hq; simp at hq
          obtain ⟨x, u, rfl, hbu⟩ := flagAfter_false_last hfl hne
          obtain ⟨c, hc1, hc2⟩ := hq1.2
          have : toks[q]? = some u := by
            have hq' : q = x.length := by
              simp only [List.length_append, List.length_cons, List.length_nil] at hs; omega
            rw [hq']
            simp [toks, List.append_assoc]
          rw [this] at hc1; cases hc1
          have : u.isKw kwConstS = true := hc2
          rw [this] at hbu; cases hbu
        · rw [(hkw_np h).2] at htnn; cases htnn
      · obtain ⟨te, hte, hteq⟩ := hop'
        rw [← hs, ht0] at hte; cases hte
        have hk4 : t0.kind = 4 := by
          simp only [Tok.isOperator, Bool.and_eq_true, beq_iff_eq] at hteq; exact hteq.1
        rcases ht0k with ⟨h, _⟩ | h
        · simp [Tok.isName, hk4] at h
        · have := (isKw_facts h).1; omega
      · rcases hg' with rfl | ⟨rfl, ⟨ta, hta, htak⟩⟩
        · obtain ⟨tq, hto, htoo⟩ := hopen'
          rw [← hs, ht0] at hto; cases hto
          rw [ht0np] at htoo; cases htoo
        · rw [← hs, ht0] at hta; cases hta
          have htak' : t0.isKw kwAsyncS = true := htak
          obtain ⟨hk1', hv⟩ := isKw_facts htak'
          rcases ht0k with ⟨h, _⟩ | h
          · simp [Tok.isName, hk1'] at h
          · have := (isKw_facts h).2
            rw [hv] at this
            revert this; decide
      · have hg3 : g' = n' + 3 := by
          rcases hg' with rfl | ⟨rfl, _⟩ <;> omega
        obtain ⟨tq, hto, htoo⟩ := hopen'
        rw [hg3, ← hs, ht0] at hto; cases hto
        rw [ht0np] at htoo; cases htoo
  · -- no later match finishes before
    intro q f' hq harr' hlt
    obtain ⟨n', hn', ⟨tn, htn, htnn⟩, hao, hnf⟩ := assignOpen_of_arrowHeader harr'
    have hn's : pre.length < n' := by rcases hn' with rfl | rfl <;> omega
    obtain ⟨j, rfl⟩ : ∃ j, n' = pre.length + j := ⟨n' - pre.length, by omega⟩
    by_cases hjk : j ≤ hp.length
    · -- the Name token of the header itself
      have hj : j = hp.length := by omega
      have hqn : q = pre.length + hp.length := by rcases hn' with h | h <;> omega
      rw [hqn] at harr'
      have := arrowHeader_finish_unique harr' harrN
      omega
    · obtain ⟨j', rfl⟩ : ∃ j', j = hp.length + 1 + j' := ⟨j - hp.length - 1, by omega⟩
      have htoks' : toks = pre ++ (hp ++ (n :: ((e :: (as ++ o :: gs)) ++ (a :: b :: post)))) := by
        simp [toks, List.append_assoc]
      have hgj : toks[pre.length + (hp.length + 1 + j')]?
          = ((e :: (as ++ o :: gs)) ++ (a :: b :: post))[j']? := by
        rw [htoks', getElem?_ctx, show hp.length + 1 + j' = hp.length + (j' + 1) by omega,
          getElem?_ctx]
        rfl
      have hjl : j' < (e :: (as ++ o :: gs)).length := by
        have : (e :: (as ++ o :: gs)).length = 2 + as.length + gs.length := by
          simp only [List.length_append, List.length_cons]; omega
        omega
      rw [hgj, List.getElem?_append_left hjl] at htn
      have hdr : toks.drop (pre.length + (hp.length + 1 + j') + 1)
          = ((e :: (as ++ o :: gs)) ++ (a :: b :: post)).drop (j' + 1) := by
        rw [htoks', show pre.length + (hp.length + 1 + j') + 1 = pre.length + (hp.length + (j' + 1 + 1))
          by omega, drop_ctx, drop_ctx]
        rfl
      rw [hdr, noAssignOpen_ctx hZi _ hno j' tn htn htnn] at hao
      cases hao

/-! ## through `get_headers` -/

end CL
