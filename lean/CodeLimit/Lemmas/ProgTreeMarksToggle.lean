import CodeLimit.Lemmas.ProgTreeMarksBasic
/-!
# Dissolving independent functions (C17 on trees)

* `dissolve_dissolve`, `dissolve_congr` - dissolving is compositional and depends on the SET of
  lines only;
* `toggle_named` (functions not nested in another one, languages with nested functions),
  `toggle_flat_named` (outermost functions that contain none, languages without) - dissolving
  the functions named on a line removes exactly their entries from the tree report.
-/
namespace CL.Marks

theorem treeReportNamed_snd : ∀ (p : Prog Tok), (treeReportNamed p).map (·.2) = treeReport p
  | .nil => rfl
  | .leaf _ rest => treeReportNamed_snd rest
  | .group _ _ items rest => by
    simp only [treeReportNamed, treeReport, List.map_append, treeReportNamed_snd items,
      treeReportNamed_snd rest]
  | .fn hdr k gap op cl body rest => by
    simp only [treeReportNamed, treeReport, List.map_cons, List.map_append,
      treeReportNamed_snd body, treeReportNamed_snd rest]

theorem treeReportFlatNamed_snd : ∀ (p : Prog Tok),
    (treeReportFlatNamed p).map (·.2) = treeReportFlat p
  | .nil => rfl
  | .leaf _ rest => treeReportFlatNamed_snd rest
  | .group _ _ items rest => by
    simp only [treeReportFlatNamed, treeReportFlat, List.map_append, treeReportFlatNamed_snd items,
      treeReportFlatNamed_snd rest]
  | .fn hdr k gap op cl body rest => by
    simp only [treeReportFlatNamed, treeReportFlat, List.map_cons, treeReportFlatNamed_snd rest]

theorem treeReportNamed_fst : ∀ (p : Prog Tok), (treeReportNamed p).map (·.1) = p.nameToks
  | .nil => rfl
  | .leaf _ rest => treeReportNamed_fst rest
  | .group _ _ items rest => by
    simp only [treeReportNamed, Prog.nameToks, List.map_append, treeReportNamed_fst items,
      treeReportNamed_fst rest]
  | .fn hdr k gap op cl body rest => by
    simp only [treeReportNamed, Prog.nameToks, List.map_cons, List.map_append,
      treeReportNamed_fst body, treeReportNamed_fst rest]

theorem treeReportNamed_noFn : ∀ (p : Prog Tok), p.noFn = true → treeReportNamed p = []
  | .nil, _ => rfl
  | .leaf _ rest, h => treeReportNamed_noFn rest h
  | .group _ _ items rest, h => by
    simp only [Prog.noFn, Bool.and_eq_true] at h
    simp only [treeReportNamed, treeReportNamed_noFn items h.1, treeReportNamed_noFn rest h.2,
      List.append_nil]
  | .fn .., h => by cases h

theorem treeReportFlatNamed_noFn : ∀ (p : Prog Tok), p.noFn = true → treeReportFlatNamed p = []
  | .nil, _ => rfl
  | .leaf _ rest, h => treeReportFlatNamed_noFn rest h
  | .group _ _ items rest, h => by
    simp only [Prog.noFn, Bool.and_eq_true] at h
    simp only [treeReportFlatNamed, treeReportFlatNamed_noFn items h.1,
      treeReportFlatNamed_noFn rest h.2, List.append_nil]
  | .fn .., h => by cases h

theorem treeReportNamed_append_noFn : ∀ (a b : Prog Tok), a.noFn = true →
    treeReportNamed (a.followedBy b) = treeReportNamed b
  | .nil, _, _ => rfl
  | .leaf _ rest, b, h => treeReportNamed_append_noFn rest b h
  | .group _ _ items rest, b, h => by
    simp only [Prog.noFn, Bool.and_eq_true] at h
    simp only [Prog.followedBy, treeReportNamed, treeReportNamed_noFn items h.1, List.nil_append,
      treeReportNamed_append_noFn rest b h.2]
  | .fn .., _, h => by cases h

theorem treeReportFlatNamed_append_noFn : ∀ (a b : Prog Tok), a.noFn = true →
    treeReportFlatNamed (a.followedBy b) = treeReportFlatNamed b
  | .nil, _, _ => rfl
  | .leaf _ rest, b, h => treeReportFlatNamed_append_noFn rest b h
  | .group _ _ items rest, b, h => by
    simp only [Prog.noFn, Bool.and_eq_true] at h
    simp only [Prog.followedBy, treeReportFlatNamed, treeReportFlatNamed_noFn items h.1,
      List.nil_append, treeReportFlatNamed_append_noFn rest b h.2]
  | .fn .., _, h => by cases h

theorem treeReportNamed_toks : ∀ (g : List Tok) (r : Prog Tok),
    treeReportNamed (Prog.toks g r) = treeReportNamed r
  | [], _ => rfl
  | _ :: g, r => treeReportNamed_toks g r

theorem treeReportFlatNamed_toks : ∀ (g : List Tok) (r : Prog Tok),
    treeReportFlatNamed (Prog.toks g r) = treeReportFlatNamed r
  | [], _ => rfl
  | _ :: g, r => treeReportFlatNamed_toks g r

/-! ## `dissolve` where nothing is to be dissolved -/

theorem dissolve_noFn (ls : List Nat) : ∀ (p : Prog Tok), p.noFn = true → p.dissolve ls = p
  | .nil, _ => rfl
  | .leaf _ rest, h => by simp only [Prog.dissolve, dissolve_noFn ls rest h]
  | .group _ _ items rest, h => by
    simp only [Prog.noFn, Bool.and_eq_true] at h
    simp only [Prog.dissolve, dissolve_noFn ls items h.1, dissolve_noFn ls rest h.2]
  | .fn .., h => by cases h

theorem dissolve_of_not_named (ls : List Nat) : ∀ (p : Prog Tok),
    (∀ t ∈ p.nameToks, ls.contains t.line = false) → p.dissolve ls = p
  | .nil, _ => rfl
  | .leaf _ rest, h => by simp only [Prog.dissolve, dissolve_of_not_named ls rest h]
  | .group _ _ items rest, h => by
    simp only [Prog.nameToks, List.mem_append] at h
    simp only [Prog.dissolve, dissolve_of_not_named ls items (fun t ht => h t (.inl ht)),
      dissolve_of_not_named ls rest (fun t ht => h t (.inr ht))]
  | .fn hdr k gap op cl body rest, h => by
    simp only [Prog.nameToks, List.mem_cons, List.mem_append] at h
    simp only [Prog.dissolve, h _ (.inl rfl), Bool.false_eq_true, if_false,
      dissolve_of_not_named ls body (fun t ht => h t (.inr (.inl ht))),
      dissolve_of_not_named ls rest (fun t ht => h t (.inr (.inr ht)))]

/-- dissolving depends on the set of lines only -/
theorem dissolve_congr {ls ls' : List Nat} (h : ∀ x, ls.contains x = ls'.contains x) :
    ∀ (p : Prog Tok), p.dissolve ls = p.dissolve ls'
  | .nil => rfl
  | .leaf _ rest => by simp only [Prog.dissolve, dissolve_congr h rest]
  | .group _ _ items rest => by
    simp only [Prog.dissolve, dissolve_congr h items, dissolve_congr h rest]
  | .fn hdr k gap op cl body rest => by
    simp only [Prog.dissolve, h, dissolve_congr h body, dissolve_congr h rest]

/-- ... and only on which NAME lines of the forest belong to the set -/
theorem dissolve_congr_names {ls ls' : List Nat} : ∀ (p : Prog Tok),
    (∀ t ∈ p.nameToks, ls.contains t.line = ls'.contains t.line) → p.dissolve ls = p.dissolve ls'
  | .nil, _ => rfl
  | .leaf _ rest, h => by simp only [Prog.dissolve, dissolve_congr_names rest h]
  | .group _ _ items rest, h => by
    simp only [Prog.nameToks, List.mem_append] at h
    simp only [Prog.dissolve, dissolve_congr_names items (fun t ht => h t (.inl ht)),
      dissolve_congr_names rest (fun t ht => h t (.inr ht))]
  | .fn hdr k gap op cl body rest, h => by
    simp only [Prog.nameToks, List.mem_cons, List.mem_append] at h
    simp only [Prog.dissolve, h _ (.inl rfl),
      dissolve_congr_names body (fun t ht => h t (.inr (.inl ht))),
      dissolve_congr_names rest (fun t ht => h t (.inr (.inr ht)))]

theorem dissolve_append_noFn (ls : List Nat) : ∀ (a b : Prog Tok), a.noFn = true →
    (a.followedBy b).dissolve ls = a.followedBy (b.dissolve ls)
  | .nil, _, _ => rfl
  | .leaf _ rest, b, h => by simp only [Prog.followedBy, Prog.dissolve, dissolve_append_noFn ls rest b h]
  | .group _ _ items rest, b, h => by
    simp only [Prog.noFn, Bool.and_eq_true] at h
    simp only [Prog.followedBy, Prog.dissolve, dissolve_noFn ls items h.1,
      dissolve_append_noFn ls rest b h.2]
  | .fn .., _, h => by cases h

theorem dissolve_toks (ls : List Nat) : ∀ (g : List Tok) (r : Prog Tok),
    (Prog.toks g r).dissolve ls = Prog.toks g (r.dissolve ls)
  | [], _ => rfl
  | t :: g, r => by simp only [Prog.toks_cons, Prog.dissolve, dissolve_toks ls g r]

/-- **dissolving twice is dissolving once** with both sets of lines -/
theorem dissolve_dissolve (ls1 ls2 : List Nat) : ∀ (p : Prog Tok), p.wfCore = true →
    (p.dissolve ls2).dissolve ls1 = p.dissolve (ls1 ++ ls2)
  | .nil, _ => rfl
  | .leaf _ rest, h => by
    simp only [Prog.wfCore, Bool.and_eq_true] at h
    simp only [Prog.dissolve, dissolve_dissolve ls1 ls2 rest h.2]
  | .group _ _ items rest, h => by
    simp only [Prog.wfCore, Bool.and_eq_true] at h
    simp only [Prog.dissolve, dissolve_dissolve ls1 ls2 items h.1.2,
      dissolve_dissolve ls1 ls2 rest h.2]
  | .fn hdr k gap op cl body rest, h => by
    simp only [Prog.wfCore, Bool.and_eq_true, decide_eq_true_eq] at h
    obtain ⟨⟨⟨⟨⟨⟨⟨⟨⟨hsl, hnf⟩, hwh⟩, hk⟩, hnm⟩, hgap⟩, hop⟩, hcl⟩, hwb⟩, hwr⟩ := h
    have ihb := dissolve_dissolve ls1 ls2 body hwb
    have ihr := dissolve_dissolve ls1 ls2 rest hwr
    simp only [Prog.dissolve, List.contains_append]
    by_cases h2 : ls2.contains (hdr.flat.getD k default).line = true
    · simp only [h2, Bool.or_true, if_true, dissolve_append_noFn ls1 _ _ hnf, dissolve_toks,
        Prog.dissolve, ihb, ihr]
    · by_cases h1 : ls1.contains (hdr.flat.getD k default).line = true
      · simp only [h2, h1, Bool.or_false, Bool.false_eq_true, if_false, if_true, Prog.dissolve,
          ihb, ihr]
      · simp only [h2, h1, Bool.or_false, Bool.false_eq_true, if_false, Prog.dissolve, ihb, ihr]

/-! ## the name tokens of the remaining functions -/

theorem nameToks_noFn : ∀ (p : Prog Tok), p.noFn = true → p.nameToks = []
  | .nil, _ => rfl
  | .leaf _ rest, h => nameToks_noFn rest h
  | .group _ _ items rest, h => by
    simp only [Prog.noFn, Bool.and_eq_true] at h
    simp only [Prog.nameToks, nameToks_noFn items h.1, nameToks_noFn rest h.2, List.append_nil]
  | .fn .., h => by cases h

theorem nameToks_append_noFn : ∀ (a b : Prog Tok), a.noFn = true →
    (a.followedBy b).nameToks = b.nameToks
  | .nil, _, _ => rfl
  | .leaf _ rest, b, h => nameToks_append_noFn rest b h
  | .group _ _ items rest, b, h => by
    simp only [Prog.noFn, Bool.and_eq_true] at h
    simp only [Prog.followedBy, Prog.nameToks, nameToks_noFn items h.1, List.nil_append,
      nameToks_append_noFn rest b h.2]
  | .fn .., _, h => by cases h

theorem nameToks_toks : ∀ (g : List Tok) (r : Prog Tok), (Prog.toks g r).nameToks = r.nameToks
  | [], _ => rfl
  | _ :: g, r => nameToks_toks g r

/-- **exactly the functions named on the given lines disappear**: the name tokens of the function
nodes of the dissolved forest are those of the forest that stand on other lines -/
theorem nameToks_dissolve (ls : List Nat) : ∀ (p : Prog Tok), p.wfCore = true →
    (p.dissolve ls).nameToks = p.nameToks.filter (fun t => !ls.contains t.line)
  | .nil, _ => rfl
  | .leaf _ rest, h => by
    simp only [Prog.wfCore, Bool.and_eq_true] at h
    exact nameToks_dissolve ls rest h.2
  | .group _ _ items rest, h => by
    simp only [Prog.wfCore, Bool.and_eq_true] at h
    simp only [Prog.dissolve, Prog.nameToks, List.filter_append,
      nameToks_dissolve ls items h.1.2, nameToks_dissolve ls rest h.2]
  | .fn hdr k gap op cl body rest, h => by
    simp only [Prog.wfCore, Bool.and_eq_true, decide_eq_true_eq] at h
    obtain ⟨⟨⟨⟨⟨⟨⟨⟨⟨hsl, hnf⟩, hwh⟩, hk⟩, hnm⟩, hgap⟩, hop⟩, hcl⟩, hwb⟩, hwr⟩ := h
    have ihb := nameToks_dissolve ls body hwb
    have ihr := nameToks_dissolve ls rest hwr
    simp only [Prog.dissolve]
    by_cases hm : ls.contains (hdr.flat.getD k default).line = true
    · rw [if_pos hm, nameToks_append_noFn _ _ hnf, nameToks_toks]
      simp only [Prog.nameToks, List.filter_cons, hm, Bool.not_true, Bool.false_eq_true, if_false,
        List.filter_append, ihb, ihr]
    · rw [if_neg hm]
      simp only [Prog.nameToks, List.filter_cons, hm, Bool.not_false, if_true,
        List.filter_append, ihb, ihr]

/-! ## independent functions -/

theorem contains_singleton_of_eq {x l : Nat} (h : x = l) : [l].contains x = true := by
  subst h; simp

theorem contains_singleton_of_ne {x l : Nat} (h : ¬ x = l) : [l].contains x = false := by
  simp [h]

theorem filter_ne_of_not_named {l : Nat} {p : Prog Tok}
    (h : p.nameToks.any (fun t => t.line == l) = false) :
    (treeReportNamed p).filter (fun x => decide (x.1.line ≠ l)) = treeReportNamed p := by
  rw [List.filter_eq_self]
  intro x hx
  have hx1 : x.1 ∈ p.nameToks := by
    rw [← treeReportNamed_fst]; exact List.mem_map_of_mem hx
  have := List.any_eq_false.mp h x.1 hx1
  simpa using this

/-- independence implies both halves -/
theorem notNestedOn_of_indepOn (l : Nat) : ∀ (p : Prog Tok), p.indepOn l = true →
    p.notNestedOn l = true
  | .nil, _ => rfl
  | .leaf _ rest, h => notNestedOn_of_indepOn l rest h
  | .group _ _ items rest, h => by
    simp only [Prog.indepOn, Bool.and_eq_true] at h
    simp only [Prog.notNestedOn, Bool.and_eq_true]
    exact ⟨notNestedOn_of_indepOn l items h.1, notNestedOn_of_indepOn l rest h.2⟩
  | .fn hdr k gap op cl body rest, h => by
    simp only [Prog.indepOn, Bool.and_eq_true] at h
    simp only [Prog.notNestedOn, Bool.and_eq_true]
    refine ⟨?_, notNestedOn_of_indepOn l rest h.2⟩
    have h1 := h.1
    split at h1
    · rw [nameToks_noFn body h1]; rfl
    · exact h1

theorem outerLeafOn_of_indepOn (l : Nat) : ∀ (p : Prog Tok), p.indepOn l = true →
    p.outerLeafOn l = true
  | .nil, _ => rfl
  | .leaf _ rest, h => outerLeafOn_of_indepOn l rest h
  | .group _ _ items rest, h => by
    simp only [Prog.indepOn, Bool.and_eq_true] at h
    simp only [Prog.outerLeafOn, Bool.and_eq_true]
    exact ⟨outerLeafOn_of_indepOn l items h.1, outerLeafOn_of_indepOn l rest h.2⟩
  | .fn hdr k gap op cl body rest, h => by
    simp only [Prog.indepOn, Bool.and_eq_true] at h
    simp only [Prog.outerLeafOn, Bool.and_eq_true]
    refine ⟨?_, outerLeafOn_of_indepOn l rest h.2⟩
    have h1 := h.1
    split at h1
    · rename_i hl; rw [if_pos hl]; exact h1
    · rename_i hl; rw [if_neg hl]

/-- **dissolving functions that are not nested, languages with nested functions**: if no function
named on line `l` is inside another function node, dissolving the functions named on line `l`
removes exactly their entries from the tree report; every other entry (name, span, length) is
unchanged and stays in place -/
theorem toggle_named (l : Nat) : ∀ (p : Prog Tok), p.wfCore = true → p.notNestedOn l = true →
    treeReportNamed (p.dissolve [l])
      = (treeReportNamed p).filter (fun x => decide (x.1.line ≠ l))
  | .nil, _, _ => rfl
  | .leaf _ rest, h, hi => by
    simp only [Prog.wfCore, Bool.and_eq_true] at h
    exact toggle_named l rest h.2 hi
  | .group _ _ items rest, h, hi => by
    simp only [Prog.wfCore, Bool.and_eq_true] at h
    simp only [Prog.notNestedOn, Bool.and_eq_true] at hi
    simp only [Prog.dissolve, treeReportNamed, List.filter_append,
      toggle_named l items h.1.2 hi.1, toggle_named l rest h.2 hi.2]
  | .fn hdr k gap op cl body rest, h, hi => by
    simp only [Prog.wfCore, Bool.and_eq_true, decide_eq_true_eq] at h
    obtain ⟨⟨⟨⟨⟨⟨⟨⟨⟨hsl, hnf⟩, hwh⟩, hk⟩, hnm⟩, hgap⟩, hop⟩, hcl⟩, hwb⟩, hwr⟩ := h
    simp only [Prog.notNestedOn, Bool.and_eq_true] at hi
    have ihr := toggle_named l rest hwr hi.2
    have hb : body.nameToks.any (fun t => t.line == l) = false := by
      have := hi.1
      cases hq : body.nameToks.any (fun t => t.line == l) with
      | false => rfl
      | true => rw [hq] at this; cases this
    have hd : body.dissolve [l] = body := by
      apply dissolve_of_not_named
      intro t ht
      have := List.any_eq_false.mp hb t ht
      simpa using this
    by_cases hl : (hdr.flat.getD k default).line = l
    · have hc := contains_singleton_of_eq hl
      have hdec : decide ((hdr.flat.getD k default).line ≠ l) = false := by rw [hl]; simp
      simp only [Prog.dissolve]
      rw [if_pos hc, treeReportNamed_append_noFn _ _ hnf, treeReportNamed_toks]
      simp only [treeReportNamed, hd, ihr, List.filter_cons, hdec, Bool.false_eq_true, if_false,
        List.filter_append, filter_ne_of_not_named hb]
    · have hc := contains_singleton_of_ne hl
      simp only [Prog.dissolve, hc, Bool.false_eq_true, if_false, treeReportNamed, hd, ihr,
        List.filter_cons, ne_eq, hl, not_false_eq_true, decide_true, if_true, List.filter_append,
        filter_ne_of_not_named hb]

/-- **dissolving functions that contain none, languages without nested functions**: if every
outermost function node named on line `l` contains no function node, dissolving the functions
named on line `l` removes exactly their entries from the flat tree report -/
theorem toggle_flat_named (l : Nat) : ∀ (p : Prog Tok), p.wfCore = true →
    p.outerLeafOn l = true →
    treeReportFlatNamed (p.dissolve [l])
      = (treeReportFlatNamed p).filter (fun x => decide (x.1.line ≠ l))
  | .nil, _, _ => rfl
  | .leaf _ rest, h, hi => by
    simp only [Prog.wfCore, Bool.and_eq_true] at h
    exact toggle_flat_named l rest h.2 hi
  | .group _ _ items rest, h, hi => by
    simp only [Prog.wfCore, Bool.and_eq_true] at h
    simp only [Prog.outerLeafOn, Bool.and_eq_true] at hi
    simp only [Prog.dissolve, treeReportFlatNamed, List.filter_append,
      toggle_flat_named l items h.1.2 hi.1, toggle_flat_named l rest h.2 hi.2]
  | .fn hdr k gap op cl body rest, h, hi => by
    simp only [Prog.wfCore, Bool.and_eq_true, decide_eq_true_eq] at h
    obtain ⟨⟨⟨⟨⟨⟨⟨⟨⟨hsl, hnf⟩, hwh⟩, hk⟩, hnm⟩, hgap⟩, hop⟩, hcl⟩, hwb⟩, hwr⟩ := h
    simp only [Prog.outerLeafOn, Bool.and_eq_true] at hi
    have ihr := toggle_flat_named l rest hwr hi.2
    by_cases hl : (hdr.flat.getD k default).line = l
    · have hb : body.noFn = true := by have := hi.1; rwa [if_pos hl] at this
      have hc := contains_singleton_of_eq hl
      have hd : decide ((hdr.flat.getD k default).line ≠ l) = false := by rw [hl]; simp
      simp only [Prog.dissolve]
      rw [if_pos hc, treeReportFlatNamed_append_noFn _ _ hnf, treeReportFlatNamed_toks]
      simp only [treeReportFlatNamed, dissolve_noFn _ _ hb, treeReportFlatNamed_noFn _ hb,
        List.nil_append, ihr, List.filter_cons, hd, Bool.false_eq_true, if_false]
    · have hc := contains_singleton_of_ne hl
      simp only [Prog.dissolve, hc, Bool.false_eq_true, if_false, treeReportFlatNamed, ihr,
        List.filter_cons, ne_eq, hl, not_false_eq_true, decide_true, if_true, allToks,
        flat_dissolve]

end CL.Marks
