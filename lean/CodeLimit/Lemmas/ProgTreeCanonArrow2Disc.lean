import CodeLimit.Lemmas.ProgTreeCanonArrow2Tree
/-!
# Canonical forests with arrow nodes: discovery for JavaScript and TypeScript

For a language with the patterns `[function / method pattern, arrow pattern]` and a forest `p` of
the fragment (`p.plain` satisfies the clauses of the function / method pattern, `p` the
arrow-specific clauses `arrowsOK`):

* `plain_fun_headers` - `get_headers` with the function / method pattern returns exactly the headers
  of the function / method nodes, in source order;
* `arrow_headers` - `get_headers` with the arrow pattern returns exactly the headers of the arrow
  nodes, in source order;
* `two_pattern_headers`, `two_pattern_perm` - `extract_headers` returns the first list followed by
  the second, a permutation of the headers of all function nodes;
* `js_arrow_headers`, `ts_arrow_headers` - the two instances.
-/
namespace CL
open CL.Syn CL.C01syn CL.Compose CL.C01disc

/-- in a list of pairwise disjoint ranges, two members that contain the same index are equal -/
theorem eq_of_overlap {l : List Header} (hpw : l.Pairwise (fun a b => a.rng.e ≤ b.rng.s))
    {a b : Header} (ha : a ∈ l) (hb : b ∈ l) {n : Nat} (ha1 : a.rng.s ≤ n) (ha2 : n < a.rng.e)
    (hb1 : b.rng.s ≤ n) (hb2 : n < b.rng.e) : a = b := by
  induction l with
  | nil => cases ha
  | cons x xs ih =>
    rw [List.pairwise_cons] at hpw
    rcases List.mem_cons.1 ha with rfl | ha' <;> rcases List.mem_cons.1 hb with rfl | hb'
    · rfl
    · have := hpw.1 b hb'; omega
    · have := hpw.1 a ha'; omega
    · exact ih hpw.2 ha' hb'

/-- a function / method header that passes the follow-up test, is followed by a token and has no
`Name (` strictly inside its parameter list, is returned by `get_headers` with the function /
method pattern -/
theorem fun_reported {L : Language} {fo : Option (Rx Pred)} (hL : L ∈ Gen.all.map (·.2))
    (hhp : (⟨fExpr, fo⟩ : HeaderPat) ∈ L.pats) {toks : List Tok} {hs1 : List Header}
    (h : getHeaders ⟨fExpr, fo⟩ toks = .ok hs1) {n f : Nat}
    (hsyn : SynHeader toks n f) (hfo : FollowsAt fo toks f) (hlt : f < toks.length)
    (hnocall : ∀ q, n < q → q + 2 < f → ¬ (NameAt toks q ∧ OpenAt toks (q + 1))) :
    ∃ hd ∈ hs1, hd.rng = ⟨funStart toks n, f⟩ ∧ toks[n]? = some hd.name := by
  obtain ⟨D, ms, hD, hms, hiff⟩ := getHeaders_found_iff L hL _ hhp toks hs1 h
  obtain ⟨hnn, hds⟩ := shipped_machine L hL _ hhp D hD
  have hD' : compileTok fExpr = .ok D := hD
  have hiffG := greedyAt_iff_funHeader hD' toks
  obtain ⟨hb, ha⟩ := fun_isolated hsyn hlt hnocall
  have hnp : ¬ ∃ m ∈ ms, (m.s < funStart toks n ∧ funStart toks n < m.e ∧ m.e ≤ f) ∨
      (funStart toks n < m.s ∧ m.e < f) := by
    rintro ⟨m, hm, hcase⟩
    have hgm := (hiffG _ _).1 (C14.greedy hnn hds hms m hm)
    rcases hcase with ⟨h1, h2, h3⟩ | ⟨h1, h2⟩
    · exact hb m.s m.e h1 hgm ⟨h2, h3⟩
    · exact ha m.s m.e h1 hgm h2
  obtain ⟨hd, hhd, hr, hnm⟩ := (hiff (funStart toks n) f).2
    ⟨(hiffG _ f).2 (funHeader_funStart hsyn), hnp, hfo⟩
  refine ⟨hd, hhd, hr, ?_⟩
  obtain ⟨t, ht, htn⟩ := hsyn.1
  have hlen := hsyn.len
  unfold funStart at hnm
  split at hnm
  · rename_i hk
    obtain ⟨k, hkk, hkw⟩ := hk.2
    have hkn : k.isName = false := by
      cases hh : k.isName
      · rfl
      · exact absurd ⟨k, hkk, hh⟩ (keywordAt_not_nameAt hk.2)
    have ht' : toks[n - 1 + 1]? = some t := by rw [show n - 1 + 1 = n by omega]; exact ht
    rw [firstName_slice_succ hkk hkn ht' htn (by omega)] at hnm
    cases hnm
    exact ht
  · rw [firstName_slice ht htn (by omega)] at hnm
    cases hnm
    exact ht

section twopat
variable {L : Language} {fo : Option (Rx Pred)} {C : CanonCfg} {fol : List Tok → Bool}

variable (hL : L ∈ Gen.all.map (·.2)) (hpats : L.pats = [⟨fExpr, fo⟩, ⟨aExpr, some aFollow⟩])
  (hS : CfgSound C fol)
  (hfo : ∀ toks e, FollowsAt fo toks e ↔ fol (toks.drop e) = true)
  (hC : C.hdrOK = funHeaderOK ∧ C.exempt = (fun _ => false) ∧
    C.joins = (fun t => t.isKw kwFunctionS))

include hL hpats hS hfo hC in
/-- the header of every function / method node is returned by the function / method pattern -/
theorem plain_fun_complete {p : Prog Tok} (hw : p.wfCore = true)
    (hc : p.plain.canonWith C false = true) {hs1 : List Header}
    (h : getHeaders ⟨fExpr, fo⟩ p.flat = .ok hs1) : ∀ x ∈ fnsF p 0, x.1.hdr ∈ hs1 := by
  intro x hx
  rw [← fnsK_plain p 0 hw] at hx
  have hhp1 : (⟨fExpr, fo⟩ : HeaderPat) ∈ L.pats := by rw [hpats]; exact List.mem_cons_self ..
  obtain ⟨pre, hp, hd, gap, b, post, e, hl, hh, hok, hg, hb, _, hjn, hf'⟩ :=
    fn_located hS p.plain false false 0 (wfCore_plain p hw) hc (by intro h; cases h) x hx
  rw [flat_plain] at e
  have hgo : ∀ t ∈ gap, isOpen t = false :=
    fun t ht => (noParen_iff.1 (hS.gap_noParen _ hg t ht)).1
  have hZ : NoOpenHead (gap ++ b :: post) := by
    cases gap with
    | nil => exact NoOpenHead.cons (lbrace_facts hb).1
    | cons g gs => exact NoOpenHead.cons (hgo g (by simp))
  obtain ⟨h1, h2, h3, h4, h5⟩ := header_in_context (pre := pre ++ hp) (Z := gap ++ b :: post) hok hZ
  have e' : p.flat = pre ++ hp ++ (hd ++ (gap ++ b :: post)) := by rw [e]; simp
  rw [← e'] at h1 h2 h3 h5
  have hlt : (pre ++ hp).length + hd.length < p.flat.length := by
    have := congrArg List.length e'
    simp only [List.length_append, List.length_cons] at this ⊢
    omega
  obtain ⟨y, hy, hr, hn⟩ := fun_reported hL hhp1 h h1
    ((hfo _ _).2 (by rw [h2]; exact hS.gap_fol _ _ _ hg hb)) hlt h5
  rw [h3] at hn
  have hfs : funStart p.flat (pre ++ hp).length = pre.length := by
    rw [e, List.length_append]
    refine funStart_located (k := x.2) (by rw [← hC.1]; exact hh) hl ?_
    intro hk0
    have := hjn hk0
    rw [hC.2.2] at this; exact this
  have : x.1.hdr = y := by
    rw [hf']
    cases y with
    | mk nm rng =>
      simp only at hr hn
      cases hn
      rw [hr, hfs]
      simp [Nat.add_assoc]
  rw [this]; exact hy

include hL hpats hS hfo hC in
/-- every header returned by the function / method pattern is the header of a function / method
node -/
theorem plain_fun_sound {p : Prog Tok} (hw : p.wfCore = true) (hb : parenBal p.flat 0 = true)
    (hc : p.plain.canonWith C false = true) {hs1 : List Header}
    (h : getHeaders ⟨fExpr, fo⟩ p.flat = .ok hs1) :
    ∀ hd ∈ hs1, hd ∈ (fnsF p 0).map (·.1.hdr) := by
  intro hd hhd
  have hhp : (⟨fExpr, fo⟩ : HeaderPat) ∈ L.pats := by rw [hpats]; exact List.mem_cons_self ..
  obtain ⟨_, hfol, hname⟩ := sound_fExpr hL hhp h hd hhd
  obtain ⟨n, hsyn, hnm⟩ : ∃ n, SynHeader p.flat n hd.rng.e ∧ p.flat[n]? = some hd.name := by
    rcases hname with ⟨hs', hn'⟩ | ⟨hs', hn'⟩
    · exact ⟨_, hs', hn'⟩
    · exact ⟨_, hs', hn'⟩
  have hmem : (⟨hd.name, ⟨n, hd.rng.e⟩⟩ : Header) ∈ synHdrsG fol C.exempt false p.plain.flat 0 := by
    rw [flat_plain]
    refine mem_synHdrsG_of_synHeader hsyn ((hfo _ _).1 hfol) hnm ?_
    rcases Nat.eq_zero_or_pos n with h0 | hpos
    · exact .inl h0
    · right
      have hlt := (List.getElem?_eq_some_iff.1 hnm).1
      exact ⟨p.flat[n - 1]'(by omega), by simp, by rw [hC.2.1]⟩
  rw [synHdrsG_file hS (wfCore_plain p hw) (by rw [flat_plain]; exact hb) hc] at hmem
  obtain ⟨x, hx, hxe⟩ := List.mem_map.1 hmem
  rw [fnsK_plain p 0 hw] at hx
  have hy := plain_fun_complete hL hpats hS hfo hC hw hc h x hx
  have hend : x.1.hdr.rng.e = hd.rng.e := by
    have := congrArg (fun h : Header => h.rng.e) hxe
    simpa [nameHdr] using this
  obtain ⟨hpw, hne⟩ := getHeaders_spec (shipped_headerPatOK L hL _ hhp) h
  have : x.1.hdr = hd := eq_of_same_end hpw (fun a ha => (hne a ha).1) hy hhd hend
  rw [← this]
  exact List.mem_map.2 ⟨x, hx, rfl⟩

include hL hpats in
/-- the header of every arrow node is returned by the arrow pattern -/
theorem arrow_complete {p : Prog Tok} (hw : p.wfCore = true) (ha : p.arrowsOK false = true)
    {hs2 : List Header} (h : getHeaders ⟨aExpr, some aFollow⟩ p.flat = .ok hs2) :
    ∀ x ∈ fnsA p 0, x.1.hdr ∈ hs2 := by
  intro x hx
  have hhp : (⟨aExpr, some aFollow⟩ : HeaderPat) ∈ L.pats := by rw [hpats]; simp
  obtain ⟨pre, hh, a, b, post, e, hok, hsa, hsb, hfl, hf'⟩ := arrow_located p false 0 hw ha x hx
  obtain ⟨h1, h2, _, h4, h5, h6⟩ := arrow_in_context (pre := pre) (post := post) (b := b) hok hsa hfl
  rw [← e] at h1 h2 h4 h5 h6
  have := arrow_reported hL hhp h h1 (followsAt_arrow_of h2 hsa hsb) h4 h5 h6
  rw [hf']
  simpa using this

include hL hpats hS hC in
/-- every header returned by the arrow pattern is the header of an arrow node -/
theorem arrow_sound {p : Prog Tok} (hw : p.wfCore = true) (hb : parenBal p.flat 0 = true)
    (hc : p.plain.canonWith C false = true) (ha : p.arrowsOK false = true)
    {hs2 : List Header} (h : getHeaders ⟨aExpr, some aFollow⟩ p.flat = .ok hs2) :
    ∀ hd ∈ hs2, hd ∈ (fnsA p 0).map (·.1.hdr) := by
  intro hd hhd
  have hhp : (⟨aExpr, some aFollow⟩ : HeaderPat) ∈ L.pats := by rw [hpats]; simp
  obtain ⟨D, ms, hD, hms, h1, _⟩ := getHeaders_mem h
  obtain ⟨m, hm, hfol, hrng, _⟩ := h1 hd hhd
  obtain ⟨hnn, hds⟩ := shipped_machine L hL _ hhp D hD
  have hg := C14.greedy hnn hds hms m hm
  have hDa : D = aDfa := by
    have h1 : compileTok aExpr = .ok D := hD
    rw [compile_aExpr] at h1; cases h1; rfl
  subst hDa
  have harr := arrowHeader_of_greedy hg
  obtain ⟨a, b, r, hdrop, hsa, hsb⟩ := followsAt_arrow hfol
  obtain ⟨n, t, _, hn1, hn2, ht, htn, hst⟩ := arrowStart_of_arrowHeader harr hdrop hsa hsb
  -- the Name token is listed, hence the Name token of an arrow node
  have hlt := (List.getElem?_eq_some_iff.1 ht).1
  have hmem : (t, n) ∈ synArrG p.flat 0 := by
    have hsplit : p.flat = p.flat.take n ++ t :: p.flat.drop (n + 1) := by
      rw [← drop_eq_cons ht, List.take_append_drop]
    have := mem_synArrG htn hst (p.flat.take n) 0
    rw [← hsplit, List.length_take, Nat.min_eq_left (by omega), Nat.zero_add] at this
    exact this
  have hprog := synArrG_prog hS hC.1 p [] false false 0 0 hw hc ha hb KOK.nil
  simp only [List.append_nil, synArrG] at hprog
  rw [hprog] at hmem
  obtain ⟨x, hx, hxe⟩ := List.mem_map.1 hmem
  have hy := arrow_complete hL hpats hw ha h x hx
  -- its header contains the index of the Name token
  obtain ⟨pre, hh, a', b', post, e, hok, _, _, _, hf'⟩ := arrow_located p false 0 hw ha x hx
  obtain ⟨hp, n', e', as, o, gs, rfl, hlen, _⟩ := arrowHeaderOK_cases hok
  have hxn : x.1.hdr.rng.s + x.2 = n := by
    have := congrArg Prod.snd hxe
    simpa [nameAt] using this
  have hx1 : x.1.hdr.rng.s ≤ n := by omega
  have hx2 : n < x.1.hdr.rng.e := by
    rw [← hxn, hf']
    simp only [List.length_append, List.length_cons]
    omega
  obtain ⟨hpw, _⟩ := getHeaders_spec (shipped_headerPatOK L hL _ hhp) h
  have : x.1.hdr = hd := eq_of_overlap hpw hy hhd hx1 hx2 (by rw [hrng]; exact hn1)
    (by rw [hrng]; exact hn2)
  rw [← this]
  exact List.mem_map.2 ⟨x, hx, rfl⟩

/-- the function / method headers and the arrow headers are sorted by their starts -/
theorem fnsF_sorted {p : Prog Tok} (hw : p.wfCore = true) (hadj : p.noAdj = true) :
    ((fnsF p 0).map (·.1.hdr)).Pairwise (fun a b => a.rng.s < b.rng.s) := by
  have := (fns_sorted_of_wf hw hadj).sublist ((fnsF_sublist p 0).map (·.hdr))
  simpa [List.map_map, Function.comp_def] using this

theorem fnsA_sorted {p : Prog Tok} (hw : p.wfCore = true) (hadj : p.noAdj = true) :
    ((fnsA p 0).map (·.1.hdr)).Pairwise (fun a b => a.rng.s < b.rng.s) := by
  have := (fns_sorted_of_wf hw hadj).sublist ((fnsA_sublist p 0).map (·.hdr))
  simpa [List.map_map, Function.comp_def] using this

theorem sorted_of_spec {toks : List Tok} {hs : List Header}
    (hpw : hs.Pairwise (fun a b => a.rng.e ≤ b.rng.s))
    (hne : ∀ hd ∈ hs, hd.rng.s < hd.rng.e ∧ hd.rng.e ≤ toks.length ∧ hd.name.isName = true ∧
      ∃ i, hd.rng.s ≤ i ∧ i ≤ hd.rng.s + 1 ∧ i < hd.rng.e ∧ toks[i]? = some hd.name) :
    hs.Pairwise (fun a b => a.rng.s < b.rng.s) := by
  refine (List.Pairwise.and_mem.1 hpw).imp ?_
  intro a b ⟨ha', _, hab⟩
  have := (hne a ha').1
  omega

include hL hpats hS hfo hC in
/-- **Discovery through the two patterns**: `extract_headers` returns the headers of the function /
method nodes in source order, followed by the headers of the arrow nodes in source order -/
theorem two_pattern_headers (hprev : L.prevKw = none) {p : Prog Tok} (hw : p.wfCore = true) (hadj : p.noAdj = true)
    (hb : parenBal p.flat 0 = true) (hc : p.plain.canonWith C false = true)
    (ha : p.arrowsOK false = true) {hs : List Header}
    (h : extractHeaders L p.flat = .ok hs) :
    hs = (fnsF p 0).map (·.1.hdr) ++ (fnsA p 0).map (·.1.hdr) := by
  have hhp1 : (⟨fExpr, fo⟩ : HeaderPat) ∈ L.pats := by rw [hpats]; exact List.mem_cons_self ..
  have hhp2 : (⟨aExpr, some aFollow⟩ : HeaderPat) ∈ L.pats := by rw [hpats]; simp
  unfold extractHeaders at h
  rw [hpats, hprev] at h
  simp only [concatHeaders] at h
  cases h1 : getHeaders ⟨fExpr, fo⟩ p.flat with
  | error e => simp [h1] at h
  | ok a =>
    cases h2 : getHeaders ⟨aExpr, some aFollow⟩ p.flat with
    | error e => simp [h1, h2] at h
    | ok b =>
      simp only [h1, h2, List.append_nil] at h
      cases h
      obtain ⟨hpw1, hne1⟩ := getHeaders_spec (shipped_headerPatOK L hL _ hhp1) h1
      obtain ⟨hpw2, hne2⟩ := getHeaders_spec (shipped_headerPatOK L hL _ hhp2) h2
      have e1 : a = (fnsF p 0).map (·.1.hdr) := by
        refine eq_of_sorted_of_mem_iff (sorted_of_spec hpw1 hne1) (fnsF_sorted hw hadj) ?_
        intro hd
        constructor
        · exact plain_fun_sound hL hpats hS hfo hC hw hb hc h1 hd
        · intro hm
          obtain ⟨x, hx, rfl⟩ := List.mem_map.1 hm
          exact plain_fun_complete hL hpats hS hfo hC hw hc h1 x hx
      have e2 : b = (fnsA p 0).map (·.1.hdr) := by
        refine eq_of_sorted_of_mem_iff (sorted_of_spec hpw2 hne2) (fnsA_sorted hw hadj) ?_
        intro hd
        constructor
        · exact arrow_sound hL hpats hS hC hw hb hc ha h2 hd
        · intro hm
          obtain ⟨x, hx, rfl⟩ := List.mem_map.1 hm
          exact arrow_complete hL hpats hw ha h2 x hx
      rw [e1, e2]

end twopat

/-- the function / method nodes followed by the arrow nodes are a permutation of all function
nodes -/
theorem fns_perm : ∀ (p : Prog Tok) (i : Nat),
    ((fnsF p i).map (·.1) ++ (fnsA p i).map (·.1)).Perm (fnsOf p i)
  | .nil, _ => List.Perm.refl _
  | .leaf t rest, i => fns_perm rest (i + 1)
  | .group op cl items rest, i => by
    simp only [fnsF, fnsA, fnsOf, List.map_append]
    have h1 := fns_perm items (i + 1)
    have h2 := fns_perm rest (i + items.size + 2)
    refine List.Perm.trans ?_ (h1.append h2)
    simp only [List.append_assoc]
    refine List.Perm.append_left _ ?_
    rw [← List.append_assoc, ← List.append_assoc]
    exact List.Perm.append_right _ List.perm_append_comm
  | .fn hdr k gap op cl body rest, i => by
    simp only [fnsF, fnsA, fnsOf, List.map_append]
    have h1 := fns_perm body (i + hdr.size + gap.length + 1)
    have h2 := fns_perm rest (i + hdr.size + gap.length + body.size + 2)
    have h12 := h1.append h2
    have hswap : ∀ (F1 F2 A1 A2 : List Fn),
        (F1 ++ F2 ++ (A1 ++ A2)).Perm (F1 ++ A1 ++ (F2 ++ A2)) := by
      intro F1 F2 A1 A2
      simp only [List.append_assoc]
      refine List.Perm.append_left _ ?_
      rw [← List.append_assoc, ← List.append_assoc]
      exact List.Perm.append_right _ List.perm_append_comm
    split
    · simp only [List.map_nil, List.nil_append, List.map_cons, List.cons_append]
      exact List.perm_middle.trans (List.Perm.cons _ ((hswap _ _ _ _).trans h12))
    · simp only [List.map_nil, List.nil_append, List.map_cons, List.cons_append]
      exact List.Perm.cons _ ((hswap _ _ _ _).trans h12)

/-- the headers of the function / method nodes followed by those of the arrow nodes are a
permutation of the headers of all function nodes -/
theorem fns_hdr_perm (p : Prog Tok) :
    ((fnsF p 0).map (·.1.hdr) ++ (fnsA p 0).map (·.1.hdr)).Perm (p.fns.map (·.hdr)) := by
  have := (fns_perm p 0).map (·.hdr)
  simpa [List.map_append, List.map_map, Function.comp_def] using this

/-! ## the two instances -/

/-- **Discovery for the canonical fragment of JavaScript with assigned arrow functions** -/
theorem js_arrow_headers {p : Prog Tok} (hw : p.wfCore = true) (hadj : p.noAdj = true)
    (hc : p.CanonJsArrow = true) {hs : List Header}
    (h : extractHeaders Gen.javascript p.flat = .ok hs) :
    hs = p.funFns.map (·.hdr) ++ p.arrowFns.map (·.hdr) := by
  simp only [Prog.CanonJsArrow, Bool.and_eq_true] at hc
  have := two_pattern_headers js_shipped js_pats cfgJs_sound
    (fun toks e => (followsAt_brace toks e).trans (folC_iff toks e).symm) ⟨rfl, rfl, rfl⟩ rfl
    hw hadj hc.1.1 hc.1.2 hc.2 h
  simpa [Prog.funFns, Prog.arrowFns, List.map_map, Function.comp_def] using this

/-- **Discovery for the canonical fragment of TypeScript with assigned arrow functions** -/
theorem ts_arrow_headers {p : Prog Tok} (hw : p.wfCore = true) (hadj : p.noAdj = true)
    (hc : p.CanonTsArrow = true) {hs : List Header}
    (h : extractHeaders Gen.typescript p.flat = .ok hs) :
    hs = p.funFns.map (·.hdr) ++ p.arrowFns.map (·.hdr) := by
  simp only [Prog.CanonTsArrow, Bool.and_eq_true] at hc
  have := two_pattern_headers ts_shipped ts_pats cfgTs_sound
    (fun toks e => (followsAt_ts toks e).trans (folTs_iff toks e).symm) ⟨rfl, rfl, rfl⟩ rfl
    hw hadj hc.1.1 hc.1.2 hc.2 h
  simpa [Prog.funFns, Prog.arrowFns, List.map_map, Function.comp_def] using this

/-- the function / method nodes followed by the arrow nodes: a permutation of all function nodes -/
theorem funFns_arrowFns_perm (p : Prog Tok) :
    (p.funFns.map (·.hdr) ++ p.arrowFns.map (·.hdr)).Perm (p.fns.map (·.hdr)) := by
  have := fns_hdr_perm p
  simpa [Prog.funFns, Prog.arrowFns, List.map_map, Function.comp_def] using this

end CL
