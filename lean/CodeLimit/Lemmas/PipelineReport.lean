import CodeLimit.Lemmas.PipelineScan
import CodeLimit.Lemmas.PipelineGood
import CodeLimit.Spec.Pipeline
import CodeLimit.Props.C05text
import CodeLimit.Props.C08
/-!
# The report of a scan: it exists, its strings and keys satisfy the hypotheses of C08, and the
reader gives the rows back
-/
namespace CL.Pipeline

open CL CL.Sel

/-! ## unfolding `scan` -/

theorem scan_ok_iff {E : Env} {R : Run} {root : Node} {prev : Option Str} {d : Json.ReportData} {bytes : Str} :
    scan E R root prev = .ok (d, bytes) ↔
      ∃ files cb, entriesOf (scanRows E R.pats root prev) = .ok files ∧
        Codebase.build (files.map cbEntry) = .ok cb ∧
        d = Json.Report.init E.version R.uuid R.now R.root R.repository (codebaseJ cb).1 (codebaseJ cb).2 files ∧
        bytes = Json.write true d := by
  unfold scan reportOf
  cases he : entriesOf (scanRows E R.pats root prev) with
  | error e => simp
  | ok files =>
    cases hb : Codebase.build (files.map cbEntry) with
    | error e => simp [hb]
    | ok cb =>
      simp only [hb, Except.ok.injEq, Prod.mk.injEq]
      constructor
      · rintro ⟨rfl, rfl⟩; exact ⟨files, cb, rfl, hb, rfl, rfl⟩
      · rintro ⟨files', cb', h1, h2, rfl, rfl⟩
        cases h1
        rw [hb] at h2
        cases h2
        exact ⟨rfl, rfl⟩

theorem scanRows_root (E : Env) (pats : List Gi.Pat) (rn : Str) (ch : List Node) (prev : Option Str) :
    scanRows E pats (.dir rn ch) prev = Cache.report (cacheParams E) (cacheState pats ch prev) := rfl

theorem rows_keys (E : Env) (pats : List Gi.Pat) (rn : Str) {ch : List Node} (hwf : wfDir ch = true)
    (prev : Option Str) :
    (scanRows E pats (.dir rn ch) prev).map (·.1) = (selection (oracles E pats) ch).map keyOf :=
  walk_keys E pats hwf prev

theorem entriesOf_keys {rows : List CacheRow} {files : List (Str × Json.FileData)}
    (h : entriesOf rows = .ok files) : files.map (·.1) = rows.map (·.1) := by
  induction rows generalizing files with
  | nil => cases h; rfl
  | cons r rest ih =>
    obtain ⟨k, hsh, e⟩ := r
    cases e with
    | error e => simp [entriesOf] at h
    | ok row =>
      simp only [entriesOf] at h
      cases hr : entriesOf rest with
      | error e => simp [hr] at h
      | ok fs =>
        simp only [hr, Except.ok.injEq] at h
        subst h
        simp [ih hr]

theorem rowsOfFiles_entriesOf {rows : List CacheRow} {files : List (Str × Json.FileData)}
    (h : entriesOf rows = .ok files) : rowsOfFiles files = rows := by
  induction rows generalizing files with
  | nil => cases h; rfl
  | cons r rest ih =>
    obtain ⟨k, hsh, e⟩ := r
    cases e with
    | error e => simp [entriesOf] at h
    | ok row =>
      simp only [entriesOf] at h
      cases hr : entriesOf rest with
      | error e => simp [hr] at h
      | ok fs =>
        simp only [hr, Except.ok.injEq] at h
        subst h
        have := ih hr
        simp only [rowsOfFiles] at this ⊢
        simp [this, fileData]

theorem entriesOf_profiles {rows : List CacheRow} {files : List (Str × Json.FileData)}
    (h : entriesOf rows = .ok files) : ∀ kv ∈ files, kv.2.profile = profileOf kv.2.measurements := by
  induction rows generalizing files with
  | nil => cases h; simp
  | cons r rest ih =>
    obtain ⟨k, hsh, e⟩ := r
    cases e with
    | error e => simp [entriesOf] at h
    | ok row =>
      simp only [entriesOf] at h
      cases hr : entriesOf rest with
      | error e => simp [hr] at h
      | ok fs =>
        simp only [hr, Except.ok.injEq] at h
        subst h
        intro kv hkv
        rcases List.mem_cons.1 hkv with rfl | hkv
        · rfl
        · exact ih hr kv hkv

/-! ## a scan of a well-formed tree always completes (C03 + C07) -/

theorem files_admissible {E : Env} {pats : List Gi.Pat} {rn : Str} {ch : List Node} (hwf : wfDir ch = true)
    {prev : Option Str} {files : List (Str × Json.FileData)}
    (h : entriesOf (scanRows E pats (.dir rn ch) prev) = .ok files) :
    C07.Admissible (files.map cbEntry) := by
  intro e he
  obtain ⟨kv, hkv, rfl⟩ := List.mem_map.1 he
  have hk : kv.1 ∈ files.map (·.1) := List.mem_map.2 ⟨kv, hkv, rfl⟩
  rw [entriesOf_keys h, rows_keys E pats rn hwf prev] at hk
  obtain ⟨x, hx, hxk⟩ := List.mem_map.1 hk
  show Codebase.admissible kv.1 = true
  rw [← hxk]
  exact selection_key_admissible hwf hx

/-- **`scan_command` never raises on a real directory**, whatever the cache file holds -/
theorem scan_total (E : Env) (R : Run) (rn : Str) {ch : List Node} (hwf : wfDir ch = true) (prev : Option Str) :
    ∃ d bytes, scan E R (.dir rn ch) prev = .ok (d, bytes) := by
  obtain ⟨files, hf, _, _⟩ := entriesOf_ok _ (scanRows_ok E R.pats (.dir rn ch) prev)
  obtain ⟨cb, hcb⟩ := C07.build_ok _ (files_admissible hwf hf)
  exact ⟨_, _, scan_ok_iff.2 ⟨files, cb, hf, hcb, rfl, rfl⟩⟩

theorem files_keys_nodup {E : Env} {pats : List Gi.Pat} {rn : Str} {ch : List Node} (hwf : wfDir ch = true)
    {prev : Option Str} {files : List (Str × Json.FileData)}
    (h : entriesOf (scanRows E pats (.dir rn ch) prev) = .ok files) : (files.map (·.1)).Nodup := by
  rw [entriesOf_keys h, rows_keys E pats rn hwf prev]
  exact nodup_keys_selection hwf

theorem cbEntry_paths (files : List (Str × Json.FileData)) :
    (files.map cbEntry).map (·.path) = files.map (·.1) := by
  simp [List.map_map, Function.comp_def, cbEntry]

/-! ## the strings of the report -/

open Json in
theorem langName_good (i : Nat) : GoodStr (langName i) := by
  rcases i with _ | _ | _ | _ | _ | _ | _ | i
  all_goals first | decide | skip
  have : Gen.all[i + 7]? = none := by simp [Gen.all]
  simp only [langName, this]
  exact goodStr_nil

open Json in
theorem joinPath_good : ∀ {p : List Str}, (∀ x ∈ p, GoodStr x) → GoodStr (joinPath p)
  | [], _ => goodStr_nil
  | [c], h => h c (by simp)
  | c :: d :: r, h =>
    GoodStr.join 47 (by decide) (h c (by simp))
      (joinPath_good (p := d :: r) (fun x hx => h x (List.mem_cons_of_mem _ hx)))

theorem langOf_lt {E : Env} {name : Str} {lang : Nat} (h : langOf E name = some lang) : lang < numLangs := by
  unfold langOf at h
  cases hl : E.lexerOf name with
  | none => simp [hl] at h
  | some i =>
    simp only [hl] at h
    split at h
    · cases h; assumption
    · cases h

theorem all_get_of_lt {lang : Nat} (h : lang < numLangs) : ∃ x, Gen.all[lang]? = some x :=
  ⟨Gen.all[lang], List.getElem?_eq_getElem h⟩

/-- what `_analyze_file` puts into an entry are good strings: the language is a lexer name, every
function name is a slice of the decoded text (C05 at text level) -/
theorem analyzeRow_good {E : Env} (hE : EnvBase E) {key c : Str} {row : Row}
    (h : analyzeRow E key c = .ok row) :
    Json.GoodStr row.language ∧ ∀ m ∈ row.measurements, Json.GoodStr m.unitName := by
  unfold analyzeRow at h
  cases hl : langOf E (Codebase.getBasename key) with
  | none =>
    simp only [hl, Except.ok.injEq] at h
    subst h
    exact ⟨Json.goodStr_nil, by simp⟩
  | some lang =>
    simp only [hl] at h
    have hlt := langOf_lt hl
    obtain ⟨x, hx⟩ := all_get_of_lt hlt
    obtain ⟨ms, hms⟩ := analyzeText_total E lang (E.decode c)
    have hfile : analyzeFile (oracles E []) key (E.checksum c) lang c =
        .ok ⟨key, E.checksum c, lang, (ms.map (·.len)).foldl (· + ·) 0, ms⟩ := by
      simp only [analyzeFile, oracles, hms]
    simp only [hfile, Except.ok.injEq] at h
    subst h
    refine ⟨langName_good lang, ?_⟩
    intro m hm
    simp only [rowOfSel, List.mem_map] at hm
    obtain ⟨m0, hm0, rfl⟩ := hm
    have ha := (analyzeText_eq hx (E.decode c)).1 hms
    obtain ⟨ri, rj, rk, _, _, _, _, _, _, _, _, _, _, _, _, _, _, _, hname, _⟩ :=
      C05text.measurement_text_wf x.2 (lang_mem_all hx) (E.decode c) (E.lexOf lang (E.decode c))
        (hE.lexer.tiles lang _ hlt) (hE.lexer.nonempty lang _ hlt) ms _ ha m0 hm0
    show Json.GoodStr m0.name
    rw [← hname]
    exact ((hE.decode c).drop _).take _

/-- the rows of a scan are analyses of some content with the recorded checksum -/
def HonestFiles (E : Env) (files : List (Str × Json.FileData)) : Prop :=
  ∀ kv ∈ files, ∃ c, kv.2.checksum = E.checksum c ∧
    analyzeRow E kv.1 c = .ok ⟨kv.2.language, kv.2.loc, kv.2.measurements⟩

theorem honestFiles_of_rows {E : Env} {rows : List CacheRow} {files : List (Str × Json.FileData)}
    (hh : Cache.HonestRows (cacheParams E) rows) (h : entriesOf rows = .ok files) : HonestFiles E files := by
  intro kv hkv
  have hr : (kv.1, kv.2.checksum, Except.ok ⟨kv.2.language, kv.2.loc, kv.2.measurements⟩) ∈ rows := by
    rw [← rowsOfFiles_entriesOf h]
    exact List.mem_map.2 ⟨kv, hkv, rfl⟩
  obtain ⟨c, h1, h2⟩ := hh _ hr
  exact ⟨c, h1, h2.symm⟩

theorem key_good {E : Env} {pats : List Gi.Pat} {ch : List Node} (hT : TreeOk ch)
    {x : List Str × Nat × Str} (hx : x ∈ selection (oracles E pats) ch) : Json.GoodStr (keyOf x) := by
  obtain ⟨p, lang, c⟩ := x
  have hs := mem_selection.1 hx
  exact joinPath_good (hT.names p c hs.1 hs.2.1)

open Json in
/-- **the report of a scan satisfies `GoodReport`** (hypothesis of C08) -/
theorem report_good {E : Env} (hE : EnvBase E) {R : Run} (hR : RunOk R) {rn : Str} {ch : List Node}
    (hT : TreeOk ch) {prev : Option Str} {files : List (Str × Json.FileData)} {cb : Codebase.Codebase}
    (hf : entriesOf (scanRows E R.pats (.dir rn ch) prev) = .ok files)
    (hh : HonestFiles E files)
    (hcb : Codebase.build (files.map cbEntry) = .ok cb) :
    GoodReport (Json.Report.init E.version R.uuid R.now R.root R.repository (codebaseJ cb).1 (codebaseJ cb).2 files) := by
  have hadm := files_admissible hT.wf hf
  have hkeys : ∀ kv ∈ files, GoodStr kv.1 := by
    intro kv hkv
    have hk : kv.1 ∈ files.map (·.1) := List.mem_map.2 ⟨kv, hkv, rfl⟩
    rw [entriesOf_keys hf, rows_keys E R.pats rn hT.wf prev] at hk
    obtain ⟨x, hx, hxk⟩ := List.mem_map.1 hk
    rw [← hxk]
    exact key_good hT hx
  have hpath : ∀ e ∈ files.map cbEntry, GoodStr e.path := by
    intro e he
    obtain ⟨kv, hkv, rfl⟩ := List.mem_map.1 he
    exact hkeys kv hkv
  have htk := C07.tree_keys _ hadm hcb
  have hkey_good : ∀ k, k ∈ cb.tree.map Prod.fst → GoodStr k := by
    intro k hk
    rcases (htk.2 k).1 hk with rfl | ⟨e, he, hp, _⟩
    · decide
    · exact (hpath e he).of_prefix hp
  refine ⟨hE.version, hR.uuid, hR.now, hR.root, hR.repository, ?_, ?_, ?_⟩
  · -- totals
    intro kv hkv
    simp only [Report.init, codebaseJ, List.mem_map] at hkv
    obtain ⟨⟨L, t⟩, hm, rfl⟩ := hkv
    have hlt := (C07.language_totals _ hadm hcb).2 L
    have hhas : Codebase.dhas L cb.totals = true :=
      Codebase.mem_keys_iff.1 (List.mem_map.2 ⟨(L, t), hm, rfl⟩)
    obtain ⟨v, hv⟩ := Codebase.dhas_iff.1 hhas
    rw [hv] at hlt
    split at hlt
    · rename_i hex
      obtain ⟨e, he, rfl⟩ := hex
      obtain ⟨kv, hkv, rfl⟩ := List.mem_map.1 he
      obtain ⟨c, _, hrow⟩ := hh kv hkv
      exact (analyzeRow_good hE hrow).1
    · cases hlt
  · -- tree
    intro kv hkv
    simp only [Report.init, codebaseJ, List.mem_map] at hkv
    obtain ⟨⟨k, f⟩, hm, rfl⟩ := hkv
    have hk : k ∈ cb.tree.map Prod.fst := List.mem_map.2 ⟨(k, f), hm, rfl⟩
    refine ⟨hkey_good k hk, ?_⟩
    intro en hen
    simp only [folderJ, List.mem_map] at hen
    obtain ⟨e0, he0, rfl⟩ := hen
    have hget := (Codebase.mem_iff_dget? htk.1 k f).1 hm
    rcases C07.no_other_entries _ hadm hcb k f hget e0 he0 with ⟨e, he, rfl, _⟩ | ⟨n, rfl, hck, _, _⟩
    · exact (hpath e he).of_suffix (Codebase.getBasename_suffix e.path)
    · have := hkey_good _ hck
      simp only [Codebase.Entry.name]
      unfold Codebase.childKey at this
      split at this
      · exact this
      · exact this.append_right
  · -- files
    intro kv hkv
    have hkv' : kv ∈ files := hkv
    obtain ⟨c, hc, hrow⟩ := hh kv hkv'
    have hg := analyzeRow_good hE hrow
    exact ⟨hkeys kv hkv', by rw [hc]; exact hE.checksum c, hg.1, hg.2⟩

/-- **the keys of the three dictionaries of the report are pairwise distinct** (hypothesis of C08):
languages and folders by C07, files by C11 -/
theorem report_distinct {E : Env} {R : Run} {rn : Str} {ch : List Node}
    (hwf : wfDir ch = true) {prev : Option Str} {files : List (Str × Json.FileData)} {cb : Codebase.Codebase}
    (hf : entriesOf (scanRows E R.pats (.dir rn ch) prev) = .ok files)
    (hcb : Codebase.build (files.map cbEntry) = .ok cb) :
    Json.DistinctKeys (Json.Report.init E.version R.uuid R.now R.root R.repository (codebaseJ cb).1 (codebaseJ cb).2 files) := by
  have hadm := files_admissible hwf hf
  refine ⟨?_, ?_, files_keys_nodup hwf hf⟩
  · have := (C07.language_totals _ hadm hcb).1
    simpa [Json.Report.init, codebaseJ, List.map_map, Function.comp_def] using this
  · have := (C07.tree_keys _ hadm hcb).1
    simpa [Json.Report.init, codebaseJ, List.map_map, Function.comp_def] using this

end CL.Pipeline
