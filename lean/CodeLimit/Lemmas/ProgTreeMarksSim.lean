import CodeLimit.Lemmas.ProgTreeMarksBasic
import CodeLimit.Lemmas.ProgTreeCanonBare
/-!
# Comment-free forests do not depend on the locations

`Prog.Sim p q`: same shape, tokens of the same kind and text.  Stripping comments respects it
(`sim_stripComments`), and `wfCore` / `noAdj` are invariant (`wfCore_sim`, `noAdj_sim`).
Hence the conditions on the comment-free LOCATED forest of a file are conditions on the
comment-free forest of tokens without locations (`Prog.bare`): `wfCore_strip_locate`, … .
-/
namespace CL.Marks

theorem sameL_length {a b : List Tok} (h : SameL a b) : a.length = b.length := by
  induction h with
  | nil => rfl
  | cons _ _ ih => simp only [List.length_cons, ih]

theorem sameL_take {a b : List Tok} (h : SameL a b) : ∀ n, SameL (a.take n) (b.take n) := by
  induction h with
  | nil => intro n; simp only [List.take_nil]; exact .nil
  | cons hab _ ih =>
    intro n
    cases n with
    | zero => exact .nil
    | succ n => exact .cons hab (ih n)

theorem sameL_filter_isCode {a b : List Tok} (h : SameL a b) :
    SameL (a.filter Tok.isCode) (b.filter Tok.isCode) := by
  induction h with
  | nil => exact .nil
  | cons hab _ ih =>
    simp only [List.filter_cons, hab.isCode]
    split
    · exact .cons hab ih
    · exact ih

theorem sameL_all {P : Tok → Bool} (hP : ∀ a b, Tok.Same a b → P a = P b) {a b : List Tok}
    (h : SameL a b) : a.all P = b.all P := by
  induction h with
  | nil => rfl
  | cons hab _ ih => simp only [List.all_cons, hP _ _ hab, ih]

theorem sameL_getD {P : Tok → Bool} (hP : ∀ a b, Tok.Same a b → P a = P b) {a b : List Tok}
    (h : SameL a b) : ∀ k, P (a.getD k default) = P (b.getD k default) := by
  induction h with
  | nil => intro k; rfl
  | cons hab _ ih =>
    intro k
    cases k with
    | zero => exact hP _ _ hab
    | succ k => simp only [List.getD_cons_succ]; exact ih k

/-- stripping comments respects "same shape, same kinds and texts" -/
theorem sim_stripComments {p q : Prog Tok} (h : Prog.Sim p q) :
    Prog.Sim p.stripComments q.stripComments := by
  unfold Prog.stripComments
  induction h with
  | nil => exact .nil
  | leaf hab _ ih =>
    simp only [Prog.strip, hab.isCode]
    split
    · exact .leaf hab ih
    · exact ih
  | group hop hcl _ _ ih1 ih2 => exact .group hop hcl ih1 ih2
  | fn hh hg hop hcl _ _ ih1 ih2 ih3 =>
    simp only [Prog.strip]
    rw [sameL_length (sameL_filter_isCode (sameL_take hh.flat _))]
    exact .fn ih1 (sameL_filter_isCode hg) hop hcl ih2 ih3

theorem size_sim {p q : Prog Tok} (h : Prog.Sim p q) : p.size = q.size := by
  rw [← Prog.size_eq, ← Prog.size_eq, sameL_length h.flat]

theorem noFn_sim {p q : Prog Tok} (h : Prog.Sim p q) : p.noFn = q.noFn := by
  induction h with
  | nil => rfl
  | leaf _ _ ih => simp only [Prog.noFn, ih]
  | group _ _ _ _ ih1 ih2 => simp only [Prog.noFn, ih1, ih2]
  | fn => rfl

theorem startsWithLeaf_sim {p q : Prog Tok} (h : Prog.Sim p q) :
    p.startsWithLeaf = q.startsWithLeaf := by
  cases h <;> rfl

/-- structural well-formedness looks at kinds and texts only -/
theorem wfCore_sim {p q : Prog Tok} (h : Prog.Sim p q) : p.wfCore = q.wfCore := by
  induction h with
  | nil => rfl
  | leaf hab _ ih => simp only [Prog.wfCore, hab.noBrace, ih]
  | group hop hcl _ _ ih1 ih2 => simp only [Prog.wfCore, hop.isSymbol, hcl.isSymbol, ih1, ih2]
  | fn hh hg hop hcl _ hr ih1 ih2 ih3 =>
    simp only [Prog.wfCore, hop.isSymbol, hcl.isSymbol, ih1, ih2, ih3, startsWithLeaf_sim hh,
      noFn_sim hh, size_sim hh, sameL_getD (P := Tok.isName) (fun _ _ h => h.isName) hh.flat,
      sameL_all (P := Tok.noBrace) (fun _ _ h => h.noBrace) hg]

/-- the canonical-fragment restriction looks at the shape only -/
theorem noAdj_sim {p q : Prog Tok} (h : Prog.Sim p q) : p.noAdj = q.noAdj := by
  induction h with
  | nil => rfl
  | leaf _ _ ih => simp only [Prog.noAdj, ih]
  | group _ _ _ _ ih1 ih2 => simp only [Prog.noAdj, ih1, ih2]
  | fn _ _ _ _ _ hr ih1 ih2 ih3 =>
    simp only [Prog.noAdj, ih1, ih2, ih3, startsWithGroup_sim hr]

theorem sim_strip_locate (p : Prog PTok) (s : Nat × Nat) :
    Prog.Sim (locate s p).stripComments p.bare.stripComments :=
  sim_stripComments (sim_locate p s)

theorem wfCore_strip_locate (p : Prog PTok) (s : Nat × Nat) :
    (locate s p).stripComments.wfCore = p.bare.stripComments.wfCore :=
  wfCore_sim (sim_strip_locate p s)

theorem noAdj_strip_locate (p : Prog PTok) (s : Nat × Nat) :
    (locate s p).stripComments.noAdj = p.bare.stripComments.noAdj :=
  noAdj_sim (sim_strip_locate p s)

theorem canon_sim {p q : Prog Tok} (h : Prog.Sim p q) : p.Canon = q.Canon := by
  unfold Prog.Canon
  rw [canonWith_sim cfgC_same h, parenBal_same h.flat]

theorem canonJava_sim {p q : Prog Tok} (h : Prog.Sim p q) : p.CanonJava = q.CanonJava := by
  unfold Prog.CanonJava
  rw [canonWith_sim cfgJava_same h, parenBal_same h.flat]

theorem canonJs_sim {p q : Prog Tok} (h : Prog.Sim p q) : p.CanonJs = q.CanonJs := by
  unfold Prog.CanonJs
  rw [canonWith_sim cfgJs_same h, parenBal_same h.flat, noAssignedArrow_same h.flat]

theorem canonTs_sim {p q : Prog Tok} (h : Prog.Sim p q) : p.CanonTs = q.CanonTs := by
  unfold Prog.CanonTs
  rw [canonWith_sim cfgTs_same h, parenBal_same h.flat, noAssignedArrow_same h.flat]

theorem canon_strip_locate (p : Prog PTok) (s : Nat × Nat) :
    (locate s p).stripComments.Canon = p.bare.stripComments.Canon :=
  canon_sim (sim_strip_locate p s)

theorem canonJava_strip_locate (p : Prog PTok) (s : Nat × Nat) :
    (locate s p).stripComments.CanonJava = p.bare.stripComments.CanonJava :=
  canonJava_sim (sim_strip_locate p s)

theorem canonJs_strip_locate (p : Prog PTok) (s : Nat × Nat) :
    (locate s p).stripComments.CanonJs = p.bare.stripComments.CanonJs :=
  canonJs_sim (sim_strip_locate p s)

theorem canonTs_strip_locate (p : Prog PTok) (s : Nat × Nat) :
    (locate s p).stripComments.CanonTs = p.bare.stripComments.CanonTs :=
  canonTs_sim (sim_strip_locate p s)

end CL.Marks
