import CodeLimit.Spec.Lex
/-!
# Helper lemmas for C16 (`lex`, `location_to_index`)
-/
namespace CL

/-! ## length of the last (unfinished) line of a prefix -/

/-- number of characters after the last newline of `s` -/
def lastLineLen (s : Str) : Nat := (s.reverse.takeWhile (· ≠ 10)).length

theorem lastLineLen_nil : lastLineLen [] = 0 := rfl

theorem lastLineLen_snoc (s : Str) (c : Nat) :
    lastLineLen (s ++ [c]) = if c = 10 then 0 else lastLineLen s + 1 := by
  unfold lastLineLen
  by_cases h : c = 10 <;> simp [h]

theorem lastLineLen_le (s : Str) : lastLineLen s ≤ s.length := by
  unfold lastLineLen
  have := List.takeWhile_sublist (l := s.reverse) (· ≠ 10) |>.length_le
  simpa using this

theorem takeWhile_length_snoc (p : Nat → Bool) (r : List Nat) (c : Nat) :
    ((r ++ [c]).takeWhile p).length =
      if (∀ a ∈ r, p a = true) ∧ p c = true then (r.takeWhile p).length + 1
      else (r.takeWhile p).length := by
  induction r with
  | nil => cases h : p c <;> simp [h]
  | cons a r ih =>
    cases h : p a
    · simp [h]
    · simp only [List.cons_append, List.takeWhile_cons, h, if_true, List.length_cons, ih]
      simp [h]
      split <;> rfl

theorem lastLineLen_of_not_mem (s : Str) (h : 10 ∉ s) : lastLineLen s = s.length := by
  unfold lastLineLen
  have := List.takeWhile_append_of_pos (p := (· ≠ 10)) (l₁ := s.reverse) (l₂ := [])
    (by intro a ha
        have : a ∈ s := by simpa using ha
        simp; rintro rfl; exact h this)
  simp only [List.append_nil, List.takeWhile_nil] at this
  rw [this]; simp

theorem lastLineLen_cons (c : Nat) (s : Str) :
    lastLineLen (c :: s) = if c ≠ 10 ∧ 10 ∉ s then lastLineLen s + 1 else lastLineLen s := by
  unfold lastLineLen
  rw [List.reverse_cons, takeWhile_length_snoc]
  by_cases h1 : c = 10 <;> by_cases h2 : 10 ∈ s <;> simp [h1, h2]

theorem lineOf_eq (pre suf : Str) : lineOf (pre ++ suf) pre.length = 1 + pre.count 10 := by
  simp [lineOf]

theorem colOf_eq (pre suf : Str) : colOf (pre ++ suf) pre.length = lastLineLen pre + 1 := by
  simp [colOf, lastLineLen]

theorem colOf_eq' (code : Str) (o : Nat) : colOf code o = lastLineLen (code.take o) + 1 := rfl

/-! ## `get_newline_indices` and the pointer loop of `lex` -/

theorem le_of_mem_newlineIndicesFrom (i : Nat) (s : Str) :
    ∀ j ∈ newlineIndicesFrom i s, i ≤ j := by
  induction s generalizing i with
  | nil => simp [newlineIndicesFrom]
  | cons c cs ih =>
    intro j hj
    unfold newlineIndicesFrom at hj
    split at hj
    · rcases List.mem_cons.1 hj with rfl | h
      · exact Nat.le_refl _
      · exact Nat.le_of_succ_le (ih _ _ h)
    · exact Nat.le_of_succ_le (ih _ _ hj)

theorem newlineIndicesFrom_eq_nil (i : Nat) (s : Str) :
    newlineIndicesFrom i s = [] ↔ 10 ∉ s := by
  induction s generalizing i with
  | nil => simp [newlineIndicesFrom]
  | cons c cs ih =>
    unfold newlineIndicesFrom
    by_cases h : c = 10
    · simp [h]
    · have : ¬ (10 = c) := fun e => h e.symm
      simp [h, this, ih]

theorem newlineIndicesFrom_nl (i : Nat) (cs : Str) :
    newlineIndicesFrom i (10 :: cs) = i :: newlineIndicesFrom (i + 1) cs := by
  simp [newlineIndicesFrom]

theorem newlineIndicesFrom_other (i c : Nat) (cs : Str) (h : c ≠ 10) :
    newlineIndicesFrom i (c :: cs) = newlineIndicesFrom (i + 1) cs := by
  simp [newlineIndicesFrom, h]

/-- the `while` loop does nothing when no pending newline lies strictly before `off` -/
theorem advance_stop (off : Nat) (l : List Nat) (ln ls : Nat) (h : ∀ i ∈ l, off ≤ i) :
    advance off l ln ls = (l, ln, ls) := by
  cases l with
  | nil => rfl
  | cons i rest =>
    have : ¬ off > i := Nat.not_lt.2 (h i (List.mem_cons_self ..))
    simp [advance, this]

/-- number of characters before the start of the current line -/
def lineStart (s : Str) : Nat := s.length - lastLineLen s

theorem lineStart_snoc (s : Str) (c : Nat) :
    lineStart (s ++ [c]) = if c = 10 then s.length + 1 else lineStart s := by
  unfold lineStart
  rw [lastLineLen_snoc]
  have := lastLineLen_le s
  split <;> simp <;> omega

/-- invariant of the pointer loop: from the state describing the prefix `pre`, advancing to the
offset at the end of `pre ++ mid` gives the state describing `pre ++ mid` -/
theorem advance_inv (pre mid suf : Str) :
    advance (pre ++ mid).length (newlineIndicesFrom pre.length (mid ++ suf)) (pre.count 10)
        (lineStart pre) =
      (newlineIndicesFrom (pre ++ mid).length suf, (pre ++ mid).count 10, lineStart (pre ++ mid)) := by
  induction mid generalizing pre with
  | nil =>
    simp only [List.append_nil, List.nil_append]
    exact advance_stop _ _ _ _ (le_of_mem_newlineIndicesFrom _ _)
  | cons c m ih =>
    have e : pre ++ c :: m = (pre ++ [c]) ++ m := by simp
    have ih' := ih (pre ++ [c])
    rw [← e] at ih'
    rw [← ih']
    simp only [List.cons_append]
    by_cases hc : c = 10
    · subst hc
      have : (pre ++ 10 :: m).length > pre.length := by simp
      rw [newlineIndicesFrom_nl, advance, if_pos this, lineStart_snoc]
      simp
    · rw [newlineIndicesFrom_other _ _ _ hc, lineStart_snoc, if_neg hc]
      simp [hc]

/-- `advance_inv` phrased with offsets into `code` -/
theorem advance_code (code : Str) (p o : Nat) (hpo : p ≤ o) (ho : o ≤ code.length) :
    advance o (newlineIndicesFrom p (code.drop p)) ((code.take p).count 10)
        (lineStart (code.take p)) =
      (newlineIndicesFrom o (code.drop o), (code.take o).count 10, lineStart (code.take o)) := by
  have h1 : code.take o = code.take p ++ (code.drop p).take (o - p) := by
    rw [← List.take_add]; congr 1; omega
  have h2 : code.drop p = (code.drop p).take (o - p) ++ code.drop o := by
    have := (List.take_append_drop (o - p) (code.drop p)).symm
    rw [List.drop_drop] at this
    have e : p + (o - p) = o := by omega
    rwa [e] at this
  have h3 : (code.take p).length = p := by rw [List.length_take]; omega
  have h4 : (code.take p ++ (code.drop p).take (o - p)).length = o := by
    rw [← h1, List.length_take]; omega
  have := advance_inv (code.take p) ((code.drop p).take (o - p)) (code.drop o)
  rw [← h2, h4, h3, ← h1] at this
  exact this

/-- raw token offsets are non-decreasing, start at `p` or later and stay within `n` -/
def OffsFrom (n : Nat) : Nat → List RawTok → Prop
  | _, [] => True
  | p, t :: ts => p ≤ t.off ∧ t.off ≤ n ∧ OffsFrom n t.off ts

theorem OffsFrom.le {n p : Nat} {raw : List RawTok} (h : OffsFrom n p raw) :
    ∀ t ∈ raw, t.off ≤ n := by
  induction raw generalizing p with
  | nil => intro t ht; cases ht
  | cons a as ih =>
    intro t ht
    rcases List.mem_cons.1 ht with rfl | ht
    · exact h.2.1
    · exact ih h.2.2 t ht

theorem lexLoop_positions (code : Str) (raw : List RawTok) :
    ∀ p, OffsFrom code.length p raw →
      lexLoop raw (newlineIndicesFrom p (code.drop p)) ((code.take p).count 10)
        (lineStart (code.take p)) = raw.map (tokAt code) := by
  induction raw with
  | nil => intro p _; rfl
  | cons t ts ih =>
    intro p h
    obtain ⟨h1, h2, h3⟩ := h
    simp only [lexLoop, List.map_cons]
    rw [advance_code code p t.off h1 h2]
    simp only []
    rw [ih t.off h3]
    congr 1
    have hk := lastLineLen_le (code.take t.off)
    have hl : (code.take t.off).length = t.off := by rw [List.length_take]; omega
    simp only [tokAt, lineOf, colOf_eq', lineStart, hl]
    congr 1 <;> omega

theorem lexAll_positions_of_offs (code : Str) (raw : List RawTok)
    (h : OffsFrom code.length 0 raw) : lexAll code raw = raw.map (tokAt code) := by
  unfold lexAll
  simp only []
  split
  · rename_i hnil
    have h10 : 10 ∉ code := by
      have : newlineIndicesFrom 0 code = [] := by simpa [newlineIndices] using hnil
      exact (newlineIndicesFrom_eq_nil 0 code).1 this
    apply List.map_congr_left
    intro t ht
    have hle := OffsFrom.le h t ht
    have hnm : 10 ∉ code.take t.off := fun hm => h10 (List.mem_of_mem_take hm)
    have hl : (code.take t.off).length = t.off := by rw [List.length_take]; omega
    simp only [tokAt, lineOf, colOf_eq', lastLineLen_of_not_mem _ hnm, hl,
      List.count_eq_zero.2 hnm]
  · have := lexLoop_positions code raw 0 h
    simpa [newlineIndices, lineStart, lastLineLen] using this

/-! ## consequences of the lexer contract -/

theorem RawOkFrom.offs {pre rest : Str} {raw : List RawTok} {off : Nat}
    (h : RawOkFrom off rest raw) (hoff : pre.length = off) :
    OffsFrom (pre ++ rest).length off raw := by
  induction raw generalizing pre rest off with
  | nil => trivial
  | cons t ts ih =>
    obtain ⟨h1, h2, h3, h4⟩ := h
    refine ⟨by omega, by simp; omega, ?_⟩
    have := ih (pre := pre ++ rest.take t.val.length) h4 (by simp; omega)
    rw [List.append_assoc, List.take_append_drop] at this
    rw [h1]
    -- the remaining tokens start at `off + |val|`, which is at least `off`
    have weaken : ∀ (n p q : Nat) (l : List RawTok), q ≤ p → OffsFrom n p l → OffsFrom n q l := by
      intro n p q l hqp hl
      cases l with
      | nil => trivial
      | cons a as => exact ⟨Nat.le_trans hqp hl.1, hl.2⟩
    exact weaken _ _ _ _ (Nat.le_add_right _ _) this

/-- every raw token lies inside the text and its value is the text found at its offset -/
theorem RawOkFrom.text {pre rest : Str} {raw : List RawTok} {off : Nat}
    (h : RawOkFrom off rest raw) (hoff : pre.length = off) :
    ∀ r ∈ raw, off ≤ r.off ∧ r.off + r.val.length ≤ (pre ++ rest).length ∧
      ((pre ++ rest).drop r.off).take r.val.length = r.val := by
  induction raw generalizing pre rest off with
  | nil => intro r hr; cases hr
  | cons t ts ih =>
    obtain ⟨h1, h2, h3, h4⟩ := h
    intro r hr
    rcases List.mem_cons.1 hr with rfl | hr
    · refine ⟨by omega, by simp; omega, ?_⟩
      rw [h1, ← hoff, List.drop_left]
      exact h2.symm
    · have := ih (pre := pre ++ rest.take t.val.length) h4 (by simp; omega) r hr
      rw [List.append_assoc, List.take_append_drop] at this
      exact ⟨by omega, this.2⟩

/-- raw tokens do not overlap: an earlier token ends before any later one starts -/
theorem RawOkFrom.pairwise {rest : Str} {raw : List RawTok} {off : Nat}
    (h : RawOkFrom off rest raw) :
    raw.Pairwise (fun r r' => r.off + r.val.length ≤ r'.off) := by
  induction raw generalizing rest off with
  | nil => exact List.Pairwise.nil
  | cons t ts ih =>
    obtain ⟨h1, h2, h3, h4⟩ := h
    refine List.Pairwise.cons ?_ (ih h4)
    intro r hr
    have := (RawOkFrom.text (pre := List.replicate (off + t.val.length) 0) h4 (by simp) r hr).1
    omega

/-! ## `location_to_index` -/

/-- total length of the first `n` lines, each with its newline -/
def prefixLen : List Str → Nat → Nat
  | _, 0 => 0
  | [], _ + 1 => 0
  | l :: ls, n + 1 => l.length + 1 + prefixLen ls n

theorem prefixLen_succ (ls : List Str) (n : Nat) (hn : n < ls.length) :
    prefixLen ls (n + 1) = prefixLen ls n + (ls[n].length + 1) := by
  induction ls generalizing n with
  | nil => simp at hn
  | cons l ls ih =>
    cases n with
    | zero => simp [prefixLen]
    | succ n =>
      have hn' : n < ls.length := by simpa using hn
      simp only [prefixLen, List.getElem_cons_succ]
      rw [ih n hn']
      omega

/-- the `for i in range(0, line - 1)` loop: total length (plus separators) of the first `n`
lines, `IndexError` when there are fewer than `n` lines -/
theorem locationToIndex_go (ls : List Str) (n acc : Nat) :
    locationToIndex.go ls n acc =
      if n ≤ ls.length then .ok (acc + prefixLen ls n) else .error .index := by
  induction n with
  | zero => simp [locationToIndex.go, prefixLen]
  | succ n ih =>
    rw [locationToIndex.go, ih]
    by_cases h : n + 1 ≤ ls.length
    · have h' : n ≤ ls.length := by omega
      have hn : n < ls.length := by omega
      simp only [h, h', if_true, List.getElem?_eq_getElem hn, prefixLen_succ ls n hn]
      simp [Nat.add_assoc]
    · by_cases h' : n ≤ ls.length
      · have : ls[n]? = none := by rw [List.getElem?_eq_none_iff]; omega
        simp [h, h', this]
      · simp [h, h']

theorem splitLines_ne_nil (code : Str) : splitLines code ≠ [] := by
  cases code with
  | nil => simp [splitLines]
  | cons c cs =>
    unfold splitLines
    split
    · simp
    · split <;> simp

/-- the first `n` lines (with their newlines) followed by `k` more characters make up offset
`o`, where `n` newlines precede `o` and `k` characters follow the last of them -/
theorem splitLines_sum (code : Str) : ∀ o, o ≤ code.length →
    (code.take o).count 10 < (splitLines code).length ∧
    prefixLen (splitLines code) ((code.take o).count 10) + lastLineLen (code.take o) = o := by
  induction code with
  | nil =>
    intro o ho
    have : o = 0 := by simpa using ho
    subst this; simp [splitLines, lastLineLen_nil, prefixLen]
  | cons c cs ih =>
    intro o ho
    cases o with
    | zero =>
      have := splitLines_ne_nil (c :: cs)
      have : 0 < (splitLines (c :: cs)).length := List.length_pos_iff.2 this
      simpa [lastLineLen_nil, prefixLen] using this
    | succ o =>
      have ho' : o ≤ cs.length := by simpa using ho
      obtain ⟨ih1, ih2⟩ := ih o ho'
      rw [List.take_succ_cons, lastLineLen_cons]
      unfold splitLines
      cases hs : splitLines cs with
      | nil => exact absurd hs (splitLines_ne_nil cs)
      | cons l ls =>
        rw [hs] at ih1 ih2
        simp only [List.length_cons] at ih1
        simp only []
        by_cases hc : c = 10
        · subst hc
          simp only [if_true, List.count_cons_self, List.length_cons, prefixLen, List.length_nil,
            ne_eq, not_true, false_and, if_false]
          omega
        · rw [List.count_cons_of_ne hc]
          simp only [hc, if_false, List.length_cons, ne_eq, not_false_iff, true_and]
          refine ⟨ih1, ?_⟩
          by_cases hm : 10 ∈ cs.take o
          · have hpos : 0 < (cs.take o).count 10 := List.count_pos_iff.2 hm
            obtain ⟨m, hm'⟩ : ∃ m, (cs.take o).count 10 = m + 1 :=
              ⟨_, (Nat.succ_pred_eq_of_pos hpos).symm⟩
            rw [hm'] at ih2 ⊢
            simp only [prefixLen, List.length_cons, hm, not_true, if_false] at ih2 ⊢
            omega
          · have h0 : (cs.take o).count 10 = 0 := List.count_eq_zero.2 hm
            rw [h0] at ih2 ⊢
            simp only [prefixLen, hm, not_false_iff, if_true] at ih2 ⊢
            omega

theorem locationToIndex_lineOf_colOf (code : Str) (o : Nat) (ho : o ≤ code.length) :
    locationToIndex code (lineOf code o) (colOf code o) = .ok o := by
  obtain ⟨h1, h2⟩ := splitLines_sum code o ho
  unfold locationToIndex
  simp only [lineOf, colOf_eq', Nat.add_sub_cancel_left, Nat.add_sub_cancel, locationToIndex_go]
  rw [if_pos (Nat.le_of_lt h1)]
  simp only [Nat.zero_add]
  rw [h2]

/-! ## positions are strictly monotone in the offset -/

theorem PosLt.trans {a b c d e f : Nat} (h1 : PosLt a b c d) (h2 : PosLt c d e f) :
    PosLt a b e f := by
  unfold PosLt at *; omega

theorem posLt_step (code : Str) (o : Nat) (h : o < code.length) :
    PosLt (lineOf code o) (colOf code o) (lineOf code (o + 1)) (colOf code (o + 1)) := by
  simp only [PosLt, lineOf, colOf_eq', ← List.take_append_getElem h, lastLineLen_snoc,
    List.count_append]
  by_cases hc : code[o] = 10
  · simp [hc]
  · simp [hc]

theorem posLt_of_lt (code : Str) (o o' : Nat) (h : o < o') (h' : o' ≤ code.length) :
    PosLt (lineOf code o) (colOf code o) (lineOf code o') (colOf code o') := by
  induction o' with
  | zero => omega
  | succ n ih =>
    have hs := posLt_step code n (by omega)
    by_cases hn : o = n
    · subst hn; exact hs
    · exact (ih (by omega) (by omega)).trans hs

/-! ## `lex` as filter-then-place -/

/-- the filter of `filter_tokens(tokens, keep_whitespace=False, keep_comments=kc)` -/
def keepTok (kc : Bool) (t : Tok) : Bool :=
  if t.isWhitespace then false else if t.isComment then kc else true

theorem filterTokens_eq (kc : Bool) (toks : List Tok) :
    filterTokens kc toks = toks.filter (keepTok kc) := rfl

theorem keepTok_nonempty {kc : Bool} {code : Str} {r : RawTok}
    (hne : r.kind ≠ 6 → r.val ≠ []) (hk : keepTok kc (tokAt code r) = true) : 0 < r.val.length := by
  by_cases h6 : r.kind = 6
  · cases hv : r.val with
    | nil => simp [keepTok, tokAt, Tok.isWhitespace, h6, hv] at hk
    | cons a as => simp
  · exact List.length_pos_iff.2 (hne h6)

/-- raw tokens are pairwise disjoint, in order, and start inside the text -/
theorem raw_pairwise_bounds {code : Str} {raw : List RawTok} (h : RawOk code raw) :
    raw.Pairwise (fun r r' => r.off + r.val.length ≤ r'.off ∧ r'.off ≤ code.length) := by
  refine (RawOkFrom.pairwise h).imp_of_mem ?_
  intro r r' _ hr' hrr
  have := (RawOkFrom.text (pre := []) h rfl r' hr').2.1
  simp only [List.nil_append] at this
  exact ⟨hrr, by omega⟩

/-- the kept raw tokens are non-empty and pairwise disjoint, in order -/
theorem kept_raw {code : Str} {raw : List RawTok} (h : RawOk code raw)
    (hne : ∀ t ∈ raw, t.kind ≠ 6 → t.val ≠ []) (fc : Bool) :
    (raw.filter (fun r => keepTok (!fc) (tokAt code r))).Pairwise
      (fun r r' => r.off < r'.off ∧ r'.off ≤ code.length) := by
  have hp := (raw_pairwise_bounds h).filter (fun r => keepTok (!fc) (tokAt code r))
  refine hp.imp_of_mem ?_
  intro r r' hr _ hrr
  obtain ⟨hr1, hr2⟩ := List.mem_filter.1 hr
  have hpos := keepTok_nonempty (hne r hr1) hr2
  exact ⟨by omega, hrr.2⟩

end CL
