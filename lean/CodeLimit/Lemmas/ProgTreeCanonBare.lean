import CodeLimit.Spec.ProgTreeCanon
import CodeLimit.Lemmas.ProgTreeBare
/-!
# The canonical fragments do not depend on the locations

`Prog.Canon` / `Prog.CanonJava` of a located forest `locate s p` is that of the forest `p` itself,
viewed at a dummy location (`Prog.bare`): every ingredient looks at kinds and texts of tokens
only.  `SameL` / `Prog.Sim`: two token lists / forests that agree up to locations.
-/
namespace CL
open CL.Syn (isOpen isClose)

theorem Tok.Same.isOpen {a b : Tok} (h : Tok.Same a b) : isOpen a = isOpen b := by
  unfold Syn.isOpen; exact h.isSymbol _

theorem Tok.Same.isClose {a b : Tok} (h : Tok.Same a b) : isClose a = isClose b := by
  unfold Syn.isClose; exact h.isSymbol _

theorem Tok.Same.noParen {a b : Tok} (h : Tok.Same a b) : a.noParen = b.noParen := by
  unfold Tok.noParen; rw [h.isOpen, h.isClose]

theorem Tok.Same.isKw {a b : Tok} (h : Tok.Same a b) (s : Str) : a.isKw s = b.isKw s := by
  unfold Tok.isKw Tok.isKeyword; rw [h.1, h.2]

theorem Tok.Same.gapTok {a b : Tok} (h : Tok.Same a b) : a.gapTok = b.gapTok := by
  unfold Tok.gapTok; rw [h.noParen, h.2]

/-- pointwise same kind and text -/
inductive SameL : List Tok → List Tok → Prop where
  | nil : SameL [] []
  | cons {a b : Tok} {as bs : List Tok} : Tok.Same a b → SameL as bs → SameL (a :: as) (b :: bs)

theorem sameL_place : ∀ (l : List PTok) (s : Nat × Nat), SameL (place s l) (l.map PTok.bare)
  | [], _ => .nil
  | t :: l, s => .cons (same_put s t) (sameL_place l _)

theorem SameL.append {a b c d : List Tok} (h1 : SameL a b) (h2 : SameL c d) :
    SameL (a ++ c) (b ++ d) := by
  induction h1 with
  | nil => exact h2
  | cons hab _ ih => exact .cons hab ih

theorem parenBal_same {a b : List Tok} (h : SameL a b) : ∀ d, parenBal a d = parenBal b d := by
  induction h with
  | nil => intro d; rfl
  | cons hab _ ih =>
    intro d
    simp only [parenBal, hab.isOpen, hab.isClose, ih]

theorem groupsOnly_same {a b : List Tok} (h : SameL a b) : ∀ d, groupsOnly a d = groupsOnly b d := by
  induction h with
  | nil => intro d; rfl
  | cons hab _ ih =>
    intro d
    simp only [groupsOnly, hab.isOpen, hab.isClose, ih]

theorem noCall_same {a b : List Tok} (h : SameL a b) : noCall a = noCall b := by
  induction h with
  | nil => rfl
  | cons hab hr ih =>
    cases hr with
    | nil => rfl
    | cons hcd hr' =>
      simp only [noCall, hab.isName, hcd.isOpen]
      rw [ih]

theorem headerShape_same {a b : List Tok} (h : SameL a b) : headerShape a = headerShape b := by
  cases h with
  | nil => rfl
  | cons hab hr =>
    cases hr with
    | nil => rfl
    | cons hcd hr' =>
      simp only [headerShape, hab.isName, hcd.isOpen, groupsOnly_same hr']

theorem headerOK_same {a b : List Tok} (h : SameL a b) : headerOK a = headerOK b := by
  unfold headerOK
  rw [headerShape_same h]
  congr 1
  cases h with
  | nil => rfl
  | cons _ hr => exact noCall_same hr

/-- same shape, tokens of the same kind and text -/
inductive Prog.Sim : Prog Tok → Prog Tok → Prop where
  | nil : Sim .nil .nil
  | leaf {a b : Tok} {r r' : Prog Tok} : Tok.Same a b → Sim r r' → Sim (.leaf a r) (.leaf b r')
  | group {op op' cl cl' : Tok} {i i' r r' : Prog Tok} : Tok.Same op op' → Tok.Same cl cl' →
      Sim i i' → Sim r r' → Sim (.group op cl i r) (.group op' cl' i' r')
  | fn {h h' : Prog Tok} {k : Nat} {g g' : List Tok} {op op' cl cl' : Tok} {b b' r r' : Prog Tok} :
      Sim h h' → SameL g g' → Tok.Same op op' → Tok.Same cl cl' → Sim b b' → Sim r r' →
      Sim (.fn h k g op cl b r) (.fn h' k g' op' cl' b' r')

theorem sim_locate : ∀ (p : Prog PTok) (s : Nat × Nat), Prog.Sim (locate s p) p.bare
  | .nil, _ => .nil
  | .leaf t rest, s => .leaf (same_put s t) (sim_locate rest _)
  | .group op cl items rest, _ =>
    .group (same_put _ op) (same_put _ cl) (sim_locate items _) (sim_locate rest _)
  | .fn hdr _ gap op cl body rest, _ =>
    .fn (sim_locate hdr _) (sameL_place gap _) (same_put _ op) (same_put _ cl)
      (sim_locate body _) (sim_locate rest _)

theorem Prog.Sim.flat {p q : Prog Tok} (h : Prog.Sim p q) : SameL p.flat q.flat := by
  induction h with
  | nil => exact .nil
  | leaf hab _ ih => exact .cons hab ih
  | group hop hcl _ _ ih1 ih2 => exact .cons hop (ih1.append (.cons hcl ih2))
  | fn _ hg hop hcl _ _ ih1 ih2 ih3 =>
    exact ih1.append (hg.append (.cons hop (ih2.append (.cons hcl ih3))))

theorem Prog.Sim.afterRun {p q : Prog Tok} (h : Prog.Sim p q) :
    ∀ d, Prog.Sim (p.afterRun d) (q.afterRun d) := by
  induction h with
  | nil => intro d; exact .nil
  | leaf hab hr ih =>
    intro d
    simp only [Prog.afterRun, hab.isOpen, hab.isClose]
    split
    · exact ih _
    · cases d with
      | zero => exact .leaf hab hr
      | succ d' =>
        simp only
        split
        · exact ih _
        · exact ih _
  | group hop hcl hi hr _ ih2 =>
    intro d
    cases d with
    | zero => exact .group hop hcl hi hr
    | succ d' => exact ih2 _
  | fn hh hg hop hcl hb hr _ _ ih3 =>
    intro d
    cases d with
    | zero => exact .fn hh hg hop hcl hb hr
    | succ d' => exact ih3 _

/-- the tests of a `CanonCfg` look at kinds and texts only -/
structure CfgSame (C : CanonCfg) : Prop where
  hdr : ∀ a b k, SameL a b → C.hdrOK a k = C.hdrOK b k
  gap : ∀ a b, SameL a b → C.gapOK a = C.gapOK b
  follows : ∀ p q, Prog.Sim p q → C.follows p = C.follows q
  exempt : ∀ a b, Tok.Same a b → C.exempt a = C.exempt b
  joins : ∀ a b, Tok.Same a b → C.joins a = C.joins b

theorem falseHeaderAfter_sim {C : CanonCfg} (hC : CfgSame C) {p q : Prog Tok}
    (h : Prog.Sim p q) : p.falseHeaderAfter C = q.falseHeaderAfter C := by
  cases h with
  | nil => rfl
  | leaf hab hr =>
    simp only [Prog.falseHeaderAfter, hab.isOpen, hC.follows _ _ (hr.afterRun 1)]
  | group => rfl
  | fn => rfl

theorem startsWithFn_sim {p q : Prog Tok} (h : Prog.Sim p q) :
    p.startsWithFn = q.startsWithFn := by
  cases h <;> rfl

theorem canonWith_sim {C : CanonCfg} (hC : CfgSame C) {p q : Prog Tok} (h : Prog.Sim p q) :
    ∀ ex, p.canonWith C ex = q.canonWith C ex := by
  induction h with
  | nil => intro ex; rfl
  | leaf hab hr ih =>
    intro ex
    simp only [Prog.canonWith, hab.isName, falseHeaderAfter_sim hC hr, hC.exempt _ _ hab,
      hC.joins _ _ hab, startsWithFn_sim hr, ih]
  | group _ _ hi _ ih1 ih2 =>
    intro ex
    simp only [Prog.canonWith, parenBal_same hi.flat, ih1, ih2]
  | fn hh hg _ _ hb _ _ ih2 ih3 =>
    intro ex
    simp only [Prog.canonWith, hC.hdr _ _ _ hh.flat, hC.gap _ _ hg, parenBal_same hb.flat, ih2, ih3]

theorem flat_bare (p : Prog PTok) : p.bare.flat = p.flat.map PTok.bare := flat_map _ p

/-! ## the two instances -/

theorem sameL_isEmpty {a b : List Tok} (h : SameL a b) : a.isEmpty = b.isEmpty := by
  cases h <;> rfl

theorem startsWithGroup_sim {p q : Prog Tok} (h : Prog.Sim p q) :
    p.startsWithGroup = q.startsWithGroup := by
  cases h <;> rfl

theorem headerOK0_same {a b : List Tok} (k : Nat) (h : SameL a b) :
    headerOK0 a k = headerOK0 b k := by
  unfold headerOK0; rw [headerOK_same h]

theorem cfgC_same : CfgSame cfgC where
  hdr := fun _ _ k h => headerOK0_same k h
  gap := fun _ _ h => sameL_isEmpty h
  follows := fun _ _ h => startsWithGroup_sim h
  exempt := fun _ _ _ => rfl
  joins := fun _ _ _ => rfl

theorem all_gapTok_same {a b : List Tok} (h : SameL a b) : a.all Tok.gapTok = b.all Tok.gapTok := by
  induction h with
  | nil => rfl
  | cons hab _ ih => simp only [List.all_cons, hab.gapTok, ih]

theorem javaGapOK_same {a b : List Tok} (h : SameL a b) : javaGapOK a = javaGapOK b := by
  cases h with
  | nil => rfl
  | cons hab hr => simp only [javaGapOK, hab.isKw, all_gapTok_same hr]

theorem noSemiAhead_sim {p q : Prog Tok} (h : Prog.Sim p q) : p.noSemiAhead = q.noSemiAhead := by
  induction h with
  | nil => rfl
  | leaf hab _ ih => simp only [Prog.noSemiAhead, hab.2, ih]
  | group => rfl
  | fn => rfl

theorem javaFollows_sim {p q : Prog Tok} (h : Prog.Sim p q) : p.javaFollows = q.javaFollows := by
  cases h with
  | nil => rfl
  | leaf hab hr => simp only [Prog.javaFollows, hab.isKw, noSemiAhead_sim hr]
  | group => rfl
  | fn => rfl

theorem cfgJava_same : CfgSame cfgJava where
  hdr := fun _ _ k h => headerOK0_same k h
  gap := fun _ _ h => javaGapOK_same h
  follows := fun _ _ h => javaFollows_sim h
  exempt := fun _ _ h => by simp only [cfgJava, javaExempt, h.isKw]
  joins := fun _ _ _ => rfl

/-! ## JavaScript, TypeScript -/

theorem Tok.Same.isOperator {a b : Tok} (h : Tok.Same a b) (s : Str) :
    a.isOperator s = b.isOperator s := by
  unfold Tok.isOperator; rw [h.1, h.2]

theorem funHeaderOK_same {a b : List Tok} (k : Nat) (h : SameL a b) :
    funHeaderOK a k = funHeaderOK b k := by
  unfold funHeaderOK
  rw [headerOK_same h]
  congr 2
  cases h with
  | nil => rfl
  | cons hab hr => simp only [hab.isKw, headerOK_same hr]

theorem cfgJs_same : CfgSame cfgJs where
  hdr := fun _ _ k h => funHeaderOK_same k h
  gap := fun _ _ h => sameL_isEmpty h
  follows := fun _ _ h => startsWithGroup_sim h
  exempt := fun _ _ _ => rfl
  joins := fun _ _ h => h.isKw _

theorem tsGapOK_same {a b : List Tok} (h : SameL a b) : tsGapOK a = tsGapOK b := by
  cases h with
  | nil => rfl
  | cons hab hr => simp only [tsGapOK, hab.isOperator, all_gapTok_same hr]

theorem tsFollows_sim {p q : Prog Tok} (h : Prog.Sim p q) : p.tsFollows = q.tsFollows := by
  cases h with
  | nil => rfl
  | leaf hab hr => simp only [Prog.tsFollows, hab.isOperator, noSemiAhead_sim hr]
  | group => rfl
  | fn => rfl

theorem cfgTs_same : CfgSame cfgTs where
  hdr := fun _ _ k h => funHeaderOK_same k h
  gap := fun _ _ h => tsGapOK_same h
  follows := fun _ _ h => tsFollows_sim h
  exempt := fun _ _ _ => rfl
  joins := fun _ _ h => h.isKw _

theorem groupsLen_same {a b : List Tok} (h : SameL a b) :
    ∀ d, Syn.groupsLen a d = Syn.groupsLen b d := by
  induction h with
  | nil => intro d; rfl
  | cons hab _ ih =>
    intro d
    simp only [Syn.groupsLen, hab.isOpen, hab.isClose, ih]

theorem SameL.drop {a b : List Tok} (h : SameL a b) : ∀ n, SameL (a.drop n) (b.drop n) := by
  induction h with
  | nil => intro n; simp only [List.drop_nil]; exact .nil
  | cons hab hr ih =>
    intro n
    cases n with
    | zero => exact .cons hab hr
    | succ n' => simpa using ih n'

theorem arrowSyms_same {x y : List Tok} (h : SameL x y) :
    startsArrowBody x = startsArrowBody y := by
  cases h with
  | nil => rfl
  | cons hab hr =>
    cases hr with
    | nil => rfl
    | cons hcd _ => simp only [startsArrowBody, hab.isSymbol, hcd.isSymbol]

theorem arrowBodyAfterRun_same {a b : List Tok} (h : SameL a b) :
    arrowBodyAfterRun a = arrowBodyAfterRun b := by
  unfold arrowBodyAfterRun
  rw [groupsLen_same h 0, arrowSyms_same (h.drop (Syn.groupsLen b 0))]
  congr 1
  cases h with
  | nil => rfl
  | cons hab _ => simp [hab.isOpen]

theorem arrowAfterAssign_same {a b : List Tok} (h : SameL a b) :
    arrowAfterAssign a = arrowAfterAssign b := by
  unfold arrowAfterAssign
  rw [arrowBodyAfterRun_same h]
  congr 1
  cases h with
  | nil => rfl
  | cons hab hr => simp only [hab.isKw, arrowBodyAfterRun_same hr]

theorem noAssignedArrow_same {a b : List Tok} (h : SameL a b) :
    noAssignedArrow a = noAssignedArrow b := by
  induction h with
  | nil => rfl
  | cons hab hr ih => simp only [noAssignedArrow, hab.isOperator, arrowAfterAssign_same hr, ih]

/-- **the canonical fragment of the C family does not depend on the locations** -/
theorem canon_locate (p : Prog PTok) (s : Nat × Nat) : (locate s p).Canon = p.bare.Canon := by
  unfold Prog.Canon
  rw [canonWith_sim cfgC_same (sim_locate p s), parenBal_same (sim_locate p s).flat]

/-- **the canonical fragment of Java does not depend on the locations** -/
theorem canonJava_locate (p : Prog PTok) (s : Nat × Nat) :
    (locate s p).CanonJava = p.bare.CanonJava := by
  unfold Prog.CanonJava
  rw [canonWith_sim cfgJava_same (sim_locate p s), parenBal_same (sim_locate p s).flat]

/-- **the canonical fragment of JavaScript does not depend on the locations** -/
theorem canonJs_locate (p : Prog PTok) (s : Nat × Nat) : (locate s p).CanonJs = p.bare.CanonJs := by
  unfold Prog.CanonJs
  rw [canonWith_sim cfgJs_same (sim_locate p s), parenBal_same (sim_locate p s).flat,
    noAssignedArrow_same (sim_locate p s).flat]

/-- **the canonical fragment of TypeScript does not depend on the locations** -/
theorem canonTs_locate (p : Prog PTok) (s : Nat × Nat) : (locate s p).CanonTs = p.bare.CanonTs := by
  unfold Prog.CanonTs
  rw [canonWith_sim cfgTs_same (sim_locate p s), parenBal_same (sim_locate p s).flat,
    noAssignedArrow_same (sim_locate p s).flat]

end CL
