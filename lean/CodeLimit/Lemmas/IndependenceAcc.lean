import CodeLimit.Lemmas.Independence
/-!
# Independence of `Pattern.consume` / `find_all` from set order and id counter, for predicates
with state (C06, engine part, general acceptors)

`Pattern.consume` evaluates *every* transition of the current state in the iteration order of
the row and mutates the pattern's copy of each predicate it evaluates. For an acceptor whose
predicate evaluations commute (`AccCompat`: evaluating predicate `p` does not change the
verdict of a different predicate `p'`, and the two final predicate states are equivalent), the
outcome of `consume` on a row with pairwise distinct labels is independent of the order of the
row. Hence two tables of the same pattern are bisimilar also as machines over stateful
predicates.
-/
namespace CL

variable {α π β : Type}

/-- predicate evaluations of the acceptor `C` commute up to the equivalence `E` of predicate
states -/
structure AccCompat (C : Acceptor α π β) (E : π → π → Prop) : Prop where
  refl : ∀ ps, E ps ps
  trans : ∀ {a b c}, E a b → E b c → E a c
  cong : ∀ p x {ps ps'}, E ps ps' →
    (C.accept p ps x).1 = (C.accept p ps' x).1 ∧ E (C.accept p ps x).2 (C.accept p ps' x).2
  comm_fst : ∀ p p' ps x, p ≠ p' → (C.accept p (C.accept p' ps x).2 x).1 = (C.accept p ps x).1
  comm_snd : ∀ p p' ps x, p ≠ p' →
    E (C.accept p' (C.accept p ps x).2 x).2 (C.accept p (C.accept p' ps x).2 x).2

/-- relation between two outcomes of `consumeAux` -/
def CRel (T : DState → DState → Prop) (E : π → π → Prop) :
    Except Err (Option DState × π) → Except Err (Option DState × π) → Prop :=
  ExRel (fun a b => OptRel T a.1 b.1 ∧ E a.2 b.2)

/-- rows with the same labels in the same positions and related targets -/
abbrev RowRel (T : DState → DState → Prop) : List (α × DState) → List (α × DState) → Prop :=
  ListRel (fun e e' => e.1 = e'.1 ∧ T e.2 e'.2)

theorem ListRel.refl' {X : Type} {P : X → X → Prop} (h : ∀ a, P a a) (l : List X) :
    ListRel P l l := by
  induction l with
  | nil => exact .nil
  | cons a l ih => exact .cons (h a) ih

theorem optRel_isSome {T : DState → DState → Prop} {f f' : Option DState} (h : OptRel T f f') :
    f.isSome = f'.isSome := by
  cases f <;> cases f' <;> simp_all [OptRel]

section
variable {C : Acceptor α π β} {E : π → π → Prop} (hC : AccCompat C E)
include hC

/-- pointwise related rows, related inputs: related outcomes -/
theorem consumeAux_rel {T : DState → DState → Prop} (x : β) {row row' : List (α × DState)}
    (hrow : RowRel T row row') :
    ∀ {f f' : Option DState} {ps ps' : π}, OptRel T f f' → E ps ps' →
      CRel T E (consumeAux C x row f ps) (consumeAux C x row' f' ps') := by
  induction hrow with
  | nil => intro f f' ps ps' hf hE; exact ⟨hf, hE⟩
  | @cons e e' l l' he _ ih =>
    intro f f' ps ps' hf hE
    obtain ⟨p, t⟩ := e
    obtain ⟨p', t'⟩ := e'
    obtain ⟨hp, ht⟩ := he
    simp only at hp ht
    subst hp
    obtain ⟨h1, h2⟩ := hC.cong p x hE
    simp only [consumeAux, ← h1, ← optRel_isSome hf]
    split
    · split
      · exact rfl
      · exact ih (f := some t) (f' := some t') ht h2
    · exact ih hf h2

theorem crel_trans {T : DState → DState → Prop}
    {a b c : Except Err (Option DState × π)} (h1 : CRel Eq E a b) (h2 : CRel T E b c) :
    CRel T E a c := by
  rcases a with ea | ⟨fa, pa⟩ <;> rcases b with eb | ⟨fb, pb⟩ <;> rcases c with ec | ⟨fc, pc⟩ <;>
    simp only [CRel, ExRel] at h1 h2 ⊢
  · exact h1.trans h2
  · obtain ⟨h11, h12⟩ := h1
    obtain ⟨h21, h22⟩ := h2
    refine ⟨?_, hC.trans h12 h22⟩
    have : fa = fb := by
      cases fa <;> cases fb <;> simp_all [OptRel]
    rw [this]; exact h21

/-- a permutation of a row with pairwise distinct labels gives an equivalent outcome -/
theorem consumeAux_perm (x : β) {row row' : List (α × DState)} (hp : row.Perm row') :
    (row.map (·.1)).Nodup → ∀ (f : Option DState) (ps : π),
      CRel Eq E (consumeAux C x row f ps) (consumeAux C x row' f ps) := by
  have hrefl : ∀ (l : List (α × DState)) (f : Option DState) {ps ps' : π}, E ps ps' →
      CRel Eq E (consumeAux C x l f ps) (consumeAux C x l f ps') := by
    intro l f ps ps' hE
    refine consumeAux_rel hC x (ListRel.refl' (fun _ => ⟨rfl, rfl⟩) l) ?_ hE
    cases f <;> simp [OptRel]
  induction hp with
  | nil => intro _ f ps; exact hrefl [] f (hC.refl ps)
  | @cons e l l' _ ih =>
    intro hnd f ps
    obtain ⟨p, t⟩ := e
    have hnd' : (l.map (·.1)).Nodup := (List.nodup_cons.1 hnd).2
    simp only [consumeAux]
    split
    · split
      · exact rfl
      · exact ih hnd' _ _
    · exact ih hnd' _ _
  | swap e e' l =>
    intro hnd f ps
    obtain ⟨p, t⟩ := e
    obtain ⟨p', t'⟩ := e'
    have hne : p ≠ p' := by
      intro h
      simp [h] at hnd
    have h1 := hC.comm_fst p p' ps x hne
    have h2 := hC.comm_fst p' p ps x (Ne.symm hne)
    have h3 := hC.comm_snd p' p ps x (Ne.symm hne)
    simp only [consumeAux]
    generalize C.accept p' ps x = a' at *
    generalize C.accept p ps x = a at *
    generalize C.accept p a'.2 x = b at *
    generalize C.accept p' a.2 x = b' at *
    rw [h1, h2]
    obtain ⟨a1, a2⟩ := a
    obtain ⟨a1', a2'⟩ := a'
    simp only at h1 h2 h3 ⊢
    cases a1 <;> cases a1' <;> cases hf : f.isSome <;>
      simp only [Bool.false_eq_true, if_false, if_true, Option.isSome_some] <;>
      first
        | exact rfl
        | exact hrefl l _ h3
  | @trans l1 l2 l3 h12 _ ih1 ih2 =>
    intro hnd f ps
    have hnd2 : (l2.map (·.1)).Nodup := ((h12.map (·.1)).nodup_iff).1 hnd
    exact crel_trans hC (ih1 hnd f ps) (ih2 hnd2 f ps)

end

/-! ## list plumbing -/

/-- a permutation of the image lifts to a permutation of the list -/
theorem exists_perm_map {X Y : Type} (g : X → Y) {m m' : List Y} (h : m.Perm m') :
    ∀ l : List X, l.map g = m → ∃ l', l.Perm l' ∧ l'.map g = m' := by
  induction h with
  | nil => intro l hl; exact ⟨l, .refl _, hl⟩
  | @cons y m1 m1' _ ih =>
    intro l hl
    cases l with
    | nil => cases hl
    | cons a l1 =>
      simp only [List.map_cons, List.cons.injEq] at hl
      obtain ⟨l1', hp, hm⟩ := ih l1 hl.2
      exact ⟨a :: l1', hp.cons a, by simp [hl.1, hm]⟩
  | swap y y' t =>
    intro l hl
    match l, hl with
    | a :: b :: l1, hl =>
      simp only [List.map_cons, List.cons.injEq] at hl
      exact ⟨b :: a :: l1, List.Perm.swap b a l1, by simp [hl.1, hl.2.1, hl.2.2]⟩
  | trans _ _ ih1 ih2 =>
    intro l hl
    obtain ⟨l2, hp2, hm2⟩ := ih1 l hl
    obtain ⟨l3, hp3, hm3⟩ := ih2 l2 hm2
    exact ⟨l3, hp2.trans hp3, hm3⟩

theorem rowRel_of_map_eq {T : DState → DState → Prop} :
    ∀ (l l' : List (α × DState)), l.map (·.1) = l'.map (·.1) →
      (∀ e ∈ l, ∀ e' ∈ l', e.1 = e'.1 → T e.2 e'.2) → RowRel T l l' := by
  intro l
  induction l with
  | nil =>
    intro l' hl _
    cases l' with
    | nil => exact .nil
    | cons _ _ => cases hl
  | cons e l ih =>
    intro l' hl hT
    cases l' with
    | nil => cases hl
    | cons e' l' =>
      simp only [List.map_cons, List.cons.injEq] at hl
      refine .cons ⟨hl.1, hT e (by simp) e' (by simp) hl.1⟩ (ih l' hl.2 ?_)
      intro a ha a' ha' h
      exact hT a (by simp [ha]) a' (by simp [ha']) h

theorem find?_fst_of_mem [DecidableEq α] {l : List (α × DState)} (hnd : (l.map (·.1)).Nodup)
    {e : α × DState} (he : e ∈ l) : l.find? (fun t => t.1 = e.1) = some e := by
  induction l with
  | nil => cases he
  | cons a l ih =>
    simp only [List.map_cons, List.nodup_cons, List.mem_map, not_exists, not_and] at hnd
    rcases List.mem_cons.1 he with rfl | he'
    · simp
    · have hne : a.1 ≠ e.1 := fun h => hnd.1 e he' h.symm
      rw [List.find?_cons_of_neg (by simpa using hne)]
      exact ih hnd.2 he'

theorem find?_fst_eq_none [DecidableEq α] (l : List (α × DState)) (a : α) :
    l.find? (fun t => t.1 = a) = none ↔ a ∉ l.map (·.1) := by
  rw [List.find?_eq_none]
  simp only [decide_eq_true_eq, List.mem_map, not_exists, not_and]

/-! ## two tables of the same pattern are bisimilar as machines over any commuting acceptor -/

section
variable [DecidableEq α] {r : Rx α} {base base' : Nat} {ord ord' : List α → List α}
  {D D' : Dfa α}

/-- DFA objects of the two tables reached on the same word (of predicates) -/
def TRel (D D' : Dfa α) (s s' : DState) : Prop :=
  ∃ u, dfaRun D .start u = some s ∧ dfaRun D' .start u = some s'

/-- related DFA objects, equivalent predicate states -/
def DRelAcc (E : π → π → Prop) (D D' : Dfa α) (q q' : DState × π) : Prop :=
  TRel D D' q.1 q'.1 ∧ E q.2 q'.2

/-- the rows of related objects are, up to a permutation, pointwise related -/
theorem rows_related (hord : IsOrder ord) (hord' : IsOrder ord')
    (hD : nfaToDfa (compile r base) ord = some D)
    (hD' : nfaToDfa (compile r base') ord' = some D') {s s' : DState} (h : TRel D D' s s') :
    ∃ row₂, (D.row s).Perm row₂ ∧ RowRel (TRel D D') row₂ (D'.row s') := by
  obtain ⟨u, hs, hs'⟩ := h
  have hnd := row_nodup (compile_wf r base) hord hD s
  have hnd' := row_nodup (compile_wf r base') hord' hD' s'
  have hperm : ((D.row s).map (·.1)).Perm ((D'.row s').map (·.1)) := by
    rw [List.perm_ext_iff_of_nodup hnd hnd']
    intro a
    rw [← not_iff_not, ← find?_fst_eq_none, ← find?_fst_eq_none, find_none_iff hord hD hs,
      find_none_iff hord' hD' hs']
  obtain ⟨row₂, hp, hm⟩ := exists_perm_map (·.1) hperm (D.row s) rfl
  refine ⟨row₂, hp, rowRel_of_map_eq row₂ (D'.row s') hm ?_⟩
  intro e he e' he' heq
  have he1 : e ∈ D.row s := hp.mem_iff.2 he
  have f1 := find?_fst_of_mem hnd he1
  have f2 := find?_fst_of_mem hnd' he'
  refine ⟨u ++ [e.1], ?_, ?_⟩
  · rw [dfaRun_snoc D e.1 hs, f1]; rfl
  · rw [heq, dfaRun_snoc D' e'.1 hs', f2]; rfl

theorem dfa_bisim_acc {C : Acceptor α π β} {E : π → π → Prop} (hC : AccCompat C E)
    (hord : IsOrder ord) (hord' : IsOrder ord')
    (hD : nfaToDfa (compile r base) ord = some D)
    (hD' : nfaToDfa (compile r base') ord' = some D') :
    Bisim (dfaMachine D C) (dfaMachine D' C) (DRelAcc E D D') where
  init := ⟨⟨[], rfl, rfl⟩, hC.refl _⟩
  acc := by
    rintro ⟨s, ps⟩ ⟨s', ps'⟩ ⟨⟨u, hs, hs'⟩, _⟩
    show D.isAcc s = D'.isAcc s'
    rw [Bool.eq_iff_iff, isAcc_iff_lang hord hD hs, isAcc_iff_lang hord' hD' hs']
  dead := by
    rintro ⟨s, ps⟩ ⟨s', ps'⟩ ⟨⟨u, hs, hs'⟩, _⟩
    show (D.row s).isEmpty = (D'.row s').isEmpty
    rw [Bool.eq_iff_iff, row_isEmpty_iff hord hD hs, row_isEmpty_iff hord' hD' hs']
  step := by
    rintro ⟨s, ps⟩ ⟨s', ps'⟩ x ⟨hT, hE⟩
    simp only at hT hE
    obtain ⟨row₂, hp, hrel⟩ := rows_related hord hord' hD hD' hT
    have h1 := consumeAux_perm hC x hp (row_nodup (compile_wf r base) hord hD s) none ps
    have h2 := consumeAux_rel hC x hrel (f := none) (f' := none) (by simp [OptRel]) hE
    have h := crel_trans hC h1 h2
    show ExRel (OptRel (DRelAcc E D D')) (consume C (D.row s) ps x) (consume C (D'.row s') ps' x)
    unfold consume
    rcases e1 : consumeAux C x (D.row s) none ps with e | ⟨_ | t, qs⟩ <;>
      rcases e2 : consumeAux C x (D'.row s') none ps' with e' | ⟨_ | t', qs'⟩ <;>
      rw [e1, e2] at h <;> simp only [CRel, ExRel, OptRel] at h ⊢
    all_goals first | exact h | exact h.1.elim

end

/-! ## `match` / `starts_with` on bisimilar machines -/

section
variable {σ σ' : Type} {A : Machine β σ} {A' : Machine β σ'} {R : σ → σ' → Prop}

theorem matchM_bisim (hB : Bisim A A' R) (w : List β) :
    ∀ {s : σ} {s' : σ'} (n : Nat), R s s' → matchM A s w n = matchM A' s' w n := by
  induction w with
  | nil => intro s s' n h; simp only [matchM, hB.acc _ _ h]
  | cons x xs ih =>
    intro s s' n h
    have hs := hB.step _ _ x h
    simp only [matchM]
    rcases e1 : A.step s x with e | (_ | t) <;> rcases e2 : A'.step s' x with e' | (_ | t') <;>
      rw [e1, e2] at hs <;> simp only [ExRel, OptRel] at hs ⊢
    · rw [hs]
    · exact ih (n + 1) hs

theorem startsWithM_bisim (hB : Bisim A A' R) (w : List β) :
    ∀ {s : σ} {s' : σ'} (n : Nat), R s s' → startsWithM A s w n = startsWithM A' s' w n := by
  induction w with
  | nil => intro s s' n h; rfl
  | cons x xs ih =>
    intro s s' n h
    have hs := hB.step _ _ x h
    simp only [startsWithM]
    rcases e1 : A.step s x with e | (_ | t) <;> rcases e2 : A'.step s' x with e' | (_ | t') <;>
      rw [e1, e2] at hs <;> simp only [ExRel, OptRel] at hs ⊢
    · rw [hs]
    · rw [hB.acc _ _ hs, ih (n + 1) hs]

end

end CL
