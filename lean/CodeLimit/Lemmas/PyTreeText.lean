import CodeLimit.Model.PyTreeText
import CodeLimit.Lemmas.ProgText
import CodeLimit.Lemmas.PyTreeBasic
/-!
# Source text of a Python indentation tree: the raw stream tiles it, `lex` recovers the rendering

* `rawOk_pyRawFrom` - `pyRawFrom` satisfies the lexer contract on `pyTextFrom` (no side condition);
* `lex_pyRawFrom` - positions computed by `lex` on `pyTextFrom` are those assigned by `place`, and
  exactly the tokens of the forest are kept (needs `pySpacedAfter` and "no whitespace token");
  token texts may contain line breaks;
* `pyTextFrom_eq_textFrom`, `pyRawFrom_eq_rawFrom` - for token texts without line breaks the text
  and the raw stream are those of `Model/ProgText.lean`.
-/
namespace CL

theorem tailLen_eq (s : Str) : tailLen s = lastLineLen s := rfl

theorem put_line (s : Nat × Nat) (t : PTok) : (t.put s).line = s.1 + t.nl := by
  unfold PTok.put; split
  · rename_i h; simp [h]
  · rfl

theorem put_col (s : Nat × Nat) (t : PTok) :
    (t.put s).col = if t.nl = 0 then s.2 + 1 + t.col else 1 + t.col := by
  unfold PTok.put; split <;> rfl

/-! ## the gap -/

theorem pyGap_all_space (s : Nat × Nat) (pv : Str) (t : PTok) :
    (t.pyGap s pv).all isSpaceChar = true := by
  have h32 : isSpaceChar 32 = true := by decide
  have h10 : isSpaceChar 10 = true := by decide
  unfold PTok.pyGap
  split
  · simp only [blanks, List.all_eq_true, List.mem_replicate]
    rintro x ⟨_, rfl⟩; exact h32
  · simp only [blanks, lineBreaks, List.all_append, Bool.and_eq_true, List.all_eq_true,
      List.mem_replicate]
    exact ⟨by rintro x ⟨_, rfl⟩; exact h10, by rintro x ⟨_, rfl⟩; exact h32⟩

/-- what `PTok.gapOk` says -/
theorem gapOk_iff (pv : Str) (t : PTok) :
    t.gapOk pv = true ↔
      pv.count 10 < t.nl ∨
        (t.nl = pv.count 10 ∧
          ((pv.count 10 = 0 ∧ pv.length ≤ t.col + 1) ∨ (pv.count 10 ≠ 0 ∧ tailLen pv ≤ t.col))) := by
  unfold PTok.gapOk
  by_cases h : pv.count 10 = 0 <;> simp [h]

/-- **the position after the gap**: the write position after `pre` is on the line on which the
previous token (text `pv`, located at `s`) ends, one past its last character; then after the gap
it is where `PTok.put` places `t` -/
theorem pyGap_pos (pre : Str) (s : Nat × Nat) (pv : Str) (t : PTok)
    (hl : 1 + pre.count 10 = s.1 + pv.count 10) (hc : lastLineLen pre + 1 = endCol s pv)
    (hg : t.gapOk pv = true) :
    1 + (pre ++ t.pyGap s pv).count 10 = (t.put s).line ∧
      lastLineLen (pre ++ t.pyGap s pv) + 1 = (t.put s).col := by
  rw [gapOk_iff] at hg
  unfold PTok.pyGap
  simp only [put_line, put_col, endCol, tailLen_eq] at hc hg ⊢
  by_cases hk : t.nl ≤ pv.count 10
  · rw [if_pos hk, List.count_append, count_blanks, lastLineLen_append, if_neg (not_mem_blanks _),
      length_blanks]
    rcases hg with hg | ⟨h1, ⟨h2, h3⟩ | ⟨h2, h3⟩⟩
    · omega
    · have h0 : t.nl = 0 := by omega
      rw [if_pos h2] at hc
      rw [if_pos h2, if_pos h0]
      omega
    · have h0 : t.nl ≠ 0 := by omega
      rw [if_neg h2] at hc
      rw [if_neg h2, if_neg h0]
      omega
  · have h0 : t.nl ≠ 0 := by omega
    have hm : 10 ∈ lineBreaks (t.nl - pv.count 10) ++ blanks t.col := by
      simp only [List.mem_append, lineBreaks, List.mem_replicate]
      exact Or.inl ⟨by omega, trivial⟩
    rw [if_neg hk, List.count_append, List.count_append, count_blanks, count_lineBreaks,
      lastLineLen_append, if_pos hm, lastLineLen_append, if_neg (not_mem_blanks _),
      lastLineLen_lineBreaks, length_blanks, if_neg h0]
    omega

/-! ## the raw stream satisfies the lexer contract -/

/-- `pyRawFrom` tiles `pyTextFrom`: every raw token's value is the text at its offset, and
offsets are contiguous.  No side condition. -/
theorem rawOk_pyRawFrom : ∀ (l : List PTok) (off : Nat) (s : Nat × Nat) (pv : Str),
    RawOkFrom off (pyTextFrom s pv l) (pyRawFrom off s pv l)
  | [], off, _, _ => by
    exact rawOkFrom_cons_append off ⟨off, 6, 0, [10]⟩ [] [] rfl trivial
  | t :: ts, off, s, pv => by
    unfold pyTextFrom pyRawFrom
    apply rawOkFrom_ws
    apply rawOkFrom_cons_append _ ⟨_, t.kind, t.ty, t.val⟩ _ _ rfl
    exact rawOk_pyRawFrom ts _ _ _

/-- the text is the concatenation of the raw values -/
theorem pyTextFrom_eq_join : ∀ (l : List PTok) (off : Nat) (s : Nat × Nat) (pv : Str),
    pyTextFrom s pv l = (pyRawFrom off s pv l).flatMap (·.val)
  | [], _, _, _ => rfl
  | t :: ts, off, s, pv => by
    unfold pyTextFrom pyRawFrom
    rw [List.flatMap_append, List.flatMap_cons, ← pyTextFrom_eq_join ts]
    congr 1
    unfold wsTok
    cases h : t.pyGap s pv <;> simp

/-! ## `lex` on the text -/

/-- **positions and filtering.**  Let `code = pre ++ pyTextFrom s pv l` where the write position
after `pre` is one past the end of a token with text `pv` that starts at `s`.  Under the spacing
condition and if no token is a whitespace token, placing the raw tokens at the line and column of
their offsets and dropping whitespace (and comments unless `kc`) gives the layout `place s l`. -/
theorem lex_pyRawFrom : ∀ (l : List PTok) (pre : Str) (s : Nat × Nat) (pv : Str) (off : Nat)
    (code : Str) (kc : Bool),
    code = pre ++ pyTextFrom s pv l → off = pre.length →
    1 + pre.count 10 = s.1 + pv.count 10 → lastLineLen pre + 1 = endCol s pv →
    pySpacedAfter pv l = true → l.all (fun t => !t.bare.isWhitespace) = true →
    (∀ t ∈ l, t.bare.isComment = true → kc = true) →
    ((pyRawFrom off s pv l).map (tokAt code)).filter (keepTok kc) = place s l
  | [], pre, s, pv, off, code, kc, _, _, _, _, _, _, _ => by
    have h10 : ([10] : Str).all isSpaceChar = true := by decide
    simp only [pyRawFrom, List.map_cons, List.map_nil, place]
    rw [List.filter_cons, keepTok_ws h10]; rfl
  | t :: ts, pre, s, pv, off, code, kc, hcode, hoff, hl, hc, hsp, hws, hcm => by
    simp only [pySpacedAfter, Bool.and_eq_true] at hsp
    obtain ⟨⟨_, hg⟩, hsp'⟩ := hsp
    rw [List.all_cons, Bool.and_eq_true, Bool.not_eq_true'] at hws
    obtain ⟨hws1, hws'⟩ := hws
    obtain ⟨hline, hcol⟩ := pyGap_pos pre s pv t hl hc hg
    -- the gap's whitespace token is dropped
    have hgapf : ((wsTok off (t.pyGap s pv)).map (tokAt code)).filter (keepTok kc) = [] := by
      unfold wsTok
      split
      · rfl
      · simp only [List.map_cons, List.map_nil]
        rw [List.filter_cons, keepTok_ws (pyGap_all_space _ _ _)]; rfl
    -- the token itself
    have hcode' : code = pre ++ t.pyGap s pv ++ (t.val ++ pyTextFrom (t.put s).loc t.val ts) := by
      rw [hcode, pyTextFrom]; simp
    have hoff' : off + (t.pyGap s pv).length = (pre ++ t.pyGap s pv).length := by
      rw [hoff, List.length_append]
    have htok : tokAt code ⟨off + (t.pyGap s pv).length, t.kind, t.ty, t.val⟩ = t.put s := by
      rw [hoff', hcode']
      simp only [tokAt, lineOf_eq, colOf_eq, hline, hcol]
      unfold PTok.put; split <;> rfl
    -- the rest, by induction with the prefix extended by the gap and the token
    have ih := lex_pyRawFrom ts (pre ++ t.pyGap s pv ++ t.val) (t.put s).loc t.val
      (off + (t.pyGap s pv).length + t.val.length) code kc
      (by rw [hcode']; simp) (by rw [hoff]; simp [Nat.add_assoc])
      (by
        rw [List.count_append]
        simp only [Tok.loc]
        omega)
      (by
        rw [lastLineLen_append]
        unfold endCol
        by_cases hm : 10 ∈ t.val
        · rw [if_pos hm, if_neg (by rw [List.count_eq_zero]; exact fun h => h hm), tailLen_eq]
        · rw [if_neg hm, if_pos (List.count_eq_zero.2 hm)]
          simp only [Tok.loc]
          omega)
      hsp' hws' (fun u hu => hcm u (List.mem_cons_of_mem _ hu))
    rw [pyRawFrom, List.map_append, List.filter_append, hgapf, List.nil_append, List.map_cons,
      List.filter_cons, htok,
      keepTok_put s hws1 (hcm t (List.mem_cons_self ..)), if_pos rfl, ih, place]

/-! ## no raw token is empty; blank characters; the last character -/

theorem pyRawFrom_nonempty : ∀ (l : List PTok) (off : Nat) (s : Nat × Nat) (pv : Str),
    pySpacedAfter pv l = true → ∀ t ∈ pyRawFrom off s pv l, t.val ≠ []
  | [], _, _, _, _, t, ht => by
    simp only [pyRawFrom, List.mem_singleton] at ht
    subst ht; simp
  | a :: as, off, s, pv, hsp, t, ht => by
    simp only [pySpacedAfter, Bool.and_eq_true, Bool.not_eq_true'] at hsp
    obtain ⟨⟨hne, _⟩, hsp'⟩ := hsp
    simp only [pyRawFrom, List.mem_append, List.mem_cons] at ht
    rcases ht with ht | rfl | ht
    · unfold wsTok at ht
      split at ht
      · cases ht
      · rename_i hg
        simp only [List.mem_singleton] at ht
        subst ht
        intro h; exact hg (by simpa using h)
    · intro h
      have : a.val = [] := h
      rw [this] at hne; cases hne
    · exact pyRawFrom_nonempty as _ _ _ hsp' t ht

theorem pyTextFrom_nonblank : ∀ (l : List PTok) (s : Nat × Nat) (pv : Str),
    (pyTextFrom s pv l).filter (fun c => c != 32 && c != 10)
      = (l.flatMap (·.val)).filter (fun c => c != 32 && c != 10)
  | [], _, _ => by simp [pyTextFrom]
  | t :: ts, s, pv => by
    have hg : (t.pyGap s pv).filter (fun c => c != 32 && c != 10) = [] := by
      rw [List.filter_eq_nil_iff]
      intro c hc
      unfold PTok.pyGap at hc
      split at hc
      · simp only [blanks, List.mem_replicate] at hc; simp [hc.2]
      · simp only [blanks, lineBreaks, List.mem_append, List.mem_replicate] at hc
        rcases hc with hc | hc <;> simp [hc.2]
    rw [pyTextFrom, List.filter_append, hg, List.nil_append, List.filter_append,
      pyTextFrom_nonblank ts, List.flatMap_cons, List.filter_append]

theorem pyTextFrom_getLast : ∀ (l : List PTok) (s : Nat × Nat) (pv : Str),
    (pyTextFrom s pv l).getLast? = some 10
  | [], _, _ => rfl
  | t :: ts, s, pv => by
    rw [pyTextFrom, List.getLast?_append, List.getLast?_append, pyTextFrom_getLast ts]
    rfl

/-! ## token texts without line breaks: the text of `Model/ProgText.lean` -/

/-- for token texts without line breaks the gap is `PTok.gapText` -/
theorem pyGap_eq_gapText (s : Nat × Nat) (pv : Str) (t : PTok) (h : 10 ∉ pv) :
    t.pyGap s pv = t.gapText s.2 (s.2 + pv.length) := by
  have hk : pv.count 10 = 0 := List.count_eq_zero.2 h
  unfold PTok.pyGap PTok.gapText endCol
  rw [hk, put_col]
  by_cases h0 : t.nl = 0
  · simp [h0]
  · rw [if_neg (by omega), if_neg h0]; rfl

/-- **reuse of `textFrom`**: if no token text contains a line break, `pyTextFrom` is `textFrom`
with the write position one past the end of the previous token -/
theorem pyTextFrom_eq_textFrom : ∀ (l : List PTok) (s : Nat × Nat) (pv : Str),
    10 ∉ pv → (∀ t ∈ l, 10 ∉ t.val) → pyTextFrom s pv l = textFrom s (s.2 + pv.length) l
  | [], _, _, _, _ => rfl
  | t :: ts, s, pv, h, hl => by
    rw [pyTextFrom, textFrom, pyGap_eq_gapText s pv t h,
      pyTextFrom_eq_textFrom ts _ _ (hl t (List.mem_cons_self ..))
        (fun u hu => hl u (List.mem_cons_of_mem _ hu))]
    rfl

theorem pyRawFrom_eq_rawFrom : ∀ (l : List PTok) (off : Nat) (s : Nat × Nat) (pv : Str),
    10 ∉ pv → (∀ t ∈ l, 10 ∉ t.val) → pyRawFrom off s pv l = rawFrom off s (s.2 + pv.length) l
  | [], _, _, _, _, _ => rfl
  | t :: ts, off, s, pv, h, hl => by
    rw [pyRawFrom, rawFrom, pyGap_eq_gapText s pv t h,
      pyRawFrom_eq_rawFrom ts _ _ _ (hl t (List.mem_cons_self ..))
        (fun u hu => hl u (List.mem_cons_of_mem _ hu))]
    rfl

/-- the layout of `l` after (0, 0) is the layout after (1, 0) of `l` with one line break less
before the first token -/
theorem put_decFirst (t : PTok) (h : t.nl ≠ 0) :
    ({ t with nl := t.nl - 1 } : PTok).put (1, 0) = t.put (0, 0) := by
  unfold PTok.put
  by_cases h1 : t.nl = 1
  · simp [h1]
  · have : t.nl - 1 ≠ 0 := by omega
    simp only [this, h, if_false]
    congr 1; omega

theorem place_decFirst (l : List PTok) (h : (l.headD default).nl ≠ 0 ∨ l = []) :
    place (1, 0) (decFirst l) = place (0, 0) l := by
  cases l with
  | nil => rfl
  | cons t ts =>
    have h' : t.nl ≠ 0 := by
      rcases h with h | h
      · exact h
      · cases h
    simp only [decFirst, place, put_decFirst t h']

/-- the first gap of a file -/
theorem pyGap_first (t : PTok) (h : t.nl ≠ 0) :
    t.pyGap (0, 0) [10] = ({ t with nl := t.nl - 1 } : PTok).gapText 0 1 := by
  unfold PTok.pyGap PTok.gapText endCol
  have hc : ([10] : Str).count 10 = 1 := rfl
  rw [hc, put_col, if_neg h]
  by_cases h1 : t.nl = 1
  · simp [h1, tailLen]
  · rw [if_neg (by omega), if_neg (by show t.nl - 1 ≠ 0; omega)]

/-- **reuse of `textFrom` for a whole file**: if no token text contains a line break and the
first token follows a line break, the text of the forest is the text `textFrom (1, 0) 1` of the
token list with one line break less before the first token -/
theorem pyTextFrom_first (l : List PTok) (h : (l.headD default).nl ≠ 0 ∨ l = [])
    (hl : ∀ t ∈ l, 10 ∉ t.val) :
    pyTextFrom (0, 0) [10] l = textFrom (1, 0) 1 (decFirst l) ∧
      pyRawFrom 0 (0, 0) [10] l = rawFrom 0 (1, 0) 1 (decFirst l) := by
  cases l with
  | nil => exact ⟨rfl, rfl⟩
  | cons t ts =>
    have h' : t.nl ≠ 0 := by
      rcases h with h | h
      · exact h
      · cases h
    have ht := hl t (List.mem_cons_self ..)
    have hts : ∀ u ∈ ts, 10 ∉ u.val := fun u hu => hl u (List.mem_cons_of_mem _ hu)
    simp only [decFirst, pyTextFrom, textFrom, pyRawFrom, rawFrom, pyGap_first t h',
      put_decFirst t h', pyTextFrom_eq_textFrom ts _ _ ht hts,
      pyRawFrom_eq_rawFrom ts _ _ _ ht hts]
    exact ⟨rfl, rfl⟩

end CL
