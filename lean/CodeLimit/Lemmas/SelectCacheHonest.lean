import CodeLimit.Lemmas.SelectCache
import CodeLimit.Spec.SelectCache
/-!
# An honest cached report changes nothing: per file, per scan, per history of scans
-/
namespace CL.Sel

theorem entryOf_withExcluded {O : Oracles} {ex : List Str → Bool} {k c : Str} {e : FileEntry} :
    EntryOf (O.withExcluded ex) k c e ↔ EntryOf O k c e := Iff.rfl

theorem honest_withExcluded {O : Oracles} {ex : List Str → Bool} {S : Str → Prop} {cached : Option CachedFiles} :
    HonestCache (O.withExcluded ex) S cached ↔ HonestCache O S cached := Iff.rfl

theorem inj_withExcluded {O : Oracles} {ex : List Str → Bool} {S : Str → Prop} :
    ChecksumInjOn (O.withExcluded ex) S ↔ ChecksumInjOn O S := Iff.rfl

theorem served_iff_hit {O : Oracles} {cached : Option CachedFiles} {p : List Str} {lang : Nat} {c : Str} :
    Served O cached p c ↔ (hitOf O cached (p, lang, c)).isSome = true := by
  unfold Served hitOf
  rw [Option.isSome_iff_exists]
  constructor
  · rintro ⟨files, ce, h1, h2, h3⟩
    exact ⟨ce, cacheHit_eq_some.2 ⟨files, h1, h2, h3⟩⟩
  · rintro ⟨ce, h⟩
    obtain ⟨files, h1, h2, h3⟩ := cacheHit_eq_some.1 h
    exact ⟨files, ce, h1, h2, h3⟩

theorem not_served_iff_miss {O : Oracles} {cached : Option CachedFiles} {p : List Str} {lang : Nat} {c : Str} :
    ¬ Served O cached p c ↔ (hitOf O cached (p, lang, c)).isNone = true := by
  rw [served_iff_hit (lang := lang)]
  cases hitOf O cached (p, lang, c) <;> simp

/-- the facts about an item of the selection -/
theorem item_facts {O : Oracles} {ch : List Node} (hwf : wfDir ch = true) {x : List Str × Nat × Str}
    (hx : x ∈ selection O ch) :
    x.1 ≠ [] ∧ (∀ y ∈ x.1, goodName y = true) ∧ O.langOf (baseName x.1) = some x.2.1 ∧
      Selected O ch x.1 x.2.2 x.2.1 := by
  obtain ⟨p, lang, c⟩ := x
  have hs := mem_selection.1 hx
  exact ⟨hs.1.ne_nil, hs.1.goodNames hwf, hs.2.2.2, hs⟩

/-- the analysis of a selected file is an `EntryOf` its key and bytes -/
theorem entryOf_of_analysis {O : Oracles} {ch : List Node} (hwf : wfDir ch = true)
    {x : List Str × Nat × Str} (hx : x ∈ selection O ch) {en : FileEntry} (h : analysisOf O x = .ok en) :
    EntryOf O (keyOf x) x.2.2 en := by
  obtain ⟨h1, h2, h3, _⟩ := item_facts hwf hx
  exact ⟨x.1, x.2.1, h1, h2, rfl, h3, h⟩

theorem analyzeFile_fields {O : Oracles} {k h : Str} {lang : Nat} {c : Str} {e : FileEntry}
    (ha : analyzeFile O k h lang c = .ok e) : e.path = k ∧ e.checksum = h ∧ e.lang = lang := by
  unfold analyzeFile at ha
  split at ha
  · cases ha
  · cases ha; exact ⟨rfl, rfl, rfl⟩

/-- **one file**: with an honest cached report and a checksum without collisions among the contents
involved, the entry `_scan_file` files for a selected file - reused or not - is the entry
`_analyze_file` would return -/
theorem entryC_eq_analysis_of_honest {O : Oracles} {S : Str → Prop} {cached : Option CachedFiles}
    {ch : List Node} (hwf : wfDir ch = true) (hh : HonestCache O S cached) (hinj : ChecksumInjOn O S)
    {x : List Str × Nat × Str} (hx : x ∈ selection O ch) (hS : S x.2.2) :
    entryC O cached x = analysisOf O x := by
  unfold entryC
  cases hhit : hitOf O cached x with
  | none => rfl
  | some ce =>
    obtain ⟨files, hc, hg, hsum⟩ := cacheHit_eq_some.1 hhit
    obtain ⟨c, hSc, p, lang, _, hgood, hk, hl, ha⟩ := hh files hc _ (dictGet_mem hg)
    obtain ⟨_, hgx, hlx, _⟩ := item_facts hwf hx
    have hp : p = x.1 := (joinPath_inj _ _ hgx hgood hk).symm
    subst hp
    have hlang : lang = x.2.1 := by rw [hlx] at hl; exact (Option.some.inj hl).symm
    subst hlang
    obtain ⟨hpath, hcs, _⟩ := analyzeFile_fields ha
    have hcc : c = x.2.2 := hinj _ _ hSc hS (by rw [← hcs, hsum])
    subst hcc
    simp only [analysisOf]
    rw [ha]
    congr 1
    obtain ⟨pa, cs, l, lo, ms⟩ := ce
    simp only at hpath hcs
    subst hpath; subst hcs
    rfl

/-- **one scan**: the result of a scan with an honest cached report is the result of a scan
without -/
theorem cached_result_eq_fresh {O : Oracles} {S : Str → Prop} {cached : Option CachedFiles} (rn : Str)
    {ch : List Node} (hwf : wfDir ch = true) (hh : HonestCache O S cached) (hinj : ChecksumInjOn O S)
    (hS : ∀ p c lang, Selected O ch p c lang → S c) :
    (scanPathCached O cached (.dir rn ch)).result = (scanPath O (.dir rn ch)).result := by
  rw [scanPathCached_eq O cached rn ch hwf, scanPath_eq O rn ch hwf, ← runSelC_none]
  have : (runSelC O cached (selection O ch)).2 = (runSelC O none (selection O ch)).2 := by
    apply runSelC_result_congr
    intro x hx
    rw [entryC_none]
    exact entryC_eq_analysis_of_honest hwf hh hinj hx (hS _ _ _ (item_facts hwf hx).2.2.2)
  simp only [this]
  rcases (runSelC O none (selection O ch)).2 with e | es <;> rfl

/-- what a completed scan without cache reports is honest -/
theorem fresh_result_honest {O : Oracles} {S : Str → Prop} (rn : Str) {ch : List Node} (hwf : wfDir ch = true)
    (hS : ∀ p c lang, Selected O ch p c lang → S c) {files : List (Str × FileEntry)}
    (h : (scanPath O (.dir rn ch)).result = .ok files) : HonestCache O S (some files) := by
  intro files' hf kv hkv
  cases hf
  obtain ⟨es, rfl, hr⟩ := entries_of_ok O rn ch hwf h
  obtain ⟨_, h2, _⟩ := runSel_ok hr
  simp only [asDict, List.mem_map] at hkv
  obtain ⟨e, he, rfl⟩ := hkv
  obtain ⟨x, hx, hxe⟩ := (mem_of_map_ok h2 e).1 he
  have hf := analysisOf_fields hxe
  refine ⟨x.2.2, hS _ _ _ (item_facts hwf hx).2.2.2, ?_⟩
  simp only [hf.1]
  exact entryOf_of_analysis hwf hx hxe

/-- the invariant is kept by a scan: the cached report the next scan finds is honest again -/
theorem nextCache_honest {O : Oracles} {S : Str → Prop} {cached : Option CachedFiles} (rn : Str)
    {ch : List Node} (hwf : wfDir ch = true) (hh : HonestCache O S cached) (hinj : ChecksumInjOn O S)
    (hS : ∀ p c lang, Selected O ch p c lang → S c) :
    HonestCache O S (nextCache cached (scanPathCached O cached (.dir rn ch))) := by
  unfold nextCache
  have heq := cached_result_eq_fresh rn hwf hh hinj hS
  cases hr : (scanPathCached O cached (.dir rn ch)).result with
  | error e => exact hh
  | ok files =>
    rw [hr] at heq
    exact fresh_result_honest rn hwf hS heq.symm

/-- **a history of scans**: after any sequence of scans of arbitrary (well-formed) trees under
arbitrary exclusion lines, the cached report is honest -/
theorem cacheAfter_honest {O : Oracles} {S : Str → Prop} (hinj : ChecksumInjOn O S) :
    ∀ (vs : List Visit) (cached : Option CachedFiles), HonestCache O S cached →
      (∀ v ∈ vs, wfDir v.entries = true) → (∀ v ∈ vs, ∀ p c, FileAt v.entries p c → S c) →
      HonestCache O S (cacheAfter O cached vs)
  | [], cached, hh, _, _ => hh
  | v :: vs, cached, hh, hwf, hS => by
    simp only [cacheAfter]
    apply cacheAfter_honest hinj vs
    · apply honest_withExcluded.1
      exact nextCache_honest v.rootName (hwf v (by simp)) (honest_withExcluded.2 hh) (inj_withExcluded.2 hinj)
        (fun p c lang hs => hS v (by simp) p c hs.1)
    · exact fun w hw => hwf w (List.mem_cons_of_mem _ hw)
    · exact fun w hw => hS w (List.mem_cons_of_mem _ hw)

end CL.Sel
