import CodeLimit.Spec.Cache
/-!
# A small instance of the byte contract of C10 (non-vacuity of `ByteContract` inside `Props/C10.lean`)

The instance for the real reader and writer is `C10real.real_contract` (it needs the whole
pipeline, which imports `Props/C10.lean`).  This one has the universe of `C09.exP`: paths,
contents, checksums and entries are numbers, the checksum is the identity (injective, NOT
constant), `analyze p c = 10 * p + c`.  A report is written as three bytes `p+2, h+2, e+2` per row,
an end mark `0` and a trailing blank `1`; the reader accepts exactly the complete texts with or
without the trailing blank.
-/
namespace CL.C10
open CL.Cache

def toyP : Params Nat Nat Nat Nat (List Nat) Nat :=
  { analyze := fun p c => 10 * p + c, hash := id, selected := fun e p => !e.contains p, cur := 1 }

def toyWrite : Report Nat Nat Nat → List Nat
  | [] => [0, 1]
  | (p, h, e) :: r => (p + 2) :: (h + 2) :: (e + 2) :: toyWrite r

def toyDec : List Nat → Option (Report Nat Nat Nat)
  | [0] => some []
  | [0, 1] => some []
  | a :: b :: c :: rest =>
    if 2 ≤ a ∧ 2 ≤ b ∧ 2 ≤ c then (toyDec rest).map ((a - 2, b - 2, c - 2) :: ·) else none
  | _ => none

def toyRead (bs : List Nat) : CacheFile Nat Nat Nat Nat :=
  match toyDec bs with
  | some r => .doc 1 r
  | none => .junk .unreadable

def toyWs (b : Nat) : Bool := b == 1

theorem toyDec_write (r : Report Nat Nat Nat) : toyDec (toyWrite r) = some r := by
  induction r with
  | nil => rfl
  | cons x r ih =>
    obtain ⟨p, h, e⟩ := x
    simp [toyWrite, toyDec, ih]

/-- a prefix of a written report: either it is cut inside the rows or the end mark, or only the
trailing blank is missing, or nothing is missing -/
theorem toyDec_prefix (r : Report Nat Nat Nat) (p : List Nat) (hp : p <+: toyWrite r) :
    (toyDec p = none ∧ ∃ b ∈ (toyWrite r).drop p.length, toyWs b = false) ∨
    (toyDec p = some r ∧ ∀ b ∈ (toyWrite r).drop p.length, toyWs b = true) := by
  induction r generalizing p with
  | nil =>
    obtain ⟨t, ht⟩ := hp
    match p, ht with
    | [], _ => exact Or.inl ⟨rfl, 0, by simp [toyWrite], rfl⟩
    | [a], ht =>
      simp only [toyWrite, List.cons_append, List.nil_append, List.cons.injEq] at ht
      obtain ⟨rfl, rfl⟩ := ht
      exact Or.inr ⟨rfl, by simp [toyWrite, toyWs]⟩
    | [a, b], ht =>
      simp only [toyWrite, List.cons_append, List.nil_append, List.cons.injEq] at ht
      obtain ⟨rfl, rfl, _⟩ := ht
      exact Or.inr ⟨rfl, by simp [toyWrite]⟩
    | a :: b :: c :: p, ht => simp [toyWrite] at ht
  | cons x r ih =>
    obtain ⟨pp, h, e⟩ := x
    have hne : ∃ b ∈ [pp + 2], toyWs b = false := ⟨pp + 2, by simp, by simp [toyWs]⟩
    obtain ⟨t, ht⟩ := hp
    match p, ht with
    | [], _ => exact Or.inl ⟨rfl, pp + 2, by simp [toyWrite], by simp [toyWs]⟩
    | [a], ht =>
      refine Or.inl ⟨?_, h + 2, by simp [toyWrite], by simp [toyWs]⟩
      simp only [toyWrite, List.cons_append, List.nil_append, List.cons.injEq] at ht
      obtain ⟨rfl, _⟩ := ht
      simp [toyDec]
    | [a, b], ht =>
      refine Or.inl ⟨?_, e + 2, by simp [toyWrite], by simp [toyWs]⟩
      simp only [toyWrite, List.cons_append, List.nil_append, List.cons.injEq] at ht
      obtain ⟨rfl, rfl, _⟩ := ht
      simp [toyDec]
    | a :: b :: c :: p, ht =>
      simp only [toyWrite, List.cons_append, List.cons.injEq] at ht
      obtain ⟨rfl, rfl, rfl, ht⟩ := ht
      rcases ih p ⟨t, ht⟩ with ⟨h1, h2⟩ | ⟨h1, h2⟩
      · exact Or.inl ⟨by simp [toyDec, h1], by simpa [toyWrite] using h2⟩
      · exact Or.inr ⟨by simp [toyDec, h1], by simpa [toyWrite] using h2⟩

/-- the byte contract holds for this reader and writer, for ALL reports over the universe -/
theorem toy_contract : ByteContract toyP Nat toyWs toyRead toyWrite (fun _ => True) := by
  constructor
  · intro r _
    simp [toyRead, toyDec_write, toyP]
  · intro r p _ hp hb
    rcases toyDec_prefix r p hp with ⟨h1, _⟩ | ⟨_, h2⟩
    · simp [toyRead, h1]
    · obtain ⟨b, hb, hw⟩ := hb
      rw [h2 b hb] at hw
      cases hw
  · intro r p _ hp hb
    rcases toyDec_prefix r p hp with ⟨_, b, hb', hw⟩ | ⟨h1, _⟩
    · rw [hb b hb'] at hw
      cases hw
    · simp [toyRead, h1, toyDec_write]

end CL.C10
