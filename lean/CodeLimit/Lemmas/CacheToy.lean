import CodeLimit.Spec.Cache
/-!
# A toy instance of the byte contract of C10 (non-vacuity of `ByteContract`)
-/
namespace CL.C10
open CL.Cache

/-- The byte contract is satisfiable: a toy serialisation of reports over one-element types
(a report is then just a number of rows): `n` ones, a zero, a trailing blank. -/
def toyWrite (r : Report Unit Unit Unit) : List Nat := List.replicate r.length 1 ++ [0, 32]

def toyRead (bs : List Nat) : CacheFile Unit Unit Unit Nat :=
  let n := (bs.takeWhile (· == 1)).length
  if bs = List.replicate n 1 ++ [0] ∨ bs = List.replicate n 1 ++ [0, 32] then
    .doc 1 (List.replicate n ((), (), ()))
  else .junk .unreadable

def toyP : Params Unit Unit Unit Unit Unit Nat :=
  { analyze := fun _ _ => (), hash := fun _ => (), selected := fun _ _ => true, cur := 1 }

theorem takeWhile_ones (n : Nat) (t : List Nat) (ht : ∀ x, t.head? = some x → x ≠ 1) :
    (List.replicate n 1 ++ t).takeWhile (· == 1) = List.replicate n 1 := by
  induction n with
  | zero =>
    cases t with
    | nil => rfl
    | cons x t =>
      have : x ≠ 1 := ht x rfl
      simp [this]
  | succ n ih => simp [List.replicate_succ, ih]

theorem unit_report_eq (r : Report Unit Unit Unit) : List.replicate r.length ((), (), ()) = r := by
  induction r with
  | nil => rfl
  | cons x r ih => simp [List.replicate_succ, ih]

theorem toy_prefix (n : Nat) (p : List Nat) (hp : p <+: List.replicate n 1 ++ [0, 32]) :
    (∃ k, k ≤ n ∧ p = List.replicate k 1) ∨ p = List.replicate n 1 ++ [0] ∨
      p = List.replicate n 1 ++ [0, 32] := by
  obtain ⟨t, ht⟩ := hp
  have hlen : p.length + t.length = n + 2 := by
    have := congrArg List.length ht
    simpa using this
  have hp' : p = (List.replicate n 1 ++ [0, 32]).take p.length := by
    rw [← ht]; simp
  by_cases h1 : p.length ≤ n
  · left
    refine ⟨p.length, h1, ?_⟩
    rw [hp', List.take_append_of_le_length (by simpa using h1)]
    simp [List.take_replicate, Nat.min_eq_left h1]
  · right
    have h2 : p.length = n + 1 ∨ p.length = n + 2 := by omega
    rcases h2 with h2 | h2
    · left
      rw [hp', h2, List.take_append]
      simp
    · right
      rw [hp', h2, List.take_of_length_le (by simp)]

theorem drop_toy (n k : Nat) :
    List.drop (n + k) (List.replicate n 1 ++ [0, 32]) = List.drop k [0, 32] := by
  rw [List.drop_append]
  simp

theorem toy_contract : ByteContract toyP Nat (· == 32) toyRead toyWrite := by
  constructor
  · intro r
    have htw : (toyWrite r).takeWhile (· == 1) = List.replicate r.length 1 :=
      takeWhile_ones r.length [0, 32] (by simp)
    simp only [toyRead, htw, List.length_replicate]
    rw [if_pos (Or.inr (by rfl)), unit_report_eq]
    rfl
  · intro r p hp hb
    rcases toy_prefix r.length p hp with ⟨k, hk, rfl⟩ | rfl | rfl
    · have htw : (List.replicate k 1).takeWhile (· == 1) = List.replicate k 1 := by
        have := takeWhile_ones k [] (by simp); simp at this ⊢
      simp only [toyRead, htw, List.length_replicate]
      rw [if_neg]
      rintro (h | h) <;> · have := congrArg List.length h; simp at this
    · exfalso
      obtain ⟨b, hb, hw⟩ := hb
      have hd : List.drop (List.replicate r.length 1 ++ [0]).length (toyWrite r) = [32] := by
        simp only [toyWrite, List.length_append, List.length_replicate, List.length_cons, List.length_nil]
        exact drop_toy r.length 1
      rw [hd] at hb
      simp at hb
      subst hb; simp at hw
    · exfalso
      obtain ⟨b, hb, hw⟩ := hb
      have hd : List.drop (List.replicate r.length 1 ++ [0, 32]).length (toyWrite r) = [] := by
        simp only [toyWrite, List.length_append, List.length_replicate, List.length_cons, List.length_nil]
        exact drop_toy r.length 2
      rw [hd] at hb
      simp at hb
  · intro r p hp hb
    rcases toy_prefix r.length p hp with ⟨k, hk, rfl⟩ | rfl | rfl
    · exfalso
      have h0 : (0 : Nat) ∈ (toyWrite r).drop (List.replicate k 1).length := by
        simp only [toyWrite, List.length_replicate]
        rw [List.drop_append_of_le_length (by simpa using hk)]
        simp
      have := hb 0 h0
      simp at this
    · have htw : ∀ t : List Nat, (∀ x, t.head? = some x → x ≠ 1) →
          (List.replicate r.length 1 ++ t).takeWhile (· == 1) = List.replicate r.length 1 :=
        takeWhile_ones r.length
      simp only [toyRead, toyWrite, htw [0] (by simp), htw [0, 32] (by simp), List.length_replicate]
      rw [if_pos (Or.inl trivial), if_pos (Or.inr trivial)]
    · rfl


end CL.C10
