import CodeLimit.Lemmas.RelabelPy
/-!
# Relabelling, part 5: `buildScopes` and `scanFile`; congruence of `scanFile` in the
comment / whitespace tokens
-/
namespace CL

variable {f : Nat → Nat}

theorem ShiftOn.filter {toks : List Tok} (h : ShiftOn f toks) (p : Tok → Bool) :
    ShiftOn f (toks.filter p) :=
  fun t ht => h t (List.mem_filter.mp ht).1

theorem buildScopes_relabel (hf : StrictMonoN f) (L : Language) (all : List Tok) :
    buildScopes L (relabel f all) =
      (buildScopes L all).map (List.map (fun p => (p.1.rl f, p.2))) := by
  unfold buildScopes
  simp only [filterTokens_relabel, noclTokens_relabel, extractHeaders_relabel, bind, Except.bind,
    pure, Except.pure]
  rcases extractHeaders L (filterTokens false all) with e | hs
  · rfl
  · simp only [Except.map_ok', extractBlocks_relabel hf]
    rcases extractBlocks L (filterTokens false all) hs with e | bs
    · rfl
    · simp only [buildScopes0_relabel hf]
      rcases buildScopes0 (filterTokens false all) hs bs with e | sc
      · rfl
      · simp only [Except.map_ok', filterNocl_relabel hf]
        cases L.nested with
        | true =>
          simp only [↓reduceIte, Except.map_ok']
          have h := foldParents_relabel f (filterNocl sc (noclTokens all)) 0 []
          simp only [List.map_nil] at h
          rw [h, withChildren_relabel]
        | false =>
          simp only [Bool.false_eq_true, ↓reduceIte, Except.map_ok']
          have h := filterNested_relabel f (filterNocl sc (noclTokens all)) none
          simp only [Option.map_none] at h
          rw [h]
          simp [List.map_map, Function.comp_def]

/-- **Line relabelling.** A strictly monotone renumbering of the lines that is a pure shift
across every multi-line token changes nothing in the analysis except that every reported
line number is renumbered. -/
theorem scanFile_relabel' (hf : StrictMonoN f) (L : Language) (all : List Tok)
    (hshift : ShiftOn f all) :
    scanFile L (relabel f all) = (scanFile L all).map (List.map (Measurement.rl f)) := by
  unfold scanFile
  rw [buildScopes_relabel hf, filterTokens_relabel]
  rcases buildScopes L all with e | scs
  · rfl
  · simp only [Except.map_ok']
    exact measureAll_relabel hf _ (hshift.filter _) scs

/-! ## congruence in the invisible tokens -/

theorem filterNocl_congr (scs : List Scope) (nocl nocl' : List Tok)
    (h : ∀ l, l ∈ nocl.map (·.line) ↔ l ∈ nocl'.map (·.line)) :
    filterNocl scs nocl = filterNocl scs nocl' := by
  unfold filterNocl
  apply List.filter_congr
  intro s _
  congr 1
  rw [Bool.eq_iff_iff]
  simp only [List.contains_iff_mem]
  exact h _

theorem buildScopes_congr (L : Language) (all all' : List Tok)
    (h1 : filterTokens false all = filterTokens false all')
    (h2 : ∀ l, l ∈ (noclTokens all).map (·.line) ↔ l ∈ (noclTokens all').map (·.line)) :
    buildScopes L all = buildScopes L all' := by
  unfold buildScopes
  rw [h1]
  simp only [filterNocl_congr _ _ _ h2]

theorem scanFile_congr' (L : Language) (all all' : List Tok)
    (h1 : filterTokens false all = filterTokens false all')
    (h2 : ∀ l, l ∈ (noclTokens all).map (·.line) ↔ l ∈ (noclTokens all').map (·.line)) :
    scanFile L all = scanFile L all' := by
  unfold scanFile
  rw [buildScopes_congr L all all' h1 h2, h1]

end CL
