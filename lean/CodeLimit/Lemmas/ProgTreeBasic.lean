import CodeLimit.Spec.ProgTree
import CodeLimit.Lemmas.LayoutFacts
/-!
# Program trees: sizes, index bounds, and the function/block invariant `TInv`

`TInv lo hi F B` collects what is needed of the functions `F` and blocks `B` of a sub-forest that
occupies the token indices `[lo, hi)`; it is preserved by the constructors of `Prog`
(`TInv.append`, `TInv.wrap`, `TInv.fn`) and implies `FnLayout` (`TInv.fnLayout`).
-/
namespace CL

theorem Prog.size_eq {α : Type} : ∀ (p : Prog α), p.flat.length = p.size
  | .nil => rfl
  | .leaf _ rest => by simp only [Prog.flat, Prog.size, List.length_cons, size_eq rest]
  | .group _ _ items rest => by
    simp only [Prog.flat, Prog.size, List.length_cons, List.length_append, size_eq items,
      size_eq rest]; omega
  | .fn hdr _ gap _ _ body rest => by
    simp only [Prog.flat, Prog.size, List.length_cons, List.length_append, size_eq hdr,
      size_eq body, size_eq rest]; omega

/-! ## segments of a token list -/

/-- `l` is the segment of `code` that starts at index `i` -/
def Seg {α : Type} (code : List α) (i : Nat) (l : List α) : Prop := l <+: code.drop i

theorem Seg.append_iff {α : Type} {code : List α} {i : Nat} {a b : List α} :
    Seg code i (a ++ b) ↔ Seg code i a ∧ Seg code (i + a.length) b := by
  unfold Seg
  constructor
  · rintro ⟨t, ht⟩
    refine ⟨⟨b ++ t, by rw [← ht]; simp⟩, ⟨t, ?_⟩⟩
    rw [← List.drop_drop, ← ht]
    simp
  · rintro ⟨⟨t, ht⟩, ⟨u, hu⟩⟩
    refine ⟨u, ?_⟩
    rw [← List.drop_drop, ← ht] at hu
    simp only [List.drop_left'] at hu
    rw [← ht, ← hu]
    simp

theorem Seg.cons_iff {α : Type} {code : List α} {i : Nat} {a : α} {b : List α} :
    Seg code i (a :: b) ↔ code[i]? = some a ∧ Seg code (i + 1) b := by
  have h := @Seg.append_iff α code i [a] b
  simp only [List.singleton_append, List.length_singleton] at h
  rw [h]
  refine and_congr ?_ Iff.rfl
  unfold Seg
  constructor
  · rintro ⟨t, ht⟩
    have : (code.drop i)[0]? = some a := by rw [← ht]; rfl
    simpa using this
  · intro h
    have hi : i < code.length := by
      rcases Nat.lt_or_ge i code.length with h' | h'
      · exact h'
      · rw [List.getElem?_eq_none h'] at h; cases h
    rw [List.drop_eq_getElem_cons hi]
    rw [List.getElem?_eq_getElem hi] at h
    cases h
    exact ⟨_, rfl⟩

theorem Seg.nil {α : Type} (code : List α) (i : Nat) : Seg code i [] := List.nil_prefix

theorem Seg.getElem? {α : Type} {code : List α} {i : Nat} {l : List α} (h : Seg code i l)
    {k : Nat} (hk : k < l.length) : code[i + k]? = l[k]? := by
  obtain ⟨t, ht⟩ := h
  have : (code.drop i)[k]? = (l ++ t)[k]? := by rw [ht]
  rw [List.getElem?_drop] at this
  rw [this, List.getElem?_append_left hk]

theorem Seg.length_le {α : Type} {code : List α} {i : Nat} {l : List α} (h : Seg code i l)
    (hl : l ≠ []) : i + l.length ≤ code.length := by
  obtain ⟨t, ht⟩ := h
  have h1 : (code.drop i).length = l.length + t.length := by rw [← ht]; simp
  rw [List.length_drop] at h1
  have : 0 < l.length := List.length_pos_iff.mpr hl
  omega

theorem Seg.self {α : Type} (code : List α) : Seg code 0 code := by
  unfold Seg; simp

/-! ## index bounds -/

theorem blocksOf_bounds {α : Type} : ∀ (p : Prog α) (i : Nat),
    ∀ b ∈ blocksOf p i, i ≤ b.s ∧ b.s + 2 ≤ b.e ∧ b.e ≤ i + p.size
  | .nil, _, b, hb => by cases hb
  | .leaf _ rest, i, b, hb => by
    have := blocksOf_bounds rest (i + 1) b hb
    simp only [Prog.size]; omega
  | .group _ _ items rest, i, b, hb => by
    simp only [blocksOf, List.mem_cons, List.mem_append] at hb
    simp only [Prog.size]
    rcases hb with rfl | hb | hb
    · simp only; omega
    · have := blocksOf_bounds items (i + 1) b hb; omega
    · have := blocksOf_bounds rest _ b hb; omega
  | .fn hdr _ gap _ _ body rest, i, b, hb => by
    simp only [blocksOf, List.mem_cons, List.mem_append] at hb
    simp only [Prog.size]
    rcases hb with hb | rfl | hb | hb
    · have := blocksOf_bounds hdr i b hb; omega
    · simp only; omega
    · have := blocksOf_bounds body _ b hb; omega
    · have := blocksOf_bounds rest _ b hb; omega

theorem fnsOf_noFn : ∀ (p : Prog Tok) (i : Nat), p.noFn = true → fnsOf p i = []
  | .nil, _, _ => rfl
  | .leaf _ rest, i, h => fnsOf_noFn rest (i + 1) h
  | .group _ _ items rest, i, h => by
    simp only [Prog.noFn, Bool.and_eq_true] at h
    simp only [fnsOf, fnsOf_noFn items _ h.1, fnsOf_noFn rest _ h.2, List.append_nil]
  | .fn .., _, h => by cases h

/-! ## the invariant -/

/-- the functions `F` and the blocks `B` of a sub-forest occupying the token indices
`[lo, hi)` -/
structure TInv (lo hi : Nat) (F : List Fn) (B : List Range) : Prop where
  fb : ∀ f ∈ F, lo ≤ f.hdr.rng.s ∧ f.hdr.rng.s < f.hdr.rng.e ∧ f.hdr.rng.e ≤ f.body.s ∧
    f.body.s + 2 ≤ f.body.e ∧ f.body.e ≤ hi
  bb : ∀ b ∈ B, lo ≤ b.s ∧ b.s + 2 ≤ b.e ∧ b.e ≤ hi
  fs : F.Pairwise (fun f g => f.body.s < g.hdr.rng.s)
  bs : B.Pairwise (fun a b => a.s < b.s)
  bm : ∀ f ∈ F, f.body ∈ B
  fvb : ∀ f ∈ F, ∀ b ∈ B, (b.s < f.hdr.rng.s ∧ f.body.e ≤ b.e)
    ∨ (f.hdr.rng.s < b.s ∧ b.e ≤ f.hdr.rng.e) ∨ b.e ≤ f.hdr.rng.s ∨ f.body.s ≤ b.s

theorem TInv.nil (lo hi : Nat) : TInv lo hi [] [] :=
  ⟨fun _ h => (by cases h), fun _ h => (by cases h), .nil, .nil, fun _ h => (by cases h),
   fun _ h => (by cases h)⟩

theorem TInv.mono {lo hi lo' hi' : Nat} {F : List Fn} {B : List Range} (h : TInv lo hi F B)
    (h1 : lo' ≤ lo) (h2 : hi ≤ hi') : TInv lo' hi' F B :=
  ⟨fun f hf => (by have := h.fb f hf; omega), fun b hb => (by have := h.bb b hb; omega),
   h.fs, h.bs, h.bm, h.fvb⟩

theorem TInv.append {lo mid hi : Nat} {F1 F2 : List Fn} {B1 B2 : List Range}
    (h1 : TInv lo mid F1 B1) (h2 : TInv mid hi F2 B2) (hlm : lo ≤ mid) (hmh : mid ≤ hi) :
    TInv lo hi (F1 ++ F2) (B1 ++ B2) := by
  refine ⟨?_, ?_, ?_, ?_, ?_, ?_⟩
  · intro f hf
    rcases List.mem_append.mp hf with hf | hf
    · have := h1.fb f hf; omega
    · have := h2.fb f hf; omega
  · intro b hb
    rcases List.mem_append.mp hb with hb | hb
    · have := h1.bb b hb; omega
    · have := h2.bb b hb; omega
  · refine List.pairwise_append.mpr ⟨h1.fs, h2.fs, fun f hf g hg => ?_⟩
    have := h1.fb f hf; have := h2.fb g hg; omega
  · refine List.pairwise_append.mpr ⟨h1.bs, h2.bs, fun a ha b hb => ?_⟩
    have := h1.bb a ha; have := h2.bb b hb; omega
  · intro f hf
    rcases List.mem_append.mp hf with hf | hf
    · exact List.mem_append_left _ (h1.bm f hf)
    · exact List.mem_append_right _ (h2.bm f hf)
  · intro f hf b hb
    rcases List.mem_append.mp hf with hf | hf <;> rcases List.mem_append.mp hb with hb | hb
    · exact h1.fvb f hf b hb
    · have := h1.fb f hf; have := h2.bb b hb; omega
    · have := h2.fb f hf; have := h1.bb b hb; omega
    · exact h2.fvb f hf b hb

/-- a brace group around a sub-forest -/
theorem TInv.wrap {lo hi : Nat} {F : List Fn} {B : List Range}
    (h : TInv (lo + 1) hi F B) (hlh : lo + 1 ≤ hi) : TInv lo (hi + 1) F (⟨lo, hi + 1⟩ :: B) := by
  refine ⟨?_, ?_, h.fs, ?_, ?_, ?_⟩
  · intro f hf; have := h.fb f hf; omega
  · intro b hb
    rcases List.mem_cons.mp hb with rfl | hb
    · simp only; omega
    · have := h.bb b hb; omega
  · refine List.pairwise_cons.mpr ⟨fun b hb => ?_, h.bs⟩
    have := h.bb b hb; simp only; omega
  · intro f hf; exact List.mem_cons_of_mem _ (h.bm f hf)
  · intro f hf b hb
    rcases List.mem_cons.mp hb with rfl | hb
    · have := h.fb f hf; simp only; omega
    · exact h.fvb f hf b hb

/-- a function: header blocks `BH` in `(lo, he)`, body `[bs, be)` with inner functions `FB` and
inner blocks `BB` -/
theorem TInv.fn {lo he bs be : Nat} {nm : Tok} {BH : List Range} {FB : List Fn} {BB : List Range}
    (hH : TInv (lo + 1) he [] BH) (hB : TInv (bs + 1) (be - 1) FB BB)
    (h1 : lo + 1 ≤ he) (h2 : he ≤ bs) (h3 : bs + 2 ≤ be) :
    TInv lo be (⟨⟨nm, ⟨lo, he⟩⟩, ⟨bs, be⟩⟩ :: FB) (BH ++ ⟨bs, be⟩ :: BB) := by
  refine ⟨?_, ?_, ?_, ?_, ?_, ?_⟩
  · intro f hf
    rcases List.mem_cons.mp hf with rfl | hf
    · simp only; omega
    · have := hB.fb f hf; omega
  · intro b hb
    rcases List.mem_append.mp hb with hb | hb
    · have := hH.bb b hb; omega
    · rcases List.mem_cons.mp hb with rfl | hb
      · simp only; omega
      · have := hB.bb b hb; omega
  · refine List.pairwise_cons.mpr ⟨fun g hg => ?_, hB.fs⟩
    have := hB.fb g hg; simp only; omega
  · refine List.pairwise_append.mpr ⟨hH.bs, List.pairwise_cons.mpr ⟨fun b hb => ?_, hB.bs⟩,
      fun a ha b hb => ?_⟩
    · have := hB.bb b hb; simp only; omega
    · have := hH.bb a ha
      rcases List.mem_cons.mp hb with rfl | hb
      · simp only; omega
      · have := hB.bb b hb; omega
  · intro f hf
    rcases List.mem_cons.mp hf with rfl | hf
    · exact List.mem_append_right _ List.mem_cons_self
    · exact List.mem_append_right _ (List.mem_cons_of_mem _ (hB.bm f hf))
  · intro f hf b hb
    rcases List.mem_cons.mp hf with rfl | hf
    · rcases List.mem_append.mp hb with hb | hb
      · have := hH.bb b hb; simp only; omega
      · rcases List.mem_cons.mp hb with rfl | hb
        · simp only; omega
        · have := hB.bb b hb; simp only; omega
    · have := hB.fb f hf
      rcases List.mem_append.mp hb with hb | hb
      · have := hH.bb b hb; omega
      · rcases List.mem_cons.mp hb with rfl | hb
        · simp only; omega
        · exact hB.fvb f hf b hb

/-- the invariant implies the function clauses of a layout -/
theorem TInv.fnLayout {lo hi : Nat} {F : List Fn} {B : List Range} (h : TInv lo hi F B) :
    FnLayout F B := by
  have hpair : ∀ f ∈ F, ∀ g ∈ F, f = g ∨ f.body.s < g.hdr.rng.s ∨ g.body.s < f.hdr.rng.s := by
    intro f hf g hg
    by_cases hfg : f = g
    · exact .inl hfg
    · exact .inr (pairwise_mem_or h.fs hf hg hfg)
  refine ⟨?_, ?_, h.bm, ?_, ?_, ?_, ?_, ?_⟩
  · refine List.Pairwise.imp_of_mem ?_ h.fs
    intro f g hf _ hfg
    have := h.fb f hf; omega
  · intro f hf; have := h.fb f hf; omega
  · intro f hf b hb
    have := h.fb f hf; have := h.bb b hb
    rcases h.fvb f hf b hb with h' | h' | h' | h' <;> omega
  · intro f hf b hb
    have := h.fb f hf; have := h.bb b hb
    rcases h.fvb f hf b hb with h' | h' | h' | h'
    · exact .inl h'
    · exact .inr (.inl h')
    · exact .inr (.inr (.inl h'))
    · exact .inr (.inr (.inr (by omega)))
  · intro f hf g hg hfg
    have := h.fb f hf; have := h.fb g hg
    rcases hpair f hf g hg with rfl | h' | h' <;> omega
  · intro f hf g hg
    have := h.fb f hf; have := h.fb g hg
    rcases hpair f hf g hg with rfl | h' | h' <;> omega
  · intro f hf g hg hfg heq
    have := h.fb f hf; have := h.fb g hg
    rcases hpair f hf g hg with rfl | h' | h'
    · omega
    · rw [heq] at h'; omega
    · omega

/-! ## the invariant holds for every well-formed forest -/

theorem blocksOf_startsWithLeaf {α : Type} {p : Prog α} (h : p.startsWithLeaf = true) (i : Nat) :
    ∀ b ∈ blocksOf p i, i + 1 ≤ b.s := by
  cases p with
  | leaf t rest => intro b hb; exact (blocksOf_bounds rest (i + 1) b hb).1
  | nil => cases h
  | group => cases h
  | fn => cases h

theorem Prog.size_pos_of_startsWithLeaf {α : Type} {p : Prog α} (h : p.startsWithLeaf = true) :
    1 ≤ p.size := by
  cases p with
  | leaf t rest => simp only [Prog.size]; omega
  | nil => cases h
  | group => cases h
  | fn => cases h

/-- the function / block invariant needs the structural conditions only (`wfCore`; the
canonical-fragment restriction `noAdj` plays no role) -/
theorem tinv_of_wfCore : ∀ (p : Prog Tok) (i : Nat), p.wfCore = true →
    TInv i (i + p.size) (fnsOf p i) (blocksOf p i)
  | .nil, i, _ => TInv.nil _ _
  | .leaf _ rest, i, h => by
    simp only [Prog.wfCore, Bool.and_eq_true] at h
    have := tinv_of_wfCore rest (i + 1) h.2
    simp only [Prog.size, fnsOf, blocksOf]
    exact this.mono (by omega) (by omega)
  | .group _ _ items rest, i, h => by
    simp only [Prog.wfCore, Bool.and_eq_true] at h
    have h1 := (tinv_of_wfCore items (i + 1) h.1.2).wrap (by omega)
    have h2 := tinv_of_wfCore rest (i + items.size + 2) h.2
    rw [show i + 1 + items.size + 1 = i + items.size + 2 by omega] at h1
    have := h1.append h2 (by omega) (by omega)
    simp only [Prog.size, fnsOf, blocksOf]
    rw [show i + (items.size + rest.size + 2) = i + items.size + 2 + rest.size by omega]
    exact this
  | .fn hdr k gap _ _ body rest, i, h => by
    simp only [Prog.wfCore, Bool.and_eq_true, decide_eq_true_eq] at h
    obtain ⟨⟨⟨⟨⟨⟨⟨⟨⟨hsl, hnf⟩, hwh⟩, hk⟩, hnm⟩, hgap⟩, hop⟩, hcl⟩, hwb⟩, hwr⟩ := h
    have hH := tinv_of_wfCore hdr i hwh
    rw [fnsOf_noFn hdr i hnf] at hH
    have hH' : TInv (i + 1) (i + hdr.size) [] (blocksOf hdr i) :=
      ⟨fun _ h => (by cases h),
       fun b hb => (by
         have := hH.bb b hb; have := blocksOf_startsWithLeaf hsl i b hb; omega),
       .nil, hH.bs, fun _ h => (by cases h), fun _ h => (by cases h)⟩
    have hpos := Prog.size_pos_of_startsWithLeaf hsl
    have hB := tinv_of_wfCore body (i + hdr.size + gap.length + 1) hwb
    have hR := tinv_of_wfCore rest (i + hdr.size + gap.length + body.size + 2) hwr
    have hF := TInv.fn (nm := hdr.flat.getD k default) (lo := i) (he := i + hdr.size)
      (bs := i + hdr.size + gap.length) (be := i + hdr.size + gap.length + body.size + 2)
      hH' (hB.mono (Nat.le_refl _) (by omega)) (by omega) (by omega) (by omega)
    have := hF.append hR (by omega) (by omega)
    simp only [Prog.size, fnsOf, blocksOf]
    rw [show i + (hdr.size + gap.length + body.size + rest.size + 2)
      = i + hdr.size + gap.length + body.size + 2 + rest.size by omega]
    simpa only [List.cons_append, List.append_assoc] using this

/-! ## `wf` = structural conditions + the canonical-fragment restriction -/

theorem Prog.wf_iff : ∀ (p : Prog Tok), p.wf = true ↔ p.wfCore = true ∧ p.noAdj = true
  | .nil => by simp [Prog.wf, Prog.wfCore, Prog.noAdj]
  | .leaf t rest => by
    simp only [Prog.wf, Prog.wfCore, Prog.noAdj, Bool.and_eq_true, wf_iff rest]
    grind
  | .group op cl items rest => by
    simp only [Prog.wf, Prog.wfCore, Prog.noAdj, Bool.and_eq_true, wf_iff items, wf_iff rest]
    grind
  | .fn hdr k gap op cl body rest => by
    simp only [Prog.wf, Prog.wfCore, Prog.noAdj, Bool.and_eq_true, wf_iff hdr, wf_iff body,
      wf_iff rest]
    grind

theorem Prog.wf_of {p : Prog Tok} (h1 : p.wfCore = true) (h2 : p.noAdj = true) : p.wf = true :=
  (Prog.wf_iff p).mpr ⟨h1, h2⟩

/-- the invariant for `wf` forests (corollary of `tinv_of_wfCore`) -/
theorem tinv_of_wf (p : Prog Tok) (i : Nat) (h : p.wf = true) :
    TInv i (i + p.size) (fnsOf p i) (blocksOf p i) :=
  tinv_of_wfCore p i ((Prog.wf_iff p).mp h).1

end CL
