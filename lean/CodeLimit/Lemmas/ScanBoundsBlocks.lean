import CodeLimit.Lemmas.HeadersWF
/-!
# Index bounds, part 1: sorting by position, brace blocks (`get_blocks`)

* `withKeys` / `sortAsc` / `sortDesc` succeed when every start index is valid, and return a
  permutation of their input that is sorted by position key;
* `balancedPairs` returns pairs `(s, j)` with `s < j < toks.length`; hence the blocks of
  `getBlocks` satisfy `s + 1 < e ≤ toks.length`.
-/
namespace CL

/-- a token-index range inside a token list of length `n` -/
def BlockWF (n : Nat) (b : Range) : Prop := b.s < b.e ∧ b.e ≤ n

/-- what the scope builder needs from a block for the analysis not to raise -/
def BlockOK (n : Nat) (b : Range) : Prop := 0 < b.e ∧ b.e ≤ n

theorem BlockWF.ok {n : Nat} {b : Range} (h : BlockWF n b) : BlockOK n b :=
  ⟨Nat.lt_of_le_of_lt (Nat.zero_le _) h.1, h.2⟩

/-! ## `getE`, `posKey` -/

theorem getE_ok {α : Type} {l : List α} {i : Nat} (h : i < l.length) : getE l i = .ok l[i] := by
  simp [getE, List.getElem?_eq_getElem h]

theorem getE_ok_inv {α : Type} {l : List α} {i : Nat} {x : α} (h : getE l i = .ok x) :
    l[i]? = some x := by
  unfold getE at h
  split at h
  · next y hy => cases h; exact hy
  · cases h

theorem getE_of_getElem? {α : Type} {l : List α} {i : Nat} {x : α} (h : l[i]? = some x) :
    getE l i = .ok x := by
  simp [getE, h]

theorem posKey_ok {toks : List Tok} {i : Nat} (h : i < toks.length) :
    posKey toks i = .ok (toks[i].line, toks[i].col) := by
  simp [posKey, List.getElem?_eq_getElem h]

theorem posKey_eq_ok {toks : List Tok} {i : Nat} {k : Nat × Nat} (h : posKey toks i = .ok k) :
    ∃ t, toks[i]? = some t ∧ k = (t.line, t.col) := by
  unfold posKey at h
  split at h
  · next t ht => cases h; exact ⟨t, ht, rfl⟩
  · cases h

/-! ## the key order -/

theorem keyLe_tr (a b c : Nat × Nat) (h1 : keyLe a b = true) (h2 : keyLe b c = true) :
    keyLe a c = true := by
  simp only [keyLe, Bool.or_eq_true, decide_eq_true_eq, Bool.and_eq_true, beq_iff_eq] at *
  omega

theorem keyLe_tot (a b : Nat × Nat) : (keyLe a b || keyLe b a) = true := by
  simp only [keyLe, Bool.or_eq_true, decide_eq_true_eq, Bool.and_eq_true, beq_iff_eq]
  omega

/-! ## `withKeys`, `sortAsc`, `sortDesc` -/

section sorting
variable {γ : Type} {toks : List Tok} {start : γ → Nat}

theorem withKeys_ok : ∀ (xs : List γ), (∀ x ∈ xs, start x < toks.length) →
    ∃ ks, withKeys toks start xs = .ok ks
  | [], _ => ⟨[], rfl⟩
  | x :: xs, h => by
    obtain ⟨ks, hks⟩ := withKeys_ok xs (fun y hy => h y (List.mem_cons_of_mem _ hy))
    have hx := h x List.mem_cons_self
    simp [withKeys, posKey_ok hx, hks]

theorem withKeys_map_keys : ∀ (xs : List γ) (ks : List ((Nat × Nat) × γ)),
    withKeys toks start xs = .ok ks →
    ks.map (·.2) = xs ∧ ∀ p ∈ ks, posKey toks (start p.2) = .ok p.1
  | [], ks, h => by
    simp only [withKeys, Except.ok.injEq] at h
    subst h; simp
  | x :: xs, ks, h => by
    unfold withKeys at h
    split at h
    · next k r hk hr =>
      cases h
      obtain ⟨h1, h2⟩ := withKeys_map_keys xs r hr
      refine ⟨by simp [h1], ?_⟩
      intro p hp
      rcases List.mem_cons.1 hp with rfl | hp
      · exact hk
      · exact h2 p hp
    · cases h
    · cases h

/-- the key order lifted to the elements -/
def KeyLeAt (toks : List Tok) (start : γ → Nat) (a b : γ) : Prop :=
  ∃ ka kb, posKey toks (start a) = .ok ka ∧ posKey toks (start b) = .ok kb ∧ keyLe ka kb = true

theorem sortAsc_ok (xs : List γ) (h : ∀ x ∈ xs, start x < toks.length) :
    ∃ ys, sortAsc toks start xs = .ok ys := by
  obtain ⟨ks, hks⟩ := withKeys_ok xs h
  simp [sortAsc, hks]

theorem sortDesc_ok (xs : List γ) (h : ∀ x ∈ xs, start x < toks.length) :
    ∃ ys, sortDesc toks start xs = .ok ys := by
  obtain ⟨ks, hks⟩ := withKeys_ok xs h
  simp [sortDesc, hks]

theorem sortAsc_perm_sorted {xs ys : List γ} (h : sortAsc toks start xs = .ok ys) :
    ys.Perm xs ∧ ys.Pairwise (KeyLeAt toks start) := by
  unfold sortAsc at h
  split at h
  · cases h
  · next ks hks =>
    cases h
    obtain ⟨h1, h2⟩ := withKeys_map_keys xs ks hks
    constructor
    · rw [← h1]; exact (List.mergeSort_perm ks _).map _
    · have hs := List.pairwise_mergeSort (le := fun a b : (Nat × Nat) × γ => keyLe a.1 b.1)
        (fun a b c => keyLe_tr a.1 b.1 c.1) (fun a b => keyLe_tot a.1 b.1) ks
      have hmem : ∀ p ∈ ks.mergeSort (fun a b => keyLe a.1 b.1), posKey toks (start p.2) = .ok p.1 :=
        fun p hp => h2 p ((List.mergeSort_perm ks _).mem_iff.1 hp)
      rw [List.pairwise_map]
      exact (List.Pairwise.and_mem.1 hs).imp (fun ⟨ha, hb, hab⟩ => ⟨_, _, hmem _ ha, hmem _ hb, hab⟩)

theorem sortDesc_perm_sorted {xs ys : List γ} (h : sortDesc toks start xs = .ok ys) :
    ys.Perm xs ∧ ys.Pairwise (fun a b => KeyLeAt toks start b a) := by
  unfold sortDesc at h
  split at h
  · cases h
  · next ks hks =>
    cases h
    obtain ⟨h1, h2⟩ := withKeys_map_keys xs ks hks
    constructor
    · rw [← h1]; exact (List.mergeSort_perm ks _).map _
    · have hs := List.pairwise_mergeSort (le := fun a b : (Nat × Nat) × γ => keyLe b.1 a.1)
        (fun a b c h1 h2 => keyLe_tr c.1 b.1 a.1 h2 h1) (fun a b => keyLe_tot b.1 a.1) ks
      have hmem : ∀ p ∈ ks.mergeSort (fun a b => keyLe b.1 a.1), posKey toks (start p.2) = .ok p.1 :=
        fun p hp => h2 p ((List.mergeSort_perm ks _).mem_iff.1 hp)
      rw [List.pairwise_map]
      exact (List.Pairwise.and_mem.1 hs).imp (fun ⟨ha, hb, hab⟩ => ⟨_, _, hmem _ hb, hmem _ ha, hab⟩)

end sorting

/-! ## `balancedPairs` -/

theorem balancedPairs_bounds (op cl : Str) : ∀ (ts : List Tok) (i : Nat) (stack : List Nat),
    (∀ s ∈ stack, s < i) →
    ∀ p ∈ balancedPairs op cl ts i stack, p.1 < p.2 ∧ p.2 < i + ts.length
  | [], _, _, _, p, hp => by simp [balancedPairs] at hp
  | t :: ts, i, stack, hst, p, hp => by
    unfold balancedPairs at hp
    split at hp
    · have := balancedPairs_bounds op cl ts (i + 1) (i :: stack)
        (by intro s hs; rcases List.mem_cons.1 hs with rfl | hs
            · omega
            · have := hst s hs; omega) p hp
      simp only [List.length_cons]; omega
    · split at hp
      · split at hp
        · have := balancedPairs_bounds op cl ts (i + 1) [] (by simp) p hp
          simp only [List.length_cons]; omega
        · next s st =>
          rcases List.mem_cons.1 hp with rfl | hp
          · have := hst s List.mem_cons_self
            simp only [List.length_cons]; omega
          · have := balancedPairs_bounds op cl ts (i + 1) st
              (by intro x hx; have := hst x (List.mem_cons_of_mem _ hx); omega) p hp
            simp only [List.length_cons]; omega
      · have := balancedPairs_bounds op cl ts (i + 1) stack
          (by intro x hx; have := hst x hx; omega) p hp
        simp only [List.length_cons]; omega

/-- the opening index of every pair holds an `op` symbol -/
theorem balancedPairs_open (op cl : Str) : ∀ (ts : List Tok) (i : Nat) (stack : List Nat)
    (all : List Tok), (∀ k, all[i + k]? = ts[k]?) →
    (∀ s ∈ stack, ∃ t, all[s]? = some t ∧ t.isSymbol op = true) →
    ∀ p ∈ balancedPairs op cl ts i stack, ∃ t, all[p.1]? = some t ∧ t.isSymbol op = true
  | [], _, _, _, _, _, p, hp => by simp [balancedPairs] at hp
  | t :: ts, i, stack, all, hall, hst, p, hp => by
    have hall' : ∀ k, all[i + 1 + k]? = ts[k]? := by
      intro k; have := hall (k + 1); simp only [List.getElem?_cons_succ] at this
      rw [← this]; congr 1; omega
    have hi : all[i]? = some t := by simpa using hall 0
    unfold balancedPairs at hp
    split at hp
    · next hop =>
      exact balancedPairs_open op cl ts (i + 1) (i :: stack) all hall'
        (by intro s hs; rcases List.mem_cons.1 hs with rfl | hs
            · exact ⟨t, hi, hop⟩
            · exact hst s hs) p hp
    · split at hp
      · split at hp
        · exact balancedPairs_open op cl ts (i + 1) [] all hall' (by simp) p hp
        · next s st =>
          rcases List.mem_cons.1 hp with rfl | hp
          · exact hst s List.mem_cons_self
          · exact balancedPairs_open op cl ts (i + 1) st all hall'
              (fun x hx => hst x (List.mem_cons_of_mem _ hx)) p hp
      · exact balancedPairs_open op cl ts (i + 1) stack all hall' hst p hp

/-- opening indices are pairwise distinct: every index is pushed at most once -/
theorem balancedPairs_nodup (op cl : Str) : ∀ (ts : List Tok) (i : Nat) (stack : List Nat),
    (∀ s ∈ stack, s < i) → stack.Nodup →
    ((balancedPairs op cl ts i stack).map (·.1)).Nodup ∧
    ∀ p ∈ balancedPairs op cl ts i stack, p.1 ∈ stack ∨ i ≤ p.1
  | [], _, _, _, _ => by simp [balancedPairs]
  | t :: ts, i, stack, hst, hnd => by
    unfold balancedPairs
    split
    · have ih := balancedPairs_nodup op cl ts (i + 1) (i :: stack)
        (by intro s hs; rcases List.mem_cons.1 hs with rfl | hs
            · omega
            · have := hst s hs; omega)
        (List.nodup_cons.2 ⟨fun h => by have := hst i h; omega, hnd⟩)
      refine ⟨ih.1, fun p hp => ?_⟩
      rcases ih.2 p hp with h | h
      · rcases List.mem_cons.1 h with h | h
        · right; omega
        · left; exact h
      · right; omega
    · split
      · split
        · have ih := balancedPairs_nodup op cl ts (i + 1) [] (by simp) List.nodup_nil
          refine ⟨ih.1, fun p hp => ?_⟩
          rcases ih.2 p hp with h | h
          · cases h
          · right; omega
        · next s st =>
          have hnd' := List.nodup_cons.1 hnd
          have ih := balancedPairs_nodup op cl ts (i + 1) st
            (by intro x hx; have := hst x (List.mem_cons_of_mem _ hx); omega) hnd'.2
          constructor
          · simp only [List.map_cons]
            refine List.nodup_cons.2 ⟨?_, ih.1⟩
            intro hmem
            obtain ⟨p, hp, hps⟩ := List.mem_map.1 hmem
            rcases ih.2 p hp with h | h
            · exact hnd'.1 (hps ▸ h)
            · have := hst s List.mem_cons_self; omega
          · intro p hp
            rcases List.mem_cons.1 hp with rfl | hp
            · left; exact List.mem_cons_self
            · rcases ih.2 p hp with h | h
              · left; exact List.mem_cons_of_mem _ h
              · right; omega
      · have ih := balancedPairs_nodup op cl ts (i + 1) stack
          (by intro x hx; have := hst x hx; omega) hnd
        refine ⟨ih.1, fun p hp => ?_⟩
        rcases ih.2 p hp with h | h
        · left; exact h
        · right; omega

/-! ## `getBlocks` -/

/-- the unsorted brace blocks -/
def rawBlocks (toks : List Tok) : List Range :=
  (balancedPairs [123] [125] toks 0 []).map (fun p => ⟨p.1, p.2 + 1⟩)

theorem rawBlocks_wf (toks : List Tok) : ∀ b ∈ rawBlocks toks, b.s + 1 < b.e ∧ b.e ≤ toks.length := by
  intro b hb
  obtain ⟨p, hp, rfl⟩ := List.mem_map.1 hb
  have := balancedPairs_bounds [123] [125] toks 0 [] (by simp) p hp
  simp only; omega

theorem rawBlocks_open (toks : List Tok) :
    ∀ b ∈ rawBlocks toks, ∃ t, toks[b.s]? = some t ∧ t.isSymbol [123] = true := by
  intro b hb
  obtain ⟨p, hp, rfl⟩ := List.mem_map.1 hb
  exact balancedPairs_open [123] [125] toks 0 [] toks (by simp) (by simp) p hp

theorem rawBlocks_nodup (toks : List Tok) : ((rawBlocks toks).map (·.s)).Nodup := by
  have := (balancedPairs_nodup [123] [125] toks 0 [] (by simp) List.nodup_nil).1
  simpa [rawBlocks, List.map_map, Function.comp_def] using this

theorem getBlocks_total (toks : List Tok) : ∃ bs, getBlocks toks = .ok bs := by
  apply sortAsc_ok
  intro b hb
  have := rawBlocks_wf toks b hb
  omega

theorem getBlocks_spec {toks : List Tok} {bs : List Range} (h : getBlocks toks = .ok bs) :
    bs.Perm (rawBlocks toks) ∧ bs.Pairwise (KeyLeAt toks Range.s) :=
  sortAsc_perm_sorted h

theorem getBlocks_wf {toks : List Tok} {bs : List Range} (h : getBlocks toks = .ok bs) :
    ∀ b ∈ bs, b.s + 1 < b.e ∧ b.e ≤ toks.length :=
  fun b hb => rawBlocks_wf toks b ((getBlocks_spec h).1.mem_iff.1 hb)

theorem getBlocks_blockWF {toks : List Tok} {bs : List Range} (h : getBlocks toks = .ok bs) :
    ∀ b ∈ bs, BlockWF toks.length b := by
  intro b hb
  have := getBlocks_wf h b hb
  exact ⟨by omega, this.2⟩

end CL
