/-!
# Two lists that are strictly sorted by the same key and have the same members are equal
-/
namespace CL

theorem eq_of_pairwise_key_lt {α : Type} (key : α → Nat) : ∀ {a b : List α},
    a.Pairwise (fun x y => key x < key y) → b.Pairwise (fun x y => key x < key y) →
    (∀ x, x ∈ a ↔ x ∈ b) → a = b
  | [], [], _, _, _ => rfl
  | [], y :: b, _, _, h => by
    have := (h y).2 List.mem_cons_self
    cases this
  | x :: a, [], _, _, h => by
    have := (h x).1 List.mem_cons_self
    cases this
  | x :: a, y :: b, ha, hb, h => by
    rw [List.pairwise_cons] at ha hb
    have hxy : x = y := by
      rcases List.mem_cons.1 ((h x).1 List.mem_cons_self) with h1 | h1
      · exact h1
      · rcases List.mem_cons.1 ((h y).2 List.mem_cons_self) with h2 | h2
        · exact h2.symm
        · have := hb.1 x h1; have := ha.1 y h2; omega
    subst hxy
    have ih := eq_of_pairwise_key_lt key ha.2 hb.2 (fun z => by
      constructor
      · intro hz
        rcases List.mem_cons.1 ((h z).1 (List.mem_cons_of_mem _ hz)) with h1 | h1
        · subst h1; have := ha.1 z hz; omega
        · exact h1
      · intro hz
        rcases List.mem_cons.1 ((h z).2 (List.mem_cons_of_mem _ hz)) with h1 | h1
        · subst h1; have := hb.1 z hz; omega
        · exact h1)
    rw [ih]

end CL
