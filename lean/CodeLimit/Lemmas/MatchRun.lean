import CodeLimit.Lemmas.DfaRun
import CodeLimit.Lemmas.Consume
/-!
# `matchM` / `startsWithM` on the machine `dfaMachine D idAcceptor`, in terms of `dfaRun`
-/
namespace CL

variable {α : Type} [DecidableEq α]

/-- the run from `s` on `v` survives and ends in an accepting DFA object -/
def AccRun (D : Dfa α) (s : DState) (v : List α) : Prop :=
  ∃ s', dfaRun D s v = some s' ∧ D.isAcc s' = true

theorem accRun_nil (D : Dfa α) (s : DState) : AccRun D s [] ↔ D.isAcc s = true := by
  simp [AccRun, dfaRun]

theorem accRun_cons_none {D : Dfa α} {s : DState} {x : α}
    (hf : (D.row s).find? (fun t => t.1 = x) = none) (v : List α) : ¬ AccRun D s (x :: v) := by
  simp [AccRun, dfaRun, hf]

theorem accRun_cons_some {D : Dfa α} {s : DState} {x : α} {t : α × DState}
    (hf : (D.row s).find? (fun t => t.1 = x) = some t) (v : List α) :
    AccRun D s (x :: v) ↔ AccRun D t.2 v := by
  simp [AccRun, dfaRun, hf]

/-- the exact-order least-element principle used for `startsWith_none_iff` -/
theorem exists_least {P : Nat → Prop} : ∀ (n : Nat), P n → ∃ m, m ≤ n ∧ P m ∧ ∀ j, j < m → ¬ P j := by
  intro n
  induction n using Nat.strongRecOn with
  | _ n ih =>
    intro hn
    by_cases h : ∃ j, j < n ∧ P j
    · obtain ⟨j, hj, hPj⟩ := h
      obtain ⟨m, hm, h1, h2⟩ := ih j hj hPj
      exact ⟨m, by omega, h1, h2⟩
    · exact ⟨n, Nat.le_refl _, hn, fun j hj hPj => h ⟨j, hj, hPj⟩⟩

section
variable {D : Dfa α} (hnd : ∀ s, ((D.row s).map (·.1)).Nodup)
include hnd

theorem dfaMachine_step (s : DState) (x : α) :
    (dfaMachine D idAcceptor).step (s, ()) x
      = .ok (((D.row s).find? (fun t => t.1 = x)).map (fun t => (t.2, ()))) := by
  simp only [dfaMachine]
  exact consume_id (D.row s) x (hnd s)

theorem matchM_eq : ∀ (w : List α) (s : DState) (n : Nat),
    matchM (dfaMachine D idAcceptor) (s, ()) w n
      = .ok (match dfaRun D s w with
              | some s' => if D.isAcc s' then some (n + w.length) else none
              | none => none) := by
  intro w
  induction w with
  | nil => intro s n; rfl
  | cons x xs ih =>
    intro s n
    rw [matchM, dfaMachine_step hnd]
    cases hf : (D.row s).find? (fun t => t.1 = x) with
    | none => simp [dfaRun, hf]
    | some t =>
      simp only [Option.map_some, dfaRun, hf]
      rw [ih t.2 (n + 1)]
      simp only [List.length_cons]
      have : n + 1 + xs.length = n + (xs.length + 1) := by omega
      rw [this]

theorem startsWithM_ok : ∀ (w : List α) (s : DState) (n : Nat),
    ∃ o, startsWithM (dfaMachine D idAcceptor) (s, ()) w n = .ok o := by
  intro w
  induction w with
  | nil => intro s n; exact ⟨none, rfl⟩
  | cons x xs ih =>
    intro s n
    rw [startsWithM, dfaMachine_step hnd]
    cases hf : (D.row s).find? (fun t => t.1 = x) with
    | none => exact ⟨none, rfl⟩
    | some t =>
      simp only [Option.map_some]
      split
      · exact ⟨_, rfl⟩
      · exact ih t.2 (n + 1)

theorem startsWithM_some_iff : ∀ (w : List α) (s : DState) (n m : Nat),
    startsWithM (dfaMachine D idAcceptor) (s, ()) w n = .ok (some m) ↔
      ∃ k, m = n + k ∧ 1 ≤ k ∧ k ≤ w.length ∧ AccRun D s (w.take k) ∧
        ∀ j, 1 ≤ j → j < k → ¬ AccRun D s (w.take j) := by
  intro w
  induction w with
  | nil =>
    intro s n m
    simp only [startsWithM, List.length_nil]
    constructor
    · intro h; cases h
    · rintro ⟨k, _, h1, h2, _⟩; omega
  | cons x xs ih =>
    intro s n m
    rw [startsWithM, dfaMachine_step hnd]
    cases hf : (D.row s).find? (fun t => t.1 = x) with
    | none =>
      simp only [Option.map_none]
      constructor
      · intro h; cases h
      · rintro ⟨k, _, h1, _, h3, _⟩
        obtain ⟨k', rfl⟩ : ∃ k', k = k' + 1 := ⟨k - 1, by omega⟩
        rw [List.take_succ_cons] at h3
        exact absurd h3 (accRun_cons_none hf _)
    | some t =>
      simp only [Option.map_some]
      have hacc : (dfaMachine D idAcceptor).acc (t.2, ()) = D.isAcc t.2 := rfl
      rw [hacc]
      by_cases ht : D.isAcc t.2 = true
      · rw [if_pos ht]
        have h1 : AccRun D s ((x :: xs).take 1) := by
          rw [List.take_succ_cons, List.take_zero, accRun_cons_some hf, accRun_nil]
          exact ht
        constructor
        · intro h
          simp only [Except.ok.injEq, Option.some.injEq] at h
          refine ⟨1, h.symm, Nat.le_refl _, by simp, h1, ?_⟩
          intro j hj1 hj2; omega
        · rintro ⟨k, rfl, hk1, _, _, hmin⟩
          have : k = 1 := by
            by_cases hk : k = 1
            · exact hk
            · exact absurd h1 (hmin 1 (Nat.le_refl _) (by omega))
          subst this
          rfl
      · rw [if_neg ht, ih t.2 (n + 1) m]
        constructor
        · rintro ⟨k, rfl, hk1, hk2, hk3, hmin⟩
          refine ⟨k + 1, by omega, by omega, by simp; omega, ?_, ?_⟩
          · rw [List.take_succ_cons, accRun_cons_some hf]; exact hk3
          · intro j hj1 hj2
            obtain ⟨j', rfl⟩ : ∃ j', j = j' + 1 := ⟨j - 1, by omega⟩
            rw [List.take_succ_cons, accRun_cons_some hf]
            by_cases hj0 : j' = 0
            · subst hj0; rw [List.take_zero, accRun_nil]; exact ht
            · exact hmin j' (by omega) (by omega)
        · rintro ⟨k, rfl, hk1, hk2, hk3, hmin⟩
          obtain ⟨k', rfl⟩ : ∃ k', k = k' + 1 := ⟨k - 1, by omega⟩
          rw [List.take_succ_cons, accRun_cons_some hf] at hk3
          have hk0 : k' ≠ 0 := by
            intro h0; subst h0
            rw [List.take_zero, accRun_nil] at hk3
            exact ht hk3
          simp only [List.length_cons] at hk2
          refine ⟨k', by omega, by omega, by omega, hk3, ?_⟩
          intro j hj1 hj2
          have := hmin (j + 1) (by omega) (by omega)
          rwa [List.take_succ_cons, accRun_cons_some hf] at this

theorem startsWithM_none_iff (w : List α) (s : DState) (n : Nat) :
    startsWithM (dfaMachine D idAcceptor) (s, ()) w n = .ok none ↔
      ∀ k, 1 ≤ k → k ≤ w.length → ¬ AccRun D s (w.take k) := by
  obtain ⟨o, ho⟩ := startsWithM_ok hnd w s n
  constructor
  · intro h k hk1 hk2 hk3
    obtain ⟨m, hm, hP, hmin⟩ :=
      exists_least (P := fun k => 1 ≤ k ∧ k ≤ w.length ∧ AccRun D s (w.take k)) k ⟨hk1, hk2, hk3⟩
    have : startsWithM (dfaMachine D idAcceptor) (s, ()) w n = .ok (some (n + m)) := by
      rw [startsWithM_some_iff hnd]
      refine ⟨m, rfl, hP.1, hP.2.1, hP.2.2, ?_⟩
      intro j hj1 hj2 hj3
      exact hmin j hj2 ⟨hj1, by omega, hj3⟩
    rw [h] at this
    cases this
  · intro h
    rw [ho]
    cases o with
    | none => rfl
    | some m =>
      exfalso
      obtain ⟨k, _, hk1, hk2, hk3, _⟩ := (startsWithM_some_iff hnd w s n m).1 ho
      exact h k hk1 hk2 hk3

end

/-! ## accepting runs from `DState.start` -/

theorem accRun_start_iff {N : Nfa α} {ord : List α → List α} {D : Dfa α}
    (hN : N.WF) (hord : IsOrder ord) (h : nfaToDfa N ord = some D) (w : List α) :
    AccRun D .start w ↔ Path N.edges N.start w N.acc := by
  constructor
  · rintro ⟨s', hr, hacc⟩
    exact (isAcc_iff_path hN hord h hr).1 hacc
  · intro hp
    cases hr : dfaRun D .start w with
    | none => exact absurd ⟨_, hp⟩ ((dfaRun_none_iff_no_path hN hord h w).1 hr)
    | some s' => exact ⟨s', hr, (isAcc_iff_path hN hord h hr).2 hp⟩

end CL
