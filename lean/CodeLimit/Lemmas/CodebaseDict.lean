import CodeLimit.Lemmas.CodebaseKeys
/-!
# Association-list dicts (`dget?`, `dset`, `dhas`)
-/
namespace CL.Codebase

variable {α : Type}

theorem dget?_dset (k k' : Str) (v : α) (l : List (Str × α)) :
    dget? k (dset k' v l) = if k = k' then some v else dget? k l := by
  induction l with
  | nil => simp only [dset, dget?]; by_cases h : k = k' <;> simp [h, eq_comm]
  | cons x t ih =>
    obtain ⟨kx, vx⟩ := x
    by_cases h1 : kx = k'
    · subst h1
      simp only [dset, if_true, dget?]
      by_cases h2 : kx = k
      · simp [h2]
      · simp [h2, Ne.symm h2]
    · simp only [dset, h1, if_false, dget?, ih]
      by_cases h2 : kx = k
      · subst h2; simp [h1]
      · simp [h2]

theorem dget?_dset_self (k : Str) (v : α) (l : List (Str × α)) : dget? k (dset k v l) = some v := by
  simp [dget?_dset]

theorem dget?_dset_ne {k k' : Str} (h : k ≠ k') (v : α) (l : List (Str × α)) :
    dget? k (dset k' v l) = dget? k l := by
  simp [dget?_dset, h]

theorem dhas_iff {k : Str} {l : List (Str × α)} : dhas k l = true ↔ ∃ v, dget? k l = some v := by
  simp [dhas, Option.isSome_iff_exists]

theorem dhas_false_iff {k : Str} {l : List (Str × α)} : dhas k l = false ↔ dget? k l = none := by
  simp [dhas]

theorem dhas_dset (k k' : Str) (v : α) (l : List (Str × α)) :
    dhas k (dset k' v l) = true ↔ (k = k' ∨ dhas k l = true) := by
  simp only [dhas, dget?_dset]
  by_cases h : k = k' <;> simp [h]

theorem mem_keys_iff {k : Str} {l : List (Str × α)} : k ∈ l.map Prod.fst ↔ dhas k l = true := by
  induction l with
  | nil => simp [dhas, dget?]
  | cons x t ih =>
    obtain ⟨kx, vx⟩ := x
    by_cases h : kx = k
    · simp [dhas, dget?, h]
    · have : ¬ k = kx := fun e => h e.symm
      simp [dhas, dget?, h, this] at ih ⊢
      exact ih

theorem dset_of_not_has {k : Str} (v : α) {l : List (Str × α)} (h : dget? k l = none) :
    dset k v l = l ++ [(k, v)] := by
  induction l with
  | nil => rfl
  | cons x t ih =>
    obtain ⟨kx, vx⟩ := x
    by_cases h1 : kx = k
    · simp [dget?, h1] at h
    · simp only [dget?, h1, if_false] at h
      simp [dset, h1, ih h]

theorem keys_dset_of_has {k : Str} (v : α) {l : List (Str × α)} (h : dhas k l = true) :
    (dset k v l).map Prod.fst = l.map Prod.fst := by
  induction l with
  | nil => simp [dhas, dget?] at h
  | cons x t ih =>
    obtain ⟨kx, vx⟩ := x
    by_cases h1 : kx = k
    · simp [dset, h1]
    · have : dhas k t = true := by simpa [dhas, dget?, h1] using h
      simp [dset, h1, ih this]

theorem nodup_keys_dset (k : Str) (v : α) {l : List (Str × α)} (h : (l.map Prod.fst).Nodup) :
    ((dset k v l).map Prod.fst).Nodup := by
  by_cases hk : dhas k l = true
  · rw [keys_dset_of_has v hk]; exact h
  · have hn : dget? k l = none := dhas_false_iff.mp (by simpa using hk)
    rw [dset_of_not_has v hn, List.map_append, List.nodup_append]
    refine ⟨h, by simp, ?_⟩
    intro a ha b hb
    simp at hb
    subst hb
    rintro rfl
    exact hk (mem_keys_iff.mp ha)

theorem dgetE_ok {k : Str} {l : List (Str × α)} {v : α} (h : dget? k l = some v) :
    dgetE k l = .ok v := by
  simp [dgetE, h]

/-- with duplicate-free keys, the dict holds `(k, v)` iff `dget? k = some v` -/
theorem mem_iff_dget? {l : List (Str × α)} (h : (l.map Prod.fst).Nodup) (k : Str) (v : α) :
    (k, v) ∈ l ↔ dget? k l = some v := by
  induction l with
  | nil => simp [dget?]
  | cons x t ih =>
    obtain ⟨kx, vx⟩ := x
    simp only [List.map_cons, List.nodup_cons] at h
    by_cases h1 : kx = k
    · subst h1
      simp only [dget?, if_true, List.mem_cons, Prod.mk.injEq, true_and, Option.some.injEq]
      constructor
      · rintro (e | hm)
        · exact e.symm
        · exact absurd (List.mem_map_of_mem (f := Prod.fst) hm) h.1
      · intro e; exact Or.inl e.symm
    · simp only [dget?, h1, if_false, List.mem_cons, Prod.mk.injEq]
      rw [← ih h.2]
      constructor
      · rintro (⟨e, _⟩ | hm)
        · exact absurd e.symm h1
        · exact hm
      · exact Or.inr

end CL.Codebase
