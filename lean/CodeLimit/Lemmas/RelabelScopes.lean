import CodeLimit.Lemmas.RelabelHeaders
/-!
# Relabelling, part 3: scopes, nesting, counting, measurements
-/
namespace CL

variable {f : Nat → Nat}

/-! ## scopes from headers and blocks -/

theorem buildScopesLoop_relabel (f : Nat → Nat) (hs : List Header) (blocks : List Range) :
    buildScopesLoop (hs.map (Header.rl f)) blocks =
      (buildScopesLoop hs blocks).map (List.map (Scope.rl f)) := by
  induction hs generalizing blocks with
  | nil => rfl
  | cons h hs ih =>
    simp only [List.map_cons, buildScopesLoop, Header.rl_rng]
    by_cases hI : (scopeBlockIndices h.rng blocks).isEmpty = true
    · simp only [hI, ↓reduceIte]; exact ih blocks
    · simp only [hI, Bool.false_eq_true, ↓reduceIte]
      rw [ih]
      generalize minList _ = a
      generalize maxList _ = b
      generalize buildScopesLoop hs _ = c
      rcases a with _ | a <;> rcases b with _ | b <;> rcases c with _ | c <;> rfl

theorem buildScopes0_relabel (hf : StrictMonoN f) (toks : List Tok) (hs : List Header)
    (blocks : List Range) :
    buildScopes0 (relabel f toks) (hs.map (Header.rl f)) blocks =
      (buildScopes0 toks hs blocks).map (List.map (Scope.rl f)) := by
  unfold buildScopes0
  rw [sortDesc_relabel hf toks (fun h : Header => h.rng.s) (fun h : Header => h.rng.s)
    (Header.rl f) (fun _ => rfl)]
  rcases sortDesc toks (fun h : Header => h.rng.s) hs with e | rh
  · rfl
  · simp only [Except.map_ok', buildScopesLoop_relabel]
    rcases buildScopesLoop rh blocks with e | r
    · rfl
    · simp [List.map_reverse]

/-! ## suppression, nesting -/

theorem contains_map_inj (hf : StrictMonoN f) (l : List Nat) (a : Nat) :
    (l.map f).contains (f a) = l.contains a := by
  rw [Bool.eq_iff_iff]
  simp only [List.contains_iff_mem, List.mem_map]
  constructor
  · rintro ⟨b, hb, hab⟩
    rw [← hf.inj hab]; exact hb
  · intro h; exact ⟨a, h, rfl⟩

theorem filterNocl_relabel (hf : StrictMonoN f) (scs : List Scope) (nocl : List Tok) :
    filterNocl (scs.map (Scope.rl f)) (relabel f nocl) = (filterNocl scs nocl).map (Scope.rl f) := by
  simp only [filterNocl, List.filter_map]
  congr 1
  apply List.filter_congr
  intro s _
  simp only [Function.comp, Scope.rl_hdr, Header.rl_name, Tok.rl_line, relabel, List.map_map]
  have : (List.map ((fun x => x.line) ∘ Tok.rl f) nocl) = (nocl.map (·.line)).map f := by
    simp [List.map_map, Function.comp_def]
  rw [this, contains_map_inj hf]

theorem filterNested_relabel (f : Nat → Nat) (ss : List Scope) (o : Option Scope) :
    filterNested (ss.map (Scope.rl f)) (o.map (Scope.rl f)) =
      (filterNested ss o).map (Scope.rl f) := by
  induction ss generalizing o with
  | nil => cases o <;> rfl
  | cons s ss ih =>
    cases o with
    | none =>
      simp only [List.map_cons, Option.map_none, filterNested]
      rw [← ih (some s)]; rfl
    | some last =>
      simp only [List.map_cons, Option.map_some, filterNested, Scope.rl_contains]
      by_cases hc : last.contains s = true
      · simp only [hc, ↓reduceIte]; rw [← ih (some last)]; rfl
      · simp only [hc, Bool.false_eq_true, ↓reduceIte]; rw [List.map_cons, ← ih (some s)]; rfl

theorem descend_relabel (f : Nat → Nat) (s : Scope) (path : List (Nat × Scope)) :
    descend (s.rl f) (path.map (fun p => (p.1, p.2.rl f))) =
      (descend s path).map (fun p => (p.1, p.2.rl f)) := by
  induction path with
  | nil => rfl
  | cons p rest ih =>
    simp only [List.map_cons, descend, Scope.rl_contains]
    by_cases hc : p.2.contains s = true
    · simp only [hc, ↓reduceIte]; rw [ih]; rfl
    · simp only [hc, Bool.false_eq_true, ↓reduceIte]; rfl

theorem foldParents_relabel (f : Nat → Nat) (ss : List Scope) (i : Nat) (path : List (Nat × Scope)) :
    foldParents (ss.map (Scope.rl f)) i (path.map (fun p => (p.1, p.2.rl f))) =
      foldParents ss i path := by
  induction ss generalizing i path with
  | nil => rfl
  | cons s ss ih =>
    simp only [List.map_cons, foldParents, descend_relabel]
    congr 1
    · simp only [List.getLast?_map, Option.map_map]; rfl
    · have := ih (i + 1) (descend s path ++ [(i, s)])
      simpa using this

theorem withChildren_relabel (f : Nat → Nat) (scs : List Scope) (parents : List (Option Nat)) :
    withChildren (scs.map (Scope.rl f)) parents =
      (withChildren scs parents).map (fun p => (p.1.rl f, p.2)) := by
  simp only [withChildren, List.zipIdx_map, List.map_map, List.zip_map_left, List.filter_map]
  apply List.map_congr_left
  rintro ⟨s, i⟩ _
  simp only [Function.comp, Prod.map, id]
  rfl

/-! ## counting -/

theorem getE_relabel (f : Nat → Nat) (toks : List Tok) (i : Nat) :
    getE (relabel f toks) i = (getE toks i).map (Tok.rl f) := by
  simp only [getE, relabel_getElem?]
  rcases toks[i]? with _ | t <;> rfl

theorem scopeLinesLoop_relabel (f : Nat → Nat) (toks : List Tok) (n i : Nat) (ch : List Range) :
    scopeLinesLoop (relabel f toks) n i ch = (scopeLinesLoop toks n i ch).map (List.map f) := by
  induction n generalizing i ch with
  | zero => rfl
  | succ n ih =>
    simp only [scopeLinesLoop, getE_relabel, ih]
    generalize List.dropWhile _ ch = ch'
    generalize scopeLinesLoop toks n (i + 1) ch' = r
    have key : ∀ keep : Bool,
        (match (if keep = true then
            Except.map (fun t => [t.line]) (Except.map (Tok.rl f) (getE toks i)) else .ok []),
          Except.map (List.map f) r with
        | .ok a, .ok r => Except.ok (a ++ r)
        | .error e, _ => .error e
        | _, .error e => .error e) =
        Except.map (List.map f)
          (match (if keep = true then Except.map (fun t => [t.line]) (getE toks i) else .ok []), r with
          | .ok a, .ok r => Except.ok (a ++ r)
          | .error e, _ => .error e
          | _, .error e => .error e) := by
      intro keep
      cases keep <;> rcases getE toks i with e | t <;> rcases r with e' | r <;> simp
    exact key _

theorem eraseDups_map_inj (hf : StrictMonoN f) (l : List Nat) :
    (l.map f).eraseDups = l.eraseDups.map f := by
  generalize hn : l.length = n
  induction n using Nat.strongRecOn generalizing l with
  | _ n ih =>
    cases l with
    | nil => rfl
    | cons a as =>
      rw [List.map_cons, List.eraseDups_cons, List.eraseDups_cons, List.map_cons, List.filter_map]
      congr 1
      have hlen : (as.filter fun b => !b == a).length < n := by
        have := List.length_filter_le (fun b => !b == a) as
        simp at hn; omega
      rw [← ih _ hlen _ rfl]
      congr 2
      apply List.filter_congr
      intro b _
      simp only [Function.comp, hf.beq]

theorem countDistinct_map_inj (hf : StrictMonoN f) (l : List Nat) :
    countDistinct (l.map f) = countDistinct l := by
  simp [countDistinct, eraseDups_map_inj hf]

theorem countLines_relabel (hf : StrictMonoN f) (toks : List Tok) (s : Scope) (ch : List Range) :
    countLines (relabel f toks) (s.rl f) ch = countLines toks s ch := by
  unfold countLines
  rw [sortAsc_relabel_id hf]
  rcases sortAsc toks Range.s ch with e | ch'
  · rfl
  · simp only [Scope.rl_blk, Scope.rl_hdr, Header.rl_rng, scopeLinesLoop_relabel]
    rcases scopeLinesLoop toks (s.blk.e - s.hdr.rng.s) s.hdr.rng.s ch' with e | ls
    · rfl
    · simp [countDistinct_map_inj hf]

/-! ## measurements -/

def Measurement.rl (f : Nat → Nat) (m : Measurement) : Measurement :=
  { m with sl := f m.sl, el := f m.el }

/-- `f` is a pure shift across every multi-line token: no line is inserted inside a token -/
def ShiftOn (f : Nat → Nat) (toks : List Tok) : Prop :=
  ∀ t ∈ toks, ∀ i, i ≤ (lastLineInfo t.val).1 → f (t.line + i) = f t.line + i

theorem mem_of_getE {toks : List Tok} {i : Nat} {t : Tok} (h : getE toks i = .ok t) : t ∈ toks := by
  unfold getE at h
  cases h' : toks[i]? with
  | none => simp [h'] at h
  | some x =>
    simp only [h', Except.ok.injEq] at h
    subst h
    exact List.mem_of_getElem? h'

/-- `f` is a pure shift across the last token of scope `s` (the only multi-line token whose
extent is reported) -/
def ShiftLast (f : Nat → Nat) (toks : List Tok) (s : Scope) : Prop :=
  ∀ last, toks[s.blk.e - 1]? = some last →
    ∀ i, i ≤ (lastLineInfo last.val).1 → f (last.line + i) = f last.line + i

theorem getE_eq_ok {toks : List Tok} {i : Nat} {t : Tok} (h : getE toks i = .ok t) :
    toks[i]? = some t := by
  unfold getE at h
  cases h' : toks[i]? with
  | none => simp [h'] at h
  | some x => simp only [h', Except.ok.injEq] at h; rw [h]

theorem measure_relabel_gen (hf : StrictMonoN f) (toks : List Tok)
    (s : Scope) (ch : List Range) (hshift : ShiftLast f toks s) :
    measure (relabel f toks) (s.rl f) ch = (measure toks s ch).map (Measurement.rl f) := by
  unfold measure
  simp only [bind, Except.bind, countLines_relabel hf, getE_relabel, Scope.rl_hdr, Header.rl_rng,
    Scope.rl_blk]
  rcases countLines toks s ch with e | len
  · rfl
  · dsimp only
    rcases getE toks s.hdr.rng.s with e | first
    · rfl
    · simp only [Except.map_ok']
      by_cases hz : s.blk.e = 0
      · simp [hz, throw, throwThe, MonadExceptOf.throw]
      · simp only [hz, if_false]
        cases hl : getE toks (s.blk.e - 1) with
        | error e => rfl
        | ok last =>
          have hmem := getE_eq_ok hl
          simp only [Except.map_ok', pure, Except.pure, Tok.rl_val, Tok.rl_line, Tok.rl_col,
            Header.rl_name]
          by_cases hi : (lastLineInfo last.val).1 = 0
          · simp [hi, Measurement.rl]
          · simp only [hi, if_false, Measurement.rl]
            rw [hshift last hmem _ (Nat.le_refl _)]

theorem measureAll_relabel_gen (hf : StrictMonoN f) (toks : List Tok)
    (scs : List (Scope × List Range)) (hshift : ∀ p ∈ scs, ShiftLast f toks p.1) :
    measureAll (relabel f toks) (scs.map (fun p => (p.1.rl f, p.2))) =
      (measureAll toks scs).map (List.map (Measurement.rl f)) := by
  induction scs with
  | nil => rfl
  | cons p rest ih =>
    obtain ⟨s, ch⟩ := p
    have h1 := hshift (s, ch) (List.mem_cons_self ..)
    have ih' := ih (fun p hp => hshift p (List.mem_cons_of_mem _ hp))
    simp only [List.map_cons, measureAll, measure_relabel_gen hf toks s ch h1, ih']
    rcases measure toks s ch with e | m <;> rcases measureAll toks rest with e' | r <;> rfl

theorem ShiftOn.shiftLast {toks : List Tok} (h : ShiftOn f toks) (s : Scope) : ShiftLast f toks s :=
  fun last hl => h last (List.mem_of_getElem? hl)

theorem measureAll_relabel (hf : StrictMonoN f) (toks : List Tok) (hshift : ShiftOn f toks)
    (scs : List (Scope × List Range)) :
    measureAll (relabel f toks) (scs.map (fun p => (p.1.rl f, p.2))) =
      (measureAll toks scs).map (List.map (Measurement.rl f)) :=
  measureAll_relabel_gen hf toks scs (fun p _ => hshift.shiftLast p.1)

end CL
