import CodeLimit.Lemmas.SynHeaderDisc
import CodeLimit.Spec.ProgTreeCanon
/-!
# The arrow-function pattern of JavaScript / TypeScript matches `[const] Name = [async] ( … )+`

`aExpr` is `[Optional(Keyword("const")), Name(), Operator("="), Optional(Keyword("async")),
OneOrMore(Balanced("(", ")"))]`, the second header pattern of the JavaScript and TypeScript
language definitions; its compiled table `aDfa` is

`start --const--> aK --Name--> aN --=--> aE --async--> aA --Balanced--> aS --Balanced--> aS`,
`start --Name--> aN`, `aE --Balanced--> aS`.

* `ArrowHeader toks p f` - the syntactic description of its greedy matches;
  `greedyAt_iff_arrowHeader`: they are exactly the greedy matches, on every token list;
* `followsAt_arrow` - the follow-up `=>` `{` needs these two symbols;
* `arrow_silent` - on a token list without `= [async] ( … ) => {` (`noAssignedArrow`), `get_headers`
  with the arrow pattern returns nothing;
* `extract_eq_first` - then `extract_headers` of JavaScript / TypeScript returns what `get_headers`
  with the function / method pattern returns.
-/
namespace CL.Syn
open CL.Compose CL.C01disc

/-- `Keyword("const")` -/
def kwConst : Pred := .keyword [99, 111, 110, 115, 116]
/-- `Keyword("async")` -/
def kwAsync : Pred := .keyword [97, 115, 121, 110, 99]
/-- `Operator("=")` -/
def opAssign : Pred := .operator [61]

/-- the arrow-function header expression -/
def aExpr : Rx Pred :=
  .cat (.cat (.cat (.cat (.opt (.atom kwConst)) (.atom .name)) (.atom opAssign))
    (.opt (.atom kwAsync))) (.plus (.atom bal))

/-- its follow-up: the symbol `=>`, then the symbol `{` -/
def aFollow : Rx Pred := .cat (.atom (.symbol [61, 62])) (.atom (.symbol [123]))

def aK : DState := .set [3, 4]
def aN : DState := .set [5]
def aE : DState := .set [6, 7, 9, 10]
def aA : DState := .set [8, 9, 10]
def aS : DState := .set [10, 11, 12]

/-- the compiled table of `aExpr` -/
def aDfa : Dfa Pred :=
  ⟨[(aK, [(.name, aN)]), (aA, [(bal, aS)]), (aS, [(bal, aS)]),
    (aE, [(kwAsync, aA), (bal, aS)]), (aN, [(opAssign, aE)]),
    (.start, [(kwConst, aK), (.name, aN)])], [aS]⟩

theorem compile_aExpr : compileTok aExpr = .ok aDfa := by rfl

/-- the compiled table of the follow-up `=>` `{` -/
def aFDfa : Dfa Pred :=
  ⟨[(.set [3], []), (.set [2], [(.symbol [123], .set [3])]),
    (.start, [(.symbol [61, 62], .set [2])])], [.set [3]]⟩

theorem compile_aFollow : compileTok aFollow = .ok aFDfa := by rfl

/-- the shipped JavaScript patterns: function / method pattern, then the arrow pattern -/
theorem js_pats : Gen.javascript.pats = [⟨fExpr, some braceRx⟩, ⟨aExpr, some aFollow⟩] := rfl

/-- the shipped TypeScript patterns -/
theorem ts_pats : Gen.typescript.pats
    = [⟨fExpr, some (tailRx (.operator [58]))⟩, ⟨aExpr, some aFollow⟩] := rfl

abbrev aM : Machine Tok (DState × Depths) := dfaMachine aDfa tokAcceptor

theorem arow_start : aDfa.row .start = [(kwConst, aK), (.name, aN)] := by decide
theorem arow_K : aDfa.row aK = [(.name, aN)] := by decide
theorem arow_N : aDfa.row aN = [(opAssign, aE)] := by decide
theorem arow_E : aDfa.row aE = [(kwAsync, aA), (bal, aS)] := by decide
theorem arow_A : aDfa.row aA = [(bal, aS)] := by decide
theorem arow_S : aDfa.row aS = [(bal, aS)] := by decide
theorem aacc_K : aDfa.isAcc aK = false := by decide
theorem aacc_N : aDfa.isAcc aN = false := by decide
theorem aacc_E : aDfa.isAcc aE = false := by decide
theorem aacc_A : aDfa.isAcc aA = false := by decide
theorem aacc_S : aDfa.isAcc aS = true := by decide

/-! ## single steps -/

theorem kwConst_not_name {x : Tok} (h : kwConst.eval x = true) : x.isName = false := by
  simp only [kwConst, Pred.eval, Tok.isKeyword, Bool.and_eq_true, beq_iff_eq] at h
  simp [Tok.isName, h.1]

theorem astep_start (ds : Depths) (x : Tok) :
    aM.step (.start, ds) x =
      if kwConst.eval x then .ok (some (aK, ds))
      else if x.isName then .ok (some (aN, ds)) else .ok none := by
  have hk : tokAcceptor.accept kwConst ds x = (kwConst.eval x, ds) := rfl
  have hn : tokAcceptor.accept .name ds x = (x.isName, ds) := rfl
  simp only [dfaMachine, consume, arow_start, consumeAux, hk, hn]
  by_cases h : kwConst.eval x = true
  · have := kwConst_not_name h
    simp [h, this]
  · by_cases h' : x.isName = true <;> simp [h, h']

theorem astep_K (ds : Depths) (x : Tok) :
    aM.step (aK, ds) x = if x.isName then .ok (some (aN, ds)) else .ok none := by
  have hn : tokAcceptor.accept .name ds x = (x.isName, ds) := rfl
  simp only [dfaMachine, consume, arow_K, consumeAux, hn]
  by_cases h' : x.isName = true <;> simp [h']

theorem astep_N (ds : Depths) (x : Tok) :
    aM.step (aN, ds) x = if x.isOperator [61] then .ok (some (aE, ds)) else .ok none := by
  have hn : tokAcceptor.accept opAssign ds x = (x.isOperator [61], ds) := rfl
  simp only [dfaMachine, consume, arow_N, consumeAux, hn]
  by_cases h' : x.isOperator [61] = true <;> simp [h']

theorem kwAsync_noParen {x : Tok} (h : kwAsync.eval x = true) :
    isOpen x = false ∧ isClose x = false := by
  simp only [kwAsync, Pred.eval, Tok.isKeyword, Bool.and_eq_true, beq_iff_eq] at h
  simp [isOpen, isClose, Tok.isSymbol, h.1]

/-- in `aE` (after `Name =`), with no parenthesis open: `async`, or `(`, or nothing -/
theorem astep_E (x : Tok) :
    aM.step (aE, []) x =
      if kwAsync.eval x then .ok (some (aA, []))
      else if isOpen x then .ok (some (aS, setDepth [] bal (getDepth [] bal + 1)))
      else .ok none := by
  have hk : tokAcceptor.accept kwAsync [] x = (kwAsync.eval x, []) := rfl
  have hb : tokAcceptor.accept bal [] x = acceptTok bal [] x := rfl
  simp only [dfaMachine, consume, arow_E, consumeAux, hk, hb]
  by_cases h : kwAsync.eval x = true
  · obtain ⟨ho, hc⟩ := kwAsync_noParen h
    rw [accept_other [] ho hc]
    simp [h, getDepth]
  · cases ho : isOpen x
    · cases hc : isClose x
      · rw [accept_other [] ho hc]; simp [h, getDepth]
      · rw [accept_close [] ho hc]; simp [h, getDepth]
    · rw [accept_open [] ho]; simp [h]

/-! ## the syntactic description -/

/- `ArrowHeader toks p f` (`Spec/SynHeader.lean`): the token range `[p, f)` is an arrow-function
header `[const] Name = [async] ( … )+`. -/

section generic
variable {D : Dfa Pred} {s1 s2 : DState}

/-- `greedy_of_prefix` with the step out of `s1` as a hypothesis (for a state `s1` that has other
transitions besides `Balanced`) -/
theorem greedy_of_prefix' (h2 : D.row s2 = [(bal, s2)]) (hacc : D.isAcc s2 = true)
    {toks : List Tok} {p0 i : Nat} {ds0 : Depths} (hp : p0 < i)
    (hrun : runM (dfaMachine D tokAcceptor) (dfaMachine D tokAcceptor).init (slice toks p0 i) =
      some (s1, ds0))
    (hd0 : getDepth ds0 bal = 0) (ho : OpenAt toks i)
    (hstep : ∀ o, isOpen o = true → (dfaMachine D tokAcceptor).step (s1, ds0) o =
      .ok (some (s2, setDepth ds0 bal (getDepth ds0 bal + 1)))) :
    GreedyAt (dfaMachine D tokAcceptor) toks p0 (groupsEnd toks i) := by
  have hopenAt := ho
  obtain ⟨o, ho, hopen⟩ := ho
  have hf := groupsEnd_open hopenAt
  have hlt1 := (List.getElem?_eq_some_iff.1 ho).1
  have hle := groupsLen_le (toks.drop (i + 1)) 1
  simp only [List.length_drop] at hle
  have hs2 := hstep o hopen
  obtain ⟨ds', hr, hend⟩ := run_groups h2 (toks.drop (i + 1))
    (setDepth ds0 bal (getDepth ds0 bal + 1)) 1 (by rw [getDepth_setDepth_self, hd0]; rfl)
  have hslice : slice toks i (groupsEnd toks i) =
      o :: (toks.drop (i + 1)).take (groupsLen (toks.drop (i + 1)) 1) := by
    unfold slice
    rw [drop_eq_cons ho, hf]
    have : i + 1 + groupsLen (toks.drop (i + 1)) 1 - i =
        groupsLen (toks.drop (i + 1)) 1 + 1 := by omega
    rw [this, List.take_succ_cons]
  refine ⟨by omega, by omega, (s2, ds'), ?_, hacc, ?_⟩
  · rw [slice_split toks (Nat.le_of_lt hp) (groupsEnd_ge toks i), runM_append, hrun, hslice]
    simp only [Option.bind_some, runM, hs2]
    exact hr
  · rcases hend with h | ⟨x, hx, hs⟩
    · left
      simp only [List.length_drop] at h
      omega
    · right; right
      refine ⟨x, ?_, hs⟩
      rw [List.getElem?_drop] at hx
      rw [hf]; exact hx

end generic

/-- the run over `Name =` -/
theorem arun_name_eq {n e : Tok} (hn : n.isName = true) (he : e.isOperator [61] = true) :
    runM aM (.start, []) [n, e] = some (aE, []) := by
  have hnk : kwConst.eval n = false := by
    cases hh : kwConst.eval n
    · rfl
    · rw [kwConst_not_name hh] at hn; cases hn
  simp [runM, astep_start, astep_N, hn, hnk, he]

theorem arun_const_name_eq {c n e : Tok} (hc : kwConst.eval c = true) (hn : n.isName = true)
    (he : e.isOperator [61] = true) : runM aM (.start, []) [c, n, e] = some (aE, []) := by
  simp [runM, astep_start, astep_K, astep_N, hn, hc, he]

theorem slice_three {toks : List Tok} {p : Nat} {a b c : Tok} (ha : toks[p]? = some a)
    (hb : toks[p + 1]? = some b) (hc : toks[p + 2]? = some c) :
    slice toks p (p + 2 + 1) = [a, b, c] := by
  rw [slice_succ toks (by omega) hc, show p + 2 = p + 1 + 1 from rfl, slice_two ha hb]; rfl

theorem slice_four {toks : List Tok} {p : Nat} {a b c d : Tok} (ha : toks[p]? = some a)
    (hb : toks[p + 1]? = some b) (hc : toks[p + 2]? = some c) (hd : toks[p + 3]? = some d) :
    slice toks p (p + 3 + 1) = [a, b, c, d] := by
  rw [slice_succ toks (by omega) hd, show p + 3 = p + 2 + 1 from rfl, slice_three ha hb hc]; rfl

/-- from `Name =` read up to index `i` (state `aE`), the match goes on as described -/
theorem greedy_from_E {toks : List Tok} {p i : Nat} (hp : p < i)
    (hrun : runM aM aM.init (slice toks p i) = some (aE, []))
    {g : Nat} (hg : g = i ∨ (g = i + 1 ∧ KeywordAt toks i [97, 115, 121, 110, 99]))
    (ho : OpenAt toks g) : GreedyAt aM toks p (groupsEnd toks g) := by
  rcases hg with rfl | ⟨rfl, ⟨a, ha, hak⟩⟩
  · refine greedy_of_prefix' (s1 := aE) arow_S aacc_S hp hrun rfl ho ?_
    intro o hoo
    have hk : kwAsync.eval o = false := by
      cases hh : kwAsync.eval o
      · rfl
      · rw [(kwAsync_noParen hh).1] at hoo; cases hoo
    rw [astep_E, hk, hoo]; rfl
  · have hak' : kwAsync.eval a = true := hak
    have hrun' : runM aM aM.init (slice toks p (i + 1)) = some (aA, []) := by
      rw [slice_succ toks (Nat.le_of_lt hp) ha, runM_snoc aM _ _ _ _ hrun, astep_E, hak']
      rfl
    exact greedy_of_prefix (ds0 := []) arow_A arow_S aacc_S (by omega) hrun' rfl ho

theorem greedy_of_arrowHeader {toks : List Tok} {p f : Nat} (h : ArrowHeader toks p f) :
    GreedyAt aM toks p f := by
  obtain ⟨n, g, hn, ⟨nm, hnm, hname⟩, ⟨e, he, heq⟩, hg, ho, rfl⟩ := h
  rcases hn with rfl | ⟨rfl, ⟨c, hc, hck⟩⟩
  · have hrun : runM aM aM.init (slice toks n (n + 1 + 1)) = some (aE, []) := by
      rw [slice_two hnm he]; exact arun_name_eq hname heq
    exact greedy_from_E (by omega) hrun hg ho
  · have hrun : runM aM aM.init (slice toks p (p + 2 + 1)) = some (aE, []) := by
      rw [slice_three hc hnm he]; exact arun_const_name_eq hck hname heq
    exact greedy_from_E (by omega) hrun hg ho

theorem arrowHeader_of_greedy {toks : List Tok} {p f : Nat} (h : GreedyAt aM toks p f) :
    ArrowHeader toks p f := by
  have hg := h
  obtain ⟨hpf, hfl, q, hr, hacc, _⟩ := h
  have huniq : ∀ f', ArrowHeader toks p f' → f = f' := fun f' h' =>
    Compose.greedy_finish_unique (dfaMachine_deadStuck aDfa tokAcceptor) hg
      (greedy_of_arrowHeader h')
  -- from `aN` (the name at `n = i - 1` has just been read) with the tokens `toks[i..f)` left
  have stageN : ∀ n, (n = p ∨ (n = p + 1 ∧ KeywordAt toks p [99, 111, 110, 115, 116])) →
      NameAt toks n → n + 1 ≤ f → runM aM (aN, []) (slice toks (n + 1) f) = some q →
      ArrowHeader toks p f := by
    intro n hn hname hif hr'
    rcases Nat.lt_or_ge (n + 1) f with hlt | hge
    · obtain ⟨t, ht, hs⟩ := slice_cons hlt hfl
      rw [hs] at hr'
      obtain ⟨c, hstep, hr2⟩ := runM_cons_some hr'
      rw [astep_N] at hstep
      by_cases hop : t.isOperator [61] = true
      · simp only [hop, if_true, Except.ok.injEq, Option.some.injEq] at hstep
        subst hstep
        have hopA : OperatorAt toks (n + 1) [61] := ⟨t, ht, hop⟩
        rcases Nat.lt_or_ge (n + 1 + 1) f with hlt2 | hge2
        · obtain ⟨u, hu, hs2⟩ := slice_cons hlt2 hfl
          rw [hs2] at hr2
          obtain ⟨c', hstep2, hr3⟩ := runM_cons_some hr2
          rw [astep_E] at hstep2
          by_cases hk : kwAsync.eval u = true
          · simp only [hk, if_true, Except.ok.injEq, Option.some.injEq] at hstep2
            subst hstep2
            -- `async`: an opening parenthesis must follow
            rcases Nat.lt_or_ge (n + 1 + 1 + 1) f with hlt3 | hge3
            · obtain ⟨v, hv, hs3⟩ := slice_cons hlt3 hfl
              rw [hs3] at hr3
              obtain ⟨c'', hstep3, _⟩ := runM_cons_some hr3
              have hov := step_s1_open (D := aDfa) arow_A rfl hstep3
              have hah : ArrowHeader toks p (groupsEnd toks (n + 3)) :=
                ⟨n, n + 3, hn, hname, hopA, .inr ⟨rfl, ⟨u, hu, hk⟩⟩, ⟨v, hv, hov⟩, rfl⟩
              rw [huniq _ hah]; exact hah
            · have : n + 1 + 1 + 1 = f := by omega
              subst this
              rw [slice_self] at hr3
              simp only [runM, Option.some.injEq] at hr3
              subst hr3
              have : aDfa.isAcc aA = true := hacc
              rw [aacc_A] at this; cases this
          · simp only [hk, Bool.false_eq_true, if_false] at hstep2
            by_cases ho : isOpen u = true
            · have hah : ArrowHeader toks p (groupsEnd toks (n + 2)) :=
                ⟨n, n + 2, hn, hname, hopA, .inl rfl, ⟨u, hu, ho⟩, rfl⟩
              rw [huniq _ hah]; exact hah
            · simp [ho] at hstep2
        · have : n + 1 + 1 = f := by omega
          subst this
          rw [slice_self] at hr2
          simp only [runM, Option.some.injEq] at hr2
          subst hr2
          have : aDfa.isAcc aE = true := hacc
          rw [aacc_E] at this; cases this
      · simp [hop] at hstep
    · have : n + 1 = f := by omega
      subst this
      rw [slice_self] at hr'
      simp only [runM, Option.some.injEq] at hr'
      subst hr'
      have : aDfa.isAcc aN = true := hacc
      rw [aacc_N] at this; cases this
  obtain ⟨t0, ht0, hs0⟩ := slice_cons hpf hfl
  rw [hs0] at hr
  obtain ⟨c1, hstep1, hr1⟩ := runM_cons_some hr
  rw [show aM.init = (.start, []) from rfl, astep_start] at hstep1
  by_cases hk : kwConst.eval t0 = true
  · simp only [hk, if_true, Except.ok.injEq, Option.some.injEq] at hstep1
    subst hstep1
    rcases Nat.lt_or_ge (p + 1) f with hlt | hge
    · obtain ⟨t1, ht1, hs1⟩ := slice_cons hlt hfl
      rw [hs1] at hr1
      obtain ⟨c2, hstep2, hr2⟩ := runM_cons_some hr1
      rw [astep_K] at hstep2
      by_cases hn : t1.isName = true
      · simp only [hn, if_true, Except.ok.injEq, Option.some.injEq] at hstep2
        subst hstep2
        exact stageN (p + 1) (.inr ⟨rfl, ⟨t0, ht0, hk⟩⟩) ⟨t1, ht1, hn⟩ (by omega) hr2
      · simp [hn] at hstep2
    · have : p + 1 = f := by omega
      subst this
      rw [slice_self] at hr1
      simp only [runM, Option.some.injEq] at hr1
      subst hr1
      have : aDfa.isAcc aK = true := hacc
      rw [aacc_K] at this; cases this
  · simp only [hk, Bool.false_eq_true, if_false] at hstep1
    by_cases hn : t0.isName = true
    · simp only [hn, if_true, Except.ok.injEq, Option.some.injEq] at hstep1
      subst hstep1
      exact stageN p (.inl rfl) ⟨t0, ht0, hn⟩ (by omega) hr1
    · simp [hn] at hstep1

/-- **The greedy matches of the arrow-function pattern are exactly the ranges
`[const] Name = [async] ( … )+`**, on every token list. -/
theorem greedyAt_iff_arrowHeader {D : Dfa Pred} (hD : compileTok aExpr = .ok D) (toks : List Tok)
    (p f : Nat) : GreedyAt (dfaMachine D tokAcceptor) toks p f ↔ ArrowHeader toks p f := by
  have : D = aDfa := by rw [compile_aExpr] at hD; cases hD; rfl
  subst this
  exact ⟨arrowHeader_of_greedy, greedy_of_arrowHeader⟩

/-! ## the follow-up `=>` `{` -/

theorem afrow_start : aFDfa.row .start = [(.symbol [61, 62], .set [2])] := by decide
theorem afrow_2 : aFDfa.row (.set [2]) = [(.symbol [123], .set [3])] := by decide
theorem afacc_2 : aFDfa.isAcc (.set [2]) = false := by decide

theorem afstep_start (ds : Depths) (x : Tok) :
    (dfaMachine aFDfa tokAcceptor).step (.start, ds) x =
      if x.isSymbol [61, 62] then .ok (some (.set [2], ds)) else .ok none := by
  by_cases h : x.isSymbol [61, 62] = true <;>
    simp [dfaMachine, consume, afrow_start, consumeAux, tokAcceptor, acceptTok, Pred.eval, h]

theorem afstep_2 (ds : Depths) (x : Tok) :
    (dfaMachine aFDfa tokAcceptor).step (.set [2], ds) x =
      if x.isSymbol [123] then .ok (some (.set [3], ds)) else .ok none := by
  by_cases h : x.isSymbol [123] = true <;>
    simp [dfaMachine, consume, afrow_2, consumeAux, tokAcceptor, acceptTok, Pred.eval, h]

/-- the follow-up of the arrow pattern needs the symbol `=>` at `f` and the symbol `{` at `f + 1` -/
theorem followsAt_arrow {toks : List Tok} {f : Nat} (h : FollowsAt (some aFollow) toks f) :
    ∃ a b r, toks.drop f = a :: b :: r ∧ a.isSymbol [61, 62] = true ∧ b.isSymbol [123] = true := by
  simp only [FollowsAt, compile_aFollow, Except.ok.injEq, exists_and_left, exists_eq_left'] at h
  obtain ⟨k, hk⟩ := h
  cases hd : toks.drop f with
  | nil => rw [hd] at hk; simp [startsWithM] at hk
  | cons a xs =>
    rw [hd] at hk
    simp only [startsWithM] at hk
    rw [show (dfaMachine aFDfa tokAcceptor).init = (.start, []) from rfl, afstep_start] at hk
    cases ha : a.isSymbol [61, 62]
    · simp [ha] at hk
    · simp only [ha, if_true] at hk
      have hna : (dfaMachine aFDfa tokAcceptor).acc (.set [2], []) = false := afacc_2
      simp only [hna, Bool.false_eq_true, if_false] at hk
      cases xs with
      | nil => simp [startsWithM] at hk
      | cons b r =>
        simp only [startsWithM] at hk
        rw [afstep_2] at hk
        cases hb : b.isSymbol [123]
        · simp [hb] at hk
        · exact ⟨a, b, r, rfl, ha, hb⟩

end CL.Syn

namespace CL
open CL.Syn CL.Compose CL.C01disc

/-- a token list without `= [async] ( … ) => {`: at no operator `=` -/
theorem noAssignedArrow_get : ∀ (l : List Tok), noAssignedArrow l = true → ∀ (j : Nat) (a : Tok),
    l[j]? = some a → a.isOperator [61] = true → arrowAfterAssign (l.drop (j + 1)) = false
  | [], _, j, a, h1, _ => by simp at h1
  | t :: ts, h, 0, a, h1, h2 => by
    simp only [noAssignedArrow, Bool.and_eq_true, Bool.not_eq_true'] at h
    simp only [List.getElem?_cons_zero, Option.some.injEq] at h1
    subst h1
    simpa [h2] using h.1
  | t :: ts, h, j + 1, a, h1, h2 => by
    simp only [noAssignedArrow, Bool.and_eq_true] at h
    exact noAssignedArrow_get ts h.2 j a (by simpa using h1) h2

/-- the tokens from an opening parenthesis at `g` on are `( … ) => {` when the run of groups that
starts at `g` is followed by `=>` and `{` -/
theorem arrowBodyAfterRun_of {toks : List Tok} {g : Nat} (ho : OpenAt toks g) {a b : Tok}
    {r : List Tok} (hd : toks.drop (groupsEnd toks g) = a :: b :: r)
    (ha : a.isSymbol [61, 62] = true) (hb : b.isSymbol [123] = true) :
    arrowBodyAfterRun (toks.drop g) = true := by
  obtain ⟨o, ho1, ho2⟩ := ho
  unfold arrowBodyAfterRun
  have h1 : (toks.drop g).head?.any isOpen = true := by
    rw [drop_eq_cons ho1]; simpa using ho2
  have h2 : (toks.drop g).drop (groupsLen (toks.drop g) 0) = a :: b :: r := by
    rw [List.drop_drop]; exact hd
  rw [h1, h2]
  simp [startsArrowBody, ha, hb]

/-- **the arrow-function pattern is silent on token lists without `= [async] ( … ) => {`** -/
theorem arrow_silent {L : Language} (hL : L ∈ Gen.all.map (·.2))
    (hhp : (⟨aExpr, some aFollow⟩ : HeaderPat) ∈ L.pats) {toks : List Tok}
    (hna : noAssignedArrow toks = true)
    {hs : List Header} (h : getHeaders ⟨aExpr, some aFollow⟩ toks = .ok hs) : hs = [] := by
  cases hs with
  | nil => rfl
  | cons hd tl =>
    exfalso
    obtain ⟨D, ms, hD, hms, h1, _⟩ := getHeaders_mem h
    obtain ⟨m, hm, hfol, _, _⟩ := h1 hd List.mem_cons_self
    obtain ⟨hnn, hds⟩ := shipped_machine L hL _ hhp D hD
    have hg := C14.greedy hnn hds hms m hm
    have hDa : D = aDfa := by
      have := compile_aExpr
      rw [show compileTok (⟨aExpr, some aFollow⟩ : HeaderPat).expr = compileTok aExpr from rfl] at hD
      rw [this] at hD; cases hD; rfl
    subst hDa
    obtain ⟨n, g, _, _, ⟨e, he, heq⟩, hgg, ho, hf⟩ := arrowHeader_of_greedy hg
    obtain ⟨a, b, r, hdrop, ha, hb⟩ := followsAt_arrow hfol
    rw [hf] at hdrop
    have hbody := arrowBodyAfterRun_of ho hdrop ha hb
    have hno := noAssignedArrow_get toks hna (n + 1) e he heq
    rcases hgg with rfl | ⟨rfl, ⟨u, hu, huk⟩⟩
    · rw [show n + 1 + 1 = n + 2 from rfl] at hno
      simp [arrowAfterAssign, hbody] at hno
    · have hdu : toks.drop (n + 1 + 1) = u :: toks.drop (n + 3) := drop_eq_cons hu
      rw [hdu] at hno
      have huk' : u.isKw kwAsyncS = true := huk
      simp [arrowAfterAssign, hbody, huk'] at hno

/-- on a token list without `= [async] ( … ) => {`, `extract_headers` of a language with the
patterns `[hp1, arrow]` and no previous-keyword filter returns what `get_headers` returns for
`hp1` -/
theorem extract_eq_first {L : Language} (hL : L ∈ Gen.all.map (·.2)) {hp1 : HeaderPat}
    (hpats : L.pats = [hp1, ⟨aExpr, some aFollow⟩]) (hprev : L.prevKw = none)
    {toks : List Tok} (hna : noAssignedArrow toks = true) {hs : List Header}
    (h : extractHeaders L toks = .ok hs) : getHeaders hp1 toks = .ok hs := by
  unfold extractHeaders at h
  rw [hpats, hprev] at h
  simp only [concatHeaders] at h
  cases h1 : getHeaders hp1 toks with
  | error e => simp [h1] at h
  | ok a =>
    cases h2 : getHeaders ⟨aExpr, some aFollow⟩ toks with
    | error e => simp [h1, h2] at h
    | ok b =>
      have hb : b = [] := arrow_silent hL (by rw [hpats]; simp) hna h2
      subst hb
      simp only [h1, h2, List.append_nil] at h
      cases h
      rfl

/-! ## runs of groups -/

/-- a run of parenthesis groups (started at `g'`) that is inside its parentheses at the start of a
piece `[s, g)` without parentheses that is followed by a complete run of groups (started at `g`),
stops after that run -/
theorem no_finish_inside {toks : List Tok} {g' s g : Nat} (hgs : g' < s)
    (hsf : s < groupsEnd toks g') (hsg : s < g)
    (hnp : ∀ j, s ≤ j → j < g → ∃ t, toks[j]? = some t ∧ isOpen t = false ∧ isClose t = false)
    (hlt : groupsEnd toks g < toks.length) : groupsEnd toks g < groupsEnd toks g' := by
  have key : ∀ j, s ≤ j → j < g →
      ∃ d, 1 ≤ d ∧ groupsEnd toks g' = j + 1 + groupsLen (toks.drop (j + 1)) d := by
    intro j hj
    induction j, hj using Nat.le_induction with
    | base =>
      intro hsg'
      have hk : s - g' < groupsLen (toks.drop g') 0 := by unfold groupsEnd at hsf; omega
      obtain ⟨t, d', ht, hsplit, hd'⟩ := groupsLen_split _ 0 _ hk
      rw [List.getElem?_drop, show g' + (s - g') = s by omega] at ht
      rw [List.drop_drop, show g' + (s - g' + 1) = s + 1 by omega] at hsplit
      obtain ⟨t', ht', _, hc⟩ := hnp s (Nat.le_refl _) hsg'
      rw [ht] at ht'; cases ht'
      exact ⟨d', hd' hc, by unfold groupsEnd; omega⟩
    | succ j hj ih =>
      intro hlt'
      obtain ⟨d, hd, he⟩ := ih (by omega)
      obtain ⟨t, ht, ho, hc⟩ := hnp (j + 1) (by omega) hlt'
      obtain ⟨d0, rfl⟩ : ∃ d0, d = d0 + 1 := ⟨d - 1, by omega⟩
      rw [drop_eq_cons ht, groupsLen_other _ _ ho hc] at he
      exact ⟨d0 + 1, hd, by omega⟩
  obtain ⟨d, hd, he⟩ := key (g - 1) (by omega) (by omega)
  rw [show g - 1 + 1 = g by omega] at he
  have hlen : groupsLen (toks.drop g) 0 < (toks.drop g).length := by
    unfold groupsEnd at hlt
    simp only [List.length_drop]; omega
  have := groupsLen_lt_of_lt (toks.drop g) (d := 0) (d' := d) (by omega) hlen
  unfold groupsEnd at he ⊢
  omega

/-! ## matches of the arrow pattern, through `get_headers` -/

theorem arrowHeader_finish_unique {toks : List Tok} {p f f' : Nat} (h : ArrowHeader toks p f)
    (h' : ArrowHeader toks p f') : f = f' :=
  Compose.greedy_finish_unique (dfaMachine_deadStuck aDfa tokAcceptor) (greedy_of_arrowHeader h)
    (greedy_of_arrowHeader h')

/-- the follow-up `=>` `{` of the arrow pattern -/
theorem followsAt_arrow_of {toks : List Tok} {f : Nat} {a b : Tok} {r : List Tok}
    (hd : toks.drop f = a :: b :: r) (ha : a.isSymbol [61, 62] = true)
    (hb : b.isSymbol [123] = true) : FollowsAt (some aFollow) toks f := by
  refine ⟨aFDfa, 2, compile_aFollow, ?_⟩
  rw [hd]
  have hacc2 : (dfaMachine aFDfa tokAcceptor (β := Tok)).acc (.set [2], []) = false := afacc_2
  have hacc3 : (dfaMachine aFDfa tokAcceptor (β := Tok)).acc (.set [3], []) = true := by decide
  simp only [startsWithM]
  rw [show (dfaMachine aFDfa tokAcceptor (β := Tok)).init = (.start, []) from rfl, afstep_start, ha]
  simp only [if_true, hacc2, Bool.false_eq_true, if_false]
  rw [afstep_2, hb]
  simp only [if_true, hacc3]

/-- a match of the arrow pattern that passes the follow-up test and is not pre-empted by another
match of the pattern is returned by `get_headers` -/
theorem arrow_reported {L : Language} (hL : L ∈ Gen.all.map (·.2))
    (hhp : (⟨aExpr, some aFollow⟩ : HeaderPat) ∈ L.pats) {toks : List Tok} {hs : List Header}
    (h : getHeaders ⟨aExpr, some aFollow⟩ toks = .ok hs) {p f : Nat} {nm : Tok}
    (harr : ArrowHeader toks p f) (hfo : FollowsAt (some aFollow) toks f)
    (hname : firstName (slice toks p f) = .ok nm)
    (hbefore : ∀ q f', q < p → ArrowHeader toks q f' → ¬ (p < f' ∧ f' ≤ f))
    (hafter : ∀ q f', p < q → ArrowHeader toks q f' → ¬ f' < f) :
    (⟨nm, ⟨p, f⟩⟩ : Header) ∈ hs := by
  obtain ⟨D, ms, hD, hms, hiff⟩ := getHeaders_found_iff L hL _ hhp toks hs h
  obtain ⟨hnn, hds⟩ := shipped_machine L hL _ hhp D hD
  have hDa : D = aDfa := by
    have h1 : compileTok aExpr = .ok D := hD
    rw [compile_aExpr] at h1; cases h1; rfl
  subst hDa
  have hnp : ¬ ∃ m ∈ ms, (m.s < p ∧ p < m.e ∧ m.e ≤ f) ∨ (p < m.s ∧ m.e < f) := by
    rintro ⟨m, hm, hcase⟩
    have hgm := arrowHeader_of_greedy (C14.greedy hnn hds hms m hm)
    rcases hcase with ⟨h1, h2, h3⟩ | ⟨h1, h2⟩
    · exact hbefore m.s m.e h1 hgm ⟨h2, h3⟩
    · exact hafter m.s m.e h1 hgm h2
  obtain ⟨hd, hhd, hr, hn⟩ := (hiff p f).2 ⟨greedy_of_arrowHeader harr, hnp, hfo⟩
  rw [hname] at hn
  cases hd with
  | mk nm' rng =>
    simp only at hr hn
    cases hr; cases hn
    exact hhd

end CL
