import CodeLimit.Lemmas.PyTreeLayout
import CodeLimit.Lemmas.SynHeaderPy
/-!
# Python indentation trees: header discovery

For a well-formed forest the `def` headers of the rendered token list (`Syn.DefHeader`) are exactly
the headers of the function nodes:

* `defHeader_tree`: the header range of every function node is a `def` header;
* `defKw_tree`: the keyword `def` occurs only at the first token of such a range;
* `defHeader_place`: `DefHeader` does not depend on the locations;
* `extract_tree`: `extract_headers` of Python returns exactly the headers of the function nodes, in
  source order.
-/
namespace CL.PyT
open CL.Syn

/-! ## complete parenthesis groups -/

/-- tokens that are exactly one or more complete groups, followed by a token that is not `(`:
the pass of `groupsLen` reads exactly them -/
theorem groupsLen_exact : ∀ (A B : List Tok) (d : Nat), groupsExact A d = true →
    (∀ x, B.head? = some x → isOpen x = false) → groupsLen (A ++ B) d = A.length
  | [], B, d, h, hB => by
    simp only [groupsExact, beq_iff_eq] at h
    subst h
    cases B with
    | nil => rfl
    | cons x xs => simp [groupsLen, hB x rfl]
  | t :: ts, B, d, h, hB => by
    simp only [groupsExact] at h
    cases ho : isOpen t with
    | true =>
      simp only [ho, if_true] at h
      simp only [List.cons_append, groupsLen, ho, if_true, List.length_cons,
        groupsLen_exact ts B (d + 1) h hB]
    | false =>
      simp only [ho, Bool.false_eq_true, if_false] at h
      cases d with
      | zero => cases h
      | succ d' =>
        simp only at h
        cases hc : isClose t with
        | true =>
          simp only [hc, if_true] at h
          simp only [List.cons_append, groupsLen, ho, hc, Bool.false_eq_true, if_false, if_true,
            List.length_cons, groupsLen_exact ts B d' h hB]
        | false =>
          simp only [hc, Bool.false_eq_true, if_false] at h
          simp only [List.cons_append, groupsLen, ho, hc, Bool.false_eq_true, if_false,
            List.length_cons, groupsLen_exact ts B (d' + 1) h hB]

theorem groupsExact_open {t : Tok} {ts : List Tok} (h : groupsExact (t :: ts) 0 = true) :
    isOpen t = true := by
  simp only [groupsExact] at h
  cases ho : isOpen t with
  | true => rfl
  | false => simp [ho] at h

/-! ## the header ranges of the function nodes are `def` headers -/

theorem bare_get {ps : List PTok} {j : Nat} {t : PTok} (h : ps[j]? = some t) :
    (ps.map PTok.bare)[j]? = some t.bare := by
  rw [List.getElem?_map, h]; rfl

theorem defHeader_tree {ps : List PTok} : ∀ (t : PyProg PTok) (i c lim : Nat),
    t.wfAt c lim = true → Seg ps i t.flat →
    ∀ r ∈ pyRanges t i, DefHeader (ps.map PTok.bare) r.1.s r.1.e
  | .nil, _, _, _, _, _, r, hr => by cases hr
  | .line toks rest, i, c, lim, hw, hseg, r, hr => by
    simp only [PyProg.wfAt, Bool.and_eq_true] at hw
    exact defHeader_tree rest _ c lim hw.2 (seg_line hseg).2 r hr
  | .block head suite rest, i, c, lim, hw, hseg, r, hr => by
    simp only [PyProg.wfAt, Bool.and_eq_true, decide_eq_true_eq] at hw
    obtain ⟨⟨_, w5⟩, w6⟩ := hw
    obtain ⟨_, hss, hsr⟩ := seg_block hseg
    simp only [pyRanges, List.mem_append] at hr
    rcases hr with hr | hr
    · exact defHeader_tree suite _ _ lim w5 hss r hr
    · exact defHeader_tree rest _ c lim w6 hsr r hr
  | .defn pre kw name params post suite rest, i, c, lim, hw, hseg, r, hr => by
    simp only [PyProg.wfAt, Bool.and_eq_true, decide_eq_true_eq, Bool.not_eq_true'] at hw
    obtain ⟨⟨⟨⟨⟨⟨⟨⟨⟨⟨⟨⟨⟨⟨⟨_, _⟩, w3⟩, w4⟩, w5⟩, w6⟩, _⟩, _⟩, w9⟩, _⟩, _⟩, w12⟩, _⟩, _⟩, w15⟩, w16⟩ := hw
    obtain ⟨hpre, hkw, hname, hpar, hpost, hss, hsr⟩ := seg_defn hseg
    simp only [pyRanges, List.mem_cons, List.mem_append] at hr
    rcases hr with rfl | hr | hr
    · simp only
      obtain ⟨x, xs, rfl⟩ : ∃ x xs, params = x :: xs := by
        cases params with
        | nil => cases w5
        | cons x xs => exact ⟨x, xs, rfl⟩
      obtain ⟨y, ys, rfl⟩ : ∃ y ys, post = y :: ys := by
        cases post with
        | nil => cases w9
        | cons y ys => exact ⟨y, ys, rfl⟩
      have hx : ps[i + pre.length + 2]? = some x := (Seg.cons_iff.mp hpar).1
      have hopen : isOpen x.bare = true := groupsExact_open (by simpa using w6)
      refine ⟨⟨kw.bare, bare_get hkw, w3⟩, ⟨name.bare, bare_get hname, w4⟩,
        ⟨x.bare, bare_get hx, hopen⟩, ?_⟩
      -- the run of groups that starts at the opening parenthesis is the parameter list
      have hs2 : Seg ps (i + pre.length + 2) ((x :: xs) ++ (y :: ys)) :=
        Seg.append_iff.mpr ⟨hpar, hpost⟩
      obtain ⟨tl, htl⟩ := Seg.map PTok.bare hs2
      unfold groupsEnd
      rw [← htl, List.map_append, List.append_assoc,
        groupsLen_exact _ _ 0 w6 (by
          intro z hz
          simp only [List.map_cons, List.cons_append, List.head?_cons, Option.some.injEq] at hz
          subst hz
          simpa using w12)]
      simp
    · exact defHeader_tree suite _ _ _ w15 hss r hr
    · exact defHeader_tree rest _ c lim w16 hsr r hr

/-! ## the keyword `def` occurs only as the first token of a header -/

theorem pyNoDef_at {ps : List PTok} {k : Nat} {l : List PTok} (h : Seg ps k l)
    (hl : pyNoDef l = true) {q : Nat} (h1 : k ≤ q) (h2 : q < k + l.length) :
    ¬ KeywordAt (ps.map PTok.bare) q defStr := by
  obtain ⟨t, ht, hp⟩ := seg_all h hl h1 h2
  rintro ⟨x, hx, hk⟩
  rw [bare_get ht] at hx
  cases hx
  have : isDefTok t.bare = true := hk
  rw [this] at hp
  cases hp

theorem defKw_tree {ps : List PTok} : ∀ (t : PyProg PTok) (i c lim : Nat),
    t.wfAt c lim = true → Seg ps i t.flat → ∀ q, i ≤ q → q < i + t.size →
    KeywordAt (ps.map PTok.bare) q defStr → ∃ r ∈ pyRanges t i, r.1.s = q
  | .nil, i, _, _, _, _, q, h1, h2, _ => by simp only [PyProg.size] at h2; omega
  | .line toks rest, i, c, lim, hw, hseg, q, h1, h2, hk => by
    simp only [PyProg.wfAt, Bool.and_eq_true] at hw
    obtain ⟨hst, hsr⟩ := seg_line hseg
    simp only [PyProg.size] at h2
    rcases Nat.lt_or_ge q (i + toks.length) with hq | hq
    · exact absurd hk (pyNoDef_at hst hw.1.2 h1 hq)
    · exact defKw_tree rest _ c lim hw.2 hsr q hq (by omega) hk
  | .block head suite rest, i, c, lim, hw, hseg, q, h1, h2, hk => by
    simp only [PyProg.wfAt, Bool.and_eq_true, decide_eq_true_eq] at hw
    obtain ⟨⟨⟨⟨⟨_, w2⟩, _⟩, _⟩, w5⟩, w6⟩ := hw
    obtain ⟨hsh, hss, hsr⟩ := seg_block hseg
    simp only [PyProg.size] at h2
    simp only [pyRanges, List.mem_append]
    rcases Nat.lt_or_ge q (i + head.length) with hq | hq
    · exact absurd hk (pyNoDef_at hsh w2 h1 hq)
    · rcases Nat.lt_or_ge q (i + head.length + suite.size) with hq2 | hq2
      · obtain ⟨r, hr, e⟩ := defKw_tree suite _ _ lim w5 hss q hq hq2 hk
        exact ⟨r, .inl hr, e⟩
      · obtain ⟨r, hr, e⟩ := defKw_tree rest _ c lim w6 hsr q hq2 (by omega) hk
        exact ⟨r, .inr hr, e⟩
  | .defn pre kw name params post suite rest, i, c, lim, hw, hseg, q, h1, h2, hk => by
    simp only [PyProg.wfAt, Bool.and_eq_true, decide_eq_true_eq, Bool.not_eq_true'] at hw
    obtain ⟨⟨⟨⟨⟨⟨⟨⟨⟨⟨⟨⟨⟨⟨⟨_, w2⟩, _⟩, _⟩, _⟩, _⟩, _⟩, w8⟩, _⟩, _⟩, w11⟩, _⟩, _⟩, _⟩, w15⟩, w16⟩ := hw
    obtain ⟨hpre, hkw, hname, hpar, hpost, hss, hsr⟩ := seg_defn hseg
    simp only [PyProg.size] at h2
    simp only [pyRanges, List.mem_cons, List.mem_append]
    rcases Nat.lt_or_ge q (i + pre.length) with hq | hq
    · exact absurd hk (pyNoDef_at hpre w2 h1 hq)
    · rcases Nat.eq_or_lt_of_le hq with rfl | hq'
      · exact ⟨_, .inl rfl, rfl⟩
      · rcases Nat.lt_or_ge q (i + pre.length + 2 + params.length) with hq2 | hq2
        · have hsn : Seg ps (i + pre.length + 1) (name :: params) :=
            Seg.cons_iff.mpr ⟨hname, hpar⟩
          exact absurd hk (pyNoDef_at hsn w8 (by omega) (by simp only [List.length_cons]; omega))
        · rcases Nat.lt_or_ge q (i + pre.length + 2 + params.length + post.length) with hq3 | hq3
          · exact absurd hk (pyNoDef_at hpost w11 hq2 hq3)
          · rcases Nat.lt_or_ge q (i + pre.length + 2 + params.length + post.length + suite.size)
              with hq4 | hq4
            · obtain ⟨r, hr, e⟩ := defKw_tree suite _ _ _ w15 hss q hq3 hq4 hk
              exact ⟨r, .inr (.inl hr), e⟩
            · obtain ⟨r, hr, e⟩ := defKw_tree rest _ c lim w16 hsr q hq4 (by omega) hk
              exact ⟨r, .inr (.inr hr), e⟩

/-! ## `DefHeader` does not depend on the locations -/

theorem place_at_iff {P : Tok → Bool} (hP : ∀ a b, Tok.Same a b → P a = P b) (ps : List PTok)
    (s : Nat × Nat) (q : Nat) :
    (∃ t, (place s ps)[q]? = some t ∧ P t = true) ↔
      (∃ t, (ps.map PTok.bare)[q]? = some t ∧ P t = true) := by
  cases h : ps[q]? with
  | none =>
    have h1 : (place s ps)[q]? = none := by
      rw [List.getElem?_eq_none_iff] at h ⊢; rw [length_place]; exact h
    have h2 : (ps.map PTok.bare)[q]? = none := by rw [List.getElem?_map, h]; rfl
    simp [h1, h2]
  | some p =>
    rw [place_get ps s q p h, bare_get h]
    simp only [Option.some.injEq, exists_eq_left']
    rw [hP _ _ (same_put _ p)]

theorem same_isOpen {a b : Tok} (h : Tok.Same a b) : Syn.isOpen a = Syn.isOpen b := by
  unfold Syn.isOpen; exact h.isSymbol _

theorem same_isClose {a b : Tok} (h : Tok.Same a b) : Syn.isClose a = Syn.isClose b := by
  unfold Syn.isClose; exact h.isSymbol _

theorem groupsLen_place : ∀ (l : List PTok) (s : Nat × Nat) (d : Nat),
    groupsLen (place s l) d = groupsLen (l.map PTok.bare) d
  | [], _, _ => rfl
  | t :: l, s, d => by
    have ho := same_isOpen (same_put s t)
    have hc := same_isClose (same_put s t)
    cases d with
    | zero => simp only [place, List.map_cons, groupsLen, ho, groupsLen_place l]
    | succ d' => simp only [place, List.map_cons, groupsLen, ho, hc, groupsLen_place l]

theorem drop_place : ∀ (l : List PTok) (s : Nat × Nat) (k : Nat),
    ∃ s', (place s l).drop k = place s' (l.drop k)
  | l, s, 0 => ⟨s, rfl⟩
  | [], s, k + 1 => ⟨s, rfl⟩
  | t :: l, s, k + 1 => by
    simp only [place, List.drop_succ_cons]
    exact drop_place l _ k

theorem groupsEnd_place (ps : List PTok) (s : Nat × Nat) (k : Nat) :
    groupsEnd (place s ps) k = groupsEnd (ps.map PTok.bare) k := by
  unfold groupsEnd
  obtain ⟨s', hs'⟩ := drop_place ps s k
  rw [hs', groupsLen_place, List.map_drop]

/-- `DefHeader` only looks at kinds and texts -/
theorem defHeader_place (ps : List PTok) (s : Nat × Nat) (q f : Nat) :
    DefHeader (place s ps) q f ↔ DefHeader (ps.map PTok.bare) q f := by
  unfold DefHeader KeywordAt NameAt OpenAt
  rw [groupsEnd_place,
    place_at_iff (P := fun t => t.isKeyword && t.val == defStr) (fun a b h => by
      simp only [Tok.isKeyword, h.1, h.2]) ps s q,
    place_at_iff (P := Tok.isName) (fun a b h => h.isName) ps s (q + 1),
    place_at_iff (P := isOpen) (fun a b h => same_isOpen h) ps s (q + 2)]

/-! ## `extract_headers` on a rendered forest -/

/-- two lists of headers that are sorted by start and have the same members are equal -/
theorem headers_eq_of_sorted {l1 l2 : List Header}
    (h1 : l1.Pairwise (fun a b => a.rng.s < b.rng.s))
    (h2 : l2.Pairwise (fun a b => a.rng.s < b.rng.s)) (h : ∀ x, x ∈ l1 ↔ x ∈ l2) : l1 = l2 := by
  induction l1 generalizing l2 with
  | nil =>
    cases l2 with
    | nil => rfl
    | cons y ys => exact absurd ((h y).mpr List.mem_cons_self) (by simp)
  | cons x xs ih =>
    cases l2 with
    | nil => exact absurd ((h x).mp List.mem_cons_self) (by simp)
    | cons y ys =>
      rw [List.pairwise_cons] at h1 h2
      have hxy : x = y := by
        have hx := (h x).mp List.mem_cons_self
        have hy := (h y).mpr List.mem_cons_self
        rcases List.mem_cons.mp hx with e | hx'
        · exact e
        · rcases List.mem_cons.mp hy with e | hy'
          · exact e.symm
          · have := h1.1 y hy'; have := h2.1 x hx'; omega
      subst hxy
      congr 1
      refine ih h1.2 h2.2 (fun z => ?_)
      constructor
      · intro hz
        rcases List.mem_cons.mp ((h z).mp (List.mem_cons_of_mem _ hz)) with e | hz'
        · subst e; have := h1.1 z hz; omega
        · exact hz'
      · intro hz
        rcases List.mem_cons.mp ((h z).mpr (List.mem_cons_of_mem _ hz)) with e | hz'
        · subst e; have := h2.1 z hz; omega
        · exact hz'

theorem shape_of_wfAt : ∀ (t : PyProg PTok) (c lim : Nat), t.wfAt c lim = true →
    t.shapeOK = true
  | .nil, _, _, _ => rfl
  | .line toks rest, c, lim, hw => by
    simp only [PyProg.wfAt, Bool.and_eq_true] at hw
    exact shape_of_wfAt rest c lim hw.2
  | .block head suite rest, c, lim, hw => by
    simp only [PyProg.wfAt, Bool.and_eq_true, decide_eq_true_eq] at hw
    simp only [PyProg.shapeOK, Bool.and_eq_true]
    exact ⟨shape_of_wfAt suite _ lim hw.1.2, shape_of_wfAt rest c lim hw.2⟩
  | .defn pre kw name params post suite rest, c, lim, hw => by
    simp only [PyProg.wfAt, Bool.and_eq_true, decide_eq_true_eq, Bool.not_eq_true'] at hw
    obtain ⟨⟨⟨⟨⟨⟨⟨⟨⟨⟨⟨⟨⟨⟨⟨_, _⟩, _⟩, _⟩, w5⟩, _⟩, _⟩, _⟩, w9⟩, _⟩, _⟩, _⟩, w13⟩, _⟩, w15⟩, w16⟩ := hw
    have hsz := (first_of_wf (ps := suite.flat) (i := 0) w15 w13 (Seg.self _)).1
    simp only [PyProg.shapeOK, Bool.and_eq_true, Bool.not_eq_true', decide_eq_true_eq]
    exact ⟨⟨⟨⟨⟨w5, w9⟩, w13⟩, hsz⟩, shape_of_wfAt suite _ _ w15⟩, shape_of_wfAt rest c lim w16⟩

end CL.PyT
