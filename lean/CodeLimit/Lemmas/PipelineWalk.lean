import CodeLimit.Model.Pipeline
import CodeLimit.Lemmas.SelectScan
import CodeLimit.Lemmas.CodebasePath
/-!
# The flat file list of the cache model and the tree walk of the selection model

`Cache.State.fs` is a flat association list keyed by the printed path; `Model/Select.lean` walks a
tree and works with component lists.  This file proves that the adapter `fsOf` / `selectedKey` of
`Model/Pipeline.lean` is lossless: the files the cache model walks are exactly the selection of
`scan_path`, in the same order, under the same keys.
-/
namespace CL.Pipeline

open CL CL.Sel

/-! ## visibility -/

theorem visibleB_iff {p : List Str} : visibleB p = true ↔ Visible p := by
  simp [visibleB, Visible]

theorem visibleB_append (a b : List Str) : visibleB (a ++ b) = (visibleB a && visibleB b) := by
  simp [visibleB]

theorem visibleB_singleton (n : Str) : visibleB [n] = !isHidden n := by
  simp [visibleB]

theorem visibleB_nil : visibleB [] = true := rfl

/-! ## the unpruned walk, filtered, is the pruned walk -/

/-- the files of one `os.walk` step, with their components -/
def allStep (step : List Str × List (Str × Str)) : List (List Str × Str) :=
  step.2.map (fun f => (step.1 ++ [f.1], f.2))

theorem allFiles_eq (ch : List Node) : allFiles ch = (walkTop (fun _ => true) [] ch).flatMap allStep := rfl

theorem filter_allStep (pre : List Str) (fs : List (Str × Str)) :
    (allStep (pre, fs)).filter (fun x => visibleB x.1) =
      if visibleB pre then stepFiles (pre, fs) else [] := by
  simp only [allStep, stepFiles, List.filter_map]
  by_cases hp : visibleB pre = true
  · simp only [hp, if_true]
    congr 1
    apply List.filter_congr
    intro f _
    simp only [Function.comp, visibleB_append, hp, visibleB_singleton, Bool.true_and]
  · simp only [hp]
    have : (fs.filter ((fun x : List Str × Str => visibleB x.1) ∘ fun f => (pre ++ [f.1], f.2))) = [] := by
      rw [List.filter_eq_nil_iff]
      intro f _
      simp only [Function.comp, visibleB_append]
      simp [hp]
    simp [this]

mutual
theorem filter_walkNode (pre : List Str) : (node : Node) →
    ((walkNode (fun _ => true) pre node).flatMap allStep).filter (fun x => visibleB x.1) =
      if visibleB pre then (walkNode keepV pre node).flatMap stepFiles else []
  | .file n b => by simp [walkNode]
  | .dir n ch => by
    have ih := filter_walkList (pre ++ [n]) ch
    simp only [walkNode, if_true, List.flatMap_cons, List.filter_append, ih, filter_allStep,
      visibleB_append]
    by_cases hp : visibleB pre = true
    · by_cases hn : isHidden n = true
      · simp [hp, hn, visibleB_singleton, keepV]
      · have hn' : isHidden n = false := by simpa using hn
        simp [hp, hn', visibleB_singleton, keepV]
    · simp [hp]
theorem filter_walkList (pre : List Str) : (l : List Node) →
    ((walkList (fun _ => true) pre l).flatMap allStep).filter (fun x => visibleB x.1) =
      if visibleB pre then (walkList keepV pre l).flatMap stepFiles else []
  | [] => by simp [walkList]
  | x :: r => by
    have h1 := filter_walkNode pre x
    have h2 := filter_walkList pre r
    simp only [walkList, List.flatMap_append, List.filter_append, h1, h2]
    split <;> simp
end

/-- **the visible files of the unpruned walk are the candidates of the pruned walk**, in the same
order -/
theorem filter_allFiles (ch : List Node) :
    (allFiles ch).filter (fun x => visibleB x.1) = cands [] ch := by
  have h := filter_walkList [] ch
  have h0 := filter_allStep [] (fileEntries ch)
  simp only [allFiles_eq, cands, walkTop, List.flatMap_cons, List.filter_append, h, h0]
  simp [visibleB_nil]

/-! ## printed paths and component lists -/

/-- the three copies of "join with `/`" (`Sel.joinPath`, `Codebase.joinSep`, `Gi.joinSlash`) agree -/
theorem joinPath_eq_joinSep : ∀ p : List Str, joinPath p = Codebase.joinSep p
  | [] => rfl
  | [_] => rfl
  | c :: d :: r => by
    have ih := joinPath_eq_joinSep (d :: r)
    simp only [joinPath, Codebase.joinSep, ih]
    rfl

theorem joinPath_eq_joinSlash : ∀ p : List Str, joinPath p = Gi.joinSlash p
  | [] => rfl
  | [_] => rfl
  | c :: d :: r => by
    have ih := joinPath_eq_joinSlash (d :: r)
    simp only [joinPath, Gi.joinSlash, ih]

/-- the two copies of `split("/")` agree -/
theorem splitSep_eq_splitSlash : ∀ s : Str, Codebase.splitSep s = Gi.splitSlash s
  | [] => rfl
  | c :: cs => by
    have ih := splitSep_eq_splitSlash cs
    simp only [Codebase.splitSep, Gi.splitSlash, ih, Codebase.sl]
    split
    · rfl
    · cases Gi.splitSlash cs <;> rfl

/-- **splitting a printed path gives its components back** (no component contains `/`) -/
theorem splitSep_joinPath : ∀ p : List Str, p ≠ [] → (∀ x ∈ p, 47 ∉ x) →
    Codebase.splitSep (joinPath p) = p
  | [], h, _ => absurd rfl h
  | [c], _, hg => by
    simpa [joinPath] using Codebase.splitSep_noslash (p := c) (hg c (by simp))
  | c :: d :: r, _, hg => by
    have ih := splitSep_joinPath (d :: r) (by simp) (fun x hx => hg x (List.mem_cons_of_mem _ hx))
    have hc := Codebase.splitSep_noslash (p := c) (hg c (by simp))
    show Codebase.splitSep (c ++ Codebase.sl :: joinPath (d :: r)) = _
    rw [Codebase.splitSep_append_slash, hc, ih]
    rfl

theorem getBasename_joinPath {p : List Str} (hne : p ≠ []) (hg : ∀ x ∈ p, 47 ∉ x) :
    Codebase.getBasename (joinPath p) = baseName p := by
  simp [Codebase.getBasename, baseName, splitSep_joinPath p hne hg]

theorem goodName_noslash {x : Str} (h : goodName x = true) : 47 ∉ x := (goodName_iff.1 h).2

/-! ## every path of the walk consists of good names -/

/-- `x` lies below `pre`, through good names -/
def Below (pre : List Str) (x : List Str × Str) : Prop :=
  ∃ r, x.1 = pre ++ r ∧ r ≠ [] ∧ ∀ y ∈ r, goodName y = true

theorem below_allStep {pre : List Str} {ch : List Node} (hwf : wfDir ch = true) :
    ∀ x ∈ allStep (pre, fileEntries ch), Below pre x := by
  intro x hx
  simp only [allStep, List.mem_map] at hx
  obtain ⟨⟨n, c⟩, hm, rfl⟩ := hx
  have := wfDir_mem hwf (mem_fileEntries.1 hm)
  exact ⟨[n], rfl, by simp, by simpa [Node.wf] using this⟩

theorem Below.extend {pre : List Str} {n : Str} {x : List Str × Str} (hn : goodName n = true)
    (h : Below (pre ++ [n]) x) : Below pre x := by
  obtain ⟨r, h1, _, h3⟩ := h
  refine ⟨n :: r, by simp [h1], by simp, ?_⟩
  intro y hy
  rcases List.mem_cons.1 hy with rfl | hy
  · exact hn
  · exact h3 y hy

mutual
theorem below_walkNode (pre : List Str) : (node : Node) → node.wf = true →
    ∀ x ∈ (walkNode (fun _ => true) pre node).flatMap allStep, Below pre x
  | .file n b, _ => by simp [walkNode]
  | .dir n ch, hwf => by
    simp only [Node.wf, Bool.and_eq_true] at hwf
    have ih := below_walkList (pre ++ [n]) ch hwf.2
    intro x hx
    simp only [walkNode, if_true, List.flatMap_cons, List.mem_append] at hx
    rcases hx with hx | hx
    · exact (below_allStep hwf.2 x hx).extend hwf.1
    · exact (ih x hx).extend hwf.1
theorem below_walkList (pre : List Str) : (l : List Node) → wfDir l = true →
    ∀ x ∈ (walkList (fun _ => true) pre l).flatMap allStep, Below pre x
  | [], _ => by simp [walkList]
  | c :: r, hwf => by
    obtain ⟨h1, _, h3⟩ := wfDir_cons.1 hwf
    intro x hx
    simp only [walkList, List.flatMap_append, List.mem_append] at hx
    rcases hx with hx | hx
    · exact below_walkNode pre c h1 x hx
    · exact below_walkList pre r h3 x hx
end

/-- every file of a well-formed tree has a non-empty path of good names -/
theorem allFiles_good {ch : List Node} (hwf : wfDir ch = true) :
    ∀ x ∈ allFiles ch, x.1 ≠ [] ∧ ∀ y ∈ x.1, goodName y = true := by
  intro x hx
  simp only [allFiles_eq, walkTop, List.flatMap_cons, List.mem_append] at hx
  have : Below [] x := by
    rcases hx with hx | hx
    · exact below_allStep hwf x hx
    · exact below_walkList [] ch hwf x hx
  obtain ⟨r, h1, h2, h3⟩ := this
  simp only [List.nil_append] at h1
  rw [h1]
  exact ⟨h2, h3⟩

/-! ## the walk of the cache model is the selection of `scan_path` -/

/-- the key test of the cache parameters, on the components -/
theorem selectedKey_joinPath (E : Env) (pats : List Gi.Pat) {p : List Str} (hne : p ≠ [])
    (hg : ∀ y ∈ p, goodName y = true) :
    selectedKey E pats (joinPath p) =
      (visibleB p && !Gi.excludedWith pats p && (langOf E (baseName p)).isSome) := by
  have hs := fun y hy => goodName_noslash (hg y hy)
  simp only [selectedKey, splitSep_joinPath p hne hs, getBasename_joinPath hne hs]

theorem filterMap_map_eq {α β γ : Type} (f : α → Option β) (h : β → γ) (g : α → γ)
    (hfg : ∀ a b, f a = some b → h b = g a) :
    ∀ l : List α, (l.filterMap f).map h = (l.filter (fun a => (f a).isSome)).map g
  | [] => rfl
  | a :: l => by
    have ih := filterMap_map_eq f h g hfg l
    cases hfa : f a with
    | none => simp [hfa, ih]
    | some b => simp [hfa, ih, hfg a b hfa]

/-- the key and the bytes of an item of the selection -/
def keyed (x : List Str × Nat × Str) : Str × Str := (keyOf x, x.2.2)

/-- **the files the cache model hands to `_scan_file` are the selection of `scan_path`**, in the
same order, under their printed paths -/
theorem walk_eq_selection (E : Env) (pats : List Gi.Pat) {ch : List Node} (hwf : wfDir ch = true)
    (prev : Option Str) :
    Cache.walk (cacheParams E) (cacheState pats ch prev) = (selection (oracles E pats) ch).map keyed := by
  have hsel : (selection (oracles E pats) ch).map keyed =
      ((cands [] ch).filter (fun a => (passes (oracles E pats) a).isSome)).map
        (fun x => (joinPath x.1, x.2)) := by
    apply filterMap_map_eq
    intro a b hab
    simp only [passes] at hab
    split at hab
    · cases hab
    · cases hl : (oracles E pats).langOf (baseName a.1) with
      | none => simp [hl] at hab
      | some l =>
        simp only [hl, Option.map_some, Option.some.injEq] at hab
        subst hab
        rfl
  rw [hsel, ← filter_allFiles, List.filter_filter]
  simp only [Cache.walk, cacheState, cacheParams, fsOf, List.filter_map]
  congr 1
  apply List.filter_congr
  intro x hx
  obtain ⟨hne, hg⟩ := allFiles_good hwf x hx
  simp only [Function.comp, selectedKey_joinPath E pats hne hg, passes, oracles]
  by_cases hv : visibleB x.1 = true
  · by_cases he : Gi.excludedWith pats x.1 = true
    · simp [hv, he]
    · simp only [hv, he]
      cases langOf E (baseName x.1) <;> simp
  · simp [hv]

end CL.Pipeline
