import CodeLimit.Lemmas.Subset
import CodeLimit.Lemmas.Thompson
/-!
# Correctness of `matchFull` / `startsWith` w.r.t. the regular language of the pattern
-/
namespace CL

variable {α : Type} [DecidableEq α]

theorem compile_terminates (r : Rx α) (base : Nat) {ord : List α → List α} (hord : IsOrder ord) :
    ∃ D, nfaToDfa (compile r base) ord = some D :=
  nfaToDfa_terminates (compile r base) ord hord (compile_wf r base)

section
variable (r : Rx α) (base : Nat) {ord : List α → List α} (hord : IsOrder ord) (w : List α)
include hord

/-- `matchFull` as a function of the language -/
theorem matchFull_eq [Decidable (Lang r w)] :
    matchFull r base ord w = .ok (if Lang r w then some w.length else none) := by
  obtain ⟨D, hD⟩ := compile_terminates r base hord
  have hN := compile_wf r base
  have hnd := row_nodup hN hord hD
  unfold matchFull
  simp only [hD]
  show matchM (dfaMachine D idAcceptor) (DState.start, ()) w 0 = _
  rw [matchM_eq hnd]
  cases hr : dfaRun D .start w with
  | none =>
    have hno := (dfaRun_none_iff_no_path hN hord hD w).1 hr
    have : ¬ Lang r w := fun hl => hno ⟨_, (thompson_correct r base w).2 hl⟩
    simp [this]
  | some s =>
    have hacc := isAcc_iff_path hN hord hD hr
    rw [thompson_correct] at hacc
    by_cases hl : Lang r w
    · simp [hl, hacc.2 hl]
    · have : D.isAcc s = false := by
        cases h : D.isAcc s with
        | false => rfl
        | true => exact absurd (hacc.1 h) hl
      simp [hl, this]

theorem matchFull_some_iff : matchFull r base ord w = .ok (some w.length) ↔ Lang r w := by
  classical
  rw [matchFull_eq r base hord w]
  by_cases hl : Lang r w <;> simp [hl]

theorem matchFull_none_iff : matchFull r base ord w = .ok none ↔ ¬ Lang r w := by
  classical
  rw [matchFull_eq r base hord w]
  by_cases hl : Lang r w <;> simp [hl]

theorem matchFull_total :
    matchFull r base ord w = .ok (some w.length) ∨ matchFull r base ord w = .ok none := by
  classical
  rw [matchFull_eq r base hord w]
  by_cases hl : Lang r w <;> simp [hl]

theorem startsWith_some_iff (k : Nat) : startsWith r base ord w = .ok (some k) ↔
    (1 ≤ k ∧ k ≤ w.length ∧ Lang r (w.take k) ∧ ∀ j, 1 ≤ j → j < k → ¬ Lang r (w.take j)) := by
  obtain ⟨D, hD⟩ := compile_terminates r base hord
  have hN := compile_wf r base
  have hnd := row_nodup hN hord hD
  unfold startsWith
  simp only [hD]
  show startsWithM (dfaMachine D idAcceptor) (DState.start, ()) w 0 = _ ↔ _
  rw [startsWithM_some_iff hnd]
  simp only [accRun_start_iff hN hord hD, thompson_correct]
  constructor
  · rintro ⟨k', hk, h1, h2, h3, h4⟩
    have : k = k' := by omega
    subst this
    exact ⟨h1, h2, h3, h4⟩
  · rintro ⟨h1, h2, h3, h4⟩
    exact ⟨k, by omega, h1, h2, h3, h4⟩

theorem startsWith_none_iff : startsWith r base ord w = .ok none ↔
    ∀ k, 1 ≤ k → k ≤ w.length → ¬ Lang r (w.take k) := by
  obtain ⟨D, hD⟩ := compile_terminates r base hord
  have hN := compile_wf r base
  have hnd := row_nodup hN hord hD
  unfold startsWith
  simp only [hD]
  show startsWithM (dfaMachine D idAcceptor) (DState.start, ()) w 0 = _ ↔ _
  rw [startsWithM_none_iff hnd]
  simp only [accRun_start_iff hN hord hD, thompson_correct]

/-- `startsWith` never raises -/
theorem startsWith_total : ∃ o, startsWith r base ord w = .ok o := by
  obtain ⟨D, hD⟩ := compile_terminates r base hord
  have hnd := row_nodup (compile_wf r base) hord hD
  unfold startsWith
  simp only [hD]
  exact startsWithM_ok hnd w .start 0

end

end CL
