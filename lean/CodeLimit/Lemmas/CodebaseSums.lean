import CodeLimit.Lemmas.CodebaseAddFiles
import CodeLimit.Lemmas.CodebaseUnder
/-!
# The profile sum beneath a folder splits into its own files and its sub-folders
-/
namespace CL.Codebase

/-- sum of the profiles of all files of `es` beneath the folder with key `k` -/
def sumUnder (es : List FileEntry) (k : Str) : Profile :=
  psum ((es.filter fun e => under k e.path).map (·.profile))

theorem psum_filter_map {α : Type} (l : List α) (P : α → Bool) (g : α → Profile) :
    psum ((l.filter P).map g) = psum (l.map fun x => if P x then g x else Profile.zero) := by
  induction l with
  | nil => rfl
  | cons a t ih =>
    by_cases h : P a = true
    · simp [h, psum, ih]
    · simp [h, psum, ih, zero_merge]

theorem psum_swap {α β : Type} (l1 : List α) (l2 : List β) (f : α → β → Profile) :
    psum (l1.map fun a => psum (l2.map (f a))) = psum (l2.map fun b => psum (l1.map fun a => f a b)) := by
  induction l1 with
  | nil => simp [psum, psum_map_zero]
  | cons a t ih =>
    simp only [List.map_cons, psum, ih]
    rw [← psum_map_merge]

theorem psum_congr {α : Type} {l : List α} {f g : α → Profile} (h : ∀ x ∈ l, f x = g x) :
    psum (l.map f) = psum (l.map g) := by
  rw [List.map_congr_left h]

section
variable {es : List FileEntry} {T0 : Tree}

/-- the sub-folder entries of a folder are the keys of its direct sub-folders -/
theorem names_children (hB : BuiltTree es T0) {k : Str} {f : Folder} (hf : dget? k T0 = some f)
    {n : Str} (hn : n ∈ folderNames f) :
    IsChild k (childKey k n) ∧ dhas (childKey k n) T0 = true ∧ nameOf (childKey k n) = n := by
  obtain ⟨c, hc, hg, hp, hnm⟩ := (hB.j.names k f hf).2 n hn
  have : childKey k n = c := by rw [← hp, ← hnm]; exact childKey_parent_name hg
  rw [this]; exact ⟨⟨hg, hp⟩, hc, hnm⟩

theorem children_names (hB : BuiltTree es T0) {k : Str} {f : Folder} (hf : dget? k T0 = some f)
    {c : Str} (hc : IsChild k c) (hh : dhas c T0 = true) :
    nameOf c ∈ folderNames f ∧ childKey k (nameOf c) = c := by
  obtain ⟨g, hg, hn⟩ := (hB.linked c hh).resolve_left hc.1.ne_root
  rw [hc.2, hf] at hg
  cases hg
  refine ⟨hn, ?_⟩
  have := childKey_parent_name hc.1
  rwa [hc.2] at this

theorem key_like (hB : BuiltTree es T0) {k : Str} {f : Folder} (hf : dget? k T0 = some f) :
    k = rootKey ∨ GoodNR k := hB.j.good k (dhas_iff.mpr ⟨f, hf⟩)

/-- a file beneath `k` is held by `k` or lies beneath exactly one sub-folder entry of `k` -/
theorem file_place (hB : BuiltTree es T0) (hadm : ∀ e ∈ es, admissible e.path = true)
    {k : Str} {f : Folder} (hf : dget? k T0 = some f) {e : FileEntry} (he : e ∈ es) :
    (under k e.path = false ∧ dirKey e.path ≠ k ∧ ∀ n ∈ folderNames f, under (childKey k n) e.path = false) ∨
    (under k e.path = true ∧ dirKey e.path = k ∧ ∀ n ∈ folderNames f, under (childKey k n) e.path = false) ∨
    (under k e.path = true ∧ dirKey e.path ≠ k ∧ ∃ n0 ∈ folderNames f,
      ∀ n ∈ folderNames f, (under (childKey k n) e.path = true ↔ n = n0)) := by
  have hs := admissible_iff.mp (hadm e he)
  cases hu : under k e.path with
  | false =>
    left
    refine ⟨rfl, ?_, ?_⟩
    · intro hd
      rw [under_of_dirKey hs hd] at hu; cases hu
    · intro n hn
      cases hc : under (childKey k n) e.path with
      | false => rfl
      | true =>
        rw [(names_children hB hf hn).1.under_trans hc] at hu; cases hu
  | true =>
    right
    rcases next_dir (key_like hB hf) hs hu with hd | ⟨c, hc, hp⟩
    · left
      exact ⟨rfl, hd, fun n hn => (names_children hB hf hn).1.not_under_of_dirKey hd⟩
    · right
      have hh : dhas c T0 = true := (hB.keys c).mpr (Or.inr ⟨e, he, hp⟩)
      obtain ⟨hn0, hck⟩ := children_names hB hf hc hh
      have huc : under c e.path = true := under_iff.mpr (Or.inr hp.1)
      refine ⟨rfl, ?_, nameOf c, hn0, ?_⟩
      · intro hd
        rw [hc.not_under_of_dirKey hd] at huc; cases huc
      · intro n hn
        obtain ⟨h1, _, h3⟩ := names_children hB hf hn
        constructor
        · intro hun
          rw [← h3, h1.unique hc hun huc]
        · rintro rfl
          rw [hck]; exact huc

theorem fileEntries_eq (hB : BuiltTree es T0) {k : Str} {f : Folder} (hf : dget? k T0 = some f) :
    fileEntries f = es.filter (fun e => dirKey e.path = k) := by
  have := hB.files k
  simpa [fileEntriesAt, hf] using this

/-- decomposition of the sum beneath a folder -/
theorem sum_decomp (hB : BuiltTree es T0) (hadm : ∀ e ∈ es, admissible e.path = true)
    {k : Str} {f : Folder} (hf : dget? k T0 = some f) :
    sumUnder es k = mergeProfiles (psum ((fileEntries f).map (·.profile)))
      (psum ((folderNames f).map fun n => sumUnder es (childKey k n))) := by
  rw [fileEntries_eq hB hf]
  unfold sumUnder
  rw [psum_filter_map, psum_filter_map]
  have : (fun n => psum ((es.filter fun e => under (childKey k n) e.path).map (·.profile))) =
      fun n => psum (es.map fun e => if under (childKey k n) e.path then e.profile else Profile.zero) := by
    funext n; rw [psum_filter_map]
  rw [this, psum_swap, ← psum_map_merge]
  apply psum_congr
  intro e he
  have hnd := (hB.j.names k f hf).1
  rcases file_place hB hadm hf he with ⟨h1, h2, h3⟩ | ⟨h1, h2, h3⟩ | ⟨h1, h2, n0, hn0, h3⟩
  · have : psum ((folderNames f).map fun n => if under (childKey k n) e.path then e.profile else Profile.zero)
        = Profile.zero := by
      rw [psum_congr (g := fun _ => Profile.zero) (fun n hn => by simp [h3 n hn]), psum_map_zero]
    simp [h1, h2, this, merge_zero]
  · have : psum ((folderNames f).map fun n => if under (childKey k n) e.path then e.profile else Profile.zero)
        = Profile.zero := by
      rw [psum_congr (g := fun _ => Profile.zero) (fun n hn => by simp [h3 n hn]), psum_map_zero]
    simp [h1, h2, this, merge_zero]
  · have : psum ((folderNames f).map fun n => if under (childKey k n) e.path then e.profile else Profile.zero)
        = e.profile := by
      rw [psum_congr (g := fun n => if n = n0 then e.profile else Profile.zero)
        (fun n hn => by
          by_cases hnn : n = n0
          · simp [hnn, (h3 n0 hn0).mpr rfl]
          · have : under (childKey k n) e.path = false := by
              cases hc : under (childKey k n) e.path with
              | false => rfl
              | true => exact absurd ((h3 n hn).mp hc) hnn
            simp [hnn, this]),
        psum_map_single _ hnd n0 hn0]
    simp [h1, h2, this, zero_merge]

end

end CL.Codebase
