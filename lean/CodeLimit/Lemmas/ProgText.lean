import CodeLimit.Model.ProgText
import CodeLimit.Lemmas.Lex
import CodeLimit.Lemmas.ProgTreeBare
/-!
# Source text of a program forest: the raw stream tiles it, and `lex` recovers the rendering

* `rawOk_rawFrom` - `rawFrom` satisfies the lexer contract on `textFrom` (no side condition);
* `lex_rawFrom` - positions computed by `lex` on `textFrom` are those assigned by `place`, and
  exactly the tokens of the forest are kept (needs `spacedAfter` and "no whitespace token").
-/
namespace CL

/-! ## blanks, line breaks, `lastLineLen` -/

theorem length_blanks (n : Nat) : (blanks n).length = n := by simp [blanks]
theorem length_lineBreaks (n : Nat) : (lineBreaks n).length = n := by simp [lineBreaks]

theorem not_mem_blanks (n : Nat) : 10 ∉ blanks n := by
  simp only [blanks, List.mem_replicate]; omega

theorem count_blanks (n : Nat) : (blanks n).count 10 = 0 :=
  List.count_eq_zero.2 (not_mem_blanks n)

theorem count_lineBreaks (n : Nat) : (lineBreaks n).count 10 = n := by
  simp [lineBreaks]

/-- the length of the last line of `a ++ b` -/
theorem lastLineLen_append (a b : Str) :
    lastLineLen (a ++ b) = if 10 ∈ b then lastLineLen b else lastLineLen a + b.length := by
  induction b generalizing a with
  | nil => simp
  | cons c b ih =>
    have e : a ++ c :: b = (a ++ [c]) ++ b := by simp
    rw [e, ih, lastLineLen_snoc, lastLineLen_cons]
    by_cases hb : 10 ∈ b
    · simp [hb]
    · by_cases hc : c = 10
      · subst hc; simp [hb, lastLineLen_of_not_mem b hb]
      · have hc' : ¬ (10 = c) := fun h => hc h.symm
        simp only [hb, hc, hc', if_false, List.mem_cons, or_self, ne_eq, not_false_iff, and_self,
          List.length_cons]
        omega

theorem lastLineLen_lineBreaks (n : Nat) : lastLineLen (lineBreaks n) = 0 := by
  cases n with
  | zero => rfl
  | succ n =>
    have : lineBreaks (n + 1) = lineBreaks n ++ [10] := by
      simp [lineBreaks, List.replicate_succ']
    rw [this, lastLineLen_snoc]; simp

/-! ## the gap -/

theorem gapText_all_space (c0 e : Nat) (t : PTok) : (t.gapText c0 e).all isSpaceChar = true := by
  have h32 : isSpaceChar 32 = true := by decide
  have h10 : isSpaceChar 10 = true := by decide
  unfold PTok.gapText
  split
  · simp only [blanks, List.all_eq_true, List.mem_replicate]
    rintro x ⟨_, rfl⟩; exact h32
  · simp only [blanks, lineBreaks, List.all_append, Bool.and_eq_true, List.all_eq_true,
      List.mem_replicate]
    exact ⟨by rintro x ⟨_, rfl⟩; exact h10, by rintro x ⟨_, rfl⟩; exact h32⟩

/-- newlines of the gap: the line of the token -/
theorem gapText_count (c0 e : Nat) (t : PTok) : (t.gapText c0 e).count 10 = t.nl := by
  unfold PTok.gapText
  split
  · rename_i h; rw [count_blanks, h]
  · rw [List.count_append, count_blanks, count_lineBreaks]; rfl

/-- length of the last line after the gap -/
theorem lastLineLen_gap (pre : Str) (c0 e : Nat) (t : PTok) :
    lastLineLen (pre ++ t.gapText c0 e) =
      if t.nl = 0 then lastLineLen pre + (c0 + 1 + t.col - e) else t.col := by
  unfold PTok.gapText
  split
  · rw [lastLineLen_append, if_neg (not_mem_blanks _), length_blanks]
  · rename_i h
    have hm : 10 ∈ lineBreaks t.nl ++ blanks t.col := by
      simp only [List.mem_append, lineBreaks, List.mem_replicate]
      exact Or.inl (by simpa using h)
    rw [lastLineLen_append, if_pos hm, lastLineLen_append, if_neg (not_mem_blanks _),
      lastLineLen_lineBreaks, length_blanks]
    omega

/-! ## the raw stream satisfies the lexer contract -/

theorem rawOkFrom_cons_append (off : Nat) (t : RawTok) (rest : Str) (raw : List RawTok)
    (h1 : t.off = off) (h : RawOkFrom (off + t.val.length) rest raw) :
    RawOkFrom off (t.val ++ rest) (t :: raw) := by
  refine ⟨h1, ?_, by simp, ?_⟩
  · rw [List.take_left']; rfl
  · rw [List.drop_left']
    · exact h
    · rfl

theorem rawOkFrom_ws (off : Nat) (g rest : Str) (raw : List RawTok)
    (h : RawOkFrom (off + g.length) rest raw) : RawOkFrom off (g ++ rest) (wsTok off g ++ raw) := by
  unfold wsTok
  cases g with
  | nil => simpa using h
  | cons c g => exact rawOkFrom_cons_append off ⟨off, 6, 0, c :: g⟩ rest raw rfl h

/-- `rawFrom` tiles `textFrom`: every raw token's value is the text at its offset, and offsets are
contiguous.  No side condition. -/
theorem rawOk_rawFrom : ∀ (l : List PTok) (off : Nat) (s : Nat × Nat) (e : Nat),
    RawOkFrom off (textFrom s e l) (rawFrom off s e l)
  | [], off, _, _ => by
    exact rawOkFrom_cons_append off ⟨off, 6, 0, [10]⟩ [] [] rfl trivial
  | t :: ts, off, s, e => by
    unfold textFrom rawFrom
    apply rawOkFrom_ws
    apply rawOkFrom_cons_append _ ⟨_, t.kind, t.ty, t.val⟩ _ _ rfl
    exact rawOk_rawFrom ts _ _ _

/-- the text is the concatenation of the raw values -/
theorem textFrom_eq_join : ∀ (l : List PTok) (off : Nat) (s : Nat × Nat) (e : Nat),
    textFrom s e l = (rawFrom off s e l).flatMap (·.val)
  | [], _, _, _ => rfl
  | t :: ts, off, s, e => by
    unfold textFrom rawFrom
    rw [List.flatMap_append, List.flatMap_cons, ← textFrom_eq_join ts]
    congr 1
    unfold wsTok
    cases h : t.gapText s.2 e <;> simp

/-! ## `lex` on the text -/

theorem keepTok_ws {kc : Bool} {code : Str} {off : Nat} {g : Str}
    (hg : g.all isSpaceChar = true) : keepTok kc (tokAt code ⟨off, 6, 0, g⟩) = false := by
  simp only [keepTok, tokAt, Tok.isWhitespace, strIsSpace, hg]
  cases g <;> simp

theorem keepTok_put {kc : Bool} {t : PTok} (s : Nat × Nat)
    (h : t.bare.isWhitespace = false) (hc : t.bare.isComment = true → kc = true) :
    keepTok kc (t.put s) = true := by
  have e1 : (t.put s).isWhitespace = t.bare.isWhitespace := by
    unfold PTok.put PTok.bare Tok.isWhitespace; split <;> rfl
  have e2 : (t.put s).isComment = t.bare.isComment := by
    unfold PTok.put PTok.bare Tok.isComment; split <;> rfl
  unfold keepTok
  rw [e1, e2, h]
  cases hcm : t.bare.isComment
  · rfl
  · simp [hc hcm]

/-- the location `lex` assigns to the token after the gap is the one `PTok.put` assigns -/
theorem tokAt_put (pre suf : Str) (s : Nat × Nat) (e : Nat) (t : PTok)
    (hl : 1 + pre.count 10 = s.1) (hc : lastLineLen pre + 1 = e)
    (he : t.nl = 0 → e ≤ s.2 + 1 + t.col) :
    tokAt (pre ++ t.gapText s.2 e ++ suf) ⟨(pre ++ t.gapText s.2 e).length, t.kind, t.ty, t.val⟩
      = t.put s := by
  simp only [tokAt, lineOf_eq, colOf_eq, List.count_append, gapText_count, lastLineLen_gap]
  unfold PTok.put
  split
  · rename_i h
    have := he h
    congr 1 <;> omega
  · congr 1 <;> omega

/-- **positions and filtering.**  Let `code = pre ++ textFrom s e l` where the write position
after `pre` is on line `s.1` in column `e`.  Under the spacing condition and if no token is a
whitespace token, placing the raw tokens at the line and column of their offsets and dropping
whitespace (and comments unless `kc`) gives the layout `place s l`. -/
theorem lex_rawFrom : ∀ (l : List PTok) (pre : Str) (s : Nat × Nat) (e w off : Nat) (code : Str)
    (kc : Bool),
    code = pre ++ textFrom s e l → off = pre.length →
    1 + pre.count 10 = s.1 → lastLineLen pre + 1 = e → (e ≤ s.2 + w ∨ e ≤ 1) →
    spacedAfter w l = true → l.all (fun t => !t.bare.isWhitespace) = true →
    (∀ t ∈ l, t.bare.isComment = true → kc = true) →
    ((rawFrom off s e l).map (tokAt code)).filter (keepTok kc) = place s l
  | [], pre, s, e, w, off, code, kc, _, _, _, _, _, _, _, _ => by
    have h10 : ([10] : Str).all isSpaceChar = true := by decide
    simp only [rawFrom, List.map_cons, List.map_nil, place]
    rw [List.filter_cons, keepTok_ws h10]; rfl
  | t :: ts, pre, s, e, w, off, code, kc, hcode, hoff, hl, hc, he, hsp, hws, hcm => by
    simp only [spacedAfter, Bool.and_eq_true, Bool.or_eq_true, Bool.not_eq_true', bne_iff_ne, ne_eq,
      decide_eq_true_eq] at hsp
    obtain ⟨⟨⟨hne, hnl⟩, hcol⟩, hsp'⟩ := hsp
    rw [List.all_cons, Bool.and_eq_true, Bool.not_eq_true'] at hws
    obtain ⟨hws1, hws'⟩ := hws
    have hnl' : 10 ∉ t.val := by simpa using hnl
    have he' : t.nl = 0 → e ≤ s.2 + 1 + t.col := by
      intro h0
      rcases hcol with h | h
      · exact absurd h0 h
      · omega
    -- the gap's whitespace token is dropped
    have hgapf : ((wsTok off (t.gapText s.2 e)).map (tokAt code)).filter (keepTok kc) = [] := by
      unfold wsTok
      split
      · rfl
      · simp only [List.map_cons, List.map_nil]
        rw [List.filter_cons, keepTok_ws (gapText_all_space _ _ _)]; rfl
    -- the token itself
    have hcode' : code = pre ++ t.gapText s.2 e ++
        (t.val ++ textFrom (t.put s).loc ((t.put s).col + t.val.length) ts) := by
      rw [hcode, textFrom]; simp
    have hoff' : off + (t.gapText s.2 e).length = (pre ++ t.gapText s.2 e).length := by
      rw [hoff, List.length_append]
    have htok : tokAt code ⟨off + (t.gapText s.2 e).length, t.kind, t.ty, t.val⟩ = t.put s := by
      rw [hoff', hcode']; exact tokAt_put pre _ s e t hl hc he'
    -- the rest, by induction with the prefix extended by the gap and the token
    have hput_line : (t.put s).line = s.1 + t.nl := by
      unfold PTok.put; split
      · rename_i h; simp [h]
      · rfl
    have hput_col : (t.put s).col = if t.nl = 0 then s.2 + 1 + t.col else 1 + t.col := by
      unfold PTok.put; split <;> rfl
    have ih := lex_rawFrom ts (pre ++ t.gapText s.2 e ++ t.val) (t.put s).loc
      ((t.put s).col + t.val.length) t.val.length
      (off + (t.gapText s.2 e).length + t.val.length) code kc
      (by rw [hcode']; simp) (by rw [hoff]; simp [Nat.add_assoc])
      (by
        simp only [Tok.loc, List.count_append, gapText_count, List.count_eq_zero.2 hnl', hput_line]
        omega)
      (by
        rw [lastLineLen_append, if_neg hnl', lastLineLen_gap, hput_col]
        split
        · rename_i h0; have := he' h0; omega
        · omega)
      (Or.inl (by simp [Tok.loc]))
      hsp' hws' (fun u hu => hcm u (List.mem_cons_of_mem _ hu))
    rw [rawFrom, List.map_append, List.filter_append, hgapf, List.nil_append, List.map_cons,
      List.filter_cons, htok,
      keepTok_put s hws1 (hcm t (List.mem_cons_self ..)), if_pos rfl, ih, place]

end CL
