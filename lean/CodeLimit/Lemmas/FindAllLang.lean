import CodeLimit.Lemmas.FindAll
import CodeLimit.Lemmas.EngineCorrect
import CodeLimit.Lemmas.CoReach
/-!
# `find_all` on a compiled pattern (`Identity` atoms) in terms of the pattern's language

* `runM_dfa`      - the machine `dfaMachine D idAcceptor` runs exactly like `dfaRun D`;
* `GreedyLang`    - "greedy matching from `p` succeeds and finishes at `f`" stated with `Lang` only;
* `greedyAt_iff_greedyLang` - the two notions coincide for the machine of a compiled pattern;
* `findAllId_ok`  - `findAllId` never raises.
-/
namespace CL

variable {α : Type} [DecidableEq α]

/-! ## `dfaRun` algebra -/

theorem dfaRun_append (D : Dfa α) (s : DState) (u v : List α) :
    dfaRun D s (u ++ v) = (dfaRun D s u).bind (fun t => dfaRun D t v) := by
  induction u generalizing s with
  | nil => simp [dfaRun]
  | cons a u ih =>
    simp only [List.cons_append, dfaRun]
    cases (D.row s).find? (fun t => t.1 = a) with
    | none => rfl
    | some t => exact ih t.2

theorem dfaRun_snoc (D : Dfa α) {s t : DState} {u : List α} (x : α)
    (h : dfaRun D s u = some t) :
    dfaRun D s (u ++ [x]) = ((D.row t).find? (fun e => e.1 = x)).map (·.2) := by
  rw [dfaRun_append, h]
  simp only [Option.bind_some, dfaRun]
  cases (D.row t).find? (fun e => e.1 = x) <;> rfl

/-! ## the machine of a table with duplicate-free rows -/

section
variable {D : Dfa α} (hnd : ∀ s, ((D.row s).map (·.1)).Nodup)
include hnd

theorem runM_dfa (u : List α) (s : DState) :
    runM (dfaMachine D idAcceptor) (s, ()) u = (dfaRun D s u).map (fun t => (t, ())) := by
  induction u generalizing s with
  | nil => rfl
  | cons x u ih =>
    rw [runM, dfaMachine_step hnd]
    cases hf : (D.row s).find? (fun t => t.1 = x) with
    | none => simp [dfaRun, hf]
    | some t => simp only [Option.map_some, dfaRun, hf]; exact ih t.2

theorem runM_dfa_some {u : List α} {s : DState} {q : DState × Unit}
    (h : runM (dfaMachine D idAcceptor) (s, ()) u = some q) : dfaRun D s u = some q.1 := by
  rw [runM_dfa hnd] at h
  cases hr : dfaRun D s u with
  | none => rw [hr] at h; cases h
  | some t => rw [hr] at h; cases h; rfl

theorem runM_dfa_none_iff (u : List α) (s : DState) :
    runM (dfaMachine D idAcceptor) (s, ()) u = none ↔ dfaRun D s u = none := by
  rw [runM_dfa hnd]
  cases dfaRun D s u <;> simp

/-- `consume` never raises on such a table -/
theorem dfaMachine_step_ok (q : DState × Unit) (x : α) :
    ∃ o, (dfaMachine D idAcceptor).step q x = .ok o := by
  obtain ⟨s, ⟨⟩⟩ := q
  exact ⟨_, dfaMachine_step hnd s x⟩

end

/-! ## greedy matching in language terms -/

/-- greedy matching from position `p` succeeds and finishes at `f`, in terms of the language
of the pattern: `w[p..f)` is a non-empty word of the language, and `f` is where the greedy
run stops: no longer slice from `p` is even a *prefix* of a word of the language (the run goes
on exactly as long as the consumed items are a prefix of some word of the language) -/
def GreedyLang (r : Rx α) (w : List α) (p f : Nat) : Prop :=
  p < f ∧ f ≤ w.length ∧ Lang r (slice w p f) ∧
    ∀ e', f < e' → e' ≤ w.length → ¬ ∃ v, Lang r (slice w p e' ++ v)

section
variable {r : Rx α} {base : Nat} {ord : List α → List α} {D : Dfa α}

/-- the start object is accepting iff the pattern matches the empty sequence -/
theorem isAcc_start_iff (hord : IsOrder ord) (hD : nfaToDfa (compile r base) ord = some D) :
    D.isAcc .start = true ↔ Lang r [] := by
  have hr : dfaRun D .start ([] : List α) = some .start := rfl
  rw [isAcc_iff_path (compile_wf r base) hord hD hr, thompson_correct]

theorem isAcc_start_false (hord : IsOrder ord) (hD : nfaToDfa (compile r base) ord = some D)
    (hnn : ¬ Lang r []) : D.isAcc .start = false := by
  cases h : D.isAcc .start with
  | false => rfl
  | true => exact absurd ((isAcc_start_iff hord hD).1 h) hnn

/-- the table run survives `u` iff `u` is a prefix of a word of the language -/
theorem dfaRun_isSome_iff (hord : IsOrder ord) (hD : nfaToDfa (compile r base) ord = some D)
    (u : List α) : (∃ s, dfaRun D .start u = some s) ↔ ∃ v, Lang r (u ++ v) := by
  rw [← viable_iff r base u, ← not_iff_not,
    ← dfaRun_none_iff_no_path (compile_wf r base) hord hD u]
  cases dfaRun D .start u <;> simp

theorem dfaRun_none_iff_lang (hord : IsOrder ord) (hD : nfaToDfa (compile r base) ord = some D)
    (u : List α) : dfaRun D .start u = none ↔ ¬ ∃ v, Lang r (u ++ v) := by
  rw [← dfaRun_isSome_iff hord hD u]
  cases dfaRun D .start u <;> simp

/-- acceptance after a surviving run = membership in the language -/
theorem isAcc_iff_lang (hord : IsOrder ord) (hD : nfaToDfa (compile r base) ord = some D)
    {u : List α} {s : DState} (hr : dfaRun D .start u = some s) :
    D.isAcc s = true ↔ Lang r u := by
  rw [isAcc_iff_path (compile_wf r base) hord hD hr, thompson_correct]

/-- for the machine of a compiled pattern, "greedy matching from `p` succeeds and finishes at
`f`" is the language-level notion `GreedyLang` -/
theorem greedyAt_iff_greedyLang (hord : IsOrder ord)
    (hD : nfaToDfa (compile r base) ord = some D) (w : List α) (p f : Nat) :
    GreedyAt (dfaMachine D idAcceptor) w p f ↔ GreedyLang r w p f := by
  have hN := compile_wf r base
  have hnd := row_nodup hN hord hD
  have hds := dfaMachine_deadStuck (β := α) D idAcceptor
  constructor
  · intro hg
    obtain ⟨h1, h2, q, hr, hacc, _⟩ := id hg
    have hr' : dfaRun D .start (slice w p f) = some q.1 := runM_dfa_some hnd hr
    refine ⟨h1, h2, (isAcc_iff_lang hord hD hr').1 hacc, ?_⟩
    intro e' he1 he2
    have hnone := hg.longer_none hds he1 he2
    have : dfaRun D .start (slice w p e') = none := (runM_dfa_none_iff hnd _ _).1 hnone
    exact (dfaRun_none_iff_lang hord hD _).1 this
  · rintro ⟨h1, h2, hl, hmax⟩
    obtain ⟨s, hs⟩ := (dfaRun_isSome_iff hord hD (slice w p f)).2 ⟨[], by simpa using hl⟩
    have hrun : runM (dfaMachine D idAcceptor) (dfaMachine D idAcceptor).init (slice w p f)
        = some (s, ()) := by
      show runM (dfaMachine D idAcceptor) (.start, ()) (slice w p f) = some (s, ())
      rw [runM_dfa hnd, hs]; rfl
    refine ⟨h1, h2, (s, ()), hrun, (isAcc_iff_lang hord hD hs).2 hl, ?_⟩
    by_cases hf : f = w.length
    · exact .inl hf
    · have hlt : f < w.length := by omega
      have hx : w[f]? = some w[f] := by simp [hlt]
      refine .inr (.inr ⟨w[f], hx, ?_⟩)
      have hno := hmax (f + 1) (by omega) (by omega)
      rw [slice_succ w (Nat.le_of_lt h1) hx, ← dfaRun_none_iff_lang hord hD,
        dfaRun_snoc D _ hs] at hno
      rw [dfaMachine_step hnd]
      cases hfind : (D.row s).find? (fun e => e.1 = w[f]) with
      | none => rfl
      | some t => rw [hfind] at hno; cases hno

end

/-! ## `findAllId` -/

/-- `findAllId` runs `findAll` on the machine of the table, and that table exists -/
theorem findAllId_eq (r : Rx α) (base : Nat) {ord : List α → List α} (hord : IsOrder ord)
    (w : List α) : ∃ D, nfaToDfa (compile r base) ord = some D ∧
      findAllId r base ord w = findAll (dfaMachine D idAcceptor) w := by
  obtain ⟨D, hD⟩ := compile_terminates r base hord
  exact ⟨D, hD, by simp only [findAllId, hD]⟩

/-- `findAllId` never raises -/
theorem findAllId_ok (r : Rx α) (base : Nat) {ord : List α → List α} (hord : IsOrder ord)
    (w : List α) : ∃ ms, findAllId r base ord w = .ok ms := by
  obtain ⟨D, hD, heq⟩ := findAllId_eq r base hord w
  have hnd := row_nodup (compile_wf r base) hord hD
  rw [heq]
  cases h : findAll (dfaMachine D idAcceptor) w with
  | ok ms => exact ⟨ms, rfl⟩
  | error e =>
    obtain ⟨q, x, hs⟩ := findAll_error h
    obtain ⟨o, ho⟩ := dfaMachine_step_ok hnd q x
    rw [ho] at hs; cases hs

end CL

namespace CL

variable {α : Type} [DecidableEq α]

/-! ## decision procedures (used for non-vacuity examples and counterexample witnesses) -/

omit [DecidableEq α] in
theorem isOrder_id : IsOrder (id : List α → List α) := fun _ => List.Perm.refl _

omit [DecidableEq α] in
theorem isOrder_reverse : IsOrder (List.reverse : List α → List α) := fun l => List.reverse_perm l

/-- decides "is `u` a prefix of a word of the language of `r`" by running the compiled table -/
def viableB (r : Rx α) (u : List α) : Bool :=
  match nfaToDfa (compile r 0) id with
  | some D => (dfaRun D .start u).isSome
  | none => false

theorem viableB_iff (r : Rx α) (u : List α) : viableB r u = true ↔ ∃ v, Lang r (u ++ v) := by
  obtain ⟨D, hD⟩ := compile_terminates r 0 (isOrder_id (α := α))
  rw [← dfaRun_isSome_iff isOrder_id hD u]
  simp only [viableB, hD]
  cases dfaRun D .start u <;> simp

/-- decides membership in the language of `r` by running the compiled table -/
def langB (r : Rx α) (u : List α) : Bool :=
  match matchFull r 0 id u with
  | .ok (some _) => true
  | _ => false

theorem langB_iff (r : Rx α) (u : List α) : langB r u = true ↔ Lang r u := by
  classical
  simp only [langB, matchFull_eq r 0 (isOrder_id (α := α)) u]
  by_cases h : Lang r u <;> simp [h]

end CL

namespace CL

variable {α : Type}

/-- `GreedyLang` with the stop condition stated locally: the input ends at `f`, or consuming the
next item leaves the set of prefixes of words of the language -/
theorem greedyLang_iff_next (r : Rx α) (w : List α) (p f : Nat) :
    GreedyLang r w p f ↔
      p < f ∧ f ≤ w.length ∧ Lang r (slice w p f) ∧
        (f = w.length ∨ ¬ ∃ v, Lang r (slice w p (f + 1) ++ v)) := by
  constructor
  · rintro ⟨h1, h2, h3, h4⟩
    refine ⟨h1, h2, h3, ?_⟩
    by_cases hf : f = w.length
    · exact .inl hf
    · exact .inr (h4 (f + 1) (by omega) (by omega))
  · rintro ⟨h1, h2, h3, h4⟩
    refine ⟨h1, h2, h3, ?_⟩
    intro e' he1 he2
    rcases h4 with h4 | h4
    · omega
    · rintro ⟨v, hv⟩
      apply h4
      rw [slice_split w (show p ≤ f + 1 by omega) (show f + 1 ≤ e' by omega),
        List.append_assoc] at hv
      exact ⟨_, hv⟩

end CL
