import CodeLimit.Spec.GapsDecode
/-!
# Lemmas about the UTF-8 decoder and universal newlines (`Model/Decode.lean`)
-/
namespace CL.Decode

theorem isCont_iff (b : Nat) : isCont b = true ↔ 128 ≤ b ∧ b ≤ 191 := by simp [isCont]

theorem dec1 (b0 : Nat) (rest : Bytes) (h : b0 < 128) :
    utf8Decode (b0 :: rest) = (utf8Decode rest).map (b0 :: ·) := by
  conv => lhs; unfold utf8Decode
  simp only [h, if_true]

theorem dec2 (b0 b1 : Nat) (r : Bytes) (h0 : 194 ≤ b0 ∧ b0 ≤ 223) (h1 : 128 ≤ b1 ∧ b1 ≤ 191) :
    utf8Decode (b0 :: b1 :: r) = (utf8Decode r).map (((b0 - 192) * 64 + (b1 - 128)) :: ·) := by
  have : ¬ b0 < 128 := by omega
  simp [utf8Decode, this, h0, (isCont_iff b1).2 h1]

theorem dec3 (b0 b1 b2 : Nat) (r : Bytes) (h0 : 224 ≤ b0 ∧ b0 ≤ 239)
    (h1 : if b0 = 224 then 160 ≤ b1 ∧ b1 ≤ 191 else if b0 = 237 then 128 ≤ b1 ∧ b1 ≤ 159 else 128 ≤ b1 ∧ b1 ≤ 191)
    (h2 : 128 ≤ b2 ∧ b2 ≤ 191) :
    utf8Decode (b0 :: b1 :: b2 :: r) = (utf8Decode r).map (((b0 - 224) * 4096 + (b1 - 128) * 64 + (b2 - 128)) :: ·) := by
  have n1 : ¬ b0 < 128 := by omega
  have n2 : ¬ (194 ≤ b0 ∧ b0 ≤ 223) := by omega
  have c : (if b0 = 224 then 160 ≤ b1 ∧ b1 ≤ 191 else if b0 = 237 then 128 ≤ b1 ∧ b1 ≤ 159 else isCont b1 = true)
      ∧ isCont b2 = true := by
    refine ⟨?_, (isCont_iff b2).2 h2⟩
    split
    · rename_i e; rw [if_pos e] at h1; exact h1
    · rename_i e
      rw [if_neg e] at h1
      split
      · rename_i e2; rw [if_pos e2] at h1; exact h1
      · rename_i e2; rw [if_neg e2] at h1; exact (isCont_iff b1).2 h1
  simp only [utf8Decode, n1, n2, h0, if_false, if_true, and_self]
  rw [if_pos c]

theorem dec4 (b0 b1 b2 b3 : Nat) (r : Bytes) (h0 : 240 ≤ b0 ∧ b0 ≤ 244)
    (h1 : if b0 = 240 then 144 ≤ b1 ∧ b1 ≤ 191 else if b0 = 244 then 128 ≤ b1 ∧ b1 ≤ 143 else 128 ≤ b1 ∧ b1 ≤ 191)
    (h2 : 128 ≤ b2 ∧ b2 ≤ 191) (h3 : 128 ≤ b3 ∧ b3 ≤ 191) :
    utf8Decode (b0 :: b1 :: b2 :: b3 :: r) =
      (utf8Decode r).map (((b0 - 240) * 262144 + (b1 - 128) * 4096 + (b2 - 128) * 64 + (b3 - 128)) :: ·) := by
  have n1 : ¬ b0 < 128 := by omega
  have n2 : ¬ (194 ≤ b0 ∧ b0 ≤ 223) := by omega
  have n3 : ¬ (224 ≤ b0 ∧ b0 ≤ 239) := by omega
  have c : (if b0 = 240 then 144 ≤ b1 ∧ b1 ≤ 191 else if b0 = 244 then 128 ≤ b1 ∧ b1 ≤ 143 else isCont b1 = true)
      ∧ isCont b2 = true ∧ isCont b3 = true := by
    refine ⟨?_, (isCont_iff b2).2 h2, (isCont_iff b3).2 h3⟩
    split
    · rename_i e; rw [if_pos e] at h1; exact h1
    · rename_i e
      rw [if_neg e] at h1
      split
      · rename_i e2; rw [if_pos e2] at h1; exact h1
      · rename_i e2; rw [if_neg e2] at h1; exact (isCont_iff b1).2 h1
  simp only [utf8Decode, n1, n2, n3, h0, if_false, if_true, and_self]
  rw [if_pos c]


theorem isScalar_iff (c : Nat) : isScalar c = true ↔ c < 1114112 ∧ ¬ (55296 ≤ c ∧ c ≤ 57343) := by
  simp only [isScalar, Bool.and_eq_true, decide_eq_true_eq, Bool.not_eq_true', Bool.and_eq_false_iff, decide_eq_false_iff_not]
  omega


theorem utf8Decode_scalar (b : Bytes) (s : Str) (h : utf8Decode b = some s) : ∀ c ∈ s, isScalar c = true := by
  fun_induction utf8Decode b generalizing s
  all_goals try (simp at h; done)
  case case1 => cases h; intro c hc; cases hc
  case case2 b0 rest hb ih =>
    obtain ⟨t, ht, rfl⟩ := Option.map_eq_some_iff.1 h
    refine List.forall_mem_cons.2 ⟨?_, ih t ht⟩
    · apply (isScalar_iff _).2; omega
  case case3 b0 h1 h2 b1 r hc1 ih =>
    obtain ⟨t, ht, rfl⟩ := Option.map_eq_some_iff.1 h
    refine List.forall_mem_cons.2 ⟨?_, ih t ht⟩
    · simp only [isCont_iff] at hc1; apply (isScalar_iff _).2; omega
  case case6 b0 h1 h2 h3 b1 b2 r hc1 ih =>
    obtain ⟨t, ht, rfl⟩ := Option.map_eq_some_iff.1 h
    refine List.forall_mem_cons.2 ⟨?_, ih t ht⟩
    · simp only [isCont_iff] at hc1; apply (isScalar_iff _).2
      obtain ⟨hb1, hb2⟩ := hc1
      split at hb1
      · omega
      · split at hb1
        · omega
        · omega
  case case9 b0 h1 h2 h3 h4 b1 b2 b3 r hc1 ih =>
    obtain ⟨t, ht, rfl⟩ := Option.map_eq_some_iff.1 h
    refine List.forall_mem_cons.2 ⟨?_, ih t ht⟩
    · simp only [isCont_iff] at hc1; apply (isScalar_iff _).2
      obtain ⟨hb1, hb2, hb3⟩ := hc1
      split at hb1
      · omega
      · split at hb1
        · omega
        · omega


theorem utf8Encode_cons (c : Nat) (t : Str) : utf8Encode (c :: t) = utf8EncodeCp c ++ utf8Encode t := by
  simp [utf8Encode]

/-- decoding what the encoder produces gives the text back -/
theorem utf8Decode_encode (s : Str) (h : ∀ c ∈ s, isScalar c = true) : utf8Decode (utf8Encode s) = some s := by
  induction s with
  | nil => rfl
  | cons c t ih =>
    have hc := (isScalar_iff c).1 (h c (List.mem_cons_self ..))
    have ht := ih (fun x hx => h x (List.mem_cons_of_mem _ hx))
    rw [utf8Encode_cons]
    unfold utf8EncodeCp
    split
    · rename_i h1
      simp only [List.cons_append, List.nil_append]
      rw [dec1 c _ h1, ht]; rfl
    · split
      · rename_i h1 h2
        simp only [List.cons_append, List.nil_append]
        rw [dec2 _ _ _ (by omega) (by omega), ht]
        simp only [Option.map_some, Option.some.injEq, List.cons.injEq, and_true]
        omega
      · split
        · rename_i h1 h2 h3
          simp only [List.cons_append, List.nil_append]
          have hm : if 224 + c / 4096 = 224 then 160 ≤ 128 + c / 64 % 64 ∧ 128 + c / 64 % 64 ≤ 191
              else if 224 + c / 4096 = 237 then 128 ≤ 128 + c / 64 % 64 ∧ 128 + c / 64 % 64 ≤ 159
              else 128 ≤ 128 + c / 64 % 64 ∧ 128 + c / 64 % 64 ≤ 191 := by
            split
            · omega
            · split <;> omega
          rw [dec3 _ _ _ _ (by omega) hm (by omega), ht]
          simp only [Option.map_some, Option.some.injEq, List.cons.injEq, and_true]
          omega
        · rename_i h1 h2 h3
          simp only [List.cons_append, List.nil_append]
          have hm : if 240 + c / 262144 = 240 then 144 ≤ 128 + c / 4096 % 64 ∧ 128 + c / 4096 % 64 ≤ 191
              else if 240 + c / 262144 = 244 then 128 ≤ 128 + c / 4096 % 64 ∧ 128 + c / 4096 % 64 ≤ 143
              else 128 ≤ 128 + c / 4096 % 64 ∧ 128 + c / 4096 % 64 ≤ 191 := by
            split
            · omega
            · split <;> omega
          rw [dec4 _ _ _ _ _ (by omega) hm (by omega) (by omega), ht]
          simp only [Option.map_some, Option.some.injEq, List.cons.injEq, and_true]
          omega

/-- the decoder accepts only what the encoder produces: encoding the decoded text gives the
bytes back (no two byte strings decode to the same text; no overlong or otherwise non-canonical
form is accepted) -/
theorem utf8Encode_decode (b : Bytes) (s : Str) (h : utf8Decode b = some s) : utf8Encode s = b := by
  fun_induction utf8Decode b generalizing s
  all_goals try (simp at h; done)
  case case1 => cases h; rfl
  case case2 b0 rest hb ih =>
    obtain ⟨t, ht, rfl⟩ := Option.map_eq_some_iff.1 h
    rw [utf8Encode_cons, ih t ht]
    simp [utf8EncodeCp, hb]
  case case3 b0 h1 h2 b1 r hc1 ih =>
    obtain ⟨t, ht, rfl⟩ := Option.map_eq_some_iff.1 h
    rw [utf8Encode_cons, ih t ht]
    simp only [isCont_iff] at hc1
    have e1 : ¬ (b0 - 192) * 64 + (b1 - 128) < 128 := by omega
    have e2 : (b0 - 192) * 64 + (b1 - 128) < 2048 := by omega
    simp only [utf8EncodeCp, e1, e2, if_false, if_true, List.cons_append, List.nil_append, List.cons.injEq, and_true]
    omega
  case case6 b0 h1 h2 h3 b1 b2 r hc1 ih =>
    obtain ⟨t, ht, rfl⟩ := Option.map_eq_some_iff.1 h
    rw [utf8Encode_cons, ih t ht]
    simp only [isCont_iff] at hc1
    obtain ⟨hb1, hb2⟩ := hc1
    have hb1' : 128 ≤ b1 ∧ b1 ≤ 191 ∧ (b0 = 224 → 160 ≤ b1) := by
      split at hb1
      · omega
      · split at hb1 <;> omega
    have e1 : ¬ (b0 - 224) * 4096 + (b1 - 128) * 64 + (b2 - 128) < 128 := by omega
    have e2 : ¬ (b0 - 224) * 4096 + (b1 - 128) * 64 + (b2 - 128) < 2048 := by omega
    have e3 : (b0 - 224) * 4096 + (b1 - 128) * 64 + (b2 - 128) < 65536 := by omega
    simp only [utf8EncodeCp, e1, e2, e3, if_false, if_true, List.cons_append, List.nil_append, List.cons.injEq, and_true]
    omega
  case case9 b0 h1 h2 h3 h4 b1 b2 b3 r hc1 ih =>
    obtain ⟨t, ht, rfl⟩ := Option.map_eq_some_iff.1 h
    rw [utf8Encode_cons, ih t ht]
    simp only [isCont_iff] at hc1
    obtain ⟨hb1, hb2, hb3⟩ := hc1
    have hb1' : 128 ≤ b1 ∧ b1 ≤ 191 ∧ (b0 = 240 → 144 ≤ b1) := by
      split at hb1
      · omega
      · split at hb1 <;> omega
    have e1 : ¬ (b0 - 240) * 262144 + (b1 - 128) * 4096 + (b2 - 128) * 64 + (b3 - 128) < 128 := by omega
    have e2 : ¬ (b0 - 240) * 262144 + (b1 - 128) * 4096 + (b2 - 128) * 64 + (b3 - 128) < 2048 := by omega
    have e3 : ¬ (b0 - 240) * 262144 + (b1 - 128) * 4096 + (b2 - 128) * 64 + (b3 - 128) < 65536 := by omega
    simp only [utf8EncodeCp, e1, e2, e3, if_false, List.cons_append, List.nil_append, List.cons.injEq, and_true]
    omega

theorem univNl_no_cr (s : Str) : 13 ∉ univNl s := by
  fun_induction univNl s <;> simp_all
  rename_i c t hne _
  intro e; exact hne e.symm


theorem mem_univNl {s : Str} {c : Nat} (h : c ∈ univNl s) : c ∈ s ∨ c = 10 := by
  fun_induction univNl s
  · cases h
  · rename_i t ih
    rcases List.mem_cons.1 h with rfl | h
    · exact Or.inr rfl
    · rcases ih h with h | h
      · exact Or.inl (List.mem_cons_of_mem _ (List.mem_cons_of_mem _ h))
      · exact Or.inr h
  · rename_i t _ ih
    rcases List.mem_cons.1 h with rfl | h
    · exact Or.inr rfl
    · rcases ih h with h | h
      · exact Or.inl (List.mem_cons_of_mem _ h)
      · exact Or.inr h
  · rename_i c' t _ _ ih
    rcases List.mem_cons.1 h with rfl | h
    · exact Or.inl (List.mem_cons_self ..)
    · rcases ih h with h | h
      · exact Or.inl (List.mem_cons_of_mem _ h)
      · exact Or.inr h

theorem univNl_id {s : Str} (h : 13 ∉ s) : univNl s = s := by
  induction s with
  | nil => rfl
  | cons c t ih =>
    have hc : c ≠ 13 := fun e => h (e ▸ List.mem_cons_self ..)
    have ht : 13 ∉ t := fun e => h (List.mem_cons_of_mem _ e)
    rw [univNl]
    · rw [ih ht]
    · intro t' e _; exact hc e
    · intro e; exact hc e

theorem utf8Decode_ascii {bs : Bytes} (h : ∀ b ∈ bs, b < 128) : utf8Decode bs = some bs := by
  induction bs with
  | nil => rfl
  | cons b t ih =>
    rw [dec1 b t (h b (List.mem_cons_self ..)), ih (fun x hx => h x (List.mem_cons_of_mem _ hx))]
    rfl

end CL.Decode
