import CodeLimit.Lemmas.CodebaseAggregate
/-!
# `build` (= `add_file*` then one `aggregate`): summary, and "exactly once" as counts
-/
namespace CL.Codebase

theorem build_spec (es : List FileEntry) (hadm : ∀ e ∈ es, admissible e.path = true) :
    ∃ cb T0, build es = .ok cb ∧ Built es ⟨T0, cb.files, cb.totals⟩ ∧ Shape cb.tree = Shape T0 ∧
      ∀ k f, dget? k cb.tree = some f → f.profile = sumUnder es k := by
  obtain ⟨cb1, h1, hB1⟩ := addFiles_built es [] Codebase.new built_new hadm
  obtain ⟨T0, files, totals⟩ := cb1
  obtain ⟨T', h2, hS, hP⟩ := aggregate_spec hB1.tree hadm files totals
  refine ⟨⟨T', files, totals⟩, T0, ?_, by simpa using hB1, hS, hP⟩
  simp only [build, bind, Except.bind, h1, h2]

theorem nodup_of_map {α β : Type} (f : α → β) {l : List α} (h : (l.map f).Nodup) : l.Nodup := by
  induction l with
  | nil => simp
  | cons a t ih =>
    simp only [List.map_cons, List.nodup_cons] at h ⊢
    exact ⟨fun hm => h.1 (List.mem_map_of_mem hm), ih h.2⟩

theorem count_file_entries (l : List Entry) (e : FileEntry) :
    l.count (Entry.file e) = (l.filterMap fun | .file e => some e | .folder _ => none).count e := by
  induction l with
  | nil => rfl
  | cons x t ih =>
    cases x with
    | file e' =>
      by_cases h : e' = e
      · subst h; simp [ih]
      · have : Entry.file e' ≠ Entry.file e := fun h' => h (by injection h')
        simp [ih, h, this]
    | folder n => simp [ih]

theorem count_map_inj_on {α β : Type} [BEq β] [LawfulBEq β] (f : α → β) {l : List α}
    (hnd : l.Nodup) (hinj : ∀ a ∈ l, ∀ b ∈ l, f a = f b → a = b) {x : α} (hx : x ∈ l) :
    (l.map f).count (f x) = 1 := by
  induction l with
  | nil => cases hx
  | cons a t ih =>
    simp only [List.nodup_cons] at hnd
    simp only [List.map_cons, List.count_cons]
    by_cases h : a = x
    · subst h
      have : (t.map f).count (f a) = 0 := by
        apply List.count_eq_zero_of_not_mem
        intro hm
        obtain ⟨b, hb, hfb⟩ := List.mem_map.mp hm
        have := hinj b (List.mem_cons_of_mem _ hb) a (List.mem_cons_self) hfb
        exact hnd.1 (this ▸ hb)
      simp [this]
    · have hx' : x ∈ t := by
        rcases List.mem_cons.mp hx with e | h'
        · exact absurd e.symm h
        · exact h'
      have hne : f a ≠ f x := by
        intro e
        exact h (hinj a List.mem_cons_self x hx e)
      have := ih hnd.2 (fun a ha b hb => hinj a (List.mem_cons_of_mem _ ha) b (List.mem_cons_of_mem _ hb)) hx'
      simp [this, hne]

section
variable {es : List FileEntry} {T0 : Tree}

/-- a file occurs once in the entries of its parent folder and in no other folder -/
theorem file_once (hB : BuiltTree es T0) (hnd : (es.map (·.path)).Nodup) {e : FileEntry} (he : e ∈ es)
    {k : Str} {f0 : Folder} (hf0 : dget? k T0 = some f0) :
    f0.entries.count (Entry.file e) = if k = dirKey e.path then 1 else 0 := by
  have h1 := count_file_entries f0.entries e
  have h2 : (f0.entries.filterMap fun | .file e => some e | .folder _ => none) = fileEntries f0 := rfl
  rw [h1, h2, fileEntries_eq hB hf0]
  have hes : es.Nodup := nodup_of_map _ hnd
  by_cases hk : k = dirKey e.path
  · subst hk
    have hp : (fun e' : FileEntry => decide (dirKey e'.path = dirKey e.path)) e = true := by simp
    rw [List.count_filter (p := fun e' : FileEntry => decide (dirKey e'.path = dirKey e.path)) (a := e) (l := es) hp,
      hes.count]; simp [he]
  · rw [if_neg hk]
    apply List.count_eq_zero_of_not_mem
    intro hm
    have := (List.mem_filter.mp hm).2
    have h3 : dirKey e.path = k := by simpa using this
    exact hk h3.symm

/-- a non-root folder is denoted by one sub-folder entry of its parent and by no entry elsewhere -/
theorem folder_once (hB : BuiltTree es T0) {c : Str} (hc : dhas c T0 = true) (hcr : c ≠ rootKey)
    {k : Str} {f0 : Folder} (hf0 : dget? k T0 = some f0) :
    ((folderNames f0).map (childKey k)).count c = if k = parentKeyOf c then 1 else 0 := by
  have hg : GoodNR c := (hB.j.good c hc).resolve_left hcr
  by_cases hk : k = parentKeyOf c
  · rw [if_pos hk]
    obtain ⟨hn, hck⟩ := children_names hB hf0 ⟨hg, hk.symm⟩ hc
    rw [← hck]
    refine count_map_inj_on (childKey k) (hB.j.names k f0 hf0).1 ?_ hn
    intro a ha b hb hab
    rw [← (names_children hB hf0 ha).2.2, hab, (names_children hB hf0 hb).2.2]
  · rw [if_neg hk]
    apply List.count_eq_zero_of_not_mem
    intro hm
    obtain ⟨n, hn, hcn⟩ := List.mem_map.mp hm
    have := (names_children hB hf0 hn).1.2
    rw [hcn] at this
    exact hk this.symm

/-- there are no other entries -/
theorem entries_known (hB : BuiltTree es T0) {k : Str} {f0 : Folder} (hf0 : dget? k T0 = some f0)
    {en : Entry} (hen : en ∈ f0.entries) :
    (∃ e ∈ es, en = .file e ∧ dirKey e.path = k) ∨
    (∃ n, en = .folder n ∧ dhas (childKey k n) T0 = true ∧ childKey k n ≠ rootKey ∧
      parentKeyOf (childKey k n) = k) := by
  cases en with
  | file e =>
    left
    have : e ∈ fileEntries f0 := by
      simp only [fileEntries, List.mem_filterMap]
      exact ⟨_, hen, rfl⟩
    rw [fileEntries_eq hB hf0, List.mem_filter] at this
    exact ⟨e, this.1, rfl, by simpa using this.2⟩
  | folder n =>
    right
    have : n ∈ folderNames f0 := by
      simp only [folderNames, List.mem_filterMap]
      exact ⟨_, hen, rfl⟩
    obtain ⟨h1, h2, _⟩ := names_children hB hf0 this
    exact ⟨n, rfl, h2, h1.1.ne_root, h1.2⟩

end

theorem normalised_admissible {p : Str} (h : normalised p = true) : admissible p = true := by
  rw [admissible_iff]
  rintro ⟨t, rfl⟩
  have : rootKey ++ t = [dot] ++ sl :: t := by simp [rootKey]
  rw [this] at h
  simp only [normalised, splitSep_append_slash] at h
  have hd : splitSep [dot] = [[dot]] := by decide
  rw [hd] at h
  simp at h

end CL.Codebase
