import CodeLimit.Spec.C12cwd
import CodeLimit.Lemmas.SelectCheck
/-!
# `check_command` from an arbitrary working directory: reduction to a run in `/`

`checkBody O cwd` is `checkBody (absView O cwd) []`: the `relative_to(cwd)` / `ValueError` logic
moves into the exclusion function.  Everything proved for the working directory at the base of
the tree (`Lemmas/SelectCheck.lean`) then applies with the oracle `absView O cwd`.
-/
namespace CL.C12cwd

open CL CL.Sel

/-! ## `relative_to` -/

theorem relTo_append_self : ∀ (c p : List Str), relTo c (c ++ p) = some p
  | [], p => relTo_nil p
  | x :: c, p => by simp [relTo, relTo_append_self c p]

theorem relTo_eq_some : ∀ {c a r : List Str}, relTo c a = some r ↔ a = c ++ r
  | [], a, r => by rw [relTo_nil]; simp
  | x :: c, [], r => by simp [relTo]
  | x :: c, y :: a, r => by
    by_cases h : x = y
    · subst h
      simp [relTo, relTo_eq_some (c := c)]
    · simp [relTo, h]
      intro e; exact absurd e.symm h

/-- common leading components cancel -/
theorem relTo_append_left : ∀ (a s r : List Str), relTo (a ++ s) (a ++ r) = relTo s r
  | [], s, r => rfl
  | x :: a, s, r => by simp [relTo, relTo_append_left a s r]

theorem relTo_eq_none {c a : List Str} (h : ¬ c <+: a) : relTo c a = none := by
  rcases hr : relTo c a with _ | r
  · rfl
  · exact absurd ⟨r, (relTo_eq_some.1 hr).symm⟩ h

theorem relTo_isSome {c a : List Str} : (relTo c a).isSome = true ↔ c <+: a := by
  constructor
  · intro h
    obtain ⟨r, hr⟩ := Option.isSome_iff_exists.1 h
    exact ⟨r, (relTo_eq_some.1 hr).symm⟩
  · rintro ⟨r, rfl⟩
    simp [relTo_append_self]

/-! ## the exclusion function of a working directory -/

@[simp] theorem absView_excluded (O : Oracles) (cwd : List Str) : (absView O cwd).excluded = exclFrom O cwd := rfl
@[simp] theorem absView_langOf (O : Oracles) (cwd : List Str) : (absView O cwd).langOf = O.langOf := rfl
@[simp] theorem absView_analyze (O : Oracles) (cwd : List Str) : (absView O cwd).analyze = O.analyze := rfl
@[simp] theorem absView_decode (O : Oracles) (cwd : List Str) : (absView O cwd).decode = O.decode := rfl
@[simp] theorem absView_checksum (O : Oracles) (cwd : List Str) : (absView O cwd).checksum = O.checksum := rfl
@[simp] theorem viewFrom_excluded (O : Oracles) (cwd root p : List Str) :
    (viewFrom O cwd root).excluded p = exclFrom O cwd (root ++ p) := rfl
@[simp] theorem viewFrom_langOf (O : Oracles) (cwd root : List Str) : (viewFrom O cwd root).langOf = O.langOf := rfl
@[simp] theorem viewFrom_analyze (O : Oracles) (cwd root : List Str) : (viewFrom O cwd root).analyze = O.analyze := rfl
@[simp] theorem viewFrom_decode (O : Oracles) (cwd root : List Str) : (viewFrom O cwd root).decode = O.decode := rfl
@[simp] theorem viewFrom_checksum (O : Oracles) (cwd root : List Str) : (viewFrom O cwd root).checksum = O.checksum := rfl

theorem exclFrom_some (O : Oracles) {cwd a rel : List Str} (h : relTo cwd a = some rel) :
    exclFrom O cwd a = O.excluded rel := by
  simp [exclFrom, h]

theorem exclFrom_none (O : Oracles) {cwd a : List Str} (h : relTo cwd a = none) :
    exclFrom O cwd a = false := by
  simp [exclFrom, h]

theorem exclFrom_nil (O : Oracles) (a : List Str) : exclFrom O [] a = O.excluded a := by
  simp [exclFrom, relTo_nil]

/-- below the working directory: the path relative to it is matched -/
theorem exclFrom_below (O : Oracles) (cwd p : List Str) : exclFrom O cwd (cwd ++ p) = O.excluded p := by
  simp [exclFrom, relTo_append_self]

/-- not below the working directory: never excluded -/
theorem exclFrom_outside (O : Oracles) {cwd a : List Str} (h : ¬ cwd <+: a) : exclFrom O cwd a = false := by
  simp [exclFrom, relTo_eq_none h]

/-- working directory = root: the scan's own exclusion function -/
theorem viewFrom_self (O : Oracles) (root : List Str) : viewFrom O root root = O := by
  cases O
  simp only [viewFrom, exclFrom_below]

/-- working directory at the base of the tree -/
theorem absView_nil (O : Oracles) : absView O [] = O := by
  cases O
  simp only [absView, Oracles.mk.injEq, and_true]
  funext a
  exact exclFrom_nil _ a

/-! ## the loop body -/

theorem checkFile_absView (O : Oracles) (cwd : List Str) (path : CPath) (content : Str) (st : CheckSt) :
    checkFile (absView O cwd) path content st = checkFile O path content st := rfl

/-- **the reduction**: the body of the directory loop in `cwd` is the body of a run in `/` whose
exclusion function is `exclFrom O cwd` -/
theorem checkBody_cwd (O : Oracles) (cwd pre : List Str) (f : Str × Str) (st : CheckSt) :
    checkBody O cwd pre f st = checkBody (absView O cwd) [] pre f st := by
  simp only [checkBody, relTo_nil, absView_excluded, checkFile_absView]
  cases h : relTo cwd (pre ++ [f.1]) with
  | none => simp [exclFrom_none O h]
  | some rel => simp [exclFrom_some O h]

theorem checkDirBody_cwd (O : Oracles) (cwd : List Str) (step : List Str × List (Str × Str)) (st : CheckSt) :
    checkDirBody O cwd step st = checkDirBody (absView O cwd) [] step st := by
  simp only [checkDirBody]
  exact forE_congr _ _ (fun f _ s => checkBody_cwd O cwd step.1 f s)

/-- the directory loop of `check_command` run in `cwd`, as one loop over the candidates of the
walk that pass the exclusion test of `cwd` and the language test -/
theorem check_loops_flat_cwd (O : Oracles) (cwd pre : List Str) (ch : List Node) (st : CheckSt) :
    forE (checkDirBody O cwd) (walkTop keepV pre ch) st =
      forE (checkOne (absView O cwd) true) ((cands pre ch).filterMap (passes (absView O cwd))) st := by
  rw [← check_loops_flat]
  exact forE_congr _ _ (fun step _ s => checkDirBody_cwd O cwd step s)

/-! ## path lookup, converses -/

theorem mem_of_getList : ∀ {l : List Node} {c : Str} {cs : List Str} {n : Node},
    getList l c cs = some n → ∃ x ∈ l, x.name = c ∧ getNode x cs = some n
  | [], _, _, _, h => by simp [getList] at h
  | y :: r, c, cs, n, h => by
    by_cases hn : y.name = c
    · simp only [getList, hn, if_true] at h
      exact ⟨y, by simp, hn, h⟩
    · simp only [getList, hn, if_false] at h
      obtain ⟨x, hx, h1, h2⟩ := mem_of_getList h
      exact ⟨x, List.mem_cons_of_mem _ hx, h1, h2⟩

theorem getNode_file_cons (n b c : Str) (cs : List Str) : getNode (.file n b) (c :: cs) = none := by
  rw [getNode]

/-- a path that resolves to a directory is the path of that directory -/
theorem dirAt_of_getNode : ∀ {d : List Str} {rn : Str} {ch : List Node} {n : Str} {sub : List Node},
    getNode (.dir rn ch) d = some (.dir n sub) → DirAt ch d sub
  | [], rn, ch, n, sub, h => by
    rw [getNode_nil] at h
    simp only [Option.some.injEq, Node.dir.injEq] at h
    rw [← h.2]; exact .root
  | c :: cs, rn, ch, n, sub, h => by
    rw [getNode_dir_cons] at h
    obtain ⟨x, hx, hname, hx2⟩ := mem_of_getList h
    cases x with
    | file m b =>
      cases cs with
      | nil => rw [getNode_nil] at hx2; simp at hx2
      | cons c' cs' => rw [getNode_file_cons] at hx2; simp at hx2
    | dir m sub' =>
      simp only [Node.name] at hname
      subst hname
      exact .under hx (dirAt_of_getNode hx2)

/-- a path that resolves to a regular file is the path of that file -/
theorem fileAt_of_getNode : ∀ {p : List Str} {rn : Str} {ch : List Node} {n c : Str},
    getNode (.dir rn ch) p = some (.file n c) → FileAt ch p c ∧ n = baseName p
  | [], rn, ch, n, c, h => by rw [getNode_nil] at h; simp at h
  | x :: cs, rn, ch, n, c, h => by
    rw [getNode_dir_cons] at h
    obtain ⟨y, hy, hname, hy2⟩ := mem_of_getList h
    cases y with
    | file m b =>
      cases cs with
      | nil =>
        rw [getNode_nil] at hy2
        simp only [Option.some.injEq, Node.file.injEq] at hy2
        simp only [Node.name] at hname
        obtain ⟨rfl, rfl⟩ := hy2
        subst hname
        exact ⟨.here hy, by simp [baseName]⟩
      | cons c' cs' => rw [getNode_file_cons] at hy2; simp at hy2
    | dir m sub' =>
      simp only [Node.name] at hname
      subst hname
      have ih := fileAt_of_getNode hy2
      exact ⟨.under hy ih.1, by rw [baseName_cons ih.1.ne_nil]; exact ih.2⟩

/-! ## a walk from `pre` is the walk from the empty prefix, shifted -/

theorem flatMap_congr' {α β : Type} {f g : α → List β} : ∀ {l : List α}, (∀ x ∈ l, f x = g x) →
    l.flatMap f = l.flatMap g
  | [], _ => rfl
  | x :: r, h => by
    simp only [List.flatMap_cons, h x (by simp)]
    rw [flatMap_congr' (fun y hy => h y (List.mem_cons_of_mem _ hy))]

theorem filterMap_congr' {α β : Type} {f g : α → Option β} : ∀ {l : List α}, (∀ x ∈ l, f x = g x) →
    l.filterMap f = l.filterMap g
  | [], _ => rfl
  | x :: r, h => by
    simp only [List.filterMap_cons, h x (by simp)]
    rw [filterMap_congr' (fun y hy => h y (List.mem_cons_of_mem _ hy))]

/-- prefix the directory of one `os.walk` step -/
def shiftStep (pre : List Str) (s : List Str × List (Str × Str)) : List Str × List (Str × Str) :=
  (pre ++ s.1, s.2)

mutual
theorem walkNode_shift (keep : Str → Bool) (pre q : List Str) : (n : Node) →
    walkNode keep (pre ++ q) n = (walkNode keep q n).map (shiftStep pre)
  | .file _ _ => by simp [walkNode]
  | .dir n ch => by
    have ih := walkList_shift keep pre (q ++ [n]) ch
    simp only [walkNode]
    by_cases hk : keep n = true
    · simp only [hk, if_true, List.map_cons, shiftStep, List.append_assoc] at ih ⊢
      rw [ih]
    · simp [hk]
theorem walkList_shift (keep : Str → Bool) (pre q : List Str) : (l : List Node) →
    walkList keep (pre ++ q) l = (walkList keep q l).map (shiftStep pre)
  | [] => by simp [walkList]
  | x :: r => by
    simp only [walkList, List.map_append]
    rw [walkNode_shift keep pre q x, walkList_shift keep pre q r]
end

/-- prefix the path of a candidate -/
def shiftCand (pre : List Str) (x : List Str × Str) : List Str × Str := (pre ++ x.1, x.2)

theorem stepFiles_shift (pre : List Str) (s : List Str × List (Str × Str)) :
    stepFiles (shiftStep pre s) = (stepFiles s).map (shiftCand pre) := by
  simp [stepFiles, shiftStep, shiftCand, List.map_map, Function.comp_def]

/-- **the candidates of a walk from the directory `pre`** are those of a walk from the empty
prefix with `pre` put in front, in the same order -/
theorem cands_shift (pre : List Str) (ch : List Node) :
    cands pre ch = (cands [] ch).map (shiftCand pre) := by
  have h := walkList_shift keepV pre [] ch
  simp only [List.append_nil] at h
  simp only [cands, walkTop, List.flatMap_cons, h, List.map_append, List.flatMap_map, List.map_flatMap]
  congr 1
  · have := stepFiles_shift pre ([], fileEntries ch)
    simpa [shiftStep] using this
  · apply flatMap_congr'
    intro s _
    exact stepFiles_shift pre s

theorem cands_ne_nil {pre : List Str} {ch : List Node} {x : List Str × Str} (h : x ∈ cands pre ch) :
    ∃ r, r ≠ [] ∧ x.1 = pre ++ r := by
  obtain ⟨r, hr, hf, _⟩ := (mem_cands (q := x.1) (c := x.2)).1 h
  exact ⟨r, hf.ne_nil, hr⟩

theorem baseName_append {pre r : List Str} (h : r ≠ []) : baseName (pre ++ r) = baseName r := by
  induction pre with
  | nil => rfl
  | cons x t ih =>
    rw [List.cons_append, baseName_cons (by simp [h]), ih]

/-- prefix the path of a selected file -/
def shiftSel (pre : List Str) (x : List Str × Nat × Str) : List Str × Nat × Str := (pre ++ x.1, x.2.1, x.2.2)

/-- **the files a directory argument `a` selects in `cwd`** are the files a `scan` of `a` selects
under the exclusion function `viewFrom O cwd a`, with `a` put in front, in the same order -/
theorem selection_shift (O : Oracles) (cwd a : List Str) (sub : List Node) :
    (cands a sub).filterMap (passes (absView O cwd)) =
      (selection (viewFrom O cwd a) sub).map (shiftSel a) := by
  rw [cands_shift, selection, List.filterMap_map, List.map_filterMap]
  apply filterMap_congr'
  intro x hx
  obtain ⟨r, hr, hx1⟩ := cands_ne_nil hx
  simp only [List.nil_append] at hx1
  simp only [Function.comp, passes, shiftCand, absView_excluded, viewFrom_excluded, absView_langOf,
    viewFrom_langOf, hx1, baseName_append hr]
  by_cases he : exclFrom O cwd (a ++ r) = true
  · simp [he]
  · simp only [he, Bool.false_eq_true, if_false]
    rcases O.langOf (baseName r) with _ | l <;> simp [shiftSel]

/-! ## the sequential check of a shifted selection -/

/-- prefix the path handed to `check_file` -/
def shiftPath (pre : List Str) (p : CPath) : CPath := ⟨p.abs, pre ++ p.comps⟩

theorem runCheck_shift (O O' : Oracles) (abs : Bool) (pre : List Str)
    (ha : O'.analyze = O.analyze) (hd : O'.decode = O.decode) :
    ∀ (sel : List (List Str × Nat × Str)),
    (runCheck O' abs (sel.map (shiftSel pre))).1 = (runCheck O abs sel).1.map (shiftPath pre) ∧
    (runCheck O' abs (sel.map (shiftSel pre))).2 =
      (match (runCheck O abs sel).2 with
       | .ok fl => .ok (fl.map (fun pr => (shiftPath pre pr.1, pr.2)))
       | .error e => .error e)
  | [] => by simp [runCheck]
  | x :: r => by
    obtain ⟨ih1, ih2⟩ := runCheck_shift O O' abs pre ha hd r
    simp only [List.map_cons, runCheck, shiftSel, ha, hd]
    rcases hx : O.analyze x.2.1 (O.decode x.2.2) with e | ms
    · simp [shiftPath]
    · simp only [ih1, List.map_cons, shiftPath, true_and]
      rw [ih2]
      rcases (runCheck O abs r).2 with e | fl <;> simp [shiftPath]

end CL.C12cwd
