import CodeLimit.Lemmas.CodebaseTree
/-!
# `add_folder` and `add_file` maintain the tree invariant (and never run out of fuel)
-/
namespace CL.Codebase

theorem parent_cases {F : Str} (hgood : GoodNR (F ++ [sl])) :
    getParentFolder F = [dot] ∨
      (GoodNR (getParentFolder F ++ [sl]) ∧ getParentFolder F ++ [sl] <+: F ++ [sl] ∧
        (getParentFolder F).length < F.length) := by
  rcases parentKeyOf_good hgood with hr | ⟨hg, hpre, hneq⟩
  · left
    rw [parentKeyOf_concat] at hr
    have := congrArg List.dropLast hr
    simpa [rootKey] using this
  · right
    rw [parentKeyOf_concat] at hg hpre hneq
    refine ⟨hg, hpre, ?_⟩
    have h1 := hpre.length_le
    have h2 : (getParentFolder F ++ [sl]).length ≠ (F ++ [sl]).length :=
      fun e => hneq (hpre.eq_of_length e)
    simp at h1 h2
    omega

theorem addFolder_spec : ∀ (fuel : Nat) (F : Str) (T : Tree),
    ((F = [dot] ∧ 1 ≤ fuel) ∨ F.length + 2 ≤ fuel) → J T → (F = [dot] ∨ ¬ rootKey <+: F ++ [sl]) →
    (F ≠ [dot] → ∀ k, IsDirPrefix k (F ++ [sl]) → dhas k T = true → Linked T k) →
    ∃ T', addFolder fuel F T = .ok T' ∧ J T' ∧
      (∀ k, dhas k T' = true ↔ (dhas k T = true ∨ (F ≠ [dot] ∧ IsDirPrefix k (F ++ [sl])))) ∧
      (∀ k, GoodNR k → (Linked T' k ↔ (Linked T k ∨ (F ≠ [dot] ∧ IsDirPrefix k (F ++ [sl]))))) ∧
      (∀ k, fileEntriesAt T' k = fileEntriesAt T k) := by
  intro fuel
  induction fuel with
  | zero => intro F T hfuel; omega
  | succ fuel ih =>
    intro F T hfuel hJ hF hpre
    by_cases hd : F = [dot]
    · refine ⟨T, by simp [addFolder, hd]; rfl, hJ, ?_, ?_, ?_⟩ <;> simp [hd]
    · have hgood : GoodNR (F ++ [sl]) := goodNR_concat.mpr (hF.resolve_left hd)
      have hfuel' : F.length + 2 ≤ fuel + 1 := by
        rcases hfuel with ⟨h, _⟩ | h
        · exact absurd h hd
        · exact h
      by_cases hh : dhas (F ++ [sl]) T = true
      · have hcl := hJ.closure _ (F ++ [sl]) (Nat.le_refl _) hgood (hpre hd _ (isDirPrefix_self F) hh)
        refine ⟨T, by simp [addFolder, hd, hh]; rfl, hJ, ?_, ?_, ?_⟩
        · intro k
          constructor
          · exact Or.inl
          · rintro (h | ⟨_, h⟩)
            · exact h
            · exact (hcl k h).1
        · intro k _
          constructor
          · exact Or.inl
          · rintro (h | ⟨_, h⟩)
            · exact h
            · exact (hcl k h).2
        · intro k; rfl
      · have hn : dhas (F ++ [sl]) T = false := by simpa using hh
        obtain ⟨hJ1, hl1, hf1⟩ := hJ.insert_new hgood hn
        generalize hT1 : dset (F ++ [sl]) Folder.new T = T1 at hJ1 hl1 hf1
        have hk1 : ∀ k, dhas k T1 = true ↔ (k = F ++ [sl] ∨ dhas k T = true) := by
          intro k; rw [← hT1]; exact dhas_dset _ _ _ _
        generalize hG : getParentFolder F = G
        have hpc := parent_cases hgood
        rw [hG] at hpc
        have hGfuel : (G = [dot] ∧ 1 ≤ fuel) ∨ G.length + 2 ≤ fuel := by
          rcases hpc with h | ⟨_, _, h⟩
          · left; exact ⟨h, by omega⟩
          · right; omega
        have hGgood : G = [dot] ∨ ¬ rootKey <+: G ++ [sl] := by
          rcases hpc with h | ⟨h, _, _⟩
          · exact Or.inl h
          · exact Or.inr h.2
        have hGlt : G ≠ [dot] → G ++ [sl] <+: F ++ [sl] ∧ G.length < F.length := by
          intro hne
          rcases hpc with h | ⟨_, h1, h2⟩
          · exact absurd h hne
          · exact ⟨h1, h2⟩
        have hGpre : G ≠ [dot] → ∀ k, IsDirPrefix k (G ++ [sl]) → dhas k T1 = true → Linked T1 k := by
          intro hne k hp hk
          obtain ⟨hpre', hlt⟩ := hGlt hne
          have hkne : k ≠ F ++ [sl] := by
            rintro rfl
            have := hp.1.length_le
            simp at this; omega
          have hkT : dhas k T = true := ((hk1 k).mp hk).resolve_left hkne
          have hkg : GoodNR k := (hp.trans hpre').good hgood.2
          exact (hl1 k hkg).mpr (hpre hd k (hp.trans hpre') hkT)
        obtain ⟨T2, e2, hJ2, hk2, hl2, hf2⟩ := ih G T1 hGfuel hJ1 hGgood hGpre
        have hhasG : dhas (G ++ [sl]) T2 = true := by
          by_cases hne : G = [dot]
          · rw [hne]; exact hJ2.root
          · exact (hk2 _).mpr (Or.inr ⟨hne, isDirPrefix_self G⟩)
        obtain ⟨pf, hpf⟩ := dhas_iff.mp hhasG
        have hnotpre : ¬ (G ≠ [dot] ∧ IsDirPrefix (F ++ [sl]) (G ++ [sl])) := by
          rintro ⟨hne, hp⟩
          have := hp.1.length_le
          have := (hGlt hne).2
          simp at *; omega
        have hnl : ¬ Linked T2 (F ++ [sl]) := by
          intro hl
          rcases (hl2 _ hgood).mp hl with h | h
          · have := hJ.linked_has hgood ((hl1 _ hgood).mp h)
            rw [hn] at this; cases this
          · exact hnotpre h
        have hup : G = [dot] ∨ Linked T2 (G ++ [sl]) := by
          rcases hpc with h | ⟨hg, _, _⟩
          · exact Or.inl h
          · by_cases hne : G = [dot]
            · exact Or.inl hne
            · exact Or.inr ((hl2 _ hg).mpr (Or.inr ⟨hne, isDirPrefix_self G⟩))
        have hhasF : dhas (F ++ [sl]) T2 = true := (hk2 _).mpr (Or.inl ((hk1 _).mpr (Or.inl rfl)))
        subst hG
        obtain ⟨hJ3, hk3, hl3, hf3⟩ := hJ2.link hgood hhasF hnl hpf hup
        refine ⟨_, ?_, hJ3, ?_, ?_, ?_⟩
        · simp only [addFolder, hd, if_false, hn, Bool.not_false, if_true, hT1]
          simp only [bind, Except.bind, e2, dgetE_ok hpf, pure, Except.pure]
        · intro k
          rw [hk3, hk2, hk1, isDirPrefix_step k F hgood.2]
          constructor
          · rintro ((rfl | h) | h)
            · exact Or.inr ⟨hd, Or.inl rfl⟩
            · exact Or.inl h
            · exact Or.inr ⟨hd, Or.inr h⟩
          · rintro (h | ⟨_, rfl | h⟩)
            · exact Or.inl (Or.inr h)
            · exact Or.inl (Or.inl rfl)
            · exact Or.inr h
        · intro k hk
          rw [hl3 k hk, hl2 k hk, hl1 k hk, isDirPrefix_step k F hgood.2]
          constructor
          · rintro ((h | h) | rfl)
            · exact Or.inl h
            · exact Or.inr ⟨hd, Or.inr h⟩
            · exact Or.inr ⟨hd, Or.inl rfl⟩
          · rintro (h | ⟨_, rfl | h⟩)
            · exact Or.inl (Or.inl h)
            · exact Or.inr rfl
            · exact Or.inl (Or.inr h)
        · intro k; rw [hf3, hf2, hf1]

end CL.Codebase

namespace CL.Codebase

/-- storing a file entry in an existing folder -/
theorem J.add_file {T : Tree} (h : J T) {K : Str} {f : Folder} (hf : dget? K T = some f) (e : FileEntry) :
    let T' := dset K (f.addFile e) T
    J T' ∧ (∀ k, dhas k T' = true ↔ dhas k T = true) ∧ (∀ k, Linked T' k ↔ Linked T k) ∧
    (∀ k, fileEntriesAt T' k = if k = K then fileEntriesAt T K ++ [e] else fileEntriesAt T k) := by
  intro T'
  have hkeys : ∀ k, dhas k T' = true ↔ dhas k T = true := by
    intro k
    rw [dhas_dset]
    constructor
    · rintro (rfl | hk)
      · exact dhas_iff.mpr ⟨f, hf⟩
      · exact hk
    · exact Or.inr
  have hlink : ∀ k, Linked T' k ↔ Linked T k := by
    intro k
    unfold Linked
    by_cases hp : parentKeyOf k = K
    · rw [hp, dget?_dset_self, hf]; simp [folderNames_addFile]
    · rw [dget?_dset_ne hp]
  refine ⟨⟨nodup_keys_dset _ _ h.nodup, (hkeys _).mpr h.root, fun k hk => h.good k ((hkeys k).mp hk),
    ?_, ?_, ?_⟩, hkeys, hlink, ?_⟩
  · intro k g hg
    rw [dget?_dset] at hg
    split at hg
    · rename_i hk
      cases hg
      rw [folderNames_addFile]
      obtain ⟨h1, h2⟩ := h.names K f hf
      refine ⟨h1, fun n hn => ?_⟩
      obtain ⟨k', a, b, c, d⟩ := h2 n hn
      exact ⟨k', (hkeys _).mpr a, b, hk ▸ c, d⟩
    · obtain ⟨h1, h2⟩ := h.names k g hg
      refine ⟨h1, fun n hn => ?_⟩
      obtain ⟨k', a, b, c, d⟩ := h2 n hn
      exact ⟨k', (hkeys _).mpr a, b, c, d⟩
  · intro k g hg
    rw [dget?_dset] at hg
    split at hg
    · cases hg; simpa [Folder.addFile] using h.zero K f hf
    · exact h.zero k g hg
  · intro k hk hl
    rcases h.up k hk ((hlink k).mp hl) with hr | hl'
    · exact Or.inl hr
    · exact Or.inr ((hlink _).mpr hl')
  · intro k
    unfold fileEntriesAt
    by_cases hk : k = K
    · subst hk; rw [dget?_dset_self, hf]; simp [fileEntries_addFile]
    · rw [dget?_dset_ne hk]; simp [hk]

/-- what the folder tree looks like after `add_file` for the entries `es` (in this order) -/
structure BuiltTree (es : List FileEntry) (T : Tree) : Prop where
  j : J T
  linked : ∀ k, dhas k T = true → k = rootKey ∨ Linked T k
  keys : ∀ k, dhas k T = true ↔ (k = rootKey ∨ ∃ e ∈ es, IsDirPrefix k e.path)
  files : ∀ k, fileEntriesAt T k = es.filter (fun e => dirKey e.path = k)

theorem builtTree_new : BuiltTree [] [(rootKey, Folder.new)] := by
  refine ⟨⟨by simp, by simp [dhas, dget?], ?_, ?_, ?_, ?_⟩, ?_, ?_, ?_⟩
  · intro k hk
    left
    simp only [dhas, dget?] at hk
    split at hk
    · rename_i h; exact h.symm
    · simp at hk
  · intro k f hf
    simp only [dget?] at hf
    split at hf
    · cases hf; simp [Folder.new, folderNames]
    · cases hf
  · intro k f hf
    simp only [dget?] at hf
    split at hf
    · cases hf; rfl
    · cases hf
  · rintro k _ ⟨f, hf, hn⟩
    simp only [dget?] at hf
    split at hf
    · cases hf; simp [Folder.new, folderNames] at hn
    · cases hf
  · intro k hk
    left
    simp only [dhas, dget?] at hk
    split at hk
    · rename_i h; exact h.symm
    · simp at hk
  · intro k
    simp only [dhas, dget?, List.not_mem_nil, false_and, exists_false, or_false]
    constructor
    · intro hk
      split at hk
      · rename_i h; exact h.symm
      · simp at hk
    · rintro rfl; simp
  · intro k
    simp only [fileEntriesAt, dget?, List.filter_nil]
    split
    · rename_i h
      split at h
      · cases h; rfl
      · cases h
    · rfl

theorem admissible_iff {p : Str} : admissible p = true ↔ ¬ rootKey <+: p := by
  rw [← List.isPrefixOf_iff_prefix]
  cases h : List.isPrefixOf rootKey p <;> simp [admissible, h]

/-- the `if f"{parent_folder}/" not in self.tree: self.add_folder(parent_folder)` step -/
theorem ensureFolder_spec {es : List FileEntry} {T : Tree} (hB : BuiltTree es T) (p : Str)
    (hadm : ¬ rootKey <+: p) :
    ∃ T1, (if !dhas (getParentFolder p ++ [sl]) T
            then addFolder (addFolderFuel (getParentFolder p)) (getParentFolder p) T
            else pure T) = Except.ok T1 ∧
      J T1 ∧ (∀ k, dhas k T1 = true → k = rootKey ∨ Linked T1 k) ∧
      (∀ k, dhas k T1 = true ↔ (dhas k T = true ∨ IsDirPrefix k p)) ∧
      (∀ k, fileEntriesAt T1 k = fileEntriesAt T k) ∧
      dhas (dirKey p) T1 = true := by
  rcases last_slash p with hs | ⟨q, b, rfl, hb⟩
  · refine ⟨T, ?_, hB.j, hB.linked, ?_, fun _ => rfl, ?_⟩
    · have : dhas (getParentFolder p ++ [sl]) T = true := by
        rw [(parent_base_noslash hs).1]; exact hB.j.root
      simp [this]; rfl
    · intro k
      constructor
      · exact Or.inl
      · rintro (h | h)
        · exact h
        · exact absurd h (not_isDirPrefix_noslash k hs)
    · rw [dirKey_noslash hs]; exact hB.j.root
  · rw [(parent_base_slash q hb).1, dirKey_slash q hb]
    have hpre : q ++ [sl] <+: q ++ sl :: b := ⟨b, by simp⟩
    have hgood : GoodNR (q ++ [sl]) := ⟨List.getLast?_concat, fun h => hadm (h.trans hpre)⟩
    have hqd : q ≠ [dot] := by
      rintro rfl; exact hgood.2 (by simp [rootKey])
    by_cases hh : dhas (q ++ [sl]) T = true
    · refine ⟨T, by simp [hh]; rfl, hB.j, hB.linked, ?_, fun _ => rfl, hh⟩
      intro k
      constructor
      · exact Or.inl
      · rintro (h | h)
        · exact h
        · rcases (hB.keys _).mp hh with hr | ⟨e, he, hp⟩
          · exact absurd hr hgood.ne_root
          · exact (hB.keys k).mpr (Or.inr ⟨e, he, ((isDirPrefix_file k q hb).mp h).trans hp.1⟩)
    · have hn : dhas (q ++ [sl]) T = false := by simpa using hh
      obtain ⟨T1, e1, hJ1, hk1, hl1, hf1⟩ := addFolder_spec (addFolderFuel q) q T
        (Or.inr (Nat.le_refl _)) hB.j (Or.inr hgood.2)
        (fun _ k hp hk => (hB.linked k hk).resolve_left (hp.good hgood.2).ne_root)
      refine ⟨T1, by simp [hn, e1], hJ1, ?_, ?_, hf1, (hk1 _).mpr (Or.inr ⟨hqd, isDirPrefix_self q⟩)⟩
      · intro k hk
        rcases hJ1.good k hk with hr | hg
        · exact Or.inl hr
        · right
          rcases (hk1 k).mp hk with h | h
          · exact (hl1 k hg).mpr (Or.inl ((hB.linked k h).resolve_left hg.ne_root))
          · exact (hl1 k hg).mpr (Or.inr h)
      · intro k
        rw [hk1, isDirPrefix_file k q hb]
        simp [hqd]

theorem addFile_spec {es : List FileEntry} {cb : Codebase} (hB : BuiltTree es cb.tree) (e : FileEntry)
    (hadm : admissible e.path = true) {t' : Totals} (ht : totalsAdd cb.totals e = .ok t') :
    ∃ T', cb.addFile e = .ok ⟨T', dset e.path e cb.files, t'⟩ ∧ BuiltTree (es ++ [e]) T' := by
  have hadm' := admissible_iff.mp hadm
  obtain ⟨T1, e1, hJ1, hlk1, hk1, hf1, hd1⟩ := ensureFolder_spec hB e.path hadm'
  obtain ⟨f, hf⟩ := dhas_iff.mp hd1
  obtain ⟨hJ2, hk2, hl2, hf2⟩ := hJ1.add_file hf e
  refine ⟨_, ?_, ⟨hJ2, ?_, ?_, ?_⟩⟩
  · simp only [Codebase.addFile, ht, bind, Except.bind]
    unfold dirKey at hf
    by_cases hc : (!dhas (getParentFolder e.path ++ [sl]) cb.tree) = true
    · rw [if_pos hc] at e1 ⊢
      rw [e1]
      simp only [dgetE_ok hf, pure, Except.pure]
      rfl
    · rw [if_neg hc] at e1 ⊢
      rw [e1]
      simp only [dgetE_ok hf, pure, Except.pure]
      rfl
  · intro k hk
    rcases hlk1 k ((hk2 k).mp hk) with h | h
    · exact Or.inl h
    · exact Or.inr ((hl2 k).mpr h)
  · intro k
    rw [hk2, hk1, hB.keys]
    simp only [List.mem_append, List.mem_singleton]
    constructor
    · rintro ((h | ⟨x, hx, hp⟩) | h)
      · exact Or.inl h
      · exact Or.inr ⟨x, Or.inl hx, hp⟩
      · exact Or.inr ⟨e, Or.inr rfl, h⟩
    · rintro (h | ⟨x, hx | rfl, hp⟩)
      · exact Or.inl (Or.inl h)
      · exact Or.inl (Or.inr ⟨x, hx, hp⟩)
      · exact Or.inr hp
  · intro k
    rw [hf2, hf1, hf1, hB.files, hB.files, List.filter_append]
    by_cases hk : k = dirKey e.path
    · subst hk; simp
    · have : ¬ dirKey e.path = k := fun h => hk h.symm
      simp [hk, this]

end CL.Codebase
