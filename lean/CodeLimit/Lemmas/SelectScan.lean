import CodeLimit.Lemmas.SelectTree
/-!
# `scan_path` = analysing the selected files one after the other
-/
namespace CL.Sel

/-! ## rendering of paths is injective on real names -/

theorem split_at_slash : ∀ (c c' t t' : Str), 47 ∉ c → 47 ∉ c' →
    (t = [] ∨ ∃ u, t = 47 :: u) → (t' = [] ∨ ∃ u, t' = 47 :: u) → c ++ t = c' ++ t' → c = c' ∧ t = t'
  | [], [], _, _, _, _, _, _, e => ⟨rfl, by simpa using e⟩
  | [], b :: c2, t, t', _, h2, ht, _, e => by
    rcases ht with rfl | ⟨u, rfl⟩
    · simp at e
    · simp at e; exact absurd e.1 (by intro h; exact h2 (by simp [h]))
  | a :: c1, [], t, t', h1, _, _, ht', e => by
    rcases ht' with rfl | ⟨u, rfl⟩
    · simp at e
    · simp at e; exact absurd e.1 (by intro h; exact h1 (by simp [h]))
  | a :: c1, b :: c2, t, t', h1, h2, ht, ht', e => by
    simp only [List.cons_append, List.cons.injEq] at e
    obtain ⟨rfl, e⟩ := e
    have := split_at_slash c1 c2 t t' (fun h => h1 (List.mem_cons_of_mem _ h))
      (fun h => h2 (List.mem_cons_of_mem _ h)) ht ht' e
    exact ⟨by rw [this.1], this.2⟩

theorem goodName_iff {n : Str} : goodName n = true ↔ n ≠ [] ∧ 47 ∉ n := by
  cases n <;> simp [goodName]

/-- what follows the first component in `joinPath` -/
def joinTail : List Str → Str
  | [] => []
  | r => 47 :: joinPath r

theorem joinPath_cons (c : Str) (r : List Str) : joinPath (c :: r) = c ++ joinTail r := by
  cases r <;> simp [joinPath, joinTail]

theorem joinTail_shape (r : List Str) : joinTail r = [] ∨ ∃ u, joinTail r = 47 :: u := by
  cases r
  · exact .inl rfl
  · exact .inr ⟨_, rfl⟩

/-- **different component lists print differently** (components non-empty, without `/`) -/
theorem joinPath_inj : ∀ (p q : List Str), (∀ x ∈ p, goodName x = true) → (∀ x ∈ q, goodName x = true) →
    joinPath p = joinPath q → p = q
  | [], [], _, _, _ => rfl
  | [], c :: r, _, hq, e => by
    have := (goodName_iff.1 (hq c (by simp))).1
    rw [joinPath_cons] at e
    cases c <;> simp_all [joinPath]
  | c :: r, [], hp, _, e => by
    have := (goodName_iff.1 (hp c (by simp))).1
    rw [joinPath_cons] at e
    cases c <;> simp_all [joinPath]
  | c :: r, c' :: r', hp, hq, e => by
    rw [joinPath_cons, joinPath_cons] at e
    obtain ⟨rfl, et⟩ := split_at_slash c c' _ _ (goodName_iff.1 (hp c (by simp))).2
      (goodName_iff.1 (hq c' (by simp))).2 (joinTail_shape r) (joinTail_shape r') e
    have hr : r = r' := by
      cases r with
      | nil => cases r' with
        | nil => rfl
        | cons y r2 => simp [joinTail] at et
      | cons x r1 => cases r' with
        | nil => simp [joinTail] at et
        | cons y r2 =>
          simp only [joinTail, List.cons.injEq, true_and] at et
          exact joinPath_inj _ _ (fun z hz => hp z (List.mem_cons_of_mem _ hz))
            (fun z hz => hq z (List.mem_cons_of_mem _ hz)) et
    rw [hr]

theorem FileAt.goodNames {ch : List Node} {p : List Str} {c : Str} (h : FileAt ch p c)
    (hwf : wfDir ch = true) : ∀ x ∈ p, goodName x = true := by
  induction h with
  | here hm =>
    have := wfDir_mem hwf hm
    simpa [Node.wf] using this
  | under hm _ ih =>
    have := wfDir_mem hwf hm
    simp only [Node.wf, Bool.and_eq_true] at this
    intro x hx
    rcases List.mem_cons.1 hx with rfl | hx
    · exact this.1
    · exact ih this.2 x hx

/-! ## the selected files -/

/-- the files `scan_path` hands to `_scan_file`, in loop order: `(components, language, bytes)` -/
def selection (O : Oracles) (ch : List Node) : List (List Str × Nat × Str) :=
  (cands [] ch).filterMap (passes O)

theorem mem_passes {O : Oracles} {l : List (List Str × Str)} {p : List Str} {lang : Nat} {c : Str} :
    (p, lang, c) ∈ l.filterMap (passes O) ↔
      (p, c) ∈ l ∧ O.excluded p = false ∧ O.langOf (baseName p) = some lang := by
  simp only [List.mem_filterMap, passes, Prod.exists]
  constructor
  · rintro ⟨q, c', hm, h⟩
    by_cases hx : O.excluded q = true
    · simp [hx] at h
    · simp only [hx] at h
      rcases hl : O.langOf (baseName q) with _ | l
      · simp [hl] at h
      · simp only [hl, Option.map_some, Option.some.injEq, Prod.mk.injEq, Bool.false_eq_true,
          if_false] at h
        obtain ⟨rfl, rfl, rfl⟩ := h
        exact ⟨hm, by simpa using hx, hl⟩
  · rintro ⟨hm, hx, hl⟩
    exact ⟨p, c, hm, by simp [hx, hl]⟩

/-- **the files handed to `_scan_file` are exactly the qualifying files** -/
theorem mem_selection {O : Oracles} {ch : List Node} {p : List Str} {lang : Nat} {c : Str} :
    (p, lang, c) ∈ selection O ch ↔ Selected O ch p c lang := by
  simp only [selection, mem_passes, mem_cands, List.nil_append, Selected]
  constructor
  · rintro ⟨⟨r, rfl, h1, h2⟩, h3, h4⟩; exact ⟨h1, h2, h3, h4⟩
  · rintro ⟨h1, h2, h3, h4⟩; exact ⟨⟨p, rfl, h1, h2⟩, h3, h4⟩

theorem nodupKeys_passes {O : Oracles} {l : List (List Str × Str)} (h : NodupKeys l) :
    NodupKeys (l.filterMap (passes O)) := by
  induction l with
  | nil => simp [NodupKeys]
  | cons x r ih =>
    obtain ⟨h1, h2⟩ := nodupKeys_cons.1 h
    rcases hp : passes O x with _ | y
    · simpa [List.filterMap_cons_none hp] using ih h2
    · rw [List.filterMap_cons_some hp]
      refine nodupKeys_cons.2 ⟨?_, ih h2⟩
      rintro ⟨q, l', c'⟩ hy e
      have hq := (mem_passes.1 hy).1
      have hy1 : y.1 = x.1 := by
        simp only [passes] at hp
        by_cases hx : O.excluded x.1 = true
        · simp [hx] at hp
        · simp only [hx, Bool.false_eq_true, if_false, Option.map_eq_some_iff] at hp
          obtain ⟨_, _, rfl⟩ := hp; rfl
      exact h1 (q, c') hq (hy1 ▸ e)

theorem nodupKeys_selection {O : Oracles} {ch : List Node} (h : wfDir ch = true) :
    NodupKeys (selection O ch) := nodupKeys_passes (nodupKeys_cands h)

/-- the key `scan_path` files an item of the selection under -/
def keyOf (x : List Str × Nat × Str) : Str := joinPath x.1

/-- **different selected files get different keys** -/
theorem nodup_keys_selection {O : Oracles} {ch : List Node} (h : wfDir ch = true) :
    ((selection O ch).map keyOf).Nodup := by
  have hn := nodupKeys_selection (O := O) h
  have hg : ∀ x ∈ selection O ch, ∀ z ∈ x.1, goodName z = true := by
    rintro ⟨p, l, c⟩ hx
    exact (mem_selection.1 hx).1.goodNames h
  revert hn hg
  generalize selection O ch = sel
  intro hn hg
  induction sel with
  | nil => simp
  | cons x r ih =>
    obtain ⟨h1, h2⟩ := nodupKeys_cons.1 hn
    simp only [List.map_cons, List.nodup_cons, List.mem_map, not_exists, not_and]
    refine ⟨fun y hy e => ?_, ih h2 (fun y hy => hg y (List.mem_cons_of_mem _ hy))⟩
    exact h1 y hy (joinPath_inj _ _ (hg x (by simp)) (hg y (List.mem_cons_of_mem _ hy)) e.symm)

/-! ## running the loop -/

/-- analysing the selected files one after the other: the paths handed to `_analyze_file`, and
the entries (or the first exception) -/
def runSel (O : Oracles) : List (List Str × Nat × Str) → List Str × Except Err (List FileEntry)
  | [] => ([], .ok [])
  | x :: r =>
    match O.analyze x.2.1 (O.decode x.2.2) with
    | .error e => ([keyOf x], .error e)
    | .ok ms =>
      (keyOf x :: (runSel O r).1,
        match (runSel O r).2 with
        | .ok es => .ok (entryOf O x.1 x.2.2 x.2.1 ms :: es)
        | .error e => .error e)

/-- `Codebase.files` holding these entries -/
def asDict (es : List FileEntry) : List (Str × FileEntry) := es.map (fun e => (e.path, e))

theorem dictSet_fresh {β : Type} {d : List (Str × β)} {k : Str} (v : β) (h : k ∉ d.map (·.1)) :
    dictSet d k v = d ++ [(k, v)] := by
  have : d.any (fun kv => kv.1 == k) = false := by
    rw [Bool.eq_false_iff]
    intro ha
    obtain ⟨kv, hm, hk⟩ := List.any_eq_true.1 ha
    exact h (List.mem_map.2 ⟨kv, hm, by simpa using hk⟩)
  simp [dictSet, this]

theorem scan_run (O : Oracles) : ∀ (sel : List (List Str × Nat × Str)) (st : ScanSt),
    (sel.map keyOf).Nodup → (∀ x ∈ sel, keyOf x ∉ st.files.map (·.1)) →
    (forE (fun (x : List Str × Nat × Str) s => scanFile O x.1 x.2.1 x.2.2 s) sel st).1.analysed
        = st.analysed ++ (runSel O sel).1 ∧
    (match (runSel O sel).2 with
     | .ok es =>
        (forE (fun (x : List Str × Nat × Str) s => scanFile O x.1 x.2.1 x.2.2 s) sel st).2 = none ∧
        (forE (fun (x : List Str × Nat × Str) s => scanFile O x.1 x.2.1 x.2.2 s) sel st).1.files
          = st.files ++ asDict es
     | .error e =>
        (forE (fun (x : List Str × Nat × Str) s => scanFile O x.1 x.2.1 x.2.2 s) sel st).2 = some e)
  | [], st, _, _ => by simp [forE, runSel, asDict]
  | x :: r, st, hnd, hdis => by
    simp only [List.map_cons, List.nodup_cons] at hnd
    rcases ha : O.analyze x.2.1 (O.decode x.2.2) with e | ms
    · simp [forE, runSel, scanFile, analyzeFile, ha, keyOf]
    · have hfresh : keyOf x ∉ st.files.map (·.1) := hdis x (by simp)
      have step : scanFile O x.1 x.2.1 x.2.2 st =
          (⟨st.analysed ++ [keyOf x], st.files ++ [(keyOf x, entryOf O x.1 x.2.2 x.2.1 ms)]⟩, none) := by
        simp only [scanFile, analyzeFile, ha, keyOf, entryOf]
        rw [dictSet_fresh _ (by simpa [keyOf] using hfresh)]
      have ih := scan_run O r ⟨st.analysed ++ [keyOf x], st.files ++ [(keyOf x, entryOf O x.1 x.2.2 x.2.1 ms)]⟩
        hnd.2 (by
          intro y hy
          simp only [List.map_append, List.map_cons, List.map_nil, List.mem_append, List.mem_singleton,
            not_or]
          refine ⟨hdis y (List.mem_cons_of_mem _ hy), fun e => hnd.1 ?_⟩
          exact List.mem_map.2 ⟨y, hy, e⟩)
      simp only [forE, step, runSel, ha]
      refine ⟨by simp [ih.1], ?_⟩
      have ih2 := ih.2
      rcases hr : (runSel O r).2 with e | es
      · simp only [hr] at ih2 ⊢; exact ih2
      · simp only [hr] at ih2 ⊢
        exact ⟨ih2.1, by rw [ih2.2]; simp [asDict, entryOf, keyOf]⟩

/-- **`scan_path` on a well-formed tree** is the sequential analysis of the selection; nothing is
overwritten in `Codebase.files` -/
theorem scanPath_eq (O : Oracles) (rn : Str) (ch : List Node) (h : wfDir ch = true) :
    scanPath O (.dir rn ch) =
      ⟨(runSel O (selection O ch)).1,
        match (runSel O (selection O ch)).2 with
        | .ok es => .ok (asDict es)
        | .error e => .error e⟩ := by
  have hrun := scan_run O (selection O ch) ⟨[], []⟩ (nodup_keys_selection h) (by simp)
  have hflat := scan_loops_flat O [] ch ⟨[], []⟩
  simp only [scanPath]
  change (match forE (scanDirBody O) (walkTop keepV [] ch) ⟨[], []⟩ with
    | (st, none) => (⟨st.analysed, .ok st.files⟩ : ScanOut)
    | (st, some e) => ⟨st.analysed, .error e⟩) = _
  rw [hflat]
  change _ = _ at hflat
  simp only [selection] at hrun ⊢
  generalize forE (fun (x : List Str × Nat × Str) s => scanFile O x.1 x.2.1 x.2.2 s)
    (List.filterMap (passes O) (cands [] ch)) ⟨[], []⟩ = out at hrun
  obtain ⟨st, err⟩ := out
  simp only [List.nil_append] at hrun
  rcases hr : (runSel O (List.filterMap (passes O) (cands [] ch))).2 with e | es
  · simp only [hr] at hrun
    obtain ⟨h1, h2⟩ := hrun
    subst h2
    simp [h1]
  · simp only [hr] at hrun
    obtain ⟨h1, h2, h3⟩ := hrun
    subst h2
    simp [h1, h3]

/-! ## what the sequential analysis returns -/

/-- `_analyze_file` on one item of the selection -/
def analysisOf (O : Oracles) (x : List Str × Nat × Str) : Except Err FileEntry :=
  analyzeFile O (keyOf x) (O.checksum x.2.2) x.2.1 x.2.2

theorem analysisOf_ok {O : Oracles} {x : List Str × Nat × Str} {e : FileEntry} :
    analysisOf O x = .ok e ↔ ∃ ms, O.analyze x.2.1 (O.decode x.2.2) = .ok ms ∧ e = entryOf O x.1 x.2.2 x.2.1 ms := by
  simp only [analysisOf, analyzeFile, entryOf, keyOf]
  rcases O.analyze x.2.1 (O.decode x.2.2) with e' | ms
  · simp
  · simp [eq_comm]

theorem analysisOf_error {O : Oracles} {x : List Str × Nat × Str} {e : Err} :
    analysisOf O x = .error e ↔ O.analyze x.2.1 (O.decode x.2.2) = .error e := by
  simp only [analysisOf, analyzeFile]
  rcases O.analyze x.2.1 (O.decode x.2.2) with e' | ms <;> simp

/-- success: every item was analysed, in order, and the entries are the analyses -/
theorem runSel_ok {O : Oracles} : ∀ {sel : List (List Str × Nat × Str)} {es : List FileEntry},
    (runSel O sel).2 = .ok es →
      (runSel O sel).1 = sel.map keyOf ∧ sel.map (analysisOf O) = es.map Except.ok ∧
        es.map (·.path) = sel.map keyOf
  | [], es, h => by simp [runSel] at h; subst h; simp [runSel]
  | x :: r, es, h => by
    simp only [runSel] at h ⊢
    rcases ha : O.analyze x.2.1 (O.decode x.2.2) with e | ms
    · simp [ha] at h
    · simp only [ha] at h ⊢
      rcases hr : (runSel O r).2 with e | es'
      · simp [hr] at h
      · simp only [hr, Except.ok.injEq] at h
        subst h
        obtain ⟨h1, h2, h3⟩ := runSel_ok hr
        refine ⟨by simp [h1], ?_, by simp [h3, entryOf, keyOf]⟩
        simp only [List.map_cons, h2, List.cons.injEq, and_true]
        exact analysisOf_ok.2 ⟨ms, ha, rfl⟩

/-- failure: the analysis of some item raised, everything before it succeeded, nothing after it
was analysed -/
theorem runSel_error {O : Oracles} : ∀ {sel : List (List Str × Nat × Str)} {e : Err},
    (runSel O sel).2 = .error e →
      ∃ pre x post, sel = pre ++ x :: post ∧ (∀ y ∈ pre, ∃ en, analysisOf O y = .ok en) ∧
        analysisOf O x = .error e ∧ (runSel O sel).1 = (pre ++ [x]).map keyOf
  | [], e, h => by simp [runSel] at h
  | x :: r, e, h => by
    simp only [runSel] at h ⊢
    rcases ha : O.analyze x.2.1 (O.decode x.2.2) with e' | ms
    · simp only [ha, Except.error.injEq] at h
      subst h
      exact ⟨[], x, r, rfl, by simp, analysisOf_error.2 ha, by simp⟩
    · simp only [ha] at h ⊢
      rcases hr : (runSel O r).2 with e' | es'
      · simp only [hr, Except.error.injEq] at h
        subst h
        obtain ⟨pre, y, post, rfl, h1, h2, h3⟩ := runSel_error hr
        refine ⟨x :: pre, y, post, rfl, ?_, h2, by simp [h3]⟩
        intro z hz
        rcases List.mem_cons.1 hz with rfl | hz
        · exact ⟨_, analysisOf_ok.2 ⟨ms, ha, rfl⟩⟩
        · exact h1 z hz
      · simp [hr] at h

/-- the paths handed to `_analyze_file` are always an initial segment of the selection's keys -/
theorem runSel_analysed_prefix (O : Oracles) (sel : List (List Str × Nat × Str)) :
    (runSel O sel).1 <+: sel.map keyOf := by
  rcases hr : (runSel O sel).2 with e | es
  · obtain ⟨pre, x, post, rfl, _, _, h⟩ := runSel_error hr
    rw [h]
    exact ⟨post.map keyOf, by simp⟩
  · rw [(runSel_ok hr).1]
    exact List.prefix_refl _

theorem runSel_total {O : Oracles} : ∀ {sel : List (List Str × Nat × Str)},
    (∀ x ∈ sel, ∃ en, analysisOf O x = .ok en) → ∃ es, (runSel O sel).2 = .ok es := by
  intro sel h
  rcases hr : (runSel O sel).2 with e | es
  · obtain ⟨pre, x, post, rfl, _, h2, _⟩ := runSel_error hr
    obtain ⟨en, hen⟩ := h x (by simp)
    rw [hen] at h2
    cases h2
  · exact ⟨es, rfl⟩

/-! ## helpers for the property files -/

theorem mem_of_map_ok {α : Type} {sel : List α} {f : α → Except Err FileEntry} {es : List FileEntry}
    (h : sel.map f = es.map Except.ok) (e : FileEntry) : e ∈ es ↔ ∃ x ∈ sel, f x = .ok e := by
  have : (Except.ok e : Except Err FileEntry) ∈ es.map Except.ok ↔ e ∈ es := by simp
  rw [← this, ← h, List.mem_map]

/-- a path of a well-formed tree leads to one file -/
theorem fileAt_functional {ch : List Node} {p : List Str} {c c' : Str} (hwf : wfDir ch = true)
    (h : FileAt ch p c) (h' : FileAt ch p c') : c = c' := by
  induction h with
  | here hm =>
    cases h' with
    | here hm' => simpa using wfDir_unique hwf hm hm' rfl
    | under _ hf => exact absurd rfl hf.ne_nil
  | under hm hf ih =>
    cases h' with
    | here _ => exact absurd rfl hf.ne_nil
    | under hm' hf' =>
      have := wfDir_unique hwf hm hm' rfl
      simp only [Node.dir.injEq, true_and] at this
      subst this
      have hsub := wfDir_mem hwf hm
      simp only [Node.wf, Bool.and_eq_true] at hsub
      exact ih hsub.2 hf'

/-- a successful scan holds the sequential analyses of the selection -/
theorem entries_of_ok (O : Oracles) (rn : Str) (ch : List Node) (hwf : wfDir ch = true) {files : List (Str × FileEntry)}
    (h : (scanPath O (.dir rn ch)).result = .ok files) :
    ∃ es, files = asDict es ∧ (runSel O (selection O ch)).2 = .ok es := by
  rw [scanPath_eq O rn ch hwf] at h
  rcases hr : (runSel O (selection O ch)).2 with e | es
  · simp [hr] at h
  · simp only [hr, Except.ok.injEq] at h
    exact ⟨es, h.symm, rfl⟩

end CL.Sel
