import CodeLimit.Lemmas.TokenNestBasic
import CodeLimit.Lemmas.TokenNestMap
/-!
# The object model is a conservative extension of `Model/Token.lean`

For a table all of whose labels satisfy `Pred.topOk` (every `Balanced` is the top node of its
predicate and has stateless operands) the machine over predicate objects (`nestAcceptor`) and
the machine of `Model/Token.lean` (`tokAcceptor`) are bisimilar: related configurations are in
the same table state, and the attempt's copy of every predicate `p` is the object `p` with
the depth that `tokAcceptor` stores for `p`.
-/
namespace CL

/-- the copies held by the object machine are the objects described by the depth map -/
def CopiesOf (ds : Depths) (cs : Copies) : Prop :=
  ∀ p : Pred, p.topOk = true → getCopy cs p.emb = p.embD (getDepth ds p)

theorem copiesOf_init : CopiesOf [] [] := by
  intro p _
  rw [getCopy_nil, getDepth_nil, Pred.embD_zero]

theorem copiesOf_accept {ds : Depths} {cs : Copies} (h : CopiesOf ds cs) {p : Pred}
    (hp : p.topOk = true) (x : Tok) :
    (acceptCopy p.emb cs x).1 = (acceptTok p ds x).1 ∧
      CopiesOf (acceptTok p ds x).2 (acceptCopy p.emb cs x).2 := by
  have e := acceptNest_embD hp ds x
  refine ⟨?_, ?_⟩
  · rw [acceptCopy_fst, h p hp, e]
  · intro q hq
    rw [getCopy_acceptCopy, h p hp, e]
    by_cases hqp : q = p
    · subst hqp; simp
    · have : q.emb ≠ p.emb := fun h' => hqp (Pred.emb_injective h')
      rw [if_neg this, h q hq, getDepth_acceptTok, if_neg hqp]

def NestRel (q : DState × Depths) (q' : DState × Copies) : Prop :=
  q.1 = q'.1 ∧ CopiesOf q.2 q'.2

theorem consumeAux_nest_rel (x : Tok) (row : List (Pred × DState))
    (hrow : ∀ pt ∈ row, pt.1.topOk = true) :
    ∀ (f : Option DState) (ds : Depths) (cs : Copies), CopiesOf ds cs →
      ExRel (fun a b => a.1 = b.1 ∧ CopiesOf a.2 b.2)
        (consumeAux tokAcceptor x row f ds)
        (consumeAux nestAcceptor x (row.map (fun pt => (pt.1.emb, pt.2))) f cs) := by
  induction row with
  | nil => intro f ds cs h; exact ⟨rfl, h⟩
  | cons pt rest ih =>
    intro f ds cs h
    obtain ⟨p, t⟩ := pt
    have hp : p.topOk = true := hrow (p, t) (List.mem_cons_self ..)
    have hrest : ∀ pt ∈ rest, pt.1.topOk = true := fun pt hm => hrow pt (List.mem_cons_of_mem _ hm)
    obtain ⟨h1, h2⟩ := copiesOf_accept h hp x
    simp only [List.map_cons, consumeAux]
    have e1 : (nestAcceptor.accept p.emb cs x).1 = (tokAcceptor.accept p ds x).1 := h1
    rw [e1]
    split
    · split
      · exact rfl
      · exact ih hrest _ _ _ h2
    · exact ih hrest _ _ _ h2

/-- the two machines are bisimilar -/
theorem nest_bisim (D : Dfa Pred) (hok : ∀ s, ∀ pt ∈ D.row s, pt.1.topOk = true) :
    Bisim (dfaMachine D tokAcceptor) (dfaMachine (D.map Pred.emb) nestAcceptor) NestRel where
  init := ⟨rfl, copiesOf_init⟩
  acc := by
    rintro ⟨s, ds⟩ ⟨s', cs⟩ ⟨h, _⟩
    simp only at h; subst h
    rfl
  dead := by
    rintro ⟨s, ds⟩ ⟨s', cs⟩ ⟨h, _⟩
    simp only at h; subst h
    simp only [dfaMachine, Dfa.map_row]
    cases D.row s <;> rfl
  step := by
    rintro ⟨s, ds⟩ ⟨s', cs⟩ x ⟨h, hc⟩
    simp only at h hc; subst h
    have hrel := consumeAux_nest_rel x (D.row s) (hok s) none ds cs hc
    simp only [dfaMachine, consume, Dfa.map_row]
    rcases h1 : consumeAux tokAcceptor x (D.row s) none ds with e | ⟨o, ds'⟩ <;>
      rcases h2 : consumeAux nestAcceptor x ((D.row s).map (fun pt => (pt.1.emb, pt.2))) none cs
        with e' | ⟨o', cs'⟩ <;>
      rw [h1, h2] at hrel <;> simp only [ExRel] at hrel <;> simp only [h2, ExRel]
    · exact hrel
    · obtain ⟨ho, hc'⟩ := hrel
      have ho' : o = o' := ho
      have hc'' : CopiesOf ds' cs' := hc'
      subst ho'
      cases o with
      | none => trivial
      | some t => exact ⟨rfl, hc''⟩

/-- compiling the expression over objects gives the table of `Model/Token.lean` with every
label replaced by its object -/
theorem compileNest_map_emb (r : Rx Pred) :
    compileNest (r.map Pred.emb) = (compileTok r).map (Dfa.map Pred.emb) := by
  unfold compileNest compileTok
  rw [nfaToDfa_map (f := Pred.emb) (fun a b h => Pred.emb_injective h) r 1 (ord := id)
    (ord' := id) (fun _ => rfl)]
  cases nfaToDfa (compile r 1) id <;> rfl

/-- `find_all` of the model of `Model/Token.lean`, from the expression -/
def findAllTok (r : Rx Pred) (toks : List Tok) : Except Err (List (Match Tok)) :=
  match compileTok r with
  | .error e => .error e
  | .ok D => findAll (dfaMachine D tokAcceptor) toks

theorem compileTok_labels {r : Rx Pred} {D : Dfa Pred} (hD : compileTok r = .ok D) (s : DState) :
    ∀ pt ∈ D.row s, pt.1 ∈ r.atoms := by
  unfold compileTok at hD
  split at hD
  · rename_i D0 h0
    cases hD
    exact row_label_atom isOrder_id h0 s
  · cases hD

/-- transfer: on expressions whose predicates are all `topOk`, `find_all` over predicate
objects returns exactly what the model of `Model/Token.lean` returns (matches or error) -/
theorem findAllNest_emb (r : Rx Pred) (hr : ∀ p ∈ r.atoms, p.topOk = true) (toks : List Tok) :
    findAllNest (r.map Pred.emb) toks = findAllTok r toks := by
  unfold findAllNest findAllTok
  rw [compileNest_map_emb]
  cases hD : compileTok r with
  | error e => rfl
  | ok D =>
    simp only [Except.map]
    exact (findAll_bisim (nest_bisim D (fun s pt hpt => hr _ (compileTok_labels hD s pt hpt)))
      toks).symm

end CL
