import CodeLimit.Spec.PyLayout
import CodeLimit.Lemmas.ScanBoundsOrder
/-!
# Stage C of C01, part 1: `_get_token_lines` computes the logical lines of the specification

`tokenLines code` is a segmentation of the token indices `0 .. code.length` into consecutive
lines; a line `[a, b)` begins with index `a`, ends with index `b - 1`, contains exactly the
indices `a ≤ x < b` (an index is listed twice after a continuation token), `startsLine code a`
holds and no index strictly inside begins a logical line (`LineSeg`, `tokenLines_seg`).
-/
namespace CL

theorem Tok.continuesLine_eq (t : Tok) :
    t.continuesLine = (endsWithContinuation t.val || (t.isString && [10].isSuffixOf t.val)) := rfl

/-! ## `startsLine`, `lineStartOf` -/

theorem startsLine_succ {code : List Tok} {i : Nat} {p t : Tok} (hp : code[i]? = some p)
    (ht : code[i + 1]? = some t) :
    startsLine code (i + 1) = (t.line != p.line && !(p.continuesLine && !startsLine code i)) := by
  rw [startsLine, hp, ht]

theorem startsLine_lineStartOf (code : List Tok) : ∀ i, startsLine code (lineStartOf code i) = true
  | 0 => rfl
  | i + 1 => by
    unfold lineStartOf
    split
    · assumption
    · exact startsLine_lineStartOf code i

theorem lineStartOf_le (code : List Tok) : ∀ i, lineStartOf code i ≤ i
  | 0 => Nat.le_refl _
  | i + 1 => by
    unfold lineStartOf
    split
    · exact Nat.le_refl _
    · exact Nat.le_succ_of_le (lineStartOf_le code i)

/-- a line start at or before `i` is at or before the start of the line of `i` -/
theorem le_lineStartOf {code : List Tok} {a : Nat} (ha : startsLine code a = true) :
    ∀ i, a ≤ i → a ≤ lineStartOf code i
  | 0, h => by simp [lineStartOf]; omega
  | i + 1, h => by
    unfold lineStartOf
    split
    · exact h
    · next hns =>
      have : a ≠ i + 1 := fun e => hns (e ▸ ha)
      exact le_lineStartOf ha i (by omega)

/-- the start of the line of `i`, from the description "a line start with no line start between
it and `i`" -/
theorem lineStartOf_eq {code : List Tok} {a : Nat} (ha : startsLine code a = true) :
    ∀ i, a ≤ i → (∀ j, a < j → j ≤ i → startsLine code j = false) → lineStartOf code i = a
  | 0, h, _ => by simp [lineStartOf]; omega
  | i + 1, h, hin => by
    rcases Nat.lt_or_ge a (i + 1) with hlt | hge
    · unfold lineStartOf
      rw [if_neg (by rw [hin (i + 1) hlt (Nat.le_refl _)]; simp)]
      exact lineStartOf_eq ha i (by omega) (fun j h1 h2 => hin j h1 (by omega))
    · have : a = i + 1 := by omega
      subst this
      unfold lineStartOf
      rw [if_pos ha]

/-! ## lines and segmentations -/

/- `LineOf`, `LineSeg` (one logical line / consecutive logical lines as lists of token indices) are
vocabulary of `C01py.token_lines_logical`: `Spec/PyLayout.lean`. -/

theorem LineOf.ne_nil {code : List Tok} {a b : Nat} {l : List Nat} (h : LineOf code a b l) :
    l ≠ [] := by
  intro e; have := h.head; rw [e] at this; cases this

theorem LineSeg.le {code : List Tok} {a c : Nat} {ls : List (List Nat)} (h : LineSeg code a c ls) :
    a ≤ c := by
  induction h with
  | nil => exact Nat.le_refl _
  | cons hl _ ih => have := hl.lt; omega

theorem LineSeg.eq_or_lt {code : List Tok} {a c : Nat} {ls : List (List Nat)} (h : LineSeg code a c ls) :
    (a = c ∧ ls = []) ∨ (a < c ∧ ls ≠ []) := by
  cases h with
  | nil => exact .inl ⟨rfl, rfl⟩
  | cons hl hs => have := hl.lt; have := hs.le; exact .inr ⟨by omega, by simp⟩

theorem LineSeg.cons_inv {code : List Tok} {a c : Nat} {l : List Nat} {ls : List (List Nat)}
    (h : LineSeg code a c (l :: ls)) : ∃ b, LineOf code a b l ∧ LineSeg code b c ls := by
  generalize e : l :: ls = ls' at h
  cases h with
  | nil => cases e
  | cons hl hs => cases e; exact ⟨_, hl, hs⟩

theorem LineSeg.snoc {code : List Tok} {a b c : Nat} {ls : List (List Nat)} {l : List Nat}
    (h : LineSeg code a b ls) (hl : LineOf code b c l) : LineSeg code a c (ls ++ [l]) := by
  induction h with
  | nil => exact .cons hl (.nil _)
  | cons hl' _ ih => exact .cons hl' (ih hl)

theorem LineSeg.append {code : List Tok} {a b c : Nat} {l1 l2 : List (List Nat)}
    (h1 : LineSeg code a b l1) (h2 : LineSeg code b c l2) : LineSeg code a c (l1 ++ l2) := by
  induction h1 with
  | nil => exact h2
  | cons hl' _ ih => exact .cons hl' (ih h2)

/-- every line of a segmentation is a line `[a', b')` inside the segment -/
theorem LineSeg.line_of_mem {code : List Tok} {a c : Nat} {ls : List (List Nat)} (h : LineSeg code a c ls)
    {l : List Nat} (hl : l ∈ ls) : ∃ a' b', a ≤ a' ∧ b' ≤ c ∧ LineOf code a' b' l := by
  induction h with
  | nil => cases hl
  | @cons a b c l0 ls hl0 hs ih =>
    rcases List.mem_cons.1 hl with rfl | hl
    · exact ⟨a, b, Nat.le_refl _, hs.le, hl0⟩
    · obtain ⟨a', b', h1, h2, h3⟩ := ih hl
      exact ⟨a', b', by have := hl0.lt; omega, h2, h3⟩

/-- a segmentation can be cut at every line start (and at its end) -/
theorem LineSeg.split {code : List Tok} {a c : Nat} {ls : List (List Nat)} (h : LineSeg code a c ls)
    {b : Nat} (hab : a ≤ b) (hbc : b ≤ c) (hb : b = c ∨ startsLine code b = true) :
    ∃ l1 l2, ls = l1 ++ l2 ∧ LineSeg code a b l1 ∧ LineSeg code b c l2 := by
  induction h with
  | nil a =>
    have : b = a := by omega
    subst this
    exact ⟨[], [], rfl, .nil _, .nil _⟩
  | @cons a b' c l ls hl hs ih =>
    rcases Nat.eq_or_lt_of_le hab with rfl | hlt
    · exact ⟨[], l :: ls, rfl, .nil _, .cons hl hs⟩
    · have hb' : b' ≤ b := by
        rcases Nat.lt_or_ge b b' with hlt' | hge
        · have h1 := hl.inner b hlt hlt'
          have := hs.le
          rcases hb with rfl | hb
          · omega
          · rw [h1] at hb; cases hb
        · exact hge
      obtain ⟨l1, l2, e, s1, s2⟩ := ih hb' hbc hb
      exact ⟨l :: l1, l2, by rw [e]; rfl, .cons hl s1, s2⟩

/-- the first and the last index of a non-empty segmentation -/
theorem LineSeg.head_last {code : List Tok} {a c : Nat} {ls : List (List Nat)} (h : LineSeg code a c ls)
    (hac : a < c) : ls.flatten.head? = some a ∧ ls.flatten.getLast? = some (c - 1) := by
  induction h with
  | nil => omega
  | @cons a b c l ls hl hs ih =>
    have hne := hl.ne_nil
    refine ⟨?_, ?_⟩
    · rw [List.flatten_cons, List.head?_append_of_ne_nil _ hne]; exact hl.head
    · rcases hs.eq_or_lt with ⟨rfl, rfl⟩ | ⟨hlt, _⟩
      · simpa using hl.last
      · obtain ⟨h1, h2⟩ := ih hlt
        have hne' : ls.flatten ≠ [] := by
          intro e; rw [e] at h1; cases h1
        rw [List.flatten_cons, List.getLast?_append_of_ne_nil _ hne']
        exact h2

/-- the first line of the segmentation that contains `i` is the logical line of `i` -/
theorem LineSeg.find {code : List Tok} {a c : Nat} {ls : List (List Nat)} (h : LineSeg code a c ls)
    {i : Nat} (hai : a ≤ i) (hic : i < c) :
    ∃ l a' b', ls.find? (fun l => l.contains i) = some l ∧ LineOf code a' b' l ∧ a' ≤ i ∧ i < b' := by
  induction h with
  | nil => omega
  | @cons a b c l ls hl hs ih =>
    rcases Nat.lt_or_ge i b with hlt | hge
    · refine ⟨l, a, b, ?_, hl, hai, hlt⟩
      rw [List.find?_cons_of_pos]
      simpa using (hl.mem i).2 ⟨hai, hlt⟩
    · obtain ⟨l', a', b', h1, h2, h3, h4⟩ := ih hge hic
      refine ⟨l', a', b', ?_, h2, h3, h4⟩
      rw [List.find?_cons_of_neg]
      · exact h1
      · simp only [List.contains_iff_mem]
        intro hm
        have := (hl.mem i).1 hm
        omega

/-! ## the loop of `_get_token_lines` -/

/-- the state after the tokens `0 .. k` have been processed -/
structure StInv (code : List Tok) (k : Nat) (st : LineSt) : Prop where
  ex : ∃ a, LineSeg code 0 a st.done.reverse ∧ LineOf code a (k + 1) st.cur.reverse
  lineNr : st.lineNr = lineNo code k
  cont : st.cont = ((code[k]?.map (·.continuesLine)).getD false && !startsLine code k)

theorem LineOf.extend {code : List Tok} {a b : Nat} {l : List Nat} (h : LineOf code a b l)
    (hb : startsLine code b = false) {ext : List Nat} (hne : ext ≠ [])
    (hext : ∀ x ∈ ext, x = b) : LineOf code a (b + 1) (l ++ ext) := by
  have := h.lt
  refine ⟨by omega, h.start, ?_, ?_, ?_, ?_⟩
  · intro j h1 h2
    rcases Nat.lt_or_ge j b with hlt | hge
    · exact h.inner j h1 hlt
    · have : j = b := by omega
      subst this; exact hb
  · rw [List.head?_append_of_ne_nil _ h.ne_nil]; exact h.head
  · rw [List.getLast?_append_of_ne_nil _ hne]
    cases hg : ext.getLast? with
    | none => exact absurd (List.getLast?_eq_none_iff.1 hg) hne
    | some x =>
      have := hext x (List.mem_of_mem_getLast? hg)
      subst this; simp
  · intro x
    rw [List.mem_append, h.mem]
    constructor
    · rintro (⟨h1, h2⟩ | h1)
      · omega
      · have := hext x h1; omega
    · intro ⟨h1, h2⟩
      rcases Nat.lt_or_ge x b with hlt | hge
      · exact .inl ⟨h1, hlt⟩
      · have hx : x = b := by omega
        right
        cases ext with
        | nil => exact absurd rfl hne
        | cons y ys =>
          have := hext y List.mem_cons_self
          rw [hx, ← this]; exact List.mem_cons_self

theorem LineOf.single {code : List Tok} {a : Nat} (h : startsLine code a = true) :
    LineOf code a (a + 1) [a] :=
  ⟨by omega, h, fun j h1 h2 => by omega, rfl, by simp, fun x => by simp; omega⟩

theorem StInv.step {code : List Tok} {k : Nat} {st : LineSt} (h : StInv code k st) {p t : Tok}
    (hp : code[k]? = some p) (ht : code[k + 1]? = some t) :
    StInv code (k + 1) (tokenLinesStep st (k + 1) t) := by
  obtain ⟨done, cur, cont, ln⟩ := st
  obtain ⟨⟨a, hseg, hline⟩, hln, hcont⟩ := h
  simp only at hseg hline hln hcont
  have hsl := startsLine_succ hp ht
  simp only [hp, Option.map_some, Option.getD_some] at hcont
  have hln' : ln = p.line := by rw [hln, lineNo, hp]; rfl
  have hcur : cur ≠ [] := by
    intro e; have := hline.ne_nil; rw [e] at this; exact this rfl
  have hemp : cur.isEmpty = false := by
    cases cur with
    | nil => exact absurd rfl hcur
    | cons _ _ => rfl
  have hlt : lineNo code (k + 1) = t.line := by rw [lineNo, ht]; rfl
  unfold tokenLinesStep
  simp only [hemp, Bool.false_eq_true, if_false]
  cases cont with
  | true =>
    -- the previous token continues the line: the index is appended twice
    have hns : startsLine code (k + 1) = false := by rw [hsl, ← hcont]; simp
    simp only [if_true, beq_self_eq_true, Bool.false_or]
    refine ⟨⟨a, hseg, ?_⟩, hlt.symm, ?_⟩
    · simp only [List.reverse_cons, List.append_assoc]
      exact hline.extend hns (by simp) (by simp)
    · simp only [ht, Option.map_some, Option.getD_some, hns, Bool.not_false, Bool.and_true]
      rfl
  | false =>
    simp only [Bool.false_eq_true, if_false]
    by_cases hsame : (t.line == ln) = true
    · have hns : startsLine code (k + 1) = false := by
        rw [hsl]
        have : t.line = p.line := by rw [← hln']; exact eq_of_beq hsame
        simp [this]
      simp only [hsame, if_true, Bool.false_or]
      refine ⟨⟨a, hseg, ?_⟩, ?_, ?_⟩
      · simp only [List.reverse_cons]
        exact hline.extend hns (by simp) (by simp)
      · simp only [hlt]; exact (eq_of_beq hsame).symm
      · simp only [ht, Option.map_some, Option.getD_some, hns, Bool.not_false, Bool.and_true]
        rfl
    · have hs : startsLine code (k + 1) = true := by
        rw [hsl, ← hcont]
        have : ¬ t.line = p.line := by
          rw [← hln']; intro e; exact hsame (by rw [e]; exact beq_self_eq_true _)
        simp [this]
      simp only [hsame, Bool.false_eq_true, if_false]
      refine ⟨⟨k + 1, ?_, ?_⟩, hlt.symm, ?_⟩
      · simp only [List.reverse_cons]
        exact hseg.snoc hline
      · exact LineOf.single hs
      · simp [hs]

theorem tokenLines_foldl_inv {code : List Tok} :
    ∀ (ts pre : List Tok) (st : LineSt), code = pre ++ ts → pre ≠ [] →
      StInv code (pre.length - 1) st →
      StInv code (code.length - 1)
        ((ts.zipIdx pre.length).foldl (fun st (p : Tok × Nat) => tokenLinesStep st p.2 p.1) st)
  | [], pre, st, hc, _, h => by
    subst hc
    simpa using h
  | t :: ts, pre, st, hc, hne, h => by
    have hlen : 0 < pre.length := List.length_pos_iff.2 hne
    have hp : code[pre.length - 1]? = some (pre[pre.length - 1]'(by omega)) := by
      rw [hc, List.getElem?_append_left (by omega), List.getElem?_eq_getElem]
    have ht : code[pre.length - 1 + 1]? = some t := by
      rw [hc, show pre.length - 1 + 1 = pre.length by omega,
        List.getElem?_append_right (Nat.le_refl _)]
      simp
    have hstep := h.step hp ht
    rw [show pre.length - 1 + 1 = pre.length by omega] at hstep
    have := tokenLines_foldl_inv (code := code) ts (pre ++ [t]) (tokenLinesStep st pre.length t)
      (by rw [hc]; simp) (by simp) (by simpa using hstep)
    simpa using this

/-- **`_get_token_lines` computes the logical lines.** -/
theorem tokenLines_seg (code : List Tok) : LineSeg code 0 code.length (tokenLines code) := by
  cases code with
  | nil => exact .nil _
  | cons t ts =>
    have h0 : StInv (t :: ts) 0 (tokenLinesStep ⟨[], [], false, 0⟩ 0 t) := by
      refine ⟨⟨0, .nil _, LineOf.single rfl⟩, ?_, ?_⟩
      · simp [tokenLinesStep, lineNo]
      · simp [tokenLinesStep, startsLine]
    have := tokenLines_foldl_inv (code := t :: ts) ts [t] _ rfl (by simp) (by simpa using h0)
    obtain ⟨⟨a, hseg, hline⟩, _, _⟩ := this
    have hne := hline.ne_nil
    unfold tokenLines
    simp only [List.zipIdx_cons, List.foldl_cons, Nat.zero_add]
    simp only [List.length_cons, List.length_nil, Nat.zero_add] at hseg hline
    generalize List.foldl (fun st (x : Tok × Nat) => tokenLinesStep st x.2 x.1)
      (tokenLinesStep ⟨[], [], false, 0⟩ 0 t) (ts.zipIdx 1) = st at hseg hline hne
    have hemp : st.cur.isEmpty = false := by
      cases hc : st.cur with
      | nil => rw [hc] at hne; exact absurd rfl hne
      | cons _ _ => rfl
    simp only [hemp, Bool.false_eq_true, if_false, List.reverse_cons]
    have := hseg.snoc hline
    simpa using this

end CL
