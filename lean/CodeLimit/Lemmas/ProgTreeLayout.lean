import CodeLimit.Lemmas.ProgTreeBlocks
import CodeLimit.Lemmas.ScanBoundsBlocks
/-!
# Program trees: the token sequence of a well-formed forest is a canonical `Layout`

`FnLayout` comes from the invariant `TInv`, the block clauses from `get_blocks`
(`getBlocks_prog`, `getBlocks_spec_L`); `no_adjacent` is proved at token level: a block starts
with `{`, and the token after the closing brace of a function is never `{`.
-/
namespace CL

theorem Seg.getElem?_zero {α : Type} {code : List α} {i : Nat} {a : α} {l : List α}
    (h : Seg code i (a :: l)) : code[i]? = some a := (Seg.cons_iff.mp h).1

/-- the first token of a well-formed forest that does not start with a group is not `{` -/
theorem first_not_open {code : List Tok} : ∀ (p : Prog Tok) (j : Nat), p.wf = true →
    p.startsWithGroup = false → Seg code j p.flat →
    (∀ t, code[j + p.size]? = some t → t.isSymbol [123] = false) →
    ∀ t, code[j]? = some t → t.isSymbol [123] = false
  | .nil, j, _, _, _, hnext, t, ht => hnext t (by simpa [Prog.size] using ht)
  | .leaf t' rest, j, h, _, hseg, _, t, ht => by
    simp only [Prog.wf, Bool.and_eq_true] at h
    rw [Prog.flat, Seg.cons_iff] at hseg
    rw [hseg.1] at ht; cases ht
    exact (Tok.noBrace_iff.mp h.1).1
  | .group .., _, _, hg, _, _, _, _ => by cases hg
  | .fn hdr k gap op cl body rest, j, h, _, hseg, _, t, ht => by
    simp only [Prog.wf, Bool.and_eq_true, decide_eq_true_eq] at h
    obtain ⟨⟨⟨⟨⟨⟨⟨⟨⟨⟨hsl, hnf⟩, hwh⟩, hk⟩, hnm⟩, hgap⟩, hop⟩, hcl⟩, hwb⟩, hadj⟩, hwr⟩ := h
    cases hdr with
    | leaf t' hrest =>
      simp only [Prog.wf, Bool.and_eq_true] at hwh
      simp only [Prog.flat, List.cons_append] at hseg
      rw [Seg.cons_iff] at hseg
      rw [hseg.1] at ht; cases ht
      exact (Tok.noBrace_iff.mp hwh.1).1
    | nil => cases hsl
    | group => cases hsl
    | fn => cases hsl

/-- the token directly after the closing brace of a function of a well-formed forest is not `{`,
provided the token after the forest is not -/
theorem fn_end_not_open {code : List Tok} : ∀ (p : Prog Tok) (i : Nat), p.wf = true →
    Seg code i p.flat → (∀ t, code[i + p.size]? = some t → t.isSymbol [123] = false) →
    ∀ f ∈ fnsOf p i, ∀ t, code[f.body.e]? = some t → t.isSymbol [123] = false
  | .nil, _, _, _, _, f, hf => by cases hf
  | .leaf _ rest, i, h, hseg, hnext, f, hf => by
    simp only [Prog.wf, Bool.and_eq_true] at h
    rw [Prog.flat, Seg.cons_iff] at hseg
    refine fn_end_not_open rest (i + 1) h.2 hseg.2 ?_ f hf
    intro t ht
    exact hnext t (by rw [← ht]; congr 1; simp only [Prog.size]; omega)
  | .group op cl items rest, i, h, hseg, hnext, f, hf => by
    simp only [Prog.wf, Bool.and_eq_true] at h
    obtain ⟨⟨⟨hop, hcl⟩, hwi⟩, hwr⟩ := h
    rw [Prog.flat, Seg.cons_iff, Seg.append_iff, Seg.cons_iff, Prog.size_eq] at hseg
    obtain ⟨_, hsi, hc, hsr⟩ := hseg
    simp only [fnsOf, List.mem_append] at hf
    rcases hf with hf | hf
    · refine fn_end_not_open items (i + 1) hwi hsi ?_ f hf
      intro t ht
      rw [hc] at ht; cases ht
      exact Tok.isSymbol_close_not_open hcl
    · rw [show i + 1 + items.size + 1 = i + items.size + 2 by omega] at hsr
      refine fn_end_not_open rest _ hwr hsr ?_ f hf
      intro t ht
      exact hnext t (by rw [← ht]; congr 1; simp only [Prog.size]; omega)
  | .fn hdr k gap op cl body rest, i, h, hseg, hnext, f, hf => by
    have hw := h
    simp only [Prog.wf, Bool.and_eq_true, decide_eq_true_eq] at h
    obtain ⟨⟨⟨⟨⟨⟨⟨⟨⟨⟨hsl, hnf⟩, hwh⟩, hk⟩, hnm⟩, hgap⟩, hop⟩, hcl⟩, hwb⟩, hadj⟩, hwr⟩ := h
    rw [Prog.flat, Seg.append_iff, Seg.append_iff, Seg.cons_iff, Seg.append_iff, Seg.cons_iff,
      Prog.size_eq, Prog.size_eq] at hseg
    obtain ⟨_, _, _, hsb, hc, hsr⟩ := hseg
    rw [show i + hdr.size + gap.length + 1 + body.size + 1
      = i + hdr.size + gap.length + body.size + 2 by omega] at hsr
    have hnext' : ∀ t, code[i + hdr.size + gap.length + body.size + 2 + rest.size]? = some t →
        t.isSymbol [123] = false := by
      intro t ht
      exact hnext t (by rw [← ht]; congr 1; simp only [Prog.size]; omega)
    simp only [fnsOf, List.mem_cons, List.mem_append] at hf
    rcases hf with rfl | hf | hf
    · simp only
      exact first_not_open rest _ hwr (by simpa using hadj) hsr hnext'
    · refine fn_end_not_open body _ hwb hsb ?_ f hf
      intro t ht
      rw [hc] at ht; cases ht
      exact Tok.isSymbol_close_not_open hcl
    · exact fn_end_not_open rest _ hwr hsr hnext' f hf

/-- **the token sequence of a well-formed forest is a canonical layout**, with the functions
`fnsOf` and the blocks `blocksOf` of the tree -/
theorem layout_prog {p : Prog Tok} (h : p.wf = true) (hpos : PosSorted p.flat) :
    Layout p.flat p.fns p.blocks := by
  have hb := getBlocks_prog h hpos
  obtain ⟨h1, h2⟩ := getBlocks_spec_L hb
  obtain ⟨h3, h4⟩ := h2 hpos
  refine ⟨⟨(tinv_of_wf p 0 h).fnLayout, hpos, fun b hb' => ?_, h3, h4.imp (fun h => by omega)⟩, ?_⟩
  · have := h1 b hb'; omega
  · intro f hf b hb' heq
    obtain ⟨t, ht, hopen⟩ := rawBlocks_open p.flat b ((getBlocks_spec hb).1.mem_iff.mp hb')
    have := fn_end_not_open p 0 h (Seg.self _) (fun t ht => by
      rw [Nat.zero_add, ← Prog.size_eq, List.getElem?_eq_none (Nat.le_refl _)] at ht; cases ht)
      f hf t (heq ▸ ht)
    rw [this] at hopen; cases hopen

/-- **the token sequence of a STRUCTURALLY well-formed forest satisfies every layout clause that
is a fact about well-formed files** (`LayoutCore`: everything except `no_adjacent`), with the
functions `fnsOf` and the blocks `blocksOf` of the tree; the canonical-fragment restriction
`noAdj` is not needed -/
theorem layoutCore_prog {p : Prog Tok} (h : p.wfCore = true) (hpos : PosSorted p.flat) :
    LayoutCore p.flat p.fns p.blocks := by
  have hb := getBlocks_prog_core h hpos
  obtain ⟨h1, h2⟩ := getBlocks_spec_L hb
  obtain ⟨h3, h4⟩ := h2 hpos
  refine ⟨(tinv_of_wfCore p 0 h).fnLayout, hpos, fun b hb' => ?_, h3, h4.imp (fun h => by omega)⟩
  have := h1 b hb'; omega

end CL
