import CodeLimit.Lemmas.LayoutNesting
import CodeLimit.Lemmas.LayoutBlocks
import CodeLimit.Lemmas.Invisible
/-!
# Stage A3: `count_lines` on a canonical layout

`_scope_tokens` walks over the token indices of a function and skips those inside one of the
(sorted, pairwise disjoint) child ranges; the lines it collects are exactly the lines of the
tokens that belong to no nested function at any depth.
-/
namespace CL

/-- index `j` lies inside one of the ranges -/
def covered (ch : List Range) (j : Nat) : Bool := ch.any (fun c => c.s ≤ j && j < c.e)

theorem covered_cons (c : Range) (ch : List Range) (j : Nat) :
    covered (c :: ch) j = ((c.s ≤ j && j < c.e) || covered ch j) := by
  simp [covered]

/-- the test `len(children) == 0 or index < children[0].start` -/
def keepOf (i : Nat) : List Range → Bool
  | [] => true
  | c :: _ => decide (i < c.s)

def lineAt (toks : List Tok) (i : Nat) (keep : Bool) : Except Err (List Nat) :=
  if keep then (getE toks i).map (fun t => [t.line]) else .ok []

def pairApp : Except Err (List Nat) → Except Err (List Nat) → Except Err (List Nat)
  | .ok a, .ok r => .ok (a ++ r)
  | .error e, _ => .error e
  | _, .error e => .error e

theorem scopeLinesLoop_succ_L (toks : List Tok) (n i : Nat) (ch : List Range) :
    scopeLinesLoop toks (n + 1) i ch
      = pairApp (lineAt toks i (keepOf i (ch.dropWhile (fun c => i ≥ c.e))))
          (scopeLinesLoop toks n (i + 1) (ch.dropWhile (fun c => i ≥ c.e))) := by
  rw [scopeLinesLoop]
  rfl

/-- what the `while ... pop(0)` loop and the test after it do, for sorted disjoint ranges -/
theorem dropWhile_spec (i : Nat) :
    ∀ (ch : List Range), ch.Pairwise (fun a b => a.e ≤ b.s) →
      (∀ j, i ≤ j → covered (ch.dropWhile (fun c => i ≥ c.e)) j = covered ch j) ∧
      (keepOf i (ch.dropWhile (fun c => i ≥ c.e)) = !covered ch i) ∧
      (ch.dropWhile (fun c => i ≥ c.e)).Pairwise (fun a b => a.e ≤ b.s)
  | [], _ => by refine ⟨?_, ?_, ?_⟩ <;> simp [keepOf, covered]
  | c :: ch, h => by
    obtain ⟨h1, h2⟩ := List.pairwise_cons.mp h
    rw [List.dropWhile_cons]
    by_cases hc : i ≥ c.e
    · obtain ⟨ih1, ih2, ih3⟩ := dropWhile_spec i ch h2
      simp only [hc, decide_true, if_true]
      refine ⟨fun j hj => ?_, ?_, ih3⟩
      · rw [ih1 j hj, covered_cons]
        have : (decide (c.s ≤ j) && decide (j < c.e)) = false := by
          simp only [Bool.and_eq_false_iff, decide_eq_false_iff_not]; omega
        rw [this, Bool.false_or]
      · rw [ih2, covered_cons]
        have : (decide (c.s ≤ i) && decide (i < c.e)) = false := by
          simp only [Bool.and_eq_false_iff, decide_eq_false_iff_not]; omega
        rw [this, Bool.false_or]
    · simp only [hc, decide_false, Bool.false_eq_true, if_false]
      refine ⟨fun _ _ => trivial, ?_, h⟩
      rw [covered_cons]
      have hrest : covered ch i = false := by
        unfold covered
        rw [List.any_eq_false]
        intro b hb
        have := h1 b hb
        simp only [Bool.and_eq_true, decide_eq_true_eq]; omega
      rw [hrest, Bool.or_false]
      by_cases hs : i < c.s
      · have : (decide (c.s ≤ i) && decide (i < c.e)) = false := by
          simp only [Bool.and_eq_false_iff, decide_eq_false_iff_not]; omega
        simp [keepOf, hs, this]
      · have : (decide (c.s ≤ i) && decide (i < c.e)) = true := by
          simp only [Bool.and_eq_true, decide_eq_true_eq]; omega
        simp [keepOf, hs, this]

/-- **the token walk**: inside the file, for sorted disjoint child ranges, the walk succeeds
and collects exactly the lines of the tokens not covered by a child range -/
theorem scopeLinesLoop_spec_L (toks : List Tok) :
    ∀ (n i : Nat) (ch : List Range), ch.Pairwise (fun a b => a.e ≤ b.s) → i + n ≤ toks.length →
      ∃ ls, scopeLinesLoop toks n i ch = .ok ls ∧
        ∀ l, l ∈ ls ↔ ∃ j t, i ≤ j ∧ j < i + n ∧ toks[j]? = some t ∧ t.line = l ∧
          covered ch j = false
  | 0, i, ch, _, _ => ⟨[], rfl, fun l => by
      constructor
      · intro h; cases h
      · rintro ⟨j, _, h1, h2, _⟩; omega⟩
  | n + 1, i, ch, hch, hlen => by
    obtain ⟨d1, d2, d3⟩ := dropWhile_spec i ch hch
    obtain ⟨ls', hls', hmem'⟩ := scopeLinesLoop_spec_L toks n (i + 1)
      (ch.dropWhile (fun c => i ≥ c.e)) d3 (by omega)
    have hi : i < toks.length := by omega
    have hget : getE toks i = .ok toks[i] := by
      unfold getE; rw [List.getElem?_eq_getElem hi]
    rw [scopeLinesLoop_succ_L, d2, hls']
    by_cases hcov : covered ch i = true
    · refine ⟨ls', by simp [hcov, lineAt, pairApp], fun l => ?_⟩
      rw [hmem' l]
      constructor
      · rintro ⟨j, t, h1, h2, h3, h4, h5⟩
        exact ⟨j, t, by omega, by omega, h3, h4, by rw [← d1 j (by omega)]; exact h5⟩
      · rintro ⟨j, t, h1, h2, h3, h4, h5⟩
        have : j ≠ i := by rintro rfl; rw [hcov] at h5; cases h5
        exact ⟨j, t, by omega, by omega, h3, h4, by rw [d1 j (by omega)]; exact h5⟩
    · have hcov' : covered ch i = false := by
        cases h : covered ch i with
        | false => rfl
        | true => exact absurd h hcov
      refine ⟨[toks[i].line] ++ ls', by simp [hcov', lineAt, pairApp, hget], fun l => ?_⟩
      rw [List.mem_append, hmem' l]
      constructor
      · rintro (h | ⟨j, t, h1, h2, h3, h4, h5⟩)
        · simp only [List.mem_singleton] at h
          exact ⟨i, toks[i], Nat.le_refl _, by omega, List.getElem?_eq_getElem hi, h.symm, hcov'⟩
        · exact ⟨j, t, by omega, by omega, h3, h4, by rw [← d1 j (by omega)]; exact h5⟩
      · rintro ⟨j, t, h1, h2, h3, h4, h5⟩
        by_cases hji : j = i
        · subst hji
          left
          rw [List.getElem?_eq_getElem hi] at h3
          cases h3
          simp [h4]
        · right
          exact ⟨j, t, by omega, by omega, h3, h4, by rw [d1 j (by omega)]; exact h5⟩

theorem countDistinct_congr {l₁ l₂ : List Nat} (h : ∀ x, x ∈ l₁ ↔ x ∈ l₂) :
    countDistinct l₁ = countDistinct l₂ :=
  Nat.le_antisymm (countDistinct_le_of_subset (fun x hx => (h x).mp hx))
    (countDistinct_le_of_subset (fun x hx => (h x).mpr hx))

/-- `count_lines` for a scope inside the file whose child ranges are sorted by index, disjoint
and inside the file: the number of distinct lines of the tokens not covered by a child -/
theorem countLines_spec_L {code : List Tok} (hpos : PosSorted code) {s : Scope} {ch : List Range}
    (hch : ch.Pairwise (fun a b => a.s < b.s ∧ a.e ≤ b.s)) (hin : ∀ c ∈ ch, c.s < code.length)
    (hs : s.hdr.rng.s ≤ s.blk.e) (hlen : s.blk.e ≤ code.length) {lines : List Nat}
    (hlines : ∀ l, l ∈ lines ↔ ∃ j t, s.hdr.rng.s ≤ j ∧ j < s.blk.e ∧ code[j]? = some t ∧
      t.line = l ∧ covered ch j = false) :
    countLines code s ch = .ok (countDistinct lines) := by
  unfold countLines
  rw [sortAsc_sorted hpos (hch.imp (fun h => h.1)) hin]
  obtain ⟨ls, hls, hmem⟩ := scopeLinesLoop_spec_L code (s.blk.e - s.hdr.rng.s) s.hdr.rng.s ch
    (hch.imp (fun h => h.2)) (by omega)
  simp only [hls]
  congr 1
  apply countDistinct_congr
  intro l
  rw [hmem l, hlines l]
  constructor
  · rintro ⟨j, t, h1, h2, h3⟩; exact ⟨j, t, h1, by omega, h3⟩
  · rintro ⟨j, t, h1, h2, h3⟩; exact ⟨j, t, h1, by omega, h3⟩

/-! ## the layout -/

theorem mem_ownLines {code : List Tok} {fns : List Fn} {f : Fn} {l : Nat} :
    l ∈ ownLines code fns f ↔ ∃ j t, f.hdr.rng.s ≤ j ∧ j < f.body.e ∧ code[j]? = some t ∧
      t.line = l ∧ ∀ g ∈ fns, f.encloses g = true → ¬ (g.hdr.rng.s ≤ j ∧ j < g.body.e) := by
  unfold ownLines
  rw [List.mem_map]
  constructor
  · rintro ⟨⟨t, j⟩, hmem, rfl⟩
    obtain ⟨h1, h2⟩ := List.mem_filter.mp hmem
    have hget := List.mem_zipIdx_iff_getElem?.mp h1
    rw [Bool.and_eq_true, Bool.and_eq_true] at h2
    obtain ⟨⟨ha, hb⟩, hc⟩ := h2
    refine ⟨j, t, of_decide_eq_true ha, of_decide_eq_true hb, hget, rfl, fun g hg he hj => ?_⟩
    rw [Bool.not_eq_true', List.any_eq_false] at hc
    apply hc g hg
    simp only [he, Bool.true_and, Bool.and_eq_true, decide_eq_true_eq]
    exact hj
  · rintro ⟨j, t, h1, h2, h3, h4, h5⟩
    refine ⟨(t, j), List.mem_filter.mpr ⟨List.mem_zipIdx_iff_getElem?.mpr h3, ?_⟩, h4⟩
    rw [Bool.and_eq_true, Bool.and_eq_true]
    refine ⟨⟨decide_eq_true h1, decide_eq_true h2⟩, ?_⟩
    rw [Bool.not_eq_true', List.any_eq_false]
    intro g hg hcon
    rw [Bool.and_eq_true, Bool.and_eq_true] at hcon
    exact h5 g hg hcon.1.1 ⟨of_decide_eq_true hcon.1.2, of_decide_eq_true hcon.2⟩

theorem mem_allLines {code : List Tok} {f : Fn} {l : Nat} :
    l ∈ allLines code f ↔ ∃ j t, f.hdr.rng.s ≤ j ∧ j < f.body.e ∧ code[j]? = some t ∧
      t.line = l := by
  unfold allLines
  rw [List.mem_map]
  constructor
  · rintro ⟨⟨t, j⟩, hmem, rfl⟩
    obtain ⟨h1, h2⟩ := List.mem_filter.mp hmem
    have hget := List.mem_zipIdx_iff_getElem?.mp h1
    rw [Bool.and_eq_true] at h2
    exact ⟨j, t, of_decide_eq_true h2.1, of_decide_eq_true h2.2, hget, rfl⟩
  · rintro ⟨j, t, h1, h2, h3, h4⟩
    refine ⟨(t, j), List.mem_filter.mpr ⟨List.mem_zipIdx_iff_getElem?.mpr h3, ?_⟩, h4⟩
    rw [Bool.and_eq_true]
    exact ⟨decide_eq_true h1, decide_eq_true h2⟩

/-- a token index is inside a direct child of `f` iff it is inside a function nested in `f`
at any depth -/
theorem covered_childRanges {fns : List Fn} (N : Nested fns) {f : Fn} (hf : f ∈ fns) (j : Nat) :
    covered (childRanges fns f) j = false ↔
      ∀ g ∈ fns, f.encloses g = true → ¬ (g.hdr.rng.s ≤ j ∧ j < g.body.e) := by
  unfold covered childRanges
  rw [List.any_eq_false]
  constructor
  · intro h g hg he hj
    obtain ⟨c, hc, hc1, hc2⟩ := exists_child_around N hf hg he
    have := h c.extent (List.mem_map_of_mem hc)
    rw [Bool.and_eq_true] at this
    apply this
    exact ⟨decide_eq_true (by simp only [Fn.extent]; omega),
      decide_eq_true (by simp only [Fn.extent]; omega)⟩
  · intro h r hr
    obtain ⟨c, hc, rfl⟩ := List.mem_map.mp hr
    have hc' := List.mem_filter.mp hc
    have hp : parent fns c = some f := by simpa using hc'.2
    have := h c hc'.1 (parent_spec N hp).2.1
    rw [Bool.and_eq_true]
    exact fun hh => this ⟨of_decide_eq_true hh.1, of_decide_eq_true hh.2⟩

/-- **A3**: the length of a function is the number of distinct lines of its tokens outside
all nested functions -/
theorem countLines_layout {code : List Tok} {fns : List Fn} {blocks : List Range}
    (L : LayoutCore code fns blocks) {f : Fn} (hf : f ∈ fns) :
    countLines code f.toScope (childRanges fns f)
      = .ok (countDistinct (ownLines code fns f)) := by
  have N := L.nested
  have hb := L.fn_bounds hf
  apply countLines_spec_L L.posSorted
  · unfold childRanges
    rw [List.pairwise_map]
    exact children_disjoint N f
  · intro c hc
    obtain ⟨g, hg, rfl⟩ := List.mem_map.mp hc
    have := L.fn_bounds (List.mem_filter.mp hg).1
    simp only [Fn.extent]
    omega
  · simp only [Fn.toScope]; omega
  · exact hb.2.2.2
  · intro l
    rw [mem_ownLines]
    simp only [Fn.toScope]
    constructor
    · rintro ⟨j, t, h1, h2, h3, h4, h5⟩
      exact ⟨j, t, h1, h2, h3, h4, (covered_childRanges N hf j).mpr h5⟩
    · rintro ⟨j, t, h1, h2, h3, h4, h5⟩
      exact ⟨j, t, h1, h2, h3, h4, (covered_childRanges N hf j).mp h5⟩

/-- without children nothing is subtracted -/
theorem countLines_layout_flat {code : List Tok} {fns : List Fn} {blocks : List Range}
    (L : LayoutCore code fns blocks) {f : Fn} (hf : f ∈ fns) :
    countLines code f.toScope [] = .ok (countDistinct (allLines code f)) := by
  have hb := L.fn_bounds hf
  apply countLines_spec_L L.posSorted List.Pairwise.nil (fun c hc => by cases hc)
  · simp only [Fn.toScope]; omega
  · exact hb.2.2.2
  · intro l
    rw [mem_allLines]
    simp only [Fn.toScope]
    constructor
    · rintro ⟨j, t, h1, h2, h3, h4⟩; exact ⟨j, t, h1, h2, h3, h4, rfl⟩
    · rintro ⟨j, t, h1, h2, h3, h4, _⟩; exact ⟨j, t, h1, h2, h3, h4⟩

end CL
