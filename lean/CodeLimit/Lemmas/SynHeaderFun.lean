import CodeLimit.Lemmas.SynHeaderMachine
/-!
# The JavaScript / TypeScript function pattern matches greedily exactly `[function] Name ( ... )`

`fExpr` is `[Optional(Keyword("function")), Name(), OneOrMore(Balanced("(", ")"))]` (the first
header pattern of the JavaScript and TypeScript language definitions); its compiled table `fDfa` is
`start --function--> fK --Name--> fS1 --Balanced--> fS2 --Balanced--> fS2`, `start --Name--> fS1`.

`greedyAt_iff_funHeader : GreedyAt (dfaMachine D tokAcceptor) toks p f ↔ FunHeader toks p f`.
-/
namespace CL.Syn

/-- `Keyword("function")` -/
def kwFunction : Pred := .keyword [102, 117, 110, 99, 116, 105, 111, 110]

/-- `[Optional(Keyword("function")), Name(), OneOrMore(Balanced("(", ")"))]` -/
def fExpr : Rx Pred := .cat (.cat (.opt (.atom kwFunction)) (.atom .name)) (.plus (.atom bal))

def fK : DState := .set [3, 4]
def fS1 : DState := .set [5, 6]
def fS2 : DState := .set [6, 7, 8]

/-- the compiled table of `fExpr` -/
def fDfa : Dfa Pred :=
  ⟨[(fK, [(.name, fS1)]), (fS2, [(bal, fS2)]), (fS1, [(bal, fS2)]),
    (.start, [(kwFunction, fK), (.name, fS1)])], [fS2]⟩

theorem compile_fExpr : compileTok fExpr = .ok fDfa := by rfl

theorem compile_fExpr_eq {D : Dfa Pred} (h : compileTok fExpr = .ok D) : D = fDfa := by
  rw [compile_fExpr] at h; cases h; rfl

abbrev fM : Machine Tok (DState × Depths) := dfaMachine fDfa tokAcceptor

theorem frow_start : fDfa.row .start = [(kwFunction, fK), (.name, fS1)] := by decide
theorem frow_K : fDfa.row fK = [(.name, fS1)] := by decide
theorem frow_S1 : fDfa.row fS1 = [(bal, fS2)] := by decide
theorem frow_S2 : fDfa.row fS2 = [(bal, fS2)] := by decide
theorem facc_K : fDfa.isAcc fK = false := by decide
theorem facc_S1 : fDfa.isAcc fS1 = false := by decide
theorem facc_S2 : fDfa.isAcc fS2 = true := by decide

theorem kwFunction_not_name {x : Tok} (h : kwFunction.eval x = true) : x.isName = false := by
  simp only [kwFunction, Pred.eval, Tok.isKeyword, Bool.and_eq_true, beq_iff_eq] at h
  simp [Tok.isName, h.1]

theorem fstep_start (ds : Depths) (x : Tok) :
    fM.step (.start, ds) x =
      if kwFunction.eval x then .ok (some (fK, ds))
      else if x.isName then .ok (some (fS1, ds)) else .ok none := by
  have hk : tokAcceptor.accept kwFunction ds x = (kwFunction.eval x, ds) := rfl
  have hn : tokAcceptor.accept .name ds x = (x.isName, ds) := rfl
  simp only [dfaMachine, consume, frow_start, consumeAux, hk, hn]
  by_cases h : kwFunction.eval x = true
  · have := kwFunction_not_name h
    simp [h, this]
  · by_cases h' : x.isName = true <;> simp [h, h']

theorem fstep_K (ds : Depths) (x : Tok) :
    fM.step (fK, ds) x = if x.isName then .ok (some (fS1, ds)) else .ok none := by
  have hn : tokAcceptor.accept .name ds x = (x.isName, ds) := rfl
  simp only [dfaMachine, consume, frow_K, consumeAux, hn]
  by_cases h' : x.isName = true <;> simp [h']

/-! ## `FunHeader → GreedyAt` -/

theorem slice_two {toks : List Tok} {p : Nat} {a b : Tok} (ha : toks[p]? = some a)
    (hb : toks[p + 1]? = some b) : slice toks p (p + 1 + 1) = [a, b] := by
  rw [slice_succ toks (Nat.le_succ p) hb, slice_one toks ha]; rfl

theorem greedy_of_funHeader {toks : List Tok} {p f : Nat} (h : FunHeader toks p f) :
    GreedyAt fM toks p f := by
  rcases h with ⟨⟨n, hn, hname⟩, hopenAt, hf⟩ | ⟨⟨k, hk, hkw⟩, ⟨n, hn, hname⟩, hopenAt, hf⟩
  · rw [hf]
    refine greedy_of_prefix (ds0 := []) frow_S1 frow_S2 facc_S2 (Nat.lt_succ_self p) ?_ rfl hopenAt
    rw [slice_one toks hn]
    show runM fM (.start, []) [n] = _
    have hnk : kwFunction.eval n = false := by
      cases hh : kwFunction.eval n
      · rfl
      · rw [kwFunction_not_name hh] at hname; cases hname
    simp [runM, fstep_start, hname, hnk]
  · rw [hf]
    refine greedy_of_prefix (ds0 := []) frow_S1 frow_S2 facc_S2 (show p < p + 1 + 1 by omega) ?_ rfl
      hopenAt
    rw [slice_two hk hn]
    show runM fM (.start, []) [k, n] = _
    have hkw' : kwFunction.eval k = true := hkw
    simp [runM, fstep_start, fstep_K, hname, hkw']

/-! ## `GreedyAt → FunHeader` -/

theorem slice_cons {toks : List Tok} {p f : Nat} (h1 : p < f) (h2 : f ≤ toks.length) :
    ∃ t, toks[p]? = some t ∧ slice toks p f = t :: slice toks (p + 1) f := by
  have hp : p < toks.length := by omega
  have hx : toks[p]? = some toks[p] := by simp [hp]
  refine ⟨toks[p], hx, ?_⟩
  rw [slice_split toks (Nat.le_succ p) (Nat.succ_le_of_lt h1), slice_one toks hx]
  rfl

theorem runM_cons_some {β σ : Type} {A : Machine β σ} {s q : σ} {x : β} {xs : List β}
    (h : runM A s (x :: xs) = some q) :
    ∃ s', A.step s x = .ok (some s') ∧ runM A s' xs = some q := by
  simp only [runM] at h
  split at h
  · rename_i s' hs; exact ⟨s', hs, h⟩
  · cases h

theorem funHeader_of_greedy {toks : List Tok} {p f : Nat} (h : GreedyAt fM toks p f) :
    FunHeader toks p f := by
  have hg := h
  obtain ⟨hpf, hfl, q, hr, hacc, _⟩ := h
  have huniq : ∀ f', FunHeader toks p f' → f = f' := fun f' h' =>
    Compose.greedy_finish_unique (dfaMachine_deadStuck fDfa tokAcceptor) hg
      (greedy_of_funHeader h')
  -- the tail of the run, once it has reached `fS1` at depth 0 having read `toks[p..i)`
  have tail : ∀ i, p < i → runM fM (fS1, []) (slice toks i f) = some q → i ≤ f → OpenAt toks i := by
    intro i _ hr' hif
    rcases Nat.lt_or_ge i f with hlt | hge
    · obtain ⟨t, ht, hs⟩ := slice_cons hlt hfl
      rw [hs] at hr'
      obtain ⟨s', hstep, _⟩ := runM_cons_some hr'
      exact ⟨t, ht, step_s1_open (D := fDfa) frow_S1 rfl hstep⟩
    · have : i = f := by omega
      subst this
      rw [slice_self] at hr'
      simp only [runM, Option.some.injEq] at hr'
      subst hr'
      have : fDfa.isAcc fS1 = true := hacc
      rw [facc_S1] at this; cases this
  obtain ⟨t0, ht0, hs0⟩ := slice_cons hpf hfl
  rw [hs0] at hr
  obtain ⟨c1, hstep1, hr1⟩ := runM_cons_some hr
  rw [show fM.init = (.start, []) from rfl, fstep_start] at hstep1
  by_cases hk : kwFunction.eval t0 = true
  · -- `function Name ( ...`
    simp only [hk, if_true, Except.ok.injEq, Option.some.injEq] at hstep1
    subst hstep1
    rcases Nat.lt_or_ge (p + 1) f with hlt | hge
    · obtain ⟨t1, ht1, hs1⟩ := slice_cons hlt hfl
      rw [hs1] at hr1
      obtain ⟨c2, hstep2, hr2⟩ := runM_cons_some hr1
      rw [fstep_K] at hstep2
      by_cases hn : t1.isName = true
      · simp only [hn, if_true, Except.ok.injEq, Option.some.injEq] at hstep2
        subst hstep2
        have ho := tail (p + 1 + 1) (by omega) hr2 (by omega)
        have hfh : FunHeader toks p (groupsEnd toks (p + 1 + 1)) :=
          .inr ⟨⟨t0, ht0, hk⟩, ⟨t1, ht1, hn⟩, ho, rfl⟩
        rw [huniq _ hfh]; exact hfh
      · simp [hn] at hstep2
    · have : p + 1 = f := by omega
      subst this
      rw [slice_self] at hr1
      simp only [runM, Option.some.injEq] at hr1
      subst hr1
      have : fDfa.isAcc fK = true := hacc
      rw [facc_K] at this; cases this
  · simp only [hk, Bool.false_eq_true, if_false] at hstep1
    by_cases hn : t0.isName = true
    · simp only [hn, if_true, Except.ok.injEq, Option.some.injEq] at hstep1
      subst hstep1
      have ho := tail (p + 1) (by omega) hr1 (by omega)
      have hfh : FunHeader toks p (groupsEnd toks (p + 1)) := .inl ⟨⟨t0, ht0, hn⟩, ho, rfl⟩
      rw [huniq _ hfh]; exact hfh
    · simp [hn] at hstep1

/-- The greedy matches of the JavaScript / TypeScript function pattern
`[Optional(Keyword("function")), Name(), OneOrMore(Balanced("(", ")"))]` are exactly the ranges
`[function] Name ( ... )`, on every token list. -/
theorem greedyAt_iff_funHeader {D : Dfa Pred} (hD : compileTok fExpr = .ok D) (toks : List Tok)
    (p f : Nat) : GreedyAt (dfaMachine D tokAcceptor) toks p f ↔ FunHeader toks p f := by
  rw [compile_fExpr_eq hD]
  exact ⟨funHeader_of_greedy, greedy_of_funHeader⟩

end CL.Syn
