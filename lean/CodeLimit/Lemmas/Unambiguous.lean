import CodeLimit.Lemmas.TokenAbs
import CodeLimit.Lemmas.FindAll
/-!
# A decidable unambiguity checker for compiled token patterns, and its soundness (C15)

`Pattern.consume` evaluates every transition of the current DFA row and raises
"Multiple transitions found!" when two accept. `unambiguous D` is a decidable sufficient
condition for this never to happen in a reachable matcher state, for every token:

* a row with at most one entry is fine;
* otherwise the row contains at most one `Balanced` entry, the "effective" stateless predicates
  of its entries (`Balanced l r ↦ l`) pairwise accept no common token (`overlapPure`), and the
  row's state cannot be reached after a transition labelled with that `Balanced` entry - so
  its nesting depth is provably `≤ 0` there and it behaves like `l`.
-/
namespace CL

def Pred.isBal : Pred → Bool
  | .balanced _ _ => true
  | _ => false

/-- what a predicate accepts while its nesting depth is `≤ 0` -/
def Pred.eff : Pred → Pred
  | .balanced l _ => l
  | p => p

/-! ## depth bookkeeping -/

theorem getDepth_nil (p : Pred) : getDepth [] p = 0 := rfl

theorem getDepth_setDepth_self (ds : Depths) (p : Pred) (d : Int) :
    getDepth (setDepth ds p d) p = d := by
  simp [getDepth, setDepth]

theorem find_filter_ne (ds : Depths) {p b : Pred} (h : p ≠ b) :
    (ds.filter (fun e => decide (e.1 ≠ p))).find? (fun e => decide (e.1 = b)) =
      ds.find? (fun e => decide (e.1 = b)) := by
  induction ds with
  | nil => rfl
  | cons e ds ih =>
    by_cases h2 : e.1 = p
    · have h1 : ¬ e.1 = b := fun h' => h (h2.symm.trans h')
      rw [List.filter_cons_of_neg (by simpa using h2), List.find?_cons_of_neg (by simpa using h1)]
      exact ih
    · rw [List.filter_cons_of_pos (by simpa using h2)]
      by_cases h1 : e.1 = b
      · rw [List.find?_cons_of_pos (by simpa using h1), List.find?_cons_of_pos (by simpa using h1)]
      · rw [List.find?_cons_of_neg (by simpa using h1), List.find?_cons_of_neg (by simpa using h1)]
        exact ih

theorem getDepth_setDepth_ne (ds : Depths) {p b : Pred} (d : Int) (h : p ≠ b) :
    getDepth (setDepth ds p d) b = getDepth ds b := by
  unfold getDepth setDepth
  rw [List.find?_cons_of_neg (by simpa using h), find_filter_ne ds h]

theorem acceptTok_pure {p : Pred} (h : p.isBal = false) (ds : Depths) (t : Tok) :
    acceptTok p ds t = (p.eval t, ds) := by
  cases p <;> first | rfl | cases h

/-- evaluating `p` does not touch the depth of a different predicate `b` -/
theorem acceptTok_depth_ne {p b : Pred} (ds : Depths) (t : Tok) (h : p ≠ b) :
    getDepth (acceptTok p ds t).2 b = getDepth ds b := by
  cases hp : p.isBal
  · rw [acceptTok_pure hp]
  · cases p <;> try cases hp
    rename_i l r
    simp only [acceptTok]
    split
    · exact getDepth_setDepth_ne ds _ h
    · split
      · exact getDepth_setDepth_ne ds _ h
      · rfl

/-- at depth `≤ 0` a `Balanced l r` accepts exactly the tokens `l` accepts -/
theorem acceptTok_low {p : Pred} {ds : Depths} (t : Tok)
    (h : p.isBal = true → getDepth ds p ≤ 0) : (acceptTok p ds t).1 = p.eff.eval t := by
  cases p with
  | balanced l r =>
    have hd := h rfl
    simp only [acceptTok, Pred.eff]
    split
    · rename_i hl; simp [hl]
    · rename_i hl
      split
      · simp only [hl, decide_eq_false_iff_not]; omega
      · simp only [hl, decide_eq_false_iff_not]; omega
  | _ => rfl

/-- a rejected token leaves the depth `≤ 0` -/
theorem acceptTok_reject_low {b : Pred} {ds : Depths} {t : Tok}
    (h : getDepth ds b ≤ 0) (hr : (acceptTok b ds t).1 = false) :
    getDepth (acceptTok b ds t).2 b ≤ 0 := by
  cases hp : b.isBal
  · rw [acceptTok_pure hp]; exact h
  · cases b <;> try cases hp
    rename_i l r
    simp only [acceptTok] at hr ⊢
    split
    · rename_i hl; simp [hl] at hr
    · split
      · rw [getDepth_setDepth_self]; omega
      · exact h

/-! ## `consumeAux` -/

theorem consumeAux_some {x : Tok} {row : List (Pred × DState)} {g : DState} {ds ds' : Depths}
    {f' : Option DState} (h : consumeAux tokAcceptor x row (some g) ds = .ok (f', ds')) :
    f' = some g := by
  induction row generalizing ds with
  | nil => simp only [consumeAux, Except.ok.injEq, Prod.mk.injEq] at h; exact h.1.symm
  | cons pt rest ih =>
    obtain ⟨p, t⟩ := pt
    simp only [consumeAux] at h
    split at h
    · simp at h
    · exact ih h

/-- the target reported by `consumeAux` is the target of an entry that accepted the token -/
theorem consumeAux_target {x : Tok} {row : List (Pred × DState)} {f : Option DState}
    {ds ds' : Depths} {g : DState} (h : consumeAux tokAcceptor x row f ds = .ok (some g, ds')) :
    f = some g ∨ ∃ p ds0, (p, g) ∈ row ∧ (acceptTok p ds0 x).1 = true := by
  induction row generalizing f ds with
  | nil =>
    simp only [consumeAux, Except.ok.injEq, Prod.mk.injEq] at h
    exact .inl h.1
  | cons pt rest ih =>
    obtain ⟨p, t⟩ := pt
    simp only [consumeAux] at h
    split at h
    · rename_i hacc
      split at h
      · cases h
      · rcases ih h with h' | ⟨p', ds0, hm, ha⟩
        · cases h'
          exact .inr ⟨p, ds, List.mem_cons_self .., hacc⟩
        · exact .inr ⟨p', ds0, List.mem_cons_of_mem _ hm, ha⟩
    · rcases ih h with h' | ⟨p', ds0, hm, ha⟩
      · exact .inl h'
      · exact .inr ⟨p', ds0, List.mem_cons_of_mem _ hm, ha⟩

/-- a successful `consumeAux` leaves the depth of `b` at `≤ 0` unless the transition taken is
labelled `b` -/
theorem consumeAux_depth {x : Tok} {b : Pred} {row : List (Pred × DState)} {f f' : Option DState}
    {ds ds' : Depths} (h : consumeAux tokAcceptor x row f ds = .ok (f', ds'))
    (hd : getDepth ds b ≤ 0) :
    getDepth ds' b ≤ 0 ∨ ∃ g, f' = some g ∧ (b, g) ∈ row := by
  induction row generalizing f ds with
  | nil =>
    simp only [consumeAux, Except.ok.injEq, Prod.mk.injEq] at h
    exact .inl (h.2 ▸ hd)
  | cons pt rest ih =>
    obtain ⟨p, t⟩ := pt
    simp only [consumeAux] at h
    by_cases hpb : p = b
    · subst hpb
      split at h
      · split at h
        · cases h
        · exact .inr ⟨t, consumeAux_some h, List.mem_cons_self ..⟩
      · rename_i hacc
        have hacc' : (acceptTok p ds x).1 = false := by simpa [tokAcceptor] using hacc
        rcases ih h (acceptTok_reject_low hd hacc') with h' | ⟨g, hg, hm⟩
        · exact .inl h'
        · exact .inr ⟨g, hg, List.mem_cons_of_mem _ hm⟩
    · have hd' : getDepth (tokAcceptor.accept p ds x).2 b ≤ 0 := by
        show getDepth (acceptTok p ds x).2 b ≤ 0
        rw [acceptTok_depth_ne ds x hpb]; exact hd
      split at h
      · split at h
        · cases h
        · rcases ih h hd' with h' | ⟨g, hg, hm⟩
          · exact .inl h'
          · exact .inr ⟨g, hg, List.mem_cons_of_mem _ hm⟩
      · rcases ih h hd' with h' | ⟨g, hg, hm⟩
        · exact .inl h'
        · exact .inr ⟨g, hg, List.mem_cons_of_mem _ hm⟩

/-- the core of the soundness argument: on a row with at most one `Balanced` entry, whose
entries are all at depth `≤ 0` and whose effective predicates pairwise exclude each other on
the token `x`, `consumeAux` does not raise -/
theorem consumeAux_ok (x : Tok) (row : List (Pred × DState)) (f : Option DState) (ds : Depths)
    (hlow : ∀ pt ∈ row, pt.1.isBal = true → getDepth ds pt.1 ≤ 0)
    (hone : row.Pairwise (fun a b => ¬ (a.1.isBal = true ∧ b.1.isBal = true)))
    (hpw : row.Pairwise (fun a b => ¬ (a.1.eff.eval x = true ∧ b.1.eff.eval x = true)))
    (hf : f.isSome = true → ∀ pt ∈ row, pt.1.eff.eval x = false) :
    ∃ r, consumeAux tokAcceptor x row f ds = .ok r := by
  induction row generalizing f ds with
  | nil => exact ⟨_, rfl⟩
  | cons pt rest ih =>
    obtain ⟨p, t⟩ := pt
    have hacc : (tokAcceptor.accept p ds x).1 = p.eff.eval x :=
      acceptTok_low x (hlow (p, t) (List.mem_cons_self ..))
    have hone' := List.pairwise_cons.1 hone
    have hpw' := List.pairwise_cons.1 hpw
    have hlow' : ∀ pt ∈ rest, pt.1.isBal = true →
        getDepth (tokAcceptor.accept p ds x).2 pt.1 ≤ 0 := by
      intro pt hm hb
      cases hp : p.isBal
      · show getDepth (acceptTok p ds x).2 pt.1 ≤ 0
        rw [acceptTok_pure hp]
        exact hlow pt (List.mem_cons_of_mem _ hm) hb
      · exact absurd ⟨hp, hb⟩ (hone'.1 pt hm)
    simp only [consumeAux]
    split
    · rename_i ha
      rw [hacc] at ha
      split
      · rename_i hfs
        have := hf hfs (p, t) (List.mem_cons_self ..)
        rw [ha] at this; cases this
      · refine ih _ _ hlow' hone'.2 hpw'.2 ?_
        intro _ pt hm
        have := hpw'.1 pt hm
        cases hq : pt.1.eff.eval x
        · rfl
        · exact absurd ⟨ha, hq⟩ this
    · refine ih _ _ hlow' hone'.2 hpw'.2 ?_
      intro hfs pt hm
      exact hf hfs pt (List.mem_cons_of_mem _ hm)

/-! ## graph search over the DFA -/

/-- all transitions of the DFA as (source, label, target) -/
def Dfa.edges (D : Dfa Pred) : List (DState × Pred × DState) :=
  D.rows.flatMap (fun r => r.2.map (fun pt => (r.1, pt.1, pt.2)))

theorem Dfa.row_cases (D : Dfa Pred) (s : DState) : D.row s = [] ∨ (s, D.row s) ∈ D.rows := by
  unfold Dfa.row
  cases h : D.rows.find? (fun r => r.1 = s) with
  | none => exact .inl rfl
  | some r =>
    have h1 : r.1 = s := by simpa using List.find?_some h
    have h2 : r ∈ D.rows := List.mem_of_find?_eq_some h
    right
    obtain ⟨a, b⟩ := r
    cases h1
    exact h2

theorem Dfa.mem_edges_of_row {D : Dfa Pred} {s : DState} {p : Pred} {t : DState}
    (h : (p, t) ∈ D.row s) : (s, p, t) ∈ D.edges := by
  rcases D.row_cases s with h0 | h0
  · rw [h0] at h; cases h
  · simp only [Dfa.edges, List.mem_flatMap, List.mem_map]
    exact ⟨_, h0, (p, t), h, rfl⟩

abbrev EdgeL := List (DState × Pred × DState)

/-- targets of edges that leave `S` -/
def succOf (E : EdgeL) (S : List DState) : List DState :=
  (E.filter (fun e => S.contains e.1 && !S.contains e.2.2)).map (·.2.2)

/-- fuel-bounded closure of `S` under the edges `E` -/
def closeUnder (E : EdgeL) : Nat → List DState → List DState
  | 0, S => S
  | n + 1, S =>
    match succOf E S with
    | [] => S
    | new => closeUnder E n (new ++ S)

def isClosed (E : EdgeL) (S : List DState) : Bool :=
  E.all (fun e => !S.contains e.1 || S.contains e.2.2)

theorem isClosed_sound {E : EdgeL} {S : List DState} (h : isClosed E S = true)
    {s t : DState} {p : Pred} (he : (s, p, t) ∈ E) (hs : s ∈ S) : t ∈ S := by
  have := List.all_eq_true.1 h _ he
  simpa [hs] using this

/-- the states that may be entered after a `b`-labelled transition has been taken -/
def afterSet (D : Dfa Pred) (b : Pred) : List DState :=
  closeUnder D.edges (D.edges.length + 1) ((D.edges.filter (fun e => e.2.1 == b)).map (·.2.2))

/-- the search converged: `afterSet D b` contains the target of every `b`-labelled transition
and is closed under all transitions -/
def afterOk (D : Dfa Pred) (b : Pred) : Bool :=
  isClosed D.edges (afterSet D b) &&
    D.edges.all (fun e => !(e.2.1 == b) || (afterSet D b).contains e.2.2)

theorem afterOk_seed {D : Dfa Pred} {b : Pred} (h : afterOk D b = true) {s t : DState}
    (he : (s, b, t) ∈ D.edges) : t ∈ afterSet D b := by
  have h2 := (Bool.and_eq_true _ _ ▸ h).2
  have := List.all_eq_true.1 h2 _ he
  simpa using this

theorem afterOk_closed {D : Dfa Pred} {b : Pred} (h : afterOk D b = true) {s t : DState}
    {p : Pred} (he : (s, p, t) ∈ D.edges) (hs : s ∈ afterSet D b) : t ∈ afterSet D b :=
  isClosed_sound (Bool.and_eq_true _ _ ▸ h).1 he hs

/-! ## the checker -/

def pairwiseB {α : Type} (R : α → α → Bool) : List α → Bool
  | [] => true
  | a :: l => l.all (R a) && pairwiseB R l

theorem pairwiseB_sound {α : Type} {R : α → α → Bool} {l : List α} (h : pairwiseB R l = true) :
    l.Pairwise (fun a b => R a b = true) := by
  induction l with
  | nil => exact List.Pairwise.nil
  | cons a l ih =>
    simp only [pairwiseB, Bool.and_eq_true, List.all_eq_true] at h
    exact List.pairwise_cons.2 ⟨h.1, ih h.2⟩

/-- the row `row` of state `s` can never have two accepting transitions -/
def rowOk (D : Dfa Pred) (s : DState) (row : List (Pred × DState)) : Bool :=
  decide (row.length ≤ 1) ||
    (pairwiseB (fun a b => !(a.1.isBal && b.1.isBal) && !overlapPure a.1.eff b.1.eff) row &&
      row.all (fun pt => !pt.1.isBal || (afterOk D pt.1 && !(afterSet D pt.1).contains s)))

/-- decidable sufficient condition for "in every reachable matcher state, at every nesting
depth, for every token, at most one transition applies" -/
def unambiguous (D : Dfa Pred) : Bool := D.rows.all (fun r => rowOk D r.1 r.2)

theorem unambiguous_row {D : Dfa Pred} (h : unambiguous D = true) (s : DState) :
    rowOk D s (D.row s) = true := by
  rcases D.row_cases s with h0 | h0
  · rw [h0]; rfl
  · exact List.all_eq_true.1 h _ h0

/-! ## reachable configurations and the depth invariant -/

/-- the matcher configurations (DFA state, nesting depths) an attempt can be in -/
inductive Reach (D : Dfa Pred) : DState × Depths → Prop
  | init : Reach D (.start, [])
  | step {cfg cfg' : DState × Depths} {tok : Tok} : Reach D cfg →
      (dfaMachine D tokAcceptor).step cfg tok = .ok (some cfg') → Reach D cfg'

theorem step_eq {D : Dfa Pred} {cfg cfg' : DState × Depths} {tok : Tok}
    (h : (dfaMachine D tokAcceptor).step cfg tok = .ok (some cfg')) :
    consumeAux tokAcceptor tok (D.row cfg.1) none cfg.2 = .ok (some cfg'.1, cfg'.2) := by
  simp only [dfaMachine, consume] at h
  split at h
  · cases h
  · cases h
  · rename_i t ps' heq
    simp only [Except.ok.injEq, Option.some.injEq] at h
    subst h
    exact heq

/-- a successful step follows an edge whose label accepted the token -/
theorem step_edge {D : Dfa Pred} {cfg cfg' : DState × Depths} {tok : Tok}
    (h : (dfaMachine D tokAcceptor).step cfg tok = .ok (some cfg')) :
    ∃ p ds0, (cfg.1, p, cfg'.1) ∈ D.edges ∧ (acceptTok p ds0 tok).1 = true := by
  rcases consumeAux_target (step_eq h) with h' | ⟨p, ds0, hm, ha⟩
  · cases h'
  · exact ⟨p, ds0, Dfa.mem_edges_of_row hm, ha⟩

/-- everything a run from a reachable configuration passes through is reachable -/
theorem reach_runM {D : Dfa Pred} {cfg q : DState × Depths} (toks : List Tok) (h : Reach D cfg)
    (hr : runM (dfaMachine D tokAcceptor) cfg toks = some q) : Reach D q := by
  induction toks generalizing cfg with
  | nil => simp only [runM, Option.some.injEq] at hr; exact hr ▸ h
  | cons x xs ih =>
    simp only [runM] at hr
    split at hr
    · rename_i cfg' hs
      exact ih (Reach.step h hs) hr
    · cases hr

/-- outside `afterSet D b` the depth of `b` is `≤ 0` -/
def DepthInv (D : Dfa Pred) (cfg : DState × Depths) : Prop :=
  ∀ b, afterOk D b = true → cfg.1 ∉ afterSet D b → getDepth cfg.2 b ≤ 0

theorem reach_depthInv {D : Dfa Pred} {cfg : DState × Depths} (h : Reach D cfg) :
    DepthInv D cfg := by
  induction h with
  | init => intro b _ _; simp [getDepth_nil]
  | @step cfg cfg' tok _ hstep ih =>
    intro b hok hnot
    have haux := step_eq hstep
    have hsrc : cfg.1 ∉ afterSet D b := by
      intro hin
      obtain ⟨p, _, he, _⟩ := step_edge hstep
      exact hnot (afterOk_closed hok he hin)
    rcases consumeAux_depth (b := b) haux (ih b hok hsrc) with h' | ⟨g, hg, hm⟩
    · exact h'
    · simp only [Option.some.injEq] at hg
      subst hg
      exact absurd (afterOk_seed hok (Dfa.mem_edges_of_row hm)) hnot

/-! ## soundness -/

theorem filter_length_le_one {α : Type} {f : α → Bool} {l : List α}
    (h : l.Pairwise (fun a b => ¬ (f a = true ∧ f b = true))) : (l.filter f).length ≤ 1 := by
  induction l with
  | nil => simp
  | cons a l ih =>
    have h' := List.pairwise_cons.1 h
    cases ha : f a
    · simpa [List.filter_cons, ha] using ih h'.2
    · have : l.filter f = [] := by
        rw [List.filter_eq_nil_iff]
        intro b hb hfb
        exact h'.1 b hb ⟨ha, hfb⟩
      simp [ha, this]

/-- what `rowOk` gives in a reachable configuration (long rows) -/
theorem rowOk_facts {D : Dfa Pred} {s : DState} {ds : Depths} {row : List (Pred × DState)}
    (hinv : DepthInv D (s, ds)) (hrow : rowOk D s row = true) (hlen : ¬ row.length ≤ 1)
    (x : Tok) :
    (∀ pt ∈ row, pt.1.isBal = true → getDepth ds pt.1 ≤ 0) ∧
    row.Pairwise (fun a b => ¬ (a.1.isBal = true ∧ b.1.isBal = true)) ∧
    row.Pairwise (fun a b => ¬ (a.1.eff.eval x = true ∧ b.1.eff.eval x = true)) := by
  simp only [rowOk, Bool.or_eq_true, decide_eq_true_eq, hlen, false_or, Bool.and_eq_true] at hrow
  obtain ⟨hpw, hall⟩ := hrow
  have hpw' := pairwiseB_sound hpw
  refine ⟨?_, ?_, ?_⟩
  · intro pt hm hb
    have := List.all_eq_true.1 hall pt hm
    simp only [hb, Bool.not_true, Bool.false_or, Bool.and_eq_true, Bool.not_eq_true'] at this
    apply hinv pt.1 this.1
    simpa using this.2
  · refine hpw'.imp ?_
    intro a b hab ⟨h1, h2⟩
    simp [h1, h2] at hab
  · refine hpw'.imp ?_
    intro a b hab hov
    simp only [Bool.and_eq_true, Bool.not_eq_true'] at hab
    exact overlapPure_sound hab.2 x hov

/-- soundness of the checker: in a reachable configuration `consume` never raises -/
theorem unambiguous_sound (D : Dfa Pred) (h : unambiguous D = true) :
    ∀ cfg, Reach D cfg → ∀ tok e, (dfaMachine D tokAcceptor).step cfg tok ≠ .error e := by
  intro cfg hr tok e
  obtain ⟨s, ds⟩ := cfg
  have hrow := unambiguous_row h s
  have hinv := reach_depthInv hr
  show consume tokAcceptor (D.row s) ds tok ≠ .error e
  by_cases hlen : (D.row s).length ≤ 1
  · match hd : D.row s, hlen with
    | [], _ => simp [consume, consumeAux]
    | [(p, t)], _ =>
      cases hacc : (tokAcceptor.accept p ds tok).1 <;> simp [consume, consumeAux, hacc]
  · obtain ⟨h1, h2, h3⟩ := rowOk_facts hinv hrow hlen tok
    obtain ⟨r, hr⟩ := consumeAux_ok tok (D.row s) none ds h1 h2 h3 (by simp)
    simp only [consume, hr]
    obtain ⟨_ | t, ps⟩ := r <;> simp

/-- soundness, "at most one transition applies" form -/
theorem unambiguous_atMostOne (D : Dfa Pred) (h : unambiguous D = true) :
    ∀ cfg, Reach D cfg → ∀ tok,
      ((D.row cfg.1).filter (fun pt => (acceptTok pt.1 cfg.2 tok).1)).length ≤ 1 := by
  intro cfg hr tok
  obtain ⟨s, ds⟩ := cfg
  have hrow := unambiguous_row h s
  have hinv := reach_depthInv hr
  by_cases hlen : (D.row s).length ≤ 1
  · exact Nat.le_trans (List.length_filter_le _ _) hlen
  · obtain ⟨h1, _, h3⟩ := rowOk_facts hinv hrow hlen tok
    apply filter_length_le_one
    refine (List.Pairwise.and_mem.1 h3).imp ?_
    intro a b hab
    obtain ⟨ha, hb, hab⟩ := hab
    show ¬ ((acceptTok a.1 ds tok).1 = true ∧ (acceptTok b.1 ds tok).1 = true)
    rw [acceptTok_low tok (h1 a ha), acceptTok_low tok (h1 b hb)]
    exact hab

/-! ## lifting to whole runs: `find_all`, `match`, `starts_with`

`findAll_error` only says that *some* state raises; here the raising state is shown to satisfy
any step-closed predicate that holds initially (in particular `Reach`). -/

section
variable {β σ : Type} {A : Machine β σ} (P : σ → Prop)

theorem procOne_error_at {idx : Nat} {x : β} {fs : FS β σ} {a : Att β σ} {e : Err}
    (h : procOne A idx x fs a = .error e) : A.step a.st x = .error e := by
  unfold procOne at h
  split at h
  · cases h
  · split at h
    · cases h
    · split at h
      · rename_i e' hs
        cases h
        exact hs
      · cases h
      · cases h

theorem procOne_next_inv (hstep : ∀ q x q', P q → A.step q x = .ok (some q') → P q')
    {idx : Nat} {x : β} {fs fs' : FS β σ} {a : Att β σ}
    (hfs : ∀ b ∈ fs.next, P b.st) (ha : P a.st) (h : procOne A idx x fs a = .ok fs') :
    ∀ b ∈ fs'.next, P b.st := by
  unfold procOne at h
  split at h
  · cases h; exact hfs
  · split at h
    · cases h; exact hfs
    · split at h
      · cases h
      · rename_i q hs
        cases h
        intro b hb
        rcases List.mem_cons.1 hb with rfl | hb
        · exact hstep _ _ _ ha hs
        · exact hfs b hb
      · cases h
        split <;> exact hfs

theorem procAll_error_inv (hstep : ∀ q x q', P q → A.step q x = .ok (some q') → P q')
    {idx : Nat} {x : β} {ps : List (Att β σ)} {fs : FS β σ} {e : Err}
    (hps : ∀ a ∈ ps, P a.st) (hfs : ∀ b ∈ fs.next, P b.st)
    (h : procAll A idx x ps fs = .error e) : ∃ q x, P q ∧ A.step q x = .error e := by
  induction ps generalizing fs with
  | nil => cases h
  | cons a ps ih =>
    simp only [procAll] at h
    split at h
    · rename_i e' h1
      cases h
      exact ⟨_, _, hps a (List.mem_cons_self ..), procOne_error_at h1⟩
    · rename_i fs1 h1
      exact ih (fun b hb => hps b (List.mem_cons_of_mem _ hb))
        (procOne_next_inv P hstep hfs (hps a (List.mem_cons_self ..)) h1) h

theorem procAll_next_inv (hstep : ∀ q x q', P q → A.step q x = .ok (some q') → P q')
    {idx : Nat} {x : β} {ps : List (Att β σ)} {fs fs' : FS β σ}
    (hps : ∀ a ∈ ps, P a.st) (hfs : ∀ b ∈ fs.next, P b.st)
    (h : procAll A idx x ps fs = .ok fs') : ∀ b ∈ fs'.next, P b.st := by
  induction ps generalizing fs with
  | nil => simp only [procAll, Except.ok.injEq] at h; subst h; exact hfs
  | cons a ps ih =>
    simp only [procAll] at h
    split at h
    · cases h
    · rename_i fs1 h1
      exact ih (fun b hb => hps b (List.mem_cons_of_mem _ hb))
        (procOne_next_inv P hstep hfs (hps a (List.mem_cons_self ..)) h1) h

theorem outer_error_inv (h0 : P A.init)
    (hstep : ∀ q x q', P q → A.step q x = .ok (some q') → P q')
    {idx : Nat} {xs : List β} {ms : List (Match β)} {act : List (Att β σ)} {e : Err}
    (hact : ∀ a ∈ act, P a.st) (h : outer A idx xs ms act = .error e) :
    ∃ q x, P q ∧ A.step q x = .error e := by
  induction xs generalizing idx ms act with
  | nil => cases h
  | cons x xs ih =>
    have hps : ∀ a ∈ act ++ [⟨idx, A.init, []⟩], P a.st := by
      intro a ha
      rcases List.mem_append.1 ha with ha | ha
      · exact hact a ha
      · simp only [List.mem_singleton] at ha; subst ha; exact h0
    simp only [outer] at h
    split at h
    · rename_i e' h1
      cases h
      exact procAll_error_inv P hstep hps (by simp) h1
    · rename_i fs h1
      refine ih ?_ h
      intro a ha
      exact procAll_next_inv P hstep hps (by simp) h1 a (List.mem_reverse.1 ha)

/-- `find_all` raises only what `consume` raises *in a state satisfying the invariant `P`* -/
theorem findAll_error_inv (h0 : P A.init)
    (hstep : ∀ q x q', P q → A.step q x = .ok (some q') → P q')
    {xs : List β} {e : Err} (h : findAll A xs = .error e) :
    ∃ q x, P q ∧ A.step q x = .error e := by
  unfold findAll at h
  split at h
  · rename_i e' h1
    cases h
    exact outer_error_inv P h0 hstep (by simp) h1
  · cases h

/-- if `consume` never raises in states satisfying `P`, `find_all` returns -/
theorem findAll_total_inv (h0 : P A.init)
    (hstep : ∀ q x q', P q → A.step q x = .ok (some q') → P q')
    (hne : ∀ q, P q → ∀ x e, A.step q x ≠ .error e) (xs : List β) :
    ∃ ms, findAll A xs = .ok ms := by
  cases h : findAll A xs with
  | ok ms => exact ⟨ms, rfl⟩
  | error e =>
    obtain ⟨q, x, hq, hs⟩ := findAll_error_inv P h0 hstep h
    exact absurd hs (hne q hq x e)

theorem startsWithM_total_inv
    (hstep : ∀ q x q', P q → A.step q x = .ok (some q') → P q')
    (hne : ∀ q, P q → ∀ x e, A.step q x ≠ .error e) (xs : List β) (q : σ) (hq : P q) (n : Nat) :
    ∃ r, startsWithM A q xs n = .ok r := by
  induction xs generalizing q n with
  | nil => exact ⟨_, rfl⟩
  | cons x xs ih =>
    simp only [startsWithM]
    rcases hs : A.step q x with e | (_ | q')
    · exact absurd hs (hne q hq x e)
    · exact ⟨_, rfl⟩
    · simp only
      split
      · exact ⟨_, rfl⟩
      · exact ih q' (hstep _ _ _ hq hs) _

theorem matchM_total_inv
    (hstep : ∀ q x q', P q → A.step q x = .ok (some q') → P q')
    (hne : ∀ q, P q → ∀ x e, A.step q x ≠ .error e) (xs : List β) (q : σ) (hq : P q) (n : Nat) :
    ∃ r, matchM A q xs n = .ok r := by
  induction xs generalizing q n with
  | nil => exact ⟨_, rfl⟩
  | cons x xs ih =>
    simp only [matchM]
    rcases hs : A.step q x with e | (_ | q')
    · exact absurd hs (hne q hq x e)
    · exact ⟨_, rfl⟩
    · exact ih q' (hstep _ _ _ hq hs) _

end

/-- `find_all` with an unambiguous pattern never raises, on any token sequence -/
theorem findAll_unambiguous (D : Dfa Pred) (h : unambiguous D = true) (toks : List Tok) :
    ∃ ms, findAll (dfaMachine D tokAcceptor) toks = .ok ms :=
  findAll_total_inv (Reach D) Reach.init (fun _ _ _ hq hs => Reach.step hq hs)
    (unambiguous_sound D h) toks

/-- `starts_with` with an unambiguous pattern never raises -/
theorem startsWithM_unambiguous (D : Dfa Pred) (h : unambiguous D = true) (toks : List Tok)
    (n : Nat) :
    ∃ r, startsWithM (dfaMachine D tokAcceptor) (dfaMachine D tokAcceptor).init toks n = .ok r :=
  startsWithM_total_inv (Reach D) (fun _ _ _ hq hs => Reach.step hq hs)
    (unambiguous_sound D h) toks _ Reach.init n

/-- `match` with an unambiguous pattern never raises -/
theorem matchM_unambiguous (D : Dfa Pred) (h : unambiguous D = true) (toks : List Tok)
    (n : Nat) :
    ∃ r, matchM (dfaMachine D tokAcceptor) (dfaMachine D tokAcceptor).init toks n = .ok r :=
  matchM_total_inv (Reach D) (fun _ _ _ hq hs => Reach.step hq hs)
    (unambiguous_sound D h) toks _ Reach.init n

end CL
