import CodeLimit.Lemmas.SubsetSem
/-!
# The worklist subset construction: partial correctness of the table

If `nfaToDfa N ord = some D` (for a well-formed `N` and an iteration order `ord`) then there is
a list `marked` of processed state sets such that the table `D` is *good*: the start set is
processed, processed sets are closed under `delta` along enabled letters, the row of the
DFA object of a processed set `T` is `rowOf N ord T`, and the accepting list is exact.
-/
namespace CL

variable {α : Type} [DecidableEq α]

/-- the NFA state set a DFA object stands for -/
def label (N : Nfa α) : DState → List Nat
  | .start => startSet N
  | .set T => T

/-- the DFA object that the construction uses for a state set -/
def stateOf (N : Nfa α) (T : List Nat) : DState :=
  if T = startSet N then .start else .set T

/-- the row the construction stores for a state set -/
def rowOf (N : Nfa α) (ord : List α → List α) (T : List Nat) : List (α × DState) :=
  (ord (transitions N.edges T)).map (fun p => (p, DState.set (delta N T p)))

omit [DecidableEq α] in
theorem label_stateOf (N : Nfa α) (T : List Nat) : label N (stateOf N T) = T := by
  unfold stateOf
  split
  · rename_i h; simp [label, h]
  · rfl

omit [DecidableEq α] in
theorem stateOf_inj {N : Nfa α} {T T' : List Nat} (h : stateOf N T = stateOf N T') : T = T' := by
  have := congrArg (label N) h
  simpa [label_stateOf] using this

omit [DecidableEq α] in
theorem stateOf_startSet (N : Nfa α) : stateOf N (startSet N) = .start := by
  simp [stateOf]

theorem stateOf_delta {N : Nfa α} (hN : N.WF) (T : List Nat) (a : α) :
    stateOf N (delta N T a) = .set (delta N T a) := by
  simp [stateOf, delta_ne_startSet hN T a]

omit [DecidableEq α] in
theorem mem_ord {ord : List α → List α} (hord : IsOrder ord) (l : List α) (a : α) :
    a ∈ ord l ↔ a ∈ l := (hord l).mem_iff

theorem rowOf_labels (N : Nfa α) (ord : List α → List α) (T : List Nat) :
    (rowOf N ord T).map (·.1) = ord (transitions N.edges T) := by
  simp [rowOf, Function.comp_def]

theorem rowOf_nodup (N : Nfa α) {ord : List α → List α} (hord : IsOrder ord) (T : List Nat) :
    ((rowOf N ord T).map (·.1)).Nodup := by
  rw [rowOf_labels]
  exact (hord _).nodup_iff.2 (nodup_transitions _ _)

theorem rowOf_find_pos (N : Nfa α) {ord : List α → List α} (hord : IsOrder ord) (T : List Nat)
    (a : α) (ha : a ∈ transitions N.edges T) :
    (rowOf N ord T).find? (fun t => t.1 = a) = some (a, .set (delta N T a)) := by
  unfold rowOf
  have hmem : a ∈ ord (transitions N.edges T) := (mem_ord hord _ a).2 ha
  generalize ord (transitions N.edges T) = l at hmem
  induction l with
  | nil => cases hmem
  | cons b l ih =>
    by_cases hb : b = a
    · subst hb; simp
    · have : a ∈ l := by
        rcases List.mem_cons.1 hmem with h | h
        · exact absurd h.symm hb
        · exact h
      simp only [List.map_cons, List.find?_cons, hb, decide_false]
      exact ih this

theorem rowOf_find_neg (N : Nfa α) {ord : List α → List α} (hord : IsOrder ord) (T : List Nat)
    (a : α) (ha : a ∉ transitions N.edges T) :
    (rowOf N ord T).find? (fun t => t.1 = a) = none := by
  rw [List.find?_eq_none]
  intro t ht
  have : t.1 ∈ (rowOf N ord T).map (·.1) := List.mem_map_of_mem ht
  rw [rowOf_labels, mem_ord hord] at this
  intro h
  simp only [decide_eq_true_eq] at h
  exact ha (h ▸ this)

/-! ## the loop invariant -/

structure LoopInv (N : Nfa α) (ord : List α → List α)
    (st : List (DState × List Nat)) (marked : List (List Nat)) (D : Dfa α) : Prop where
  start : startSet N ∈ marked ∨ ∃ e ∈ st, e.2 = startSet N
  stk : ∀ e ∈ st, e.1 = stateOf N e.2
  rows : ∀ r ∈ D.rows, ∃ T ∈ marked, r.1 = stateOf N T ∧ r.2 = rowOf N ord T
  hasRow : ∀ T ∈ marked, ∃ row, (stateOf N T, row) ∈ D.rows
  closed : ∀ T ∈ marked, ∀ a ∈ transitions N.edges T,
    delta N T a ∈ marked ∨ ∃ e ∈ st, e.2 = delta N T a
  acc : ∀ s, s ∈ D.acc ↔ ∃ T ∈ marked, s = stateOf N T ∧ N.acc ∈ T

theorem dfaLoop_nil (N : Nfa α) (ord : List α → List α) (fuel : Nat)
    (marked : List (List Nat)) (D : Dfa α) :
    dfaLoop N ord (fuel + 1) [] marked D = some D := rfl

theorem dfaLoop_cons (N : Nfa α) (ord : List α → List α) (fuel : Nat) (s : DState)
    (T : List Nat) (st : List (DState × List Nat)) (marked : List (List Nat)) (D : Dfa α) :
    dfaLoop N ord (fuel + 1) ((s, T) :: st) marked D =
      if marked.contains T then dfaLoop N ord fuel st marked D
      else
        dfaLoop N ord fuel
          (((ord (transitions N.edges T)).map
              (fun p => (DState.set (delta N T p), delta N T p))).reverse ++ st)
          (T :: marked)
          { rows := (s, rowOf N ord T) :: D.rows,
            acc := if T.contains N.acc then s :: D.acc else D.acc } := rfl

theorem LoopInv.skip {N : Nfa α} {ord : List α → List α} {s : DState} {T : List Nat}
    {st : List (DState × List Nat)} {marked : List (List Nat)} {D : Dfa α}
    (h : LoopInv N ord ((s, T) :: st) marked D) (hT : T ∈ marked) :
    LoopInv N ord st marked D where
  start := by
    rcases h.start with h1 | ⟨e, he, h1⟩
    · exact .inl h1
    · rcases List.mem_cons.1 he with rfl | he
      · exact .inl (h1 ▸ hT)
      · exact .inr ⟨e, he, h1⟩
  stk := fun e he => h.stk e (List.mem_cons_of_mem _ he)
  rows := h.rows
  hasRow := h.hasRow
  closed := by
    intro T' hT' a ha
    rcases h.closed T' hT' a ha with h1 | ⟨e, he, h1⟩
    · exact .inl h1
    · rcases List.mem_cons.1 he with rfl | he
      · exact .inl (h1 ▸ hT)
      · exact .inr ⟨e, he, h1⟩
  acc := h.acc

theorem LoopInv.process {N : Nfa α} (hN : N.WF) {ord : List α → List α} (hord : IsOrder ord)
    {s : DState} {T : List Nat}
    {st : List (DState × List Nat)} {marked : List (List Nat)} {D : Dfa α}
    (h : LoopInv N ord ((s, T) :: st) marked D) :
    LoopInv N ord
      (((ord (transitions N.edges T)).map
          (fun p => (DState.set (delta N T p), delta N T p))).reverse ++ st)
      (T :: marked)
      { rows := (s, rowOf N ord T) :: D.rows,
        acc := if T.contains N.acc then s :: D.acc else D.acc } := by
  have hs : s = stateOf N T := h.stk (s, T) (by simp)
  refine ⟨?_, ?_, ?_, ?_, ?_, ?_⟩
  · -- start
    rcases h.start with h1 | ⟨e, he, h1⟩
    · exact .inl (List.mem_cons_of_mem _ h1)
    · rcases List.mem_cons.1 he with rfl | he
      · exact .inl (by simp at h1; simp [h1])
      · exact .inr ⟨e, by simp [he], h1⟩
  · -- stk
    intro e he
    rcases List.mem_append.1 he with he | he
    · rw [List.mem_reverse, List.mem_map] at he
      obtain ⟨p, _, rfl⟩ := he
      exact (stateOf_delta hN T p).symm
    · exact h.stk e (List.mem_cons_of_mem _ he)
  · -- rows
    intro r hr
    rcases List.mem_cons.1 hr with rfl | hr
    · exact ⟨T, by simp, hs, rfl⟩
    · obtain ⟨T', hT', h1, h2⟩ := h.rows r hr
      exact ⟨T', List.mem_cons_of_mem _ hT', h1, h2⟩
  · -- hasRow
    intro T' hT'
    rcases List.mem_cons.1 hT' with rfl | hT'
    · exact ⟨rowOf N ord T', by simp [hs]⟩
    · obtain ⟨row, hrow⟩ := h.hasRow T' hT'
      exact ⟨row, List.mem_cons_of_mem _ hrow⟩
  · -- closed
    intro T' hT' a ha
    rcases List.mem_cons.1 hT' with rfl | hT'
    · right
      refine ⟨(DState.set (delta N T' a), delta N T' a), ?_, rfl⟩
      apply List.mem_append_left
      rw [List.mem_reverse, List.mem_map]
      exact ⟨a, (mem_ord hord _ a).2 ha, rfl⟩
    · rcases h.closed T' hT' a ha with h1 | ⟨e, he, h1⟩
      · exact .inl (List.mem_cons_of_mem _ h1)
      · rcases List.mem_cons.1 he with rfl | he
        · exact .inl (by simp at h1; simp [h1])
        · exact .inr ⟨e, by simp [he], h1⟩
  · -- acc
    intro s'
    by_cases hacc : N.acc ∈ T
    · have hc : T.contains N.acc = true := by simpa using hacc
      simp only [hc, if_true, List.mem_cons, h.acc s']
      constructor
      · rintro (rfl | ⟨T', hT', h1, h2⟩)
        · exact ⟨T, .inl rfl, hs, hacc⟩
        · exact ⟨T', .inr hT', h1, h2⟩
      · rintro ⟨T', (rfl | hT'), h1, h2⟩
        · exact .inl (h1.trans hs.symm)
        · exact .inr ⟨T', hT', h1, h2⟩
    · have hc : T.contains N.acc = false := by simpa using hacc
      simp only [hc, Bool.false_eq_true, if_false, List.mem_cons, h.acc s']
      constructor
      · rintro ⟨T', hT', h1, h2⟩
        exact ⟨T', .inr hT', h1, h2⟩
      · rintro ⟨T', (rfl | hT'), h1, h2⟩
        · exact absurd h2 hacc
        · exact ⟨T', hT', h1, h2⟩

theorem dfaLoop_inv {N : Nfa α} (hN : N.WF) {ord : List α → List α} (hord : IsOrder ord)
    (fuel : Nat) :
    ∀ (st : List (DState × List Nat)) (marked : List (List Nat)) (D D' : Dfa α),
      LoopInv N ord st marked D → dfaLoop N ord fuel st marked D = some D' →
      ∃ marked', LoopInv N ord [] marked' D' := by
  induction fuel with
  | zero => intro st marked D D' _ h; simp [dfaLoop] at h
  | succ fuel ih =>
    intro st marked D D' hinv h
    cases st with
    | nil =>
      rw [dfaLoop_nil] at h
      cases h
      exact ⟨marked, hinv⟩
    | cons e st =>
      obtain ⟨s, T⟩ := e
      rw [dfaLoop_cons] at h
      by_cases hm : T ∈ marked
      · have hc : marked.contains T = true := by simpa using hm
        rw [hc, if_pos rfl] at h
        exact ih _ _ _ _ (hinv.skip hm) h
      · have hc : marked.contains T = false := by simpa using hm
        rw [hc, if_neg (by simp)] at h
        exact ih _ _ _ _ (hinv.process hN hord) h

theorem LoopInv.init (N : Nfa α) (ord : List α → List α) :
    LoopInv N ord [(DState.start, startSet N)] [] ⟨[], []⟩ where
  start := .inr ⟨(DState.start, startSet N), by simp, rfl⟩
  stk := by intro e he; simp at he; subst he; exact (stateOf_startSet N).symm
  rows := by intro r hr; cases hr
  hasRow := by intro T hT; cases hT
  closed := by intro T hT; cases hT
  acc := by intro s; simp

/-! ## good tables -/

/-- what the finished table satisfies -/
structure Good (N : Nfa α) (ord : List α → List α) (D : Dfa α) (marked : List (List Nat)) :
    Prop where
  start : startSet N ∈ marked
  closed : ∀ T ∈ marked, ∀ a ∈ transitions N.edges T, delta N T a ∈ marked
  row_eq : ∀ T ∈ marked, D.row (stateOf N T) = rowOf N ord T
  row_cases : ∀ s, D.row s = [] ∨ ∃ T, D.row s = rowOf N ord T
  isAcc : ∀ T ∈ marked, (D.isAcc (stateOf N T) = true ↔ N.acc ∈ T)

theorem LoopInv.good {N : Nfa α} {ord : List α → List α} {marked : List (List Nat)} {D : Dfa α}
    (h : LoopInv N ord [] marked D) : Good N ord D marked where
  start := by
    rcases h.start with h1 | ⟨e, he, _⟩
    · exact h1
    · cases he
  closed := by
    intro T hT a ha
    rcases h.closed T hT a ha with h1 | ⟨e, he, _⟩
    · exact h1
    · cases he
  row_eq := by
    intro T hT
    obtain ⟨row, hrow⟩ := h.hasRow T hT
    unfold Dfa.row
    cases hf : D.rows.find? (fun r => r.1 = stateOf N T) with
    | none =>
      rw [List.find?_eq_none] at hf
      exact absurd (by simp) (hf _ hrow)
    | some r =>
      have hr := List.mem_of_find?_eq_some hf
      have hk := List.find?_some hf
      simp only [decide_eq_true_eq] at hk
      obtain ⟨T', _, h1, h2⟩ := h.rows r hr
      have : T' = T := stateOf_inj (h1.symm.trans hk)
      subst this
      exact h2
  row_cases := by
    intro s
    unfold Dfa.row
    cases hf : D.rows.find? (fun r => r.1 = s) with
    | none => exact .inl rfl
    | some r =>
      have hr := List.mem_of_find?_eq_some hf
      obtain ⟨T', _, _, h2⟩ := h.rows r hr
      exact .inr ⟨T', h2⟩
  isAcc := by
    intro T hT
    unfold Dfa.isAcc
    rw [List.contains_iff_mem, h.acc]
    constructor
    · rintro ⟨T', _, h1, h2⟩
      exact stateOf_inj h1 ▸ h2
    · intro h2
      exact ⟨T, hT, rfl, h2⟩

/-- partial correctness of `nfaToDfa` -/
theorem nfaToDfa_good {N : Nfa α} (hN : N.WF) {ord : List α → List α} (hord : IsOrder ord)
    {D : Dfa α} (h : nfaToDfa N ord = some D) : ∃ marked, Good N ord D marked := by
  obtain ⟨marked, hinv⟩ := dfaLoop_inv hN hord _ _ _ _ _ (LoopInv.init N ord) h
  exact ⟨marked, hinv.good⟩

theorem Good.row_nodup {N : Nfa α} {ord : List α → List α} (hord : IsOrder ord)
    {D : Dfa α} {marked : List (List Nat)} (h : Good N ord D marked) (s : DState) :
    ((D.row s).map (·.1)).Nodup := by
  rcases h.row_cases s with h1 | ⟨T, h1⟩
  · rw [h1]; simp
  · rw [h1]; exact rowOf_nodup N hord T

end CL
