import CodeLimit.Lemmas.Unambiguous
import CodeLimit.Model.Scopes
/-!
# Header extraction never raises (for C15)

* `hasNameOnEveryAcceptingPath D`: every accepting run of `D` takes a `.name` transition, so
  `next(t for t in pattern.tokens if t.is_name())` in `get_headers` cannot raise
  `StopIteration`;
* `patOk` / `langOk`: the decidable bundle checked (by kernel evaluation) for the generated
  language definitions;
* `getHeaders_ok` / `extractHeaders_ok`: under `langOk`, header extraction returns, and every
  header is a greedy match of one of the language's patterns whose name token is the first
  name token of the match.
-/
namespace CL

/-! ## a name token on every accepting path -/

def nonNameEdges (D : Dfa Pred) : EdgeL := D.edges.filter (fun e => e.2.1 != .name)

/-- states reachable from the start state without a `.name`-labelled transition -/
def noNameSet (D : Dfa Pred) : List DState :=
  closeUnder (nonNameEdges D) (D.edges.length + 1) [.start]

/-- no accepting state can be reached without taking a transition labelled exactly `.name`
(the search result is re-checked: it contains the start state and is closed) -/
def hasNameOnEveryAcceptingPath (D : Dfa Pred) : Bool :=
  (noNameSet D).contains .start && isClosed (nonNameEdges D) (noNameSet D) &&
    (noNameSet D).all (fun s => !D.isAcc s)

theorem firstName_ok {l : List Tok} {n : Tok} (h : firstName l = .ok n) :
    n.isName = true ∧ n ∈ l := by
  induction l with
  | nil => cases h
  | cons t ts ih =>
    simp only [firstName] at h
    split at h
    · rename_i ht
      cases h
      exact ⟨ht, List.mem_cons_self ..⟩
    · exact ⟨(ih h).1, List.mem_cons_of_mem _ (ih h).2⟩

theorem hasName_start {D : Dfa Pred} (h : hasNameOnEveryAcceptingPath D = true) :
    D.isAcc .start = false := by
  simp only [hasNameOnEveryAcceptingPath, Bool.and_eq_true, List.all_eq_true] at h
  have h1 : DState.start ∈ noNameSet D := by simpa using h.1.1
  simpa using h.2 _ h1

/-- an accepting run that starts in a state of `noNameSet` consumes a name token -/
theorem run_has_name {D : Dfa Pred} (h : hasNameOnEveryAcceptingPath D = true)
    (toks : List Tok) (cfg q : DState × Depths) (hs : cfg.1 ∈ noNameSet D)
    (hr : runM (dfaMachine D tokAcceptor) cfg toks = some q)
    (hacc : (dfaMachine D tokAcceptor).acc q = true) : ∃ n, firstName toks = .ok n := by
  have h' := h
  simp only [hasNameOnEveryAcceptingPath, Bool.and_eq_true, List.all_eq_true] at h'
  obtain ⟨⟨_, hclosed⟩, hnacc⟩ := h'
  induction toks generalizing cfg with
  | nil =>
    simp only [runM, Option.some.injEq] at hr
    subst hr
    have := hnacc _ hs
    have hacc' : D.isAcc cfg.1 = true := hacc
    simp [hacc'] at this
  | cons x xs ih =>
    simp only [runM] at hr
    split at hr
    · rename_i cfg' hstep
      obtain ⟨p, ds0, he, ha⟩ := step_edge hstep
      by_cases hp : p = .name
      · subst hp
        have hx : x.isName = true := ha
        exact ⟨x, by simp [firstName, hx]⟩
      · have he' : (cfg.1, p, cfg'.1) ∈ nonNameEdges D := by
          simp only [nonNameEdges, List.mem_filter]
          exact ⟨he, by simpa using hp⟩
        obtain ⟨n, hn⟩ := ih cfg' (isClosed_sound hclosed he' hs) hr
        simp only [firstName]
        split
        · exact ⟨x, rfl⟩
        · exact ⟨n, hn⟩
    · cases hr

/-- every match reported by `find_all` contains a name token -/
theorem findAll_firstName {D : Dfa Pred} (h : hasNameOnEveryAcceptingPath D = true)
    {toks : List Tok} {ms : List (Match Tok)}
    (hf : findAll (dfaMachine D tokAcceptor) toks = .ok ms) :
    ∀ m ∈ ms, ∃ n, firstName m.toks = .ok n := by
  intro m hm
  have hnn : (dfaMachine D tokAcceptor).acc (dfaMachine D tokAcceptor).init = false :=
    hasName_start h
  obtain ⟨hg, ht⟩ := (findAll_spec hnn (dfaMachine_deadStuck D tokAcceptor) hf).1 m hm
  obtain ⟨_, _, q, hr, hacc, _⟩ := hg
  rw [ht]
  refine run_has_name h _ _ q ?_ hr hacc
  simp only [hasNameOnEveryAcceptingPath, Bool.and_eq_true] at h
  simpa [dfaMachine] using h.1.1

/-! ## `slice` membership -/

theorem mem_slice {β : Type} {xs : List β} {s e : Nat} {x : β} (h : x ∈ slice xs s e) :
    ∃ i, s ≤ i ∧ i < e ∧ xs[i]? = some x := by
  unfold slice at h
  obtain ⟨i, hi⟩ := List.mem_iff_getElem?.1 h
  rw [List.getElem?_take] at hi
  split at hi
  · rename_i hlt
    rw [List.getElem?_drop] at hi
    exact ⟨s + i, by omega, by omega, hi⟩
  · cases hi

/-! ## the checker bundle -/

def followOk : Option (Rx Pred) → Bool
  | none => true
  | some f => match compileTok f with
    | .ok F => unambiguous F
    | .error _ => false

/-- everything needed of one header pattern: both expressions compile, both DFAs are
unambiguous, the header DFA does not accept the empty sequence and has a name token on every
accepting path -/
def patOk (hp : HeaderPat) : Bool :=
  (match compileTok hp.expr with
    | .ok D => unambiguous D && !D.isAcc .start && hasNameOnEveryAcceptingPath D
    | .error _ => false) && followOk hp.follow

def langOk (L : Language) : Bool := L.pats.all patOk

theorem patOk_expr {hp : HeaderPat} (h : patOk hp = true) :
    ∃ D, compileTok hp.expr = .ok D ∧ unambiguous D = true ∧ D.isAcc .start = false ∧
      hasNameOnEveryAcceptingPath D = true := by
  simp only [patOk, Bool.and_eq_true] at h
  have h1 := h.1
  split at h1
  · rename_i D hD
    simp only [Bool.and_eq_true, Bool.not_eq_true'] at h1
    exact ⟨D, hD, h1.1.1, h1.1.2, h1.2⟩
  · cases h1

theorem patOk_follow {hp : HeaderPat} (h : patOk hp = true) {f : Rx Pred}
    (hf : hp.follow = some f) : ∃ F, compileTok f = .ok F ∧ unambiguous F = true := by
  simp only [patOk, Bool.and_eq_true] at h
  have h2 := h.2
  rw [hf] at h2
  simp only [followOk] at h2
  split at h2
  · rename_i F hF; exact ⟨F, hF, h2⟩
  · cases h2

/-! ## `get_headers` -/

/-- `h` is a header produced for pattern `hp`: a greedy match of the compiled pattern whose
name is the first name token of the matched tokens -/
def HeaderOf (hp : HeaderPat) (toks : List Tok) (h : Header) : Prop :=
  ∃ D, compileTok hp.expr = .ok D ∧
    GreedyAt (dfaMachine D tokAcceptor) toks h.rng.s h.rng.e ∧
    firstName (slice toks h.rng.s h.rng.e) = .ok h.name

theorem HeaderOf.wf {hp : HeaderPat} {toks : List Tok} {h : Header} (hh : HeaderOf hp toks h) :
    h.rng.s < h.rng.e ∧ h.rng.e ≤ toks.length ∧ h.name.isName = true ∧
      ∃ i, h.rng.s ≤ i ∧ i < h.rng.e ∧ toks[i]? = some h.name := by
  obtain ⟨D, _, hg, hn⟩ := hh
  obtain ⟨hname, hmem⟩ := firstName_ok hn
  exact ⟨hg.1, hg.2.1, hname, mem_slice hmem⟩

theorem namesOf_ok {ms : List (Match Tok)} (h : ∀ m ∈ ms, ∃ n, firstName m.toks = .ok n) :
    ∃ hs, namesOf ms = .ok hs ∧
      ∀ hd ∈ hs, ∃ m ∈ ms, firstName m.toks = .ok hd.name ∧ hd.rng = ⟨m.s, m.e⟩ := by
  induction ms with
  | nil => exact ⟨[], rfl, by simp⟩
  | cons m ms ih =>
    obtain ⟨n, hn⟩ := h m (List.mem_cons_self ..)
    obtain ⟨hs, hhs, hall⟩ := ih (fun m' hm' => h m' (List.mem_cons_of_mem _ hm'))
    refine ⟨⟨n, ⟨m.s, m.e⟩⟩ :: hs, by simp [namesOf, hn, hhs], ?_⟩
    intro hd hhd
    rcases List.mem_cons.1 hhd with rfl | hhd
    · exact ⟨m, List.mem_cons_self .., hn, rfl⟩
    · obtain ⟨m', hm', h'⟩ := hall hd hhd
      exact ⟨m', List.mem_cons_of_mem _ hm', h'⟩

theorem filterFollow_ok {F : Dfa Pred} (hF : unambiguous F = true) (toks : List Tok)
    (ms : List (Match Tok)) :
    ∃ r, filterFollow (dfaMachine F tokAcceptor) toks ms = .ok r ∧ ∀ m ∈ r, m ∈ ms := by
  induction ms with
  | nil => exact ⟨[], rfl, by simp⟩
  | cons m ms ih =>
    obtain ⟨r, hr, hsub⟩ := ih
    obtain ⟨o, ho⟩ := startsWithM_unambiguous F hF (toks.drop m.e) 0
    cases o with
    | none =>
      exact ⟨r, by simp [filterFollow, ho, hr], fun m' hm' => List.mem_cons_of_mem _ (hsub m' hm')⟩
    | some k =>
      refine ⟨m :: r, by simp [filterFollow, ho, hr], ?_⟩
      intro m' hm'
      rcases List.mem_cons.1 hm' with rfl | hm'
      · exact List.mem_cons_self ..
      · exact List.mem_cons_of_mem _ (hsub m' hm')

/-- the follow-up filter of `get_headers` -/
def followFilter (follow : Option (Rx Pred)) (toks : List Tok) (ms : List (Match Tok)) :
    Except Err (List (Match Tok)) :=
  match follow with
  | none => .ok ms
  | some f => (compileTok f).bind (fun F => filterFollow (dfaMachine F tokAcceptor) toks ms)

theorem getHeaders_eq (hp : HeaderPat) (toks : List Tok) :
    getHeaders hp toks =
      (compileTok hp.expr).bind (fun D =>
        (findAll (dfaMachine D tokAcceptor) toks).bind (fun ms =>
          (followFilter hp.follow toks ms).bind namesOf)) := by
  unfold getHeaders followFilter
  cases hp.follow with
  | none => rfl
  | some f =>
    dsimp only
    cases compileTok f <;> rfl

/-- `get_headers` with a checked pattern never raises, and every header it returns is a
`HeaderOf` -/
theorem getHeaders_ok {hp : HeaderPat} (h : patOk hp = true) (toks : List Tok) :
    ∃ hs, getHeaders hp toks = .ok hs ∧ ∀ hd ∈ hs, HeaderOf hp toks hd := by
  obtain ⟨D, hD, hU, hnn, hN⟩ := patOk_expr h
  obtain ⟨ms, hms⟩ := findAll_unambiguous D hU toks
  have hspec := (findAll_spec (A := dfaMachine D tokAcceptor) hnn
    (dfaMachine_deadStuck D tokAcceptor) hms).1
  have hfn := findAll_firstName hN hms
  -- the matches that survive the follow-up filter
  have hfilter : ∃ ms', followFilter hp.follow toks ms = .ok ms' ∧ ∀ m ∈ ms', m ∈ ms := by
    cases hfo : hp.follow with
    | none => exact ⟨ms, rfl, fun _ hm => hm⟩
    | some f =>
      obtain ⟨F, hF, hFU⟩ := patOk_follow h hfo
      obtain ⟨r, hr, hsub⟩ := filterFollow_ok hFU toks ms
      exact ⟨r, by simp [followFilter, hF, hr, Except.bind], hsub⟩
  obtain ⟨ms', hms', hsub⟩ := hfilter
  obtain ⟨hs, hhs, hall⟩ := namesOf_ok (fun m hm => hfn m (hsub m hm))
  refine ⟨hs, ?_, ?_⟩
  · rw [getHeaders_eq, hD]
    simp only [Except.bind]
    rw [hms]
    simp only
    rw [hms']
    exact hhs
  · intro hd hhd
    obtain ⟨m, hm, hn, hrng⟩ := hall hd hhd
    obtain ⟨hg, ht⟩ := hspec m (hsub m hm)
    refine ⟨D, hD, ?_, ?_⟩
    · rw [hrng]; exact hg
    · rw [hrng, ← ht]; exact hn

theorem concatHeaders_ok {pats : List HeaderPat} (h : pats.all patOk = true) (toks : List Tok) :
    ∃ hs, concatHeaders toks pats = .ok hs ∧ ∀ hd ∈ hs, ∃ hp ∈ pats, HeaderOf hp toks hd := by
  induction pats with
  | nil => exact ⟨[], rfl, by simp⟩
  | cons hp hps ih =>
    simp only [List.all_cons, Bool.and_eq_true] at h
    obtain ⟨a, ha, hall⟩ := getHeaders_ok h.1 toks
    obtain ⟨b, hb, hbll⟩ := ih h.2
    refine ⟨a ++ b, by simp [concatHeaders, ha, hb], ?_⟩
    intro hd hhd
    rcases List.mem_append.1 hhd with hhd | hhd
    · exact ⟨hp, List.mem_cons_self .., hall hd hhd⟩
    · obtain ⟨hp', hm, h'⟩ := hbll hd hhd
      exact ⟨hp', List.mem_cons_of_mem _ hm, h'⟩

/-- `Language.extract_headers` of a checked language never raises -/
theorem extractHeaders_ok {L : Language} (h : langOk L = true) (toks : List Tok) :
    ∃ hs, extractHeaders L toks = .ok hs ∧ ∀ hd ∈ hs, ∃ hp ∈ L.pats, HeaderOf hp toks hd := by
  obtain ⟨hs, hhs, hall⟩ := concatHeaders_ok h toks
  unfold extractHeaders
  rw [hhs]
  cases L.prevKw with
  | none => exact ⟨hs, rfl, hall⟩
  | some kw =>
    exact ⟨_, rfl, fun hd hhd => hall hd (List.mem_filter.1 hhd).1⟩

/-! ## executable witnesses used by the examples of `Props/C15.lean` -/

/-- running the compiled pattern `r` over `toks` from the initial configuration ends in a
configuration where the nesting depth of `b` is `d` -/
def depthWitness (r : Rx Pred) (toks : List Tok) (b : Pred) (d : Int) : Bool :=
  match compileTok r with
  | .ok D =>
    (match runM (dfaMachine D tokAcceptor) (.start, []) toks with
      | some cfg => getDepth cfg.2 b == d
      | none => false)
  | .error _ => false

theorem depthWitness_spec {r : Rx Pred} {toks : List Tok} {b : Pred} {d : Int}
    (h : depthWitness r toks b d = true) :
    ∃ D cfg, compileTok r = .ok D ∧ Reach D cfg ∧ getDepth cfg.2 b = d := by
  unfold depthWitness at h
  split at h
  · rename_i D hD
    split at h
    · rename_i cfg hr
      exact ⟨D, cfg, hD, reach_runM toks Reach.init hr, by simpa using h⟩
    · cases h
  · cases h

/-- the compiled pattern `r` is rejected by the checker *and* `find_all` really raises
"Multiple transitions found!" on `toks` -/
def ambiguityWitness (r : Rx Pred) (toks : List Tok) : Bool :=
  match compileTok r with
  | .ok D =>
    !unambiguous D &&
      (match findAll (dfaMachine D tokAcceptor) toks with
        | .error .multipleTransitions => true
        | _ => false)
  | .error _ => false

theorem ambiguityWitness_spec {r : Rx Pred} {toks : List Tok}
    (h : ambiguityWitness r toks = true) :
    ∃ D, compileTok r = .ok D ∧ unambiguous D = false ∧
      findAll (dfaMachine D tokAcceptor) toks = .error .multipleTransitions := by
  unfold ambiguityWitness at h
  split at h
  · rename_i D hD
    simp only [Bool.and_eq_true, Bool.not_eq_true'] at h
    refine ⟨D, hD, h.1, ?_⟩
    have h2 := h.2
    split at h2
    · rename_i he; exact he
    · cases h2
  · cases h

/-- after running the compiled pattern `r` over `toks`, the current state has at least two
transitions and exactly one of them applies to `tok` -/
def choiceWitness (r : Rx Pred) (toks : List Tok) (tok : Tok) : Bool :=
  match compileTok r with
  | .ok D =>
    (match runM (dfaMachine D tokAcceptor) (.start, []) toks with
      | some cfg =>
        decide (2 ≤ (D.row cfg.1).length) &&
          ((D.row cfg.1).filter (fun pt => (acceptTok pt.1 cfg.2 tok).1)).length == 1
      | none => false)
  | .error _ => false

theorem choiceWitness_spec {r : Rx Pred} {toks : List Tok} {tok : Tok}
    (h : choiceWitness r toks tok = true) :
    ∃ D cfg, compileTok r = .ok D ∧ Reach D cfg ∧ 2 ≤ (D.row cfg.1).length ∧
      ((D.row cfg.1).filter (fun pt => (acceptTok pt.1 cfg.2 tok).1)).length = 1 := by
  unfold choiceWitness at h
  split at h
  · rename_i D hD
    split at h
    · rename_i cfg hr
      simp only [Bool.and_eq_true, decide_eq_true_eq, beq_iff_eq] at h
      exact ⟨D, cfg, hD, reach_runM toks Reach.init hr, h.1, h.2⟩
    · cases h
  · cases h

end CL
