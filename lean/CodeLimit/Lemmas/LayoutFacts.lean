import CodeLimit.Spec.Layout
import CodeLimit.Lemmas.NoclSorted
/-!
# Consequences of `Layout` used by the stage-A proofs of C01

* `Layout.extents_laminar` - whole functions (`[header start, body end)`) are disjoint or nested;
* `Layout.body_not_taken` - the body of an earlier function is never among the blocks that a
  later function consumes;
* `Layout.block_in_body` - every block that overlaps a body from its start on lies inside it.
-/
namespace CL

/-- two distinct members of a pairwise-related list are related one way or the other -/
theorem pairwise_mem_or {α : Type} {R : α → α → Prop} {l : List α} (h : l.Pairwise R)
    {a b : α} (ha : a ∈ l) (hb : b ∈ l) (hne : a ≠ b) : R a b ∨ R b a := by
  induction h with
  | nil => cases ha
  | @cons x l hx _ ih =>
    rcases List.mem_cons.mp ha with h1 | h1 <;> rcases List.mem_cons.mp hb with h2 | h2
    · exact absurd (h1.trans h2.symm) hne
    · exact .inl (h1 ▸ hx b h2)
    · exact .inr (h2 ▸ hx a h1)
    · exact ih h1 h2

theorem LayoutCore.posSorted {code : List Tok} {fns : List Fn} {blocks : List Range}
    (L : LayoutCore code fns blocks) : PosSorted code := L.pos_sorted

/-- blocks of a layout are determined by their first token -/
theorem LayoutCore.block_eq_of_start {code : List Tok} {fns : List Fn} {blocks : List Range}
    (L : LayoutCore code fns blocks) {a b : Range} (ha : a ∈ blocks) (hb : b ∈ blocks)
    (h : a.s = b.s) : a = b := by
  by_cases hne : a = b
  · exact hne
  · have := pairwise_mem_or L.blocks_sorted ha hb hne
    omega

/-- for two blocks of the layout, the later one is disjoint from or nested in the earlier -/
theorem LayoutCore.laminar' {code : List Tok} {fns : List Fn} {blocks : List Range}
    (L : LayoutCore code fns blocks) {a b : Range} (ha : a ∈ blocks) (hb : b ∈ blocks)
    (h : a.s < b.s) : a.e ≤ b.s ∨ b.e ≤ a.e := by
  have hne : a ≠ b := fun hab => by subst hab; omega
  rcases pairwise_mem_or (L.blocks_sorted.and L.laminar) ha hb hne with h1 | h1
  · exact h1.2
  · have := h1.1; omega

/-- two distinct functions of the layout start at different tokens -/
theorem LayoutCore.fns_lt_or {code : List Tok} {fns : List Fn} {blocks : List Range}
    (L : LayoutCore code fns blocks) {f g : Fn} (hf : f ∈ fns) (hg : g ∈ fns) (hne : f ≠ g) :
    f.hdr.rng.s < g.hdr.rng.s ∨ g.hdr.rng.s < f.hdr.rng.s :=
  pairwise_mem_or L.fns_sorted hf hg hne

/-- whole functions are disjoint or nested: the later one ends inside the earlier one or
starts after its end -/
theorem LayoutCore.extents_laminar {code : List Tok} {fns : List Fn} {blocks : List Range}
    (L : LayoutCore code fns blocks) {f g : Fn} (hf : f ∈ fns) (hg : g ∈ fns)
    (h : f.hdr.rng.s < g.hdr.rng.s) : f.body.e ≤ g.hdr.rng.s ∨ g.body.e ≤ f.body.e := by
  have hfb := L.body_mem f hf
  have hgb := L.body_mem g hg
  have hf1 := L.hdr_ok f hf
  have hg1 := L.hdr_ok g hg
  have hfo := L.blocks_ok _ hfb
  have hgo := L.blocks_ok _ hgb
  have gap := L.hdr_outside_gap f hf g hg
  have hl := L.hdrs_laminar f hf g hg h
  rcases L.block_vs_fn g hg f.body hfb with h1 | h1 | h1 | h1
  · exact .inr h1.2
  · omega
  · exact .inl h1
  · -- the header of `g` lies inside the header of `f`
    rcases L.block_vs_fn f hf g.body hgb with h2 | h2 | h2 | h2
    · omega
    · omega
    · omega
    · have b1 := L.body_first f hf g.body hgb
      have b2 := L.body_first g hg f.body hfb
      have : f.body.s = g.body.s := by omega
      exact absurd (L.block_eq_of_start hfb hgb this) (L.bodies_distinct f hf g hg h)

/-- the body of an earlier function `f` does not start inside (or directly after) the body of a
later function `g` -/
theorem Layout.body_not_taken {code : List Tok} {fns : List Fn} {blocks : List Range}
    (L : Layout code fns blocks) {f g : Fn} (hf : f ∈ fns) (hg : g ∈ fns)
    (h : f.hdr.rng.s < g.hdr.rng.s) : ¬ (g.body.s ≤ f.body.s ∧ f.body.s ≤ g.body.e) := by
  intro ⟨h1, h2⟩
  have hfb := L.body_mem f hf
  have hgb := L.body_mem g hg
  have hf1 := L.hdr_ok f hf
  have hg1 := L.hdr_ok g hg
  have hfo := L.blocks_ok _ hfb
  have hgo := L.blocks_ok _ hgb
  by_cases heq : g.body.s = f.body.s
  · exact absurd (L.block_eq_of_start hfb hgb heq.symm) (L.bodies_distinct f hf g hg h)
  · have b1 := L.body_first f hf g.body hgb
    have na := L.no_adjacent g hg f.body hfb
    rcases L.block_vs_fn f hf g.body hgb with h3 | h3 | h3 | h3 <;> omega

/-- a block that starts inside a body (or is the body) ends inside it -/
theorem Layout.block_in_body {code : List Tok} {fns : List Fn} {blocks : List Range}
    (L : Layout code fns blocks) {f : Fn} (hf : f ∈ fns) {b : Range} (hb : b ∈ blocks)
    (h1 : f.body.s ≤ b.s) (h2 : b.s ≤ f.body.e) : b.e ≤ f.body.e := by
  have hfb := L.body_mem f hf
  by_cases heq : f.body.s = b.s
  · rw [L.block_eq_of_start hfb hb heq]; exact Nat.le_refl _
  · have := L.laminar' hfb hb (by omega)
    have := L.no_adjacent f hf b hb
    omega

/-- every function lies inside the file -/
theorem LayoutCore.fn_bounds {code : List Tok} {fns : List Fn} {blocks : List Range}
    (L : LayoutCore code fns blocks) {f : Fn} (hf : f ∈ fns) :
    f.hdr.rng.s < f.hdr.rng.e ∧ f.hdr.rng.e ≤ f.body.s ∧ f.body.s < f.body.e ∧
      f.body.e ≤ code.length := by
  have := L.hdr_ok f hf
  have := L.blocks_ok _ (L.body_mem f hf)
  omega

end CL
