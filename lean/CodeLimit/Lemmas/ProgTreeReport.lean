import CodeLimit.Lemmas.ProgTreeNesting
import CodeLimit.Lemmas.LayoutCount
/-!
# Program trees: the expected report of the layout specification, read off the tree

`ownLines` of the layout specification (token indices, "not inside a function nested in `f`")
has the same distinct lines as the own tokens of the function node (`ownToks`: header, gap,
braces, and the body tokens that are not inside a nested function node); hence
`expected` = `treeReport` and `expectedFlat` = `treeReportFlat`.
-/
namespace CL

/-- line `l` carries a token of `code` with index in `[lo, hi)` that lies in none of the
functions `S` -/
def OwnL (code : List Tok) (S : List Fn) (lo hi : Nat) (l : Nat) : Prop :=
  ∃ j t, lo ≤ j ∧ j < hi ∧ code[j]? = some t ∧ t.line = l ∧
    ∀ g ∈ S, ¬ (g.hdr.rng.s ≤ j ∧ j < g.body.e)

theorem OwnL.split {code : List Tok} {S : List Fn} {lo mid hi l : Nat} (h1 : lo ≤ mid)
    (h2 : mid ≤ hi) : OwnL code S lo hi l ↔ OwnL code S lo mid l ∨ OwnL code S mid hi l := by
  constructor
  · rintro ⟨j, t, a, b, c, d, e⟩
    by_cases hj : j < mid
    · exact .inl ⟨j, t, a, hj, c, d, e⟩
    · exact .inr ⟨j, t, by omega, b, c, d, e⟩
  · rintro (⟨j, t, a, b, c, d, e⟩ | ⟨j, t, a, b, c, d, e⟩)
    · exact ⟨j, t, a, by omega, c, d, e⟩
    · exact ⟨j, t, by omega, b, c, d, e⟩

theorem OwnL.empty {code : List Tok} {S : List Fn} {lo hi l : Nat} (h : hi ≤ lo) :
    ¬ OwnL code S lo hi l := by
  rintro ⟨j, t, a, b, _⟩; omega

/-- only the functions that meet `[lo, hi)` matter -/
theorem OwnL.congr_sub {code : List Tok} {S S' : List Fn} {lo hi l : Nat}
    (h1 : ∀ g ∈ S', g ∈ S) (h2 : ∀ g ∈ S, g ∈ S' ∨ hi ≤ g.hdr.rng.s ∨ g.body.e ≤ lo) :
    OwnL code S lo hi l ↔ OwnL code S' lo hi l := by
  constructor
  · rintro ⟨j, t, a, b, c, d, e⟩
    exact ⟨j, t, a, b, c, d, fun g hg => e g (h1 g hg)⟩
  · rintro ⟨j, t, a, b, c, d, e⟩
    refine ⟨j, t, a, b, c, d, fun g hg => ?_⟩
    rcases h2 g hg with h | h | h
    · exact e g h
    · omega
    · omega

theorem OwnL.covered {code : List Tok} {S : List Fn} {lo hi l : Nat} {g : Fn} (hg : g ∈ S)
    (h1 : g.hdr.rng.s ≤ lo) (h2 : hi ≤ g.body.e) : ¬ OwnL code S lo hi l := by
  rintro ⟨j, t, a, b, _, _, e⟩
  exact e g hg ⟨by omega, by omega⟩

/-- a segment of the file, no functions to avoid: the lines of its tokens -/
theorem OwnL.seg {code : List Tok} {k : Nat} {ts : List Tok} (h : Seg code k ts) (l : Nat) :
    OwnL code [] k (k + ts.length) l ↔ l ∈ ts.map (·.line) := by
  rw [List.mem_map]
  constructor
  · rintro ⟨j, t, a, b, c, d, _⟩
    have hk : j - k < ts.length := by omega
    have := h.getElem? hk
    rw [show k + (j - k) = j by omega, c] at this
    exact ⟨t, List.mem_of_getElem? this.symm, d⟩
  · rintro ⟨t, ht, d⟩
    obtain ⟨n, hn, rfl⟩ := List.getElem_of_mem ht
    refine ⟨k + n, ts[n], by omega, by omega, ?_, d, fun _ hg => by cases hg⟩
    rw [h.getElem? hn, List.getElem?_eq_getElem hn]

theorem seg_singleton {code : List Tok} {k : Nat} {t : Tok} (h : code[k]? = some t) :
    Seg code k [t] := Seg.cons_iff.mpr ⟨h, Seg.nil _ _⟩

/-- **the own tokens of a sub-forest**: the lines of the tokens of `b.own` are the lines of the
tokens of the segment that lie in no function of `b` -/
theorem own_lines_core {code : List Tok} : ∀ (b : Prog Tok) (k : Nat), b.wfCore = true →
    Seg code k b.flat → ∀ l,
    (l ∈ b.own.map (·.line) ↔ OwnL code (fnsOf b k) k (k + b.size) l)
  | .nil, k, _, _, l => by
    simp only [Prog.own, List.map_nil, List.not_mem_nil, false_iff]
    exact OwnL.empty (by simp [Prog.size])
  | .leaf t rest, k, h, hseg, l => by
    simp only [Prog.wfCore, Bool.and_eq_true] at h
    rw [Prog.flat, Seg.cons_iff] at hseg
    have hb := fnsOf_bounds_core rest (k + 1) h.2
    have ih := own_lines_core rest (k + 1) h.2 hseg.2 l
    simp only [Prog.own, Prog.size, fnsOf, List.map_cons, List.mem_cons]
    rw [OwnL.split (mid := k + 1) (by omega) (by omega), ih,
      show k + (rest.size + 1) = k + 1 + rest.size by omega]
    refine or_congr ?_ Iff.rfl
    rw [OwnL.congr_sub (S' := []) (fun _ hg => by cases hg)
      (fun g hg => by have := hb g hg; exact .inr (.inl (by omega)))]
    have := OwnL.seg (seg_singleton hseg.1) l
    simpa using this.symm
  | .group op cl items rest, k, h, hseg, l => by
    simp only [Prog.wfCore, Bool.and_eq_true] at h
    obtain ⟨⟨⟨hop, hcl⟩, hwi⟩, hwr⟩ := h
    rw [Prog.flat, Seg.cons_iff, Seg.append_iff, Seg.cons_iff, Prog.size_eq] at hseg
    obtain ⟨ho, hsi, hc, hsr⟩ := hseg
    rw [show k + 1 + items.size + 1 = k + items.size + 2 by omega] at hsr
    have hbi := fnsOf_bounds_core items (k + 1) hwi
    have hbr := fnsOf_bounds_core rest (k + items.size + 2) hwr
    have ihi := own_lines_core items (k + 1) hwi hsi l
    have ihr := own_lines_core rest (k + items.size + 2) hwr hsr l
    simp only [Prog.own, Prog.size, fnsOf, List.map_cons, List.map_append, List.mem_cons,
      List.mem_append]
    rw [OwnL.split (mid := k + 1) (by omega) (by omega),
      OwnL.split (lo := k + 1) (mid := k + 1 + items.size) (by omega) (by omega),
      OwnL.split (lo := k + 1 + items.size) (mid := k + items.size + 2) (by omega) (by omega),
      ihi, ihr, show k + (items.size + rest.size + 2) = k + items.size + 2 + rest.size by omega]
    refine or_congr ?_ (or_congr ?_ (or_congr ?_ ?_))
    · rw [OwnL.congr_sub (S' := []) (fun _ hg => by cases hg) (fun g hg => by
        rcases List.mem_append.mp hg with hg | hg
        · have := hbi g hg; exact .inr (.inl (by omega))
        · have := hbr g hg; exact .inr (.inl (by omega)))]
      have := OwnL.seg (seg_singleton ho) l
      simpa using this.symm
    · exact (OwnL.congr_sub (fun g hg => List.mem_append_left _ hg) (fun g hg => by
        rcases List.mem_append.mp hg with hg | hg
        · exact .inl hg
        · have := hbr g hg; exact .inr (.inl (by omega)))).symm
    · rw [OwnL.congr_sub (S' := []) (fun _ hg => by cases hg) (fun g hg => by
        rcases List.mem_append.mp hg with hg | hg
        · have := hbi g hg; exact .inr (.inr (by omega))
        · have := hbr g hg; exact .inr (.inl (by omega)))]
      have := OwnL.seg (seg_singleton hc) l
      rw [show k + 1 + items.size + [cl].length = k + items.size + 2 by simp; omega] at this
      simpa using this.symm
    · exact (OwnL.congr_sub (fun g hg => List.mem_append_right _ hg) (fun g hg => by
        rcases List.mem_append.mp hg with hg | hg
        · have := hbi g hg; exact .inr (.inr (by omega))
        · exact .inl hg)).symm
  | .fn hdr n gap op cl body rest, k, h, hseg, l => by
    simp only [Prog.wfCore, Bool.and_eq_true, decide_eq_true_eq] at h
    obtain ⟨⟨⟨⟨⟨⟨⟨⟨⟨hsl, hnf⟩, hwh⟩, hk⟩, hnm⟩, hgap⟩, hop⟩, hcl⟩, hwb⟩, hwr⟩ := h
    rw [Prog.flat, Seg.append_iff, Seg.append_iff, Seg.cons_iff, Seg.append_iff, Seg.cons_iff,
      Prog.size_eq, Prog.size_eq] at hseg
    obtain ⟨_, _, _, _, _, hsr⟩ := hseg
    rw [show k + hdr.size + gap.length + 1 + body.size + 1
      = k + hdr.size + gap.length + body.size + 2 by omega] at hsr
    have hbb := fnsOf_bounds_core body (k + hdr.size + gap.length + 1) hwb
    have hbr := fnsOf_bounds_core rest (k + hdr.size + gap.length + body.size + 2) hwr
    have ihr := own_lines_core rest _ hwr hsr l
    simp only [Prog.own, Prog.size, fnsOf]
    rw [OwnL.split (mid := k + hdr.size + gap.length + body.size + 2) (by omega) (by omega), ihr,
      show k + (hdr.size + gap.length + body.size + rest.size + 2)
        = k + hdr.size + gap.length + body.size + 2 + rest.size by omega]
    constructor
    · intro hr
      refine .inr ((OwnL.congr_sub
        (fun g hg => List.mem_cons_of_mem _ (List.mem_append_right _ hg)) (fun g hg => ?_)).mpr hr)
      rcases List.mem_cons.mp hg with rfl | hg
      · exact .inr (.inr (by simp only; omega))
      · rcases List.mem_append.mp hg with hg | hg
        · have := hbb g hg; exact .inr (.inr (by omega))
        · exact .inl hg
    · rintro (hl | hr)
      · exact absurd hl (OwnL.covered List.mem_cons_self (by simp only; omega)
          (by simp only; omega))
      · refine (OwnL.congr_sub
          (fun g hg => List.mem_cons_of_mem _ (List.mem_append_right _ hg)) (fun g hg => ?_)).mp hr
        rcases List.mem_cons.mp hg with rfl | hg
        · exact .inr (.inr (by simp only; omega))
        · rcases List.mem_append.mp hg with hg | hg
          · have := hbb g hg; exact .inr (.inr (by omega))
          · exact .inl hg

theorem head_of_startsWithLeaf {code : List Tok} {p : Prog Tok} {i : Nat}
    (h : p.startsWithLeaf = true) (hseg : Seg code i p.flat) :
    code[i]? = some (p.flat.headD default) := by
  cases p with
  | leaf t rest => exact (Seg.cons_iff.mp hseg).1
  | nil => cases h
  | group => cases h
  | fn => cases h

/-- what the measurement of a function of the layout is, once its first token, its closing
brace and the distinct lines are known -/
theorem expectedWith_node {code : List Tok} {f : Fn} {first last : Tok} {len : Nat}
    (h0 : 0 < f.body.e) (h1 : code[f.hdr.rng.s]? = some first)
    (h2 : code[f.body.e - 1]? = some last) :
    expectedWith code f len = some ⟨f.hdr.name.val, first.line, first.col, (Tok.endPos_L last).1,
      (Tok.endPos_L last).2, len⟩ := by
  unfold expectedWith
  rw [if_neg (by omega), h1, h2]

/-- **the expected report of a sub-forest inside a file with functions `G`** is the tree
report -/
theorem expected_prog_ctx_core {code : List Tok} : ∀ (p : Prog Tok) (i : Nat), p.wfCore = true →
    ∀ (G : List Fn) (par : Option Fn), Nested G → Ctx G i (i + p.size) (fnsOf p i) par →
    Seg code i p.flat →
    (fnsOf p i).map (expected code G) = (treeReport p).map some
  | .nil, _, _, _, _, _, _, _ => rfl
  | .leaf _ rest, i, h, G, par, N, C, hseg => by
    simp only [Prog.wfCore, Bool.and_eq_true] at h
    have hb := fnsOf_bounds_core rest (i + 1) h.2
    rw [Prog.flat, Seg.cons_iff] at hseg
    have C' : Ctx G (i + 1) (i + 1 + rest.size) (fnsOf rest (i + 1)) par := by
      refine C.restrict (by omega) (by omega) (by simp only [Prog.size]; omega)
        (fun f hf => hf) (fun f hf => (hb f hf).1) (fun f hf => .inl hf)
    exact expected_prog_ctx_core rest (i + 1) h.2 G par N C' hseg.2
  | .group _ _ items rest, i, h, G, par, N, C, hseg => by
    simp only [Prog.wfCore, Bool.and_eq_true] at h
    obtain ⟨⟨_, hwi⟩, hwr⟩ := h
    rw [Prog.flat, Seg.cons_iff, Seg.append_iff, Seg.cons_iff, Prog.size_eq] at hseg
    obtain ⟨_, hsi, _, hsr⟩ := hseg
    rw [show i + 1 + items.size + 1 = i + items.size + 2 by omega] at hsr
    have hbi := fnsOf_bounds_core items (i + 1) hwi
    have hbr := fnsOf_bounds_core rest (i + items.size + 2) hwr
    simp only [fnsOf, Prog.size] at C
    have CI : Ctx G (i + 1) (i + 1 + items.size) (fnsOf items (i + 1)) par := by
      refine C.restrict (by omega) (by omega) (by omega)
        (fun f hf => List.mem_append_left _ hf) (fun f hf => (hbi f hf).1) (fun f hf => ?_)
      rcases List.mem_append.mp hf with hf | hf
      · exact .inl hf
      · have := hbr f hf; exact .inr (.inr (by omega))
    have CR : Ctx G (i + items.size + 2) (i + items.size + 2 + rest.size)
        (fnsOf rest (i + items.size + 2)) par := by
      refine C.restrict (by omega) (by omega) (by omega)
        (fun f hf => List.mem_append_right _ hf) (fun f hf => (hbr f hf).1) (fun f hf => ?_)
      rcases List.mem_append.mp hf with hf | hf
      · have := hbi f hf; exact .inr (.inl (by omega))
      · exact .inl hf
    simp only [fnsOf, treeReport, List.map_append,
      expected_prog_ctx_core items (i + 1) hwi G par N CI hsi,
      expected_prog_ctx_core rest (i + items.size + 2) hwr G par N CR hsr]
  | .fn hdr k gap op cl body rest, i, h, G, par, N, C, hseg => by
    simp only [Prog.wfCore, Bool.and_eq_true, decide_eq_true_eq] at h
    obtain ⟨⟨⟨⟨⟨⟨⟨⟨⟨hsl, hnf⟩, hwh⟩, hk⟩, hnm⟩, hgap⟩, hop⟩, hcl⟩, hwb⟩, hwr⟩ := h
    rw [Prog.flat, Seg.append_iff, Seg.append_iff, Seg.cons_iff, Seg.append_iff, Seg.cons_iff,
      Prog.size_eq, Prog.size_eq] at hseg
    obtain ⟨hsh, hsg, ho, hsb, hc, hsr⟩ := hseg
    rw [show i + hdr.size + gap.length + 1 + body.size + 1
      = i + hdr.size + gap.length + body.size + 2 by omega] at hsr
    have hpos := Prog.size_pos_of_startsWithLeaf hsl
    have hbb := fnsOf_bounds_core body (i + hdr.size + gap.length + 1) hwb
    have hbr := fnsOf_bounds_core rest (i + hdr.size + gap.length + body.size + 2) hwr
    simp only [fnsOf, Prog.size] at C
    have CB := C.body rfl (by simp only; omega) (by simp only; omega) (by simp only; omega)
      (fun f hf => by have := hbb f hf; simp only; omega)
      (fun f hf => by have := hbr f hf; simp only; omega)
    simp only at CB
    rw [show i + hdr.size + gap.length + body.size + 2 - 1
      = i + hdr.size + gap.length + 1 + body.size by omega] at CB
    have CR : Ctx G (i + hdr.size + gap.length + body.size + 2)
        (i + hdr.size + gap.length + body.size + 2 + rest.size)
        (fnsOf rest (i + hdr.size + gap.length + body.size + 2)) par := by
      refine C.restrict (by omega) (by omega) (by omega)
        (fun f hf => List.mem_cons_of_mem _ (List.mem_append_right _ hf))
        (fun f hf => (hbr f hf).1) (fun f hf => ?_)
      rcases List.mem_cons.mp hf with rfl | hf
      · exact .inr (.inl (by simp only; omega))
      · rcases List.mem_append.mp hf with hf | hf
        · have := hbb f hf; exact .inr (.inl (by omega))
        · exact .inl hf
    simp only [fnsOf, treeReport, List.map_cons, List.map_append,
      expected_prog_ctx_core body _ hwb G _ N CB hsb, expected_prog_ctx_core rest _ hwr G par N CR hsr]
    congr 1
    -- the function node itself
    unfold expected
    rw [expectedWith_node (first := hdr.flat.headD default) (last := cl) (by simp only; omega)
      (head_of_startsWithLeaf hsl hsh)
      (by rw [← hc]; congr 1; simp only; omega)]
    unfold nodeMeasurement
    simp only [Option.some.injEq, Measurement.mk.injEq, true_and]
    apply countDistinct_congr
    intro l
    -- `ownLines`: the tokens of `[i, be)` outside the functions enclosed by the node
    rw [mem_ownLines]
    have hown : (∃ j t, i ≤ j ∧ j < i + hdr.size + gap.length + body.size + 2 ∧
        code[j]? = some t ∧ t.line = l ∧ ∀ g ∈ G,
          Fn.encloses ⟨⟨hdr.flat.getD k default, ⟨i, i + hdr.size⟩⟩,
            ⟨i + hdr.size + gap.length, i + hdr.size + gap.length + body.size + 2⟩⟩ g = true →
          ¬ (g.hdr.rng.s ≤ j ∧ j < g.body.e))
        ↔ OwnL code (fnsOf body (i + hdr.size + gap.length + 1)) i
            (i + hdr.size + gap.length + body.size + 2) l := by
      constructor
      · rintro ⟨j, t, a, b, c, d, e⟩
        refine ⟨j, t, a, b, c, d, fun g hg => e g (CB.sub g hg) ?_⟩
        have := hbb g hg
        rw [Fn.encloses_iff]; simp only; omega
      · rintro ⟨j, t, a, b, c, d, e⟩
        refine ⟨j, t, a, b, c, d, fun g hg he => ?_⟩
        rw [Fn.encloses_iff] at he
        simp only at he
        have hne := N.nonempty g hg
        rcases C.cls g hg with h | h | h | h
        · rcases List.mem_cons.mp h with rfl | h
          · simp only at he; omega
          · rcases List.mem_append.mp h with h | h
            · exact e g h
            · have := hbr g h; omega
        · omega
        · omega
        · omega
    simp only at hown ⊢
    rw [hown]
    have hS : ∀ lo hi, (lo + 1 ≤ i + hdr.size + gap.length + 1 ∧ hi ≤ i + hdr.size + gap.length + 1)
        ∨ i + hdr.size + gap.length + 1 + body.size ≤ lo →
        (OwnL code (fnsOf body (i + hdr.size + gap.length + 1)) lo hi l ↔ OwnL code [] lo hi l) := by
      intro lo hi hh
      refine OwnL.congr_sub (fun _ hg => by cases hg) (fun g hg => ?_)
      have := hbb g hg
      rcases hh with hh | hh
      · exact .inr (.inl (by omega))
      · exact .inr (.inr (by omega))
    rw [OwnL.split (mid := i + hdr.size) (by omega) (by omega),
      OwnL.split (lo := i + hdr.size) (mid := i + hdr.size + gap.length) (by omega) (by omega),
      OwnL.split (lo := i + hdr.size + gap.length) (mid := i + hdr.size + gap.length + 1)
        (by omega) (by omega),
      OwnL.split (lo := i + hdr.size + gap.length + 1)
        (mid := i + hdr.size + gap.length + 1 + body.size) (by omega) (by omega),
      hS i _ (.inl (by omega)), hS (i + hdr.size) _ (.inl (by omega)),
      hS (i + hdr.size + gap.length) _ (.inl (by omega)),
      hS (i + hdr.size + gap.length + 1 + body.size) _ (.inr (by omega)),
      ← own_lines_core body _ hwb hsb l]
    have e1 := OwnL.seg hsh l
    have e2 := OwnL.seg hsg l
    have e3 := OwnL.seg (seg_singleton ho) l
    have e5 := OwnL.seg (seg_singleton hc) l
    rw [Prog.size_eq] at e1
    rw [List.length_singleton] at e3
    rw [show i + hdr.size + gap.length + 1 + body.size + [cl].length
      = i + hdr.size + gap.length + body.size + 2 by simp; omega] at e5
    rw [e1, e2, e3, e5]
    simp only [ownToks, List.map_append, List.map_cons, List.map_nil, List.mem_append,
      List.mem_cons, List.not_mem_nil, or_false]

/-- **the expected report of a whole file (nested functions)** -/
theorem expected_prog_core {p : Prog Tok} (h : p.wfCore = true) (N : Nested p.fns) :
    p.fns.map (expected p.flat p.fns) = (treeReport p).map some :=
  expected_prog_ctx_core p 0 h p.fns none N (Ctx.top _ _) (Seg.self _)

/-! ## languages without nested functions -/

theorem expectedFlat_prog_aux_core {code : List Tok} : ∀ (p : Prog Tok) (i : Nat), p.wfCore = true →
    Seg code i p.flat → (topFnsOf p i).map (expectedFlat code) = (treeReportFlat p).map some
  | .nil, _, _, _ => rfl
  | .leaf _ rest, i, h, hseg => by
    simp only [Prog.wfCore, Bool.and_eq_true] at h
    rw [Prog.flat, Seg.cons_iff] at hseg
    exact expectedFlat_prog_aux_core rest (i + 1) h.2 hseg.2
  | .group _ _ items rest, i, h, hseg => by
    simp only [Prog.wfCore, Bool.and_eq_true] at h
    obtain ⟨⟨_, hwi⟩, hwr⟩ := h
    rw [Prog.flat, Seg.cons_iff, Seg.append_iff, Seg.cons_iff, Prog.size_eq] at hseg
    obtain ⟨_, hsi, _, hsr⟩ := hseg
    rw [show i + 1 + items.size + 1 = i + items.size + 2 by omega] at hsr
    simp only [topFnsOf, treeReportFlat, List.map_append,
      expectedFlat_prog_aux_core items (i + 1) hwi hsi,
      expectedFlat_prog_aux_core rest (i + items.size + 2) hwr hsr]
  | .fn hdr k gap op cl body rest, i, h, hseg => by
    simp only [Prog.wfCore, Bool.and_eq_true, decide_eq_true_eq] at h
    obtain ⟨⟨⟨⟨⟨⟨⟨⟨⟨hsl, hnf⟩, hwh⟩, hk⟩, hnm⟩, hgap⟩, hop⟩, hcl⟩, hwb⟩, hwr⟩ := h
    have hall : (Prog.fn hdr k gap op cl body rest).flat = allToks hdr gap op cl body ++ rest.flat := by
      simp [Prog.flat, allToks]
    have hlen : (allToks hdr gap op cl body).length = hdr.size + gap.length + body.size + 2 := by
      simp [allToks, Prog.size_eq]; omega
    have hsa : Seg code i (allToks hdr gap op cl body) := by
      rw [hall, Seg.append_iff] at hseg; exact hseg.1
    rw [Prog.flat, Seg.append_iff, Seg.append_iff, Seg.cons_iff, Seg.append_iff, Seg.cons_iff,
      Prog.size_eq, Prog.size_eq] at hseg
    obtain ⟨hsh, hsg, ho, hsb, hc, hsr⟩ := hseg
    rw [show i + hdr.size + gap.length + 1 + body.size + 1
      = i + hdr.size + gap.length + body.size + 2 by omega] at hsr
    have hpos := Prog.size_pos_of_startsWithLeaf hsl
    simp only [topFnsOf, treeReportFlat, List.map_cons, expectedFlat_prog_aux_core rest _ hwr hsr]
    congr 1
    unfold expectedFlat
    rw [expectedWith_node (first := hdr.flat.headD default) (last := cl) (by simp only; omega)
      (head_of_startsWithLeaf hsl hsh)
      (by rw [← hc]; congr 1; simp only; omega)]
    unfold nodeMeasurement
    simp only [Option.some.injEq, Measurement.mk.injEq, true_and]
    apply countDistinct_congr
    intro l
    rw [mem_allLines, ← OwnL.seg hsa l, hlen]
    simp only
    constructor
    · rintro ⟨j, t, a, b, c, d⟩
      exact ⟨j, t, a, by omega, c, d, fun _ hg => by cases hg⟩
    · rintro ⟨j, t, a, b, c, d, _⟩
      exact ⟨j, t, a, by omega, c, d⟩

/-- **the expected report of a whole file (no nested functions)** -/
theorem expectedFlat_prog_core {p : Prog Tok} (h : p.wfCore = true) (N : Nested p.fns) :
    (topLevel p.fns).map (expectedFlat p.flat) = (treeReportFlat p).map some := by
  rw [topLevel_prog_core h N]
  exact expectedFlat_prog_aux_core p 0 h (Seg.self _)

/-! ## the same for `wf` forests (corollaries; `noAdj` is not needed for the expected report) -/

theorem own_lines {code : List Tok} (b : Prog Tok) (k : Nat) (h : b.wf = true)
    (hseg : Seg code k b.flat) (l : Nat) :
    (l ∈ b.own.map (·.line) ↔ OwnL code (fnsOf b k) k (k + b.size) l) :=
  own_lines_core b k ((Prog.wf_iff b).mp h).1 hseg l

theorem expected_prog_ctx {code : List Tok} (p : Prog Tok) (i : Nat) (h : p.wf = true)
    (G : List Fn) (par : Option Fn) (N : Nested G) (C : Ctx G i (i + p.size) (fnsOf p i) par)
    (hseg : Seg code i p.flat) :
    (fnsOf p i).map (expected code G) = (treeReport p).map some :=
  expected_prog_ctx_core p i ((Prog.wf_iff p).mp h).1 G par N C hseg

theorem expected_prog {p : Prog Tok} (h : p.wf = true) (N : Nested p.fns) :
    p.fns.map (expected p.flat p.fns) = (treeReport p).map some :=
  expected_prog_core ((Prog.wf_iff p).mp h).1 N

theorem expectedFlat_prog_aux {code : List Tok} (p : Prog Tok) (i : Nat) (h : p.wf = true)
    (hseg : Seg code i p.flat) :
    (topFnsOf p i).map (expectedFlat code) = (treeReportFlat p).map some :=
  expectedFlat_prog_aux_core p i ((Prog.wf_iff p).mp h).1 hseg

theorem expectedFlat_prog {p : Prog Tok} (h : p.wf = true) (N : Nested p.fns) :
    (topLevel p.fns).map (expectedFlat p.flat) = (treeReportFlat p).map some :=
  expectedFlat_prog_core ((Prog.wf_iff p).mp h).1 N

end CL
