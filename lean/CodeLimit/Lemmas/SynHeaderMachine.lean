import CodeLimit.Lemmas.SynHeaderList
import CodeLimit.Lemmas.Compose
/-!
# The C-family header pattern matches greedily exactly the syntactic headers

`cExpr` is the expression `[Name(), OneOrMore(Balanced("(", ")"))]`; its compiled table `cDfa` has
three states (`start --Name--> S1 --Balanced--> S2 --Balanced--> S2`, `S2` accepting).  The run of
the machine from `S2` at nesting depth `d` over a token list reads exactly `groupsLen ts d` tokens
(`run_groups`), hence

`greedyAt_iff_synHeader : GreedyAt (dfaMachine D tokAcceptor) toks p f ↔ SynHeader toks p f`

for every `D` with `compileTok cExpr = .ok D` and ALL token lists.
-/
namespace CL.Syn

/-- `[Name(), OneOrMore(Balanced("(", ")"))]` -/
def cExpr : Rx Pred := .cat (.atom .name) (.plus (.atom (.balanced (.symbol [40]) (.symbol [41]))))

/-- `Balanced("(", ")")` -/
def bal : Pred := .balanced (.symbol [40]) (.symbol [41])

def S1 : DState := .set [2, 3]
def S2 : DState := .set [3, 4, 5]

/-- the compiled table of `cExpr` -/
def cDfa : Dfa Pred :=
  ⟨[(S2, [(bal, S2)]), (S1, [(bal, S2)]), (.start, [(.name, S1)])], [S2]⟩

theorem compile_cExpr : compileTok cExpr = .ok cDfa := by rfl

theorem compile_cExpr_eq {D : Dfa Pred} (h : compileTok cExpr = .ok D) : D = cDfa := by
  rw [compile_cExpr] at h; cases h; rfl

/-- the machine `find_all` runs for the C-family header pattern -/
abbrev cM : Machine Tok (DState × Depths) := dfaMachine cDfa tokAcceptor

theorem row_start : cDfa.row .start = [(.name, S1)] := by decide
theorem row_S1 : cDfa.row S1 = [(bal, S2)] := by decide
theorem row_S2 : cDfa.row S2 = [(bal, S2)] := by decide
theorem acc_start : cDfa.isAcc .start = false := by decide
theorem acc_S1 : cDfa.isAcc S1 = false := by decide
theorem acc_S2 : cDfa.isAcc S2 = true := by decide

/-! ## single steps -/

theorem step_start (ds : Depths) (x : Tok) :
    cM.step (.start, ds) x = if x.isName then .ok (some (S1, ds)) else .ok none := by
  by_cases h : x.isName = true <;>
    simp [dfaMachine, consume, row_start, consumeAux, tokAcceptor, acceptTok, Pred.eval, h]

/-! ## the `Balanced` predicate -/

theorem accept_open (ds : Depths) {x : Tok} (h : isOpen x = true) :
    acceptTok bal ds x = (true, setDepth ds bal (getDepth ds bal + 1)) := by
  have : (Pred.symbol [40]).eval x = true := h
  simp only [bal, acceptTok, this, if_true]

theorem accept_close (ds : Depths) {x : Tok} (h : isOpen x = false) (hc : isClose x = true) :
    acceptTok bal ds x =
      (decide (0 ≤ getDepth ds bal - 1), setDepth ds bal (getDepth ds bal - 1)) := by
  have h1 : (Pred.symbol [40]).eval x = false := h
  have h2 : (Pred.symbol [41]).eval x = true := hc
  simp only [bal, acceptTok, h1, h2, if_true, Bool.false_eq_true, if_false]

theorem accept_other (ds : Depths) {x : Tok} (h : isOpen x = false) (hc : isClose x = false) :
    acceptTok bal ds x = (decide (0 < getDepth ds bal), ds) := by
  have h1 : (Pred.symbol [40]).eval x = false := h
  have h2 : (Pred.symbol [41]).eval x = false := hc
  simp only [bal, acceptTok, h1, h2, Bool.false_eq_true, if_false]

/-! ## any table that ends with `s1 --Balanced--> s2 --Balanced--> s2` -/

section generic
variable {D : Dfa Pred} {s1 s2 : DState}

theorem step_bal {s : DState} (hs : D.row s = [(bal, s2)]) (ds : Depths) (x : Tok) :
    (dfaMachine D tokAcceptor).step (s, ds) x =
      if (acceptTok bal ds x).1 then .ok (some (s2, (acceptTok bal ds x).2)) else .ok none := by
  by_cases h : (acceptTok bal ds x).1 = true <;>
    simp [dfaMachine, consume, hs, consumeAux, tokAcceptor, h]

/-- the run from `s2` at nesting depth `d` reads exactly `groupsLen ts d` tokens -/
theorem run_groups (h2 : D.row s2 = [(bal, s2)]) (ts : List Tok) (ds : Depths) (d : Nat)
    (hd : getDepth ds bal = (d : Int)) :
    ∃ ds', runM (dfaMachine D tokAcceptor) (s2, ds) (ts.take (groupsLen ts d)) = some (s2, ds') ∧
      (groupsLen ts d = ts.length ∨
        ∃ x, ts[groupsLen ts d]? = some x ∧
          (dfaMachine D tokAcceptor).step (s2, ds') x = .ok none) := by
  induction ts generalizing ds d with
  | nil => exact ⟨ds, rfl, .inl rfl⟩
  | cons t ts ih =>
    have lift : ∀ (e : Nat) (ds1 : Depths), groupsLen (t :: ts) d = groupsLen ts e + 1 →
        (dfaMachine D tokAcceptor).step (s2, ds) t = .ok (some (s2, ds1)) →
        getDepth ds1 bal = (e : Int) →
        ∃ ds', runM (dfaMachine D tokAcceptor) (s2, ds)
            ((t :: ts).take (groupsLen (t :: ts) d)) = some (s2, ds') ∧
          (groupsLen (t :: ts) d = (t :: ts).length ∨
            ∃ x, (t :: ts)[groupsLen (t :: ts) d]? = some x ∧
              (dfaMachine D tokAcceptor).step (s2, ds') x = .ok none) := by
      intro e ds1 he hstep hd1
      obtain ⟨ds', hr, hend⟩ := ih ds1 e hd1
      refine ⟨ds', ?_, ?_⟩
      · rw [he, List.take_succ_cons]
        simp only [runM, hstep]
        exact hr
      · rw [he]
        rcases hend with h | ⟨x, hx, hs⟩
        · exact .inl (by simp [h])
        · exact .inr ⟨x, by simpa using hx, hs⟩
    rcases groupsLen_cases t ts d with ⟨ho, e⟩ | ⟨ho, hz, e⟩ | ⟨ho, hc, d', hdd, e⟩ |
        ⟨ho, hc, d', hdd, e⟩
    · refine lift (d + 1) (setDepth ds bal (getDepth ds bal + 1)) e ?_ ?_
      · rw [step_bal h2, accept_open ds ho]; rfl
      · rw [getDepth_setDepth_self, hd]; omega
    · refine ⟨ds, by rw [e]; rfl, .inr ⟨t, by rw [e]; rfl, ?_⟩⟩
      subst hz
      rw [step_bal h2]
      cases hc : isClose t
      · rw [accept_other ds ho hc, hd]; rfl
      · rw [accept_close ds ho hc, hd]; rfl
    · subst hdd
      refine lift d' (setDepth ds bal (getDepth ds bal - 1)) e ?_ ?_
      · rw [step_bal h2, accept_close ds ho hc, hd]
        have : decide ((0 : Int) ≤ ((d' + 1 : Nat) : Int) - 1) = true := by
          simp only [decide_eq_true_eq]; omega
        simp only [this, if_true]
      · rw [getDepth_setDepth_self, hd]; omega
    · subst hdd
      refine lift (d' + 1) ds e ?_ hd
      rw [step_bal h2, accept_other ds ho hc, hd]
      have : decide ((0 : Int) < ((d' + 1 : Nat) : Int)) = true := by
        simp only [decide_eq_true_eq]; omega
      simp only [this, if_true]

/-- in `s1` at depth 0 only an opening parenthesis is accepted -/
theorem step_s1_open (h1 : D.row s1 = [(bal, s2)]) {ds : Depths} (hd : getDepth ds bal = 0)
    {x : Tok} {q : DState × Depths}
    (h : (dfaMachine D tokAcceptor).step (s1, ds) x = .ok (some q)) : isOpen x = true := by
  rw [step_bal h1] at h
  cases ho : isOpen x
  · cases hc : isClose x
    · rw [accept_other ds ho hc, hd] at h; simp at h
    · rw [accept_close ds ho hc, hd] at h; simp at h
  · rfl

/-- An attempt that started at `p0`, has read `toks[p0..i)` and stands in `s1` at depth 0 just
before an opening parenthesis at index `i` finishes greedily at `groupsEnd toks i`. -/
theorem greedy_of_prefix (h1 : D.row s1 = [(bal, s2)]) (h2 : D.row s2 = [(bal, s2)])
    (hacc : D.isAcc s2 = true) {toks : List Tok} {p0 i : Nat} {ds0 : Depths} (hp : p0 < i)
    (hrun : runM (dfaMachine D tokAcceptor) (dfaMachine D tokAcceptor).init (slice toks p0 i) =
      some (s1, ds0))
    (hd0 : getDepth ds0 bal = 0) (ho : OpenAt toks i) :
    GreedyAt (dfaMachine D tokAcceptor) toks p0 (groupsEnd toks i) := by
  have hopenAt := ho
  obtain ⟨o, ho, hopen⟩ := ho
  have hf := groupsEnd_open hopenAt
  have hlt1 := (List.getElem?_eq_some_iff.1 ho).1
  have hle := groupsLen_le (toks.drop (i + 1)) 1
  simp only [List.length_drop] at hle
  have hs2 : (dfaMachine D tokAcceptor).step (s1, ds0) o =
      .ok (some (s2, setDepth ds0 bal (getDepth ds0 bal + 1))) := by
    rw [step_bal h1, accept_open ds0 hopen]; rfl
  obtain ⟨ds', hr, hend⟩ := run_groups h2 (toks.drop (i + 1))
    (setDepth ds0 bal (getDepth ds0 bal + 1)) 1 (by rw [getDepth_setDepth_self, hd0]; rfl)
  have hslice : slice toks i (groupsEnd toks i) =
      o :: (toks.drop (i + 1)).take (groupsLen (toks.drop (i + 1)) 1) := by
    unfold slice
    rw [drop_eq_cons ho, hf]
    have : i + 1 + groupsLen (toks.drop (i + 1)) 1 - i =
        groupsLen (toks.drop (i + 1)) 1 + 1 := by omega
    rw [this, List.take_succ_cons]
  refine ⟨by omega, by omega, (s2, ds'), ?_, hacc, ?_⟩
  · rw [slice_split toks (Nat.le_of_lt hp) (groupsEnd_ge toks i), runM_append, hrun, hslice]
    simp only [Option.bind_some, runM, hs2]
    exact hr
  · rcases hend with h | ⟨x, hx, hs⟩
    · left
      simp only [List.length_drop] at h
      omega
    · right; right
      refine ⟨x, ?_, hs⟩
      rw [List.getElem?_drop] at hx
      rw [hf]; exact hx

end generic

/-! ## `SynHeader → GreedyAt` -/

theorem greedy_of_synHeader {toks : List Tok} {p f : Nat} (h : SynHeader toks p f) :
    GreedyAt cM toks p f := by
  obtain ⟨⟨n, hn, hname⟩, hopenAt, hf⟩ := h
  rw [hf]
  refine greedy_of_prefix (ds0 := []) row_S1 row_S2 acc_S2 (Nat.lt_succ_self p) ?_ rfl hopenAt
  rw [slice_one toks hn]
  show runM cM (.start, []) [n] = _
  simp only [runM, step_start, hname, if_true]

/-! ## `GreedyAt → SynHeader` -/

theorem startShapeOK_cDfa : Compose.startShapeOK cDfa = true := by decide

theorem startShape_syn {toks : List Tok} {p : Nat} (h : Compose.startShapeB cDfa toks p = true) :
    NameAt toks p ∧ OpenAt toks (p + 1) := by
  unfold Compose.startShapeB at h
  split at h
  · rename_i t0 t1 h0 h1
    simp only [row_start, row_S1, List.any_cons, List.any_nil, Bool.or_false,
      Bool.and_eq_true] at h
    exact ⟨⟨t0, h0, h.1⟩, ⟨t1, h1, h.2⟩⟩
  · cases h

theorem synHeader_of_greedy {toks : List Tok} {p f : Nat} (h : GreedyAt cM toks p f) :
    SynHeader toks p f := by
  obtain ⟨hshape, _⟩ := Compose.greedy_start_shape startShapeOK_cDfa h
  obtain ⟨hn, ho⟩ := startShape_syn hshape
  have hsyn : SynHeader toks p (groupsEnd toks (p + 1)) := ⟨hn, ho, rfl⟩
  have := Compose.greedy_finish_unique (dfaMachine_deadStuck cDfa tokAcceptor) h
    (greedy_of_synHeader hsyn)
  rw [this]; exact hsyn

/-- The greedy matches of the C-family header pattern `[Name(), OneOrMore(Balanced("(", ")"))]`
are exactly the syntactic headers, on every token list. -/
theorem greedyAt_iff_synHeader {D : Dfa Pred} (hD : compileTok cExpr = .ok D) (toks : List Tok)
    (p f : Nat) : GreedyAt (dfaMachine D tokAcceptor) toks p f ↔ SynHeader toks p f := by
  rw [compile_cExpr_eq hD]
  exact ⟨synHeader_of_greedy, greedy_of_synHeader⟩

end CL.Syn
