import CodeLimit.Spec.SynHeader
/-!
# List-level facts about `groupsLen` / `closeLen` (`Spec/SynHeader.lean`)

Pure recursion on token lists, no machine:

* `groupsLen_le`, `groupsLen_mono`, `groupsLen_strict`: the pass stops inside the input, stops no
  earlier when started deeper, and strictly later when started one level deeper unless it already
  reaches the end of the input;
* `groupsLen_split`: a pass that reads the token at offset `k` continues after it as a pass from
  the depth reached there, which is `≥ 1` unless that token is `)`;
* `groupsLen_closeLen_some` / `groupsLen_closeLen_none`: the pass from depth `d + 1` first reads
  up to the closing parenthesis found by `closeLen`, then starts again at depth `0`; without
  that parenthesis it reads everything.
-/
namespace CL.Syn

theorem isOpen_not_isClose {t : Tok} (h : isOpen t = true) : isClose t = false := by
  simp only [isOpen, isClose, Tok.isSymbol, Bool.and_eq_true, beq_iff_eq] at h ⊢
  simp [h.2]

/-- a name token is not a punctuation token, in particular not `)` -/
theorem isName_not_isClose {t : Tok} (h : t.isName = true) : isClose t = false := by
  simp only [Tok.isName, beq_iff_eq] at h
  simp [isClose, Tok.isSymbol, h]

/-- a name token is not a punctuation token, in particular not `(` -/
theorem isName_not_isOpen {t : Tok} (h : t.isName = true) : isOpen t = false := by
  simp only [Tok.isName, beq_iff_eq] at h
  simp [isOpen, Tok.isSymbol, h]

theorem groupsLen_nil (d : Nat) : groupsLen [] d = 0 := rfl

theorem groupsLen_open {t : Tok} (ts : List Tok) (d : Nat) (h : isOpen t = true) :
    groupsLen (t :: ts) d = groupsLen ts (d + 1) + 1 := by
  simp [groupsLen, h]

theorem groupsLen_zero {t : Tok} (ts : List Tok) (h : isOpen t = false) :
    groupsLen (t :: ts) 0 = 0 := by
  simp [groupsLen, h]

theorem groupsLen_close {t : Tok} (ts : List Tok) (d : Nat) (h : isOpen t = false)
    (hc : isClose t = true) : groupsLen (t :: ts) (d + 1) = groupsLen ts d + 1 := by
  simp [groupsLen, h, hc]

theorem groupsLen_other {t : Tok} (ts : List Tok) (d : Nat) (h : isOpen t = false)
    (hc : isClose t = false) : groupsLen (t :: ts) (d + 1) = groupsLen ts (d + 1) + 1 := by
  simp [groupsLen, h, hc]

/-- the four cases of one step of the pass -/
theorem groupsLen_cases (t : Tok) (ts : List Tok) (d : Nat) :
    (isOpen t = true ∧ groupsLen (t :: ts) d = groupsLen ts (d + 1) + 1) ∨
    (isOpen t = false ∧ d = 0 ∧ groupsLen (t :: ts) d = 0) ∨
    (isOpen t = false ∧ isClose t = true ∧ ∃ d', d = d' + 1 ∧
      groupsLen (t :: ts) d = groupsLen ts d' + 1) ∨
    (isOpen t = false ∧ isClose t = false ∧ ∃ d', d = d' + 1 ∧
      groupsLen (t :: ts) d = groupsLen ts d + 1) := by
  cases ho : isOpen t
  · cases d with
    | zero => exact .inr (.inl ⟨rfl, rfl, groupsLen_zero ts ho⟩)
    | succ d' =>
      cases hc : isClose t
      · exact .inr (.inr (.inr ⟨rfl, rfl, d', rfl, groupsLen_other ts d' ho hc⟩))
      · exact .inr (.inr (.inl ⟨rfl, rfl, d', rfl, groupsLen_close ts d' ho hc⟩))
  · exact .inl ⟨rfl, groupsLen_open ts d ho⟩

theorem groupsLen_le (ts : List Tok) (d : Nat) : groupsLen ts d ≤ ts.length := by
  induction ts generalizing d with
  | nil => simp [groupsLen]
  | cons t ts ih =>
    rcases groupsLen_cases t ts d with ⟨_, h⟩ | ⟨_, _, h⟩ | ⟨_, _, d', _, h⟩ | ⟨_, _, d', _, h⟩
    · rw [h]; have := ih (d + 1); simp only [List.length_cons]; omega
    · rw [h]; omega
    · rw [h]; have := ih d'; simp only [List.length_cons]; omega
    · rw [h]; have := ih d; simp only [List.length_cons]; omega

theorem groupsLen_mono (ts : List Tok) {d d' : Nat} (h : d ≤ d') :
    groupsLen ts d ≤ groupsLen ts d' := by
  induction ts generalizing d d' with
  | nil => simp [groupsLen]
  | cons t ts ih =>
    cases ho : isOpen t
    · cases d with
      | zero => rw [groupsLen_zero ts ho]; omega
      | succ e =>
        obtain ⟨e', rfl⟩ : ∃ e', d' = e' + 1 := ⟨d' - 1, by omega⟩
        cases hc : isClose t
        · rw [groupsLen_other ts e ho hc, groupsLen_other ts e' ho hc]
          have := ih (d := e + 1) (d' := e' + 1) (by omega); omega
        · rw [groupsLen_close ts e ho hc, groupsLen_close ts e' ho hc]
          have := ih (d := e) (d' := e') (by omega); omega
    · rw [groupsLen_open ts d ho, groupsLen_open ts d' ho]
      have := ih (d := d + 1) (d' := d' + 1) (by omega); omega

theorem groupsLen_strict (ts : List Tok) (d : Nat) (h : groupsLen ts d < ts.length) :
    groupsLen ts d < groupsLen ts (d + 1) := by
  induction ts generalizing d with
  | nil => simp at h
  | cons t ts ih =>
    cases ho : isOpen t
    · cases d with
      | zero =>
        rw [groupsLen_zero ts ho]
        cases hc : isClose t
        · rw [groupsLen_other ts 0 ho hc]; omega
        · rw [groupsLen_close ts 0 ho hc]; omega
      | succ e =>
        cases hc : isClose t
        · rw [groupsLen_other ts e ho hc] at h
          rw [groupsLen_other ts e ho hc, groupsLen_other ts (e + 1) ho hc]
          have := ih (e + 1) (by simp only [List.length_cons] at h; omega); omega
        · rw [groupsLen_close ts e ho hc] at h
          rw [groupsLen_close ts e ho hc, groupsLen_close ts (e + 1) ho hc]
          have := ih e (by simp only [List.length_cons] at h; omega); omega
    · rw [groupsLen_open ts d ho] at h
      rw [groupsLen_open ts d ho, groupsLen_open ts (d + 1) ho]
      have := ih (d + 1) (by simp only [List.length_cons] at h; omega); omega

/-- started deeper, the pass stops strictly later, unless the shallower pass already reaches the
end of the input -/
theorem groupsLen_lt_of_lt (ts : List Tok) {d d' : Nat} (hd : d < d')
    (h : groupsLen ts d < ts.length) : groupsLen ts d < groupsLen ts d' :=
  Nat.lt_of_lt_of_le (groupsLen_strict ts d h) (groupsLen_mono ts hd)

/-- a pass that reads the token at offset `k` goes on after it as a pass from the depth reached
there; that depth is at least 1 unless the token is `)` -/
theorem groupsLen_split (ts : List Tok) (d k : Nat) (h : k < groupsLen ts d) :
    ∃ t d', ts[k]? = some t ∧ groupsLen ts d = k + 1 + groupsLen (ts.drop (k + 1)) d' ∧
      (isClose t = false → 1 ≤ d') := by
  induction ts generalizing d k with
  | nil => simp [groupsLen] at h
  | cons t ts ih =>
    cases k with
    | zero =>
      refine ⟨t, ?_⟩
      rcases groupsLen_cases t ts d with ⟨_, e⟩ | ⟨_, _, e⟩ | ⟨_, hc, d', _, e⟩ |
          ⟨_, _, d', hd, e⟩
      · exact ⟨d + 1, rfl, by rw [e]; simp; omega, fun _ => by omega⟩
      · rw [e] at h; omega
      · exact ⟨d', rfl, by rw [e]; simp; omega, fun hc' => by rw [hc] at hc'; cases hc'⟩
      · exact ⟨d, rfl, by rw [e]; simp; omega, fun _ => by omega⟩
    | succ k =>
      have key : ∀ e, groupsLen (t :: ts) d = groupsLen ts e + 1 →
          ∃ t' d', (t :: ts)[k + 1]? = some t' ∧
            groupsLen (t :: ts) d = k + 1 + 1 + groupsLen ((t :: ts).drop (k + 1 + 1)) d' ∧
            (isClose t' = false → 1 ≤ d') := by
        intro e he
        obtain ⟨t', d', h1, h2, h3⟩ := ih e k (by omega)
        exact ⟨t', d', by simpa using h1, by rw [he, h2]; simp; omega, h3⟩
      rcases groupsLen_cases t ts d with ⟨_, e⟩ | ⟨_, _, e⟩ | ⟨_, _, d', _, e⟩ | ⟨_, _, d', _, e⟩
      · exact key _ e
      · rw [e] at h; omega
      · exact key _ e
      · exact key _ e

theorem closeLen_le (ts : List Tok) (d k : Nat) (h : closeLen ts d = some k) :
    0 < k ∧ k ≤ ts.length := by
  induction ts generalizing d k with
  | nil => simp [closeLen] at h
  | cons t ts ih =>
    simp only [closeLen] at h
    split at h
    · simp only [Option.map_eq_some_iff] at h
      obtain ⟨a, ha, rfl⟩ := h
      have := ih _ _ ha; simp only [List.length_cons]; omega
    · split at h
      · split at h
        · cases h; simp
        · simp only [Option.map_eq_some_iff] at h
          obtain ⟨a, ha, rfl⟩ := h
          have := ih _ _ ha; simp only [List.length_cons]; omega
      · simp only [Option.map_eq_some_iff] at h
        obtain ⟨a, ha, rfl⟩ := h
        have := ih _ _ ha; simp only [List.length_cons]; omega

/-- the pass from depth `d + 1` reads up to the closing parenthesis found by `closeLen` and
starts again from depth 0 there -/
theorem groupsLen_closeLen_some (ts : List Tok) (d k : Nat) (h : closeLen ts d = some k) :
    groupsLen ts (d + 1) = k + groupsLen (ts.drop k) 0 := by
  induction ts generalizing d k with
  | nil => simp [closeLen] at h
  | cons t ts ih =>
    simp only [closeLen] at h
    cases ho : isOpen t
    · simp only [ho, Bool.false_eq_true, if_false] at h
      cases hc : isClose t
      · simp only [hc, Bool.false_eq_true, if_false, Option.map_eq_some_iff] at h
        obtain ⟨a, ha, rfl⟩ := h
        rw [groupsLen_other ts d ho hc, ih d a ha]; simp; omega
      · simp only [hc, if_true] at h
        cases d with
        | zero =>
          simp only [Option.some.injEq] at h
          subst h
          rw [groupsLen_close ts 0 ho hc]; simp; omega
        | succ d' =>
          simp only [Option.map_eq_some_iff] at h
          obtain ⟨a, ha, rfl⟩ := h
          rw [groupsLen_close ts (d' + 1) ho hc, ih d' a ha]; simp; omega
    · simp only [ho, if_true, Option.map_eq_some_iff] at h
      obtain ⟨a, ha, rfl⟩ := h
      rw [groupsLen_open ts (d + 1) ho, ih (d + 1) a ha]; simp; omega

/-- without a closing parenthesis the pass from depth `d + 1` reads the whole input -/
theorem groupsLen_closeLen_none (ts : List Tok) (d : Nat) (h : closeLen ts d = none) :
    groupsLen ts (d + 1) = ts.length := by
  induction ts generalizing d with
  | nil => rfl
  | cons t ts ih =>
    simp only [closeLen] at h
    cases ho : isOpen t
    · simp only [ho, Bool.false_eq_true, if_false] at h
      cases hc : isClose t
      · simp only [hc, Bool.false_eq_true, if_false, Option.map_eq_none_iff] at h
        rw [groupsLen_other ts d ho hc, ih d h]; simp
      · simp only [hc, if_true] at h
        cases d with
        | zero => cases h
        | succ d' =>
          simp only [Option.map_eq_none_iff] at h
          rw [groupsLen_close ts (d' + 1) ho hc, ih d' h]; simp
    · simp only [ho, if_true, Option.map_eq_none_iff] at h
      rw [groupsLen_open ts (d + 1) ho, ih (d + 1) h]; simp

/-! ## index form -/

theorem drop_eq_cons {toks : List Tok} {i : Nat} {t : Tok} (h : toks[i]? = some t) :
    toks.drop i = t :: toks.drop (i + 1) := by
  obtain ⟨hlt, hget⟩ := List.getElem?_eq_some_iff.1 h
  rw [← hget]; exact List.drop_eq_getElem_cons hlt

theorem groupsEnd_le (toks : List Tok) (i : Nat) (hi : i ≤ toks.length) :
    groupsEnd toks i ≤ toks.length := by
  unfold groupsEnd
  have := groupsLen_le (toks.drop i) 0
  simp only [List.length_drop] at this
  omega

theorem groupsEnd_ge (toks : List Tok) (i : Nat) : i ≤ groupsEnd toks i := by
  unfold groupsEnd; omega

/-- `groupsEnd` at an opening parenthesis: one token, then the pass from depth 1 -/
theorem groupsEnd_open {toks : List Tok} {i : Nat} (h : OpenAt toks i) :
    groupsEnd toks i = i + 1 + groupsLen (toks.drop (i + 1)) 1 := by
  obtain ⟨t, ht, ho⟩ := h
  unfold groupsEnd
  rw [drop_eq_cons ht, groupsLen_open _ 0 ho, Nat.zero_add]; omega

theorem groupsEnd_closed {toks : List Tok} {i j : Nat} (h : groupEnd toks i = some j) :
    groupsEnd toks i = groupsEnd toks j ∧ i + 2 ≤ j ∧ j ≤ toks.length := by
  unfold groupEnd at h
  split at h
  · cases h
  · rename_i t ts hd
    split at h
    · rename_i ho
      simp only [Option.map_eq_some_iff] at h
      obtain ⟨k, hk, rfl⟩ := h
      have hlen := closeLen_le ts 0 k hk
      have hts : ts = toks.drop (i + 1) := by
        have := congrArg (List.drop 1) hd
        simpa [List.drop_drop, Nat.add_comm] using this.symm
      have hl : (toks.drop i).length = ts.length + 1 := by rw [hd]; rfl
      simp only [List.length_drop] at hl
      refine ⟨?_, by omega, by omega⟩
      unfold groupsEnd
      rw [hd, groupsLen_open ts 0 ho, groupsLen_closeLen_some ts 0 k hk, hts, List.drop_drop]
      have : i + 1 + k = i + 1 + k := rfl
      omega
    · cases h

theorem groupsEnd_unclosed {toks : List Tok} {i : Nat} (ho : OpenAt toks i)
    (h : groupEnd toks i = none) : groupsEnd toks i = toks.length := by
  obtain ⟨t, ht, ho⟩ := ho
  have hlt := (List.getElem?_eq_some_iff.1 ht).1
  unfold groupEnd at h
  rw [drop_eq_cons ht] at h
  simp only [ho, if_true, Option.map_eq_none_iff] at h
  unfold groupsEnd
  rw [drop_eq_cons ht, groupsLen_open _ 0 ho, groupsLen_closeLen_none _ 0 h]
  simp only [List.length_drop]; omega

theorem groupsEnd_not_open {toks : List Tok} {i : Nat} (h : ¬ OpenAt toks i) :
    groupsEnd toks i = i := by
  unfold groupsEnd
  cases hd : toks.drop i with
  | nil => simp [groupsLen]
  | cons t ts =>
    have ht : toks[i]? = some t := by
      have : (toks.drop i)[0]? = some t := by rw [hd]; rfl
      simpa using this
    have ho : isOpen t = false := by
      cases ho : isOpen t
      · rfl
      · exact absurd ⟨t, ht, ho⟩ h
    rw [groupsLen_zero ts ho]; rfl

/-! ## an enclosing header attempt cannot finish inside a complete header -/

/-- every syntactic header has at least the name and the opening parenthesis -/
theorem SynHeader.len {toks : List Tok} {p f : Nat} (h : SynHeader toks p f) :
    p + 2 ≤ f ∧ f ≤ toks.length := by
  obtain ⟨_, ho, hf⟩ := h
  have hlt := ho
  obtain ⟨o, ho', _⟩ := hlt
  have hlt1 := (List.getElem?_eq_some_iff.1 ho').1
  rw [groupsEnd_open ho] at hf
  have := groupsLen_le (toks.drop (p + 1 + 1)) 1
  simp only [List.length_drop] at this
  omega

/-- the finish of a syntactic header is determined by its start -/
theorem SynHeader.finish_unique {toks : List Tok} {p f f' : Nat} (h : SynHeader toks p f)
    (h' : SynHeader toks p f') : f = f' := by
  rw [h.2.2, h'.2.2]

/-- the name token of a syntactic header is not the punctuation token `)` (it is a name token) -/
theorem SynHeader.name_not_close {toks : List Tok} {p f : Nat} (h : SynHeader toks p f) :
    ∀ t, toks[p]? = some t → isClose t = false := by
  intro t ht
  obtain ⟨n, hn, hnm⟩ := h.1
  rw [ht] at hn; cases hn
  exact isName_not_isClose hnm

/-- Let `[p, f)` be a syntactic header that is followed by a token (`f < toks.length`).  A
syntactic header that starts EARLIER, at `q < p`, and is still running at `p` cannot finish inside
`(p, f]`: the name token at `p` is not a punctuation token, so from `p + 1` on the earlier header
is at least one level deeper than the header at `p`, and it reads at least the token `toks[f]`. -/
theorem SynHeader.no_earlier_finish_inside {toks : List Tok} {p f q f' : Nat}
    (h : SynHeader toks p f) (hf : f < toks.length) (hq : q < p)
    (h' : SynHeader toks q f') : ¬ (p < f' ∧ f' ≤ f) := by
  have hname := h.name_not_close
  rintro ⟨h1, h2⟩
  have hf' := h'.2.2
  have hfe := h.2.2
  unfold groupsEnd at hf' hfe
  have hk : p - (q + 1) < groupsLen (toks.drop (q + 1)) 0 := by omega
  obtain ⟨t, d', ht, hsplit, hd'⟩ := groupsLen_split _ 0 _ hk
  rw [List.getElem?_drop, show q + 1 + (p - (q + 1)) = p by omega] at ht
  rw [List.drop_drop, show q + 1 + (p - (q + 1) + 1) = p + 1 by omega] at hsplit
  have hd1 : 1 ≤ d' := hd' (hname t ht)
  have hlen : groupsLen (toks.drop (p + 1)) 0 < (toks.drop (p + 1)).length := by
    simp only [List.length_drop]; omega
  have := groupsLen_lt_of_lt (toks.drop (p + 1)) (d := 0) (d' := d') (by omega) hlen
  omega

theorem groupsLen_pos (t : Tok) (ts : List Tok) {d : Nat} (hd : 1 ≤ d) :
    1 ≤ groupsLen (t :: ts) d := by
  rcases groupsLen_cases t ts d with ⟨_, e⟩ | ⟨_, hz, _⟩ | ⟨_, _, d', _, e⟩ | ⟨_, _, d', _, e⟩
  · omega
  · omega
  · omega
  · omega

/-- A syntactic header that starts at `q` and reads the token at index `i > q`, which is not the
punctuation token `)`, goes on after it inside at least one open parenthesis; in particular it also reads the
token at `i + 1` if there is one. -/
theorem SynHeader.enclosing {toks : List Tok} {q f' i : Nat} (h' : SynHeader toks q f')
    (hq : q < i) (hi : i < f') (hname : ∀ t, toks[i]? = some t → isClose t = false) :
    (∃ d', 1 ≤ d' ∧ f' = i + 1 + groupsLen (toks.drop (i + 1)) d') ∧
      (i + 1 < toks.length → i + 1 < f') := by
  have hf' := h'.2.2
  unfold groupsEnd at hf'
  have hk : i - (q + 1) < groupsLen (toks.drop (q + 1)) 0 := by omega
  obtain ⟨t, d', ht, hsplit, hd'⟩ := groupsLen_split _ 0 _ hk
  rw [List.getElem?_drop, show q + 1 + (i - (q + 1)) = i by omega] at ht
  rw [List.drop_drop, show q + 1 + (i - (q + 1) + 1) = i + 1 by omega] at hsplit
  have hd1 : 1 ≤ d' := hd' (hname t ht)
  have hfe : f' = i + 1 + groupsLen (toks.drop (i + 1)) d' := by omega
  refine ⟨⟨d', hd1, hfe⟩, ?_⟩
  intro hlt
  have hx : toks[i + 1]? = some toks[i + 1] := by simp [hlt]
  rw [drop_eq_cons hx] at hfe
  have := groupsLen_pos toks[i + 1] (toks.drop (i + 1 + 1)) hd1
  omega

end CL.Syn
