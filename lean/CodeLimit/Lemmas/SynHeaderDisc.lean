import CodeLimit.Lemmas.SynHeaderMachine
import CodeLimit.Lemmas.SynHeaderFun
import CodeLimit.Lemmas.SynHeaderFollow
import CodeLimit.Props.C01disc
/-!
# Discovery through `extract_headers`, for a language whose header expression is `cExpr` / `fExpr`

The engine-level discovery theorems of `Props/C01disc.lean` with `GreedyAt` replaced by the
syntactic `SynHeader` / `FunHeader`, and the two isolation conditions `hbefore` / `hafter` of
`canonical_header_extracted` discharged from conditions on the token list:

* `hafter` from "no `Name (` strictly inside the parameter list";
* `hbefore` from "the header is followed by a token" (`SynHeader.no_earlier_finish_inside`; the
  name token is a name token, hence not the punctuation token `)` that could close a group of an
  earlier attempt).
-/
namespace CL.Syn
open CL.Compose CL.C01disc

/-! ## single pattern `cExpr` (C, C++, C#, Java) -/

section cpat
variable {L : Language} {fo : Option (Rx Pred)}

/-- every extracted header is a syntactic header that passes the follow-up test and the
previous-keyword filter, and its name is its first token -/
theorem sound_cExpr (hL : L ∈ Gen.all.map (·.2)) (hpats : L.pats = [⟨cExpr, fo⟩])
    {toks : List Tok} {hs : List Header} (h : extractHeaders L toks = .ok hs) :
    ∀ hd ∈ hs, SynHeader toks hd.rng.s hd.rng.e ∧ FollowsAt fo toks hd.rng.e ∧
      PrevOk L toks hd.rng.s ∧ toks[hd.rng.s]? = some hd.name := by
  intro hd hhd
  obtain ⟨hp, hhp, D, hD, hg, hfo, hprev, hname⟩ := extracted_is_header L hL toks hs h hd hhd
  rw [hpats, List.mem_singleton] at hhp
  subst hhp
  have hsyn := (greedyAt_iff_synHeader hD toks _ _).1 hg
  refine ⟨hsyn, hfo, hprev, ?_⟩
  obtain ⟨n, hn, hnm⟩ := hsyn.1
  rw [firstName_slice hn hnm (by have := hsyn.len; omega)] at hname
  cases hname
  exact hn

/-- a syntactic header that passes the follow-up test and the previous-keyword filter, is
followed by a token and has no `Name (` strictly inside its parameter list, is extracted, exactly
once -/
theorem complete_cExpr (hL : L ∈ Gen.all.map (·.2)) (hpats : L.pats = [⟨cExpr, fo⟩])
    {toks : List Tok} {hs : List Header} (h : extractHeaders L toks = .ok hs) {p f : Nat}
    (hsyn : SynHeader toks p f) (hfo : FollowsAt fo toks f) (hlt : f < toks.length)
    (hprev : PrevOk L toks p)
    (hnocall : ∀ q, p < q → q + 2 < f → ¬ (NameAt toks q ∧ OpenAt toks (q + 1))) :
    ∃ hd ∈ hs, hd.rng = ⟨p, f⟩ ∧ toks[p]? = some hd.name ∧
      ∀ hd' ∈ hs, hd'.rng.s = p → hd' = hd := by
  have hhp : (⟨cExpr, fo⟩ : HeaderPat) ∈ L.pats := by rw [hpats]; exact List.mem_singleton.2 rfl
  have hiff := greedyAt_iff_synHeader compile_cExpr toks
  obtain ⟨hd, hhd, hr, hnm, huniq⟩ := canonical_header_extracted L hL ⟨cExpr, fo⟩ hhp cDfa
    compile_cExpr toks hs h p f ((hiff p f).2 hsyn)
    (fun q f' hq hg => hsyn.no_earlier_finish_inside hlt hq ((hiff q f').1 hg))
    (by
      intro q f' hq hg hlt'
      have hs' := (hiff q f').1 hg
      have := hs'.len
      exact hnocall q hq (by omega) ⟨hs'.1, hs'.2.1⟩)
    hfo hprev
  refine ⟨hd, hhd, hr, ?_, huniq⟩
  obtain ⟨n, hn, hnn⟩ := hsyn.1
  rw [firstName_slice hn hnn (by have := hsyn.len; omega)] at hnm
  cases hnm
  exact hn

end cpat

/-! ## first pattern `fExpr` (JavaScript, TypeScript) -/

section fpat
variable {L : Language} {fo : Option (Rx Pred)}

theorem keywordAt_not_nameAt {toks : List Tok} {i : Nat} {s : Str} (hk : KeywordAt toks i s) :
    ¬ NameAt toks i := by
  rintro ⟨t, ht, hn⟩
  obtain ⟨t', ht', hk'⟩ := hk
  rw [ht] at ht'; cases ht'
  simp only [Tok.isKeyword, Bool.and_eq_true, beq_iff_eq] at hk'
  simp [Tok.isName, hk'.1] at hn

theorem keywordAt_not_close {toks : List Tok} {i : Nat} (hk : KeywordAt toks i
    [102, 117, 110, 99, 116, 105, 111, 110]) : ∀ t, toks[i]? = some t → isClose t = false := by
  intro t ht
  obtain ⟨t', ht', hk'⟩ := hk
  rw [ht] at ht'; cases ht'
  simp only [Tok.isKeyword, Bool.and_eq_true, beq_iff_eq] at hk'
  simp [isClose, Tok.isSymbol, hk'.1]

theorem funHeader_funStart {toks : List Tok} {n f : Nat} (hsyn : SynHeader toks n f) :
    FunHeader toks (funStart toks n) f := by
  unfold funStart
  split
  · rename_i hk
    right
    rw [show n - 1 + 1 = n by omega]
    exact ⟨hk.2, hsyn⟩
  · exact .inl hsyn

/-- every header extracted through the pattern `fExpr` is `[function] Name ( ... )`, passes the
follow-up test, and its name is its first name token -/
theorem sound_fExpr (hL : L ∈ Gen.all.map (·.2)) (hhp : (⟨fExpr, fo⟩ : HeaderPat) ∈ L.pats)
    {toks : List Tok} {hs : List Header} (h : getHeaders ⟨fExpr, fo⟩ toks = .ok hs) :
    ∀ hd ∈ hs, FunHeader toks hd.rng.s hd.rng.e ∧ FollowsAt fo toks hd.rng.e ∧
      ((SynHeader toks hd.rng.s hd.rng.e ∧ toks[hd.rng.s]? = some hd.name) ∨
       (SynHeader toks (hd.rng.s + 1) hd.rng.e ∧ toks[hd.rng.s + 1]? = some hd.name)) := by
  intro hd hhd
  obtain ⟨D, ms, hD, hms, h1, _⟩ := getHeaders_mem h
  obtain ⟨m, hm, hfo, hrng, hname⟩ := h1 hd hhd
  obtain ⟨hnn, hds⟩ := shipped_machine L hL _ hhp D hD
  have hg := C14.greedy hnn hds hms m hm
  have hrec := C14.records hnn hds hms m hm
  have hs' : hd.rng.s = m.s := by rw [hrng]
  have he' : hd.rng.e = m.e := by rw [hrng]
  rw [hs', he']
  have hfun := (greedyAt_iff_funHeader hD toks _ _).1 hg
  refine ⟨hfun, hfo, ?_⟩
  rw [hrec] at hname
  rcases hfun with hsyn | ⟨hk, hsyn⟩
  · left
    obtain ⟨n, hn, hnm⟩ := hsyn.1
    rw [firstName_slice hn hnm (by have := hsyn.len; omega)] at hname
    cases hname
    exact ⟨hsyn, hn⟩
  · right
    obtain ⟨n, hn, hnm⟩ := hsyn.1
    have hk' := hk
    obtain ⟨k, hkk, hkw⟩ := hk'
    have hkn : k.isName = false := by
      cases hh : k.isName
      · rfl
      · exact absurd ⟨k, hkk, hh⟩ (keywordAt_not_nameAt hk)
    rw [firstName_slice_succ hkk hkn hn hnm (by have := hsyn.len; omega)] at hname
    cases hname
    exact ⟨hsyn, hn⟩

/-- the two isolation conditions for a function header whose name is at `n` -/
theorem fun_isolated {toks : List Tok} {n f : Nat} (hsyn : SynHeader toks n f)
    (hlt : f < toks.length)
    (hnocall : ∀ q, n < q → q + 2 < f → ¬ (NameAt toks q ∧ OpenAt toks (q + 1))) :
    (∀ q f', q < funStart toks n → FunHeader toks q f' → ¬ (funStart toks n < f' ∧ f' ≤ f)) ∧
    (∀ q f', funStart toks n < q → FunHeader toks q f' → ¬ f' < f) := by
  have hstart : funStart toks n = n ∨
      (0 < n ∧ KeywordAt toks (n - 1) [102, 117, 110, 99, 116, 105, 111, 110] ∧
        funStart toks n = n - 1) := by
    unfold funStart; split
    · rename_i hk; exact .inr ⟨hk.1, hk.2, rfl⟩
    · exact .inl rfl
  constructor
  · intro q f' hq hfun hin
    -- the syntactic header inside the earlier attempt starts at `q'`
    obtain ⟨q', hq', hq'', hsyn'⟩ : ∃ q', q ≤ q' ∧ q' ≤ q + 1 ∧ SynHeader toks q' f' := by
      rcases hfun with h | ⟨_, h⟩
      · exact ⟨q, Nat.le_refl _, Nat.le_succ _, h⟩
      · exact ⟨q + 1, Nat.le_succ _, Nat.le_refl _, h⟩
    rcases hstart with he | ⟨hpos, hk, he⟩
    · rw [he] at hq hin
      rcases Nat.lt_or_ge q' n with hlt' | hge
      · exact hsyn.no_earlier_finish_inside hlt hlt' hsyn' hin
      · -- `q' = n = q + 1`: the earlier attempt is `function Name ( ...` itself
        have hqn : q' = n := by omega
        have hq1 : q + 1 = n := by omega
        rcases hfun with h | ⟨hkq, _⟩
        · have := hsyn.finish_unique (hqn ▸ hsyn')
          have h2 := h.len; have h3 := hsyn.len
          -- `SynHeader toks q f'` with `q < n < f'`: excluded like any earlier header
          exact hsyn.no_earlier_finish_inside hlt (by omega) h hin
        · -- the keyword `function` directly before the name: excluded by `funStart`
          have hfs : funStart toks n = n - 1 := by
            unfold funStart
            rw [if_pos ⟨by omega, by rw [show n - 1 = q by omega]; exact hkq⟩]
          omega
    · rw [he] at hq hin
      have hq'n : q' < n := by omega
      have hq'k : q' < n - 1 := by
        rcases Nat.lt_or_ge q' (n - 1) with h | h
        · exact h
        · have : q' = n - 1 := by omega
          exact absurd (this ▸ hsyn'.1) (keywordAt_not_nameAt hk)
      obtain ⟨_, hnext⟩ := hsyn'.enclosing hq'k hin.1 (keywordAt_not_close hk)
      have hlen := hsyn.len
      have : n - 1 + 1 < f' := hnext (by omega)
      exact hsyn.no_earlier_finish_inside hlt hq'n hsyn' ⟨by omega, hin.2⟩
  · intro q f' hq hfun hlt'
    have hqn : n ≤ q := by
      rcases hstart with he | ⟨_, _, he⟩ <;> omega
    rcases hfun with h | ⟨hk, h⟩
    · rcases Nat.lt_or_ge n q with hnq | hge
      · have := h.len
        exact hnocall q hnq (by omega) ⟨h.1, h.2.1⟩
      · have : q = n := by omega
        subst this
        have := hsyn.finish_unique h
        omega
    · rcases Nat.lt_or_ge n q with hnq | hge
      · have := h.len
        exact hnocall (q + 1) (by omega) (by omega) ⟨h.1, h.2.1⟩
      · have : q = n := by omega
        subst this
        exact keywordAt_not_nameAt hk hsyn.1

/-- a function header `[function] Name ( ... )` that passes the follow-up test, is followed by a
token and has no `Name (` strictly inside its parameter list, is extracted, exactly once; its
range starts at the keyword `function` when there is one -/
theorem complete_fExpr (hL : L ∈ Gen.all.map (·.2)) (hhp : (⟨fExpr, fo⟩ : HeaderPat) ∈ L.pats)
    (hprev : L.prevKw = none)
    {toks : List Tok} {hs : List Header} (h : extractHeaders L toks = .ok hs) {n f : Nat}
    (hsyn : SynHeader toks n f) (hfo : FollowsAt fo toks f) (hlt : f < toks.length)
    (hnocall : ∀ q, n < q → q + 2 < f → ¬ (NameAt toks q ∧ OpenAt toks (q + 1))) :
    ∃ hd ∈ hs, hd.rng = ⟨funStart toks n, f⟩ ∧ toks[n]? = some hd.name ∧
      ∀ hd' ∈ hs, hd'.rng.s = funStart toks n → hd' = hd := by
  have hiff := greedyAt_iff_funHeader compile_fExpr toks
  obtain ⟨hb, ha⟩ := fun_isolated hsyn hlt hnocall
  obtain ⟨hd, hhd, hr, hnm, huniq⟩ := canonical_header_extracted L hL ⟨fExpr, fo⟩ hhp fDfa
    compile_fExpr toks hs h (funStart toks n) f ((hiff _ f).2 (funHeader_funStart hsyn))
    (fun q f' hq hg => hb q f' hq ((hiff q f').1 hg))
    (fun q f' hq hg => ha q f' hq ((hiff q f').1 hg))
    hfo (prevOk_none hprev toks _)
  refine ⟨hd, hhd, hr, ?_, huniq⟩
  obtain ⟨t, ht, htn⟩ := hsyn.1
  have hlen := hsyn.len
  unfold funStart at hnm
  split at hnm
  · rename_i hk
    obtain ⟨k, hkk, hkw⟩ := hk.2
    have hkn : k.isName = false := by
      cases hh : k.isName
      · rfl
      · exact absurd ⟨k, hkk, hh⟩ (keywordAt_not_nameAt hk.2)
    have ht' : toks[n - 1 + 1]? = some t := by rw [show n - 1 + 1 = n by omega]; exact ht
    rw [firstName_slice_succ hkk hkn ht' htn (by omega)] at hnm
    cases hnm
    exact ht
  · rw [firstName_slice ht htn (by omega)] at hnm
    cases hnm
    exact ht

/-- through `extract_headers` of a language with the patterns `[fExpr, hp2]`: every extracted
header comes from the function pattern, and then is `[function] Name ( ... )`, or comes from the
second pattern -/
theorem sound_fExpr_extract {hp2 : HeaderPat} (hL : L ∈ Gen.all.map (·.2))
    (hpats : L.pats = [⟨fExpr, fo⟩, hp2])
    {toks : List Tok} {hs : List Header} (h : extractHeaders L toks = .ok hs) :
    ∀ hd ∈ hs,
      (FunHeader toks hd.rng.s hd.rng.e ∧ FollowsAt fo toks hd.rng.e ∧
        ((SynHeader toks hd.rng.s hd.rng.e ∧ toks[hd.rng.s]? = some hd.name) ∨
         (SynHeader toks (hd.rng.s + 1) hd.rng.e ∧ toks[hd.rng.s + 1]? = some hd.name))) ∨
      (∃ hs2, getHeaders hp2 toks = .ok hs2 ∧ hd ∈ hs2) := by
  intro hd hhd
  obtain ⟨_, hmem⟩ := extractHeaders_mem_iff h
  obtain ⟨⟨hp, hhp, hs', hget, hhd'⟩, _⟩ := (hmem hd).1 hhd
  have hhp1 : (⟨fExpr, fo⟩ : HeaderPat) ∈ L.pats := by rw [hpats]; exact List.mem_cons_self ..
  rw [hpats] at hhp
  rcases List.mem_cons.1 hhp with rfl | hhp
  · exact .inl (sound_fExpr hL hhp1 hget hd hhd')
  · rw [List.mem_singleton] at hhp
    subst hhp
    exact .inr ⟨hs', hget, hhd'⟩

end fpat

end CL.Syn
