import CodeLimit.Spec.GapsPrint
import CodeLimit.Props.C02
import CodeLimit.Props.C12
/-!
# Lemmas about what `check` prints (`Model/CheckPrint.lean`)
-/
namespace CL.Print

open CL CL.Sel CL.Json

/-! ## `normpath`, `relpath` on component lists -/

theorem normStep_plain {st : List Str} {c : Str} (h : plain c = true) : normStep st c = c :: st := by
  simp only [plain, Bool.not_eq_true', Bool.or_eq_false_iff, beq_eq_false_iff_ne, ne_eq] at h
  simp [normStep, h.1.1, h.1.2, h.2]

theorem foldl_normStep_plain : ∀ (xs st : List Str), xs.all plain = true → xs.foldl normStep st = xs.reverse ++ st
  | [], _, _ => rfl
  | x :: xs, st, h => by
    simp only [List.all_cons, Bool.and_eq_true] at h
    rw [List.foldl_cons, normStep_plain h.1, foldl_normStep_plain xs _ h.2]
    simp

theorem normComps_plain {xs : List Str} (h : xs.all plain = true) : normComps xs = xs := by
  simp [normComps, foldl_normStep_plain xs [] h]

theorem normStep_dotdot (st : List Str) : normStep st [46, 46] = st.tail := by
  simp [normStep]

theorem foldl_normStep_dotdots : ∀ (k : Nat) (st : List Str), (List.replicate k [46, 46]).foldl normStep st = st.drop k
  | 0, st => rfl
  | k + 1, st => by
    rw [List.replicate_succ, List.foldl_cons, normStep_dotdot, foldl_normStep_dotdots k]
    cases st <;> simp

/-- every component on the stack of `normpath` is plain -/
theorem normStep_all_plain {st : List Str} {c : Str} (h : st.all plain = true) : (normStep st c).all plain = true := by
  unfold normStep
  split
  · exact h
  · split
    · cases st with
      | nil => rfl
      | cons a t => simp only [List.all_cons, Bool.and_eq_true] at h; exact h.2
    · rename_i h1 h2
      simp only [List.all_cons, h, Bool.and_true, plain]
      simp only [not_or] at h1
      simp [h1.1, h1.2, h2]

theorem foldl_normStep_all_plain : ∀ (xs st : List Str), st.all plain = true → (xs.foldl normStep st).all plain = true
  | [], _, h => h
  | _ :: xs, _, h => foldl_normStep_all_plain xs _ (normStep_all_plain h)

theorem normComps_all_plain (xs : List Str) : (normComps xs).all plain = true := by
  simp only [normComps, List.all_reverse]
  exact foldl_normStep_all_plain xs [] rfl

theorem commonLen_le_left : ∀ (a b : List Str), commonLen a b ≤ a.length
  | [], _ => by simp [commonLen]
  | _ :: _, [] => by simp [commonLen]
  | x :: xs, y :: ys => by
    simp only [commonLen]
    split
    · have := commonLen_le_left xs ys; simp; omega
    · simp

theorem commonLen_take : ∀ (a b : List Str), a.take (commonLen a b) = b.take (commonLen a b)
  | [], _ => by simp [commonLen]
  | _ :: _, [] => by simp [commonLen]
  | x :: xs, y :: ys => by
    simp only [commonLen]
    split
    · rename_i h; simp [h, commonLen_take xs ys]
    · simp

/-- **`relpath` is correct**: appending the relative path to `start` and normalising gives `path`
(for normalised `start` and `path`) -/
theorem norm_start_relpath {start path : List Str} (hs : start.all plain = true) (hp : path.all plain = true) :
    normComps (start ++ relpath start path) = path := by
  unfold relpath
  simp only
  generalize hi : commonLen start path = i
  have hle : i ≤ start.length := hi ▸ commonLen_le_left start path
  have htk : start.take i = path.take i := hi ▸ commonLen_take start path
  have hdrop : (path.drop i).all plain = true := by
    rw [List.all_eq_true] at hp ⊢
    exact fun x hx => hp x (List.mem_of_mem_drop hx)
  have main : normComps (start ++ (List.replicate (start.length - i) [46, 46] ++ path.drop i)) = path := by
    simp only [normComps, List.foldl_append, foldl_normStep_plain start [] hs, foldl_normStep_dotdots,
      List.append_nil]
    rw [foldl_normStep_plain _ _ hdrop]
    simp only [List.reverse_append, List.reverse_reverse]
    have : (start.reverse.drop (start.length - i)).reverse = start.take i := by
      rw [List.drop_reverse, List.reverse_reverse]
      congr 1; omega
    rw [this, htk, List.take_append_drop]
  split
  · rename_i he
    have he' : List.replicate (start.length - i) [46, 46] ++ path.drop i = [] := by simpa using he
    rw [he', List.append_nil] at main
    simp only [normComps, List.foldl_append, List.foldl_cons, List.foldl_nil] at main ⊢
    rw [show normStep (List.foldl normStep [] start) [46] = List.foldl normStep [] start by simp [normStep]]
    exact main
  · exact main

/-! ## the invariant of `check_command`: every listed list is a risk selection -/

/-- every entry of `file_list` holds the `risks` of some measurement list -/
def RisksInv (st : CheckSt) : Prop := ∀ pr ∈ st.fileList, ∃ ms, pr.2 = risksOf ms

theorem forE_inv {α σ : Type} (P : σ → Prop) (body : α → σ → σ × Option Err)
    (h : ∀ x s, P s → P (body x s).1) : ∀ (xs : List α) (s : σ), P s → P (forE body xs s).1
  | [], _, hs => hs
  | x :: xs, s, hs => by
    have hx := h x s hs
    unfold forE
    cases hb : body x s with
    | mk s' o =>
      rw [hb] at hx
      cases o with
      | none => exact forE_inv P body h xs s' hx
      | some e => exact hx

theorem checkFile_inv (O : Oracles) (path : CPath) (content : Str) (st : CheckSt) (h : RisksInv st) :
    RisksInv (checkFile O path content st).1 := by
  unfold checkFile
  split
  · exact h
  · split
    · exact h
    · rename_i ms _
      intro pr hpr
      simp only [List.mem_append, List.mem_singleton] at hpr
      rcases hpr with hpr | rfl
      · exact h pr hpr
      · exact ⟨ms, rfl⟩

theorem checkBody_inv (O : Oracles) (cwd pre : List Str) (f : Str × Str) (st : CheckSt) (h : RisksInv st) :
    RisksInv (checkBody O cwd pre f st).1 := by
  unfold checkBody
  simp only
  split
  · split
    · exact h
    · exact checkFile_inv O _ _ st h
  · exact checkFile_inv O _ _ st h

theorem checkDirBody_inv (O : Oracles) (cwd : List Str) (step : List Str × List (Str × Str)) (st : CheckSt)
    (h : RisksInv st) : RisksInv (checkDirBody O cwd step st).1 :=
  forE_inv RisksInv _ (fun f s hs => checkBody_inv O cwd step.1 f s hs) _ st h

theorem checkArgBody_inv (O : Oracles) (fs : Node) (cwd : List Str) (arg : CheckArg) (st : CheckSt)
    (h : RisksInv st) : RisksInv (checkArgBody O fs cwd arg st).1 := by
  unfold checkArgBody
  simp only
  split
  · split
    · exact checkFile_inv O _ _ st h
    · split
      · split
        · exact h
        · exact checkFile_inv O _ _ st h
      · exact checkFile_inv O _ _ st h
  · exact forE_inv RisksInv _ (fun s' s hs => checkDirBody_inv O cwd s' s hs) _ st h
  · exact h

theorem checkPaths_risks (O : Oracles) (fs : Node) (cwd : List Str) (args : List CheckArg)
    (fl : List (CPath × List Measurement)) (h : (checkPaths O fs cwd args).result = .ok fl) :
    ∀ pr ∈ fl, ∃ ms, pr.2 = risksOf ms := by
  have inv := forE_inv RisksInv (checkArgBody O fs cwd) (fun a s hs => checkArgBody_inv O fs cwd a s hs) args ⟨[], []⟩
    (by intro pr hpr; cases hpr)
  unfold checkPaths at h
  cases hf : forE (checkArgBody O fs cwd) args ⟨[], []⟩ with
  | mk st o =>
    rw [hf] at h inv
    cases o with
    | none => simp only at h; cases h; exact inv
    | some e => simp at h

/-! ## risks of measurements and risks of lengths (C02's model) -/

theorem risksOf_lens (ms : List Measurement) :
    (risksOf ms).map (fun m => (m.len : Int)) = fileRisks (ms.map fun m => (m.len : Int)) := by
  unfold risksOf fileRisks
  rw [List.filter_map]
  refine (List.map_mergeSort (s := fun a b : Int => decide (b ≤ a)) ?_).trans ?_
  · intro a _ b _
    simp
  · rfl

theorem counters_foldl (fl : List (CPath × List Measurement)) (a : Int × Int) :
    fl.foldl (fun acc fm =>
      (acc.1 + ((fm.2.filter fun m => decide (Gen.Logic.check_counts_hard (m.len : Int))).length : Int),
       acc.2 + ((fm.2.filter fun m => decide (Gen.Logic.check_counts_unmaintainable (m.len : Int))).length : Int))) a =
    (a.1 + (((fl.flatMap (·.2)).filter fun m => decide (Gen.Logic.check_counts_hard (m.len : Int))).length : Int),
     a.2 + (((fl.flatMap (·.2)).filter fun m => decide (Gen.Logic.check_counts_unmaintainable (m.len : Int))).length : Int)) := by
  induction fl generalizing a with
  | nil => simp
  | cons fm t ih =>
    rw [List.foldl_cons, ih]
    simp only [List.flatMap_cons, List.filter_append, List.length_append]
    ext <;> simp only [] <;> push_cast <;> omega

theorem counters_eq (fl : List (CPath × List Measurement)) :
    counters fl =
    ((((fl.flatMap (·.2)).filter fun m => decide (Gen.Logic.check_counts_hard (m.len : Int))).length : Int),
     (((fl.flatMap (·.2)).filter fun m => decide (Gen.Logic.check_counts_unmaintainable (m.len : Int))).length : Int)) := by
  unfold counters
  rw [counters_foldl]
  simp

theorem flatMap_risks_lens (files : List (CPath × List Measurement)) :
    ((risksList files).flatMap (·.2)).map (fun m => (m.len : Int)) = ((lensOf files).map fileRisks).flatten := by
  induction files with
  | nil => rfl
  | cons fm t ih =>
    simp only [risksList, lensOf, List.map_cons, List.flatMap_cons, List.map_append, List.flatten_cons] at ih ⊢
    rw [ih, risksOf_lens]

theorem filter_len_length (p : Int → Bool) (l : List Measurement) :
    (l.filter fun m => p (m.len : Int)).length = ((l.map fun m => (m.len : Int)).filter p).length := by
  rw [List.filter_map, List.length_map]
  rfl

/-- the counters of `CheckResult` computed on measurements are those of C02's model on lengths -/
theorem counters_checkAll (files : List (CPath × List Measurement)) :
    counters (risksList files) = ((checkAll (lensOf files)).hard, (checkAll (lensOf files)).unm) := by
  have hs := C02.checkAll_spec (lensOf files)
  rw [counters_eq, hs.2.1, hs.2.2]
  rw [filter_len_length (fun v => decide (Gen.Logic.check_counts_hard v)),
    filter_len_length (fun v => decide (Gen.Logic.check_counts_unmaintainable v)), flatMap_risks_lens]

end CL.Print
