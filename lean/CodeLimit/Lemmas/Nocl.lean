import CodeLimit.Model.Scopes
import CodeLimit.Spec.Nocl
/-!
# Lemmas for C17 (the `nocl` suppression marker)

* `isNoclText_iff` - an independent characterisation of the marker text;
* `mem_filterNocl_iff`, `buildScopes_eq` - which scopes survive `_filter_nocl_scopes`.

The specification vocabulary (`Marked`, `PosSorted`, `StartSorted`, `Independent`,
`Measurement.encloses`) is in `CodeLimit/Spec/Nocl.lean`; `rawScopes` and `arrange` below are
decompositions of the model function `buildScopes`, not specification.

Continued in `NoclFold.lean` (removing an independent scope does not change the nesting
structure of the other scopes; measurements are computed scope by scope), `NoclSorted.lean`
(`build_scopes` yields scopes sorted by header start) and `NoclExamples.lean` (concrete data).
-/
set_option linter.unusedSimpArgs false

namespace CL

/-! ## T1: marker recognition -/

theorem isSpaceChar_bound {c : Nat} (h : isSpaceChar c = true) : c < 65 ∨ 122 < c := by
  simp [isSpaceChar, spaceChars] at h
  omega

theorem isSpaceChar_lowerAscii (c : Nat) : isSpaceChar (lowerAscii c) = isSpaceChar c := by
  unfold lowerAscii
  split
  · rename_i h
    have h1 : isSpaceChar (c + 32) = false := by
      cases hh : isSpaceChar (c + 32) with
      | false => rfl
      | true => have := isSpaceChar_bound hh; omega
    have h2 : isSpaceChar c = false := by
      cases hh : isSpaceChar c with
      | false => rfl
      | true => have := isSpaceChar_bound hh; omega
    rw [h1, h2]
  · rfl

theorem stripLeft_map_lowerAscii (s : Str) :
    stripLeft (s.map lowerAscii) = (stripLeft s).map lowerAscii := by
  unfold stripLeft
  induction s with
  | nil => rfl
  | cons c cs ih =>
    simp only [List.map_cons, List.dropWhile_cons, isSpaceChar_lowerAscii]
    split
    · exact ih
    · rfl

/-- `p` is a prefix of `w.map f` iff `w` starts with some `mark` that `f` maps to `p` -/
theorem startsWithStr_map_iff (f : Nat → Nat) (w p : Str) :
    startsWithStr (w.map f) p = true ↔ ∃ mark rest, w = mark ++ rest ∧ mark.map f = p := by
  unfold startsWithStr
  rw [List.isPrefixOf_iff_prefix]
  constructor
  · rintro ⟨t, ht⟩
    obtain ⟨l1, l2, h1, h2, _⟩ := List.map_eq_append_iff.mp ht.symm
    exact ⟨l1, l2, h1, h2⟩
  · rintro ⟨mark, rest, rfl, rfl⟩
    exact ⟨rest.map f, by simp⟩

theorem stripLeft_append_of_all {ws : Str} (h : ws.all isSpaceChar = true) {m : Nat}
    (hm : isSpaceChar m = false) (rest : Str) : stripLeft (ws ++ m :: rest) = m :: rest := by
  unfold stripLeft
  induction ws with
  | nil => simp [hm]
  | cons c cs ih =>
    simp only [List.all_cons, Bool.and_eq_true] at h
    simp [h.1, ih h.2]

theorem stripLeft_decomp (s : Str) :
    ∃ ws, s = ws ++ stripLeft s ∧ ws.all isSpaceChar = true := by
  refine ⟨s.takeWhile isSpaceChar, ?_, ?_⟩
  · unfold stripLeft; exact (List.takeWhile_append_dropWhile).symm
  · exact List.all_takeWhile

theorem lowerAscii_eq_small {c k : Nat} (hk : k < 65) (h : lowerAscii c = k) : c = k := by
  unfold lowerAscii at h
  split at h <;> omega

theorem lowerAscii_small {k : Nat} (hk : k < 65) : lowerAscii k = k := by
  unfold lowerAscii
  split <;> omega

/-- a marker's first character is a letter `n`/`N`: neither blank nor a leader character -/
theorem mark_head {mark : Str} (h : mark.map lowerAscii = [110, 111, 99, 108]) :
    ∃ m tl, mark = m :: tl ∧ lowerAscii m = 110 ∧ isSpaceChar m = false ∧
      m ≠ 35 ∧ m ≠ 59 ∧ m ≠ 47 := by
  match mark, h with
  | m :: tl, h =>
    simp only [List.map_cons, List.cons.injEq] at h
    refine ⟨m, tl, rfl, h.1, ?_, ?_, ?_, ?_⟩
    · cases hh : isSpaceChar m with
      | false => rfl
      | true =>
        have := isSpaceChar_bound hh
        have := h.1
        unfold lowerAscii at this
        split at this <;> omega
    all_goals
      intro hm
      subst hm
      exact absurd h.1 (by decide)

theorem isNoclText_iff (v : Str) :
    isNoclText v = true ↔
      ∃ leader ws mark rest, v = leader ++ ws ++ mark ++ rest ∧
        leader ∈ [[], [35], [59], [47, 47], [47, 42]] ∧
        (leader = [] → ws = []) ∧ ws.all isSpaceChar = true ∧
        mark.map lowerAscii = [110, 111, 99, 108] := by
  constructor
  · intro h
    unfold isNoclText at h
    simp only at h
    split at h
    · -- one-character leader
      rename_i hl
      match v, hl with
      | c :: v', hl =>
        have hc : c = 35 ∨ c = 59 := by
          simp only [startsWithStr, List.map_cons, List.isPrefixOf_cons_cons, List.isPrefixOf_nil_left,
            Bool.and_true, Bool.or_eq_true, beq_iff_eq] at hl
          rcases hl with hl | hl
          · exact .inl (lowerAscii_eq_small (by omega) hl.symm)
          · exact .inr (lowerAscii_eq_small (by omega) hl.symm)
        simp only [List.map_cons, List.drop_succ_cons, List.drop_zero] at h
        rw [stripLeft_map_lowerAscii, startsWithStr_map_iff] at h
        obtain ⟨mark, rest, h1, h2⟩ := h
        obtain ⟨ws, h3, h4⟩ := stripLeft_decomp v'
        refine ⟨[c], ws, mark, rest, ?_, ?_, by simp, h4, h2⟩
        · rw [h1] at h3
          rw [h3]; simp
        · rcases hc with rfl | rfl <;> simp
    · split at h
      · -- two-character leader
        rename_i _ hl
        match v, hl with
        | c :: d :: v', hl =>
          have hc : c = 47 ∧ (d = 47 ∨ d = 42) := by
            simp only [startsWithStr, List.map_cons, List.isPrefixOf_cons_cons, List.isPrefixOf_nil_left,
              Bool.and_true, Bool.or_eq_true, Bool.and_eq_true, beq_iff_eq] at hl
            rcases hl with hl | hl
            · exact ⟨lowerAscii_eq_small (by omega) hl.1.symm,
                .inl (lowerAscii_eq_small (by omega) hl.2.symm)⟩
            · exact ⟨lowerAscii_eq_small (by omega) hl.1.symm,
                .inr (lowerAscii_eq_small (by omega) hl.2.symm)⟩
          simp only [List.map_cons, List.drop_succ_cons, List.drop_zero] at h
          rw [stripLeft_map_lowerAscii, startsWithStr_map_iff] at h
          obtain ⟨mark, rest, h1, h2⟩ := h
          obtain ⟨ws, h3, h4⟩ := stripLeft_decomp v'
          refine ⟨[c, d], ws, mark, rest, ?_, ?_, by simp, h4, h2⟩
          · rw [h1] at h3
            rw [h3]; simp
          · obtain ⟨rfl, rfl | rfl⟩ := hc <;> simp
      · -- no leader, no stripping
        rw [startsWithStr_map_iff] at h
        obtain ⟨mark, rest, h1, h2⟩ := h
        exact ⟨[], [], mark, rest, by simp [h1], by simp, by simp, by simp, h2⟩
  · rintro ⟨leader, ws, mark, rest, rfl, hl, hws0, hws, hmark⟩
    obtain ⟨m, tl, rfl, hm, hsp, hm1, hm2, hm3⟩ := mark_head hmark
    have hfin : startsWithStr ((m :: tl ++ rest).map lowerAscii) [110, 111, 99, 108] = true :=
      (startsWithStr_map_iff _ _ _).mpr ⟨m :: tl, rest, rfl, hmark⟩
    have hstrip : stripLeft ((ws ++ (m :: tl) ++ rest).map lowerAscii)
        = (m :: tl ++ rest).map lowerAscii := by
      rw [stripLeft_map_lowerAscii]
      congr 1
      rw [List.append_assoc]
      exact stripLeft_append_of_all hws hsp _
    have hm' : lowerAscii m ≠ 35 ∧ lowerAscii m ≠ 59 ∧ lowerAscii m ≠ 47 := by
      rw [hm]; omega
    have l35 : lowerAscii 35 = 35 := rfl
    have l59 : lowerAscii 59 = 59 := rfl
    have l47 : lowerAscii 47 = 47 := rfl
    have l42 : lowerAscii 42 = 42 := rfl
    unfold isNoclText
    simp only [List.mem_cons, List.not_mem_nil, or_false] at hl
    rcases hl with rfl | rfl | rfl | rfl | rfl
    · have := hws0 rfl
      subst this
      have hv : ([] ++ [] ++ (m :: tl) ++ rest).map lowerAscii
          = 110 :: (tl ++ rest).map lowerAscii := by simp [hm]
      have hv' : (m :: tl ++ rest).map lowerAscii = 110 :: (tl ++ rest).map lowerAscii := by
        simp [hm]
      rw [hv'] at hfin
      rw [hv]
      have h1 : (startsWithStr (110 :: (tl ++ rest).map lowerAscii) [35]
          || startsWithStr (110 :: (tl ++ rest).map lowerAscii) [59]) = false := by
        simp [startsWithStr, List.isPrefixOf_cons_cons]
      have h2 : (startsWithStr (110 :: (tl ++ rest).map lowerAscii) [47, 47]
          || startsWithStr (110 :: (tl ++ rest).map lowerAscii) [47, 42]) = false := by
        simp [startsWithStr, List.isPrefixOf_cons_cons]
      simp only [h1, h2, Bool.false_eq_true, if_false]
      exact hfin
    · have : startsWithStr (([35] ++ ws ++ (m :: tl) ++ rest).map lowerAscii) [35] = true := by
        simp [startsWithStr, List.isPrefixOf_cons_cons, l35, l59, l47, l42]
      simp only [this, Bool.true_or, if_true]
      have hd : (([35] ++ ws ++ (m :: tl) ++ rest).map lowerAscii).drop 1
          = (ws ++ (m :: tl) ++ rest).map lowerAscii := by simp
      rw [hd, hstrip]; exact hfin
    · have : startsWithStr (([59] ++ ws ++ (m :: tl) ++ rest).map lowerAscii) [59] = true := by
        simp [startsWithStr, List.isPrefixOf_cons_cons, l35, l59, l47, l42]
      simp only [this, Bool.or_true, if_true]
      have hd : (([59] ++ ws ++ (m :: tl) ++ rest).map lowerAscii).drop 1
          = (ws ++ (m :: tl) ++ rest).map lowerAscii := by simp
      rw [hd, hstrip]; exact hfin
    · have h1 : (startsWithStr (([47, 47] ++ ws ++ (m :: tl) ++ rest).map lowerAscii) [35]
          || startsWithStr (([47, 47] ++ ws ++ (m :: tl) ++ rest).map lowerAscii) [59]) = false := by
        simp [startsWithStr, List.isPrefixOf_cons_cons, l35, l59, l47, l42]
      have h2 : startsWithStr (([47, 47] ++ ws ++ (m :: tl) ++ rest).map lowerAscii) [47, 47]
          = true := by
        simp [startsWithStr, List.isPrefixOf_cons_cons, l35, l59, l47, l42]
      simp only [h1, h2, Bool.true_or, if_true, Bool.false_eq_true, if_false]
      have hd : (([47, 47] ++ ws ++ (m :: tl) ++ rest).map lowerAscii).drop 2
          = (ws ++ (m :: tl) ++ rest).map lowerAscii := by simp
      rw [hd, hstrip]; exact hfin
    · have h1 : (startsWithStr (([47, 42] ++ ws ++ (m :: tl) ++ rest).map lowerAscii) [35]
          || startsWithStr (([47, 42] ++ ws ++ (m :: tl) ++ rest).map lowerAscii) [59]) = false := by
        simp [startsWithStr, List.isPrefixOf_cons_cons, l35, l59, l47, l42]
      have h2 : startsWithStr (([47, 42] ++ ws ++ (m :: tl) ++ rest).map lowerAscii) [47, 42]
          = true := by
        simp [startsWithStr, List.isPrefixOf_cons_cons, l35, l59, l47, l42]
      simp only [h1, h2, Bool.or_true, if_true, Bool.false_eq_true, if_false]
      have hd : (([47, 42] ++ ws ++ (m :: tl) ++ rest).map lowerAscii).drop 2
          = (ws ++ (m :: tl) ++ rest).map lowerAscii := by simp
      rw [hd, hstrip]; exact hfin

/-! ## T2: exactly the marked functions are dropped -/

/-! `Marked all ℓ` (line `ℓ` carries a suppression marker) is specification vocabulary:
`CodeLimit/Spec/Nocl.lean`. -/

theorem contains_noclLines_iff (all : List Tok) (ℓ : Nat) :
    ((noclTokens all).map (·.line)).contains ℓ = true ↔ Marked all ℓ := by
  simp only [List.contains_iff_mem, List.mem_map, noclTokens, List.mem_filter, Bool.and_eq_true,
    Marked]
  constructor
  · rintro ⟨t, ⟨h1, h2, h3⟩, h4⟩; exact ⟨t, h1, h2, h3, h4⟩
  · rintro ⟨t, h1, h2, h3, h4⟩; exact ⟨t, ⟨h1, h2, h3⟩, h4⟩

theorem marked_iff_mem_lines (all : List Tok) (ℓ : Nat) :
    Marked all ℓ ↔ ℓ ∈ (noclTokens all).map (·.line) := by
  rw [← contains_noclLines_iff, List.contains_iff_mem]

theorem filterNocl_eq_filter (scopes : List Scope) (all : List Tok) :
    filterNocl scopes (noclTokens all)
      = scopes.filter (fun s => decide (¬ Marked all s.hdr.name.line)) := by
  unfold filterNocl
  apply List.filter_congr
  intro s _
  have := contains_noclLines_iff all s.hdr.name.line
  generalize ((noclTokens all).map (·.line)).contains s.hdr.name.line = b at this
  cases b
  · have h : ¬ Marked all s.hdr.name.line := fun h => by simpa using this.mpr h
    simp [h]
  · have h : Marked all s.hdr.name.line := this.mp rfl
    simp [h]

theorem mem_filterNocl_iff (scopes : List Scope) (all : List Tok) (s : Scope) :
    s ∈ filterNocl scopes (noclTokens all) ↔ s ∈ scopes ∧ ¬ Marked all s.hdr.name.line := by
  rw [filterNocl_eq_filter]; simp

theorem filterNocl_sublist (scopes : List Scope) (nocl : List Tok) :
    (filterNocl scopes nocl).Sublist scopes := List.filter_sublist

/-- the scopes found in the code tokens, before any suppression: the first three steps of
`build_scopes` (they only see the code tokens) -/
def rawScopes (L : Language) (code : List Tok) : Except Err (List Scope) := do
  let hs ← extractHeaders L code
  let bs ← extractBlocks L code hs
  buildScopes0 code hs bs

/-- the last step of `build_scopes` + `unfold_scopes` -/
def arrange (L : Language) (fl : List Scope) : List (Scope × List Range) :=
  if L.nested then withChildren fl (foldParents fl 0 [])
  else (filterNested fl none).map (fun s => (s, []))

theorem buildScopes_eq (L : Language) (all : List Tok) :
    buildScopes L all = (rawScopes L (filterTokens false all)).map
      (fun sc => arrange L (filterNocl sc (noclTokens all))) := by
  unfold buildScopes rawScopes arrange
  simp only [bind, Except.bind, Except.map, pure, Except.pure]
  split
  · rfl
  · split
    · rfl
    · split
      · rfl
      · split <;> rfl

theorem withChildren_map_fst (scopes : List Scope) (parents : List (Option Nat)) :
    (withChildren scopes parents).map (·.1) = scopes := by
  unfold withChildren
  rw [List.map_map]
  exact (List.map_congr_left (fun x _ => rfl)).trans (List.zipIdx_map_fst 0 scopes)

theorem filterNested_sublist (l : List Scope) (st : Option Scope) :
    (filterNested l st).Sublist l := by
  induction l generalizing st with
  | nil => exact List.Sublist.slnil
  | cons s ss ih =>
    cases st with
    | none => exact (ih _).cons_cons _
    | some last =>
      unfold filterNested
      split
      · exact (ih _).cons _
      · exact (ih _).cons_cons _

theorem arrange_fst_nested {L : Language} (h : L.nested = true) (fl : List Scope) :
    (arrange L fl).map (·.1) = fl := by
  unfold arrange; rw [if_pos h]; exact withChildren_map_fst _ _

theorem arrange_fst_flat {L : Language} (h : L.nested = false) (fl : List Scope) :
    (arrange L fl).map (·.1) = filterNested fl none := by
  unfold arrange
  simp only [h, Bool.false_eq_true, if_false, List.map_map]
  exact (List.map_congr_left (fun x _ => rfl)).trans (List.map_id _)

end CL
