import CodeLimit.Lemmas.NoclFold
import CodeLimit.Gen.Languages
import CodeLimit.Lemmas.ExceptDec
/-!
# Concrete inputs for the non-vacuity examples of C17

`List.mergeSort` is defined by well-founded recursion and does not reduce in the kernel, so
`scanFile` cannot be evaluated by `decide` in one go; the pipeline is evaluated stage by stage
(`decide +kernel` for the parts that depend on the generated patterns, `simp` for the sorts).
-/
set_option linter.unusedSimpArgs false

namespace CL

theorem sortAsc_of {γ : Type} {toks : List Tok} {start : γ → Nat} {xs : List γ}
    {ks ks' : List ((Nat × Nat) × γ)} (hk : withKeys toks start xs = .ok ks)
    (hm : ks.mergeSort (fun a b => keyLe a.1 b.1) = ks') :
    sortAsc toks start xs = .ok (ks'.map (·.2)) := by
  unfold sortAsc; rw [hk]; simp only [hm]

theorem sortDesc_of {γ : Type} {toks : List Tok} {start : γ → Nat} {xs : List γ}
    {ks ks' : List ((Nat × Nat) × γ)} (hk : withKeys toks start xs = .ok ks)
    (hm : ks.mergeSort (fun a b => keyLe b.1 a.1) = ks') :
    sortDesc toks start xs = .ok (ks'.map (·.2)) := by
  unfold sortDesc; rw [hk]; simp only [hm]

theorem sortAsc_nil {γ : Type} (toks : List Tok) (start : γ → Nat) :
    sortAsc toks start [] = .ok [] := by
  simp [sortAsc, withKeys]

namespace C17Ex

/-! ## fold-level data: `o ⊃ i`, then the independent `x`, then `o2 ⊃ i2` -/

def nm (n l : Nat) : Tok := ⟨2, 2, [n], l, 1⟩
def mkScope (n l hs he be : Nat) : Scope := ⟨⟨nm n l, ⟨hs, he⟩⟩, ⟨he, be⟩⟩

def o : Scope := mkScope 111 1 0 3 20
def i : Scope := mkScope 105 2 5 8 12
def x : Scope := mkScope 120 5 20 23 27
def o2 : Scope := mkScope 112 6 27 30 50
def i2 : Scope := mkScope 106 7 32 35 40
def ex5 : List Scope := [o, i, x, o2, i2]

/-- three levels `a ⊃ m ⊃ b` -/
def a3 : Scope := mkScope 97 1 0 3 30
def m3 : Scope := mkScope 109 2 5 8 25
def b3 : Scope := mkScope 98 3 10 13 20

/-! ## end-to-end data: three C++ functions on three lines, a comment after the second -/

def mk (k : Nat) (v : Str) (l c : Nat) : Tok := ⟨k, k, v, l, c⟩

/-- `n ( ) { b ; }` on line `l` -/
def fn (n b l : Nat) : List Tok :=
  [mk 2 [n] l 1, mk 3 [40] l 2, mk 3 [41] l 3, mk 3 [123] l 5, mk 2 [b] l 7, mk 3 [59] l 8,
   mk 3 [125] l 10]

def code3 : List Tok := fn 102 97 1 ++ fn 103 98 2 ++ fn 104 99 3
/-- `f(){a;}` / `g(){b;} // x` / `h(){c;}` -/
def allU : List Tok := fn 102 97 1 ++ fn 103 98 2 ++ [mk 5 [47, 47, 32, 120] 2 12] ++ fn 104 99 3
/-- `f(){a;}` / `g(){b;} // NoCl` / `h(){c;}` -/
def allM : List Tok :=
  fn 102 97 1 ++ fn 103 98 2 ++ [mk 5 [47, 47, 32, 78, 111, 67, 108] 2 12] ++ fn 104 99 3

def sF : Scope := ⟨⟨mk 2 [102] 1 1, ⟨0, 3⟩⟩, ⟨3, 7⟩⟩
def sG : Scope := ⟨⟨mk 2 [103] 2 1, ⟨7, 10⟩⟩, ⟨10, 14⟩⟩
def sH : Scope := ⟨⟨mk 2 [104] 3 1, ⟨14, 17⟩⟩, ⟨17, 21⟩⟩

theorem code_U : filterTokens false allU = code3 := by decide
theorem code_M : filterTokens false allM = code3 := by decide

theorem headers3 : extractHeaders Gen.cpp code3 = .ok [sF.hdr, sG.hdr, sH.hdr] := by
  decide +kernel

theorem blocks3 : extractBlocks Gen.cpp code3 [sF.hdr, sG.hdr, sH.hdr]
    = .ok [sF.blk, sG.blk, sH.blk] := by
  have hpy : Gen.cpp.python = false := by decide
  unfold extractBlocks getBlocks
  rw [hpy]
  have hp : (balancedPairs [123] [125] code3 0 []).map (fun p => (⟨p.1, p.2 + 1⟩ : Range))
      = [sF.blk, sG.blk, sH.blk] := by decide +kernel
  rw [hp]
  have hk : withKeys code3 Range.s [sF.blk, sG.blk, sH.blk]
      = .ok [((1, 5), sF.blk), ((2, 5), sG.blk), ((3, 5), sH.blk)] := by decide +kernel
  exact sortAsc_of hk (ks' := [((1, 5), sF.blk), ((2, 5), sG.blk), ((3, 5), sH.blk)])
    (by simp [List.mergeSort, keyLe])

theorem scopes3 : buildScopes0 code3 [sF.hdr, sG.hdr, sH.hdr] [sF.blk, sG.blk, sH.blk]
    = .ok [sF, sG, sH] := by
  have hk : withKeys code3 (fun h : Header => h.rng.s) [sF.hdr, sG.hdr, sH.hdr]
      = .ok [((1, 1), sF.hdr), ((2, 1), sG.hdr), ((3, 1), sH.hdr)] := by decide +kernel
  have hs := sortDesc_of hk (ks' := [((3, 1), sH.hdr), ((2, 1), sG.hdr), ((1, 1), sF.hdr)])
    (by simp [List.mergeSort, keyLe])
  have hl : buildScopesLoop [sH.hdr, sG.hdr, sF.hdr] [sF.blk, sG.blk, sH.blk]
      = .ok [sH, sG, sF] := by decide +kernel
  unfold buildScopes0
  rw [hs]
  simp only [List.map_cons, List.map_nil, hl]
  rfl

theorem raw3 : rawScopes Gen.cpp code3 = .ok [sF, sG, sH] := by
  unfold rawScopes
  rw [headers3]
  simp only [bind, Except.bind]
  rw [blocks3]
  exact scopes3

def mF : Measurement := ⟨[102], 1, 1, 1, 11, 1⟩
def mG : Measurement := ⟨[103], 2, 1, 2, 11, 1⟩
def mH : Measurement := ⟨[104], 3, 1, 3, 11, 1⟩

theorem measure_nil (toks : List Tok) (s : Scope) (m : Measurement)
    (h : (do
      let len ← (match scopeLinesLoop toks (s.blk.e - s.hdr.rng.s) s.hdr.rng.s [] with
        | .error e => .error e
        | .ok ls => .ok (countDistinct ls) : Except Err Nat)
      let first ← getE toks s.hdr.rng.s
      if s.blk.e = 0 then throw .index
      let last ← getE toks (s.blk.e - 1)
      let info := lastLineInfo last.val
      let (el, ec) := if info.1 = 0 then (last.line, last.col + last.val.length)
        else (last.line + info.1, info.2 + 1)
      pure ⟨s.hdr.name.val, first.line, first.col, el, ec, len⟩ : Except Err Measurement) = .ok m) :
    measure toks s [] = .ok m := by
  unfold measure countLines
  rw [sortAsc_nil]
  exact h

theorem measureF : measure code3 sF [] = .ok mF := measure_nil _ _ _ (by decide +kernel)
theorem measureG : measure code3 sG [] = .ok mG := measure_nil _ _ _ (by decide +kernel)
theorem measureH : measure code3 sH [] = .ok mH := measure_nil _ _ _ (by decide +kernel)

theorem arrange3 : arrange Gen.cpp [sF, sG, sH] = [(sF, []), (sG, []), (sH, [])] := by decide

theorem scanU : scanFile Gen.cpp allU = .ok [mF, mG, mH] := by
  have hf : filterNocl [sF, sG, sH] (noclTokens allU) = [sF, sG, sH] := by decide
  unfold scanFile
  rw [buildScopes_eq, code_U, raw3]
  simp only [Except.map, hf, arrange3, measureAll, measureF, measureG, measureH]

theorem marked_U (ℓ : Nat) : ¬ Marked allU ℓ := by
  rw [marked_iff_mem_lines]
  have : (noclTokens allU).map (·.line) = [] := by decide
  rw [this]; simp

theorem marked_M (ℓ : Nat) : Marked allM ℓ ↔ ℓ = 2 := by
  rw [marked_iff_mem_lines]
  have : (noclTokens allM).map (·.line) = [2] := by decide
  rw [this]; simp

/-! ## a nested pair in C: `f(){` / `g(){a;}` / `}` -/

def codeN : List Tok :=
  [mk 2 [102] 1 1, mk 3 [40] 1 2, mk 3 [41] 1 3, mk 3 [123] 1 5,
   mk 2 [103] 2 3, mk 3 [40] 2 4, mk 3 [41] 2 5, mk 3 [123] 2 7, mk 2 [97] 2 9, mk 3 [59] 2 10,
   mk 3 [125] 2 12,
   mk 3 [125] 3 1]
/-- the same with `#nocl` at the end of line 1 -/
def codeNM : List Tok := codeN ++ [mk 5 [35, 110, 111, 99, 108] 1 20]

def sNf : Scope := ⟨⟨mk 2 [102] 1 1, ⟨0, 3⟩⟩, ⟨3, 12⟩⟩
def sNg : Scope := ⟨⟨mk 2 [103] 2 3, ⟨4, 7⟩⟩, ⟨7, 11⟩⟩

theorem codeN_U : filterTokens false codeN = codeN := by decide
theorem codeN_M : filterTokens false codeNM = codeN := by decide

theorem rawN : rawScopes Gen.c codeN = .ok [sNf, sNg] := by
  have h1 : extractHeaders Gen.c codeN = .ok [sNf.hdr, sNg.hdr] := by decide +kernel
  have h2 : extractBlocks Gen.c codeN [sNf.hdr, sNg.hdr] = .ok [sNf.blk, sNg.blk] := by
    have hpy : Gen.c.python = false := by decide
    unfold extractBlocks getBlocks
    rw [hpy]
    have hp : (balancedPairs [123] [125] codeN 0 []).map (fun p => (⟨p.1, p.2 + 1⟩ : Range))
        = [sNg.blk, sNf.blk] := by decide +kernel
    rw [hp]
    have hk : withKeys codeN Range.s [sNg.blk, sNf.blk]
        = .ok [((2, 7), sNg.blk), ((1, 5), sNf.blk)] := by decide +kernel
    exact sortAsc_of hk (ks' := [((1, 5), sNf.blk), ((2, 7), sNg.blk)])
      (by simp [List.mergeSort, keyLe])
  have h3 : buildScopes0 codeN [sNf.hdr, sNg.hdr] [sNf.blk, sNg.blk] = .ok [sNf, sNg] := by
    have hk : withKeys codeN (fun h : Header => h.rng.s) [sNf.hdr, sNg.hdr]
        = .ok [((1, 1), sNf.hdr), ((2, 3), sNg.hdr)] := by decide +kernel
    have hs := sortDesc_of hk (ks' := [((2, 3), sNg.hdr), ((1, 1), sNf.hdr)])
      (by simp [List.mergeSort, keyLe])
    have hl : buildScopesLoop [sNg.hdr, sNf.hdr] [sNf.blk, sNg.blk] = .ok [sNg, sNf] := by
      decide +kernel
    unfold buildScopes0
    rw [hs]
    simp only [List.map_cons, List.map_nil, hl]
    rfl
  unfold rawScopes
  rw [h1]
  simp only [bind, Except.bind]
  rw [h2]
  exact h3

/-- unmarked: only the outer function is reported -/
theorem buildN_U : buildScopes Gen.c codeN = .ok [(sNf, [])] := by
  have hf : filterNocl [sNf, sNg] (noclTokens codeN) = [sNf, sNg] := by decide
  have ha : arrange Gen.c [sNf, sNg] = [(sNf, [])] := by decide
  rw [buildScopes_eq, codeN_U, rawN]
  simp only [Except.map, hf, ha]

/-- outer function marked: the inner function is reported -/
theorem buildN_M : buildScopes Gen.c codeNM = .ok [(sNg, [])] := by
  have hf : filterNocl [sNf, sNg] (noclTokens codeNM) = [sNg] := by decide
  have ha : arrange Gen.c [sNg] = [(sNg, [])] := by decide
  rw [buildScopes_eq, codeN_M, rawN]
  simp only [Except.map, hf, ha]

theorem marked_N (ℓ : Nat) : ¬ Marked codeN ℓ := by
  rw [marked_iff_mem_lines]
  have : (noclTokens codeN).map (·.line) = [] := by decide
  rw [this]; simp

/-! ### the nested pair in C, measured -/

def mNf : Measurement := ⟨[102], 1, 1, 3, 2, 3⟩
def mNg : Measurement := ⟨[103], 2, 3, 2, 13, 1⟩

theorem measureNf : measure codeN sNf [] = .ok mNf := measure_nil _ _ _ (by decide +kernel)
theorem measureNg : measure codeN sNg [] = .ok mNg := measure_nil _ _ _ (by decide +kernel)

/-- unmarked: only the outer function is measured -/
theorem scanN_U : scanFile Gen.c codeN = .ok [mNf] := by
  unfold scanFile
  rw [buildN_U, codeN_U]
  simp only [measureAll, measureNf]

/-- outer function marked: the inner function is measured -/
theorem scanN_M : scanFile Gen.c codeNM = .ok [mNg] := by
  unfold scanFile
  rw [buildN_M, codeN_M]
  simp only [measureAll, measureNg]

theorem marked_NM (ℓ : Nat) : Marked codeNM ℓ ↔ ℓ = 1 := by
  rw [marked_iff_mem_lines]
  have : (noclTokens codeNM).map (·.line) = [1] := by decide
  rw [this]; simp

/-! ## two functions on ONE line: C++ `f(){a;} g(){b;} // x` versus `f(){a;} g(){b;} // nocl`

(the tokens, kinds, lines and columns are those of `lex(CppLexer(), text, False)`; the comment
token of Pygments includes the final newline) -/

/-- `n(){b;}` on line `l`, the name in column `c` -/
def fnAt (n b l c : Nat) : List Tok :=
  [mk 2 [n] l c, mk 3 [40] l (c + 1), mk 3 [41] l (c + 2), mk 3 [123] l (c + 3),
   mk 2 [b] l (c + 4), mk 3 [59] l (c + 5), mk 3 [125] l (c + 6)]

/-- the code tokens of `f(){a;} g(){b;}` -/
def code1 : List Tok := fnAt 102 97 1 1 ++ fnAt 103 98 1 9
/-- `f(){a;} g(){b;} // x` -/
def lineU : List Tok := code1 ++ [mk 5 [47, 47, 32, 120, 10] 1 17]
/-- `f(){a;} g(){b;} // nocl` -/
def lineM : List Tok := code1 ++ [mk 5 [47, 47, 32, 110, 111, 99, 108, 10] 1 17]

def sLf : Scope := ⟨⟨mk 2 [102] 1 1, ⟨0, 3⟩⟩, ⟨3, 7⟩⟩
def sLg : Scope := ⟨⟨mk 2 [103] 1 9, ⟨7, 10⟩⟩, ⟨10, 14⟩⟩

theorem codeL_U : filterTokens false lineU = code1 := by decide
theorem codeL_M : filterTokens false lineM = code1 := by decide

theorem rawL : rawScopes Gen.cpp code1 = .ok [sLf, sLg] := by
  have h1 : extractHeaders Gen.cpp code1 = .ok [sLf.hdr, sLg.hdr] := by decide +kernel
  have h2 : extractBlocks Gen.cpp code1 [sLf.hdr, sLg.hdr] = .ok [sLf.blk, sLg.blk] := by
    have hpy : Gen.cpp.python = false := by decide
    unfold extractBlocks getBlocks
    rw [hpy]
    have hp : (balancedPairs [123] [125] code1 0 []).map (fun p => (⟨p.1, p.2 + 1⟩ : Range))
        = [sLf.blk, sLg.blk] := by decide +kernel
    rw [hp]
    have hk : withKeys code1 Range.s [sLf.blk, sLg.blk]
        = .ok [((1, 4), sLf.blk), ((1, 12), sLg.blk)] := by decide +kernel
    exact sortAsc_of hk (ks' := [((1, 4), sLf.blk), ((1, 12), sLg.blk)])
      (by simp [List.mergeSort, keyLe])
  have h3 : buildScopes0 code1 [sLf.hdr, sLg.hdr] [sLf.blk, sLg.blk] = .ok [sLf, sLg] := by
    have hk : withKeys code1 (fun h : Header => h.rng.s) [sLf.hdr, sLg.hdr]
        = .ok [((1, 1), sLf.hdr), ((1, 9), sLg.hdr)] := by decide +kernel
    have hs := sortDesc_of hk (ks' := [((1, 9), sLg.hdr), ((1, 1), sLf.hdr)])
      (by simp [List.mergeSort, keyLe])
    have hl : buildScopesLoop [sLg.hdr, sLf.hdr] [sLf.blk, sLg.blk] = .ok [sLg, sLf] := by
      decide +kernel
    unfold buildScopes0
    rw [hs]
    simp only [List.map_cons, List.map_nil, hl]
    rfl
  unfold rawScopes
  rw [h1]
  simp only [bind, Except.bind]
  rw [h2]
  exact h3

def mLf : Measurement := ⟨[102], 1, 1, 1, 8, 1⟩
def mLg : Measurement := ⟨[103], 1, 9, 1, 16, 1⟩

theorem measureLf : measure code1 sLf [] = .ok mLf := measure_nil _ _ _ (by decide +kernel)
theorem measureLg : measure code1 sLg [] = .ok mLg := measure_nil _ _ _ (by decide +kernel)

theorem arrangeL : arrange Gen.cpp [sLf, sLg] = [(sLf, []), (sLg, [])] := by decide

/-- unmarked: both functions are reported -/
theorem scanL_U : scanFile Gen.cpp lineU = .ok [mLf, mLg] := by
  have hf : filterNocl [sLf, sLg] (noclTokens lineU) = [sLf, sLg] := by decide
  unfold scanFile
  rw [buildScopes_eq, codeL_U, rawL]
  simp only [Except.map, hf, arrangeL, measureAll, measureLf, measureLg]

/-- one marker at the end of the line: NO function is reported -/
theorem scanL_M : scanFile Gen.cpp lineM = .ok [] := by
  have hf : filterNocl [sLf, sLg] (noclTokens lineM) = [] := by decide
  have ha : arrange Gen.cpp [] = [] := by decide
  unfold scanFile
  rw [buildScopes_eq, codeL_M, rawL]
  simp only [Except.map, hf, ha, measureAll]

theorem marked_LU (ℓ : Nat) : ¬ Marked lineU ℓ := by
  rw [marked_iff_mem_lines]
  have : (noclTokens lineU).map (·.line) = [] := by decide
  rw [this]; simp

theorem marked_LM (ℓ : Nat) : Marked lineM ℓ ↔ ℓ = 1 := by
  rw [marked_iff_mem_lines]
  have : (noclTokens lineM).map (·.line) = [1] := by decide
  rw [this]; simp

end C17Ex
end CL
