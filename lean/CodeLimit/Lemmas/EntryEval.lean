import CodeLimit.Lemmas.Entry
import CodeLimit.Lemmas.PipelineEval
/-!
# Kernel-evaluable copy of the entry model (for concrete `decide +kernel` examples)

`Pipeline.scan` / `Pipeline.check` sort with `List.mergeSort`, which does not reduce in the kernel;
`Lemmas/PipelineEval.lean` provides the equal `scanK` / `oraclesK`.  `runK` is `run` with these.
-/
namespace CL.Entry

open CL CL.Sel

def checkK (E : Pipeline.Env) (pats : List Gi.Pat) (fs : Node) (cwd : List Str) (args : List CheckArg) (quiet : Bool) :
    Except Err Pipeline.CheckOut :=
  match (checkPaths (Pipeline.oraclesK E pats) fs cwd args).result with
  | .error e => .error e
  | .ok fl => .ok ⟨fl, CL.checkCommand quiet (fl.map (fun x => x.2.map (fun m => (m.len : Int))))⟩

theorem check_eq_K (E : Pipeline.Env) (pats : List Gi.Pat) (fs : Node) (cwd : List Str) (args : List CheckArg) (quiet : Bool) :
    Pipeline.check E pats fs cwd args quiet = checkK E pats fs cwd args quiet := by
  unfold Pipeline.check checkK
  rw [Pipeline.oracles_eq_K]
  rfl

def entryScanK (S : Sys) (st : State) (root : List Str) (excludeOpt : Option (List Str)) (verbose : Bool)
    (detected : Option Json.Repo) (uuid now : Str) : State × Option ScanCall :=
  let p1 := addOptions st.proc excludeOpt verbose
  match load S st.fs root p1 with
  | none => ({ st with proc := p1 }, none)
  | some p2 =>
    let p3 : Proc := { p2 with repository := match detected with | some r => some r | none => p2.repository }
    let result :=
      match specPats S st.fs p3 root, getNode st.fs root with
      | some pats, some (.dir n ch) =>
        some (Pipeline.scanK S.env ⟨pats, rootStr root, uuid, now, p3.repository⟩ (.dir n ch) (st.cache root))
      | _, _ => none
    let cache' := match result with
      | some (.ok (_, text)) => setCache st.cache root text
      | _ => st.cache
    ({ st with proc := p3, cache := cache' }, some ⟨specLines S st.fs p3 root, p3.verbose, p3.repository, result⟩)

theorem entryScan_eq_K (S : Sys) (st : State) (root : List Str) (ex : Option (List Str)) (vb : Bool)
    (det : Option Json.Repo) (uuid now : Str) :
    entryScan S st root ex vb det uuid now = entryScanK S st root ex vb det uuid now := by
  simp only [entryScan, entryScanK, Pipeline.scan_eq_K]
  rfl

def entryCheckK (S : Sys) (st : State) (cwd : List Str) (args : List CheckArg) (excludeOpt : Option (List Str))
    (quiet verbose : Bool) : State × Option CheckCall :=
  let p1 := addOptions st.proc excludeOpt verbose
  match load S st.fs cwd p1 with
  | none => ({ st with proc := p1 }, none)
  | some p2 =>
    ({ st with proc := p2 },
     some ⟨specLines S st.fs p2 cwd, p2.verbose, quiet,
       (specPats S st.fs p2 cwd).map fun pats => checkK S.env pats st.fs cwd args quiet⟩)

theorem entryCheck_eq_K (S : Sys) (st : State) (cwd : List Str) (args : List CheckArg) (ex : Option (List Str))
    (q vb : Bool) : entryCheck S st cwd args ex q vb = entryCheckK S st cwd args ex q vb := by
  simp only [entryCheck, entryCheckK, check_eq_K]
  rfl

def stepK (S : Sys) (st : State) : Call → State × Reply
  | .scan root ex vb det uuid now => let r := entryScanK S st root ex vb det uuid now; (r.1, .ofScan r.2)
  | .check cwd args ex q vb => let r := entryCheckK S st cwd args ex q vb; (r.1, .ofCheck r.2)
  | .report root fmt diff => let r := entryReport S st root fmt diff; (r.1, .ofShown r.2)
  | .findings root full fmt => let r := entryFindings S st root full fmt; (r.1, .ofShown r.2)

theorem step_eq_K (S : Sys) (st : State) (c : Call) : step S st c = stepK S st c := by
  cases c <;> simp only [step, stepK, entryScan_eq_K, entryCheck_eq_K]

def runK (S : Sys) (st : State) : List Call → State × List Reply
  | [] => (st, [])
  | c :: cs =>
    let r := stepK S st c
    let rs := runK S r.1 cs
    (rs.1, r.2 :: rs.2)

theorem run_eq_K (S : Sys) (st : State) (cs : List Call) : run S st cs = runK S st cs := by
  induction cs generalizing st with
  | nil => rfl
  | cons c cs ih => simp only [run, runK, step_eq_K, ih]

end CL.Entry
