import CodeLimit.Lemmas.PyLayoutFacts
import CodeLimit.Lemmas.ScanEval
import CodeLimit.Gen.Languages
/-!
# Concrete data for the non-vacuity examples of C01 (stage C, Python)

The tokens are the output of `lex(PythonLexer(), source, False)` of the real code (kinds as in
`Model/Token.lean`, `ty` = an interned token type).

```
 1  class A:
 2      def m1(self):                    a class with two methods
 3          return 1
 4
 5      async def m2(self,               `async def`, header on two lines, `-> int :`
 6                   x) -> int:
 7          y = 1 + \                    backslash continuation ...
 8  2                                    ... onto a line at column 1
 9          return y
10
11  def f():
12      def g():                         nested, first statement of `f`, not the last
13          z = """ab                    multi-line string literal ...
14  cd"""                                ... whose second line is at column 1
15          return z
16      w = 2  # note                    belongs to `f` again
17      def k():                         nested, LAST statement: `f` and `k` end together
18          pass
19
20  def h():                             follows at lower indentation
21      pass
```
-/
namespace CL.C01PyEx

/-- all tokens (whitespace is already dropped by `lex`; the comment is kept) -/
def all : List Tok := [
  ⟨1, 10, [99, 108, 97, 115, 115], 1, 1⟩,           --   0 class
  ⟨2, 11, [65], 1, 7⟩,                              --   1 A
  ⟨3, 12, [58], 1, 8⟩,                              --   2 :
  ⟨1, 10, [100, 101, 102], 2, 5⟩,                   --   3 def
  ⟨2, 13, [109, 49], 2, 9⟩,                         --   4 m1
  ⟨3, 12, [40], 2, 11⟩,                             --   5 (
  ⟨2, 14, [115, 101, 108, 102], 2, 12⟩,             --   6 self
  ⟨3, 12, [41], 2, 16⟩,                             --   7 )
  ⟨3, 12, [58], 2, 17⟩,                             --   8 :
  ⟨1, 10, [114, 101, 116, 117, 114, 110], 3, 9⟩,    --   9 return
  ⟨0, 15, [49], 3, 16⟩,                             --  10 1
  ⟨1, 10, [97, 115, 121, 110, 99], 5, 5⟩,           --  11 async
  ⟨1, 10, [100, 101, 102], 5, 11⟩,                  --  12 def
  ⟨2, 13, [109, 50], 5, 15⟩,                        --  13 m2
  ⟨3, 12, [40], 5, 17⟩,                             --  14 (
  ⟨2, 14, [115, 101, 108, 102], 5, 18⟩,             --  15 self
  ⟨3, 12, [44], 5, 22⟩,                             --  16 ,
  ⟨2, 16, [120], 6, 18⟩,                            --  17 x
  ⟨3, 12, [41], 6, 19⟩,                             --  18 )
  ⟨4, 17, [45], 6, 21⟩,                             --  19 -
  ⟨4, 17, [62], 6, 22⟩,                             --  20 >
  ⟨2, 18, [105, 110, 116], 6, 24⟩,                  --  21 int
  ⟨3, 12, [58], 6, 27⟩,                             --  22 :
  ⟨2, 16, [121], 7, 9⟩,                             --  23 y
  ⟨4, 17, [61], 7, 11⟩,                             --  24 =
  ⟨0, 15, [49], 7, 13⟩,                             --  25 1
  ⟨4, 17, [43], 7, 15⟩,                             --  26 +
  ⟨6, 19, [92, 10], 7, 17⟩,                         --  27 backslash-newline (Text, not whitespace)
  ⟨0, 15, [50], 8, 1⟩,                              --  28 2
  ⟨1, 10, [114, 101, 116, 117, 114, 110], 9, 9⟩,    --  29 return
  ⟨2, 16, [121], 9, 16⟩,                            --  30 y
  ⟨1, 10, [100, 101, 102], 11, 1⟩,                  --  31 def
  ⟨2, 13, [102], 11, 5⟩,                            --  32 f
  ⟨3, 12, [40], 11, 6⟩,                             --  33 (
  ⟨3, 12, [41], 11, 7⟩,                             --  34 )
  ⟨3, 12, [58], 11, 8⟩,                             --  35 :
  ⟨1, 10, [100, 101, 102], 12, 5⟩,                  --  36 def
  ⟨2, 13, [103], 12, 9⟩,                            --  37 g
  ⟨3, 12, [40], 12, 10⟩,                            --  38 (
  ⟨3, 12, [41], 12, 11⟩,                            --  39 )
  ⟨3, 12, [58], 12, 12⟩,                            --  40 :
  ⟨2, 16, [122], 13, 9⟩,                            --  41 z
  ⟨4, 17, [61], 13, 11⟩,                            --  42 =
  ⟨7, 20, [34, 34, 34], 13, 13⟩,                    --  43 """
  ⟨7, 20, [97, 98], 13, 16⟩,                        --  44 ab
  ⟨7, 20, [10], 13, 18⟩,                            --  45 newline (String)
  ⟨7, 20, [99, 100], 14, 1⟩,                        --  46 cd
  ⟨7, 20, [34, 34, 34], 14, 3⟩,                     --  47 """
  ⟨1, 10, [114, 101, 116, 117, 114, 110], 15, 9⟩,   --  48 return
  ⟨2, 16, [122], 15, 16⟩,                           --  49 z
  ⟨2, 16, [119], 16, 5⟩,                            --  50 w
  ⟨4, 17, [61], 16, 7⟩,                             --  51 =
  ⟨0, 15, [50], 16, 9⟩,                             --  52 2
  ⟨5, 21, [35, 32, 110, 111, 116, 101], 16, 12⟩,    --     # note
  ⟨1, 10, [100, 101, 102], 17, 5⟩,                  --  53 def
  ⟨2, 13, [107], 17, 9⟩,                            --  54 k
  ⟨3, 12, [40], 17, 10⟩,                            --  55 (
  ⟨3, 12, [41], 17, 11⟩,                            --  56 )
  ⟨3, 12, [58], 17, 12⟩,                            --  57 :
  ⟨1, 10, [112, 97, 115, 115], 18, 9⟩,              --  58 pass
  ⟨1, 10, [100, 101, 102], 20, 1⟩,                  --  59 def
  ⟨2, 13, [104], 20, 5⟩,                            --  60 h
  ⟨3, 12, [40], 20, 6⟩,                             --  61 (
  ⟨3, 12, [41], 20, 7⟩,                             --  62 )
  ⟨3, 12, [58], 20, 8⟩,                             --  63 :
  ⟨1, 10, [112, 97, 115, 115], 21, 5⟩]              --  64 pass

/-- the code tokens: everything but the comment -/
def code : List Tok := all.take 53 ++ all.drop 54

def fM1 : Fn := ⟨⟨⟨2, 13, [109, 49], 2, 9⟩, ⟨3, 8⟩⟩, ⟨9, 11⟩⟩
def fM2 : Fn := ⟨⟨⟨2, 13, [109, 50], 5, 15⟩, ⟨12, 19⟩⟩, ⟨23, 31⟩⟩
def fF : Fn := ⟨⟨⟨2, 13, [102], 11, 5⟩, ⟨31, 35⟩⟩, ⟨36, 59⟩⟩
def fG : Fn := ⟨⟨⟨2, 13, [103], 12, 9⟩, ⟨36, 40⟩⟩, ⟨41, 50⟩⟩
def fK : Fn := ⟨⟨⟨2, 13, [107], 17, 9⟩, ⟨53, 57⟩⟩, ⟨58, 59⟩⟩
def fH : Fn := ⟨⟨⟨2, 13, [104], 20, 5⟩, ⟨59, 63⟩⟩, ⟨64, 65⟩⟩

def fns : List Fn := [fM1, fM2, fF, fG, fK, fH]

def mM1 : Measurement := ⟨[109, 49], 2, 5, 3, 17, 2⟩
def mM2 : Measurement := ⟨[109, 50], 5, 11, 9, 17, 5⟩
def mF : Measurement := ⟨[102], 11, 1, 18, 13, 2⟩
def mG : Measurement := ⟨[103], 12, 5, 15, 17, 4⟩
def mK : Measurement := ⟨[107], 17, 5, 18, 13, 2⟩
def mH : Measurement := ⟨[104], 20, 1, 21, 9, 2⟩

theorem code_all : filterTokens false all = code := by decide +kernel

theorem layout : PyLayout code fns := by decide +kernel

theorem not_noContinuation : ¬ NoContinuation code := by decide +kernel

theorem unmarked : ∀ f ∈ fns, ¬ Marked all f.hdr.name.line := by decide +kernel

theorem headers : extractHeaders Gen.python code = .ok (fns.map (·.hdr)) := by decide +kernel

/-- the logical lines: index 28 (after the backslash) and 46 (after the String newline) are
listed twice and do not begin lines -/
theorem lines : tokenLines code =
    [[0, 1, 2], [3, 4, 5, 6, 7, 8], [9, 10], [11, 12, 13, 14, 15, 16], [17, 18, 19, 20, 21, 22],
     [23, 24, 25, 26, 27, 28, 28], [29, 30], [31, 32, 33, 34, 35], [36, 37, 38, 39, 40],
     [41, 42, 43, 44, 45, 46, 46, 47], [48, 49], [50, 51, 52], [53, 54, 55, 56, 57], [58],
     [59, 60, 61, 62, 63], [64]] := by decide +kernel

theorem lineStarts : (List.range 65).filter (startsLine code)
    = [0, 3, 9, 11, 17, 23, 29, 31, 36, 41, 48, 50, 53, 58, 59, 64] := by decide +kernel

/-- `extract_blocks` evaluated directly -/
theorem blocksEx : pyBlocks code (fns.map (·.hdr)) = .ok (fns.map (·.body)) :=
  okEq_sound (by decide +kernel)

/-- the suites do NOT form a brace-style `Layout`: `g`'s header starts exactly where the suite
of `f` starts, `FnLayout.block_vs_fn` wants the enclosing block to start strictly earlier -/
theorem not_layout : ¬ Layout code fns (fns.map (·.body)) := by decide +kernel

theorem parents : fns.map (parent fns) = [none, none, none, some fF, some fF, none] := by
  decide +kernel

theorem expectedEx : fns.map (expected code fns) = [mM1, mM2, mF, mG, mK, mH].map some := by
  decide +kernel

/-- `scan_file` evaluated directly (independently of the theorems); the numbers are those the
real code prints for this source -/
theorem scanPy : scanFile Gen.python all = .ok [mM1, mM2, mF, mG, mK, mH] :=
  scanFile_eval (by decide +kernel)

end CL.C01PyEx

/-! ## a file without continuation tokens, headers in the style of `black` -/
namespace CL.C01PyPlain

/-
```
 1  def g():
 2      def f(
 3          a,
 4      ) -> int:                        closing line at the column of `def`
 5          pass
 6      x = 1
 7      return x
 8
 9  def h(
10      a,
11  ):                                   closing line at the column of `def`
12      return a
```
-/
def code : List Tok := [
  ⟨1, 10, [100, 101, 102], 1, 1⟩,                   --   0 def
  ⟨2, 11, [103], 1, 5⟩,                             --   1 g
  ⟨3, 12, [40], 1, 6⟩,                              --   2 (
  ⟨3, 12, [41], 1, 7⟩,                              --   3 )
  ⟨3, 12, [58], 1, 8⟩,                              --   4 :
  ⟨1, 10, [100, 101, 102], 2, 5⟩,                   --   5 def
  ⟨2, 11, [102], 2, 9⟩,                             --   6 f
  ⟨3, 12, [40], 2, 10⟩,                             --   7 (
  ⟨2, 13, [97], 3, 9⟩,                              --   8 a
  ⟨3, 12, [44], 3, 10⟩,                             --   9 ,
  ⟨3, 12, [41], 4, 5⟩,                              --  10 )
  ⟨4, 14, [45], 4, 7⟩,                              --  11 -
  ⟨4, 14, [62], 4, 8⟩,                              --  12 >
  ⟨2, 15, [105, 110, 116], 4, 10⟩,                  --  13 int
  ⟨3, 12, [58], 4, 13⟩,                             --  14 :
  ⟨1, 10, [112, 97, 115, 115], 5, 9⟩,               --  15 pass
  ⟨2, 13, [120], 6, 5⟩,                             --  16 x
  ⟨4, 14, [61], 6, 7⟩,                              --  17 =
  ⟨0, 16, [49], 6, 9⟩,                              --  18 1
  ⟨1, 10, [114, 101, 116, 117, 114, 110], 7, 5⟩,    --  19 return
  ⟨2, 13, [120], 7, 12⟩,                            --  20 x
  ⟨1, 10, [100, 101, 102], 9, 1⟩,                   --  21 def
  ⟨2, 11, [104], 9, 5⟩,                             --  22 h
  ⟨3, 12, [40], 9, 6⟩,                              --  23 (
  ⟨2, 13, [97], 10, 5⟩,                             --  24 a
  ⟨3, 12, [44], 10, 6⟩,                             --  25 ,
  ⟨3, 12, [41], 11, 1⟩,                             --  26 )
  ⟨3, 12, [58], 11, 2⟩,                             --  27 :
  ⟨1, 10, [114, 101, 116, 117, 114, 110], 12, 5⟩,   --  28 return
  ⟨2, 13, [97], 12, 12⟩]                            --  29 a

def fG : Fn := ⟨⟨⟨2, 11, [103], 1, 5⟩, ⟨0, 4⟩⟩, ⟨5, 21⟩⟩
def fF : Fn := ⟨⟨⟨2, 11, [102], 2, 9⟩, ⟨5, 11⟩⟩, ⟨15, 16⟩⟩
def fH : Fn := ⟨⟨⟨2, 11, [104], 9, 5⟩, ⟨21, 27⟩⟩, ⟨28, 30⟩⟩
def fns : List Fn := [fG, fF, fH]

def ms : List Measurement :=
  [⟨[103], 1, 1, 7, 13, 3⟩, ⟨[102], 2, 5, 5, 13, 4⟩, ⟨[104], 9, 1, 12, 13, 4⟩]

theorem noContinuation : NoContinuation code := by decide +kernel
theorem layout : PyLayout code fns := by decide +kernel
theorem code_all : filterTokens false code = code := by decide +kernel
theorem unmarked : ∀ f ∈ fns, ¬ Marked code f.hdr.name.line := by decide +kernel
theorem headers : extractHeaders Gen.python code = .ok (fns.map (·.hdr)) := by decide +kernel
theorem expectedEx : fns.map (expected code fns) = ms.map some := by decide +kernel
theorem scanPy : scanFile Gen.python code = .ok ms := scanFile_eval (by decide +kernel)

end CL.C01PyPlain

/-! ## observation 1: a continuation line of a nested header that is not indented deeper than the
enclosing function -/
namespace CL.C01PyHdr

/-
```
1  def g():
2      def f(a,
3  b):                                   legal Python: free layout inside parentheses
4          pass
5      x = 1
6      return x
```
-/
def code : List Tok := [
  ⟨1, 10, [100, 101, 102], 1, 1⟩,                   --   0 def
  ⟨2, 11, [103], 1, 5⟩,                             --   1 g
  ⟨3, 12, [40], 1, 6⟩,                              --   2 (
  ⟨3, 12, [41], 1, 7⟩,                              --   3 )
  ⟨3, 12, [58], 1, 8⟩,                              --   4 :
  ⟨1, 10, [100, 101, 102], 2, 5⟩,                   --   5 def
  ⟨2, 11, [102], 2, 9⟩,                             --   6 f
  ⟨3, 12, [40], 2, 10⟩,                             --   7 (
  ⟨2, 13, [97], 2, 11⟩,                             --   8 a
  ⟨3, 12, [44], 2, 12⟩,                             --   9 ,
  ⟨2, 13, [98], 3, 1⟩,                              --  10 b
  ⟨3, 12, [41], 3, 2⟩,                              --  11 )
  ⟨3, 12, [58], 3, 3⟩,                              --  12 :
  ⟨1, 10, [112, 97, 115, 115], 4, 9⟩,               --  13 pass
  ⟨2, 13, [120], 5, 5⟩,                             --  14 x
  ⟨4, 14, [61], 5, 7⟩,                              --  15 =
  ⟨0, 15, [49], 5, 9⟩,                              --  16 1
  ⟨1, 10, [114, 101, 116, 117, 114, 110], 6, 5⟩,    --  17 return
  ⟨2, 13, [120], 6, 12⟩]                            --  18 x

def fG : Fn := ⟨⟨⟨2, 11, [103], 1, 5⟩, ⟨0, 4⟩⟩, ⟨5, 19⟩⟩
def fF : Fn := ⟨⟨⟨2, 11, [102], 2, 9⟩, ⟨5, 12⟩⟩, ⟨13, 14⟩⟩
def fns : List Fn := [fG, fF]

theorem headers : extractHeaders Gen.python code = .ok (fns.map (·.hdr)) := by decide +kernel
theorem expectedEx : fns.map (expected code fns)
    = [some ⟨[103], 1, 1, 6, 13, 3⟩, some ⟨[102], 2, 5, 4, 13, 3⟩] := by decide +kernel
/-- what the analysis reports: `g` ends on line 2 -/
theorem scanPy : scanFile Gen.python code
    = .ok [⟨[103], 1, 1, 2, 13, 2⟩, ⟨[102], 2, 5, 4, 13, 3⟩] := scanFile_eval (by decide +kernel)

end CL.C01PyHdr

/-! ## observation 2: a logical line that BEGINS with a backslash-newline -/
namespace CL.C01PyBs

/-
```
1  def f():
2      \                                 legal Python: the logical line `x = 1` begins here
3  x = 1
4      return x
```
-/
def code : List Tok := [
  ⟨1, 10, [100, 101, 102], 1, 1⟩,                   --   0 def
  ⟨2, 11, [102], 1, 5⟩,                             --   1 f
  ⟨3, 12, [40], 1, 6⟩,                              --   2 (
  ⟨3, 12, [41], 1, 7⟩,                              --   3 )
  ⟨3, 12, [58], 1, 8⟩,                              --   4 :
  ⟨6, 13, [92, 10], 2, 5⟩,                          --   5 backslash-newline
  ⟨2, 14, [120], 3, 1⟩,                             --   6 x
  ⟨4, 15, [61], 3, 3⟩,                              --   7 =
  ⟨0, 16, [49], 3, 5⟩,                              --   8 1
  ⟨1, 10, [114, 101, 116, 117, 114, 110], 4, 5⟩,    --   9 return
  ⟨2, 14, [120], 4, 12⟩]                            --  10 x

def fF : Fn := ⟨⟨⟨2, 11, [102], 1, 5⟩, ⟨0, 4⟩⟩, ⟨5, 11⟩⟩
def fns : List Fn := [fF]

theorem headers : extractHeaders Gen.python code = .ok (fns.map (·.hdr)) := by decide +kernel
theorem lines : tokenLines code = [[0, 1, 2, 3, 4], [5], [6, 7, 8], [9, 10]] := by decide +kernel
theorem expectedEx : fns.map (expected code fns) = [some ⟨[102], 1, 1, 4, 13, 4⟩] := by
  decide +kernel
theorem scanPy : scanFile Gen.python code = .ok [⟨[102], 1, 1, 3, 1, 2⟩] :=
  scanFile_eval (by decide +kernel)

end CL.C01PyBs
