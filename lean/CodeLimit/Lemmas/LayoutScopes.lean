import CodeLimit.Lemmas.LayoutBlocks
/-!
# Stage A1: `_build_scopes_from_headers_and_blocks` on a canonical layout

Every function gets exactly its own body block.
-/
namespace CL

/-! ## generic facts: selecting and deleting by index -/

theorem filterMap_congr' {α β : Type} {f g : α → Option β} :
    ∀ {l : List α}, (∀ a ∈ l, f a = g a) → l.filterMap f = l.filterMap g
  | [], _ => rfl
  | a :: l, h => by
    rw [List.filterMap_cons, List.filterMap_cons, h a List.mem_cons_self,
      filterMap_congr' (fun b hb => h b (List.mem_cons_of_mem _ hb))]

theorem filterMap_ite_eq_filter {α : Type} (p : α → Bool) :
    ∀ (l : List α), l.filterMap (fun x => if p x = true then some x else none) = l.filter p
  | [] => rfl
  | a :: l => by
    rw [List.filterMap_cons, List.filter_cons, filterMap_ite_eq_filter p l]
    by_cases ha : p a = true <;> simp [ha]

/-- the indices of the elements satisfying `q` -/
def idxOfSat {α : Type} (l : List α) (q : α → Bool) : List Nat :=
  (l.zipIdx.filter (fun p => q p.1)).map (·.2)

theorem idxOfSat_sel {α : Type} (l : List α) (q : α → Bool) :
    (idxOfSat l q).filterMap (fun i => l[i]?) = l.filter q := by
  unfold idxOfSat
  rw [List.filterMap_map]
  have h1 : (l.zipIdx.filter (fun p => q p.1)).filterMap ((fun i => l[i]?) ∘ (·.2))
      = (l.zipIdx.filter (fun p => q p.1)).filterMap (fun p => some p.1) := by
    apply filterMap_congr'
    intro p hp
    exact List.mem_zipIdx_iff_getElem?.mp (List.mem_filter.mp hp).1
  have h2 : (fun p : α × Nat => q p.1) = q ∘ Prod.fst := rfl
  rw [h1, List.filterMap_eq_map', h2, ← List.filter_map, List.zipIdx_map_fst]

theorem mem_idxOfSat {α : Type} {l : List α} {q : α → Bool} {x : α} {i : Nat}
    (h : (x, i) ∈ l.zipIdx) : i ∈ idxOfSat l q ↔ q x = true := by
  unfold idxOfSat
  have hx := List.mem_zipIdx_iff_getElem?.mp h
  constructor
  · intro hi
    obtain ⟨p, hp, rfl⟩ := List.mem_map.mp hi
    obtain ⟨hp1, hp2⟩ := List.mem_filter.mp hp
    have := List.mem_zipIdx_iff_getElem?.mp hp1
    simp only at hx
    rw [hx] at this
    cases this
    exact hp2
  · intro hq
    exact List.mem_map.mpr ⟨(x, i), List.mem_filter.mpr ⟨h, hq⟩, rfl⟩

theorem idxOfSat_delete {α : Type} (l : List α) (q : α → Bool) :
    deleteIndices l (idxOfSat l q) = l.filter (fun b => !q b) := by
  unfold deleteIndices
  have h1 : l.zipIdx.filterMap (fun (x, i) => if (idxOfSat l q).contains i then none else some x)
      = l.zipIdx.filterMap (fun p => if (!q p.1) = true then some p.1 else none) := by
    apply filterMap_congr'
    rintro ⟨x, i⟩ hp
    have := mem_idxOfSat (q := q) hp
    by_cases hq : q x = true
    · simp [this.mpr hq, hq]
    · have hn : ¬ i ∈ idxOfSat l q := fun h => hq (this.mp h)
      simp [hn, hq]
  rw [h1]
  have h2 : (fun p : α × Nat => if (!q p.1) = true then some p.1 else none)
      = (fun x => if (!q x) = true then some x else none) ∘ Prod.fst := rfl
  rw [h2, ← List.filterMap_map, List.zipIdx_map_fst]
  exact filterMap_ite_eq_filter _ l

theorem idxOfSat_isEmpty {α : Type} (l : List α) (q : α → Bool) {x : α} (hx : x ∈ l)
    (hq : q x = true) : (idxOfSat l q).isEmpty = false := by
  obtain ⟨i, hi, rfl⟩ := List.mem_iff_getElem.mp hx
  have hm : (l[i], i) ∈ l.zipIdx :=
    List.mem_zipIdx_iff_getElem?.mpr (List.getElem?_eq_getElem hi)
  have := (mem_idxOfSat (q := q) hm).mpr hq
  cases h : idxOfSat l q with
  | nil => rw [h] at this; cases this
  | cons a as => rfl

/-! ## `min` / `max` of a list -/

theorem foldl_min_eq {m : Nat} : ∀ (xs : List Nat) (a : Nat), (m = a ∨ m ∈ xs) → m ≤ a →
    (∀ x ∈ xs, m ≤ x) → xs.foldl min a = m
  | [], a, h, _, _ => by
    rcases h with h | h
    · exact h.symm
    · cases h
  | x :: xs, a, h, ha, hx => by
    rw [List.foldl_cons]
    have hmx := hx x List.mem_cons_self
    apply foldl_min_eq xs (min a x)
    · rcases h with h | h
      · left; omega
      · rcases List.mem_cons.mp h with h | h
        · left; omega
        · exact .inr h
    · omega
    · exact fun y hy => hx y (List.mem_cons_of_mem _ hy)

theorem foldl_max_eq {m : Nat} : ∀ (xs : List Nat) (a : Nat), (m = a ∨ m ∈ xs) → a ≤ m →
    (∀ x ∈ xs, x ≤ m) → xs.foldl max a = m
  | [], a, h, _, _ => by
    rcases h with h | h
    · exact h.symm
    · cases h
  | x :: xs, a, h, ha, hx => by
    rw [List.foldl_cons]
    have hmx := hx x List.mem_cons_self
    apply foldl_max_eq xs (max a x)
    · rcases h with h | h
      · left; omega
      · rcases List.mem_cons.mp h with h | h
        · left; omega
        · exact .inr h
    · omega
    · exact fun y hy => hx y (List.mem_cons_of_mem _ hy)

theorem minList_eq {l : List Nat} {m : Nat} (hm : m ∈ l) (h : ∀ x ∈ l, m ≤ x) :
    minList l = .ok m := by
  cases l with
  | nil => cases hm
  | cons a xs =>
    show Except.ok (List.foldl min a xs) = _
    rw [foldl_min_eq xs a (by rcases List.mem_cons.mp hm with h | h <;> simp [h])
      (h a List.mem_cons_self) (fun x hx => h x (List.mem_cons_of_mem _ hx))]

theorem maxList_eq {l : List Nat} {m : Nat} (hm : m ∈ l) (h : ∀ x ∈ l, x ≤ m) :
    maxList l = .ok m := by
  cases l with
  | nil => cases hm
  | cons a xs =>
    show Except.ok (List.foldl max a xs) = _
    rw [foldl_max_eq xs a (by rcases List.mem_cons.mp hm with h | h <;> simp [h])
      (h a List.mem_cons_self) (fun x hx => h x (List.mem_cons_of_mem _ hx))]

/-! ## `_get_nearest_block` -/

/-- blocks starting at or after the header's end only update the candidate -/
theorem nearestBlock_after (h : Range) (hh : h.s < h.e) :
    ∀ (xs zs : List Range) (res : Option Range), (∀ b ∈ xs, h.e ≤ b.s) →
      ∃ res', nearestBlock h (xs ++ zs) res = nearestBlock h zs res'
  | [], zs, res, _ => ⟨res, rfl⟩
  | b :: xs, zs, res, hx => by
    have hb := hx b List.mem_cons_self
    obtain ⟨r, hr⟩ := nearestBlock_after h hh xs zs (some b)
      (fun c hc => hx c (List.mem_cons_of_mem _ hc))
    refine ⟨r, ?_⟩
    rw [← hr]
    have h1 : b.contains h = false := by
      simp only [Range.contains, Bool.and_eq_false_iff, decide_eq_false_iff_not]; omega
    simp only [List.cons_append, nearestBlock, h1, Bool.false_eq_true, if_false]
    rw [if_pos (by omega)]

/-- once a candidate is found, blocks starting before the header's end do not change it -/
theorem nearestBlock_before (h r : Range) :
    ∀ (ys : List Range), (∀ b ∈ ys, b.s < h.e) → nearestBlock h ys (some r) = some r
  | [], _ => rfl
  | b :: ys, hy => by
    have hb := hy b List.mem_cons_self
    unfold nearestBlock
    split
    · rfl
    · rw [if_neg (by omega)]
      split
      · rfl
      · exact nearestBlock_before h r ys (fun c hc => hy c (List.mem_cons_of_mem _ hc))

/-- in a list of blocks sorted by start, the nearest block of a header is the first block
starting at or after the header's end -/
theorem nearestBlock_first {h body : Range} {R : List Range} (hh : h.s < h.e)
    (hs : R.Pairwise (fun a b => a.s < b.s)) (hb : body ∈ R) (hbody : h.e ≤ body.s)
    (hfirst : ∀ b ∈ R, ¬ (h.e ≤ b.s ∧ b.s < body.s)) :
    nearestBlock h R.reverse none = some body := by
  obtain ⟨pre, post, rfl⟩ := List.append_of_mem hb
  rw [List.pairwise_append, List.pairwise_cons] at hs
  obtain ⟨_, ⟨hpost, _⟩, hpre⟩ := hs
  have hrev : (pre ++ body :: post).reverse = post.reverse ++ body :: pre.reverse := by simp
  rw [hrev]
  obtain ⟨r, hr⟩ := nearestBlock_after h hh post.reverse (body :: pre.reverse) none
    (fun b hb => by have := hpost b (List.mem_reverse.mp hb); omega)
  rw [hr]
  have h1 : body.contains h = false := by
    simp only [Range.contains, Bool.and_eq_false_iff, decide_eq_false_iff_not]; omega
  simp only [nearestBlock, h1, Bool.false_eq_true, if_false]
  rw [if_pos (by omega)]
  apply nearestBlock_before
  intro b hb
  have hb' := List.mem_reverse.mp hb
  have h2 := hpre b hb' body List.mem_cons_self
  have h3 := hfirst b (List.mem_append_left _ hb')
  omega

/-! ## one iteration of the loop -/

/-- the blocks a function with body `body` consumes: those overlapping the body that do not
start before it -/
def taken (body : Range) (b : Range) : Bool := body.overlaps b && !b.lt body

theorem taken_iff (body b : Range) (hb : b.s < b.e) :
    taken body b = true ↔ body.s ≤ b.s ∧ b.s ≤ body.e := by
  simp only [taken, Range.overlaps, Range.lt, Bool.and_eq_true, Bool.or_eq_true,
    decide_eq_true_eq, Bool.not_eq_true', decide_eq_false_iff_not]
  omega

theorem scopeBlockIndices_layout {code : List Tok} {fns : List Fn} {blocks : List Range}
    (L : LayoutCore code fns blocks) {f : Fn} (hf : f ∈ fns) {R : List Range}
    (hR : R.Sublist blocks) (hb : f.body ∈ R) :
    scopeBlockIndices f.hdr.rng R = idxOfSat R (taken f.body) := by
  have hb1 := L.fn_bounds hf
  have hnb : nearestBlock f.hdr.rng R.reverse none = some f.body :=
    nearestBlock_first hb1.1 (L.blocks_sorted.sublist hR) hb hb1.2.1
      (fun b hb => L.body_first f hf b (hR.subset hb))
  unfold scopeBlockIndices
  rw [hnb]
  have h1 : f.body.contains f.hdr.rng = false := by
    simp only [Range.contains, Bool.and_eq_false_iff, decide_eq_false_iff_not]; omega
  simp only [h1, Bool.false_eq_true, if_false]
  rfl

/-- the blocks consumed by `f` span exactly the body of `f` -/
theorem taken_span {code : List Tok} {fns : List Fn} {blocks : List Range}
    (L : Layout code fns blocks) {f : Fn} (hf : f ∈ fns) {R : List Range}
    (hR : R.Sublist blocks) (hb : f.body ∈ R) :
    minList ((R.filter (taken f.body)).map (·.s)) = .ok f.body.s ∧
    maxList ((R.filter (taken f.body)).map (·.e)) = .ok f.body.e := by
  have hb1 := L.fn_bounds hf
  have hself : taken f.body f.body = true := (taken_iff _ _ hb1.2.2.1).mpr ⟨Nat.le_refl _, by omega⟩
  have hmem : f.body ∈ R.filter (taken f.body) := List.mem_filter.mpr ⟨hb, hself⟩
  constructor
  · apply minList_eq (List.mem_map_of_mem hmem)
    intro x hx
    obtain ⟨b, hb', rfl⟩ := List.mem_map.mp hx
    obtain ⟨hbR, hbt⟩ := List.mem_filter.mp hb'
    have := (taken_iff _ _ (L.blocks_ok b (hR.subset hbR)).1).mp hbt
    omega
  · apply maxList_eq (List.mem_map_of_mem hmem)
    intro x hx
    obtain ⟨b, hb', rfl⟩ := List.mem_map.mp hx
    obtain ⟨hbR, hbt⟩ := List.mem_filter.mp hb'
    have := (taken_iff _ _ (L.blocks_ok b (hR.subset hbR)).1).mp hbt
    exact L.block_in_body hf (hR.subset hbR) this.1 this.2

/-- **the loop**: processing the functions `P` last-to-first against any remaining block list
`R` that still holds the bodies of all of them gives every function its own body -/
theorem buildScopesLoop_layout {code : List Tok} {fns : List Fn} {blocks : List Range}
    (L : Layout code fns blocks) :
    ∀ (P : List Fn) (R : List Range), P.Pairwise (fun f g => g.hdr.rng.s < f.hdr.rng.s) →
      (∀ f ∈ P, f ∈ fns) → R.Sublist blocks → (∀ f ∈ P, f.body ∈ R) →
      buildScopesLoop (P.map (·.hdr)) R = .ok (P.map Fn.toScope)
  | [], _, _, _, _, _ => rfl
  | f :: P, R, hP, hfns, hR, hbodies => by
    have hf := hfns f List.mem_cons_self
    have hb := hbodies f List.mem_cons_self
    have hP' := List.pairwise_cons.mp hP
    have hidx := scopeBlockIndices_layout L.toLayoutCore hf hR hb
    have hb1 := L.fn_bounds hf
    have hself : taken f.body f.body = true :=
      (taken_iff _ _ hb1.2.2.1).mpr ⟨Nat.le_refl _, by omega⟩
    obtain ⟨hmin, hmax⟩ := taken_span L hf hR hb
    have ih := buildScopesLoop_layout L P (R.filter (fun b => !taken f.body b)) hP'.2
      (fun g hg => hfns g (List.mem_cons_of_mem _ hg))
      ((List.filter_sublist).trans hR)
      (fun g hg => by
        have hgf := hfns g (List.mem_cons_of_mem _ hg)
        have hgb := hbodies g (List.mem_cons_of_mem _ hg)
        refine List.mem_filter.mpr ⟨hgb, ?_⟩
        have hnt := L.body_not_taken hgf hf (hP'.1 g hg)
        have hgo := (L.fn_bounds hgf).2.2.1
        cases ht : taken f.body g.body with
        | false => rfl
        | true => exact absurd ((taken_iff _ _ hgo).mp ht) hnt)
    simp only [List.map_cons, buildScopesLoop, hidx, idxOfSat_isEmpty R _ hb hself,
      Bool.false_eq_true, if_false, idxOfSat_sel, idxOfSat_delete, hmin, hmax, ih]
    rfl

/-- **A1**: on a canonical layout every function gets exactly its own body block; the headers
may be given in any order (they are sorted by location first) -/
theorem buildScopes0_layout {code : List Tok} {fns : List Fn} {blocks : List Range}
    (L : Layout code fns blocks) {hs : List Header} (hperm : hs.Perm (fns.map (·.hdr))) :
    buildScopes0 code hs blocks = .ok (fns.map Fn.toScope) := by
  have hsort : sortDesc code (fun h : Header => h.rng.s) hs
      = .ok (fns.map (·.hdr)).reverse := by
    apply sortDesc_eq_of_perm L.posSorted ((List.reverse_perm _).trans hperm.symm)
    · rw [List.pairwise_reverse, List.pairwise_map]; exact L.fns_sorted
    · intro h hh
      obtain ⟨f, hf, rfl⟩ := List.mem_map.mp (hperm.mem_iff.mp hh)
      have := L.fn_bounds hf
      omega
  have hloop := buildScopesLoop_layout L fns.reverse blocks
    (List.pairwise_reverse.mpr L.fns_sorted) (fun f hf => List.mem_reverse.mp hf)
    (List.Sublist.refl _) (fun f hf => L.body_mem f (List.mem_reverse.mp hf))
  unfold buildScopes0
  rw [hsort]
  simp only [List.map_reverse] at hloop ⊢
  simp only [hloop, List.reverse_reverse]

end CL
