import CodeLimit.Lemmas.ScanBoundsScopes
/-!
# Index bounds, part 4: folding, counting and measuring

* `countDistinct` is monotone and positive on non-empty lists;
* `scopeLinesLoop` stays inside `[i, i + n)`, returns a sublist of the lines of these tokens
  and keeps the first token when every child range starts after `i`;
* `foldParents` only assigns a parent that `contains` the child; `withChildren`, `filterNested`,
  `filterNocl` keep the scope order;
* `measure` / `measureAll` succeed on scopes with `hdr.s < n`, `0 < blk.e ≤ n`.
-/
namespace CL

/-! ## `len(set(...))` -/

theorem countDistinct_cons (a : Nat) (l : List Nat) :
    countDistinct (a :: l) = 1 + countDistinct (l.filter (fun b => !b == a)) := by
  simp [countDistinct, List.eraseDups_cons]; omega

theorem countDistinct_of_mem : ∀ (n : Nat) (l : List Nat) (a : Nat), l.length ≤ n → a ∈ l →
    countDistinct l = 1 + countDistinct (l.filter (fun b => !b == a))
  | _, [], _, _, h => by cases h
  | 0, _ :: _, _, hn, _ => by simp at hn
  | n + 1, b :: bs, a, hn, h => by
    by_cases hba : b = a
    · subst hba
      rw [countDistinct_cons]
      simp
    · have hmem : a ∈ bs.filter (fun c => !c == b) := by
        rcases List.mem_cons.1 h with h | h
        · exact absurd h.symm hba
        · exact List.mem_filter.2 ⟨h, by simpa using fun h' => hba h'.symm⟩
      have hlen : (bs.filter (fun c => !c == b)).length ≤ n :=
        Nat.le_trans (List.length_filter_le _ _) (by simpa using hn)
      have ih := countDistinct_of_mem n _ a hlen hmem
      have hf : (b :: bs).filter (fun c => !c == a) = b :: bs.filter (fun c => !c == a) := by
        simp [hba]
      rw [countDistinct_cons, ih, hf, countDistinct_cons, List.filter_filter, List.filter_filter]
      congr 3
      exact List.filter_congr (fun c _ => Bool.and_comm _ _)

theorem countDistinct_mono : ∀ (n : Nat) (l1 l2 : List Nat), l1.length ≤ n → (∀ x ∈ l1, x ∈ l2) →
    countDistinct l1 ≤ countDistinct l2
  | _, [], _, _, _ => by simp [countDistinct]
  | 0, _ :: _, _, hn, _ => by simp at hn
  | n + 1, a :: as, l2, hn, hsub => by
    have ha : a ∈ l2 := hsub a List.mem_cons_self
    rw [countDistinct_cons, countDistinct_of_mem l2.length l2 a (Nat.le_refl _) ha]
    have hlen : (as.filter (fun b => !b == a)).length ≤ n :=
      Nat.le_trans (List.length_filter_le _ _) (by simpa using hn)
    have := countDistinct_mono n (as.filter (fun b => !b == a)) (l2.filter (fun b => !b == a)) hlen
      (by
        intro x hx
        obtain ⟨h1, h2⟩ := List.mem_filter.1 hx
        exact List.mem_filter.2 ⟨hsub x (List.mem_cons_of_mem _ h1), h2⟩)
    omega

theorem countDistinct_mono_subset {l1 l2 : List Nat} (h : ∀ x ∈ l1, x ∈ l2) :
    countDistinct l1 ≤ countDistinct l2 :=
  countDistinct_mono l1.length l1 l2 (Nat.le_refl _) h

theorem countDistinct_pos (a : Nat) (l : List Nat) : 1 ≤ countDistinct (a :: l) := by
  rw [countDistinct_cons]; omega

/-! ## `_scope_tokens` -/

theorem drop_take_succ {toks : List Tok} {i : Nat} (n : Nat) (hi : i < toks.length) :
    (toks.drop i).take (n + 1) = toks[i] :: (toks.drop (i + 1)).take n := by
  rw [List.drop_eq_getElem_cons hi, List.take_succ_cons]

/-- the test `not children or i < children[0].start` after the exhausted children are dropped -/
def keepAt (i : Nat) (ch' : List Range) : Bool :=
  match ch' with | [] => true | c :: _ => decide (i < c.s)

theorem scopeLinesLoop_succ (toks : List Tok) (n i : Nat) (ch : List Range) :
    scopeLinesLoop toks (n + 1) i ch =
      match (if keepAt i (ch.dropWhile (fun c => decide (i ≥ c.e))) then
              (getE toks i).map (fun t => [t.line]) else .ok []),
            scopeLinesLoop toks n (i + 1) (ch.dropWhile (fun c => decide (i ≥ c.e))) with
      | .ok a, .ok r => .ok (a ++ r)
      | .error e, _ => .error e
      | _, .error e => .error e := rfl

theorem scopeLinesLoop_spec (toks : List Tok) : ∀ (n i : Nat) (ch : List Range),
    i + n ≤ toks.length →
    ∃ ls, scopeLinesLoop toks n i ch = .ok ls ∧
      ls.Sublist (((toks.drop i).take n).map (·.line)) ∧
      (0 < n → (∀ c ∈ ch, i < c.s) → ∃ t rest, toks[i]? = some t ∧ ls = t.line :: rest)
  | 0, i, ch, _ => ⟨[], rfl, by simp, fun h => absurd h (Nat.lt_irrefl 0)⟩
  | n + 1, i, ch, hb => by
    have hi : i < toks.length := by omega
    obtain ⟨r, hr, hsub, _⟩ := scopeLinesLoop_spec toks n (i + 1)
      (ch.dropWhile (fun c => decide (i ≥ c.e))) (by omega)
    rw [scopeLinesLoop_succ, hr, getE_ok hi, drop_take_succ n hi, List.map_cons]
    cases hk : keepAt i (ch.dropWhile (fun c => decide (i ≥ c.e))) with
    | true =>
      refine ⟨[toks[i].line] ++ r, by simp [Except.map], ?_, ?_⟩
      · simpa using hsub.cons_cons toks[i].line
      · intro _ _
        exact ⟨toks[i], r, List.getElem?_eq_getElem hi, rfl⟩
    | false =>
      refine ⟨[] ++ r, by simp, ?_, ?_⟩
      · simpa using hsub.trans (List.sublist_cons_self _ _)
      · intro _ hch
        exfalso
        unfold keepAt at hk
        split at hk
        · cases hk
        · next c cs hdw =>
          have : c ∈ ch := (List.dropWhile_sublist _).subset (by rw [hdw]; exact List.mem_cons_self)
          have := hch c this
          simp [this] at hk

/-! ## `count_lines` -/

theorem countLines_spec {toks : List Tok} {s : Scope} {children : List Range}
    (h1 : s.hdr.rng.s < toks.length) (hs : s.blk.e ≤ toks.length)
    (hch : ∀ c ∈ children, c.s < toks.length) :
    ∃ len, countLines toks s children = .ok len ∧
      len ≤ countDistinct (((toks.drop s.hdr.rng.s).take (s.blk.e - s.hdr.rng.s)).map (·.line)) ∧
      (s.hdr.rng.s < s.blk.e → (∀ c ∈ children, s.hdr.rng.s < c.s) → 1 ≤ len) := by
  obtain ⟨ch, hsort⟩ := sortAsc_ok (toks := toks) (start := Range.s) children hch
  have hperm := (sortAsc_perm_sorted hsort).1
  obtain ⟨ls, hls, hsub, hfirst⟩ := scopeLinesLoop_spec toks (s.blk.e - s.hdr.rng.s) s.hdr.rng.s ch
    (by omega)
  refine ⟨countDistinct ls, by simp [countLines, hsort, hls], ?_, ?_⟩
  · exact countDistinct_mono_subset (fun x hx => hsub.subset hx)
  · intro hlt hc
    obtain ⟨t, rest, _, hl⟩ := hfirst (by omega) (fun c hcm => hc c (hperm.mem_iff.1 hcm))
    rw [hl]; exact countDistinct_pos _ _

/-! ## `measure`, `measureAll` -/

theorem measure_spec {code : List Tok} {s : Scope} {children : List Range}
    (h1 : s.hdr.rng.s < code.length) (h2 : 0 < s.blk.e) (h3 : s.blk.e ≤ code.length)
    (hch : ∀ c ∈ children, c.s < code.length) :
    ∃ m first last, measure code s children = .ok m ∧
      code[s.hdr.rng.s]? = some first ∧ code[s.blk.e - 1]? = some last ∧
      m.name = s.hdr.name.val ∧ (m.sl, m.sc) = (first.line, first.col) ∧
      (m.el, m.ec) = last.endPos ∧ countLines code s children = .ok m.len := by
  obtain ⟨len, hlen, _, _⟩ := countLines_spec (toks := code) (s := s) h1 h3 hch
  have h4 : s.blk.e - 1 < code.length := by omega
  have h5 : s.blk.e ≠ 0 := by omega
  by_cases hinfo : (lastLineInfo code[s.blk.e - 1].val).1 = 0
  · refine ⟨⟨s.hdr.name.val, code[s.hdr.rng.s].line, code[s.hdr.rng.s].col,
      code[s.blk.e - 1].line, code[s.blk.e - 1].col + code[s.blk.e - 1].val.length, len⟩,
      code[s.hdr.rng.s], code[s.blk.e - 1], ?_, List.getElem?_eq_getElem h1,
      List.getElem?_eq_getElem h4, rfl, rfl, ?_, hlen⟩
    · simp [measure, hlen, getE_ok h1, getE_ok h4, h5, hinfo, bind, Except.bind, pure, Except.pure]
    · simp [Tok.endPos, hinfo]
  · refine ⟨⟨s.hdr.name.val, code[s.hdr.rng.s].line, code[s.hdr.rng.s].col,
      code[s.blk.e - 1].line + (lastLineInfo code[s.blk.e - 1].val).1,
      (lastLineInfo code[s.blk.e - 1].val).2 + 1, len⟩,
      code[s.hdr.rng.s], code[s.blk.e - 1], ?_, List.getElem?_eq_getElem h1,
      List.getElem?_eq_getElem h4, rfl, rfl, ?_, hlen⟩
    · simp [measure, hlen, getE_ok h1, getE_ok h4, h5, hinfo, bind, Except.bind, pure, Except.pure]
    · simp [Tok.endPos, hinfo]

theorem measureAll_ok {code : List Tok} : ∀ (scs : List (Scope × List Range)),
    (∀ p ∈ scs, ∃ m, measure code p.1 p.2 = .ok m) →
    ∃ ms, measureAll code scs = .ok ms
  | [], _ => ⟨[], rfl⟩
  | (s, ch) :: rest, h => by
    obtain ⟨m, hm⟩ := h (s, ch) List.mem_cons_self
    obtain ⟨ms, hms⟩ := measureAll_ok rest (fun p hp => h p (List.mem_cons_of_mem _ hp))
    exact ⟨m :: ms, by simp [measureAll, hm, hms]⟩

theorem measureAll_spec {code : List Tok} : ∀ (scs : List (Scope × List Range)) (ms : List Measurement),
    measureAll code scs = .ok ms → scs.map (fun p => measure code p.1 p.2) = ms.map .ok
  | [], ms, h => by
    simp only [measureAll, Except.ok.injEq] at h
    subst h; rfl
  | (s, ch) :: rest, ms, h => by
    unfold measureAll at h
    split at h
    · next m r hm hr =>
      cases h
      simp [hm, measureAll_spec rest r hr]
    · cases h
    · cases h

theorem measureAll_mem_ok {code : List Tok} {scs : List (Scope × List Range)} {ms : List Measurement}
    (h : measureAll code scs = .ok ms) : ∀ m ∈ ms, ∃ p ∈ scs, measure code p.1 p.2 = .ok m := by
  intro m hm
  have : Except.ok m ∈ scs.map (fun p => measure code p.1 p.2) := by
    rw [measureAll_spec scs ms h]; exact List.mem_map.2 ⟨m, hm, rfl⟩
  obtain ⟨p, hp, hpm⟩ := List.mem_map.1 this
  exact ⟨p, hp, hpm⟩

theorem measureAll_pairwise {code : List Tok} {scs : List (Scope × List Range)} {ms : List Measurement}
    (h : measureAll code scs = .ok ms) (R : Measurement → Measurement → Prop)
    (hR : scs.Pairwise (fun p q => ∀ m m', measure code p.1 p.2 = .ok m →
      measure code q.1 q.2 = .ok m' → R m m')) : ms.Pairwise R := by
  have h1 : (scs.map (fun p => measure code p.1 p.2)).Pairwise
      (fun a b => ∀ m m', a = .ok m → b = .ok m' → R m m') := by
    rw [List.pairwise_map]; exact hR
  rw [measureAll_spec scs ms h, List.pairwise_map] at h1
  exact h1.imp (fun hab => hab _ _ rfl rfl)

/-! ## `fold_scopes` as parent pointers -/

theorem descend_spec (s : Scope) : ∀ (path : List (Nat × Scope)),
    ∀ q ∈ descend s path, q ∈ path ∧ q.2.contains s = true
  | [], q, hq => by simp [descend] at hq
  | p :: rest, q, hq => by
    unfold descend at hq
    split at hq
    · next hc =>
      rcases List.mem_cons.1 hq with rfl | hq
      · exact ⟨List.mem_cons_self, hc⟩
      · have := descend_spec s rest q hq
        exact ⟨List.mem_cons_of_mem _ this.1, this.2⟩
    · cases hq

theorem foldParents_spec (full : List Scope) : ∀ (ss : List Scope) (i : Nat) (path : List (Nat × Scope)),
    (∀ k, full[i + k]? = ss[k]?) → (∀ p ∈ path, full[p.1]? = some p.2) →
    ∀ (j : Nat) (c : Scope) (p : Nat), ss[j]? = some c →
      (foldParents ss i path)[j]? = some (some p) →
      ∃ par, full[p]? = some par ∧ par.contains c = true
  | [], _, _, _, _, j, c, p, hc, _ => by simp at hc
  | s :: ss, i, path, hfull, hpath, j, c, p, hc, hp => by
    unfold foldParents at hp
    cases j with
    | zero =>
      simp only [List.getElem?_cons_zero, Option.some.injEq] at hc hp
      subst hc
      cases hl : (descend s path).getLast? with
      | none => simp [hl] at hp
      | some q =>
        simp only [hl, Option.map_some, Option.some.injEq] at hp
        have hq := descend_spec s path q (List.mem_of_mem_getLast? hl)
        exact ⟨q.2, by rw [← hp]; exact hpath q hq.1, hq.2⟩
    | succ j =>
      simp only [List.getElem?_cons_succ] at hc hp
      refine foldParents_spec full ss (i + 1) _ ?_ ?_ j c p hc hp
      · intro k
        have := hfull (k + 1)
        simp only [List.getElem?_cons_succ] at this
        rw [← this]; congr 1; omega
      · intro q hq
        rcases List.mem_append.1 hq with hq | hq
        · exact hpath q (descend_spec s path q hq).1
        · simp only [List.mem_singleton] at hq
          subst hq
          simpa using hfull 0

theorem withChildren_fst (scopes : List Scope) (parents : List (Option Nat)) :
    (withChildren scopes parents).map (·.1) = scopes := by
  unfold withChildren
  rw [List.map_map]
  have : ((fun x : Scope × List Range => x.1) ∘ fun (x : Scope × Nat) =>
      (x.1, ((scopes.zip parents).filter (fun (y : Scope × Option Nat) => y.2 == some x.2)).map
        (fun (y : Scope × Option Nat) => (⟨y.1.hdr.rng.s, y.1.blk.e⟩ : Range)))) = (·.1) := rfl
  exact (congrArg (fun f => List.map f scopes.zipIdx) this).trans (by simp)

/-- every child range listed for a scope belongs to a scope the parent `contains` -/
theorem withChildren_spec (fl : List Scope) :
    ∀ p ∈ withChildren fl (foldParents fl 0 []), p.1 ∈ fl ∧
      ∀ c ∈ p.2, ∃ child ∈ fl, c = ⟨child.hdr.rng.s, child.blk.e⟩ ∧ p.1.contains child = true := by
  intro p hp
  unfold withChildren at hp
  obtain ⟨⟨s, i⟩, hsi, rfl⟩ := List.mem_map.1 hp
  have hz := List.mem_zipIdx hsi
  simp only [Nat.sub_zero, Nat.zero_add] at hz
  have hs : fl[i]? = some s := by rw [hz.2.2]; exact List.getElem?_eq_getElem hz.2.1
  refine ⟨List.mem_of_getElem? hs, ?_⟩
  intro c hc
  obtain ⟨⟨child, par⟩, hmem, rfl⟩ := List.mem_map.1 hc
  obtain ⟨hzip, hpar⟩ := List.mem_filter.1 hmem
  have hpar' : par = some i := by simpa using hpar
  subst hpar'
  obtain ⟨j, hj⟩ := List.mem_iff_getElem?.1 hzip
  rw [List.getElem?_zip_eq_some] at hj
  obtain ⟨par', h1, h2⟩ := foldParents_spec fl fl 0 [] (by simp) (by simp) j child i hj.1 hj.2
  rw [hs] at h1
  cases h1
  exact ⟨child, List.mem_of_getElem? hj.1, rfl, h2⟩

/-! ## the filters keep the order -/

theorem filterNocl_sub (scopes : List Scope) (nocl : List Tok) :
    (filterNocl scopes nocl).Sublist scopes :=
  List.filter_sublist

theorem filterNested_sub : ∀ (ss : List Scope) (o : Option Scope), (filterNested ss o).Sublist ss
  | [], _ => by simp [filterNested]
  | s :: ss, none => by
    simpa [filterNested] using (filterNested_sub ss (some s)).cons_cons s
  | s :: ss, some last => by
    unfold filterNested
    split
    · exact (filterNested_sub ss (some last)).trans (List.sublist_cons_self _ _)
    · exact (filterNested_sub ss (some s)).cons_cons s

end CL
