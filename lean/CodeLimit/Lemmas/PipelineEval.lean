import CodeLimit.Model.Pipeline
import CodeLimit.Lemmas.ScanEval
import CodeLimit.Lemmas.ExceptDec
/-!
# Kernel-evaluable copy of `Pipeline.scan` (for concrete `decide +kernel` examples)

`scan_file` sorts with `List.mergeSort`, which does not reduce in the kernel; `Lemmas/ScanEval.lean`
provides the equal function `scanFileK`.  The `…K` definitions below are the definitions of
`Model/Pipeline.lean` with `scanFileK` in place of `scanFile`, proved equal to the originals.
-/
namespace CL.Pipeline

open CL CL.Sel

def analyzeTextK (E : Env) (lang : Nat) (text : Str) : Except Err (List Measurement) :=
  match Gen.all[lang]? with
  | none => .ok []
  | some x => scanFileK x.2 (lex text (E.lexOf lang text) false)

theorem analyzeText_eq_K (E : Env) : analyzeText E = analyzeTextK E := by
  funext lang text
  unfold analyzeText analyzeTextK CL.analyze
  cases Gen.all[lang]? with
  | none => rfl
  | some x =>
    simp only
    rw [scanFile_eq_K]
    cases scanFileK x.2 (lex text (E.lexOf lang text) false) <;> rfl

def oraclesK (E : Env) (pats : List Gi.Pat) : Oracles where
  excluded := Gi.excludedWith pats
  langOf := langOf E
  checksum := E.checksum
  decode := E.decode
  analyze := analyzeTextK E

theorem oracles_eq_K (E : Env) (pats : List Gi.Pat) : oracles E pats = oraclesK E pats := by
  unfold oracles oraclesK
  rw [analyzeText_eq_K]

def analyzeRowK (E : Env) (key : Str) (content : Str) : Except Err Row :=
  match langOf E (Codebase.getBasename key) with
  | none => .ok ⟨[], 0, []⟩
  | some lang =>
    match analyzeFile (oraclesK E []) key (E.checksum content) lang content with
    | .error e => .error e
    | .ok e => .ok (rowOfSel e)

theorem analyzeRow_eq_K (E : Env) : analyzeRow E = analyzeRowK E := by
  funext key content
  unfold analyzeRow analyzeRowK
  rw [oracles_eq_K]
  rfl

def cacheParamsK (E : Env) : CacheParams where
  analyze := analyzeRowK E
  hash := E.checksum
  selected := selectedKey E
  cur := some E.version

theorem cacheParams_eq_K (E : Env) : cacheParams E = cacheParamsK E := by
  unfold cacheParams cacheParamsK
  rw [analyzeRow_eq_K]

def scanK (E : Env) (R : Run) (root : Node) (prev : Option Str) : Except Err (Json.ReportData × Str) :=
  match entriesOf (Cache.scan (cacheParamsK E) (cacheState R.pats root.children prev)).2 with
  | .error e => .error e
  | .ok files =>
    match reportOf E R files with
    | .error e => .error e
    | .ok d => .ok (d, Json.write true d)

/-- evaluate `scan` through the kernel-evaluable copy -/
theorem scan_eq_K (E : Env) (R : Run) (root : Node) (prev : Option Str) :
    scan E R root prev = scanK E R root prev := by
  unfold scan scanK scanRows
  rw [cacheParams_eq_K]
  rfl

/-- the paths taken from the cache and the paths analysed by a scan (instrumentation of
`Model/Cache.lean`), evaluable -/
def reusedAnalysedK (E : Env) (pats : List Gi.Pat) (root : Node) (prev : Option Str) : List Str × List Str :=
  ((Cache.reusedFiles (cacheParamsK E) (cacheState pats root.children prev)).map (·.1),
   (Cache.analysedFiles (cacheParamsK E) (cacheState pats root.children prev)).map (·.1))

theorem reusedAnalysed_eq_K (E : Env) (pats : List Gi.Pat) (root : Node) (prev : Option Str) :
    ((Cache.reusedFiles (cacheParams E) (cacheState pats root.children prev)).map (·.1),
     (Cache.analysedFiles (cacheParams E) (cacheState pats root.children prev)).map (·.1)) =
      reusedAnalysedK E pats root prev := by
  unfold reusedAnalysedK
  rw [cacheParams_eq_K]

end CL.Pipeline
