import CodeLimit.Spec.PredFamily
import CodeLimit.Lemmas.EngineCorrect
import CodeLimit.Lemmas.TokenNestMap
/-!
# The matchers over a pairwise-disjoint family of stateless predicates

Reduction of `dfaMachine D (predAcceptor P)` to `dfaMachine D idAcceptor` (helper lemmas for
section 6 of `Props/C13.lean`).

* `consume_pred`: on a row whose labels are pairwise exclusive on the item `x`, `consume` with
  `predAcceptor P` never raises and follows the first (= only) entry whose label accepts `x`;
* `dfaRunP` / `AccRunP`: the run of the table on a word of items; `dfaRunP_some_iff`: it is
  the run of the table on some labelling of the items by accepting row labels;
* `matchMP_eq`, `startsWithMP_some_iff`, `startsWithMP_none_iff`, `startsWithMP_ok`: the
  analogues of `Lemmas/MatchRun.lean`;
* `rowsExcl_of_disjoint`: a table compiled from `r` has exclusive rows when `DisjointOn P r`;
* `matchFullP_eq`, `startsWithP_some_iff`, ... : the end-to-end statements in terms of `LangP`;
* `nfaMatchP_iff`: the NFA matcher (no disjointness needed);
* `langP_atom` ... `langP_plus`: `LangP` commutes with every operator of the pattern.
-/
namespace CL

variable {α β : Type}

/-! ## vocabulary bridges -/

theorem hasAtom_iff_mem_atoms (a : α) (r : Rx α) : Rx.HasAtom a r ↔ a ∈ r.atoms := by
  induction r with
  | atom b => simp [Rx.HasAtom, Rx.atoms]
  | cat r s ih1 ih2 => simp [Rx.HasAtom, Rx.atoms, ih1, ih2]
  | alt r s ih1 ih2 => simp [Rx.HasAtom, Rx.atoms, ih1, ih2]
  | opt r ih => simpa [Rx.HasAtom, Rx.atoms] using ih
  | star r ih => simpa [Rx.HasAtom, Rx.atoms] using ih
  | plus r ih => simpa [Rx.HasAtom, Rx.atoms] using ih

theorem accepts_nil_right {P : α → β → Bool} {v : List α} : Accepts P v [] ↔ v = [] := by
  constructor
  · intro h; cases h; rfl
  · rintro rfl; exact .nil

theorem accepts_cons_right {P : α → β → Bool} {v : List α} {x : β} {w : List β} :
    Accepts P v (x :: w) ↔ ∃ a v', v = a :: v' ∧ P a x = true ∧ Accepts P v' w := by
  constructor
  · intro h; cases h with
    | cons h1 h2 => exact ⟨_, _, rfl, h1, h2⟩
  · rintro ⟨a, v', rfl, h1, h2⟩; exact .cons h1 h2

theorem Accepts.length_eq {P : α → β → Bool} {v : List α} {w : List β} (h : Accepts P v w) :
    v.length = w.length := by
  induction h with
  | nil => rfl
  | cons _ _ ih => simp [ih]

/-- for `Identity` predicates the labelling is the word itself -/
theorem accepts_id_iff [DecidableEq α] {v w : List α} :
    Accepts (fun a x => decide (a = x)) v w ↔ v = w := by
  constructor
  · intro h
    induction h with
    | nil => rfl
    | cons h1 _ ih => simp only [decide_eq_true_eq] at h1; rw [h1, ih]
  · rintro rfl
    induction v with
    | nil => exact .nil
    | cons a v ih => exact .cons (by simp) ih

theorem langP_id_iff [DecidableEq α] (r : Rx α) (w : List α) :
    LangP (fun a x => decide (a = x)) r w ↔ Lang r w := by
  unfold LangP
  constructor
  · rintro ⟨v, hv, hacc⟩
    rw [accepts_id_iff.1 hacc] at hv; exact hv
  · intro h; exact ⟨w, h, accepts_id_iff.2 rfl⟩

theorem disjointOn_id [DecidableEq α] (r : Rx α) : DisjointOn (fun a x : α => decide (a = x)) r := by
  intro a b x _ _ ha hb
  simp only [decide_eq_true_eq] at ha hb
  rw [ha, hb]

theorem predAcceptor_id [DecidableEq α] :
    predAcceptor (fun a x : α => decide (a = x)) = idAcceptor := rfl

/-! ## `LangP` is the regular language of the pattern over items (compositional reading) -/

section langP
variable {P : α → β → Bool}

theorem Accepts.append {u v : List α} {w1 w2 : List β} (h1 : Accepts P u w1)
    (h2 : Accepts P v w2) : Accepts P (u ++ v) (w1 ++ w2) := by
  induction h1 with
  | nil => exact h2
  | cons h _ ih => exact .cons h ih

theorem accepts_append_left {u v : List α} {w : List β} (h : Accepts P (u ++ v) w) :
    ∃ w1 w2, w = w1 ++ w2 ∧ Accepts P u w1 ∧ Accepts P v w2 := by
  induction u generalizing w with
  | nil => exact ⟨[], w, rfl, .nil, h⟩
  | cons a u ih =>
    cases h with
    | cons ha h' =>
      obtain ⟨w1, w2, rfl, h1, h2⟩ := ih h'
      exact ⟨_ :: w1, w2, rfl, .cons ha h1, h2⟩

theorem langP_atom (a : α) (w : List β) : LangP P (.atom a) w ↔ ∃ x, w = [x] ∧ P a x = true := by
  constructor
  · rintro ⟨v, hl, hv⟩
    cases hl
    cases hv with
    | cons ha h' => cases h'; exact ⟨_, rfl, ha⟩
  · rintro ⟨x, rfl, ha⟩
    exact ⟨[a], .atom a, .cons ha .nil⟩

theorem langP_cat (r s : Rx α) (w : List β) :
    LangP P (.cat r s) w ↔ ∃ w1 w2, w = w1 ++ w2 ∧ LangP P r w1 ∧ LangP P s w2 := by
  constructor
  · rintro ⟨v, hl, hv⟩
    cases hl with
    | cat h1 h2 =>
      obtain ⟨w1, w2, rfl, a1, a2⟩ := accepts_append_left hv
      exact ⟨w1, w2, rfl, ⟨_, h1, a1⟩, ⟨_, h2, a2⟩⟩
  · rintro ⟨w1, w2, rfl, ⟨u, h1, a1⟩, ⟨v, h2, a2⟩⟩
    exact ⟨u ++ v, .cat h1 h2, a1.append a2⟩

theorem langP_alt (r s : Rx α) (w : List β) :
    LangP P (.alt r s) w ↔ LangP P r w ∨ LangP P s w := by
  constructor
  · rintro ⟨v, hl, hv⟩
    cases hl with
    | altL h => exact .inl ⟨v, h, hv⟩
    | altR h => exact .inr ⟨v, h, hv⟩
  · rintro (⟨v, h, hv⟩ | ⟨v, h, hv⟩)
    · exact ⟨v, .altL h, hv⟩
    · exact ⟨v, .altR h, hv⟩

theorem langP_opt (r : Rx α) (w : List β) : LangP P (.opt r) w ↔ w = [] ∨ LangP P r w := by
  constructor
  · rintro ⟨v, hl, hv⟩
    cases hl with
    | optNil => cases hv; exact .inl rfl
    | optSome h => exact .inr ⟨v, h, hv⟩
  · rintro (rfl | ⟨v, h, hv⟩)
    · exact ⟨[], .optNil, .nil⟩
    · exact ⟨v, .optSome h, hv⟩

theorem langP_star (r : Rx α) (w : List β) :
    LangP P (.star r) w ↔
      w = [] ∨ ∃ w1 w2, w = w1 ++ w2 ∧ LangP P r w1 ∧ LangP P (.star r) w2 := by
  constructor
  · rintro ⟨v, hl, hv⟩
    cases hl with
    | starNil => cases hv; exact .inl rfl
    | starCons h1 h2 =>
      obtain ⟨w1, w2, rfl, a1, a2⟩ := accepts_append_left hv
      exact .inr ⟨w1, w2, rfl, ⟨_, h1, a1⟩, ⟨_, h2, a2⟩⟩
  · rintro (rfl | ⟨w1, w2, rfl, ⟨u, h1, a1⟩, ⟨v, h2, a2⟩⟩)
    · exact ⟨[], .starNil, .nil⟩
    · exact ⟨u ++ v, .starCons h1 h2, a1.append a2⟩

theorem langP_plus (r : Rx α) (w : List β) :
    LangP P (.plus r) w ↔
      LangP P r w ∨ ∃ w1 w2, w = w1 ++ w2 ∧ LangP P r w1 ∧ LangP P (.plus r) w2 := by
  constructor
  · rintro ⟨v, hl, hv⟩
    cases hl with
    | plusOne h => exact .inl ⟨v, h, hv⟩
    | plusCons h1 h2 =>
      obtain ⟨w1, w2, rfl, a1, a2⟩ := accepts_append_left hv
      exact .inr ⟨w1, w2, rfl, ⟨_, h1, a1⟩, ⟨_, h2, a2⟩⟩
  · rintro (⟨v, h, hv⟩ | ⟨w1, w2, rfl, ⟨u, h1, a1⟩, ⟨v, h2, a2⟩⟩)
    · exact ⟨v, .plusOne h, hv⟩
    · exact ⟨u ++ v, .plusCons h1 h2, a1.append a2⟩

end langP

/-! ## `consume` with stateless predicates -/

section consume
variable (P : α → β → Bool)

/-- the labels of the row are pairwise exclusive on the item `x` -/
def RowExcl (row : List (α × DState)) (x : β) : Prop :=
  row.Pairwise (fun t t' => ¬ (P t.1 x = true ∧ P t'.1 x = true))

theorem consumeAux_pred_cons (x : β) (p : α) (t : DState) (rest : List (α × DState))
    (f : Option DState) (ps : Unit) :
    consumeAux (predAcceptor P) x ((p, t) :: rest) f ps
      = if P p x = true then
          (if f.isSome then .error .multipleTransitions
           else consumeAux (predAcceptor P) x rest (some t) ())
        else consumeAux (predAcceptor P) x rest f () := by
  rfl

theorem consumeAux_pred_no_match (x : β) (row : List (α × DState)) (f : Option DState) (ps : Unit)
    (h : ∀ t ∈ row, ¬ P t.1 x = true) :
    consumeAux (predAcceptor P) x row f ps = .ok (f, ()) := by
  induction row generalizing f ps with
  | nil => rfl
  | cons hd rest ih =>
    obtain ⟨p, t⟩ := hd
    have hp : ¬ P p x = true := h (p, t) (by simp)
    have hrest : ∀ t ∈ rest, ¬ P t.1 x = true := fun t ht => h t (by simp [ht])
    rw [consumeAux_pred_cons, if_neg hp]
    exact ih f () hrest

theorem consumeAux_pred (x : β) (row : List (α × DState)) (ps : Unit) (hex : RowExcl P row x) :
    consumeAux (predAcceptor P) x row none ps
      = .ok ((row.find? (fun t => P t.1 x)).map (·.2), ()) := by
  induction row generalizing ps with
  | nil => rfl
  | cons hd rest ih =>
    obtain ⟨p, t⟩ := hd
    unfold RowExcl at hex
    rw [List.pairwise_cons] at hex
    rw [consumeAux_pred_cons]
    by_cases hp : P p x = true
    · have hrest : ∀ t' ∈ rest, ¬ P t'.1 x = true := fun t' ht' h' => hex.1 t' ht' ⟨hp, h'⟩
      rw [if_pos hp, consumeAux_pred_no_match P x rest (some t) () hrest]
      simp [hp]
    · rw [if_neg hp, ih () hex.2]
      simp [hp]

/-- on a row with pairwise exclusive labels `consume` never raises and follows the unique
entry whose label accepts the item -/
theorem consume_pred (row : List (α × DState)) (x : β) (hex : RowExcl P row x) :
    consume (predAcceptor P) row () x
      = .ok ((row.find? (fun t => P t.1 x)).map (fun t => (t.2, ()))) := by
  unfold consume
  rw [consumeAux_pred P x row () hex]
  cases h : row.find? (fun t => P t.1 x) <;> simp

/-- an accepting entry of an exclusive row is the one `find?` returns -/
theorem find?_pred_of_mem {row : List (α × DState)} {x : β} (hex : RowExcl P row x)
    {t : α × DState} (ht : t ∈ row) (hp : P t.1 x = true) :
    row.find? (fun t => P t.1 x) = some t := by
  induction row with
  | nil => cases ht
  | cons hd rest ih =>
    unfold RowExcl at hex
    rw [List.pairwise_cons] at hex
    by_cases hhd : P hd.1 x = true
    · rw [List.find?_cons_of_pos (by simpa using hhd)]
      rcases List.mem_cons.1 ht with rfl | ht'
      · rfl
      · exact absurd ⟨hhd, hp⟩ (hex.1 t ht')
    · rw [List.find?_cons_of_neg (by simpa using hhd)]
      rcases List.mem_cons.1 ht with rfl | ht'
      · exact absurd hp hhd
      · exact ih hex.2 ht'

end consume

/-! ## runs of the table on items -/

section run
variable (P : α → β → Bool)

/-- follow, for each item, the (first) row entry whose label accepts it -/
def dfaRunP (D : Dfa α) : DState → List β → Option DState
  | s, [] => some s
  | s, x :: w =>
    match (D.row s).find? (fun t => P t.1 x) with
    | none => none
    | some t => dfaRunP D t.2 w

/-- the run from `s` on the items `w` survives and ends in an accepting DFA object -/
def AccRunP (D : Dfa α) (s : DState) (w : List β) : Prop :=
  ∃ s', dfaRunP P D s w = some s' ∧ D.isAcc s' = true

/-- every row of the table is exclusive on every item -/
def RowsExcl (D : Dfa α) : Prop := ∀ s x, RowExcl P (D.row s) x

theorem accRunP_nil (D : Dfa α) (s : DState) : AccRunP P D s [] ↔ D.isAcc s = true := by
  simp [AccRunP, dfaRunP]

theorem accRunP_cons_none {D : Dfa α} {s : DState} {x : β}
    (hf : (D.row s).find? (fun t => P t.1 x) = none) (v : List β) : ¬ AccRunP P D s (x :: v) := by
  simp [AccRunP, dfaRunP, hf]

theorem accRunP_cons_some {D : Dfa α} {s : DState} {x : β} {t : α × DState}
    (hf : (D.row s).find? (fun t => P t.1 x) = some t) (v : List β) :
    AccRunP P D s (x :: v) ↔ AccRunP P D t.2 v := by
  simp [AccRunP, dfaRunP, hf]

section
variable [DecidableEq α] {P} {D : Dfa α} (hex : RowsExcl P D)
include hex

/-- the run on items is the run on a labelling of the items by accepting labels -/
theorem dfaRunP_some_iff : ∀ (w : List β) (s s' : DState),
    dfaRunP P D s w = some s' ↔ ∃ v, Accepts P v w ∧ dfaRun D s v = some s' := by
  intro w
  induction w with
  | nil =>
    intro s s'
    simp only [dfaRunP, accepts_nil_right]
    constructor
    · intro h; exact ⟨[], rfl, h⟩
    · rintro ⟨v, rfl, h⟩; exact h
  | cons x xs ih =>
    intro s s'
    simp only [dfaRunP, accepts_cons_right]
    constructor
    · intro h
      cases hf : (D.row s).find? (fun t => P t.1 x) with
      | none => rw [hf] at h; cases h
      | some t =>
        rw [hf] at h
        obtain ⟨v', hv', hr⟩ := (ih t.2 s').1 h
        have htm : t ∈ D.row s := List.mem_of_find?_eq_some hf
        have htp : P t.1 x = true := by simpa using List.find?_some hf
        refine ⟨t.1 :: v', ⟨t.1, v', rfl, htp, hv'⟩, ?_⟩
        simp only [dfaRun]
        cases hg : (D.row s).find? (fun t' => t'.1 = t.1) with
        | none =>
          have := List.find?_eq_none.1 hg t htm
          simp at this
        | some t' =>
          have ht'm : t' ∈ D.row s := List.mem_of_find?_eq_some hg
          have ht'e : t'.1 = t.1 := by simpa using List.find?_some hg
          have := find?_pred_of_mem P (hex s x) ht'm (by rw [ht'e]; exact htp)
          rw [hf] at this
          cases this
          exact hr
    · rintro ⟨v, ⟨a, v', rfl, hp, hv'⟩, hr⟩
      simp only [dfaRun] at hr
      cases hg : (D.row s).find? (fun t' => t'.1 = a) with
      | none => rw [hg] at hr; cases hr
      | some t =>
        rw [hg] at hr
        have htm : t ∈ D.row s := List.mem_of_find?_eq_some hg
        have hte : t.1 = a := by simpa using List.find?_some hg
        rw [find?_pred_of_mem P (hex s x) htm (by rw [hte]; exact hp)]
        exact (ih t.2 s').2 ⟨v', hv', hr⟩

theorem accRunP_iff (w : List β) (s : DState) :
    AccRunP P D s w ↔ ∃ v, Accepts P v w ∧ AccRun D s v := by
  unfold AccRunP AccRun
  constructor
  · rintro ⟨s', hr, hacc⟩
    obtain ⟨v, hv, hr'⟩ := (dfaRunP_some_iff hex w s s').1 hr
    exact ⟨v, hv, s', hr', hacc⟩
  · rintro ⟨v, hv, s', hr', hacc⟩
    exact ⟨s', (dfaRunP_some_iff hex w s s').2 ⟨v, hv, hr'⟩, hacc⟩

theorem dfaMachineP_step (s : DState) (x : β) :
    (dfaMachine D (predAcceptor P)).step (s, ()) x
      = .ok (((D.row s).find? (fun t => P t.1 x)).map (fun t => (t.2, ()))) := by
  simp only [dfaMachine]
  exact consume_pred P (D.row s) x (hex s x)

theorem matchMP_eq : ∀ (w : List β) (s : DState) (n : Nat),
    matchM (dfaMachine D (predAcceptor P)) (s, ()) w n
      = .ok (match dfaRunP P D s w with
              | some s' => if D.isAcc s' then some (n + w.length) else none
              | none => none) := by
  intro w
  induction w with
  | nil => intro s n; rfl
  | cons x xs ih =>
    intro s n
    rw [matchM, dfaMachineP_step hex]
    cases hf : (D.row s).find? (fun t => P t.1 x) with
    | none => simp [dfaRunP, hf]
    | some t =>
      simp only [Option.map_some, dfaRunP, hf]
      rw [ih t.2 (n + 1)]
      simp only [List.length_cons]
      have : n + 1 + xs.length = n + (xs.length + 1) := by omega
      rw [this]

theorem startsWithMP_ok : ∀ (w : List β) (s : DState) (n : Nat),
    ∃ o, startsWithM (dfaMachine D (predAcceptor P)) (s, ()) w n = .ok o := by
  intro w
  induction w with
  | nil => intro s n; exact ⟨none, rfl⟩
  | cons x xs ih =>
    intro s n
    rw [startsWithM, dfaMachineP_step hex]
    cases hf : (D.row s).find? (fun t => P t.1 x) with
    | none => exact ⟨none, rfl⟩
    | some t =>
      simp only [Option.map_some]
      split
      · exact ⟨_, rfl⟩
      · exact ih t.2 (n + 1)

theorem startsWithMP_some_iff : ∀ (w : List β) (s : DState) (n m : Nat),
    startsWithM (dfaMachine D (predAcceptor P)) (s, ()) w n = .ok (some m) ↔
      ∃ k, m = n + k ∧ 1 ≤ k ∧ k ≤ w.length ∧ AccRunP P D s (w.take k) ∧
        ∀ j, 1 ≤ j → j < k → ¬ AccRunP P D s (w.take j) := by
  intro w
  induction w with
  | nil =>
    intro s n m
    simp only [startsWithM, List.length_nil]
    constructor
    · intro h; cases h
    · rintro ⟨k, _, h1, h2, _⟩; omega
  | cons x xs ih =>
    intro s n m
    rw [startsWithM, dfaMachineP_step hex]
    cases hf : (D.row s).find? (fun t => P t.1 x) with
    | none =>
      simp only [Option.map_none]
      constructor
      · intro h; cases h
      · rintro ⟨k, _, h1, _, h3, _⟩
        obtain ⟨k', rfl⟩ : ∃ k', k = k' + 1 := ⟨k - 1, by omega⟩
        rw [List.take_succ_cons] at h3
        exact absurd h3 (accRunP_cons_none P hf _)
    | some t =>
      simp only [Option.map_some]
      have hacc : (dfaMachine D (predAcceptor P)).acc (t.2, ()) = D.isAcc t.2 := rfl
      rw [hacc]
      by_cases ht : D.isAcc t.2 = true
      · rw [if_pos ht]
        have h1 : AccRunP P D s ((x :: xs).take 1) := by
          rw [List.take_succ_cons, List.take_zero, accRunP_cons_some P hf, accRunP_nil]
          exact ht
        constructor
        · intro h
          simp only [Except.ok.injEq, Option.some.injEq] at h
          refine ⟨1, h.symm, Nat.le_refl _, by simp, h1, ?_⟩
          intro j hj1 hj2; omega
        · rintro ⟨k, rfl, hk1, _, _, hmin⟩
          have : k = 1 := by
            by_cases hk : k = 1
            · exact hk
            · exact absurd h1 (hmin 1 (Nat.le_refl _) (by omega))
          subst this
          rfl
      · rw [if_neg ht, ih t.2 (n + 1) m]
        constructor
        · rintro ⟨k, rfl, hk1, hk2, hk3, hmin⟩
          refine ⟨k + 1, by omega, by omega, by simp; omega, ?_, ?_⟩
          · rw [List.take_succ_cons, accRunP_cons_some P hf]; exact hk3
          · intro j hj1 hj2
            obtain ⟨j', rfl⟩ : ∃ j', j = j' + 1 := ⟨j - 1, by omega⟩
            rw [List.take_succ_cons, accRunP_cons_some P hf]
            by_cases hj0 : j' = 0
            · subst hj0; rw [List.take_zero, accRunP_nil]; exact ht
            · exact hmin j' (by omega) (by omega)
        · rintro ⟨k, rfl, hk1, hk2, hk3, hmin⟩
          obtain ⟨k', rfl⟩ : ∃ k', k = k' + 1 := ⟨k - 1, by omega⟩
          rw [List.take_succ_cons, accRunP_cons_some P hf] at hk3
          have hk0 : k' ≠ 0 := by
            intro h0; subst h0
            rw [List.take_zero, accRunP_nil] at hk3
            exact ht hk3
          simp only [List.length_cons] at hk2
          refine ⟨k', by omega, by omega, by omega, hk3, ?_⟩
          intro j hj1 hj2
          have := hmin (j + 1) (by omega) (by omega)
          rwa [List.take_succ_cons, accRunP_cons_some P hf] at this

theorem startsWithMP_none_iff (w : List β) (s : DState) (n : Nat) :
    startsWithM (dfaMachine D (predAcceptor P)) (s, ()) w n = .ok none ↔
      ∀ k, 1 ≤ k → k ≤ w.length → ¬ AccRunP P D s (w.take k) := by
  obtain ⟨o, ho⟩ := startsWithMP_ok hex w s n
  constructor
  · intro h k hk1 hk2 hk3
    obtain ⟨m, hm, hP, hmin⟩ :=
      exists_least (P := fun k => 1 ≤ k ∧ k ≤ w.length ∧ AccRunP P D s (w.take k)) k
        ⟨hk1, hk2, hk3⟩
    have : startsWithM (dfaMachine D (predAcceptor P)) (s, ()) w n = .ok (some (n + m)) := by
      rw [startsWithMP_some_iff hex]
      refine ⟨m, rfl, hP.1, hP.2.1, hP.2.2, ?_⟩
      intro j hj1 hj2 hj3
      exact hmin j hj2 ⟨hj1, by omega, hj3⟩
    rw [h] at this
    cases this
  · intro h
    rw [ho]
    cases o with
    | none => rfl
    | some m =>
      exfalso
      obtain ⟨k, _, hk1, hk2, hk3, _⟩ := (startsWithMP_some_iff hex w s n m).1 ho
      exact h k hk1 hk2 hk3

end

end run

/-! ## tables compiled from a pattern over disjoint predicates -/

section compiled
variable [DecidableEq α] {P : α → β → Bool}

/-- the rows of the table compiled from `r` are exclusive when the atoms of `r` are pairwise
disjoint: labels of a row are pairwise distinct atoms of `r` -/
theorem rowsExcl_of_disjoint {r : Rx α} {base : Nat} {ord : List α → List α} (hord : IsOrder ord)
    {D : Dfa α} (hD : nfaToDfa (compile r base) ord = some D) (hdis : DisjointOn P r) :
    RowsExcl P D := by
  intro s x
  have hnd := row_nodup (compile_wf r base) hord hD s
  have hat := row_label_atom hord hD s
  unfold RowExcl
  have hpw : (D.row s).Pairwise (fun t t' => t.1 ≠ t'.1) := by
    have := hnd
    unfold List.Nodup at this
    rwa [List.pairwise_map] at this
  refine hpw.imp_of_mem ?_
  intro t t' ht ht' hne ⟨h1, h2⟩
  exact hne (hdis t.1 t'.1 x ((hasAtom_iff_mem_atoms _ _).2 (hat t ht))
    ((hasAtom_iff_mem_atoms _ _).2 (hat t' ht')) h1 h2)

theorem accRunP_start_iff {r : Rx α} {base : Nat} {ord : List α → List α} (hord : IsOrder ord)
    {D : Dfa α} (hD : nfaToDfa (compile r base) ord = some D) (hdis : DisjointOn P r)
    (w : List β) : AccRunP P D .start w ↔ LangP P r w := by
  rw [accRunP_iff (rowsExcl_of_disjoint hord hD hdis)]
  unfold LangP
  simp only [accRun_start_iff (compile_wf r base) hord hD, thompson_correct]
  constructor
  · rintro ⟨v, h1, h2⟩; exact ⟨v, h2, h1⟩
  · rintro ⟨v, h1, h2⟩; exact ⟨v, h2, h1⟩

variable (P) (r : Rx α) (base : Nat) {ord : List α → List α} (hord : IsOrder ord)
  (hdis : DisjointOn P r) (w : List β)
include hord hdis

/-- `matchFullP` as a function of the lifted language -/
theorem matchFullP_eq [Decidable (LangP P r w)] :
    matchFullP P r base ord w = .ok (if LangP P r w then some w.length else none) := by
  obtain ⟨D, hD⟩ := compile_terminates r base hord
  have hex := rowsExcl_of_disjoint hord hD hdis
  have hiff := accRunP_start_iff hord hD hdis w
  unfold matchFullP
  simp only [hD]
  show matchM (dfaMachine D (predAcceptor P)) (DState.start, ()) w 0 = _
  rw [matchMP_eq hex]
  cases hr : dfaRunP P D .start w with
  | none =>
    have : ¬ LangP P r w := by
      rw [← hiff]; rintro ⟨s', h, _⟩; rw [hr] at h; cases h
    simp [this]
  | some s =>
    by_cases hl : LangP P r w
    · obtain ⟨s', h1, h2⟩ := hiff.2 hl
      rw [hr] at h1; cases h1
      simp [hl, h2]
    · have : D.isAcc s = false := by
        cases h : D.isAcc s with
        | false => rfl
        | true => exact absurd (hiff.1 ⟨s, hr, h⟩) hl
      simp [hl, this]

theorem matchFullP_some_iff : matchFullP P r base ord w = .ok (some w.length) ↔ LangP P r w := by
  classical
  rw [matchFullP_eq P r base hord hdis w]
  by_cases hl : LangP P r w <;> simp [hl]

theorem matchFullP_none_iff : matchFullP P r base ord w = .ok none ↔ ¬ LangP P r w := by
  classical
  rw [matchFullP_eq P r base hord hdis w]
  by_cases hl : LangP P r w <;> simp [hl]

theorem matchFullP_total :
    matchFullP P r base ord w = .ok (some w.length) ∨ matchFullP P r base ord w = .ok none := by
  classical
  rw [matchFullP_eq P r base hord hdis w]
  by_cases hl : LangP P r w <;> simp [hl]

theorem startsWithP_some_iff (k : Nat) : startsWithP P r base ord w = .ok (some k) ↔
    (1 ≤ k ∧ k ≤ w.length ∧ LangP P r (w.take k) ∧
      ∀ j, 1 ≤ j → j < k → ¬ LangP P r (w.take j)) := by
  obtain ⟨D, hD⟩ := compile_terminates r base hord
  have hex := rowsExcl_of_disjoint hord hD hdis
  unfold startsWithP
  simp only [hD]
  show startsWithM (dfaMachine D (predAcceptor P)) (DState.start, ()) w 0 = _ ↔ _
  rw [startsWithMP_some_iff hex]
  simp only [accRunP_start_iff hord hD hdis]
  constructor
  · rintro ⟨k', hk, h1, h2, h3, h4⟩
    have : k = k' := by omega
    subst this
    exact ⟨h1, h2, h3, h4⟩
  · rintro ⟨h1, h2, h3, h4⟩
    exact ⟨k, by omega, h1, h2, h3, h4⟩

theorem startsWithP_none_iff : startsWithP P r base ord w = .ok none ↔
    ∀ k, 1 ≤ k → k ≤ w.length → ¬ LangP P r (w.take k) := by
  obtain ⟨D, hD⟩ := compile_terminates r base hord
  have hex := rowsExcl_of_disjoint hord hD hdis
  unfold startsWithP
  simp only [hD]
  show startsWithM (dfaMachine D (predAcceptor P)) (DState.start, ()) w 0 = _ ↔ _
  rw [startsWithMP_none_iff hex]
  simp only [accRunP_start_iff hord hD hdis]

theorem startsWithP_total : ∃ o, startsWithP P r base ord w = .ok o := by
  obtain ⟨D, hD⟩ := compile_terminates r base hord
  have hex := rowsExcl_of_disjoint hord hD hdis
  unfold startsWithP
  simp only [hD]
  exact startsWithMP_ok hex w .start 0

end compiled

/-! ## the `Identity` instance -/

theorem matchFullP_id [DecidableEq α] (r : Rx α) (base : Nat) (ord : List α → List α)
    (w : List α) : matchFullP (fun a x => decide (a = x)) r base ord w = matchFull r base ord w :=
  rfl

theorem startsWithP_id [DecidableEq α] (r : Rx α) (base : Nat) (ord : List α → List α)
    (w : List α) : startsWithP (fun a x => decide (a = x)) r base ord w = startsWith r base ord w :=
  rfl

theorem nfaMatchLoopP_id [DecidableEq α] (N : Nfa α) : ∀ (w : List α) (act : List Nat),
    nfaMatchLoopP (fun a x => decide (a = x)) N act w = nfaMatchLoop N act w := by
  intro w
  induction w with
  | nil => intro act; rfl
  | cons x xs ih =>
    intro act
    simp only [nfaMatchLoopP, nfaMatchLoop, decide_eq_true_eq, ih]

theorem nfaMatchP_id [DecidableEq α] (r : Rx α) (base : Nat) (w : List α) :
    nfaMatchP (fun a x => decide (a = x)) r base w = nfaMatch r base w := by
  unfold nfaMatchP nfaMatch
  exact nfaMatchLoopP_id _ _ _

/-! ## the NFA matcher over predicates (no disjointness needed) -/

theorem nfaMatchLoopP_iff (P : α → β → Bool) (N : Nfa α) (w : List β) : ∀ act : List Nat,
    nfaMatchLoopP P N act w = true ↔
      ∃ p v, p ∈ act ∧ Accepts P v w ∧ Run N.edges p v N.acc := by
  induction w with
  | nil =>
    intro act
    simp only [nfaMatchLoopP, List.contains_iff_mem, accepts_nil_right]
    constructor
    · intro h; exact ⟨_, [], h, rfl, .nil _⟩
    · rintro ⟨p, v, hp, rfl, hr⟩
      cases hr; exact hp
  | cons x xs ih =>
    intro act
    have hmem : ∀ q, q ∈ (act.flatMap (fun q => (symOut N.edges q).flatMap
        (fun (b, r) => if P b x then closure N.edges [r] else []))) ↔
        ∃ p a r, p ∈ act ∧ P a x = true ∧ Edge.sym p a r ∈ N.edges ∧ EpsReach N.edges r q := by
      intro q
      simp only [List.mem_flatMap]
      constructor
      · rintro ⟨p, hp, ⟨b, r⟩, hbr, hq⟩
        by_cases hb : P b x = true
        · simp only [hb, if_true] at hq
          rw [mem_closure_iff] at hq
          obtain ⟨r', hr', hreach⟩ := hq
          simp only [List.mem_singleton] at hr'
          subst hr'
          exact ⟨p, b, _, hp, hb, (mem_symOut _ _ _ _).1 hbr, hreach⟩
        · simp only [hb] at hq; cases hq
      · rintro ⟨p, a, r, hp, ha, he, hreach⟩
        refine ⟨p, hp, (a, r), (mem_symOut _ _ _ _).2 he, ?_⟩
        simp only [ha, if_true]
        rw [mem_closure_iff]
        exact ⟨r, List.mem_singleton.2 rfl, hreach⟩
    rw [nfaMatchLoopP]
    simp only []
    split
    · rename_i hemp
      constructor
      · intro h; cases h
      · rintro ⟨p, v, hp, hv, hr⟩
        obtain ⟨a, v', rfl, ha, hv'⟩ := accepts_cons_right.1 hv
        cases hr with
        | cons he hreach hrest =>
          have := (hmem _).2 ⟨p, a, _, hp, ha, he, hreach⟩
          rw [List.isEmpty_iff] at hemp
          rw [hemp] at this
          cases this
    · rw [ih]
      constructor
      · rintro ⟨q, v, hq, hv, hr⟩
        obtain ⟨p, a, r, hp, ha, he, hreach⟩ := (hmem q).1 hq
        exact ⟨p, a :: v, hp, .cons ha hv, .cons he hreach hr⟩
      · rintro ⟨p, v, hp, hv, hr⟩
        obtain ⟨a, v', rfl, ha, hv'⟩ := accepts_cons_right.1 hv
        cases hr with
        | cons he hreach hrest =>
          exact ⟨_, v', (hmem _).2 ⟨p, a, _, hp, ha, he, hreach⟩, hv', hrest⟩

/-- `nfa_match` over predicates decides membership in the lifted language (for every family of
stateless predicates, disjoint or not) -/
theorem nfaMatchP_iff (P : α → β → Bool) (r : Rx α) (base : Nat) (w : List β) :
    nfaMatchP P r base w = true ↔ LangP P r w := by
  unfold LangP nfaMatchP
  simp only []
  rw [nfaMatchLoopP_iff]
  constructor
  · rintro ⟨p, v, hp, hv, hr⟩
    rw [mem_closure_iff] at hp
    obtain ⟨p0, hp0, hreach⟩ := hp
    simp only [List.mem_singleton] at hp0
    rw [hp0] at hreach
    exact ⟨v, (thompson_correct r base v).1 (path_iff_run.2 ⟨p, hreach, hr⟩), hv⟩
  · rintro ⟨v, hl, hv⟩
    obtain ⟨q, hq, hr⟩ := path_iff_run.1 ((thompson_correct r base v).2 hl)
    exact ⟨q, v, (mem_closure_iff _ _ _).2 ⟨_, List.mem_singleton.2 rfl, hq⟩, hv, hr⟩

end CL
