import CodeLimit.Spec.ProgTree
import CodeLimit.Lemmas.NoclSorted
/-!
# Program trees: the renderer assigns strictly increasing locations

`locate` lays a forest out in the order of its token sequence (`flat_locate`), and the locations
that `place` assigns strictly increase (`posSorted_place`), whatever the `nl` / `col` of the
tokens are.  Hence `PosSorted (render p)` for every forest `p`.
-/
namespace CL

theorem place_append : ∀ (a b : List PTok) (s : Nat × Nat),
    place s (a ++ b) = place s a ++ place (advLoc s a) b
  | [], _, _ => rfl
  | t :: a, b, s => by
    simp only [List.cons_append, place, advLoc, List.foldl_cons]
    rw [place_append a b]
    rfl

theorem length_place : ∀ (l : List PTok) (s : Nat × Nat), (place s l).length = l.length
  | [], _ => rfl
  | t :: l, s => by simp only [place, List.length_cons, length_place l]

/-- the renderer lays the forest out in the order of its token sequence -/
theorem flat_locate : ∀ (p : Prog PTok) (s : Nat × Nat), (locate s p).flat = place s p.flat
  | .nil, _ => rfl
  | .leaf t rest, s => by
    simp only [locate, Prog.flat, place, flat_locate rest]
  | .group op cl items rest, s => by
    simp only [locate, Prog.flat, place, flat_locate items, flat_locate rest, place_append]
  | .fn hdr k gap op cl body rest, s => by
    simp only [locate, Prog.flat, place, flat_locate hdr, flat_locate body, flat_locate rest,
      place_append]

/-- location `s` is strictly before the token `t` -/
def LocLt (s : Nat × Nat) (t : Tok) : Prop := s.1 < t.line ∨ (s.1 = t.line ∧ s.2 < t.col)

theorem locLt_put (s : Nat × Nat) (t : PTok) : LocLt s (t.put s) := by
  unfold LocLt PTok.put
  by_cases h : t.nl = 0
  · rw [if_pos h]; exact .inr ⟨rfl, by simp only; omega⟩
  · rw [if_neg h]; exact .inl (by simp only; omega)

theorem place_spec : ∀ (l : List PTok) (s : Nat × Nat),
    (∀ t ∈ place s l, LocLt s t) ∧ PosSorted (place s l)
  | [], _ => ⟨fun _ h => (by cases h), List.Pairwise.nil⟩
  | t :: l, s => by
    obtain ⟨h1, h2⟩ := place_spec l (t.put s).loc
    have h0 := locLt_put s t
    have h1' : ∀ u ∈ place (t.put s).loc l, LocLt s u ∧ LocLt (t.put s).loc u := by
      intro u hu
      have := h1 u hu
      refine ⟨?_, this⟩
      unfold LocLt Tok.loc at *
      simp only at this
      omega
    refine ⟨fun u hu => ?_, ?_⟩
    · rcases List.mem_cons.mp hu with rfl | hu
      · exact h0
      · exact (h1' u hu).1
    · exact List.pairwise_cons.mpr ⟨fun u hu => (h1' u hu).2, h2⟩

/-- **the locations assigned by the renderer strictly increase** -/
theorem posSorted_place (l : List PTok) (s : Nat × Nat) : PosSorted (place s l) :=
  (place_spec l s).2

theorem posSorted_render (p : Prog PTok) : PosSorted (render p) := by
  unfold render Prog.located
  rw [flat_locate]
  exact posSorted_place _ _

/-- the rendering is the layout of the forest's token sequence from line 1 -/
theorem render_eq (p : Prog PTok) : render p = place (1, 0) p.flat := flat_locate p (1, 0)

/-- kind, type and text of the rendered tokens are those of the forest's tokens -/
theorem place_map : ∀ (l : List PTok) (s : Nat × Nat),
    (place s l).map (fun t => (t.kind, t.ty, t.val)) = l.map (fun t => (t.kind, t.ty, t.val))
  | [], _ => rfl
  | t :: l, s => by
    simp only [place, List.map_cons, place_map l]
    congr 1
    unfold PTok.put
    split <;> rfl

/-! ## files that consist of code tokens only -/

/-- `filter_tokens` keeps a list of code tokens as it is -/
theorem filterTokens_of_allCode {ts : List Tok} (h : ts.all Tok.isCode = true) :
    filterTokens false ts = ts := by
  unfold filterTokens
  rw [List.filter_eq_self]
  intro t ht
  have := List.all_eq_true.mp h t ht
  simp only [Tok.isCode, Bool.and_eq_true, Bool.not_eq_true'] at this
  simp [this.1, this.2]

/-- without comment tokens no line carries a suppression marker -/
theorem not_marked_of_allCode {ts : List Tok} (h : ts.all Tok.isCode = true) (l : Nat) :
    ¬ Marked ts l := by
  rintro ⟨t, ht, hc, _⟩
  have := List.all_eq_true.mp h t ht
  simp only [Tok.isCode, Bool.and_eq_true, Bool.not_eq_true'] at this
  rw [this.2] at hc; cases hc

end CL
