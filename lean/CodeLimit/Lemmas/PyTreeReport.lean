import CodeLimit.Lemmas.PyTreeBasic
import CodeLimit.Lemmas.ProgTreeReport
/-!
# Python indentation trees: the expected report of the layout specification, read off the tree

`ownLines` of the layout specification (token indices, "not inside a function nested in `f`")
has the same distinct lines as the own tokens of the function node (`pyOwnToks`: `def name ( … )`,
the tokens after the parameter list, and the suite tokens that are not inside a nested function
node; the tokens in front of `def` belong to the enclosing function); hence
`expected` = `pyTreeReport`.
-/
namespace CL.PyT

theorem pyFnsOf_bounds (p : PyProg Tok) (i : Nat) (h : p.shapeOK = true) :
    ∀ f ∈ pyFnsOf p i, i ≤ f.hdr.rng.s ∧ f.hdr.rng.s + 3 ≤ f.hdr.rng.e ∧ f.hdr.rng.e < f.body.s ∧
      f.body.s < f.body.e ∧ f.body.e ≤ i + p.size := (pinv_of_shape p i h).fb

/-- the sub-forest with functions `F` at token indices `[lo, hi)` inside a file with functions
`G`: every function of the file is a function of the sub-forest, or lies before it, or after
it, or encloses it (its suite may END with the sub-forest: a nested `def` as last statement) -/
structure PyCtx (G : List Fn) (lo hi : Nat) (F : List Fn) : Prop where
  sub : ∀ f ∈ F, f ∈ G
  cls : ∀ g ∈ G, g ∈ F ∨ g.body.e ≤ lo ∨ hi ≤ g.hdr.rng.s ∨ (g.hdr.rng.s < lo ∧ hi ≤ g.body.e)

theorem PyCtx.top (G : List Fn) (hi : Nat) : PyCtx G 0 hi G :=
  ⟨fun _ h => h, fun _ h => .inl h⟩

theorem PyCtx.restrict {G : List Fn} {lo hi lo' hi' : Nat} {F F' : List Fn}
    (C : PyCtx G lo hi F) (h1 : lo ≤ lo') (h3 : hi' ≤ hi) (hsub : ∀ f ∈ F', f ∈ F)
    (hout : ∀ f ∈ F, f ∈ F' ∨ f.body.e ≤ lo' ∨ hi' ≤ f.hdr.rng.s ∨
      (f.hdr.rng.s < lo' ∧ hi' ≤ f.body.e)) : PyCtx G lo' hi' F' := by
  refine ⟨fun f hf => C.sub f (hsub f hf), ?_⟩
  intro g hg
  rcases C.cls g hg with h | h | h | h
  · exact hout g h
  · exact .inr (.inl (by omega))
  · exact .inr (.inr (.inl (by omega)))
  · exact .inr (.inr (.inr (by omega)))

/-- **the own tokens of a sub-forest**: the lines of the tokens of `b.own` are the lines of the
tokens of the segment that lie in no function of `b` -/
theorem py_own_lines {code : List Tok} : ∀ (b : PyProg Tok) (k : Nat), b.shapeOK = true →
    Seg code k b.flat → ∀ l,
    (l ∈ b.own.map (·.line) ↔ OwnL code (pyFnsOf b k) k (k + b.size) l)
  | .nil, k, _, _, l => by
    simp only [PyProg.own, List.map_nil, List.not_mem_nil, false_iff]
    exact OwnL.empty (by simp [PyProg.size])
  | .line toks rest, k, h, hseg, l => by
    simp only [PyProg.shapeOK] at h
    obtain ⟨hst, hsr⟩ := seg_line hseg
    have hb := pyFnsOf_bounds rest (k + toks.length) h
    have ih := py_own_lines rest (k + toks.length) h hsr l
    simp only [PyProg.own, PyProg.size, pyFnsOf, List.map_append, List.mem_append]
    rw [OwnL.split (mid := k + toks.length) (by omega) (by omega), ih,
      show k + (toks.length + rest.size) = k + toks.length + rest.size by omega]
    refine or_congr ?_ Iff.rfl
    rw [OwnL.congr_sub (S' := []) (fun _ hg => by cases hg)
      (fun g hg => by have := hb g hg; exact .inr (.inl (by omega)))]
    exact (OwnL.seg hst l).symm
  | .block head suite rest, k, h, hseg, l => by
    simp only [PyProg.shapeOK, Bool.and_eq_true] at h
    obtain ⟨hsh, hss, hsr⟩ := seg_block hseg
    have hbs := pyFnsOf_bounds suite (k + head.length) h.1
    have hbr := pyFnsOf_bounds rest (k + head.length + suite.size) h.2
    have ihs := py_own_lines suite (k + head.length) h.1 hss l
    have ihr := py_own_lines rest (k + head.length + suite.size) h.2 hsr l
    simp only [PyProg.own, PyProg.size, pyFnsOf, List.map_append, List.mem_append]
    rw [OwnL.split (mid := k + head.length) (by omega) (by omega),
      OwnL.split (lo := k + head.length) (mid := k + head.length + suite.size) (by omega)
        (by omega),
      ihs, ihr, show k + (head.length + suite.size + rest.size)
        = k + head.length + suite.size + rest.size by omega]
    refine or_congr ?_ (or_congr ?_ ?_)
    · rw [OwnL.congr_sub (S' := []) (fun _ hg => by cases hg) (fun g hg => by
        rcases List.mem_append.mp hg with hg | hg
        · have := hbs g hg; exact .inr (.inl (by omega))
        · have := hbr g hg; exact .inr (.inl (by omega)))]
      exact (OwnL.seg hsh l).symm
    · exact (OwnL.congr_sub (fun g hg => List.mem_append_left _ hg) (fun g hg => by
        rcases List.mem_append.mp hg with hg | hg
        · exact .inl hg
        · have := hbr g hg; exact .inr (.inl (by omega)))).symm
    · exact (OwnL.congr_sub (fun g hg => List.mem_append_right _ hg) (fun g hg => by
        rcases List.mem_append.mp hg with hg | hg
        · have := hbs g hg; exact .inr (.inr (by omega))
        · exact .inl hg)).symm
  | .defn pre kw name params post suite rest, k, h, hseg, l => by
    simp only [PyProg.shapeOK, Bool.and_eq_true, Bool.not_eq_true', decide_eq_true_eq] at h
    obtain ⟨⟨⟨⟨⟨hpa, hpo⟩, _⟩, hsz⟩, hws⟩, hwr⟩ := h
    obtain ⟨hpre, _, _, _, _, _, hsr⟩ := seg_defn hseg
    have hbs := pyFnsOf_bounds suite (k + pre.length + 2 + params.length + post.length) hws
    have hbr := pyFnsOf_bounds rest
      (k + pre.length + 2 + params.length + post.length + suite.size) hwr
    have ihr := py_own_lines rest _ hwr hsr l
    simp only [PyProg.own, PyProg.size, pyFnsOf, List.map_append, List.mem_append]
    rw [OwnL.split (mid := k + pre.length) (by omega) (by omega),
      OwnL.split (lo := k + pre.length)
        (mid := k + pre.length + 2 + params.length + post.length + suite.size) (by omega)
        (by omega), ihr,
      show k + (pre.length + 2 + params.length + post.length + suite.size + rest.size)
        = k + pre.length + 2 + params.length + post.length + suite.size + rest.size by omega]
    have e1 : OwnL code (⟨⟨name, ⟨k + pre.length, k + pre.length + 2 + params.length⟩⟩,
          ⟨k + pre.length + 2 + params.length + post.length,
            k + pre.length + 2 + params.length + post.length + suite.size⟩⟩ ::
        (pyFnsOf suite (k + pre.length + 2 + params.length + post.length) ++
          pyFnsOf rest (k + pre.length + 2 + params.length + post.length + suite.size)))
        k (k + pre.length) l ↔ l ∈ pre.map (·.line) := by
      rw [OwnL.congr_sub (S' := []) (fun _ hg => by cases hg) (fun g hg => by
        rcases List.mem_cons.mp hg with rfl | hg
        · exact .inr (.inl (by simp only; omega))
        · rcases List.mem_append.mp hg with hg | hg
          · have := hbs g hg; exact .inr (.inl (by omega))
          · have := hbr g hg; exact .inr (.inl (by omega)))]
      exact OwnL.seg hpre l
    rw [e1]
    refine or_congr Iff.rfl ?_
    constructor
    · intro hr
      refine .inr ((OwnL.congr_sub
        (fun g hg => List.mem_cons_of_mem _ (List.mem_append_right _ hg)) (fun g hg => ?_)).mpr hr)
      rcases List.mem_cons.mp hg with rfl | hg
      · exact .inr (.inr (by simp only; omega))
      · rcases List.mem_append.mp hg with hg | hg
        · have := hbs g hg; exact .inr (.inr (by omega))
        · exact .inl hg
    · rintro (hl | hr)
      · exact absurd hl (OwnL.covered List.mem_cons_self (by simp only; omega)
          (by simp only; omega))
      · refine (OwnL.congr_sub
          (fun g hg => List.mem_cons_of_mem _ (List.mem_append_right _ hg)) (fun g hg => ?_)).mp hr
        rcases List.mem_cons.mp hg with rfl | hg
        · exact .inr (.inr (by simp only; omega))
        · rcases List.mem_append.mp hg with hg | hg
          · have := hbs g hg; exact .inr (.inr (by omega))
          · exact .inl hg

theorem getLastD_getElem? {α : Type} [Inhabited α] {l : List α} (h : 0 < l.length) :
    l[l.length - 1]? = some (l.getLastD default) := by
  rw [← List.getLast?_eq_getElem?, List.getLastD_eq_getLast?]
  cases hl : l.getLast? with
  | none => rw [List.getLast?_eq_none_iff] at hl; subst hl; simp at h
  | some a => rfl

/-- **the expected report of a sub-forest inside a file with functions `G`** is the tree
report -/
theorem expected_py_ctx {code : List Tok} : ∀ (p : PyProg Tok) (i : Nat), p.shapeOK = true →
    ∀ (G : List Fn), Nested G → PyCtx G i (i + p.size) (pyFnsOf p i) →
    Seg code i p.flat →
    (pyFnsOf p i).map (expected code G) = (pyTreeReport p).map some
  | .nil, _, _, _, _, _, _ => rfl
  | .line toks rest, i, h, G, N, C, hseg => by
    simp only [PyProg.shapeOK] at h
    have hb := pyFnsOf_bounds rest (i + toks.length) h
    have C' : PyCtx G (i + toks.length) (i + toks.length + rest.size)
        (pyFnsOf rest (i + toks.length)) := by
      refine C.restrict (by omega) (by simp only [PyProg.size]; omega) (fun f hf => hf)
        (fun f hf => .inl hf)
    exact expected_py_ctx rest _ h G N C' (seg_line hseg).2
  | .block head suite rest, i, h, G, N, C, hseg => by
    simp only [PyProg.shapeOK, Bool.and_eq_true] at h
    obtain ⟨_, hss, hsr⟩ := seg_block hseg
    have hbs := pyFnsOf_bounds suite (i + head.length) h.1
    have hbr := pyFnsOf_bounds rest (i + head.length + suite.size) h.2
    simp only [pyFnsOf, PyProg.size] at C
    have CS : PyCtx G (i + head.length) (i + head.length + suite.size)
        (pyFnsOf suite (i + head.length)) := by
      refine C.restrict (by omega) (by omega) (fun f hf => List.mem_append_left _ hf)
        (fun f hf => ?_)
      rcases List.mem_append.mp hf with hf | hf
      · exact .inl hf
      · have := hbr f hf; exact .inr (.inr (.inl (by omega)))
    have CR : PyCtx G (i + head.length + suite.size) (i + head.length + suite.size + rest.size)
        (pyFnsOf rest (i + head.length + suite.size)) := by
      refine C.restrict (by omega) (by omega) (fun f hf => List.mem_append_right _ hf)
        (fun f hf => ?_)
      rcases List.mem_append.mp hf with hf | hf
      · have := hbs f hf; exact .inr (.inl (by omega))
      · exact .inl hf
    simp only [pyFnsOf, pyTreeReport, List.map_append,
      expected_py_ctx suite _ h.1 G N CS hss, expected_py_ctx rest _ h.2 G N CR hsr]
  | .defn pre kw name params post suite rest, i, h, G, N, C, hseg => by
    simp only [PyProg.shapeOK, Bool.and_eq_true, Bool.not_eq_true', decide_eq_true_eq] at h
    obtain ⟨⟨⟨⟨⟨hpa, hpo⟩, _⟩, hsz⟩, hws⟩, hwr⟩ := h
    have hpa' : 0 < params.length := by
      cases params with
      | nil => cases hpa
      | cons => simp
    have hpo' : 0 < post.length := by
      cases post with
      | nil => cases hpo
      | cons => simp
    obtain ⟨hpre, hkw, hname, hpar, hpost, hss, hsr⟩ := seg_defn hseg
    have hbs := pyFnsOf_bounds suite (i + pre.length + 2 + params.length + post.length) hws
    have hbr := pyFnsOf_bounds rest
      (i + pre.length + 2 + params.length + post.length + suite.size) hwr
    simp only [pyFnsOf, PyProg.size] at C
    have CS : PyCtx G (i + pre.length + 2 + params.length + post.length)
        (i + pre.length + 2 + params.length + post.length + suite.size)
        (pyFnsOf suite (i + pre.length + 2 + params.length + post.length)) := by
      refine C.restrict (by omega) (by omega)
        (fun f hf => List.mem_cons_of_mem _ (List.mem_append_left _ hf)) (fun f hf => ?_)
      rcases List.mem_cons.mp hf with rfl | hf
      · exact .inr (.inr (.inr ⟨by simp only; omega, by simp only; omega⟩))
      · rcases List.mem_append.mp hf with hf | hf
        · exact .inl hf
        · have := hbr f hf; exact .inr (.inr (.inl (by omega)))
    have CR : PyCtx G (i + pre.length + 2 + params.length + post.length + suite.size)
        (i + pre.length + 2 + params.length + post.length + suite.size + rest.size)
        (pyFnsOf rest (i + pre.length + 2 + params.length + post.length + suite.size)) := by
      refine C.restrict (by omega) (by omega)
        (fun f hf => List.mem_cons_of_mem _ (List.mem_append_right _ hf)) (fun f hf => ?_)
      rcases List.mem_cons.mp hf with rfl | hf
      · exact .inr (.inl (by simp only; omega))
      · rcases List.mem_append.mp hf with hf | hf
        · have := hbs f hf; exact .inr (.inl (by omega))
        · exact .inl hf
    simp only [pyFnsOf, pyTreeReport, List.map_cons, List.map_append,
      expected_py_ctx suite _ hws G N CS hss, expected_py_ctx rest _ hwr G N CR hsr]
    congr 1
    -- the function node itself
    have hlast : code[i + pre.length + 2 + params.length + post.length + suite.size - 1]?
        = some (suite.flat.getLastD default) := by
      have hl : 0 < suite.flat.length := by rw [PyProg.size_eq]; exact hsz
      have := hss.getElem? (k := suite.flat.length - 1) (by omega)
      rw [getLastD_getElem? hl, PyProg.size_eq] at this
      rw [← this]; congr 1; omega
    unfold expected
    rw [expectedWith_node (first := kw) (last := suite.flat.getLastD default)
      (by simp only; omega) hkw hlast]
    simp only [Option.some.injEq, Measurement.mk.injEq, true_and]
    apply countDistinct_congr
    intro l
    rw [mem_ownLines]
    have hown : (∃ j t, i + pre.length ≤ j ∧
        j < i + pre.length + 2 + params.length + post.length + suite.size ∧
        code[j]? = some t ∧ t.line = l ∧ ∀ g ∈ G,
          Fn.encloses ⟨⟨name, ⟨i + pre.length, i + pre.length + 2 + params.length⟩⟩,
            ⟨i + pre.length + 2 + params.length + post.length,
              i + pre.length + 2 + params.length + post.length + suite.size⟩⟩ g = true →
          ¬ (g.hdr.rng.s ≤ j ∧ j < g.body.e))
        ↔ OwnL code (pyFnsOf suite (i + pre.length + 2 + params.length + post.length))
            (i + pre.length) (i + pre.length + 2 + params.length + post.length + suite.size) l := by
      constructor
      · rintro ⟨j, t, a, b, c, d, e⟩
        refine ⟨j, t, a, b, c, d, fun g hg => e g (CS.sub g hg) ?_⟩
        have := hbs g hg
        rw [Fn.encloses_iff]; simp only; omega
      · rintro ⟨j, t, a, b, c, d, e⟩
        refine ⟨j, t, a, b, c, d, fun g hg he => ?_⟩
        rw [Fn.encloses_iff] at he
        simp only at he
        have hne := N.nonempty g hg
        rcases C.cls g hg with h | h | h | h
        · rcases List.mem_cons.mp h with rfl | h
          · simp only at he; omega
          · rcases List.mem_append.mp h with h | h
            · exact e g h
            · have := hbr g h; omega
        · omega
        · omega
        · omega
    simp only at hown ⊢
    rw [hown]
    have hS : ∀ lo hi, hi ≤ i + pre.length + 2 + params.length + post.length →
        (OwnL code (pyFnsOf suite (i + pre.length + 2 + params.length + post.length)) lo hi l ↔
          OwnL code [] lo hi l) := by
      intro lo hi hh
      refine OwnL.congr_sub (fun _ hg => by cases hg) (fun g hg => ?_)
      have := hbs g hg
      exact .inr (.inl (by omega))
    have hsA : Seg code (i + pre.length) (kw :: name :: params) :=
      Seg.cons_iff.mpr ⟨hkw, Seg.cons_iff.mpr ⟨hname, hpar⟩⟩
    rw [OwnL.split (mid := i + pre.length + 2 + params.length) (by omega) (by omega),
      OwnL.split (lo := i + pre.length + 2 + params.length)
        (mid := i + pre.length + 2 + params.length + post.length) (by omega) (by omega),
      hS (i + pre.length) _ (by omega), hS (i + pre.length + 2 + params.length) _ (by omega),
      ← py_own_lines suite _ hws hss l]
    have e1 := OwnL.seg hsA l
    have e2 := OwnL.seg hpost l
    rw [show i + pre.length + (kw :: name :: params).length = i + pre.length + 2 + params.length
      by simp only [List.length_cons]; omega] at e1
    rw [e1, e2]
    simp only [pyOwnToks, List.map_append, List.map_cons, List.mem_append, List.mem_cons,
      or_assoc]

/-- **the expected report of a whole file** -/
theorem expected_pytree {p : PyProg Tok} (h : p.shapeOK = true) (N : Nested (pyFnsOf p 0)) :
    (pyFnsOf p 0).map (expected p.flat (pyFnsOf p 0)) = (pyTreeReport p).map some :=
  expected_py_ctx p 0 h _ N (PyCtx.top _ _) (Seg.self _)

end CL.PyT
