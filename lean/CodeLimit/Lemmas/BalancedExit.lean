import CodeLimit.Lemmas.Headers
import CodeLimit.Spec.Nest
/-!
# Parenthesis-balancing patterns end with the nesting back at zero (C14, last clause)

For a compiled pattern `D` with one `Balanced l r` label `b`:

* `nestDelta l r t` is the change of nesting caused by the token `t` (`+1` for an opener, `-1` for a
  closer that is not an opener, `0` otherwise), `nest l r w` the sum over `w` (both defined in
  `Spec/Nest.lean`);
* `bConsumed D b cfg w` are the tokens of `w` consumed by `b`-labelled transitions of the run of
  `D` over `w` from the configuration `cfg`;
* `balancedExitOk D` is a decidable checker; under it (`ExitOK`), the run of an attempt has two
  phases: before the first `b` transition the depth of `b` is `0` and the state lies in the
  set `noBSet` (reachable without `b`); from the first `b` transition on, *every* transition is
  a `b` transition, and the depth of `b` is `nest` of the tokens consumed since then, never
  negative. An accepting state always has a `b` transition, and `b` at positive depth accepts
  every token, so an attempt that is committed because it cannot continue has depth `0`.
-/
namespace CL

/-! ## the nesting profile -/

/- `nestDelta` and `nest` (the change of nesting depth caused by one token, and its sum over a
token list) are specification vocabulary: they are defined in `Spec/Nest.lean`. -/

theorem nest_append (l r : Pred) (u v : List Tok) : nest l r (u ++ v) = nest l r u + nest l r v := by
  induction u with
  | nil => simp [nest]
  | cons t ts ih => simp only [List.cons_append, nest, ih]; omega

/-- `nest` is literally "#tokens with `l`" minus "#tokens with `¬ l ∧ r`" -/
theorem nest_eq_count (l r : Pred) (w : List Tok) :
    nest l r w = (w.countP (fun t => l.eval t) : Int) -
      (w.countP (fun t => !l.eval t && r.eval t) : Int) := by
  induction w with
  | nil => simp [nest]
  | cons t ts ih =>
    simp only [nest, List.countP_cons, ih, nestDelta]
    cases hl : l.eval t <;> cases hr : r.eval t <;> simp <;> omega

/-! ## `Balanced.accept` and the depth -/

theorem acceptTok_bal_acc {l r : Pred} {ds : Depths} {x : Tok}
    (hd : 0 ≤ getDepth ds (.balanced l r))
    (ha : (acceptTok (.balanced l r) ds x).1 = true) :
    getDepth (acceptTok (.balanced l r) ds x).2 (.balanced l r) =
        getDepth ds (.balanced l r) + nestDelta l r x ∧
      0 ≤ getDepth ds (.balanced l r) + nestDelta l r x ∧
      (getDepth ds (.balanced l r) = 0 → l.eval x = true) := by
  simp only [acceptTok, nestDelta] at ha ⊢
  cases hl : l.eval x
  · cases hr : r.eval x
    · simp only [hl, hr, Bool.false_eq_true, if_false, decide_eq_true_eq] at ha ⊢
      refine ⟨by omega, by omega, by omega⟩
    · simp only [hl, hr, Bool.false_eq_true, if_false, if_true, decide_eq_true_eq] at ha ⊢
      rw [getDepth_setDepth_self]
      refine ⟨by omega, by omega, by omega⟩
  · simp only [if_true]
    rw [getDepth_setDepth_self]
    refine ⟨by omega, by omega, by simp⟩

/-- at positive depth `Balanced` accepts every token -/
theorem acceptTok_bal_pos {l r : Pred} {ds : Depths} (x : Tok)
    (hd : 0 < getDepth ds (.balanced l r)) : (acceptTok (.balanced l r) ds x).1 = true := by
  simp only [acceptTok]
  cases hl : l.eval x
  · cases hr : r.eval x
    · simp only [Bool.false_eq_true, if_false, decide_eq_true_eq]; exact hd
    · simp only [Bool.false_eq_true, if_false, if_true, decide_eq_true_eq]; omega
  · simp

/-- a token that is neither opener nor closer leaves a `Balanced` at depth 0 untouched -/
theorem acceptTok_bal_neutral {l r : Pred} {ds : Depths} {x : Tok} (hl : l.eval x = false)
    (hr : r.eval x = false) (hd : getDepth ds (.balanced l r) = 0) :
    acceptTok (.balanced l r) ds x = (false, ds) := by
  simp [acceptTok, hl, hr, hd]

/-! ## the shape of `consumeAux` on rows with at most one stateful entry -/

theorem consumeAux_pure {x : Tok} {row : List (Pred × DState)} {f f' : Option DState}
    {ds ds' : Depths} (hp : ∀ pt ∈ row, pt.1.isBal = false)
    (h : consumeAux tokAcceptor x row f ds = .ok (f', ds')) :
    ds' = ds ∧ (f' = f ∨ ∃ p g, f' = some g ∧ (p, g) ∈ row ∧ p.eval x = true) := by
  induction row generalizing f with
  | nil =>
    simp only [consumeAux, Except.ok.injEq, Prod.mk.injEq] at h
    exact ⟨h.2.symm, .inl h.1.symm⟩
  | cons pt rest ih =>
    obtain ⟨p, t⟩ := pt
    have e : tokAcceptor.accept p ds x = (p.eval x, ds) :=
      acceptTok_pure (hp (p, t) (List.mem_cons_self ..)) ds x
    have hp' : ∀ pt ∈ rest, pt.1.isBal = false := fun pt hm => hp pt (List.mem_cons_of_mem _ hm)
    simp only [consumeAux, e] at h
    split at h
    · rename_i hacc
      split at h
      · cases h
      · obtain ⟨h1, h2⟩ := ih hp' h
        refine ⟨h1, .inr ?_⟩
        rcases h2 with h2 | ⟨p', g, hg, hm, he⟩
        · exact ⟨p, t, h2, List.mem_cons_self .., hacc⟩
        · exact ⟨p', g, hg, List.mem_cons_of_mem _ hm, he⟩
    · obtain ⟨h1, h2⟩ := ih hp' h
      refine ⟨h1, ?_⟩
      rcases h2 with h2 | ⟨p', g, hg, hm, he⟩
      · exact .inl h2
      · exact .inr ⟨p', g, hg, List.mem_cons_of_mem _ hm, he⟩

/-- does the row have a transition labelled `b`? -/
def hasB (b : Pred) (row : List (Pred × DState)) : Bool := row.any (fun pt => pt.1 == b)

theorem hasB_of_mem {b : Pred} {row : List (Pred × DState)} {t : DState} (h : (b, t) ∈ row) :
    hasB b row = true :=
  List.any_eq_true.2 ⟨_, h, by simp⟩

/-- on a row whose only stateful label is `b`, occurring at most once: the depths change
exactly as `b.accept(x)` changes them (if `b` is in the row), and the reported target belongs
to an entry that accepts `x` *in the configuration before the step* -/
theorem consumeAux_mix {b : Pred} {x : Tok} {row : List (Pred × DState)} {f f' : Option DState}
    {ds ds' : Depths}
    (hpure : ∀ pt ∈ row, pt.1 ≠ b → pt.1.isBal = false)
    (hone : row.Pairwise (fun a c => ¬ (a.1 = b ∧ c.1 = b)))
    (h : consumeAux tokAcceptor x row f ds = .ok (f', ds')) :
    ds' = (if hasB b row then (acceptTok b ds x).2 else ds) ∧
      (f' = f ∨ ∃ p g, f' = some g ∧ (p, g) ∈ row ∧ (acceptTok p ds x).1 = true) := by
  induction row generalizing f with
  | nil =>
    simp only [consumeAux, Except.ok.injEq, Prod.mk.injEq] at h
    exact ⟨by simp [hasB, h.2], .inl h.1.symm⟩
  | cons pt rest ih =>
    obtain ⟨p, t⟩ := pt
    have hone' := List.pairwise_cons.1 hone
    by_cases hpb : p = b
    · subst hpb
      have hrest : ∀ pt ∈ rest, pt.1.isBal = false := by
        intro pt hm
        apply hpure pt (List.mem_cons_of_mem _ hm)
        intro he
        exact hone'.1 pt hm ⟨rfl, he⟩
      have hany : hasB p ((p, t) :: rest) = true := hasB_of_mem (List.mem_cons_self ..)
      rw [hany]
      simp only [consumeAux] at h
      have lift : ∀ {fx : Option DState}, (f' = fx ∨ ∃ q g, f' = some g ∧ (q, g) ∈ rest ∧
          q.eval x = true) → (f' = fx ∨ ∃ q g, f' = some g ∧ (q, g) ∈ (p, t) :: rest ∧
          (acceptTok q ds x).1 = true) := by
        rintro fx (h2 | ⟨q, g, hg, hm, he⟩)
        · exact .inl h2
        · refine .inr ⟨q, g, hg, List.mem_cons_of_mem _ hm, ?_⟩
          rw [acceptTok_pure (hrest (q, g) hm)]; exact he
      split at h
      · rename_i hacc
        split at h
        · cases h
        · obtain ⟨h1, h2⟩ := consumeAux_pure hrest h
          refine ⟨h1, .inr ?_⟩
          rcases lift h2 with h2 | h2
          · exact ⟨p, t, h2, List.mem_cons_self .., hacc⟩
          · exact h2
      · obtain ⟨h1, h2⟩ := consumeAux_pure hrest h
        exact ⟨h1, lift h2⟩
    · have hpp : p.isBal = false := hpure (p, t) (List.mem_cons_self ..) hpb
      have e : tokAcceptor.accept p ds x = (p.eval x, ds) := acceptTok_pure hpp ds x
      have hany : hasB b ((p, t) :: rest) = hasB b rest := by
        simp [hasB, List.any_cons, hpb]
      rw [hany]
      have hpure' : ∀ pt ∈ rest, pt.1 ≠ b → pt.1.isBal = false :=
        fun pt hm => hpure pt (List.mem_cons_of_mem _ hm)
      simp only [consumeAux, e] at h
      split at h
      · rename_i hacc
        split at h
        · cases h
        · obtain ⟨h1, h2⟩ := ih hpure' hone'.2 h
          refine ⟨h1, .inr ?_⟩
          rcases h2 with h2 | ⟨q, g, hg, hm, he⟩
          · exact ⟨p, t, h2, List.mem_cons_self .., by rw [acceptTok_pure hpp]; exact hacc⟩
          · exact ⟨q, g, hg, List.mem_cons_of_mem _ hm, he⟩
      · obtain ⟨h1, h2⟩ := ih hpure' hone'.2 h
        refine ⟨h1, ?_⟩
        rcases h2 with h2 | ⟨q, g, hg, hm, he⟩
        · exact .inl h2
        · exact .inr ⟨q, g, hg, List.mem_cons_of_mem _ hm, he⟩

/-! ## the checker -/

/-- the (first) `Balanced l r` label of the DFA, as the pair `(l, r)` -/
def balPair (D : Dfa Pred) : Option (Pred × Pred) :=
  match D.edges.find? (fun e => e.2.1.isBal) with
  | some (_, .balanced l r, _) => some (l, r)
  | _ => none

def nonBEdges (D : Dfa Pred) (b : Pred) : EdgeL := D.edges.filter (fun e => e.2.1 != b)

/-- states reachable from the start state without a `b`-labelled transition -/
def noBSet (D : Dfa Pred) (b : Pred) : List DState :=
  closeUnder (nonBEdges D b) (D.edges.length + 1) [.start]

/-- the row of a state: after a `b` transition, `b` is the only transition; before, `b` occurs
at most once, all other labels are stateless, and - when `b` is present - accept neither an
opener nor a closer -/
def rowExitOk (D : Dfa Pred) (l r : Pred) (s : DState) (row : List (Pred × DState)) : Bool :=
  if (afterSet D (.balanced l r)).contains s then
    decide (row.length ≤ 1) && row.all (fun pt => pt.1 == .balanced l r)
  else
    pairwiseB (fun a c => !(a.1 == .balanced l r && c.1 == .balanced l r)) row &&
      row.all (fun pt => pt.1 == .balanced l r ||
        (!pt.1.isBal && (!hasB (.balanced l r) row ||
          (!overlapPure pt.1 l && !overlapPure pt.1 r))))

def exitChecks (D : Dfa Pred) (l r : Pred) : Bool :=
  afterOk D (.balanced l r) &&
  (noBSet D (.balanced l r)).contains .start &&
  isClosed (nonBEdges D (.balanced l r)) (noBSet D (.balanced l r)) &&
  (noBSet D (.balanced l r)).all (fun s => !D.isAcc s && !(afterSet D (.balanced l r)).contains s) &&
  D.rows.all (fun rw => rowExitOk D l r rw.1 rw.2) &&
  D.acc.all (fun s => hasB (.balanced l r) (D.row s))

/-- decidable sufficient condition for "a match that ends before the end of the input ends
with the nesting back at zero" -/
def balancedExitOk (D : Dfa Pred) : Bool :=
  match balPair D with
  | some (l, r) => exitChecks D l r
  | none => false

/-- what the checker establishes -/
structure ExitOK (D : Dfa Pred) (l r : Pred) : Prop where
  after : afterOk D (.balanced l r) = true
  start : DState.start ∈ noBSet D (.balanced l r)
  closed : isClosed (nonBEdges D (.balanced l r)) (noBSet D (.balanced l r)) = true
  pre_nacc : ∀ s ∈ noBSet D (.balanced l r), D.isAcc s = false
  disj : ∀ s ∈ noBSet D (.balanced l r), s ∉ afterSet D (.balanced l r)
  rows : ∀ s, rowExitOk D l r s (D.row s) = true
  accRow : ∀ s, D.isAcc s = true → hasB (.balanced l r) (D.row s) = true

theorem exitChecks_spec {D : Dfa Pred} {l r : Pred} (h : exitChecks D l r = true) :
    ExitOK D l r := by
  simp only [exitChecks, Bool.and_eq_true, List.all_eq_true] at h
  obtain ⟨⟨⟨⟨⟨h1, h2⟩, h3⟩, h4⟩, h5⟩, h6⟩ := h
  refine ⟨h1, by simpa using h2, h3, ?_, ?_, ?_, ?_⟩
  · intro s hs; simpa using (h4 s hs).1
  · intro s hs; simpa using (h4 s hs).2
  · intro s
    rcases D.row_cases s with h0 | h0
    · rw [h0]; simp [rowExitOk, pairwiseB]
    · exact h5 _ h0
  · intro s hs
    apply h6
    simpa [Dfa.isAcc] using hs

theorem balancedExitOk_spec {D : Dfa Pred} (h : balancedExitOk D = true) :
    ∃ l r, balPair D = some (l, r) ∧ ExitOK D l r := by
  unfold balancedExitOk at h
  split at h
  · rename_i l r hb
    exact ⟨l, r, hb, exitChecks_spec h⟩
  · cases h

section
variable {D : Dfa Pred} {l r : Pred}

theorem ExitOK.rowPost (ok : ExitOK D l r) {s : DState}
    (hs : s ∈ afterSet D (.balanced l r)) :
    D.row s = [] ∨ ∃ t, D.row s = [(.balanced l r, t)] := by
  have h := ok.rows s
  have hc : (afterSet D (.balanced l r)).contains s = true := by simpa using hs
  simp only [rowExitOk, hc, if_true, Bool.and_eq_true, decide_eq_true_eq, List.all_eq_true] at h
  match hrow : D.row s, h with
  | [], _ => exact .inl rfl
  | [(p, t)], h =>
    have : p = .balanced l r := by simpa using h.2 (p, t) (by simp)
    subst this
    exact .inr ⟨t, rfl⟩
  | _ :: _ :: _, h => simp at h

theorem ExitOK.rowPre (ok : ExitOK D l r) {s : DState}
    (hs : s ∉ afterSet D (.balanced l r)) :
    (D.row s).Pairwise (fun a c => ¬ (a.1 = .balanced l r ∧ c.1 = .balanced l r)) ∧
    ∀ pt ∈ D.row s, pt.1 ≠ .balanced l r → pt.1.isBal = false ∧
      (hasB (.balanced l r) (D.row s) = true →
        overlapPure pt.1 l = false ∧ overlapPure pt.1 r = false) := by
  have h := ok.rows s
  have hc : (afterSet D (.balanced l r)).contains s = false := by simpa using hs
  simp only [rowExitOk, hc, Bool.false_eq_true, if_false, Bool.and_eq_true,
    List.all_eq_true] at h
  refine ⟨(pairwiseB_sound h.1).imp ?_, ?_⟩
  · intro a c hac ⟨h1, h2⟩
    simp [h1, h2] at hac
  · intro pt hm hne
    have := h.2 pt hm
    simp only [Bool.or_eq_true, beq_iff_eq, hne, false_or, Bool.and_eq_true,
      Bool.not_eq_true'] at this
    refine ⟨this.1, fun hb => ?_⟩
    rcases this.2 with h' | h'
    · rw [hb] at h'; cases h'
    · exact h'

/-! ## tokens consumed by `b` transitions -/

/-- the step from `cfg` on `x` is through the `b`-labelled transition: the current row has a
`b` transition and `b` accepts `x` (see `takesB_iff`) -/
def takesB (D : Dfa Pred) (b : Pred) (cfg : DState × Depths) (x : Tok) : Bool :=
  hasB b (D.row cfg.1) && (acceptTok b cfg.2 x).1

/-- the tokens of `w` consumed by `b`-labelled transitions in the run from `cfg` -/
def bConsumed (D : Dfa Pred) (b : Pred) : DState × Depths → List Tok → List Tok
  | _, [] => []
  | cfg, x :: xs =>
    match (dfaMachine D tokAcceptor).step cfg x with
    | .ok (some cfg') =>
      if takesB D b cfg x then x :: bConsumed D b cfg' xs else bConsumed D b cfg' xs
    | _ => []

/-! ## one step, in each of the two phases -/

/-- after a `b` transition: every step is a `b` step and the depth follows `nestDelta` -/
theorem step_post (ok : ExitOK D l r) {s : DState} {ds : Depths} {x : Tok}
    {cfg' : DState × Depths} (hs : s ∈ afterSet D (.balanced l r))
    (hd : 0 ≤ getDepth ds (.balanced l r))
    (h : (dfaMachine D tokAcceptor).step (s, ds) x = .ok (some cfg')) :
    takesB D (.balanced l r) (s, ds) x = true ∧ (.balanced l r, cfg'.1) ∈ D.row s ∧
      cfg'.1 ∈ afterSet D (.balanced l r) ∧
      getDepth cfg'.2 (.balanced l r) = getDepth ds (.balanced l r) + nestDelta l r x ∧
      0 ≤ getDepth ds (.balanced l r) + nestDelta l r x ∧
      (getDepth ds (.balanced l r) = 0 → l.eval x = true) := by
  rcases ok.rowPost hs with hrow | ⟨t, hrow⟩
  · simp [dfaMachine, consume, consumeAux, hrow] at h
  · cases hacc : (acceptTok (.balanced l r) ds x).1
    · simp [dfaMachine, consume, consumeAux, hrow, tokAcceptor, hacc] at h
    · simp only [dfaMachine, consume, consumeAux, hrow, tokAcceptor, hacc, if_true,
        Option.isSome_none, Bool.false_eq_true, if_false, Except.ok.injEq,
        Option.some.injEq] at h
      subst h
      have hm : (Pred.balanced l r, t) ∈ D.row s := by rw [hrow]; simp
      refine ⟨by simp [takesB, hasB_of_mem hm, hacc], hm,
        afterOk_seed ok.after (Dfa.mem_edges_of_row hm), ?_⟩
      exact acceptTok_bal_acc hd hacc

/-- before the first `b` transition (depth 0): either the step is not a `b` step, stays in
`noBSet` and leaves the depth at 0, or it is the first `b` step, on an opener, to depth 1 -/
theorem step_pre (ok : ExitOK D l r) {s : DState} {ds : Depths} {x : Tok}
    {cfg' : DState × Depths} (hs : s ∈ noBSet D (.balanced l r))
    (hd : getDepth ds (.balanced l r) = 0)
    (h : (dfaMachine D tokAcceptor).step (s, ds) x = .ok (some cfg')) :
    (takesB D (.balanced l r) (s, ds) x = false ∧ cfg'.1 ∈ noBSet D (.balanced l r) ∧
        getDepth cfg'.2 (.balanced l r) = 0) ∨
    (takesB D (.balanced l r) (s, ds) x = true ∧ (.balanced l r, cfg'.1) ∈ D.row s ∧
        cfg'.1 ∈ afterSet D (.balanced l r) ∧ l.eval x = true ∧
        getDepth cfg'.2 (.balanced l r) = 1) := by
  have haux := step_eq h
  obtain ⟨hone, hpure⟩ := ok.rowPre (ok.disj s hs)
  obtain ⟨hds, htgt⟩ := consumeAux_mix (b := .balanced l r)
    (fun pt hm hne => (hpure pt hm hne).1) hone haux
  rcases htgt with h0 | ⟨p, g, hg, hm, hacc⟩
  · cases h0
  · simp only [Option.some.injEq] at hg
    subst hg
    by_cases hpb : p = .balanced l r
    · subst hpb
      right
      have hb := hasB_of_mem hm
      simp only [hb, if_true] at hds
      obtain ⟨h1, _, h3⟩ := acceptTok_bal_acc (Int.le_of_eq hd.symm) hacc
      have hl := h3 hd
      refine ⟨by simp [takesB, hb, hacc], hm,
        afterOk_seed ok.after (Dfa.mem_edges_of_row hm), hl, ?_⟩
      rw [hds, h1, hd]
      simp [nestDelta, hl]
    · left
      obtain ⟨hpp, hov⟩ := hpure (p, cfg'.1) hm hpb
      have hpe : p.eval x = true := by rw [acceptTok_pure hpp] at hacc; exact hacc
      have hin : cfg'.1 ∈ noBSet D (.balanced l r) := by
        have he : (s, p, cfg'.1) ∈ nonBEdges D (.balanced l r) := by
          simp only [nonBEdges, List.mem_filter]
          exact ⟨Dfa.mem_edges_of_row hm, by simpa using hpb⟩
        exact isClosed_sound ok.closed he hs
      cases hb : hasB (.balanced l r) (D.row s)
      · simp only [hb, Bool.false_eq_true, if_false] at hds
        exact ⟨by simp [takesB, hb], hin, by rw [hds]; exact hd⟩
      · obtain ⟨ho1, ho2⟩ := hov hb
        have hl : l.eval x = false := by
          cases hl : l.eval x
          · rfl
          · exact absurd ⟨hpe, hl⟩ (overlapPure_sound ho1 x)
        have hr : r.eval x = false := by
          cases hr : r.eval x
          · rfl
          · exact absurd ⟨hpe, hr⟩ (overlapPure_sound ho2 x)
        have hn := acceptTok_bal_neutral hl hr hd
        simp only [hb, if_true, hn] at hds
        exact ⟨by simp [takesB, hn], hin, by rw [hds]; exact hd⟩

/-! ## whole runs -/

/-- the profile facts of a run that starts at depth `d` after a `b` transition, consumes `w`
and ends at depth `dEnd` -/
structure PostFacts (l r : Pred) (d : Int) (w : List Tok) (dEnd : Int) : Prop where
  /-- the depth tracks the nesting profile -/
  depth : dEnd = d + nest l r w
  /-- the nesting never becomes negative -/
  nonneg : ∀ p, p <+: w → 0 ≤ d + nest l r p
  /-- whenever the nesting is back at zero the next consumed token is an opener -/
  opener : ∀ p y rest, w = p ++ y :: rest → d + nest l r p = 0 → l.eval y = true

theorem PostFacts.nil (l r : Pred) {d : Int} (hd : 0 ≤ d) : PostFacts l r d [] d where
  depth := by simp [nest]
  nonneg := by
    intro p hp
    have : p = [] := List.prefix_nil.1 hp
    subst this; simpa [nest] using hd
  opener := by intro p y rest h; simp at h

theorem PostFacts.cons {l r : Pred} {d e : Int} {x : Tok} {xs : List Tok}
    (h : PostFacts l r (d + nestDelta l r x) xs e) (hd : 0 ≤ d) (hx : d = 0 → l.eval x = true) :
    PostFacts l r d (x :: xs) e where
  depth := by rw [h.depth]; simp only [nest]; omega
  nonneg := by
    intro p hp
    rcases List.prefix_cons_iff.1 hp with rfl | ⟨t, rfl, ht⟩
    · simpa [nest] using hd
    · have := h.nonneg t ht
      simp only [nest]; omega
  opener := by
    intro p y rest hw hz
    cases p with
    | nil =>
      simp only [List.nil_append, List.cons.injEq] at hw
      rw [← hw.1]
      exact hx (by simpa [nest] using hz)
    | cons a p' =>
      simp only [List.cons_append, List.cons.injEq] at hw
      obtain ⟨rfl, hw⟩ := hw
      exact h.opener p' y rest hw (by simp only [nest] at hz; omega)

theorem run_post (ok : ExitOK D l r) (w : List Tok) {s : DState} {ds : Depths}
    {q : DState × Depths} (hs : s ∈ afterSet D (.balanced l r))
    (hd : 0 ≤ getDepth ds (.balanced l r))
    (hr : runM (dfaMachine D tokAcceptor) (s, ds) w = some q) :
    q.1 ∈ afterSet D (.balanced l r) ∧ bConsumed D (.balanced l r) (s, ds) w = w ∧
      PostFacts l r (getDepth ds (.balanced l r)) w (getDepth q.2 (.balanced l r)) := by
  induction w generalizing s ds with
  | nil =>
    simp only [runM, Option.some.injEq] at hr
    subst hr
    exact ⟨hs, rfl, PostFacts.nil l r hd⟩
  | cons x xs ih =>
    simp only [runM] at hr
    split at hr
    · rename_i cfg' hstep
      obtain ⟨cs, cds⟩ := cfg'
      obtain ⟨h1, _, h3, h4, h5, h6⟩ := step_post ok hs hd hstep
      obtain ⟨i1, i2, i3⟩ := ih h3 (by rw [h4]; exact h5) hr
      refine ⟨i1, ?_, ?_⟩
      · simp only [bConsumed, hstep, h1, if_true, i2]
      · rw [h4] at i3
        exact i3.cons hd h6
    · cases hr

theorem run_pre (ok : ExitOK D l r) (w : List Tok) {s : DState} {ds : Depths}
    {q : DState × Depths} (hs : s ∈ noBSet D (.balanced l r))
    (hd : getDepth ds (.balanced l r) = 0)
    (hr : runM (dfaMachine D tokAcceptor) (s, ds) w = some q) :
    ∃ pre suf, w = pre ++ suf ∧ bConsumed D (.balanced l r) (s, ds) pre = [] ∧
      bConsumed D (.balanced l r) (s, ds) w = suf ∧
      PostFacts l r 0 suf (getDepth q.2 (.balanced l r)) ∧
      (suf = [] → q.1 ∈ noBSet D (.balanced l r)) ∧
      (suf ≠ [] → q.1 ∈ afterSet D (.balanced l r)) := by
  induction w generalizing s ds with
  | nil =>
    simp only [runM, Option.some.injEq] at hr
    subst hr
    refine ⟨[], [], rfl, rfl, rfl, ?_, fun _ => hs, fun h => absurd rfl h⟩
    rw [hd]; exact PostFacts.nil l r (Int.le_refl 0)
  | cons x xs ih =>
    simp only [runM] at hr
    split at hr
    · rename_i cfg' hstep
      obtain ⟨cs, cds⟩ := cfg'
      rcases step_pre ok hs hd hstep with ⟨h1, h2, h3⟩ | ⟨h1, _, h3, h4, h5⟩
      · obtain ⟨pre, suf, e1, e2, e3, e4, e5, e6⟩ := ih h2 h3 hr
        refine ⟨x :: pre, suf, by rw [e1]; rfl, ?_, ?_, e4, e5, e6⟩
        · simp only [bConsumed, hstep, h1, Bool.false_eq_true, if_false, e2]
        · simp only [bConsumed, hstep, h1, Bool.false_eq_true, if_false, e3]
      · obtain ⟨i1, i2, i3⟩ := run_post ok xs h3 (by rw [h5]; decide) hr
        refine ⟨[], x :: xs, rfl, rfl, ?_, ?_, (fun h => by cases h), fun _ => i1⟩
        · simp only [bConsumed, hstep, h1, if_true, i2]
        · have hdel : nestDelta l r x = 1 := by simp [nestDelta, h4]
          rw [h5] at i3
          refine PostFacts.cons (d := 0) ?_ (Int.le_refl 0) (fun _ => h4)
          rw [hdel]; exact i3
    · cases hr

/-! ## reachable configurations -/

/-- every reachable configuration is in one of the two phases -/
theorem reach_phase (ok : ExitOK D l r) {cfg : DState × Depths} (h : Reach D cfg) :
    (cfg.1 ∈ noBSet D (.balanced l r) ∧ getDepth cfg.2 (.balanced l r) = 0) ∨
    (cfg.1 ∈ afterSet D (.balanced l r) ∧ 0 ≤ getDepth cfg.2 (.balanced l r)) := by
  induction h with
  | init => exact .inl ⟨ok.start, rfl⟩
  | @step cfg cfg' tok _ hstep ih =>
    obtain ⟨s, ds⟩ := cfg
    rcases ih with ⟨hs, hd⟩ | ⟨hs, hd⟩
    · rcases step_pre ok hs hd hstep with ⟨_, h2, h3⟩ | ⟨_, _, h3, _, h5⟩
      · exact .inl ⟨h2, h3⟩
      · exact .inr ⟨h3, by rw [h5]; decide⟩
    · obtain ⟨_, _, h3, h4, h5, _⟩ := step_post ok hs hd hstep
      exact .inr ⟨h3, by rw [h4]; exact h5⟩

/-- the nesting depth is never negative while an attempt is alive -/
theorem reach_depth_nonneg (ok : ExitOK D l r) {cfg : DState × Depths} (h : Reach D cfg) :
    0 ≤ getDepth cfg.2 (.balanced l r) := by
  rcases reach_phase ok h with ⟨_, hd⟩ | ⟨_, hd⟩
  · rw [hd]; decide
  · exact hd

/-- `takesB` is exactly "the step goes through the `b`-labelled transition" -/
theorem takesB_iff (ok : ExitOK D l r) {cfg cfg' : DState × Depths} {x : Tok}
    (h : Reach D cfg) (hstep : (dfaMachine D tokAcceptor).step cfg x = .ok (some cfg')) :
    takesB D (.balanced l r) cfg x = true ↔ (.balanced l r, cfg'.1) ∈ D.row cfg.1 := by
  obtain ⟨s, ds⟩ := cfg
  rcases reach_phase ok h with ⟨hs, hd⟩ | ⟨hs, hd⟩
  · rcases step_pre ok hs hd hstep with ⟨h1, h2, _⟩ | ⟨h1, h2, _⟩
    · constructor
      · intro ht; rw [h1] at ht; cases ht
      · intro hm
        exact absurd (afterOk_seed ok.after (Dfa.mem_edges_of_row hm)) (ok.disj _ h2)
    · exact ⟨fun _ => h2, fun _ => h1⟩
  · obtain ⟨h1, h2, _⟩ := step_post ok hs hd hstep
    exact ⟨fun _ => h2, fun _ => h1⟩

/-! ## reported matches -/

/-- everything about the nesting profile of a reported match -/
theorem match_exit (ok : ExitOK D l r) {toks : List Tok} {ms : List (Match Tok)}
    (hms : findAll (dfaMachine D tokAcceptor) toks = .ok ms) {m : Match Tok} (hm : m ∈ ms) :
    ∃ q pre, runM (dfaMachine D tokAcceptor) (.start, []) m.toks = some q ∧
      D.isAcc q.1 = true ∧
      m.toks = pre ++ bConsumed D (.balanced l r) (.start, []) m.toks ∧
      bConsumed D (.balanced l r) (.start, []) pre = [] ∧
      bConsumed D (.balanced l r) (.start, []) m.toks ≠ [] ∧
      PostFacts l r 0 (bConsumed D (.balanced l r) (.start, []) m.toks)
        (getDepth q.2 (.balanced l r)) ∧
      (m.e < toks.length → getDepth q.2 (.balanced l r) = 0) := by
  have hnn : (dfaMachine D tokAcceptor).acc (dfaMachine D tokAcceptor).init = false :=
    ok.pre_nacc _ ok.start
  obtain ⟨hg, ht⟩ := (findAll_spec hnn (dfaMachine_deadStuck D tokAcceptor) hms).1 m hm
  obtain ⟨_, _, q, hr, hacc, hend⟩ := hg
  rw [← ht] at hr
  have hr' : runM (dfaMachine D tokAcceptor) (.start, []) m.toks = some q := hr
  have hacc' : D.isAcc q.1 = true := hacc
  obtain ⟨pre, suf, e1, e2, e3, e4, e5, e6⟩ := run_pre ok m.toks ok.start rfl hr'
  have hne : suf ≠ [] := by
    intro h
    have := ok.pre_nacc _ (e5 h)
    rw [hacc'] at this; cases this
  have hin := e6 hne
  refine ⟨q, pre, hr', hacc', by rw [e3]; exact e1, e2, by rw [e3]; exact hne,
    by rw [e3]; exact e4, ?_⟩
  intro hlt
  have hge : 0 ≤ getDepth q.2 (.balanced l r) := by
    have := e4.nonneg suf (List.prefix_refl _)
    rw [e4.depth]; exact this
  have hb := ok.accRow _ hacc'
  obtain ⟨qs, qds⟩ := q
  rcases ok.rowPost hin with hrow | ⟨t, hrow⟩
  · rw [hrow] at hb; cases hb
  · have hstuck : ∃ x, (dfaMachine D tokAcceptor).step (qs, qds) x = .ok none := by
      rcases hend with h | h | ⟨x, _, hx⟩
      · omega
      · have : (D.row qs).isEmpty = true := h
        rw [hrow] at this; cases this
      · exact ⟨x, hx⟩
    obtain ⟨x, hx⟩ := hstuck
    have hrej : (acceptTok (.balanced l r) qds x).1 = false := by
      cases hacc : (acceptTok (.balanced l r) qds x).1
      · rfl
      · simp [dfaMachine, consume, consumeAux, hrow, tokAcceptor, hacc] at hx
    have hle : ¬ 0 < getDepth qds (.balanced l r) := by
      intro hpos
      rw [acceptTok_bal_pos x hpos] at hrej; cases hrej
    show getDepth qds (.balanced l r) = 0
    have hge' : 0 ≤ getDepth qds (.balanced l r) := hge
    omega

end

/-! ## checker bundle for header patterns, executable witness -/

def patExitOk (hp : HeaderPat) : Bool :=
  match compileTok hp.expr with
  | .ok D => balancedExitOk D
  | .error _ => false

theorem patExitOk_spec {hp : HeaderPat} (h : patExitOk hp = true) {D : Dfa Pred}
    (hD : compileTok hp.expr = .ok D) : ∃ l r, balPair D = some (l, r) ∧ ExitOK D l r := by
  unfold patExitOk at h
  rw [hD] at h
  exact balancedExitOk_spec h

/-- `find_all` with the compiled pattern `r` reports on `toks` a match `(s, e)` whose
`b`-consumed tokens have nesting profile `n` -/
def exitWitness (rx : Rx Pred) (toks : List Tok) (s e : Nat) (n : Int) : Bool :=
  match compileTok rx with
  | .ok D =>
    (match balPair D, findAll (dfaMachine D tokAcceptor) toks with
      | some (l, r), .ok ms =>
        ms.any (fun m => m.s == s && m.e == e &&
          nest l r (bConsumed D (.balanced l r) (.start, []) m.toks) == n)
      | _, _ => false)
  | .error _ => false

theorem exitWitness_spec {rx : Rx Pred} {toks : List Tok} {s e : Nat} {n : Int}
    (h : exitWitness rx toks s e n = true) :
    ∃ D l r ms, compileTok rx = .ok D ∧ balPair D = some (l, r) ∧
      findAll (dfaMachine D tokAcceptor) toks = .ok ms ∧
      ∃ m ∈ ms, m.s = s ∧ m.e = e ∧
        nest l r (bConsumed D (.balanced l r) (.start, []) m.toks) = n := by
  unfold exitWitness at h
  split at h
  · rename_i D hD
    split at h
    · rename_i l r ms hb hms
      obtain ⟨m, hm, hc⟩ := List.any_eq_true.1 h
      simp only [Bool.and_eq_true, beq_iff_eq] at hc
      exact ⟨D, l, r, ms, hD, hb, hms, m, hm, hc.1.1, hc.1.2, hc.2⟩
    · cases h
  · cases h

end CL
