import CodeLimit.Lemmas.ProgTreeCanonTree
import CodeLimit.Props.C01syn
/-!
# Canonical forests: `extract_headers` finds exactly the headers of the function nodes

The discovery hypothesis of `C01tree.scan_of_tree_partial`, discharged for the canonical fragments
`Prog.Canon` (languages of `C01syn.cFamily`) and `Prog.CanonJava` (`Gen.java`):

* `cfgC_sound`, `cfgJava_sound` - the tree-level tests of the two fragments are sound for the
  token-level follow-up tests `folC` (`{`) and `folJava` (`{` or `throws … {`);
* `canon_header_sound`, `java_header_sound'` - every reported header is the header of a function
  node (from `C01syn.c_header_sound` / `java_header_sound` and `synHdrsG_file`);
* `canon_header_complete`, `java_header_complete'` - the header of every function node is reported
  (from `fn_located`, `header_in_context` and `C01syn.c_header_complete` / `java_header_complete`);
* `canon_headers_eq`, `java_headers_eq` - the reported headers are the headers of the function
  nodes, in source order.
-/
namespace CL
open CL.Syn CL.C01syn

/-! ## the token-level follow-up tests -/

/-- C family: the next token is the symbol `{` -/
def folC (l : List Tok) : Bool := l.head?.any (·.isSymbol [123])

/-- Java: the next token is the symbol `{`, or the keyword `throws` with a symbol `{` before any
other `;` / `{` in the rest -/
def folJava : List Tok → Bool
  | [] => false
  | t :: r => t.isSymbol [123] || (t.isKw kwThrows && braceAhead r)

theorem folC_iff (toks : List Tok) (e : Nat) : folC (toks.drop e) = true ↔ SymbolAt toks e [123] := by
  unfold folC SymbolAt
  rw [List.head?_drop]
  cases toks[e]? <;> simp

theorem folJava_iff (toks : List Tok) (e : Nat) :
    folJava (toks.drop e) = true ↔ JavaFollow toks e := by
  unfold JavaFollow SymbolAt KeywordAt
  cases hd : toks.drop e with
  | nil =>
    have hnone : toks[e]? = none := by
      rw [List.getElem?_eq_none_iff]; exact List.drop_eq_nil_iff.1 hd
    simp [folJava, hnone]
  | cons x xs =>
    have hx : toks[e]? = some x := getElem?_of_drop_cons hd
    have hxs : toks.drop (e + 1) = xs := by
      have := drop_eq_cons hx
      rw [hd] at this
      exact (List.cons.inj this).2.symm
    simp only [folJava, hx, Option.some.injEq, exists_eq_left', hxs, Bool.or_eq_true,
      Bool.and_eq_true, Tok.isKw, kwThrows]

/-! ## soundness of the tree-level tests -/

theorem kok_folC {k : List Tok} (hk : KOK k) : folC k = false := by
  cases k with
  | nil => rfl
  | cons t ts => simp [folC, (rbrace_facts (hk t (by simp))).2.2.2]

theorem leaf_not_lbrace {t : Tok} {rest : Prog Tok} (h : (Prog.leaf t rest).wfCore = true) :
    t.isSymbol [123] = false := by
  simp only [Prog.wfCore, Bool.and_eq_true] at h
  exact (Tok.noBrace_iff.1 h.1).1

theorem headerOK0_iff {h : List Tok} {k : Nat} :
    headerOK0 h k = true ↔ headerOK h = true ∧ k = 0 := by
  simp [headerOK0]

theorem headerOK0_sound {ex : Tok → Bool} {h : List Tok} {k : Nat} (hh : headerOK0 h k = true) :
    headerOK (h.drop k) = true ∧
      ∀ t ∈ h.take k, t.isName = false ∧ t.noParen = true ∧ ex t = false := by
  obtain ⟨h1, rfl⟩ := headerOK0_iff.1 hh
  exact ⟨h1, fun t ht => by simp at ht⟩

theorem cfgC_sound : CfgSound cfgC folC where
  hdr := fun _ _ h => headerOK0_sound h
  gap_noParen := by
    intro g hg t ht
    have : g = [] := by simpa [cfgC] using hg
    subst this; cases ht
  gap_fol := by
    intro g op Y hg hop
    have : g = [] := by simpa [cfgC] using hg
    subst this
    simpa [folC] using hop
  fol_sound := by
    intro q ex k hw hc hk hf
    cases q with
    | nil => rw [Prog.flat, List.nil_append, kok_folC hk] at hf; cases hf
    | leaf t rest =>
      simp [Prog.flat, folC, leaf_not_lbrace hw] at hf
    | group op cl items rest => rfl
    | fn hdr j gap op cl body rest =>
      obtain ⟨_, hH, _⟩ := canonWith_fn hc
      obtain ⟨n, o, g, hflat, hn, _⟩ := headerShape_cases (headerOK_shape (headerOK0_iff.1 hH).1)
      rw [flat_fn_append, hflat] at hf
      simp [folC, name_not_symbol hn] at hf
  exempt_punct := fun _ _ => rfl
  joins_punct := fun _ _ => rfl

theorem isKw_kind {t : Tok} {s : Str} (h : t.isKw s = true) : t.kind = 1 := by
  simp only [Tok.isKw, Tok.isKeyword, Bool.and_eq_true, beq_iff_eq] at h
  exact h.1

/-- a `throws` clause followed by the symbol `{`: the symbol comes before any other `;` / `{` -/
theorem braceAhead_gap {op : Tok} (Y : List Tok) (hop : op.isSymbol [123] = true) :
    ∀ (ts : List Tok), ts.all Tok.gapTok = true → braceAhead (ts ++ op :: Y) = true
  | [], _ => by simp [braceAhead, hop]
  | t :: ts, h => by
    simp only [List.all_cons, Bool.and_eq_true] at h
    have ht := h.1
    simp only [Tok.gapTok, Bool.and_eq_true, Bool.not_eq_true', beq_eq_false_iff_ne, ne_eq] at ht
    have h1 : t.isSymbol [123] = false := by
      simp only [Tok.isSymbol, Bool.and_eq_false_iff, beq_eq_false_iff_ne, ne_eq]
      exact .inr ht.2
    have h2 : (t.val == [59] || t.val == [123]) = false := by
      simp [ht.1.2, ht.2]
    rw [List.cons_append, braceAhead, h1, h2]
    simp only [Bool.false_eq_true, if_false]
    exact braceAhead_gap Y hop ts h.2

/-- if a symbol `{` comes before any other `;` / `{` in the token sequence of the siblings `q`
followed by a closing brace (or nothing), then no `;` / `{` comes among the leading tokens of `q` -/
theorem noSemiAhead_of_braceAhead : ∀ (q : Prog Tok) (k : List Tok), q.wfCore = true →
    braceAhead (q.flat ++ k) = true → q.noSemiAhead = true
  | .nil, _, _, _ => rfl
  | .group .., _, _, _ => rfl
  | .fn .., _, _, _ => rfl
  | .leaf t rest, k, hw, h => by
    have h1 := leaf_not_lbrace hw
    simp only [Prog.wfCore, Bool.and_eq_true] at hw
    rw [Prog.flat, List.cons_append, braceAhead, h1] at h
    simp only [Bool.false_eq_true, if_false] at h
    cases hv : (t.val == [59] || t.val == [123])
    · rw [hv] at h
      simp only [Bool.false_eq_true, if_false] at h
      simp only [Prog.noSemiAhead, hv, Bool.not_false, Bool.true_and]
      exact noSemiAhead_of_braceAhead rest k hw.2 h
    · rw [hv] at h; simp at h

theorem kok_folJava {k : List Tok} (hk : KOK k) : folJava k = false := by
  cases k with
  | nil => rfl
  | cons t ts =>
    have h := hk t (by simp)
    have hk3 := (isSymbol_iff.1 h).1
    simp [folJava, (rbrace_facts h).2.2.2, Tok.isKw, Tok.isKeyword, hk3]

theorem cfgJava_sound : CfgSound cfgJava folJava where
  hdr := fun _ _ h => headerOK0_sound h
  gap_noParen := by
    intro g hg t ht
    cases g with
    | nil => cases ht
    | cons a as =>
      simp only [cfgJava, javaGapOK, Bool.and_eq_true, List.all_eq_true] at hg
      rcases List.mem_cons.1 ht with rfl | ht
      · have hk := isKw_kind hg.1
        have hv : t.val = kwThrows := by
          have := hg.1
          simp only [Tok.isKw, Bool.and_eq_true, beq_iff_eq] at this
          exact this.2
        simp [Tok.noParen, isOpen, isClose, Tok.isSymbol, hk]
      · have := hg.2 t ht
        simp only [Tok.gapTok, Bool.and_eq_true] at this
        exact this.1.1
  gap_fol := by
    intro g op Y hg hop
    cases g with
    | nil => simp [folJava, hop]
    | cons a as =>
      simp only [cfgJava, javaGapOK, Bool.and_eq_true] at hg
      simp only [List.cons_append, folJava, hg.1, braceAhead_gap Y hop as hg.2, Bool.and_self,
        Bool.or_true]
  fol_sound := by
    intro q ex k hw hc hk hf
    cases q with
    | nil => rw [Prog.flat, List.nil_append, kok_folJava hk] at hf; cases hf
    | leaf t rest =>
      have h1 := leaf_not_lbrace hw
      simp only [Prog.wfCore, Bool.and_eq_true] at hw
      simp only [Prog.flat, List.cons_append, folJava, h1, Bool.false_or, Bool.and_eq_true] at hf
      simp only [cfgJava, Prog.javaFollows, hf.1, Bool.true_and]
      exact noSemiAhead_of_braceAhead rest k hw.2 hf.2
    | group op cl items rest => rfl
    | fn hdr j gap op cl body rest =>
      obtain ⟨_, hH, _⟩ := canonWith_fn hc
      obtain ⟨n, o, g, hflat, hn, _⟩ := headerShape_cases (headerOK_shape (headerOK0_iff.1 hH).1)
      have hk2 : n.kind = 2 := by simpa [Tok.isName] using hn
      rw [flat_fn_append, hflat] at hf
      simp [folJava, name_not_symbol hn, Tok.isKw, Tok.isKeyword, hk2] at hf
  exempt_punct := by
    intro t ht
    simp [cfgJava, javaExempt, Tok.isKw, Tok.isKeyword, ht]
  joins_punct := fun _ _ => rfl

/-! ## sorted lists of headers -/

/-- the functions of a well-formed forest start at strictly increasing token indices -/
theorem fns_sorted_of_wf {p : Prog Tok} (hw : p.wfCore = true) (ha : p.noAdj = true) :
    (p.fns.map (·.hdr)).Pairwise (fun a b => a.rng.s < b.rng.s) := by
  rw [List.pairwise_map]
  exact (tinv_of_wf p 0 (Prog.wf_of hw ha)).fnLayout.fns_sorted

/-- the headers of a language with a single header pattern come out in source order -/
theorem single_pattern_sorted {L : Language} (hL : L ∈ Gen.all.map (·.2)) {hp : HeaderPat}
    (hpats : L.pats = [hp]) {toks : List Tok} {hs : List Header}
    (h : extractHeaders L toks = .ok hs) : hs.Pairwise (fun a b => a.rng.s < b.rng.s) := by
  obtain ⟨hs0, h0, hsub⟩ := extractHeaders_sub h
  refine List.Pairwise.sublist hsub ?_
  rw [hpats] at h0
  unfold concatHeaders at h0
  split at h0
  · next a b ha hb =>
    simp only [concatHeaders, Except.ok.injEq] at hb
    subst hb
    cases h0
    rw [List.append_nil]
    obtain ⟨h1, h2⟩ := getHeaders_spec (shipped_headerPatOK L hL hp (by rw [hpats]; simp)) ha
    refine (List.Pairwise.and_mem.1 h1).imp ?_
    intro x y ⟨hx, _, hxy⟩
    have := (h2 x hx).1
    omega
  · cases h0
  · cases h0

/-- two lists of headers with strictly increasing starts and the same members are equal -/
theorem eq_of_sorted_of_mem_iff {l1 l2 : List Header}
    (h1 : l1.Pairwise (fun a b => a.rng.s < b.rng.s))
    (h2 : l2.Pairwise (fun a b => a.rng.s < b.rng.s)) (h : ∀ hd, hd ∈ l1 ↔ hd ∈ l2) :
    l1 = l2 := by
  have nd : ∀ {l : List Header}, l.Pairwise (fun a b => a.rng.s < b.rng.s) → l.Nodup := by
    intro l hl
    refine hl.imp ?_
    intro a b hab heq
    rw [heq] at hab; omega
  refine List.Perm.eq_of_pairwise (le := fun a b => a.rng.s < b.rng.s) ?_ h1 h2
    ((List.perm_ext_iff_of_nodup (nd h1) (nd h2)).2 h)
  intro a b _ _ hab hba
  omega

/-! ## configurations whose headers are named by their first token -/

section k0
variable {C : CanonCfg} {fol : List Tok → Bool}

/-- the syntactic headers of a canonical file are the headers of its function nodes -/
theorem synHdrsG_file0 (hS : CfgSound C fol) (hk0 : ∀ h k, C.hdrOK h k = true → k = 0)
    {p : Prog Tok} (hw : p.wfCore = true) (hb : parenBal p.flat 0 = true)
    (hc : p.canonWith C false = true) :
    synHdrsG fol C.exempt false p.flat 0 = p.fns.map (·.hdr) := by
  rw [synHdrsG_file hS hw hb hc, nameHdrs_eq hk0 p false 0 hc]

/-- every function node's header in the context of the file -/
theorem fn_located0 (hS : CfgSound C fol) (hk0 : ∀ h k, C.hdrOK h k = true → k = 0)
    {p : Prog Tok} (hw : p.wfCore = true) (hc : p.canonWith C false = true) :
    ∀ f ∈ p.fns, ∃ pre h gap b post, p.flat = pre ++ (h ++ (gap ++ b :: post)) ∧
      headerOK h = true ∧ C.gapOK gap = true ∧ b.isSymbol [123] = true ∧
      flagAfter C.exempt false pre = false ∧
      f.hdr = ⟨h.headD default, ⟨pre.length, pre.length + h.length⟩⟩ := by
  intro f hf
  have hf' : f ∈ (fnsK p 0).map (·.1) := by rw [fnsK_fst]; exact hf
  obtain ⟨x, hx, rfl⟩ := List.mem_map.1 hf' 
  obtain ⟨pre, hp, h, gap, b, post, e, hl, hh, hok, hg, hb, hfl, _, hf'⟩ :=
    fn_located hS p false false 0 hw hc (by intro h; cases h) x hx
  have hk := hk0 _ _ hh
  rw [hk] at hl
  have hpn : hp = [] := List.length_eq_zero_iff.1 hl
  subst hpn
  refine ⟨pre, h, gap, b, post, by rw [e]; rfl, hok, hg, hb, by simpa using hfl, ?_⟩
  rw [hf']
  simp

end k0

theorem cfgC_k0 : ∀ h k, cfgC.hdrOK h k = true → k = 0 := fun _ _ h => (headerOK0_iff.1 h).2

theorem cfgJava_k0 : ∀ h k, cfgJava.hdrOK h k = true → k = 0 := fun _ _ h => (headerOK0_iff.1 h).2

/-! ## C, C++, C# -/

theorem canon_header_sound {L : Language} (hL : L ∈ cFamily) {p : Prog Tok}
    (hw : p.wfCore = true) (hc : p.Canon = true) {hs : List Header}
    (h : extractHeaders L p.flat = .ok hs) : ∀ hd ∈ hs, hd ∈ p.fns.map (·.hdr) := by
  intro hd hhd
  simp only [Prog.Canon, Bool.and_eq_true] at hc
  obtain ⟨h1, h2, h3⟩ := c_header_sound L hL p.flat hs h hd hhd
  rw [← synHdrsG_file0 cfgC_sound cfgC_k0 hw hc.1 hc.2]
  refine mem_synHdrsG_of_synHeader h1 ((folC_iff _ _).2 h2) h3 ?_
  rcases Nat.eq_zero_or_pos hd.rng.s with h0 | hpos
  · exact .inl h0
  · right
    have hlt := (List.getElem?_eq_some_iff.1 h3).1
    exact ⟨p.flat[hd.rng.s - 1]'(by omega), by simp, rfl⟩

theorem canon_header_complete {L : Language} (hL : L ∈ cFamily) {p : Prog Tok}
    (hw : p.wfCore = true) (hc : p.Canon = true) {hs : List Header}
    (h : extractHeaders L p.flat = .ok hs) : ∀ f ∈ p.fns, f.hdr ∈ hs := by
  intro f hf
  simp only [Prog.Canon, Bool.and_eq_true] at hc
  obtain ⟨pre, hd, gap, b, post, e, hh, hg, hb, _, hfe⟩ :=
    fn_located0 cfgC_sound cfgC_k0 hw hc.2 f hf
  have hgap : gap = [] := by simpa [cfgC] using hg
  subst hgap
  obtain ⟨h1, h2, h3, h4, h5⟩ := header_in_context (pre := pre) (Z := [] ++ b :: post) hh
    (NoOpenHead.cons (lbrace_facts hb).1)
  rw [← e] at h1 h2 h3 h5
  obtain ⟨x, hx, hr, hn, _⟩ := c_header_complete L hL p.flat hs h pre.length
    (pre.length + hd.length) h1
    ((folC_iff _ _).1 (by rw [h2]; simpa [folC] using hb)) h5
  rw [h3] at hn
  have : f.hdr = x := by
    rw [hfe]
    cases x with
    | mk nm rng =>
      simp only at hr hn
      cases hn
      rw [hr]
  rw [this]; exact hx

/-- **Discovery for the canonical fragment (C, C++, C#)**: on the token sequence of a well-formed
canonical forest, `extract_headers` returns the headers of the function nodes, in source order. -/
theorem canon_headers_eq {L : Language} (hL : L ∈ cFamily) {p : Prog Tok}
    (hw : p.wfCore = true) (ha : p.noAdj = true) (hc : p.Canon = true) {hs : List Header}
    (h : extractHeaders L p.flat = .ok hs) : hs = p.fns.map (·.hdr) := by
  refine eq_of_sorted_of_mem_iff
    (single_pattern_sorted (cFamily_shipped L hL) (cFamily_pattern L hL).1 h)
    (fns_sorted_of_wf hw ha) ?_
  intro hd
  constructor
  · exact canon_header_sound hL hw hc h hd
  · intro hm
    obtain ⟨f, hf, rfl⟩ := List.mem_map.1 hm
    exact canon_header_complete hL hw hc h f hf

/-! ## Java -/

theorem java_shipped : Gen.java ∈ Gen.all.map (·.2) := by simp [Gen.all]

theorem javaExempt_iff (t : Tok) :
    javaExempt t = true ↔ ((t.isKeyword && t.val == kwRecord) = true ∨
      (t.isKeyword && t.val == kwNew) = true) := by
  simp [javaExempt, Tok.isKw]

theorem java_header_sound' {p : Prog Tok} (hw : p.wfCore = true) (hc : p.CanonJava = true)
    {hs : List Header} (h : extractHeaders Gen.java p.flat = .ok hs) :
    ∀ hd ∈ hs, hd ∈ p.fns.map (·.hdr) := by
  intro hd hhd
  simp only [Prog.CanonJava, Bool.and_eq_true] at hc
  obtain ⟨h1, h2, h3, h4⟩ := java_header_sound p.flat hs h hd hhd
  rw [← synHdrsG_file0 cfgJava_sound cfgJava_k0 hw hc.1 hc.2]
  refine mem_synHdrsG_of_synHeader h1 ((folJava_iff _ _).2 h2) h4 ?_
  rcases Nat.eq_zero_or_pos hd.rng.s with h0 | hpos
  · exact .inl h0
  · right
    have hlt := (List.getElem?_eq_some_iff.1 h4).1
    have hget : p.flat[hd.rng.s - 1]? = some (p.flat[hd.rng.s - 1]'(by omega)) := by simp
    refine ⟨_, hget, ?_⟩
    cases hex : javaExempt (p.flat[hd.rng.s - 1]'(by omega))
    · exact hex
    · exfalso
      apply h3
      refine ⟨hpos, ?_⟩
      rcases (javaExempt_iff _).1 hex with hk | hk
      · exact .inl ⟨_, hget, hk⟩
      · exact .inr ⟨_, hget, hk⟩

theorem flagAfter_false_last {bad : Tok → Bool} {pre : List Tok}
    (h : flagAfter bad false pre = false) (hne : pre ≠ []) :
    ∃ a t, pre = a ++ [t] ∧ bad t = false := by
  obtain ⟨a, t, rfl⟩ : ∃ a t, pre = a ++ [t] :=
    ⟨pre.dropLast, pre.getLast hne, (List.dropLast_append_getLast hne).symm⟩
  rw [flagAfter_snoc] at h
  exact ⟨a, t, rfl, h⟩

theorem java_header_complete' {p : Prog Tok} (hw : p.wfCore = true) (hc : p.CanonJava = true)
    {hs : List Header} (h : extractHeaders Gen.java p.flat = .ok hs) :
    ∀ f ∈ p.fns, f.hdr ∈ hs := by
  intro f hf
  simp only [Prog.CanonJava, Bool.and_eq_true] at hc
  obtain ⟨pre, hd, gap, b, post, e, hh, hg, hb, hfl, hfe⟩ :=
    fn_located0 cfgJava_sound cfgJava_k0 hw hc.2 f hf
  have hgo : ∀ t ∈ gap, isOpen t = false :=
    fun t ht => (noParen_iff.1 (cfgJava_sound.gap_noParen _ hg t ht)).1
  have hZ : NoOpenHead (gap ++ b :: post) := by
    cases gap with
    | nil => exact NoOpenHead.cons (lbrace_facts hb).1
    | cons g gs => exact NoOpenHead.cons (hgo g (by simp))
  obtain ⟨h1, h2, h3, h4, h5⟩ := header_in_context (pre := pre) (Z := gap ++ b :: post) hh hZ
  rw [← e] at h1 h2 h3 h5
  have hprev : JavaPrevOk p.flat pre.length := by
    rintro ⟨hpos, hk⟩
    have hne : pre ≠ [] := by intro h0; rw [h0] at hpos; simp at hpos
    obtain ⟨a, t, rfl, hbt⟩ := flagAfter_false_last hfl hne
    have hget : p.flat[(a ++ [t]).length - 1]? = some t := by
      rw [e]
      simp
    have hex : javaExempt t = true := by
      rw [javaExempt_iff]
      rcases hk with ⟨t', ht', hk⟩ | ⟨t', ht', hk⟩
      · rw [hget] at ht'; cases ht'; exact .inl hk
      · rw [hget] at ht'; cases ht'; exact .inr hk
    have : cfgJava.exempt t = javaExempt t := rfl
    rw [this, hex] at hbt; cases hbt
  obtain ⟨x, hx, hr, hn, _⟩ := java_header_complete p.flat hs h pre.length
    (pre.length + hd.length) h1
    ((folJava_iff _ _).1 (by rw [h2]; exact cfgJava_sound.gap_fol _ _ _ hg hb)) hprev h5
  rw [h3] at hn
  have : f.hdr = x := by
    rw [hfe]
    cases x with
    | mk nm rng =>
      simp only at hr hn
      cases hn
      rw [hr]
  rw [this]; exact hx

/-- **Discovery for the canonical fragment of Java**: on the token sequence of a well-formed
canonical forest, `extract_headers` returns the headers of the function nodes, in source order. -/
theorem java_headers_eq {p : Prog Tok} (hw : p.wfCore = true) (ha : p.noAdj = true)
    (hc : p.CanonJava = true) {hs : List Header}
    (h : extractHeaders Gen.java p.flat = .ok hs) : hs = p.fns.map (·.hdr) := by
  refine eq_of_sorted_of_mem_iff (single_pattern_sorted java_shipped java_pattern.1 h)
    (fns_sorted_of_wf hw ha) ?_
  intro hd
  constructor
  · exact java_header_sound' hw hc h hd
  · intro hm
    obtain ⟨f, hf, rfl⟩ := List.mem_map.1 hm
    exact java_header_complete' hw hc h f hf

end CL
