import CodeLimit.Lemmas.ReportWrite
/-!
# Every method of `ReportWriter` produces an item that reads as the intended member / value
-/
namespace CL.Json

theorem vp_dumpsOpt {o : Option Str} (h : GoodOpt o) : VP (dumpsOpt o) (optJson o) := by
  cases o with
  | none => exact vpc_null.vp
  | some s => exact (vpc_str h).vp

theorem intListText_eq (xs : List Int) :
    intListText xs = 91 :: ([] ++ ((44 :: [32]).intercalate (xs.map intText) ++ ([] ++ [93]))) := by
  simp [intListText]

theorem vp_intListText (xs : List Int) : VP (intListText xs) (.arr (xs.map .num)) := by
  rw [intListText_eq]
  exact (vpc_arr AllWs.blank AllWs.nil AllWs.nil (All2.map intText JVal.num xs (fun x _ => vp_int x))).vp

theorem ens_intListText (xs : List Int) : EndsNonSpace (intListText xs) :=
  ⟨cp! "[" ++ (cp! ", ").intercalate (xs.map intText), 93, by simp [intListText], by decide⟩

/-- closes `GoodStr <literal>` and `Nodup <literal keys>` goals whose statement mentions values -/
macro "lit_keys" : tactic => `(tactic| ((try simp only [List.map_cons, List.map_nil]); decide))

variable (p : Bool) (lvl : Nat)

theorem totalsItem_mitem (name : Str) (t : Totals) (hk : GoodStr name) :
    MItem p (totalsItemToJson p lvl name t) name (totalsJson t) := by
  have h := mitem_block_obj (p := p) (lvl := lvl) (hd := dumpsStr name ++ [58, 32]) (k := name) rfl hk
    (items := [line p (lvl + 2) (cp! "\"files\": " ++ intText t.files),
               line p (lvl + 2) (cp! "\"lines_of_code\": " ++ intText t.loc),
               line p (lvl + 2) (cp! "\"functions\": " ++ intText t.functions),
               line p (lvl + 2) (cp! "\"hard_to_maintain\": " ++ intText t.hard),
               line p (lvl + 2) (cp! "\"unmaintainable\": " ++ intText t.unmaintainable)])
    (kvs := [(cp! "files", .num t.files), (cp! "lines_of_code", .num t.loc), (cp! "functions", .num t.functions),
             (cp! "hard_to_maintain", .num t.hard), (cp! "unmaintainable", .num t.unmaintainable)])
    (.cons (mitem_line (by rfl) (by lit_keys) (vp_int _) (ens_intText _))
    (.cons (mitem_line (by rfl) (by lit_keys) (vp_int _) (ens_intText _))
    (.cons (mitem_line (by rfl) (by lit_keys) (vp_int _) (ens_intText _))
    (.cons (mitem_line (by rfl) (by lit_keys) (vp_int _) (ens_intText _))
    (.cons (mitem_line (by rfl) (by lit_keys) (vp_int _) (ens_intText _)) .nil)))))
  rw [dictOfPairs_nodup _ (by lit_keys)] at h
  simpa [totalsItemToJson, totalsJson, List.append_assoc] using h

theorem totals_mitem (totals : List (Str × Totals)) (hk : ∀ kv ∈ totals, GoodStr kv.1) :
    MItem p (totalsToJson p lvl totals) (cp! "totals")
      (.obj (dictOfPairs (totals.map fun kv => (kv.1, totalsJson kv.2)))) := by
  have h := mitem_block_obj (p := p) (lvl := lvl) (hd := cp! "\"totals\": ") (k := cp! "totals") (by rfl) (by decide)
    (All2.map (fun kv => totalsItemToJson p (lvl + 2) kv.1 kv.2) (fun kv => (kv.1, totalsJson kv.2)) totals
      (fun kv hkv => totalsItem_mitem p (lvl + 2) kv.1 kv.2 (hk kv hkv)))
  simpa [totalsToJson] using h

theorem treeItemEntries_mitem (f : Folder) (hk : ∀ e ∈ f.entries, GoodStr e) :
    MItem p (treeItemEntriesToJson p lvl f) (cp! "entries") (.arr (f.entries.map .str)) := by
  have h := mitem_block_arr (p := p) (lvl := lvl) (hd := cp! "\"entries\": ") (k := cp! "entries") (by rfl) (by decide)
    (All2.map (fun e => line p (lvl + 2) (dumpsStr e)) JVal.str f.entries
      (fun e he => vitem_line (vpc_str (hk e he)).vp (ens_dumpsStr e)))
  simpa [treeItemEntriesToJson] using h

theorem treeItem_mitem (name : Str) (f : Folder) (hk : GoodStr name) (he : ∀ e ∈ f.entries, GoodStr e) :
    MItem p (treeItemToJson p lvl name f) name (folderJson f) := by
  have h := mitem_block_obj (p := p) (lvl := lvl) (hd := dumpsStr name ++ [58, 32]) (k := name) rfl hk
    (items := [treeItemEntriesToJson p (lvl + 2) f,
               line p (lvl + 2) (cp! "\"profile\": " ++ intListText f.profile)])
    (kvs := [(cp! "entries", .arr (f.entries.map .str)), (cp! "profile", .arr (f.profile.map .num))])
    (.cons (treeItemEntries_mitem p (lvl + 2) f he)
    (.cons (mitem_line (by rfl) (by lit_keys) (vp_intListText _) (ens_intListText _)) .nil))
  rw [dictOfPairs_nodup _ (by lit_keys)] at h
  simpa [treeItemToJson, folderJson, List.append_assoc] using h

theorem tree_mitem (tree : List (Str × Folder)) (hk : ∀ kv ∈ tree, GoodStr kv.1 ∧ ∀ e ∈ kv.2.entries, GoodStr e) :
    MItem p (treeToJson p lvl tree) (cp! "tree")
      (.obj (dictOfPairs (tree.map fun kv => (kv.1, folderJson kv.2)))) := by
  have h := mitem_block_obj (p := p) (lvl := lvl) (hd := cp! "\"tree\": ") (k := cp! "tree") (by rfl) (by decide)
    (All2.map (fun kv => treeItemToJson p (lvl + 2) kv.1 kv.2) (fun kv => (kv.1, folderJson kv.2)) tree
      (fun kv hkv => treeItem_mitem p (lvl + 2) kv.1 kv.2 (hk kv hkv).1 (hk kv hkv).2))
  simpa [treeToJson] using h

/-- the one-line text of a measurement -/
theorem vp_measurement (m : Meas) (hk : GoodStr m.unitName) :
    VP (cp! "{\"unit_name\": " ++ dumpsStr m.unitName ++ cp! ", " ++
        cp! "\"start\": {\"line\": " ++ intText m.sl ++ cp! ", \"column\": " ++ intText m.sc ++ cp! "}, " ++
        cp! "\"end\": {\"line\": " ++ intText m.el ++ cp! ", \"column\": " ++ intText m.ec ++ cp! "}, " ++
        cp! "\"value\": " ++ intText m.value ++ cp! "}") (measJson m) := by
  have loc (a b : Int) : VP (123 :: ([] ++ ((44 :: [32]).intercalate
        [[] ++ (dumpsStr (cp! "line") ++ 58 :: ([32] ++ intText a)),
         [] ++ (dumpsStr (cp! "column") ++ 58 :: ([32] ++ intText b))] ++ ([] ++ [125]))))
      (.obj [(cp! "line", .num a), (cp! "column", .num b)]) := by
    have := (vpc_obj AllWs.blank AllWs.nil AllWs.nil
      (bodies := [[] ++ (dumpsStr (cp! "line") ++ 58 :: ([32] ++ intText a)),
                  [] ++ (dumpsStr (cp! "column") ++ 58 :: ([32] ++ intText b))])
      (kvs := [(cp! "line", .num a), (cp! "column", .num b)])
      (.cons (mp_mk AllWs.nil (by lit_keys) AllWs.blank (vp_int a))
      (.cons (mp_mk AllWs.nil (by lit_keys) AllWs.blank (vp_int b)) .nil))).vp
    rwa [dictOfPairs_nodup _ (by lit_keys)] at this
  have h := (vpc_obj AllWs.blank AllWs.nil AllWs.nil
    (bodies := [[] ++ (dumpsStr (cp! "unit_name") ++ 58 :: ([32] ++ dumpsStr m.unitName)),
                [] ++ (dumpsStr (cp! "start") ++ 58 :: ([32] ++ _)),
                [] ++ (dumpsStr (cp! "end") ++ 58 :: ([32] ++ _)),
                [] ++ (dumpsStr (cp! "value") ++ 58 :: ([32] ++ intText m.value))])
    (kvs := [(cp! "unit_name", .str m.unitName),
             (cp! "start", .obj [(cp! "line", .num m.sl), (cp! "column", .num m.sc)]),
             (cp! "end", .obj [(cp! "line", .num m.el), (cp! "column", .num m.ec)]),
             (cp! "value", .num m.value)])
    (.cons (mp_mk AllWs.nil (by lit_keys) AllWs.blank (vpc_str hk).vp)
    (.cons (mp_mk AllWs.nil (by lit_keys) AllWs.blank (loc m.sl m.sc))
    (.cons (mp_mk AllWs.nil (by lit_keys) AllWs.blank (loc m.el m.ec))
    (.cons (mp_mk AllWs.nil (by lit_keys) AllWs.blank (vp_int m.value)) .nil))))).vp
  rw [dictOfPairs_nodup _ (by lit_keys)] at h
  have e1 : dumpsStr (cp! "unit_name") = cp! "\"unit_name\"" := by rfl
  have e2 : dumpsStr (cp! "start") = cp! "\"start\"" := by rfl
  have e3 : dumpsStr (cp! "end") = cp! "\"end\"" := by rfl
  have e4 : dumpsStr (cp! "value") = cp! "\"value\"" := by rfl
  have e5 : dumpsStr (cp! "line") = cp! "\"line\"" := by rfl
  have e6 : dumpsStr (cp! "column") = cp! "\"column\"" := by rfl
  simpa [measJson, e1, e2, e3, e4, e5, e6, List.append_assoc] using h

theorem measurement_vitem (m : Meas) (hk : GoodStr m.unitName) :
    VItem p (measurementToJson p lvl m) (measJson m) := by
  refine vitem_line (vp_measurement m hk) ?_
  exact ⟨_, 125, rfl, by decide⟩

theorem fileMeasurements_mitem (f : FileData) (hk : ∀ m ∈ f.measurements, GoodStr m.unitName) :
    MItem p (fileMeasurementsToJson p lvl f) (cp! "measurements") (.arr (f.measurements.map measJson)) := by
  have h := mitem_block_arr (p := p) (lvl := lvl) (hd := cp! "\"measurements\": ") (k := cp! "measurements") (by rfl) (by decide)
    (All2.map (fun m => measurementToJson p (lvl + 2) m) measJson f.measurements
      (fun m hm => measurement_vitem p (lvl + 2) m (hk m hm)))
  simpa [fileMeasurementsToJson] using h

theorem file_mitem (name : Str) (f : FileData) (hk : GoodStr name) (hc : GoodStr f.checksum) (hl : GoodStr f.language)
    (hm : ∀ m ∈ f.measurements, GoodStr m.unitName) :
    MItem p (fileToJson p lvl name f) name (fileJson f) := by
  have h := mitem_block_obj (p := p) (lvl := lvl) (hd := dumpsStr name ++ [58, 32]) (k := name) rfl hk
    (items := [line p (lvl + 2) (cp! "\"checksum\": " ++ dumpsStr f.checksum),
               line p (lvl + 2) (cp! "\"language\": " ++ dumpsStr f.language),
               line p (lvl + 2) (cp! "\"loc\": " ++ intText f.loc),
               line p (lvl + 2) (cp! "\"profile\": " ++ intListText f.profile),
               fileMeasurementsToJson p (lvl + 2) f])
    (kvs := [(cp! "checksum", .str f.checksum), (cp! "language", .str f.language), (cp! "loc", .num f.loc),
             (cp! "profile", .arr (f.profile.map .num)),
             (cp! "measurements", .arr (f.measurements.map measJson))])
    (.cons (mitem_line (by rfl) (by lit_keys) (vpc_str hc).vp (ens_dumpsStr _))
    (.cons (mitem_line (by rfl) (by lit_keys) (vpc_str hl).vp (ens_dumpsStr _))
    (.cons (mitem_line (by rfl) (by lit_keys) (vp_int _) (ens_intText _))
    (.cons (mitem_line (by rfl) (by lit_keys) (vp_intListText _) (ens_intListText _))
    (.cons (fileMeasurements_mitem p (lvl + 2) f hm) .nil)))))
  rw [dictOfPairs_nodup _ (by lit_keys)] at h
  simpa [fileToJson, fileJson, List.append_assoc] using h

theorem files_mitem (files : List (Str × FileData))
    (hk : ∀ kv ∈ files, GoodStr kv.1 ∧ GoodStr kv.2.checksum ∧ GoodStr kv.2.language ∧
      ∀ m ∈ kv.2.measurements, GoodStr m.unitName) :
    MItem p (filesToJson p lvl files) (cp! "files")
      (.obj (dictOfPairs (files.map fun kv => (kv.1, fileJson kv.2)))) := by
  have h := mitem_block_obj (p := p) (lvl := lvl) (hd := cp! "\"files\": ") (k := cp! "files") (by rfl) (by decide)
    (All2.map (fun kv => fileToJson p (lvl + 2) kv.1 kv.2) (fun kv => (kv.1, fileJson kv.2)) files
      (fun kv hkv => file_mitem p (lvl + 2) kv.1 kv.2 (hk kv hkv).1 (hk kv hkv).2.1 (hk kv hkv).2.2.1 (hk kv hkv).2.2.2))
  simpa [filesToJson] using h

theorem codebase_mitem (d : ReportData) (hd : GoodReport d) :
    MItem p (codebaseToJson p lvl d) (cp! "codebase") (.obj [
      (cp! "totals", .obj (dictOfPairs (d.totals.map fun kv => (kv.1, totalsJson kv.2)))),
      (cp! "tree", .obj (dictOfPairs (d.tree.map fun kv => (kv.1, folderJson kv.2)))),
      (cp! "files", .obj (dictOfPairs (d.files.map fun kv => (kv.1, fileJson kv.2))))]) := by
  have h := mitem_block_obj (p := p) (lvl := lvl) (hd := cp! "\"codebase\": ") (k := cp! "codebase") (by rfl) (by decide)
    (items := [totalsToJson p (lvl + 2) d.totals, treeToJson p (lvl + 2) d.tree, filesToJson p (lvl + 2) d.files])
    (kvs := [(cp! "totals", .obj (dictOfPairs (d.totals.map fun kv => (kv.1, totalsJson kv.2)))),
             (cp! "tree", .obj (dictOfPairs (d.tree.map fun kv => (kv.1, folderJson kv.2)))),
             (cp! "files", .obj (dictOfPairs (d.files.map fun kv => (kv.1, fileJson kv.2))))])
    (.cons (totals_mitem p (lvl + 2) d.totals hd.totals)
    (.cons (tree_mitem p (lvl + 2) d.tree hd.tree)
    (.cons (files_mitem p (lvl + 2) d.files hd.files) .nil)))
  rw [dictOfPairs_nodup _ (by lit_keys)] at h
  simpa [codebaseToJson] using h

theorem repository_mitem (r : Repo) (ho : GoodStr r.owner) (hn : GoodStr r.name) (hb : GoodOpt r.branch) :
    MItem p (repositoryToJson p lvl r) (cp! "repository") (repoJson r) := by
  have h := mitem_block_obj (p := p) (lvl := lvl) (hd := cp! "\"repository\": ") (k := cp! "repository") (by rfl) (by decide)
    (items := [line p (lvl + 2) (cp! "\"owner\": " ++ dumpsStr r.owner),
               line p (lvl + 2) (cp! "\"name\": " ++ dumpsStr r.name),
               line p (lvl + 2) (cp! "\"branch\": " ++ dumpsOpt r.branch)])
    (kvs := [(cp! "owner", .str r.owner), (cp! "name", .str r.name), (cp! "branch", optJson r.branch)])
    (.cons (mitem_line (by rfl) (by lit_keys) (vpc_str ho).vp (ens_dumpsStr _))
    (.cons (mitem_line (by rfl) (by lit_keys) (vpc_str hn).vp (ens_dumpsStr _))
    (.cons (mitem_line (by rfl) (by lit_keys) (vp_dumpsOpt hb) (ens_dumpsOpt _)) .nil)))
  rw [dictOfPairs_nodup _ (by lit_keys)] at h
  simpa [repositoryToJson, repoJson] using h

/-- the document is `a` followed by the newline of pretty mode; `a` is `{` ... `}` and drives the
parser from its initial state to the completed value `toJsonDict d` -/
theorem write_structure (d : ReportData) (hd : GoodReport d) :
    ∃ a, write p d = a ++ nl p ∧ run St.init a = ⟨.done (toJsonDict d), []⟩ ∧ ∃ y, a = 123 :: (y ++ [125]) := by
  have hv := mitem_line (p := p) (lvl := 2) (hd := cp! "\"version\": ") (k := cp! "version") (by rfl) (by decide)
    (vp_dumpsOpt hd.version) (ens_dumpsOpt _)
  have hu := mitem_line (p := p) (lvl := 2) (hd := cp! "\"uuid\": ") (k := cp! "uuid") (by rfl) (by decide)
    (vpc_str hd.uuid).vp (ens_dumpsStr _)
  have ht := mitem_line (p := p) (lvl := 2) (hd := cp! "\"timestamp\": ") (k := cp! "timestamp") (by rfl) (by decide)
    (vpc_str hd.timestamp).vp (ens_dumpsStr _)
  have hr := mitem_line (p := p) (lvl := 2) (hd := cp! "\"root\": ") (k := cp! "root") (by rfl) (by decide)
    (vpc_str hd.root).vp (ens_dumpsStr _)
  have hc := codebase_mitem p 2 d hd
  cases hrep : d.repository with
  | none =>
    obtain ⟨a, h1, h2, h3⟩ := run_document (p := p)
      (kvs := [(cp! "version", optJson d.version), (cp! "uuid", .str d.uuid), (cp! "timestamp", .str d.timestamp),
               (cp! "root", .str d.root), (cp! "codebase", _)])
      (.cons hv (.cons hu (.cons ht (.cons hr (.cons hc .nil)))))
    rw [dictOfPairs_nodup _ (by lit_keys)] at h2
    refine ⟨a, ?_, ?_, h3⟩
    · simpa [write, hrep] using h1
    · simpa [toJsonDict, toJsonWith, hrep] using h2
  | some r =>
    obtain ⟨ho, hn, hb⟩ := hd.repository r hrep
    obtain ⟨a, h1, h2, h3⟩ := run_document (p := p)
      (kvs := [(cp! "version", optJson d.version), (cp! "uuid", .str d.uuid), (cp! "timestamp", .str d.timestamp),
               (cp! "root", .str d.root), (cp! "repository", repoJson r), (cp! "codebase", _)])
      (.cons hv (.cons hu (.cons ht (.cons hr (.cons (repository_mitem p 2 r ho hn hb) (.cons hc .nil))))))
    rw [dictOfPairs_nodup _ (by lit_keys)] at h2
    refine ⟨a, ?_, ?_, h3⟩
    · simpa [write, hrep] using h1
    · simpa [toJsonDict, toJsonWith, hrep] using h2

end CL.Json
