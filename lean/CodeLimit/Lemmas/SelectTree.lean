import CodeLimit.Lemmas.SelectLoop
/-!
# What a pruned walk visits, path lookup, and path rendering
-/
namespace CL.Sel

theorem fileAt_iff {ch : List Node} {p : List Str} {c : Str} :
    FileAt ch p c ↔ (∃ n, p = [n] ∧ Node.file n c ∈ ch) ∨
      (∃ d sub r, p = d :: r ∧ Node.dir d sub ∈ ch ∧ FileAt sub r c) := by
  constructor
  · intro h
    cases h with
    | here h => exact .inl ⟨_, rfl, h⟩
    | under h1 h2 => exact .inr ⟨_, _, _, rfl, h1, h2⟩
  · rintro (⟨n, rfl, h⟩ | ⟨d, sub, r, rfl, h1, h2⟩)
    · exact .here h
    · exact .under h1 h2

theorem FileAt.ne_nil {ch : List Node} {p : List Str} {c : Str} (h : FileAt ch p c) : p ≠ [] := by
  cases h <;> simp

theorem mem_fileEntries {ch : List Node} {n c : Str} :
    (n, c) ∈ fileEntries ch ↔ Node.file n c ∈ ch := by
  induction ch with
  | nil => simp [fileEntries]
  | cons x r ih =>
    cases x with
    | file m d => simp [fileEntries, ih]
    | dir m sub => simp [fileEntries, ih]

theorem mem_stepFiles {pre : List Str} {fs : List (Str × Str)} {q : List Str} {c : Str} :
    (q, c) ∈ stepFiles (pre, fs) ↔ ∃ n, (n, c) ∈ fs ∧ isHidden n = false ∧ q = pre ++ [n] := by
  simp only [stepFiles, List.mem_map, List.mem_filter, Prod.mk.injEq, Prod.exists]
  constructor
  · rintro ⟨n, c', ⟨h1, h2⟩, rfl, rfl⟩
    exact ⟨n, h1, by simpa using h2, rfl⟩
  · rintro ⟨n, h1, h2, rfl⟩
    exact ⟨n, c, ⟨h1, by simp [h2]⟩, rfl, rfl⟩

/-- files below the sub-directories listed in `l` that a pruned walk offers -/
def SubCand (pre : List Str) (l : List Node) (q : List Str) (c : Str) : Prop :=
  ∃ d sub r, Node.dir d sub ∈ l ∧ isHidden d = false ∧ q = pre ++ d :: r ∧ FileAt sub r c ∧ Visible r

theorem visible_cons {x : Str} {r : List Str} : Visible (x :: r) ↔ isHidden x = false ∧ Visible r := by
  simp [Visible]

theorem visible_append {a b : List Str} : Visible (a ++ b) ↔ Visible a ∧ Visible b := by
  simp only [Visible, List.mem_append]
  constructor
  · intro h; exact ⟨fun x hx => h x (.inl hx), fun x hx => h x (.inr hx)⟩
  · rintro ⟨h1, h2⟩ x (hx | hx)
    · exact h1 x hx
    · exact h2 x hx

/-- top level of a walk from `pre`/`ch`, given the characterisation of the sub-directories -/
theorem mem_top_of_sub {pre : List Str} {ch : List Node} {q : List Str} {c : Str}
    (hsub : (q, c) ∈ (walkList keepV pre ch).flatMap stepFiles ↔ SubCand pre ch q c) :
    (q, c) ∈ cands pre ch ↔ ∃ r, q = pre ++ r ∧ FileAt ch r c ∧ Visible r := by
  simp only [cands, walkTop, List.flatMap_cons, List.mem_append, hsub, mem_stepFiles, mem_fileEntries]
  constructor
  · rintro (⟨n, h1, h2, rfl⟩ | ⟨d, sub, r, h1, h2, rfl, h3, h4⟩)
    · exact ⟨[n], rfl, .here h1, by simp [Visible, h2]⟩
    · exact ⟨d :: r, rfl, .under h1 h3, visible_cons.2 ⟨h2, h4⟩⟩
  · rintro ⟨r, rfl, h1, h2⟩
    rcases fileAt_iff.1 h1 with ⟨n, rfl, h⟩ | ⟨d, sub, r', rfl, h3, h4⟩
    · exact .inl ⟨n, h, by simpa [Visible] using h2, rfl⟩
    · exact .inr ⟨d, sub, r', h3, (visible_cons.1 h2).1, rfl, h4, (visible_cons.1 h2).2⟩

mutual
theorem mem_walkNode (pre : List Str) : (node : Node) → (q : List Str) → (c : Str) →
    ((q, c) ∈ (walkNode keepV pre node).flatMap stepFiles ↔ SubCand pre [node] q c)
  | .file n b, q, c => by simp [walkNode, SubCand]
  | .dir n ch, q, c => by
    have ih := mem_walkList (pre ++ [n]) ch q c
    have top := mem_top_of_sub ih
    simp only [cands, walkTop] at top
    by_cases hn : isHidden n = true
    · simp [walkNode, SubCand, keepV, hn]
    · have hn' : isHidden n = false := by simpa using hn
      simp only [walkNode, keepV, hn', Bool.not_false, if_true, top, SubCand, List.mem_singleton,
        Node.dir.injEq]
      constructor
      · rintro ⟨r, rfl, h1, h2⟩
        exact ⟨n, ch, r, ⟨rfl, rfl⟩, hn', by simp, h1, h2⟩
      · rintro ⟨d, sub, r, ⟨rfl, rfl⟩, _, rfl, h1, h2⟩
        exact ⟨r, by simp, h1, h2⟩
theorem mem_walkList (pre : List Str) : (l : List Node) → (q : List Str) → (c : Str) →
    ((q, c) ∈ (walkList keepV pre l).flatMap stepFiles ↔ SubCand pre l q c)
  | [], q, c => by simp [walkList, SubCand]
  | x :: r, q, c => by
    have h1 := mem_walkNode pre x q c
    have h2 := mem_walkList pre r q c
    simp only [SubCand, List.mem_singleton] at h1
    simp only [walkList, List.flatMap_append, List.mem_append, h1, h2, SubCand, List.mem_cons]
    constructor
    · rintro (⟨d, sub, r', rfl, h⟩ | ⟨d, sub, r', hm, h⟩)
      · exact ⟨d, sub, r', .inl rfl, h⟩
      · exact ⟨d, sub, r', .inr hm, h⟩
    · rintro ⟨d, sub, r', rfl | hm, h⟩
      · exact .inl ⟨d, sub, r', rfl, h⟩
      · exact .inr ⟨d, sub, r', hm, h⟩
end

/-- **the files a pruned walk from the directory `pre` offers** are the files below it none of
whose components below `pre` starts with a dot -/
theorem mem_cands {pre : List Str} {ch : List Node} {q : List Str} {c : Str} :
    (q, c) ∈ cands pre ch ↔ ∃ r, q = pre ++ r ∧ FileAt ch r c ∧ Visible r :=
  mem_top_of_sub (mem_walkList pre ch q c)


/-! ## every file is offered once -/

/-- the first components of the pairs are pairwise different -/
def NodupKeys {κ β : Type} (l : List (κ × β)) : Prop := (l.map (·.1)).Nodup

theorem nodupKeys_append {κ β : Type} {a b : List (κ × β)} :
    NodupKeys (a ++ b) ↔ NodupKeys a ∧ NodupKeys b ∧ ∀ x ∈ a, ∀ y ∈ b, x.1 ≠ y.1 := by
  simp only [NodupKeys, List.map_append, List.nodup_append, List.mem_map, forall_exists_index, and_imp]
  constructor
  · rintro ⟨h1, h2, h3⟩
    exact ⟨h1, h2, fun x hx y hy => h3 _ x hx rfl _ y hy rfl⟩
  · rintro ⟨h1, h2, h3⟩
    exact ⟨h1, h2, fun _ x hx e1 _ y hy e2 => e1 ▸ e2 ▸ h3 x hx y hy⟩

theorem nodupKeys_nil {κ β : Type} : NodupKeys ([] : List (κ × β)) := by simp [NodupKeys]

theorem nodupKeys_cons {κ β : Type} {x : κ × β} {l : List (κ × β)} :
    NodupKeys (x :: l) ↔ (∀ y ∈ l, x.1 ≠ y.1) ∧ NodupKeys l := by
  simp only [NodupKeys, List.map_cons, List.nodup_cons, List.mem_map, not_exists, not_and]
  constructor
  · rintro ⟨h1, h2⟩; exact ⟨fun y hy e => h1 y hy e.symm, h2⟩
  · rintro ⟨h1, h2⟩; exact ⟨fun y hy e => h1 y hy e.symm, h2⟩

theorem wfDir_cons {x : Node} {r : List Node} :
    wfDir (x :: r) = true ↔ x.wf = true ∧ (∀ y ∈ r, y.name ≠ x.name) ∧ wfDir r = true := by
  simp [wfDir, and_assoc]

theorem wfDir_mem {l : List Node} (h : wfDir l = true) {x : Node} (hx : x ∈ l) : x.wf = true := by
  induction l with
  | nil => simp at hx
  | cons y r ih =>
    obtain ⟨h1, _, h3⟩ := wfDir_cons.1 h
    rcases List.mem_cons.1 hx with rfl | hx
    · exact h1
    · exact ih h3 hx

/-- two entries of a well-formed listing with the same name are the same entry -/
theorem wfDir_unique {l : List Node} (h : wfDir l = true) {x y : Node} (hx : x ∈ l) (hy : y ∈ l)
    (e : x.name = y.name) : x = y := by
  induction l with
  | nil => simp at hx
  | cons z r ih =>
    obtain ⟨_, h2, h3⟩ := wfDir_cons.1 h
    rcases List.mem_cons.1 hx with hx1 | hx1 <;> rcases List.mem_cons.1 hy with hy1 | hy1
    · rw [hx1, hy1]
    · exact absurd (hx1 ▸ e).symm (h2 _ hy1)
    · exact absurd (hy1 ▸ e) (h2 _ hx1)
    · exact ih h3 hx1 hy1

theorem fileEntries_name_mem {l : List Node} {n c : Str} (h : (n, c) ∈ fileEntries l) :
    ∃ x ∈ l, x.name = n := ⟨_, mem_fileEntries.1 h, rfl⟩

theorem nodupKeys_fileEntries {l : List Node} (h : wfDir l = true) : NodupKeys (fileEntries l) := by
  induction l with
  | nil => simp [fileEntries, NodupKeys]
  | cons x r ih =>
    obtain ⟨_, h2, h3⟩ := wfDir_cons.1 h
    cases x with
    | dir m sub => simpa [fileEntries] using ih h3
    | file m d =>
      simp only [fileEntries]
      refine nodupKeys_cons.2 ⟨?_, ih h3⟩
      rintro ⟨n, c⟩ hy e
      obtain ⟨z, hz, hn⟩ := fileEntries_name_mem hy
      exact h2 z hz (by simpa [Node.name] using hn.trans e.symm)

theorem nodupKeys_stepFiles {pre : List Str} {fs : List (Str × Str)} (h : NodupKeys fs) :
    NodupKeys (stepFiles (pre, fs)) := by
  induction fs with
  | nil => simp [stepFiles, NodupKeys]
  | cons f r ih =>
    obtain ⟨h1, h2⟩ := nodupKeys_cons.1 h
    by_cases hf : isHidden f.1 = true
    · simpa [stepFiles, hf] using ih h2
    · have : stepFiles (pre, f :: r) = (pre ++ [f.1], f.2) :: stepFiles (pre, r) := by
        simp [stepFiles, hf]
      rw [this]
      refine nodupKeys_cons.2 ⟨?_, ih h2⟩
      rintro ⟨q, c⟩ hy e
      obtain ⟨n, hn, _, rfl⟩ := mem_stepFiles.1 hy
      have : f.1 = n := by simpa using e
      exact h1 (n, c) hn this

theorem nodupKeys_top_of_sub {pre : List Str} {ch : List Node} (hwf : wfDir ch = true)
    (hsub : NodupKeys ((walkList keepV pre ch).flatMap stepFiles)) : NodupKeys (cands pre ch) := by
  simp only [cands, walkTop, List.flatMap_cons]
  refine nodupKeys_append.2 ⟨nodupKeys_stepFiles (nodupKeys_fileEntries hwf), hsub, ?_⟩
  rintro ⟨q, c⟩ hx ⟨q', c'⟩ hy e
  obtain ⟨n, _, _, rfl⟩ := mem_stepFiles.1 hx
  obtain ⟨d, sub, r, _, _, rfl, hf, _⟩ := (mem_walkList pre ch q' c').1 hy
  have : [n] = d :: r := List.append_cancel_left e
  exact hf.ne_nil (List.cons.inj this).2.symm

mutual
theorem nodupKeys_walkNode (pre : List Str) : (node : Node) → node.wf = true →
    NodupKeys ((walkNode keepV pre node).flatMap stepFiles)
  | .file n b, _ => by simp [walkNode, NodupKeys]
  | .dir n ch, h => by
    have hch : wfDir ch = true := by simp [Node.wf] at h; exact h.2
    have top := nodupKeys_top_of_sub (pre := pre ++ [n]) hch (nodupKeys_walkList (pre ++ [n]) ch hch)
    by_cases hn : isHidden n = true
    · simp [walkNode, keepV, hn, NodupKeys]
    · simpa [walkNode, keepV, hn, cands, walkTop] using top
theorem nodupKeys_walkList (pre : List Str) : (l : List Node) → wfDir l = true →
    NodupKeys ((walkList keepV pre l).flatMap stepFiles)
  | [], _ => by simp [walkList, NodupKeys]
  | x :: r, h => by
    obtain ⟨h1, h2, h3⟩ := wfDir_cons.1 h
    simp only [walkList, List.flatMap_append]
    refine nodupKeys_append.2 ⟨nodupKeys_walkNode pre x h1, nodupKeys_walkList pre r h3, ?_⟩
    rintro ⟨q, c⟩ hx ⟨q', c'⟩ hy e
    obtain ⟨d, sub, t, hd, _, rfl, _, _⟩ := (mem_walkNode pre x q c).1 hx
    obtain ⟨d', sub', t', hd', _, rfl, _, _⟩ := (mem_walkList pre r q' c').1 hy
    have hd : Node.dir d sub = x := by simpa using hd
    have : d = d' := by
      have := List.append_cancel_left e
      simp at this; exact this.1
    subst this hd
    exact h2 _ hd' rfl
end

/-- **a pruned walk of a well-formed tree offers every path at most once** -/
theorem nodupKeys_cands {pre : List Str} {ch : List Node} (h : wfDir ch = true) :
    NodupKeys (cands pre ch) :=
  nodupKeys_top_of_sub h (nodupKeys_walkList pre ch h)

end CL.Sel
