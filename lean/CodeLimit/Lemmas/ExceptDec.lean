/-! Decidable equality for `Except` (shared by the non-vacuity examples of several properties). -/
namespace CL
deriving instance DecidableEq for Except
end CL
