import CodeLimit.Model.TokenNest
import CodeLimit.Lemmas.IndependenceTok
import CodeLimit.Lemmas.Unambiguous
/-!
# Basic facts about predicate objects with state (`Model/TokenNest.lean`)

* `acceptNest` never changes the shape of an object, only depths (`acceptNest_shape`);
* `getCopy` / `setCopy` bookkeeping; evaluations of different templates commute
  (`nestAcceptor_compat`);
* predicates without a `Balanced` node (`Pred.flat`) are stateless and agree with `Pred.eval`
  (`acceptNest_emb_flat`); a top-level `Balanced` over stateless operands agrees with
  `acceptTok` (`acceptNest_embD`).
-/
namespace CL

/-! ## shape and depths -/

theorem acceptNest_shape (p : PredN) (t : Tok) : (acceptNest p t).2.shape = p.shape := by
  induction p with
  | name | keyword | symbol | operator | value | ident => rfl
  | not p ih => simp only [acceptNest, PredN.shape, ih]
  | and p q ihp ihq =>
    simp only [acceptNest]
    split <;> simp only [PredN.shape, ihp, ihq]
  | or p q ihp ihq =>
    simp only [acceptNest]
    split <;> simp only [PredN.shape, ihp, ihq]
  | balanced l r d ihl ihr =>
    simp only [acceptNest]
    split
    · simp only [PredN.shape, ihl]
    · split <;> simp only [PredN.shape, ihl, ihr]

theorem Pred.shape_emb (p : Pred) : p.emb.shape = p := by
  induction p <;> simp_all [Pred.emb, PredN.shape]

theorem Pred.emb_injective : ∀ {p q : Pred}, p.emb = q.emb → p = q := by
  intro p q h
  have := congrArg PredN.shape h
  rwa [Pred.shape_emb, Pred.shape_emb] at this

/-- an object is determined by its shape and its depths -/
theorem PredN.ext_shape_depths : ∀ (p q : PredN), p.shape = q.shape → p.depths = q.depths → p = q := by
  intro p
  induction p with
  | name | keyword | symbol | operator | value | ident =>
    intro q hs _
    cases q <;> simp_all [PredN.shape]
  | not p ih =>
    intro q hs hd
    cases q <;> simp only [PredN.shape, Pred.not.injEq, reduceCtorEq] at hs
    simp only [PredN.depths] at hd
    rw [ih _ hs hd]
  | and p1 p2 ih1 ih2 =>
    intro q hs hd
    cases q <;> simp only [PredN.shape, Pred.and.injEq, reduceCtorEq] at hs
    rename_i q1 q2
    simp only [PredN.depths] at hd
    have hl : p1.depths.length = q1.depths.length := depths_length _ _ hs.1
    obtain ⟨h1, h2⟩ := List.append_inj hd hl
    rw [ih1 _ hs.1 h1, ih2 _ hs.2 h2]
  | or p1 p2 ih1 ih2 =>
    intro q hs hd
    cases q <;> simp only [PredN.shape, Pred.or.injEq, reduceCtorEq] at hs
    rename_i q1 q2
    simp only [PredN.depths] at hd
    have hl : p1.depths.length = q1.depths.length := depths_length _ _ hs.1
    obtain ⟨h1, h2⟩ := List.append_inj hd hl
    rw [ih1 _ hs.1 h1, ih2 _ hs.2 h2]
  | balanced p1 p2 d ih1 ih2 =>
    intro q hs hd
    cases q <;> simp only [PredN.shape, Pred.balanced.injEq, reduceCtorEq] at hs
    rename_i q1 q2 e
    simp only [PredN.depths, List.cons.injEq] at hd
    have hl : p1.depths.length = q1.depths.length := depths_length _ _ hs.1
    obtain ⟨h1, h2⟩ := List.append_inj hd.2 hl
    rw [ih1 _ hs.1 h1, ih2 _ hs.2 h2, hd.1]
where
  depths_length : ∀ (p q : PredN), p.shape = q.shape → p.depths.length = q.depths.length := by
    intro p
    induction p with
    | name | keyword | symbol | operator | value | ident =>
      intro q hs
      cases q <;> simp_all [PredN.shape, PredN.depths]
    | not p ih =>
      intro q hs
      cases q <;> simp only [PredN.shape, Pred.not.injEq, reduceCtorEq] at hs
      simp only [PredN.depths]
      exact ih _ hs
    | and p1 p2 ih1 ih2 =>
      intro q hs
      cases q <;> simp only [PredN.shape, Pred.and.injEq, reduceCtorEq] at hs
      simp only [PredN.depths, List.length_append, ih1 _ hs.1, ih2 _ hs.2]
    | or p1 p2 ih1 ih2 =>
      intro q hs
      cases q <;> simp only [PredN.shape, Pred.or.injEq, reduceCtorEq] at hs
      simp only [PredN.depths, List.length_append, ih1 _ hs.1, ih2 _ hs.2]
    | balanced p1 p2 d ih1 ih2 =>
      intro q hs
      cases q <;> simp only [PredN.shape, Pred.balanced.injEq, reduceCtorEq] at hs
      simp only [PredN.depths, List.length_cons, List.length_append, ih1 _ hs.1, ih2 _ hs.2]

/-! ## the copies map -/

theorem getCopy_nil (p : PredN) : getCopy [] p = p := rfl

theorem getCopy_setCopy (cs : Copies) (p c q : PredN) :
    getCopy (setCopy cs p c) q = if q = p then c else getCopy cs q := by
  unfold getCopy setCopy
  by_cases h : q = p
  · subst h
    simp
  · rw [if_neg h, List.find?_cons_of_neg (by simpa using fun h' => h h'.symm), List.find?_filter]
    have : (fun a : PredN × PredN => decide (decide (a.1 ≠ p) = true ∧ decide (a.1 = q) = true))
        = (fun e : PredN × PredN => decide (e.1 = q)) := by
      funext a
      by_cases ha : a.1 = q
      · simp [ha, h]
      · simp [ha]
    rw [this]

theorem getCopy_setCopy_self (cs : Copies) (p c : PredN) : getCopy (setCopy cs p c) p = c := by
  rw [getCopy_setCopy, if_pos rfl]

theorem getCopy_setCopy_ne (cs : Copies) {p q : PredN} (c : PredN) (h : q ≠ p) :
    getCopy (setCopy cs p c) q = getCopy cs q := by
  rw [getCopy_setCopy, if_neg h]

/-- evaluating template `p` changes only the copy of `p` -/
theorem getCopy_acceptCopy (p : PredN) (cs : Copies) (t : Tok) (q : PredN) :
    getCopy (acceptCopy p cs t).2 q
      = if q = p then (acceptNest (getCopy cs p) t).2 else getCopy cs q := by
  simp only [acceptCopy, getCopy_setCopy]

theorem acceptCopy_fst (p : PredN) (cs : Copies) (t : Tok) :
    (acceptCopy p cs t).1 = (acceptNest (getCopy cs p) t).1 := rfl

/-- two maps that hold the same copy for every template -/
def CopyEq (cs cs' : Copies) : Prop := ∀ p, getCopy cs p = getCopy cs' p

/-- evaluations of different templates commute: an attempt's copy of a predicate is touched
only by the evaluation of that predicate -/
theorem nestAcceptor_compat : AccCompat nestAcceptor CopyEq where
  refl := fun _ _ => rfl
  trans := fun h1 h2 p => (h1 p).trans (h2 p)
  cong := by
    intro p x ps ps' hE
    refine ⟨?_, ?_⟩
    · show (acceptCopy p ps x).1 = (acceptCopy p ps' x).1
      rw [acceptCopy_fst, acceptCopy_fst, hE p]
    · intro q
      show getCopy (acceptCopy p ps x).2 q = getCopy (acceptCopy p ps' x).2 q
      rw [getCopy_acceptCopy, getCopy_acceptCopy, hE p, hE q]
  comm_fst := by
    intro p p' ps x hne
    show (acceptCopy p (acceptCopy p' ps x).2 x).1 = (acceptCopy p ps x).1
    rw [acceptCopy_fst, acceptCopy_fst, getCopy_acceptCopy, if_neg hne]
  comm_snd := by
    intro p p' ps x hne q
    show getCopy (acceptCopy p' (acceptCopy p ps x).2 x).2 q
      = getCopy (acceptCopy p (acceptCopy p' ps x).2 x).2 q
    simp only [getCopy_acceptCopy]
    by_cases h1 : q = p
    · subst h1
      simp [hne]
    · by_cases h2 : q = p'
      · subst h2
        simp [h1]
      · simp [h1, h2]

/-! ## stateless predicates and top-level `Balanced` -/

/-- no `Balanced` node anywhere -/
def Pred.flat : Pred → Bool
  | .not p => p.flat
  | .and p q => p.flat && q.flat
  | .or p q => p.flat && q.flat
  | .balanced _ _ => false
  | _ => true

/-- every `Balanced` node is the top node, and its operands are stateless: the predicates
`Model/Token.lean` evaluates faithfully -/
def Pred.topOk : Pred → Bool
  | .balanced l r => l.flat && r.flat
  | p => p.flat

theorem Pred.isBal_of_flat {p : Pred} (h : p.flat = true) : p.isBal = false := by
  cases p <;> first | rfl | cases h

/-- a predicate without `Balanced` nodes is stateless and judges as `Pred.eval` says -/
theorem acceptNest_emb_flat {p : Pred} (h : p.flat = true) (t : Tok) :
    acceptNest p.emb t = (p.eval t, p.emb) := by
  induction p with
  | name | keyword | symbol | operator | value | ident => rfl
  | not p ih =>
    simp only [Pred.flat] at h
    simp only [Pred.emb, acceptNest, ih h, Pred.eval]
  | and p q ihp ihq =>
    simp only [Pred.flat, Bool.and_eq_true] at h
    simp only [Pred.emb, acceptNest, ihp h.1, ihq h.2, Pred.eval]
    cases p.eval t <;> simp
  | or p q ihp ihq =>
    simp only [Pred.flat, Bool.and_eq_true] at h
    simp only [Pred.emb, acceptNest, ihp h.1, ihq h.2, Pred.eval]
    cases p.eval t <;> simp
  | balanced l r => cases h

/-- the object of `p` in which the top node (if it is a `Balanced`) has depth `d` -/
def Pred.embD : Pred → Int → PredN
  | .balanced l r, d => .balanced l.emb r.emb d
  | p, _ => p.emb

theorem Pred.embD_zero (p : Pred) : p.embD 0 = p.emb := by
  cases p <;> rfl

/-- on predicates with `topOk` the object model and `acceptTok` agree: same verdict, and the
object's depth is the depth `acceptTok` stores -/
theorem acceptNest_embD {p : Pred} (h : p.topOk = true) (ds : Depths) (t : Tok) :
    acceptNest (p.embD (getDepth ds p)) t
      = ((acceptTok p ds t).1, p.embD (getDepth (acceptTok p ds t).2 p)) := by
  cases p with
  | balanced l r =>
    simp only [Pred.topOk, Bool.and_eq_true] at h
    simp only [Pred.embD, acceptNest, acceptNest_emb_flat h.1, acceptNest_emb_flat h.2, acceptTok]
    cases l.eval t
    · cases r.eval t
      · simp
      · simp [getDepth_setDepth_self]
    · simp [getDepth_setDepth_self]
  | name | keyword | symbol | operator | value | ident =>
    rfl
  | not q =>
    have hf : (Pred.not q).flat = true := h
    show acceptNest (Pred.not q).emb t = _
    rw [acceptNest_emb_flat hf]; rfl
  | and q1 q2 =>
    have hf : (Pred.and q1 q2).flat = true := h
    show acceptNest (Pred.and q1 q2).emb t = _
    rw [acceptNest_emb_flat hf]; rfl
  | or q1 q2 =>
    have hf : (Pred.or q1 q2).flat = true := h
    show acceptNest (Pred.or q1 q2).emb t = _
    rw [acceptNest_emb_flat hf]; rfl

theorem Pred.embD_injective {p q : Pred} {d e : Int} (h : p.embD d = q.embD e) : p = q := by
  have := congrArg PredN.shape h
  have hs : ∀ (p : Pred) (d : Int), (p.embD d).shape = p := by
    intro p d
    cases p <;> simp [Pred.embD, PredN.shape, Pred.shape_emb]
  rwa [hs, hs] at this

end CL
