import CodeLimit.Lemmas.TokenNestRun
import CodeLimit.Lemmas.TokenNestMap
/-!
# When can an attempt over nested `Balanced` predicates end before the end of the input?

* `PredN.saturated` - a sufficient condition for an object to accept every token (a `Balanced`
  node at positive depth in a position where its verdict decides: below `Or` on either side,
  below `And` on both sides). An attempt that stops although the current row has a transition
  labelled `G` holds a copy of `G` that is not saturated (`stuck_not_saturated`).
* `PredN.orTree` - `Or`-combinations of stateless predicates and simple `Balanced` (stateless
  operands). For them "not saturated" is "every depth `≤ 0`".
* `PredN.guardedNonneg` - the nodes whose depth cannot become negative while the attempt is
  alive are those whose `False` verdict makes the whole predicate `False`: the top node, the
  right operand of `Or`, both operands of `And` - not the left operand of `Or`, nothing below
  `Not`, nothing below a `Balanced`.
* `PredN.rightBal` - at most one `Balanced`, simple, at the right end of a chain of `Or`s whose
  left operands are stateless: the class for which an early end implies that every depth is
  exactly `0` (the copy is back in the state of a fresh template).
-/
namespace CL

/-! ## stateless objects -/

/-- no `Balanced` node -/
def PredN.flatN : PredN → Bool
  | .not p => p.flatN
  | .and p q => p.flatN && q.flatN
  | .or p q => p.flatN && q.flatN
  | .balanced _ _ _ => false
  | _ => true

theorem acceptNest_flatN {p : PredN} (h : p.flatN = true) (t : Tok) :
    acceptNest p t = (p.shape.eval t, p) := by
  induction p with
  | name | keyword | symbol | operator | value | ident => rfl
  | not p ih =>
    simp only [PredN.flatN] at h
    simp only [acceptNest, ih h, PredN.shape, Pred.eval]
  | and p q ihp ihq =>
    simp only [PredN.flatN, Bool.and_eq_true] at h
    simp only [acceptNest, ihp h.1, ihq h.2, PredN.shape, Pred.eval]
    cases p.shape.eval t <;> simp
  | or p q ihp ihq =>
    simp only [PredN.flatN, Bool.and_eq_true] at h
    simp only [acceptNest, ihp h.1, ihq h.2, PredN.shape, Pred.eval]
    cases p.shape.eval t <;> simp
  | balanced l r d => cases h

theorem depths_flatN {p : PredN} (h : p.flatN = true) : p.depths = [] := by
  induction p with
  | name | keyword | symbol | operator | value | ident => rfl
  | not p ih => exact ih h
  | and p q ihp ihq =>
    simp only [PredN.flatN, Bool.and_eq_true] at h
    simp only [PredN.depths, ihp h.1, ihq h.2, List.append_nil]
  | or p q ihp ihq =>
    simp only [PredN.flatN, Bool.and_eq_true] at h
    simp only [PredN.depths, ihp h.1, ihq h.2, List.append_nil]
  | balanced l r d => cases h

/-- a simple `Balanced` (stateless operands): the depth moves by `nestDelta`, whatever the
verdict -/
theorem acceptNest_simple {l r : PredN} (hl : l.flatN = true) (hr : r.flatN = true) (d : Int)
    (t : Tok) :
    (acceptNest (.balanced l r d) t).2 = .balanced l r (d + nestDelta l.shape r.shape t) := by
  simp only [acceptNest, acceptNest_flatN hl, acceptNest_flatN hr, nestDelta]
  cases l.shape.eval t
  · cases r.shape.eval t
    · simp
    · simp; omega
  · simp

theorem feed_simple {l r : PredN} (hl : l.flatN = true) (hr : r.flatN = true) (d : Int)
    (w : List Tok) : feed (.balanced l r d) w = .balanced l r (d + nest l.shape r.shape w) := by
  induction w generalizing d with
  | nil => simp [feed_nil, nest]
  | cons x xs ih =>
    rw [feed_cons, acceptNest_simple hl hr, ih]
    simp only [nest]
    congr 1; omega

theorem acceptNest_or_snd (a q : PredN) (x : Tok) :
    (acceptNest (.or a q) x).2
      = .or (acceptNest a x).2 (if (acceptNest a x).1 then q else (acceptNest q x).2) := by
  simp only [acceptNest]
  split <;> rfl

/-- the left operand of an `Or` is evaluated on every token: if it is a simple `Balanced` its
depth is the net nesting profile of all tokens shown to the `Or` -/
theorem feed_or_left {l r : PredN} (hl : l.flatN = true) (hr : r.flatN = true) (d : Int)
    (q : PredN) (w : List Tok) :
    ∃ q', feed (.or (.balanced l r d) q) w
        = .or (.balanced l r (d + nest l.shape r.shape w)) q' ∧ q'.shape = q.shape := by
  induction w generalizing d q with
  | nil => exact ⟨q, by simp [feed_nil, nest], rfl⟩
  | cons x xs ih =>
    have hstep : ∃ q1, (acceptNest (.or (.balanced l r d) q) x).2
        = .or (.balanced l r (d + nestDelta l.shape r.shape x)) q1 ∧ q1.shape = q.shape := by
      rw [acceptNest_or_snd, acceptNest_simple hl hr d x]
      split
      · exact ⟨q, rfl, rfl⟩
      · exact ⟨_, rfl, acceptNest_shape q x⟩
    obtain ⟨q1, h1, hs1⟩ := hstep
    obtain ⟨q', h', hs'⟩ := ih (d + nestDelta l.shape r.shape x) q1
    refine ⟨q', ?_, hs'.trans hs1⟩
    rw [feed_cons, h1, h']
    simp only [nest]
    congr 2; omega

/-! ## saturation -/

/-- sufficient for "accepts every token" -/
def PredN.saturated : PredN → Bool
  | .balanced _ _ d => decide (0 < d)
  | .or p q => p.saturated || q.saturated
  | .and p q => p.saturated && q.saturated
  | _ => false

theorem saturated_accepts {p : PredN} (h : p.saturated = true) (t : Tok) :
    (acceptNest p t).1 = true := by
  induction p with
  | name | keyword | symbol | operator | value | ident | not => cases h
  | and p q ihp ihq =>
    simp only [PredN.saturated, Bool.and_eq_true] at h
    simp only [acceptNest, ihp h.1, ihq h.2, if_true]
  | or p q ihp ihq =>
    simp only [PredN.saturated, Bool.or_eq_true] at h
    simp only [acceptNest]
    split
    · rfl
    · rcases h with h | h
      · rename_i hn; exact absurd (ihp h) hn
      · exact ihq h
  | balanced l r d =>
    simp only [PredN.saturated, decide_eq_true_eq] at h
    simp only [acceptNest]
    split
    · rfl
    · split
      · simp; omega
      · simp; exact h

/-- `Or`-combinations of stateless predicates and simple `Balanced` predicates -/
def PredN.orTree : PredN → Bool
  | .or p q => p.orTree && q.orTree
  | .balanced l r _ => l.flatN && r.flatN
  | p => p.flatN

theorem saturated_flatN {p : PredN} (h : p.flatN = true) : p.saturated = false := by
  induction p with
  | name | keyword | symbol | operator | value | ident | not => rfl
  | and p q ihp _ =>
    simp only [PredN.flatN, Bool.and_eq_true] at h
    simp only [PredN.saturated, ihp h.1, Bool.false_and]
  | or p q ihp ihq =>
    simp only [PredN.flatN, Bool.and_eq_true] at h
    simp only [PredN.saturated, ihp h.1, ihq h.2, Bool.or_self]
  | balanced l r d => cases h

theorem orTree_of_flatN {p : PredN} (h : p.flatN = true) : p.orTree = true := by
  induction p with
  | name | keyword | symbol | operator | value | ident | not | and => exact h
  | or a b iha ihb =>
    simp only [PredN.flatN, Bool.and_eq_true] at h
    simp only [PredN.orTree, Bool.and_eq_true]
    exact ⟨iha h.1, ihb h.2⟩
  | balanced => cases h

/-- for an `Or`-tree: not saturated = no `Balanced` node is inside an open group -/
theorem orTree_not_saturated_iff {p : PredN} (h : p.orTree = true) :
    p.saturated = false ↔ ∀ d ∈ p.depths, d ≤ 0 := by
  induction p with
  | name | keyword | symbol | operator | value | ident =>
    simp [PredN.saturated, PredN.depths]
  | not p _ =>
    have : (PredN.not p).depths = [] := depths_flatN h
    simp [PredN.saturated, this]
  | and p q _ _ =>
    have : (PredN.and p q).depths = [] := depths_flatN h
    have h2 : (PredN.and p q).saturated = false := saturated_flatN h
    simp [h2, this]
  | or p q ihp ihq =>
    simp only [PredN.orTree, Bool.and_eq_true] at h
    simp only [PredN.saturated, Bool.or_eq_false_iff, ihp h.1, ihq h.2, PredN.depths,
      List.mem_append]
    constructor
    · rintro ⟨h1, h2⟩ d (hd | hd)
      · exact h1 d hd
      · exact h2 d hd
    · intro h'
      exact ⟨fun d hd => h' d (.inl hd), fun d hd => h' d (.inr hd)⟩
  | balanced l r d =>
    simp only [PredN.orTree, Bool.and_eq_true] at h
    simp only [PredN.saturated, PredN.depths, depths_flatN h.1, depths_flatN h.2,
      List.append_nil, List.mem_cons, List.not_mem_nil, or_false, forall_eq,
      decide_eq_false_iff_not]
    omega

/-! ## depths that cannot become negative -/

/-- every `Balanced` node in a guarded position (top, right of `Or`, either side of `And`)
has depth `≥ 0` -/
def PredN.guardedNonneg : PredN → Bool
  | .balanced _ _ d => decide (0 ≤ d)
  | .or _ q => q.guardedNonneg
  | .and p q => p.guardedNonneg && q.guardedNonneg
  | _ => true

/-- an accepted token keeps the guarded depths non-negative -/
theorem guardedNonneg_accept {p : PredN} (h : p.guardedNonneg = true) {t : Tok}
    (ha : (acceptNest p t).1 = true) : (acceptNest p t).2.guardedNonneg = true := by
  induction p with
  | name | keyword | symbol | operator | value | ident => rfl
  | not p _ => rfl
  | and p q ihp ihq =>
    simp only [PredN.guardedNonneg, Bool.and_eq_true] at h
    simp only [acceptNest] at ha ⊢
    split
    · rename_i h1
      simp only [h1, if_true] at ha
      simp only [PredN.guardedNonneg, ihp h.1 h1, ihq h.2 ha, Bool.and_self]
    · rename_i h1
      simp only [h1, Bool.false_eq_true, if_false] at ha
  | or p q _ ihq =>
    simp only [PredN.guardedNonneg] at h
    simp only [acceptNest] at ha ⊢
    split
    · exact h
    · rename_i h1
      simp only [h1, Bool.false_eq_true, if_false] at ha
      exact ihq h ha
  | balanced l r d =>
    simp only [PredN.guardedNonneg, decide_eq_true_eq] at h
    simp only [acceptNest] at ha ⊢
    split
    · simp only [PredN.guardedNonneg, decide_eq_true_eq]; omega
    · rename_i h1
      simp only [h1, Bool.false_eq_true, if_false] at ha
      split
      · rename_i h2
        simp only [h2, if_true, decide_eq_true_eq] at ha
        simp only [PredN.guardedNonneg, decide_eq_true_eq]; exact ha
      · simp only [PredN.guardedNonneg, decide_eq_true_eq]; exact h

/-- at most one `Balanced` node, simple, reached from the top through right operands of `Or`
whose left operands are stateless -/
def PredN.rightBal : PredN → Bool
  | .or p q => p.flatN && q.rightBal
  | .balanced l r _ => l.flatN && r.flatN
  | p => p.flatN

theorem rightBal_orTree {p : PredN} (h : p.rightBal = true) : p.orTree = true := by
  induction p with
  | name | keyword | symbol | operator | value | ident | not | and | balanced => exact h
  | or p q _ ihq =>
    simp only [PredN.rightBal, Bool.and_eq_true] at h
    simp only [PredN.orTree, Bool.and_eq_true]
    exact ⟨orTree_of_flatN h.1, ihq h.2⟩

/-- in the class `rightBal` every depth is guarded -/
theorem rightBal_depths_nonneg {p : PredN} (h : p.rightBal = true)
    (hg : p.guardedNonneg = true) : ∀ d ∈ p.depths, 0 ≤ d := by
  induction p with
  | name | keyword | symbol | operator | value | ident => simp [PredN.depths]
  | not p _ =>
    have : (PredN.not p).depths = [] := depths_flatN h
    simp [this]
  | and p q _ _ =>
    have : (PredN.and p q).depths = [] := depths_flatN h
    simp [this]
  | or p q _ ihq =>
    simp only [PredN.rightBal, Bool.and_eq_true] at h
    simp only [PredN.depths, depths_flatN h.1, List.nil_append]
    exact ihq h.2 hg
  | balanced l r d =>
    simp only [PredN.rightBal, Bool.and_eq_true] at h
    simp only [PredN.guardedNonneg, decide_eq_true_eq] at hg
    simp only [PredN.depths, depths_flatN h.1, depths_flatN h.2, List.append_nil,
      List.mem_cons, List.not_mem_nil, or_false, forall_eq]
    exact hg

/-! ## attempts -/

/-- every row with a `G` transition has no other transition -/
def SingleRows (D : Dfa PredN) (G : PredN) : Prop :=
  ∀ s, G ∈ labelsOf (D.row s) → ∃ t, D.row s = [(G, t)]

/-- every accepting state has a `G` transition -/
def AccHasG (D : Dfa PredN) (G : PredN) : Prop :=
  ∀ s, D.isAcc s = true → G ∈ labelsOf (D.row s)

/-- decidable form of the two conditions -/
def shapeOk (D : Dfa PredN) (G : PredN) : Bool :=
  D.rows.all (fun rw => !(labelsOf rw.2).contains G || (decide (rw.2.length = 1))) &&
    D.acc.all (fun s => (labelsOf (D.row s)).contains G)

theorem Dfa.row_casesN (D : Dfa PredN) (s : DState) : D.row s = [] ∨ (s, D.row s) ∈ D.rows := by
  unfold Dfa.row
  cases h : D.rows.find? (fun r => r.1 = s) with
  | none => exact .inl rfl
  | some r =>
    have h1 : r.1 = s := by simpa using List.find?_some h
    have h2 : r ∈ D.rows := List.mem_of_find?_eq_some h
    right
    obtain ⟨a, b⟩ := r
    cases h1
    exact h2

theorem shapeOk_spec {D : Dfa PredN} {G : PredN} (h : shapeOk D G = true) :
    SingleRows D G ∧ AccHasG D G := by
  simp only [shapeOk, Bool.and_eq_true, List.all_eq_true] at h
  refine ⟨?_, ?_⟩
  · intro s hG
    rcases D.row_casesN s with h0 | h0
    · rw [h0] at hG; cases hG
    · have := h.1 _ h0
      simp only [Bool.or_eq_true, Bool.not_eq_true', decide_eq_true_eq] at this
      rcases this with h1 | h1
      · have : (labelsOf (D.row s)).contains G = true := by simpa using hG
        rw [h1] at this; cases this
      · match hrow : D.row s, h1, hG with
        | [(p, t)], _, hG =>
          simp only [labelsOf, List.map_cons, List.map_nil, List.mem_cons, List.not_mem_nil,
            or_false] at hG
          subst hG
          exact ⟨t, rfl⟩
  · intro s hs
    have : s ∈ D.acc := by simpa [Dfa.isAcc] using hs
    simpa using h.2 s this

/-- while an attempt is alive the guarded depths of its copy of `G` are non-negative -/
theorem reach_guarded {D : Dfa PredN} {G : PredN} (hsr : SingleRows D G)
    (hG : G.guardedNonneg = true) {cfg : DState × Copies} (h : ReachN D cfg) :
    (getCopy cfg.2 G).guardedNonneg = true := by
  induction h with
  | init => exact hG
  | @step cfg cfg' tok _ hstep ih =>
    have h' := stepN_some hstep
    by_cases hin : G ∈ labelsOf (D.row cfg.1)
    · obtain ⟨t, hrow⟩ := hsr _ hin
      rw [hrow] at h'
      obtain ⟨hacc, _⟩ := consumeAux_single h'
      have hc : getCopy cfg'.2 G = (acceptNest (getCopy cfg.2 G) tok).2 :=
        consumeAux_copy_present (by simp [labelsOf]) (by simp [labelsOf]) h'
      rw [hc]
      exact guardedNonneg_accept ih hacc
    · rw [consumeAux_copy_absent hin h']
      exact ih

/-- an attempt that is committed before the end of the input (it could not continue on the
next token) holds a copy of `G` that is not saturated -/
theorem early_end_not_saturated {D : Dfa PredN} {G : PredN} (hnn : D.isAcc .start = false)
    (hacc : AccHasG D G) {toks : List Tok} {ms : List (Match Tok)}
    (hms : findAll (nestM D) toks = .ok ms) {m : Match Tok} (hm : m ∈ ms)
    (hlt : m.e < toks.length) :
    ∃ q, runM (nestM D) (.start, []) m.toks = some q ∧ D.isAcc q.1 = true ∧
      ReachN D q ∧ (getCopy q.2 G).saturated = false := by
  obtain ⟨hg, ht⟩ := (findAll_spec (A := nestM D) hnn (dfaMachine_deadStuck D nestAcceptor) hms).1
    m hm
  obtain ⟨_, _, q, hr, hq, hend⟩ := hg
  rw [← ht] at hr
  have hr' : runM (nestM D) (.start, []) m.toks = some q := hr
  have hq' : D.isAcc q.1 = true := hq
  refine ⟨q, hr', hq', reachN_runM _ ReachN.init hr', ?_⟩
  have hin := hacc _ hq'
  rcases hend with h | h | ⟨x, _, hx⟩
  · omega
  · have : (D.row q.1).isEmpty = true := h
    have hnil : D.row q.1 = [] := by simpa using this
    rw [hnil] at hin; cases hin
  · have hrej := step_none_rejects hin hx
    cases hs : (getCopy q.2 G).saturated
    · rfl
    · rw [saturated_accepts hs x] at hrej; cases hrej

/-- `Or`-trees: an early end happens only when no `Balanced` node is inside an open group, and
the guarded ones are at exactly `0` -/
theorem early_end_orTree {D : Dfa PredN} {G : PredN} (hnn : D.isAcc .start = false)
    (hsr : SingleRows D G) (hacc : AccHasG D G) (hot : G.orTree = true)
    (hG : G.guardedNonneg = true) {toks : List Tok} {ms : List (Match Tok)}
    (hms : findAll (nestM D) toks = .ok ms) {m : Match Tok} (hm : m ∈ ms)
    (hlt : m.e < toks.length) :
    ∃ q, runM (nestM D) (.start, []) m.toks = some q ∧ D.isAcc q.1 = true ∧
      (getCopy q.2 G).shape = G.shape ∧ (∀ d ∈ (getCopy q.2 G).depths, d ≤ 0) ∧
      (getCopy q.2 G).guardedNonneg = true := by
  obtain ⟨q, hr, hq, hreach, hsat⟩ := early_end_not_saturated hnn hacc hms hm hlt
  have hshape : ∀ {cfg : DState × Copies}, ReachN D cfg → (getCopy cfg.2 G).shape = G.shape := by
    intro cfg h
    induction h with
    | init => rfl
    | @step cfg cfg' tok _ hstep ih =>
      have h' := stepN_some hstep
      by_cases hin : G ∈ labelsOf (D.row cfg.1)
      · obtain ⟨t, hrow⟩ := hsr _ hin
        rw [hrow] at h'
        have hc : getCopy cfg'.2 G = (acceptNest (getCopy cfg.2 G) tok).2 :=
          consumeAux_copy_present (by simp [labelsOf]) (by simp [labelsOf]) h'
        rw [hc, acceptNest_shape, ih]
      · rw [consumeAux_copy_absent hin h', ih]
  have hs := hshape hreach
  have hot' : (getCopy q.2 G).orTree = true := orTree_of_shape hs hot
  exact ⟨q, hr, hq, hs, (orTree_not_saturated_iff hot').1 hsat, reach_guarded hsr hG hreach⟩
where
  orTree_of_shape : ∀ {p q : PredN}, p.shape = q.shape → q.orTree = true → p.orTree = true := by
    intro p q hs hq
    have hflat : ∀ (p q : PredN), p.shape = q.shape → q.flatN = true → p.flatN = true := by
      intro p
      induction p with
      | name | keyword | symbol | operator | value | ident =>
        intro q _ _; rfl
      | not p ih =>
        intro q hs hq
        cases q <;> simp only [PredN.shape, Pred.not.injEq, reduceCtorEq] at hs
        exact ih _ hs hq
      | and a b iha ihb =>
        intro q hs hq
        cases q <;> simp only [PredN.shape, Pred.and.injEq, reduceCtorEq] at hs
        simp only [PredN.flatN, Bool.and_eq_true] at hq ⊢
        exact ⟨iha _ hs.1 hq.1, ihb _ hs.2 hq.2⟩
      | or a b iha ihb =>
        intro q hs hq
        cases q <;> simp only [PredN.shape, Pred.or.injEq, reduceCtorEq] at hs
        simp only [PredN.flatN, Bool.and_eq_true] at hq ⊢
        exact ⟨iha _ hs.1 hq.1, ihb _ hs.2 hq.2⟩
      | balanced a b d _ _ =>
        intro q hs hq
        cases q <;> simp only [PredN.shape, Pred.balanced.injEq, reduceCtorEq] at hs
        cases hq
    induction p generalizing q with
    | name | keyword | symbol | operator | value | ident => rfl
    | not p _ =>
      cases q <;> simp only [PredN.shape, Pred.not.injEq, reduceCtorEq] at hs
      exact hflat (.not p) (.not _) (by simp [PredN.shape, hs]) hq
    | and a b _ _ =>
      cases q <;> simp only [PredN.shape, Pred.and.injEq, reduceCtorEq] at hs
      exact hflat (.and a b) (.and _ _) (by simp [PredN.shape, hs]) hq
    | or a b iha ihb =>
      cases q <;> simp only [PredN.shape, Pred.or.injEq, reduceCtorEq] at hs
      simp only [PredN.orTree, Bool.and_eq_true] at hq ⊢
      exact ⟨iha hs.1 hq.1, ihb hs.2 hq.2⟩
    | balanced a b d _ _ =>
      cases q <;> simp only [PredN.shape, Pred.balanced.injEq, reduceCtorEq] at hs
      simp only [PredN.orTree, Bool.and_eq_true] at hq ⊢
      exact ⟨hflat _ _ hs.1 hq.1, hflat _ _ hs.2 hq.2⟩

/-- the class `rightBal`, fresh template: at an early end the copy is back in the state of the
template (every depth is `0`) -/
theorem early_end_rightBal {D : Dfa PredN} {G : PredN} (hnn : D.isAcc .start = false)
    (hsr : SingleRows D G) (hacc : AccHasG D G) (hrb : G.rightBal = true)
    (hzero : ∀ d ∈ G.depths, d = 0) {toks : List Tok} {ms : List (Match Tok)}
    (hms : findAll (nestM D) toks = .ok ms) {m : Match Tok} (hm : m ∈ ms)
    (hlt : m.e < toks.length) :
    ∃ q, runM (nestM D) (.start, []) m.toks = some q ∧ D.isAcc q.1 = true ∧
      getCopy q.2 G = G := by
  have hG : G.guardedNonneg = true := by
    clear hsr hacc hms
    induction G with
    | name | keyword | symbol | operator | value | ident | not => rfl
    | and p q _ _ =>
      have h1 : (PredN.and p q).flatN = true := hrb
      simp only [PredN.flatN, Bool.and_eq_true] at h1
      simp only [PredN.guardedNonneg, Bool.and_eq_true]
      exact ⟨gn_flat h1.1, gn_flat h1.2⟩
    | or p q _ ihq =>
      simp only [PredN.rightBal, Bool.and_eq_true] at hrb
      simp only [PredN.guardedNonneg]
      exact ihq hrb.2 (fun d hd => hzero d (by simp [PredN.depths, hd]))
    | balanced l r d _ _ =>
      have := hzero d (by simp [PredN.depths])
      simp [PredN.guardedNonneg, this]
  obtain ⟨q, hr, hq, hs, hle, hgn⟩ :=
    early_end_orTree hnn hsr hacc (rightBal_orTree hrb) hG hms hm hlt
  refine ⟨q, hr, hq, ?_⟩
  have hrb' : (getCopy q.2 G).rightBal = true := rightBal_of_shape _ _ hs hrb
  have hge := rightBal_depths_nonneg hrb' hgn
  apply PredN.ext_shape_depths _ _ hs
  have hlen : (getCopy q.2 G).depths.length = G.depths.length :=
    PredN.ext_shape_depths.depths_length _ _ hs
  apply List.ext_getElem hlen
  intro i h1 h2
  have a1 := hle _ (List.getElem_mem h1)
  have a2 := hge _ (List.getElem_mem h1)
  have a3 := hzero _ (List.getElem_mem h2)
  omega
where
  gn_flat : ∀ {p : PredN}, p.flatN = true → p.guardedNonneg = true := by
    intro p
    induction p with
    | name | keyword | symbol | operator | value | ident | not => intro _; rfl
    | and a b iha ihb =>
      intro h
      simp only [PredN.flatN, Bool.and_eq_true] at h
      simp only [PredN.guardedNonneg, Bool.and_eq_true]
      exact ⟨iha h.1, ihb h.2⟩
    | or a b _ ihb =>
      intro h
      simp only [PredN.flatN, Bool.and_eq_true] at h
      exact ihb h.2
    | balanced => intro h; cases h
  flat_of_shape : ∀ (p q : PredN), p.shape = q.shape → q.flatN = true → p.flatN = true := by
    intro p
    induction p with
    | name | keyword | symbol | operator | value | ident =>
      intro q _ _; rfl
    | not p ih =>
      intro q hs hq
      cases q <;> simp only [PredN.shape, Pred.not.injEq, reduceCtorEq] at hs
      exact ih _ hs hq
    | and a b iha ihb =>
      intro q hs hq
      cases q <;> simp only [PredN.shape, Pred.and.injEq, reduceCtorEq] at hs
      simp only [PredN.flatN, Bool.and_eq_true] at hq ⊢
      exact ⟨iha _ hs.1 hq.1, ihb _ hs.2 hq.2⟩
    | or a b iha ihb =>
      intro q hs hq
      cases q <;> simp only [PredN.shape, Pred.or.injEq, reduceCtorEq] at hs
      simp only [PredN.flatN, Bool.and_eq_true] at hq ⊢
      exact ⟨iha _ hs.1 hq.1, ihb _ hs.2 hq.2⟩
    | balanced a b d _ _ =>
      intro q hs hq
      cases q <;> simp only [PredN.shape, Pred.balanced.injEq, reduceCtorEq] at hs
      cases hq
  rightBal_of_shape : ∀ (p q : PredN), p.shape = q.shape → q.rightBal = true →
      p.rightBal = true := by
    intro p
    induction p with
    | name | keyword | symbol | operator | value | ident => intro q _ _; rfl
    | not p _ =>
      intro q hs hq
      cases q <;> simp only [PredN.shape, Pred.not.injEq, reduceCtorEq] at hs
      exact flat_of_shape (.not p) (.not _) (by simp [PredN.shape, hs]) hq
    | and a b _ _ =>
      intro q hs hq
      cases q <;> simp only [PredN.shape, Pred.and.injEq, reduceCtorEq] at hs
      exact flat_of_shape (.and a b) (.and _ _) (by simp [PredN.shape, hs]) hq
    | or a b _ ihb =>
      intro q hs hq
      cases q <;> simp only [PredN.shape, Pred.or.injEq, reduceCtorEq] at hs
      simp only [PredN.rightBal, Bool.and_eq_true] at hq ⊢
      exact ⟨flat_of_shape _ _ hs.1 hq.1, ihb _ hs.2 hq.2⟩
    | balanced a b d _ _ =>
      intro q hs hq
      cases q <;> simp only [PredN.shape, Pred.balanced.injEq, reduceCtorEq] at hs
      simp only [PredN.rightBal, Bool.and_eq_true] at hq ⊢
      exact ⟨flat_of_shape _ _ hs.1 hq.1, flat_of_shape _ _ hs.2 hq.2⟩

/-! ## compiled tables -/

theorem compileNest_spec {r : Rx PredN} {D : Dfa PredN} (hD : compileNest r = .ok D) :
    nfaToDfa (compile r 1) id = some D := by
  unfold compileNest at hD
  split at hD
  · rename_i D0 h0; cases hD; exact h0
  · cases hD

theorem compileNest_rowsNodup {r : Rx PredN} {D : Dfa PredN} (hD : compileNest r = .ok D) :
    RowsNodup D :=
  fun s => row_nodup (compile_wf r 1) isOrder_id (compileNest_spec hD) s

theorem compileNest_total (r : Rx PredN) : ∃ D, compileNest r = .ok D := by
  obtain ⟨D, hD⟩ := compile_terminates r 1 (isOrder_id (α := PredN))
  exact ⟨D, by simp only [compileNest, hD]⟩

theorem findAllNest_eq {r : Rx PredN} {D : Dfa PredN} (hD : compileNest r = .ok D)
    (toks : List Tok) : findAllNest r toks = findAll (nestM D) toks := by
  simp only [findAllNest, hD]

/-- `Pattern.consume` raises nothing but "Multiple transitions found!" -/
theorem consumeAux_error_multi {α π β : Type} {C : Acceptor α π β} {x : β}
    {row : List (α × DState)} {f : Option DState} {ps : π} {e : Err}
    (h : consumeAux C x row f ps = .error e) : e = .multipleTransitions := by
  induction row generalizing f ps with
  | nil => cases h
  | cons pt rest ih =>
    obtain ⟨p, t⟩ := pt
    simp only [consumeAux] at h
    split at h
    · split at h
      · cases h; rfl
      · exact ih h
    · exact ih h

theorem findAllNest_error {r : Rx PredN} {toks : List Tok} {e : Err}
    (h : findAllNest r toks = .error e) : e = .multipleTransitions := by
  obtain ⟨D, hD⟩ := compileNest_total r
  rw [findAllNest_eq hD] at h
  obtain ⟨q, x, hs⟩ := findAll_error h
  simp only [nestM, dfaMachine, consume] at hs
  split at hs
  · rename_i e' he
    cases hs
    exact consumeAux_error_multi he
  · cases hs
  · cases hs

/-! ## two simple `Balanced` under `Or` -/

theorem feed_or_two {la ra lb rb : PredN} (hla : la.flatN = true) (hra : ra.flatN = true)
    (hlb : lb.flatN = true) (hrb : rb.flatN = true) (d e : Int) (w : List Tok) :
    ∃ e', feed (.or (.balanced la ra d) (.balanced lb rb e)) w
        = .or (.balanced la ra (d + nest la.shape ra.shape w)) (.balanced lb rb e') := by
  induction w generalizing d e with
  | nil => exact ⟨e, by simp [feed_nil, nest]⟩
  | cons x xs ih =>
    rw [feed_cons, acceptNest_or_snd, acceptNest_simple hla hra d x]
    have : ∃ e1, (if (acceptNest (.balanced la ra d) x).1 = true then PredN.balanced lb rb e
        else (acceptNest (.balanced lb rb e) x).2) = .balanced lb rb e1 := by
      split
      · exact ⟨e, rfl⟩
      · exact ⟨_, acceptNest_simple hlb hrb e x⟩
    obtain ⟨e1, he1⟩ := this
    rw [he1]
    obtain ⟨e', he'⟩ := ih (d + nestDelta la.shape ra.shape x) e1
    refine ⟨e', ?_⟩
    rw [he']
    simp only [nest]
    congr 2; omega

/-! ## executable witnesses -/

/-- `find_all` with the compiled pattern `r` reports on `toks` a match `(s, e)`, and after the
matched tokens the attempt's copy of `G` is the object `c` -/
def exitWitnessN (r : Rx PredN) (G : PredN) (toks : List Tok) (s e : Nat) (c : PredN) : Bool :=
  match compileNest r with
  | .ok D =>
    (match findAll (nestM D) toks with
      | .ok ms => ms.any (fun m => m.s == s && m.e == e &&
          (match runM (nestM D) (.start, []) m.toks with
            | some q => decide (getCopy q.2 G = c)
            | none => false))
      | .error _ => false)
  | .error _ => false

theorem exitWitnessN_spec {r : Rx PredN} {G : PredN} {toks : List Tok} {s e : Nat} {c : PredN}
    (h : exitWitnessN r G toks s e c = true) :
    ∃ D ms, compileNest r = .ok D ∧ findAllNest r toks = .ok ms ∧
      ∃ m ∈ ms, m.s = s ∧ m.e = e ∧
        ∃ q, runM (nestM D) (.start, []) m.toks = some q ∧ getCopy q.2 G = c := by
  unfold exitWitnessN at h
  split at h
  · rename_i D hD
    split at h
    · rename_i ms hms
      obtain ⟨m, hm, hc⟩ := List.any_eq_true.1 h
      simp only [Bool.and_eq_true, beq_iff_eq] at hc
      obtain ⟨⟨h1, h2⟩, h3⟩ := hc
      split at h3
      · rename_i q hq
        exact ⟨D, ms, hD, by rw [findAllNest_eq hD]; exact hms, m, hm, h1, h2, q, hq,
          by simpa using h3⟩
      · cases h3
    · cases h
  · cases h

end CL
