import CodeLimit.Spec.ProgTreeCanonArrow
import CodeLimit.Lemmas.ProgTreeCanonBare
/-!
# The fragments with arrow nodes do not depend on the locations

`Prog.CanonJsArrow` / `Prog.CanonTsArrow` of a located forest `locate s p` is that of the forest `p`
viewed at a dummy location (`Prog.bare`).
-/
namespace CL
open CL.Syn (isOpen isClose)

theorem arrowGap_same {a b : List Tok} (h : SameL a b) : arrowGap a = arrowGap b := by
  cases h with
  | nil => rfl
  | cons hab hr =>
    cases hr with
    | nil => simp only [arrowGap, hab.isSymbol]
    | cons _ _ => rfl

theorem Prog.Sim.app {a a' b b' : Prog Tok} (h1 : Prog.Sim a a') (h2 : Prog.Sim b b') :
    Prog.Sim (a.app b) (a'.app b') := by
  induction h1 with
  | nil => exact h2
  | leaf hab _ ih => exact .leaf hab ih
  | group hop hcl hi _ _ ih2 => exact .group hop hcl hi ih2
  | fn hh hg hop hcl hb _ _ _ ih3 => exact .fn hh hg hop hcl hb ih3

theorem Prog.Sim.toks {g g' : List Tok} {r r' : Prog Tok} (hg : SameL g g') (hr : Prog.Sim r r') :
    Prog.Sim (Prog.toks g r) (Prog.toks g' r') := by
  induction hg with
  | nil => exact hr
  | cons hab _ ih => exact .leaf hab ih

theorem Prog.Sim.plain {p q : Prog Tok} (h : Prog.Sim p q) : Prog.Sim p.plain q.plain := by
  induction h with
  | nil => exact .nil
  | leaf hab _ ih => exact .leaf hab ih
  | group hop hcl _ _ ih1 ih2 => exact .group hop hcl ih1 ih2
  | fn hh hg hop hcl _ _ _ ih2 ih3 =>
    simp only [Prog.plain, arrowGap_same hg]
    split
    · exact hh.app (Prog.Sim.toks hg (.group hop hcl ih2 ih3))
    · exact .fn hh hg hop hcl ih2 ih3

/-! ## token lists -/

theorem head_isOpen_same {a b : List Tok} (h : SameL a b) :
    a.head?.any isOpen = b.head?.any isOpen := by
  cases h with
  | nil => rfl
  | cons hab _ => simp [hab.isOpen]

theorem opensParams_same {a b : List Tok} (h : SameL a b) : opensParams a = opensParams b := by
  cases h with
  | nil => rfl
  | cons hab hr => simp only [opensParams, hab.isOpen, hab.isKw, head_isOpen_same hr]

theorem assignOpen_same {a b : List Tok} (h : SameL a b) : assignOpen a = assignOpen b := by
  cases h with
  | nil => rfl
  | cons hab hr => simp only [assignOpen, hab.isOperator, opensParams_same hr]

theorem noAssignOpen_same {a b : List Tok} (h : SameL a b) : noAssignOpen a = noAssignOpen b := by
  induction h with
  | nil => rfl
  | cons hab hr ih => simp only [noAssignOpen, hab.isName, assignOpen_same hr, ih]

theorem arrowStart_same {a b : List Tok} (h : SameL a b) : arrowStart a = arrowStart b := by
  cases h with
  | nil => rfl
  | cons hab hr => simp only [arrowStart, hab.isOperator, arrowAfterAssign_same hr]

theorem noArrowStart_same {a b : List Tok} (h : SameL a b) : noArrowStart a = noArrowStart b := by
  induction h with
  | nil => rfl
  | cons hab hr ih => simp only [noArrowStart, hab.isName, arrowStart_same hr, ih]

theorem paramGroups_same {a b : List Tok} (h : SameL a b) : paramGroups a = paramGroups b := by
  unfold paramGroups
  rw [sameL_isEmpty h, groupsOnly_same h]

theorem arrowTail_same {a b : List Tok} (h : SameL a b) : arrowTail a = arrowTail b := by
  cases h with
  | nil => rfl
  | cons hab hr =>
    simp only [arrowTail, hab.isOperator, paramGroups_same hr]
    congr 2
    cases hr with
    | nil => rfl
    | cons hcd hr' => simp only [hcd.isKw, paramGroups_same hr']

theorem arrowShape_same {a b : List Tok} (k : Nat) (h : SameL a b) :
    arrowShape a k = arrowShape b k := by
  unfold arrowShape
  congr 2
  · cases h with
    | nil => rfl
    | cons hab hr => simp only [hab.isName, arrowTail_same hr]
  · cases h with
    | nil => rfl
    | cons hab hr =>
      cases hr with
      | nil => rfl
      | cons hcd hr' => simp only [hab.isKw, hcd.isName, arrowTail_same hr']

theorem arrowHeaderOK_same {a b : List Tok} (k : Nat) (h : SameL a b) :
    arrowHeaderOK a k = arrowHeaderOK b k := by
  unfold arrowHeaderOK
  rw [arrowShape_same k h, noAssignOpen_same (h.drop (k + 1))]

/-! ## trees -/

theorem startsArrowBodyT_sim {p q : Prog Tok} (h : Prog.Sim p q) :
    p.startsArrowBodyT = q.startsArrowBodyT := by
  cases h with
  | nil => rfl
  | leaf hab hr =>
    cases hr with
    | nil => rfl
    | leaf _ _ => rfl
    | group _ _ _ _ => simp only [Prog.startsArrowBodyT, hab.isSymbol]
    | fn _ _ _ _ _ _ => rfl
  | group => rfl
  | fn => rfl

theorem arrowBodyAfterRunT_sim {p q : Prog Tok} (h : Prog.Sim p q) :
    p.arrowBodyAfterRunT = q.arrowBodyAfterRunT := by
  cases h with
  | nil => rfl
  | leaf hab hr =>
    simp only [Prog.arrowBodyAfterRunT, hab.isOpen, startsArrowBodyT_sim (hr.afterRun 1)]
  | group => rfl
  | fn => rfl

theorem arrowAfterAssignT_sim {p q : Prog Tok} (h : Prog.Sim p q) :
    p.arrowAfterAssignT = q.arrowAfterAssignT := by
  unfold Prog.arrowAfterAssignT
  rw [arrowBodyAfterRunT_sim h]
  congr 1
  cases h with
  | nil => rfl
  | leaf hab hr => simp only [hab.isKw, arrowBodyAfterRunT_sim hr]
  | group => rfl
  | fn => rfl

theorem falseArrowAfter_sim' {p q : Prog Tok} (h : Prog.Sim p q) :
    p.falseArrowAfter = q.falseArrowAfter := by
  cases h with
  | nil => rfl
  | leaf hab hr => simp only [Prog.falseArrowAfter, hab.isOperator, arrowAfterAssignT_sim hr]
  | group => rfl
  | fn => rfl

theorem arrowsOK_sim {p q : Prog Tok} (h : Prog.Sim p q) :
    ∀ pc, p.arrowsOK pc = q.arrowsOK pc := by
  induction h with
  | nil => intro pc; rfl
  | leaf hab hr ih =>
    intro pc
    simp only [Prog.arrowsOK, hab.isName, hab.isKw, falseArrowAfter_sim' hr.plain, ih]
  | group _ _ _ _ ih1 ih2 =>
    intro pc
    simp only [Prog.arrowsOK, ih1, ih2]
  | fn hh hg _ _ _ _ _ ih2 ih3 =>
    intro pc
    simp only [Prog.arrowsOK, arrowGap_same hg, arrowHeaderOK_same _ hh.flat,
      noArrowStart_same (hh.flat.drop _), ih2, ih3]

/-- **the fragment of JavaScript with arrow nodes does not depend on the locations** -/
theorem canonJsArrow_locate (p : Prog PTok) (s : Nat × Nat) :
    (locate s p).CanonJsArrow = p.bare.CanonJsArrow := by
  unfold Prog.CanonJsArrow
  rw [canonWith_sim cfgJs_same (sim_locate p s).plain, parenBal_same (sim_locate p s).flat,
    arrowsOK_sim (sim_locate p s)]

/-- **the fragment of TypeScript with arrow nodes does not depend on the locations** -/
theorem canonTsArrow_locate (p : Prog PTok) (s : Nat × Nat) :
    (locate s p).CanonTsArrow = p.bare.CanonTsArrow := by
  unfold Prog.CanonTsArrow
  rw [canonWith_sim cfgTs_same (sim_locate p s).plain, parenBal_same (sim_locate p s).flat,
    arrowsOK_sim (sim_locate p s)]

end CL
